
val negb : bool -> bool

type nat =
| O
| S of nat

val fst : ('a1 * 'a2) -> 'a1

val snd : ('a1 * 'a2) -> 'a2

val length : 'a1 list -> nat

val app : 'a1 list -> 'a1 list -> 'a1 list

type comparison =
| Eq
| Lt
| Gt

val compOpp : comparison -> comparison

type byte =
| X00
| X01
| X02
| X03
| X04
| X05
| X06
| X07
| X08
| X09
| X0a
| X0b
| X0c
| X0d
| X0e
| X0f
| X10
| X11
| X12
| X13
| X14
| X15
| X16
| X17
| X18
| X19
| X1a
| X1b
| X1c
| X1d
| X1e
| X1f
| X20
| X21
| X22
| X23
| X24
| X25
| X26
| X27
| X28
| X29
| X2a
| X2b
| X2c
| X2d
| X2e
| X2f
| X30
| X31
| X32
| X33
| X34
| X35
| X36
| X37
| X38
| X39
| X3a
| X3b
| X3c
| X3d
| X3e
| X3f
| X40
| X41
| X42
| X43
| X44
| X45
| X46
| X47
| X48
| X49
| X4a
| X4b
| X4c
| X4d
| X4e
| X4f
| X50
| X51
| X52
| X53
| X54
| X55
| X56
| X57
| X58
| X59
| X5a
| X5b
| X5c
| X5d
| X5e
| X5f
| X60
| X61
| X62
| X63
| X64
| X65
| X66
| X67
| X68
| X69
| X6a
| X6b
| X6c
| X6d
| X6e
| X6f
| X70
| X71
| X72
| X73
| X74
| X75
| X76
| X77
| X78
| X79
| X7a
| X7b
| X7c
| X7d
| X7e
| X7f
| X80
| X81
| X82
| X83
| X84
| X85
| X86
| X87
| X88
| X89
| X8a
| X8b
| X8c
| X8d
| X8e
| X8f
| X90
| X91
| X92
| X93
| X94
| X95
| X96
| X97
| X98
| X99
| X9a
| X9b
| X9c
| X9d
| X9e
| X9f
| Xa0
| Xa1
| Xa2
| Xa3
| Xa4
| Xa5
| Xa6
| Xa7
| Xa8
| Xa9
| Xaa
| Xab
| Xac
| Xad
| Xae
| Xaf
| Xb0
| Xb1
| Xb2
| Xb3
| Xb4
| Xb5
| Xb6
| Xb7
| Xb8
| Xb9
| Xba
| Xbb
| Xbc
| Xbd
| Xbe
| Xbf
| Xc0
| Xc1
| Xc2
| Xc3
| Xc4
| Xc5
| Xc6
| Xc7
| Xc8
| Xc9
| Xca
| Xcb
| Xcc
| Xcd
| Xce
| Xcf
| Xd0
| Xd1
| Xd2
| Xd3
| Xd4
| Xd5
| Xd6
| Xd7
| Xd8
| Xd9
| Xda
| Xdb
| Xdc
| Xdd
| Xde
| Xdf
| Xe0
| Xe1
| Xe2
| Xe3
| Xe4
| Xe5
| Xe6
| Xe7
| Xe8
| Xe9
| Xea
| Xeb
| Xec
| Xed
| Xee
| Xef
| Xf0
| Xf1
| Xf2
| Xf3
| Xf4
| Xf5
| Xf6
| Xf7
| Xf8
| Xf9
| Xfa
| Xfb
| Xfc
| Xfd
| Xfe
| Xff

val to_bits :
  byte -> bool * (bool * (bool * (bool * (bool * (bool * (bool * bool))))))

val eqb : bool -> bool -> bool

val map : ('a1 -> 'a2) -> 'a1 list -> 'a2 list

val existsb : ('a1 -> bool) -> 'a1 list -> bool

val forallb : ('a1 -> bool) -> 'a1 list -> bool

val filter : ('a1 -> bool) -> 'a1 list -> 'a1 list

type positive =
| XI of positive
| XO of positive
| XH

type n =
| N0
| Npos of positive

type z =
| Z0
| Zpos of positive
| Zneg of positive

module Pos :
 sig
  val compare_cont : comparison -> positive -> positive -> comparison

  val compare : positive -> positive -> comparison

  val eqb : positive -> positive -> bool
 end

module Z :
 sig
  val compare : z -> z -> comparison

  val leb : z -> z -> bool

  val ltb : z -> z -> bool

  val geb : z -> z -> bool

  val gtb : z -> z -> bool

  val eqb : z -> z -> bool
 end

val eqb0 : byte -> byte -> bool

val to_N : byte -> n

val of_N : n -> byte option

type fault =
| OOB_read
| OOB_write
| Uninit_read
| Null_deref
| Use_after_free
| Bad_free
| Out_of_fuel
| Int_overflow
| Abort

type 'a res =
| Ok of 'a
| Fault of fault

val bind : 'a1 res -> ('a1 -> 'a2 res) -> 'a2 res

val num_anchor : ((nat * positive) * n) * z

type mname = byte list
  (* singleton inductive, whose constructor was MN *)

val bytes_of_mname : mname -> byte list

val bytes_eqb : byte list -> byte list -> bool

val mname_eqb : mname -> mname -> bool

type cmp =
| Ge
| Gt0
| Le
| Lt0
| Eq0
| Ne

type catom =
| CDebug of cmp * z * bool
| CFileLine of bool
| CGnuc of bool

type rcond =
| RCmp of cmp * z
| RConst of bool

type prim =
| PDprintf
| PWarn
| PError
| PFatal
| PRaw

type body =
| Nop
| Seq of body * body
| If of rcond * body * body
| IfNotArg of body
| Out of prim * bool
| Return of bool
| Call of mname
| Under of mname * body
| Mark

type mdef =
| DStmt of body
| DPrefix of rcond

type macro = { m_name : mname; m_alts : (catom list * mdef) list }

type dfam = { d_name : mname; d_if : mname; d_define : z; d_doc : z }

type rt = { r_level : z; r_silent : bool; r_name : bool; r_cond : bool }

type event =
| EvCond
| EvArgs
| EvVal
| EvMark
| OutDbg
| OutWarn
| OutErr
| OutFatal
| OutRaw

type ctl =
| Fall
| Ret of bool
| Exit
| Stuck

val gated_print : event -> rt -> event list * ctl

val fatal_print : rt -> event list * ctl

val prim_model : prim -> rt -> event list * ctl

val ladder : macro list

val hdr_family : mname list

val assert_family : (mname * bool) list

val notreached_family : (mname * bool) list

val require_family : (mname * bool) list

val abort_family : mname list

val dprintf_family : (mname * z) list

val dprintf_plain_family : mname list

val never_family : mname list

val d_family : dfam list

type cenv = { e_c : z; e_fileline : bool; e_gnuc : bool }

val eval_cmp : cmp -> z -> z -> bool

val eval_atom : cenv -> catom -> bool

val eval_path : cenv -> catom list -> bool

val select : cenv -> (catom list * mdef) list -> mdef option

val lookup : mname -> macro list -> macro option

val eval_rcond : z -> rcond -> bool

val stuck : event list * ctl

val exec : macro list -> nat -> cenv -> rt -> body -> event list * ctl

val call_depth : nat

val run_in : macro list -> mname -> cenv -> rt -> event list * ctl

type obs = { o_dbg : bool; o_warn : bool; o_err : bool; o_fatal : bool;
             o_cond : nat; o_args : nat; o_val : nat; o_mark : nat;
             o_ctl : ctl }

val event_eqb : event -> event -> bool

val has : event -> event list -> bool

val count : event -> event list -> nat

val observe : (event list * ctl) -> obs

val printed : obs -> bool

val behaviour_in : macro list -> mname -> cenv -> rt -> obs

val behaviour : mname -> cenv -> rt -> obs

val prim_behaviour : prim -> rt -> obs

val can_print : rt -> bool

val b2n : bool -> nat

val quiet : obs

type kind =
| KHdr
| KAssert of bool
| KNotreached of bool
| KRequire of bool
| KAbort
| KDprintf of z
| KDprintfPlain
| KNever
| KD of z
| KDIf of z

val spec_gated : bool -> rt -> obs

val spec_assert_failed : bool -> rt -> obs

val with_cond : obs -> obs

val bare_return : bool -> obs

val spec : kind -> cenv -> rt -> obs

val spec_prim : prim -> rt -> obs

val classify :
  mname list -> (mname * bool) list -> (mname * bool) list -> (mname * bool)
  list -> mname list -> (mname * z) list -> mname list -> mname list -> dfam
  list -> (mname * kind) list

val classified : (mname * kind) list

val mk_env : z -> bool -> bool -> cenv

val mk_rt : z -> bool -> bool -> bool -> rt
