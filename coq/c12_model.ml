
(** val negb : bool -> bool **)

let negb = function
| true -> false
| false -> true

type nat =
| O
| S of nat

(** val length : 'a1 list -> nat **)

let rec length = function
| [] -> O
| _ :: l' -> S (length l')

(** val app : 'a1 list -> 'a1 list -> 'a1 list **)

let rec app l m =
  match l with
  | [] -> m
  | a :: l1 -> a :: (app l1 m)

type comparison =
| Eq
| Lt
| Gt

(** val compOpp : comparison -> comparison **)

let compOpp = function
| Eq -> Eq
| Lt -> Gt
| Gt -> Lt

module Coq__1 = struct
 (** val add : nat -> nat -> nat **)
 let rec add n0 m =
   match n0 with
   | O -> m
   | S p -> S (add p m)
end
include Coq__1

(** val mul : nat -> nat -> nat **)

let rec mul n0 m =
  match n0 with
  | O -> O
  | S p -> add m (mul p m)

(** val sub : nat -> nat -> nat **)

let rec sub n0 m =
  match n0 with
  | O -> n0
  | S k -> (match m with
            | O -> n0
            | S l -> sub k l)

module Nat =
 struct
  (** val eqb : nat -> nat -> bool **)

  let rec eqb n0 m =
    match n0 with
    | O -> (match m with
            | O -> true
            | S _ -> false)
    | S n' -> (match m with
               | O -> false
               | S m' -> eqb n' m')

  (** val leb : nat -> nat -> bool **)

  let rec leb n0 m =
    match n0 with
    | O -> true
    | S n' -> (match m with
               | O -> false
               | S m' -> leb n' m')

  (** val ltb : nat -> nat -> bool **)

  let ltb n0 m =
    leb (S n0) m
 end

(** val tl : 'a1 list -> 'a1 list **)

let tl = function
| [] -> []
| _ :: m -> m

(** val nth : nat -> 'a1 list -> 'a1 -> 'a1 **)

let rec nth n0 l default =
  match n0 with
  | O -> (match l with
          | [] -> default
          | x :: _ -> x)
  | S m -> (match l with
            | [] -> default
            | _ :: t -> nth m t default)

(** val nth_error : 'a1 list -> nat -> 'a1 option **)

let rec nth_error l = function
| O -> (match l with
        | [] -> None
        | x :: _ -> Some x)
| S n1 -> (match l with
           | [] -> None
           | _ :: l0 -> nth_error l0 n1)

(** val rev : 'a1 list -> 'a1 list **)

let rec rev = function
| [] -> []
| x :: l' -> app (rev l') (x :: [])

(** val fold_right : ('a2 -> 'a1 -> 'a1) -> 'a1 -> 'a2 list -> 'a1 **)

let rec fold_right f a0 = function
| [] -> a0
| b :: t -> f b (fold_right f a0 t)

(** val existsb : ('a1 -> bool) -> 'a1 list -> bool **)

let rec existsb f = function
| [] -> false
| a :: l0 -> (||) (f a) (existsb f l0)

(** val firstn : nat -> 'a1 list -> 'a1 list **)

let rec firstn n0 l =
  match n0 with
  | O -> []
  | S n1 -> (match l with
             | [] -> []
             | a :: l0 -> a :: (firstn n1 l0))

(** val repeat : 'a1 -> nat -> 'a1 list **)

let rec repeat x = function
| O -> []
| S k -> x :: (repeat x k)

type positive =
| XI of positive
| XO of positive
| XH

type n =
| N0
| Npos of positive

type z =
| Z0
| Zpos of positive
| Zneg of positive

module Pos =
 struct
  (** val succ : positive -> positive **)

  let rec succ = function
  | XI p -> XO (succ p)
  | XO p -> XI p
  | XH -> XO XH

  (** val add : positive -> positive -> positive **)

  let rec add x y =
    match x with
    | XI p ->
      (match y with
       | XI q -> XO (add_carry p q)
       | XO q -> XI (add p q)
       | XH -> XO (succ p))
    | XO p ->
      (match y with
       | XI q -> XI (add p q)
       | XO q -> XO (add p q)
       | XH -> XI p)
    | XH -> (match y with
             | XI q -> XO (succ q)
             | XO q -> XI q
             | XH -> XO XH)

  (** val add_carry : positive -> positive -> positive **)

  and add_carry x y =
    match x with
    | XI p ->
      (match y with
       | XI q -> XI (add_carry p q)
       | XO q -> XO (add_carry p q)
       | XH -> XI (succ p))
    | XO p ->
      (match y with
       | XI q -> XO (add_carry p q)
       | XO q -> XI (add p q)
       | XH -> XO (succ p))
    | XH ->
      (match y with
       | XI q -> XI (succ q)
       | XO q -> XO (succ q)
       | XH -> XI XH)

  (** val pred_double : positive -> positive **)

  let rec pred_double = function
  | XI p -> XI (XO p)
  | XO p -> XI (pred_double p)
  | XH -> XH

  (** val compare_cont : comparison -> positive -> positive -> comparison **)

  let rec compare_cont r x y =
    match x with
    | XI p ->
      (match y with
       | XI q -> compare_cont r p q
       | XO q -> compare_cont Gt p q
       | XH -> Gt)
    | XO p ->
      (match y with
       | XI q -> compare_cont Lt p q
       | XO q -> compare_cont r p q
       | XH -> Gt)
    | XH -> (match y with
             | XH -> r
             | _ -> Lt)

  (** val compare : positive -> positive -> comparison **)

  let compare =
    compare_cont Eq

  (** val eqb : positive -> positive -> bool **)

  let rec eqb p q =
    match p with
    | XI p0 -> (match q with
                | XI q0 -> eqb p0 q0
                | _ -> false)
    | XO p0 -> (match q with
                | XO q0 -> eqb p0 q0
                | _ -> false)
    | XH -> (match q with
             | XH -> true
             | _ -> false)

  (** val iter_op : ('a1 -> 'a1 -> 'a1) -> positive -> 'a1 -> 'a1 **)

  let rec iter_op op p a =
    match p with
    | XI p0 -> op a (iter_op op p0 (op a a))
    | XO p0 -> iter_op op p0 (op a a)
    | XH -> a

  (** val to_nat : positive -> nat **)

  let to_nat x =
    iter_op Coq__1.add x (S O)

  (** val of_succ_nat : nat -> positive **)

  let rec of_succ_nat = function
  | O -> XH
  | S x -> succ (of_succ_nat x)
 end

module Z =
 struct
  (** val double : z -> z **)

  let double = function
  | Z0 -> Z0
  | Zpos p -> Zpos (XO p)
  | Zneg p -> Zneg (XO p)

  (** val succ_double : z -> z **)

  let succ_double = function
  | Z0 -> Zpos XH
  | Zpos p -> Zpos (XI p)
  | Zneg p -> Zneg (Pos.pred_double p)

  (** val pred_double : z -> z **)

  let pred_double = function
  | Z0 -> Zneg XH
  | Zpos p -> Zpos (Pos.pred_double p)
  | Zneg p -> Zneg (XI p)

  (** val pos_sub : positive -> positive -> z **)

  let rec pos_sub x y =
    match x with
    | XI p ->
      (match y with
       | XI q -> double (pos_sub p q)
       | XO q -> succ_double (pos_sub p q)
       | XH -> Zpos (XO p))
    | XO p ->
      (match y with
       | XI q -> pred_double (pos_sub p q)
       | XO q -> double (pos_sub p q)
       | XH -> Zpos (Pos.pred_double p))
    | XH ->
      (match y with
       | XI q -> Zneg (XO q)
       | XO q -> Zneg (Pos.pred_double q)
       | XH -> Z0)

  (** val add : z -> z -> z **)

  let add x y =
    match x with
    | Z0 -> y
    | Zpos x' ->
      (match y with
       | Z0 -> x
       | Zpos y' -> Zpos (Pos.add x' y')
       | Zneg y' -> pos_sub x' y')
    | Zneg x' ->
      (match y with
       | Z0 -> x
       | Zpos y' -> pos_sub y' x'
       | Zneg y' -> Zneg (Pos.add x' y'))

  (** val opp : z -> z **)

  let opp = function
  | Z0 -> Z0
  | Zpos x0 -> Zneg x0
  | Zneg x0 -> Zpos x0

  (** val sub : z -> z -> z **)

  let sub m n0 =
    add m (opp n0)

  (** val compare : z -> z -> comparison **)

  let compare x y =
    match x with
    | Z0 -> (match y with
             | Z0 -> Eq
             | Zpos _ -> Lt
             | Zneg _ -> Gt)
    | Zpos x' -> (match y with
                  | Zpos y' -> Pos.compare x' y'
                  | _ -> Gt)
    | Zneg x' ->
      (match y with
       | Zneg y' -> compOpp (Pos.compare x' y')
       | _ -> Lt)

  (** val leb : z -> z -> bool **)

  let leb x y =
    match compare x y with
    | Gt -> false
    | _ -> true

  (** val ltb : z -> z -> bool **)

  let ltb x y =
    match compare x y with
    | Lt -> true
    | _ -> false

  (** val eqb : z -> z -> bool **)

  let eqb x y =
    match x with
    | Z0 -> (match y with
             | Z0 -> true
             | _ -> false)
    | Zpos p -> (match y with
                 | Zpos q -> Pos.eqb p q
                 | _ -> false)
    | Zneg p -> (match y with
                 | Zneg q -> Pos.eqb p q
                 | _ -> false)

  (** val max : z -> z -> z **)

  let max n0 m =
    match compare n0 m with
    | Lt -> m
    | _ -> n0

  (** val to_nat : z -> nat **)

  let to_nat = function
  | Zpos p -> Pos.to_nat p
  | _ -> O

  (** val of_nat : nat -> z **)

  let of_nat = function
  | O -> Z0
  | S n1 -> Zpos (Pos.of_succ_nat n1)
 end

type fault =
| OOB_read
| OOB_write
| Uninit_read
| Null_deref
| Use_after_free
| Bad_free
| Out_of_fuel
| Int_overflow
| Abort

type 'a res =
| Ok of 'a
| Fault of fault

(** val bind : 'a1 res -> ('a1 -> 'a2 res) -> 'a2 res **)

let bind r k =
  match r with
  | Ok a -> k a
  | Fault f -> Fault f

(** val num_anchor : ((nat * positive) * n) * z **)

let num_anchor =
  (((O, XH), N0), Z0)

type cell = z option

type buf = cell list

(** val rdn : buf -> nat -> z res **)

let rdn b i =
  match nth_error b i with
  | Some c -> (match c with
               | Some v -> Ok v
               | None -> Fault Uninit_read)
  | None -> Fault OOB_read

(** val upd : 'a1 list -> nat -> 'a1 -> 'a1 list **)

let rec upd l n0 v =
  match l with
  | [] -> []
  | x :: t -> (match n0 with
               | O -> v :: t
               | S n' -> x :: (upd t n' v))

(** val wrn : buf -> nat -> z -> buf res **)

let wrn b i v =
  if Nat.ltb i (length b) then Ok (upd b i (Some v)) else Fault OOB_write

(** val strlen : buf -> nat res **)

let rec strlen = function
| [] -> Fault OOB_read
| c0 :: t ->
  (match c0 with
   | Some c ->
     if Z.eqb c Z0 then Ok O else bind (strlen t) (fun n0 -> Ok (S n0))
   | None -> Fault Uninit_read)

(** val take_str : buf -> z list **)

let rec take_str = function
| [] -> []
| c0 :: t ->
  (match c0 with
   | Some c -> if Z.eqb c Z0 then [] else c :: (take_str t)
   | None -> [])

(** val isspace : z -> bool **)

let isspace c =
  (||)
    ((&&) (Z.leb (Zpos (XI (XO (XO XH)))) c)
      (Z.leb c (Zpos (XI (XO (XI XH))))))
    (Z.eqb c (Zpos (XO (XO (XO (XO (XO XH)))))))

(** val is_q : z -> bool **)

let is_q c =
  (||) (Z.eqb c (Zpos (XO (XI (XO (XO (XO XH)))))))
    (Z.eqb c (Zpos (XI (XI (XI (XO (XO XH)))))))

type dset = z list option

(** val iS_DELIM : dset -> z -> bool **)

let iS_DELIM d c =
  match d with
  | Some l -> (&&) (negb (Z.eqb c Z0)) (existsb (Z.eqb c) l)
  | None -> isspace c

(** val iS_QUOTE : z -> z -> bool **)

let iS_QUOTE q c =
  (&&) (negb (Z.eqb q Z0)) (Z.eqb q c)

(** val skip_delims : dset -> buf -> buf res **)

let rec skip_delims d p = match p with
| [] -> Fault OOB_read
| c0 :: t ->
  (match c0 with
   | Some c ->
     if (&&) (negb (Z.eqb c Z0)) (iS_DELIM d c) then skip_delims d t else Ok p
   | None -> Fault Uninit_read)

(** val esc_test : dset -> z -> buf -> z -> bool res **)

let esc_test d q p c =
  if Z.eqb c (Zpos (XO (XO (XI (XI (XI (XO XH)))))))
  then bind (rdn p (S O)) (fun c1 -> Ok
         ((||) (iS_DELIM d c1) (iS_QUOTE q c1)))
  else Ok false

(** val split_chars :
    nat -> dset -> buf -> z -> buf -> nat -> (((buf * z) * buf) * nat) res **)

let rec split_chars fuel d p q out k =
  match fuel with
  | O -> Fault Out_of_fuel
  | S f ->
    bind (rdn p O) (fun c ->
      if (||) (Z.eqb c Z0) ((&&) (Z.eqb q Z0) (iS_DELIM d c))
      then Ok (((p, q), out), k)
      else if is_q c
           then if negb (Z.eqb q Z0)
                then if Z.eqb q c
                     then split_chars f d (tl p) Z0 out k
                     else bind (wrn out k c) (fun out' ->
                            split_chars f d (tl p) q out' (S k))
                else split_chars f d (tl p) c out k
           else bind (esc_test d q p c) (fun e ->
                  let p1 = if e then tl p else p in
                  bind (rdn p1 O) (fun c' ->
                    bind (wrn out k c') (fun out' ->
                      split_chars f d (tl p1) q out' (S k)))))

(** val split_tokens : nat -> dset -> buf -> z -> z list list res **)

let rec split_tokens fuel d p q =
  match fuel with
  | O -> Fault Out_of_fuel
  | S f ->
    bind (rdn p O) (fun c ->
      if Z.eqb c Z0
      then Ok []
      else bind (strlen p) (fun l ->
             bind (split_chars (S (length p)) d p q (repeat None (S l)) O)
               (fun x ->
               let (p0, k) = x in
               let (p1, out1) = p0 in
               let (p2, q1) = p1 in
               bind (wrn out1 k Z0) (fun out2 ->
                 bind (strlen out2) (fun l2 ->
                   let w = take_str (firstn (S l2) out2) in
                   bind (skip_delims d p2) (fun p3 ->
                     bind (split_tokens f d p3 q1) (fun rest -> Ok
                       (w :: rest))))))))

(** val split : dset -> buf -> z list list option res **)

let split d str =
  bind (skip_delims d str) (fun p ->
    bind (split_tokens (S (length str)) d p Z0) (fun ts -> Ok
      (match ts with
       | [] -> None
       | _ :: _ -> Some ts)))

(** val tok_chars : nat -> dset -> buf -> z -> ((buf * z) * z list) res **)

let rec tok_chars fuel d p q =
  match fuel with
  | O -> Fault Out_of_fuel
  | S f ->
    bind (rdn p O) (fun c ->
      if (||) (Z.eqb c Z0) ((&&) (Z.eqb q Z0) (iS_DELIM d c))
      then Ok ((p, q), [])
      else if is_q c
           then if negb (Z.eqb q Z0)
                then if Z.eqb q c
                     then tok_chars f d (tl p) Z0
                     else bind (tok_chars f d (tl p) q) (fun x ->
                            let (p0, w) = x in
                            let (p', q') = p0 in Ok ((p', q'), (c :: w)))
                else tok_chars f d (tl p) c
           else bind (esc_test d q p c) (fun e ->
                  let p1 = if e then tl p else p in
                  bind (rdn p1 O) (fun c' ->
                    bind (tok_chars f d (tl p1) q) (fun x ->
                      let (p0, w) = x in
                      let (p', q') = p0 in Ok ((p', q'), (c' :: w))))))

(** val drop_ws : z list -> z list **)

let rec drop_ws s = match s with
| [] -> []
| c :: t -> if isspace c then drop_ws t else s

(** val trim : z list -> z list **)

let trim s =
  rev (drop_ws (rev (drop_ws s)))

(** val tok_tokens : nat -> dset -> buf -> z -> z list list res **)

let rec tok_tokens fuel d p q =
  match fuel with
  | O -> Fault Out_of_fuel
  | S f ->
    bind (rdn p O) (fun c ->
      if Z.eqb c Z0
      then Ok []
      else bind (tok_chars (S (length p)) d p q) (fun x ->
             let (p0, w) = x in
             let (p1, q1) = p0 in
             bind (skip_delims d p1) (fun p2 ->
               bind (tok_tokens f d p2 q1) (fun rest -> Ok ((trim w) :: rest)))))

(** val tok_eval : dset -> buf -> z list list res **)

let tok_eval d src =
  bind (skip_delims d src) (fun p -> tok_tokens (S (length src)) d p Z0)

(** val copy_at : buf -> nat -> z list -> buf res **)

let rec copy_at out k = function
| [] -> wrn out k Z0
| c :: t -> bind (wrn out k c) (fun o -> copy_at o (S k) t)

(** val strcat_m : buf -> z list -> buf res **)

let strcat_m out s =
  bind (strlen out) (fun l -> copy_at out l s)

(** val join_rest : z list -> z list list -> buf -> buf res **)

let rec join_rest sep ts out =
  match ts with
  | [] -> Ok out
  | t :: r ->
    bind (if Nat.eqb (length sep) O then Ok out else strcat_m out sep)
      (fun o1 -> bind (strcat_m o1 t) (fun o2 -> join_rest sep r o2))

(** val join : z list option -> z list list -> buf option res **)

let join sep ts = match ts with
| [] -> Ok None
| t0 :: r ->
  let sp = match sep with
           | Some s -> s
           | None -> [] in
  let slen = length sp in
  let len =
    add (fold_right (fun t a -> add (length t) a) O ts)
      (mul slen (sub (length ts) (S O)))
  in
  bind (copy_at (repeat None (S len)) O t0) (fun o ->
    bind (join_rest sp r o) (fun o' -> Ok (Some o')))

(** val wDELIM : z -> z -> bool **)

let wDELIM dl c =
  if Z.eqb dl Z0 then isspace c else Z.eqb c dl

(** val skip_space : buf -> buf res **)

let rec skip_space p = match p with
| [] -> Fault OOB_read
| c0 :: t ->
  (match c0 with
   | Some c -> if isspace c then skip_space t else Ok p
   | None -> Fault Uninit_read)

(** val wesc_test : buf -> z -> bool res **)

let wesc_test p c =
  if Z.eqb c (Zpos (XO (XO (XI (XI (XI (XO XH)))))))
  then bind (rdn p (S O)) (fun c1 -> Ok (is_q c1))
  else Ok false

(** val gw_chars :
    nat -> buf -> z -> buf -> nat -> ((buf * buf) * nat) res **)

let rec gw_chars fuel p dl out k =
  match fuel with
  | O -> Fault Out_of_fuel
  | S f ->
    bind (rdn p O) (fun c ->
      if (||) (Z.eqb c Z0) (wDELIM dl c)
      then Ok ((p, out), k)
      else bind (wesc_test p c) (fun e ->
             let p1 = if e then tl p else p in
             bind (rdn p1 O) (fun c' ->
               bind (wrn out k c') (fun out' ->
                 gw_chars f (tl p1) dl out' (S k)))))

(** val open_quote : buf -> (z * buf) res **)

let open_quote p =
  bind (rdn p O) (fun c -> Ok (if is_q c then (c, (tl p)) else (Z0, p)))

(** val close_quote : buf -> buf res **)

let close_quote p =
  bind (rdn p O) (fun c -> Ok (if is_q c then tl p else p))

(** val gw_words : nat -> z -> z -> buf -> buf -> (z * buf) res **)

let rec gw_words fuel idx j p out =
  match fuel with
  | O -> Fault Out_of_fuel
  | S f ->
    if Z.ltb j idx
    then bind (rdn p O) (fun c ->
           if Z.eqb c Z0
           then Ok (j, out)
           else bind (skip_space p) (fun p1 ->
                  bind (open_quote p1) (fun x ->
                    let (dl, p2) = x in
                    bind (gw_chars (S (length p2)) p2 dl out O) (fun x0 ->
                      let (p0, k) = x0 in
                      let (p3, out1) = p0 in
                      bind (close_quote p3) (fun p4 ->
                        bind (wrn out1 k Z0) (fun out2 ->
                          gw_words f idx (Z.add j (Zpos XH)) p4 out2))))))
    else Ok (j, out)

(** val get_word : z -> buf -> z list option res **)

let get_word idx str =
  bind (strlen str) (fun l ->
    bind (wrn (repeat None (S l)) O Z0) (fun out0 ->
      bind (gw_words (S (length str)) idx Z0 str out0) (fun x ->
        let (j, out) = x in
        if Z.eqb j idx
        then bind (strlen out) (fun l2 -> Ok (Some
               (take_str (firstn (S l2) out))))
        else Ok None)))

(** val pw_space : buf -> z -> (buf * z) res **)

let rec pw_space p off =
  match p with
  | [] -> Fault OOB_read
  | c0 :: t ->
    (match c0 with
     | Some c ->
       if (&&) (isspace c) (negb (Z.eqb c Z0))
       then pw_space t (Z.add off (Zpos XH))
       else Ok (p, off)
     | None -> Fault Uninit_read)

(** val pw_nonspace : buf -> z -> (buf * z) res **)

let rec pw_nonspace p off =
  match p with
  | [] -> Fault OOB_read
  | c0 :: t ->
    (match c0 with
     | Some c ->
       if (&&) (negb (isspace c)) (negb (Z.eqb c Z0))
       then pw_nonspace t (Z.add off (Zpos XH))
       else Ok (p, off)
     | None -> Fault Uninit_read)

(** val pw_words : nat -> z -> z -> buf -> z -> (buf * z) res **)

let rec pw_words fuel idx j p off =
  match fuel with
  | O -> Fault Out_of_fuel
  | S f ->
    if Z.ltb j idx
    then bind (rdn p O) (fun c ->
           if Z.eqb c Z0
           then Ok (p, off)
           else bind (pw_nonspace p off) (fun x ->
                  let (p1, o1) = x in
                  bind (pw_space p1 o1) (fun x0 ->
                    let (p2, o2) = x0 in
                    pw_words f idx (Z.add j (Zpos XH)) p2 o2)))
    else Ok (p, off)

(** val get_pword : z -> buf -> z option res **)

let get_pword idx str =
  bind (pw_space str Z0) (fun x ->
    let (p0, o0) = x in
    bind (pw_words (S (length str)) idx (Zpos XH) p0 o0) (fun x0 ->
      let (p1, o1) = x0 in
      bind (rdn p1 O) (fun c ->
        if is_q c
        then let p2 = tl p1 in
             let o2 = Z.add o1 (Zpos XH) in
             bind (rdn p2 O) (fun c2 -> Ok
               (if Z.eqb c2 Z0 then None else Some o2))
        else bind (rdn p1 O) (fun c2 -> Ok
               (if Z.eqb c2 Z0 then None else Some o1)))))

(** val nw_chars : nat -> buf -> z -> buf res **)

let rec nw_chars fuel p dl =
  match fuel with
  | O -> Fault Out_of_fuel
  | S f ->
    bind (rdn p O) (fun c ->
      if (||) (Z.eqb c Z0) (wDELIM dl c)
      then Ok p
      else bind (wesc_test p c) (fun e ->
             let p1 = if e then tl p else p in nw_chars f (tl p1) dl))

(** val nw_space : buf -> buf res **)

let rec nw_space p = match p with
| [] -> Fault OOB_read
| c0 :: t ->
  (match c0 with
   | Some c ->
     if (&&) (negb (Z.eqb c Z0)) (isspace c) then nw_space t else Ok p
   | None -> Fault Uninit_read)

(** val nw_words : nat -> buf -> z -> z res **)

let rec nw_words fuel p cnt =
  match fuel with
  | O -> Fault Out_of_fuel
  | S f ->
    bind (rdn p O) (fun c ->
      if Z.eqb c Z0
      then Ok cnt
      else bind (open_quote p) (fun x ->
             let (dl, p1) = x in
             bind (nw_chars (S (length p1)) p1 dl) (fun p2 ->
               bind (close_quote p2) (fun p3 ->
                 bind (nw_space p3) (fun p4 ->
                   nw_words f p4 (Z.add cnt (Zpos XH)))))))

(** val num_words : buf -> z res **)

let num_words str =
  bind (nw_space str) (fun p -> nw_words (S (length str)) p Z0)

(** val delim : dset -> z -> bool **)

let delim d c =
  match d with
  | Some l -> existsb (Z.eqb c) l
  | None -> isspace c

(** val push : z -> z list list -> z list list **)

let push c = function
| [] -> (c :: []) :: []
| w :: r -> (c :: w) :: r

(** val sm : dset -> bool -> z -> z list -> z list list **)

let rec sm d intok q = function
| [] -> if intok then [] :: [] else []
| c :: t ->
  if (&&) (Z.eqb q Z0) (delim d c)
  then if intok then [] :: (sm d false Z0 t) else sm d false Z0 t
  else if is_q c
       then if Z.eqb q Z0
            then sm d true c t
            else if Z.eqb q c then sm d true Z0 t else push c (sm d true q t)
       else if Z.eqb c (Zpos (XO (XO (XI (XI (XI (XO XH)))))))
            then (match t with
                  | [] -> (c :: []) :: []
                  | c2 :: t2 ->
                    if (||) (delim d c2)
                         ((&&) (negb (Z.eqb q Z0)) (Z.eqb q c2))
                    then push c2 (sm d true q t2)
                    else push c (sm d true q t))
            else push c (sm d true q t)

(** val tokens : dset -> z list -> z list list **)

let tokens d s =
  sm d false Z0 s

(** val wsm : bool -> z -> z list -> z list list **)

let rec wsm inw dl = function
| [] -> if inw then [] :: [] else []
| c :: t ->
  if (&&) (negb inw) (isspace c)
  then wsm false Z0 t
  else if (&&) (negb inw) (is_q c)
       then wsm true c t
       else if (&&) inw (wDELIM dl c)
            then [] :: (wsm false Z0 t)
            else if Z.eqb c (Zpos (XO (XO (XI (XI (XI (XO XH)))))))
                 then (match t with
                       | [] -> (c :: []) :: []
                       | c2 :: t2 ->
                         if is_q c2
                         then push c2 (wsm true dl t2)
                         else push c (wsm true dl t))
                 else push c (wsm true dl t)

(** val words : z list -> z list list **)

let words s =
  wsm false Z0 s

(** val ws_starts : bool -> z -> z list -> z list **)

let rec ws_starts inw off = function
| [] -> []
| c :: t ->
  if isspace c
  then ws_starts false (Z.add off (Zpos XH)) t
  else if inw
       then ws_starts true (Z.add off (Zpos XH)) t
       else off :: (ws_starts true (Z.add off (Zpos XH)) t)

(** val pword_spec : z -> z list -> z option **)

let pword_spec idx s =
  match nth_error (ws_starts false Z0 s)
          (Z.to_nat (Z.sub (Z.max idx (Zpos XH)) (Zpos XH))) with
  | Some o ->
    let o' = if is_q (nth (Z.to_nat o) s Z0) then Z.add o (Zpos XH) else o in
    if Z.ltb o' (Z.of_nat (length s)) then Some o' else None
  | None -> None

(** val join_spec : z list -> z list list -> z list **)

let rec join_spec sep = function
| [] -> []
| t :: r ->
  (match r with
   | [] -> t
   | _ :: _ -> app t (app sep (join_spec sep r)))
