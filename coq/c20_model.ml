
(** val negb : bool -> bool **)

let negb = function
| true -> false
| false -> true

type nat =
| O
| S of nat

(** val fst : ('a1 * 'a2) -> 'a1 **)

let fst = function
| (x, _) -> x

(** val snd : ('a1 * 'a2) -> 'a2 **)

let snd = function
| (_, y) -> y

(** val length : 'a1 list -> nat **)

let rec length = function
| [] -> O
| _ :: l' -> S (length l')

(** val app : 'a1 list -> 'a1 list -> 'a1 list **)

let rec app l m =
  match l with
  | [] -> m
  | a :: l1 -> a :: (app l1 m)

type comparison =
| Eq
| Lt
| Gt

(** val compOpp : comparison -> comparison **)

let compOpp = function
| Eq -> Eq
| Lt -> Gt
| Gt -> Lt

type byte =
| X00
| X01
| X02
| X03
| X04
| X05
| X06
| X07
| X08
| X09
| X0a
| X0b
| X0c
| X0d
| X0e
| X0f
| X10
| X11
| X12
| X13
| X14
| X15
| X16
| X17
| X18
| X19
| X1a
| X1b
| X1c
| X1d
| X1e
| X1f
| X20
| X21
| X22
| X23
| X24
| X25
| X26
| X27
| X28
| X29
| X2a
| X2b
| X2c
| X2d
| X2e
| X2f
| X30
| X31
| X32
| X33
| X34
| X35
| X36
| X37
| X38
| X39
| X3a
| X3b
| X3c
| X3d
| X3e
| X3f
| X40
| X41
| X42
| X43
| X44
| X45
| X46
| X47
| X48
| X49
| X4a
| X4b
| X4c
| X4d
| X4e
| X4f
| X50
| X51
| X52
| X53
| X54
| X55
| X56
| X57
| X58
| X59
| X5a
| X5b
| X5c
| X5d
| X5e
| X5f
| X60
| X61
| X62
| X63
| X64
| X65
| X66
| X67
| X68
| X69
| X6a
| X6b
| X6c
| X6d
| X6e
| X6f
| X70
| X71
| X72
| X73
| X74
| X75
| X76
| X77
| X78
| X79
| X7a
| X7b
| X7c
| X7d
| X7e
| X7f
| X80
| X81
| X82
| X83
| X84
| X85
| X86
| X87
| X88
| X89
| X8a
| X8b
| X8c
| X8d
| X8e
| X8f
| X90
| X91
| X92
| X93
| X94
| X95
| X96
| X97
| X98
| X99
| X9a
| X9b
| X9c
| X9d
| X9e
| X9f
| Xa0
| Xa1
| Xa2
| Xa3
| Xa4
| Xa5
| Xa6
| Xa7
| Xa8
| Xa9
| Xaa
| Xab
| Xac
| Xad
| Xae
| Xaf
| Xb0
| Xb1
| Xb2
| Xb3
| Xb4
| Xb5
| Xb6
| Xb7
| Xb8
| Xb9
| Xba
| Xbb
| Xbc
| Xbd
| Xbe
| Xbf
| Xc0
| Xc1
| Xc2
| Xc3
| Xc4
| Xc5
| Xc6
| Xc7
| Xc8
| Xc9
| Xca
| Xcb
| Xcc
| Xcd
| Xce
| Xcf
| Xd0
| Xd1
| Xd2
| Xd3
| Xd4
| Xd5
| Xd6
| Xd7
| Xd8
| Xd9
| Xda
| Xdb
| Xdc
| Xdd
| Xde
| Xdf
| Xe0
| Xe1
| Xe2
| Xe3
| Xe4
| Xe5
| Xe6
| Xe7
| Xe8
| Xe9
| Xea
| Xeb
| Xec
| Xed
| Xee
| Xef
| Xf0
| Xf1
| Xf2
| Xf3
| Xf4
| Xf5
| Xf6
| Xf7
| Xf8
| Xf9
| Xfa
| Xfb
| Xfc
| Xfd
| Xfe
| Xff

(** val to_bits :
    byte -> bool * (bool * (bool * (bool * (bool * (bool * (bool * bool)))))) **)

let to_bits = function
| X00 -> (false, (false, (false, (false, (false, (false, (false, false)))))))
| X01 -> (true, (false, (false, (false, (false, (false, (false, false)))))))
| X02 -> (false, (true, (false, (false, (false, (false, (false, false)))))))
| X03 -> (true, (true, (false, (false, (false, (false, (false, false)))))))
| X04 -> (false, (false, (true, (false, (false, (false, (false, false)))))))
| X05 -> (true, (false, (true, (false, (false, (false, (false, false)))))))
| X06 -> (false, (true, (true, (false, (false, (false, (false, false)))))))
| X07 -> (true, (true, (true, (false, (false, (false, (false, false)))))))
| X08 -> (false, (false, (false, (true, (false, (false, (false, false)))))))
| X09 -> (true, (false, (false, (true, (false, (false, (false, false)))))))
| X0a -> (false, (true, (false, (true, (false, (false, (false, false)))))))
| X0b -> (true, (true, (false, (true, (false, (false, (false, false)))))))
| X0c -> (false, (false, (true, (true, (false, (false, (false, false)))))))
| X0d -> (true, (false, (true, (true, (false, (false, (false, false)))))))
| X0e -> (false, (true, (true, (true, (false, (false, (false, false)))))))
| X0f -> (true, (true, (true, (true, (false, (false, (false, false)))))))
| X10 -> (false, (false, (false, (false, (true, (false, (false, false)))))))
| X11 -> (true, (false, (false, (false, (true, (false, (false, false)))))))
| X12 -> (false, (true, (false, (false, (true, (false, (false, false)))))))
| X13 -> (true, (true, (false, (false, (true, (false, (false, false)))))))
| X14 -> (false, (false, (true, (false, (true, (false, (false, false)))))))
| X15 -> (true, (false, (true, (false, (true, (false, (false, false)))))))
| X16 -> (false, (true, (true, (false, (true, (false, (false, false)))))))
| X17 -> (true, (true, (true, (false, (true, (false, (false, false)))))))
| X18 -> (false, (false, (false, (true, (true, (false, (false, false)))))))
| X19 -> (true, (false, (false, (true, (true, (false, (false, false)))))))
| X1a -> (false, (true, (false, (true, (true, (false, (false, false)))))))
| X1b -> (true, (true, (false, (true, (true, (false, (false, false)))))))
| X1c -> (false, (false, (true, (true, (true, (false, (false, false)))))))
| X1d -> (true, (false, (true, (true, (true, (false, (false, false)))))))
| X1e -> (false, (true, (true, (true, (true, (false, (false, false)))))))
| X1f -> (true, (true, (true, (true, (true, (false, (false, false)))))))
| X20 -> (false, (false, (false, (false, (false, (true, (false, false)))))))
| X21 -> (true, (false, (false, (false, (false, (true, (false, false)))))))
| X22 -> (false, (true, (false, (false, (false, (true, (false, false)))))))
| X23 -> (true, (true, (false, (false, (false, (true, (false, false)))))))
| X24 -> (false, (false, (true, (false, (false, (true, (false, false)))))))
| X25 -> (true, (false, (true, (false, (false, (true, (false, false)))))))
| X26 -> (false, (true, (true, (false, (false, (true, (false, false)))))))
| X27 -> (true, (true, (true, (false, (false, (true, (false, false)))))))
| X28 -> (false, (false, (false, (true, (false, (true, (false, false)))))))
| X29 -> (true, (false, (false, (true, (false, (true, (false, false)))))))
| X2a -> (false, (true, (false, (true, (false, (true, (false, false)))))))
| X2b -> (true, (true, (false, (true, (false, (true, (false, false)))))))
| X2c -> (false, (false, (true, (true, (false, (true, (false, false)))))))
| X2d -> (true, (false, (true, (true, (false, (true, (false, false)))))))
| X2e -> (false, (true, (true, (true, (false, (true, (false, false)))))))
| X2f -> (true, (true, (true, (true, (false, (true, (false, false)))))))
| X30 -> (false, (false, (false, (false, (true, (true, (false, false)))))))
| X31 -> (true, (false, (false, (false, (true, (true, (false, false)))))))
| X32 -> (false, (true, (false, (false, (true, (true, (false, false)))))))
| X33 -> (true, (true, (false, (false, (true, (true, (false, false)))))))
| X34 -> (false, (false, (true, (false, (true, (true, (false, false)))))))
| X35 -> (true, (false, (true, (false, (true, (true, (false, false)))))))
| X36 -> (false, (true, (true, (false, (true, (true, (false, false)))))))
| X37 -> (true, (true, (true, (false, (true, (true, (false, false)))))))
| X38 -> (false, (false, (false, (true, (true, (true, (false, false)))))))
| X39 -> (true, (false, (false, (true, (true, (true, (false, false)))))))
| X3a -> (false, (true, (false, (true, (true, (true, (false, false)))))))
| X3b -> (true, (true, (false, (true, (true, (true, (false, false)))))))
| X3c -> (false, (false, (true, (true, (true, (true, (false, false)))))))
| X3d -> (true, (false, (true, (true, (true, (true, (false, false)))))))
| X3e -> (false, (true, (true, (true, (true, (true, (false, false)))))))
| X3f -> (true, (true, (true, (true, (true, (true, (false, false)))))))
| X40 -> (false, (false, (false, (false, (false, (false, (true, false)))))))
| X41 -> (true, (false, (false, (false, (false, (false, (true, false)))))))
| X42 -> (false, (true, (false, (false, (false, (false, (true, false)))))))
| X43 -> (true, (true, (false, (false, (false, (false, (true, false)))))))
| X44 -> (false, (false, (true, (false, (false, (false, (true, false)))))))
| X45 -> (true, (false, (true, (false, (false, (false, (true, false)))))))
| X46 -> (false, (true, (true, (false, (false, (false, (true, false)))))))
| X47 -> (true, (true, (true, (false, (false, (false, (true, false)))))))
| X48 -> (false, (false, (false, (true, (false, (false, (true, false)))))))
| X49 -> (true, (false, (false, (true, (false, (false, (true, false)))))))
| X4a -> (false, (true, (false, (true, (false, (false, (true, false)))))))
| X4b -> (true, (true, (false, (true, (false, (false, (true, false)))))))
| X4c -> (false, (false, (true, (true, (false, (false, (true, false)))))))
| X4d -> (true, (false, (true, (true, (false, (false, (true, false)))))))
| X4e -> (false, (true, (true, (true, (false, (false, (true, false)))))))
| X4f -> (true, (true, (true, (true, (false, (false, (true, false)))))))
| X50 -> (false, (false, (false, (false, (true, (false, (true, false)))))))
| X51 -> (true, (false, (false, (false, (true, (false, (true, false)))))))
| X52 -> (false, (true, (false, (false, (true, (false, (true, false)))))))
| X53 -> (true, (true, (false, (false, (true, (false, (true, false)))))))
| X54 -> (false, (false, (true, (false, (true, (false, (true, false)))))))
| X55 -> (true, (false, (true, (false, (true, (false, (true, false)))))))
| X56 -> (false, (true, (true, (false, (true, (false, (true, false)))))))
| X57 -> (true, (true, (true, (false, (true, (false, (true, false)))))))
| X58 -> (false, (false, (false, (true, (true, (false, (true, false)))))))
| X59 -> (true, (false, (false, (true, (true, (false, (true, false)))))))
| X5a -> (false, (true, (false, (true, (true, (false, (true, false)))))))
| X5b -> (true, (true, (false, (true, (true, (false, (true, false)))))))
| X5c -> (false, (false, (true, (true, (true, (false, (true, false)))))))
| X5d -> (true, (false, (true, (true, (true, (false, (true, false)))))))
| X5e -> (false, (true, (true, (true, (true, (false, (true, false)))))))
| X5f -> (true, (true, (true, (true, (true, (false, (true, false)))))))
| X60 -> (false, (false, (false, (false, (false, (true, (true, false)))))))
| X61 -> (true, (false, (false, (false, (false, (true, (true, false)))))))
| X62 -> (false, (true, (false, (false, (false, (true, (true, false)))))))
| X63 -> (true, (true, (false, (false, (false, (true, (true, false)))))))
| X64 -> (false, (false, (true, (false, (false, (true, (true, false)))))))
| X65 -> (true, (false, (true, (false, (false, (true, (true, false)))))))
| X66 -> (false, (true, (true, (false, (false, (true, (true, false)))))))
| X67 -> (true, (true, (true, (false, (false, (true, (true, false)))))))
| X68 -> (false, (false, (false, (true, (false, (true, (true, false)))))))
| X69 -> (true, (false, (false, (true, (false, (true, (true, false)))))))
| X6a -> (false, (true, (false, (true, (false, (true, (true, false)))))))
| X6b -> (true, (true, (false, (true, (false, (true, (true, false)))))))
| X6c -> (false, (false, (true, (true, (false, (true, (true, false)))))))
| X6d -> (true, (false, (true, (true, (false, (true, (true, false)))))))
| X6e -> (false, (true, (true, (true, (false, (true, (true, false)))))))
| X6f -> (true, (true, (true, (true, (false, (true, (true, false)))))))
| X70 -> (false, (false, (false, (false, (true, (true, (true, false)))))))
| X71 -> (true, (false, (false, (false, (true, (true, (true, false)))))))
| X72 -> (false, (true, (false, (false, (true, (true, (true, false)))))))
| X73 -> (true, (true, (false, (false, (true, (true, (true, false)))))))
| X74 -> (false, (false, (true, (false, (true, (true, (true, false)))))))
| X75 -> (true, (false, (true, (false, (true, (true, (true, false)))))))
| X76 -> (false, (true, (true, (false, (true, (true, (true, false)))))))
| X77 -> (true, (true, (true, (false, (true, (true, (true, false)))))))
| X78 -> (false, (false, (false, (true, (true, (true, (true, false)))))))
| X79 -> (true, (false, (false, (true, (true, (true, (true, false)))))))
| X7a -> (false, (true, (false, (true, (true, (true, (true, false)))))))
| X7b -> (true, (true, (false, (true, (true, (true, (true, false)))))))
| X7c -> (false, (false, (true, (true, (true, (true, (true, false)))))))
| X7d -> (true, (false, (true, (true, (true, (true, (true, false)))))))
| X7e -> (false, (true, (true, (true, (true, (true, (true, false)))))))
| X7f -> (true, (true, (true, (true, (true, (true, (true, false)))))))
| X80 -> (false, (false, (false, (false, (false, (false, (false, true)))))))
| X81 -> (true, (false, (false, (false, (false, (false, (false, true)))))))
| X82 -> (false, (true, (false, (false, (false, (false, (false, true)))))))
| X83 -> (true, (true, (false, (false, (false, (false, (false, true)))))))
| X84 -> (false, (false, (true, (false, (false, (false, (false, true)))))))
| X85 -> (true, (false, (true, (false, (false, (false, (false, true)))))))
| X86 -> (false, (true, (true, (false, (false, (false, (false, true)))))))
| X87 -> (true, (true, (true, (false, (false, (false, (false, true)))))))
| X88 -> (false, (false, (false, (true, (false, (false, (false, true)))))))
| X89 -> (true, (false, (false, (true, (false, (false, (false, true)))))))
| X8a -> (false, (true, (false, (true, (false, (false, (false, true)))))))
| X8b -> (true, (true, (false, (true, (false, (false, (false, true)))))))
| X8c -> (false, (false, (true, (true, (false, (false, (false, true)))))))
| X8d -> (true, (false, (true, (true, (false, (false, (false, true)))))))
| X8e -> (false, (true, (true, (true, (false, (false, (false, true)))))))
| X8f -> (true, (true, (true, (true, (false, (false, (false, true)))))))
| X90 -> (false, (false, (false, (false, (true, (false, (false, true)))))))
| X91 -> (true, (false, (false, (false, (true, (false, (false, true)))))))
| X92 -> (false, (true, (false, (false, (true, (false, (false, true)))))))
| X93 -> (true, (true, (false, (false, (true, (false, (false, true)))))))
| X94 -> (false, (false, (true, (false, (true, (false, (false, true)))))))
| X95 -> (true, (false, (true, (false, (true, (false, (false, true)))))))
| X96 -> (false, (true, (true, (false, (true, (false, (false, true)))))))
| X97 -> (true, (true, (true, (false, (true, (false, (false, true)))))))
| X98 -> (false, (false, (false, (true, (true, (false, (false, true)))))))
| X99 -> (true, (false, (false, (true, (true, (false, (false, true)))))))
| X9a -> (false, (true, (false, (true, (true, (false, (false, true)))))))
| X9b -> (true, (true, (false, (true, (true, (false, (false, true)))))))
| X9c -> (false, (false, (true, (true, (true, (false, (false, true)))))))
| X9d -> (true, (false, (true, (true, (true, (false, (false, true)))))))
| X9e -> (false, (true, (true, (true, (true, (false, (false, true)))))))
| X9f -> (true, (true, (true, (true, (true, (false, (false, true)))))))
| Xa0 -> (false, (false, (false, (false, (false, (true, (false, true)))))))
| Xa1 -> (true, (false, (false, (false, (false, (true, (false, true)))))))
| Xa2 -> (false, (true, (false, (false, (false, (true, (false, true)))))))
| Xa3 -> (true, (true, (false, (false, (false, (true, (false, true)))))))
| Xa4 -> (false, (false, (true, (false, (false, (true, (false, true)))))))
| Xa5 -> (true, (false, (true, (false, (false, (true, (false, true)))))))
| Xa6 -> (false, (true, (true, (false, (false, (true, (false, true)))))))
| Xa7 -> (true, (true, (true, (false, (false, (true, (false, true)))))))
| Xa8 -> (false, (false, (false, (true, (false, (true, (false, true)))))))
| Xa9 -> (true, (false, (false, (true, (false, (true, (false, true)))))))
| Xaa -> (false, (true, (false, (true, (false, (true, (false, true)))))))
| Xab -> (true, (true, (false, (true, (false, (true, (false, true)))))))
| Xac -> (false, (false, (true, (true, (false, (true, (false, true)))))))
| Xad -> (true, (false, (true, (true, (false, (true, (false, true)))))))
| Xae -> (false, (true, (true, (true, (false, (true, (false, true)))))))
| Xaf -> (true, (true, (true, (true, (false, (true, (false, true)))))))
| Xb0 -> (false, (false, (false, (false, (true, (true, (false, true)))))))
| Xb1 -> (true, (false, (false, (false, (true, (true, (false, true)))))))
| Xb2 -> (false, (true, (false, (false, (true, (true, (false, true)))))))
| Xb3 -> (true, (true, (false, (false, (true, (true, (false, true)))))))
| Xb4 -> (false, (false, (true, (false, (true, (true, (false, true)))))))
| Xb5 -> (true, (false, (true, (false, (true, (true, (false, true)))))))
| Xb6 -> (false, (true, (true, (false, (true, (true, (false, true)))))))
| Xb7 -> (true, (true, (true, (false, (true, (true, (false, true)))))))
| Xb8 -> (false, (false, (false, (true, (true, (true, (false, true)))))))
| Xb9 -> (true, (false, (false, (true, (true, (true, (false, true)))))))
| Xba -> (false, (true, (false, (true, (true, (true, (false, true)))))))
| Xbb -> (true, (true, (false, (true, (true, (true, (false, true)))))))
| Xbc -> (false, (false, (true, (true, (true, (true, (false, true)))))))
| Xbd -> (true, (false, (true, (true, (true, (true, (false, true)))))))
| Xbe -> (false, (true, (true, (true, (true, (true, (false, true)))))))
| Xbf -> (true, (true, (true, (true, (true, (true, (false, true)))))))
| Xc0 -> (false, (false, (false, (false, (false, (false, (true, true)))))))
| Xc1 -> (true, (false, (false, (false, (false, (false, (true, true)))))))
| Xc2 -> (false, (true, (false, (false, (false, (false, (true, true)))))))
| Xc3 -> (true, (true, (false, (false, (false, (false, (true, true)))))))
| Xc4 -> (false, (false, (true, (false, (false, (false, (true, true)))))))
| Xc5 -> (true, (false, (true, (false, (false, (false, (true, true)))))))
| Xc6 -> (false, (true, (true, (false, (false, (false, (true, true)))))))
| Xc7 -> (true, (true, (true, (false, (false, (false, (true, true)))))))
| Xc8 -> (false, (false, (false, (true, (false, (false, (true, true)))))))
| Xc9 -> (true, (false, (false, (true, (false, (false, (true, true)))))))
| Xca -> (false, (true, (false, (true, (false, (false, (true, true)))))))
| Xcb -> (true, (true, (false, (true, (false, (false, (true, true)))))))
| Xcc -> (false, (false, (true, (true, (false, (false, (true, true)))))))
| Xcd -> (true, (false, (true, (true, (false, (false, (true, true)))))))
| Xce -> (false, (true, (true, (true, (false, (false, (true, true)))))))
| Xcf -> (true, (true, (true, (true, (false, (false, (true, true)))))))
| Xd0 -> (false, (false, (false, (false, (true, (false, (true, true)))))))
| Xd1 -> (true, (false, (false, (false, (true, (false, (true, true)))))))
| Xd2 -> (false, (true, (false, (false, (true, (false, (true, true)))))))
| Xd3 -> (true, (true, (false, (false, (true, (false, (true, true)))))))
| Xd4 -> (false, (false, (true, (false, (true, (false, (true, true)))))))
| Xd5 -> (true, (false, (true, (false, (true, (false, (true, true)))))))
| Xd6 -> (false, (true, (true, (false, (true, (false, (true, true)))))))
| Xd7 -> (true, (true, (true, (false, (true, (false, (true, true)))))))
| Xd8 -> (false, (false, (false, (true, (true, (false, (true, true)))))))
| Xd9 -> (true, (false, (false, (true, (true, (false, (true, true)))))))
| Xda -> (false, (true, (false, (true, (true, (false, (true, true)))))))
| Xdb -> (true, (true, (false, (true, (true, (false, (true, true)))))))
| Xdc -> (false, (false, (true, (true, (true, (false, (true, true)))))))
| Xdd -> (true, (false, (true, (true, (true, (false, (true, true)))))))
| Xde -> (false, (true, (true, (true, (true, (false, (true, true)))))))
| Xdf -> (true, (true, (true, (true, (true, (false, (true, true)))))))
| Xe0 -> (false, (false, (false, (false, (false, (true, (true, true)))))))
| Xe1 -> (true, (false, (false, (false, (false, (true, (true, true)))))))
| Xe2 -> (false, (true, (false, (false, (false, (true, (true, true)))))))
| Xe3 -> (true, (true, (false, (false, (false, (true, (true, true)))))))
| Xe4 -> (false, (false, (true, (false, (false, (true, (true, true)))))))
| Xe5 -> (true, (false, (true, (false, (false, (true, (true, true)))))))
| Xe6 -> (false, (true, (true, (false, (false, (true, (true, true)))))))
| Xe7 -> (true, (true, (true, (false, (false, (true, (true, true)))))))
| Xe8 -> (false, (false, (false, (true, (false, (true, (true, true)))))))
| Xe9 -> (true, (false, (false, (true, (false, (true, (true, true)))))))
| Xea -> (false, (true, (false, (true, (false, (true, (true, true)))))))
| Xeb -> (true, (true, (false, (true, (false, (true, (true, true)))))))
| Xec -> (false, (false, (true, (true, (false, (true, (true, true)))))))
| Xed -> (true, (false, (true, (true, (false, (true, (true, true)))))))
| Xee -> (false, (true, (true, (true, (false, (true, (true, true)))))))
| Xef -> (true, (true, (true, (true, (false, (true, (true, true)))))))
| Xf0 -> (false, (false, (false, (false, (true, (true, (true, true)))))))
| Xf1 -> (true, (false, (false, (false, (true, (true, (true, true)))))))
| Xf2 -> (false, (true, (false, (false, (true, (true, (true, true)))))))
| Xf3 -> (true, (true, (false, (false, (true, (true, (true, true)))))))
| Xf4 -> (false, (false, (true, (false, (true, (true, (true, true)))))))
| Xf5 -> (true, (false, (true, (false, (true, (true, (true, true)))))))
| Xf6 -> (false, (true, (true, (false, (true, (true, (true, true)))))))
| Xf7 -> (true, (true, (true, (false, (true, (true, (true, true)))))))
| Xf8 -> (false, (false, (false, (true, (true, (true, (true, true)))))))
| Xf9 -> (true, (false, (false, (true, (true, (true, (true, true)))))))
| Xfa -> (false, (true, (false, (true, (true, (true, (true, true)))))))
| Xfb -> (true, (true, (false, (true, (true, (true, (true, true)))))))
| Xfc -> (false, (false, (true, (true, (true, (true, (true, true)))))))
| Xfd -> (true, (false, (true, (true, (true, (true, (true, true)))))))
| Xfe -> (false, (true, (true, (true, (true, (true, (true, true)))))))
| Xff -> (true, (true, (true, (true, (true, (true, (true, true)))))))

(** val eqb : bool -> bool -> bool **)

let eqb b1 b2 =
  if b1 then b2 else if b2 then false else true

(** val map : ('a1 -> 'a2) -> 'a1 list -> 'a2 list **)

let rec map f = function
| [] -> []
| a :: t -> (f a) :: (map f t)

(** val existsb : ('a1 -> bool) -> 'a1 list -> bool **)

let rec existsb f = function
| [] -> false
| a :: l0 -> (||) (f a) (existsb f l0)

(** val forallb : ('a1 -> bool) -> 'a1 list -> bool **)

let rec forallb f = function
| [] -> true
| a :: l0 -> (&&) (f a) (forallb f l0)

(** val filter : ('a1 -> bool) -> 'a1 list -> 'a1 list **)

let rec filter f = function
| [] -> []
| x :: l0 -> if f x then x :: (filter f l0) else filter f l0

type positive =
| XI of positive
| XO of positive
| XH

type n =
| N0
| Npos of positive

type z =
| Z0
| Zpos of positive
| Zneg of positive

module Pos =
 struct
  (** val compare_cont : comparison -> positive -> positive -> comparison **)

  let rec compare_cont r x y =
    match x with
    | XI p ->
      (match y with
       | XI q -> compare_cont r p q
       | XO q -> compare_cont Gt p q
       | XH -> Gt)
    | XO p ->
      (match y with
       | XI q -> compare_cont Lt p q
       | XO q -> compare_cont r p q
       | XH -> Gt)
    | XH -> (match y with
             | XH -> r
             | _ -> Lt)

  (** val compare : positive -> positive -> comparison **)

  let compare =
    compare_cont Eq

  (** val eqb : positive -> positive -> bool **)

  let rec eqb p q =
    match p with
    | XI p0 -> (match q with
                | XI q0 -> eqb p0 q0
                | _ -> false)
    | XO p0 -> (match q with
                | XO q0 -> eqb p0 q0
                | _ -> false)
    | XH -> (match q with
             | XH -> true
             | _ -> false)
 end

module Z =
 struct
  (** val compare : z -> z -> comparison **)

  let compare x y =
    match x with
    | Z0 -> (match y with
             | Z0 -> Eq
             | Zpos _ -> Lt
             | Zneg _ -> Gt)
    | Zpos x' -> (match y with
                  | Zpos y' -> Pos.compare x' y'
                  | _ -> Gt)
    | Zneg x' ->
      (match y with
       | Zneg y' -> compOpp (Pos.compare x' y')
       | _ -> Lt)

  (** val leb : z -> z -> bool **)

  let leb x y =
    match compare x y with
    | Gt -> false
    | _ -> true

  (** val ltb : z -> z -> bool **)

  let ltb x y =
    match compare x y with
    | Lt -> true
    | _ -> false

  (** val geb : z -> z -> bool **)

  let geb x y =
    match compare x y with
    | Lt -> false
    | _ -> true

  (** val gtb : z -> z -> bool **)

  let gtb x y =
    match compare x y with
    | Gt -> true
    | _ -> false

  (** val eqb : z -> z -> bool **)

  let eqb x y =
    match x with
    | Z0 -> (match y with
             | Z0 -> true
             | _ -> false)
    | Zpos p -> (match y with
                 | Zpos q -> Pos.eqb p q
                 | _ -> false)
    | Zneg p -> (match y with
                 | Zneg q -> Pos.eqb p q
                 | _ -> false)
 end

(** val eqb0 : byte -> byte -> bool **)

let eqb0 a b =
  let (a0, p) = to_bits a in
  let (a1, p0) = p in
  let (a2, p1) = p0 in
  let (a3, p2) = p1 in
  let (a4, p3) = p2 in
  let (a5, p4) = p3 in
  let (a6, a7) = p4 in
  let (b0, p5) = to_bits b in
  let (b1, p6) = p5 in
  let (b2, p7) = p6 in
  let (b3, p8) = p7 in
  let (b4, p9) = p8 in
  let (b5, p10) = p9 in
  let (b6, b7) = p10 in
  (&&)
    ((&&)
      ((&&)
        ((&&)
          ((&&) ((&&) ((&&) (eqb a0 b0) (eqb a1 b1)) (eqb a2 b2)) (eqb a3 b3))
          (eqb a4 b4)) (eqb a5 b5)) (eqb a6 b6)) (eqb a7 b7)

(** val to_N : byte -> n **)

let to_N = function
| X00 -> N0
| X01 -> Npos XH
| X02 -> Npos (XO XH)
| X03 -> Npos (XI XH)
| X04 -> Npos (XO (XO XH))
| X05 -> Npos (XI (XO XH))
| X06 -> Npos (XO (XI XH))
| X07 -> Npos (XI (XI XH))
| X08 -> Npos (XO (XO (XO XH)))
| X09 -> Npos (XI (XO (XO XH)))
| X0a -> Npos (XO (XI (XO XH)))
| X0b -> Npos (XI (XI (XO XH)))
| X0c -> Npos (XO (XO (XI XH)))
| X0d -> Npos (XI (XO (XI XH)))
| X0e -> Npos (XO (XI (XI XH)))
| X0f -> Npos (XI (XI (XI XH)))
| X10 -> Npos (XO (XO (XO (XO XH))))
| X11 -> Npos (XI (XO (XO (XO XH))))
| X12 -> Npos (XO (XI (XO (XO XH))))
| X13 -> Npos (XI (XI (XO (XO XH))))
| X14 -> Npos (XO (XO (XI (XO XH))))
| X15 -> Npos (XI (XO (XI (XO XH))))
| X16 -> Npos (XO (XI (XI (XO XH))))
| X17 -> Npos (XI (XI (XI (XO XH))))
| X18 -> Npos (XO (XO (XO (XI XH))))
| X19 -> Npos (XI (XO (XO (XI XH))))
| X1a -> Npos (XO (XI (XO (XI XH))))
| X1b -> Npos (XI (XI (XO (XI XH))))
| X1c -> Npos (XO (XO (XI (XI XH))))
| X1d -> Npos (XI (XO (XI (XI XH))))
| X1e -> Npos (XO (XI (XI (XI XH))))
| X1f -> Npos (XI (XI (XI (XI XH))))
| X20 -> Npos (XO (XO (XO (XO (XO XH)))))
| X21 -> Npos (XI (XO (XO (XO (XO XH)))))
| X22 -> Npos (XO (XI (XO (XO (XO XH)))))
| X23 -> Npos (XI (XI (XO (XO (XO XH)))))
| X24 -> Npos (XO (XO (XI (XO (XO XH)))))
| X25 -> Npos (XI (XO (XI (XO (XO XH)))))
| X26 -> Npos (XO (XI (XI (XO (XO XH)))))
| X27 -> Npos (XI (XI (XI (XO (XO XH)))))
| X28 -> Npos (XO (XO (XO (XI (XO XH)))))
| X29 -> Npos (XI (XO (XO (XI (XO XH)))))
| X2a -> Npos (XO (XI (XO (XI (XO XH)))))
| X2b -> Npos (XI (XI (XO (XI (XO XH)))))
| X2c -> Npos (XO (XO (XI (XI (XO XH)))))
| X2d -> Npos (XI (XO (XI (XI (XO XH)))))
| X2e -> Npos (XO (XI (XI (XI (XO XH)))))
| X2f -> Npos (XI (XI (XI (XI (XO XH)))))
| X30 -> Npos (XO (XO (XO (XO (XI XH)))))
| X31 -> Npos (XI (XO (XO (XO (XI XH)))))
| X32 -> Npos (XO (XI (XO (XO (XI XH)))))
| X33 -> Npos (XI (XI (XO (XO (XI XH)))))
| X34 -> Npos (XO (XO (XI (XO (XI XH)))))
| X35 -> Npos (XI (XO (XI (XO (XI XH)))))
| X36 -> Npos (XO (XI (XI (XO (XI XH)))))
| X37 -> Npos (XI (XI (XI (XO (XI XH)))))
| X38 -> Npos (XO (XO (XO (XI (XI XH)))))
| X39 -> Npos (XI (XO (XO (XI (XI XH)))))
| X3a -> Npos (XO (XI (XO (XI (XI XH)))))
| X3b -> Npos (XI (XI (XO (XI (XI XH)))))
| X3c -> Npos (XO (XO (XI (XI (XI XH)))))
| X3d -> Npos (XI (XO (XI (XI (XI XH)))))
| X3e -> Npos (XO (XI (XI (XI (XI XH)))))
| X3f -> Npos (XI (XI (XI (XI (XI XH)))))
| X40 -> Npos (XO (XO (XO (XO (XO (XO XH))))))
| X41 -> Npos (XI (XO (XO (XO (XO (XO XH))))))
| X42 -> Npos (XO (XI (XO (XO (XO (XO XH))))))
| X43 -> Npos (XI (XI (XO (XO (XO (XO XH))))))
| X44 -> Npos (XO (XO (XI (XO (XO (XO XH))))))
| X45 -> Npos (XI (XO (XI (XO (XO (XO XH))))))
| X46 -> Npos (XO (XI (XI (XO (XO (XO XH))))))
| X47 -> Npos (XI (XI (XI (XO (XO (XO XH))))))
| X48 -> Npos (XO (XO (XO (XI (XO (XO XH))))))
| X49 -> Npos (XI (XO (XO (XI (XO (XO XH))))))
| X4a -> Npos (XO (XI (XO (XI (XO (XO XH))))))
| X4b -> Npos (XI (XI (XO (XI (XO (XO XH))))))
| X4c -> Npos (XO (XO (XI (XI (XO (XO XH))))))
| X4d -> Npos (XI (XO (XI (XI (XO (XO XH))))))
| X4e -> Npos (XO (XI (XI (XI (XO (XO XH))))))
| X4f -> Npos (XI (XI (XI (XI (XO (XO XH))))))
| X50 -> Npos (XO (XO (XO (XO (XI (XO XH))))))
| X51 -> Npos (XI (XO (XO (XO (XI (XO XH))))))
| X52 -> Npos (XO (XI (XO (XO (XI (XO XH))))))
| X53 -> Npos (XI (XI (XO (XO (XI (XO XH))))))
| X54 -> Npos (XO (XO (XI (XO (XI (XO XH))))))
| X55 -> Npos (XI (XO (XI (XO (XI (XO XH))))))
| X56 -> Npos (XO (XI (XI (XO (XI (XO XH))))))
| X57 -> Npos (XI (XI (XI (XO (XI (XO XH))))))
| X58 -> Npos (XO (XO (XO (XI (XI (XO XH))))))
| X59 -> Npos (XI (XO (XO (XI (XI (XO XH))))))
| X5a -> Npos (XO (XI (XO (XI (XI (XO XH))))))
| X5b -> Npos (XI (XI (XO (XI (XI (XO XH))))))
| X5c -> Npos (XO (XO (XI (XI (XI (XO XH))))))
| X5d -> Npos (XI (XO (XI (XI (XI (XO XH))))))
| X5e -> Npos (XO (XI (XI (XI (XI (XO XH))))))
| X5f -> Npos (XI (XI (XI (XI (XI (XO XH))))))
| X60 -> Npos (XO (XO (XO (XO (XO (XI XH))))))
| X61 -> Npos (XI (XO (XO (XO (XO (XI XH))))))
| X62 -> Npos (XO (XI (XO (XO (XO (XI XH))))))
| X63 -> Npos (XI (XI (XO (XO (XO (XI XH))))))
| X64 -> Npos (XO (XO (XI (XO (XO (XI XH))))))
| X65 -> Npos (XI (XO (XI (XO (XO (XI XH))))))
| X66 -> Npos (XO (XI (XI (XO (XO (XI XH))))))
| X67 -> Npos (XI (XI (XI (XO (XO (XI XH))))))
| X68 -> Npos (XO (XO (XO (XI (XO (XI XH))))))
| X69 -> Npos (XI (XO (XO (XI (XO (XI XH))))))
| X6a -> Npos (XO (XI (XO (XI (XO (XI XH))))))
| X6b -> Npos (XI (XI (XO (XI (XO (XI XH))))))
| X6c -> Npos (XO (XO (XI (XI (XO (XI XH))))))
| X6d -> Npos (XI (XO (XI (XI (XO (XI XH))))))
| X6e -> Npos (XO (XI (XI (XI (XO (XI XH))))))
| X6f -> Npos (XI (XI (XI (XI (XO (XI XH))))))
| X70 -> Npos (XO (XO (XO (XO (XI (XI XH))))))
| X71 -> Npos (XI (XO (XO (XO (XI (XI XH))))))
| X72 -> Npos (XO (XI (XO (XO (XI (XI XH))))))
| X73 -> Npos (XI (XI (XO (XO (XI (XI XH))))))
| X74 -> Npos (XO (XO (XI (XO (XI (XI XH))))))
| X75 -> Npos (XI (XO (XI (XO (XI (XI XH))))))
| X76 -> Npos (XO (XI (XI (XO (XI (XI XH))))))
| X77 -> Npos (XI (XI (XI (XO (XI (XI XH))))))
| X78 -> Npos (XO (XO (XO (XI (XI (XI XH))))))
| X79 -> Npos (XI (XO (XO (XI (XI (XI XH))))))
| X7a -> Npos (XO (XI (XO (XI (XI (XI XH))))))
| X7b -> Npos (XI (XI (XO (XI (XI (XI XH))))))
| X7c -> Npos (XO (XO (XI (XI (XI (XI XH))))))
| X7d -> Npos (XI (XO (XI (XI (XI (XI XH))))))
| X7e -> Npos (XO (XI (XI (XI (XI (XI XH))))))
| X7f -> Npos (XI (XI (XI (XI (XI (XI XH))))))
| X80 -> Npos (XO (XO (XO (XO (XO (XO (XO XH)))))))
| X81 -> Npos (XI (XO (XO (XO (XO (XO (XO XH)))))))
| X82 -> Npos (XO (XI (XO (XO (XO (XO (XO XH)))))))
| X83 -> Npos (XI (XI (XO (XO (XO (XO (XO XH)))))))
| X84 -> Npos (XO (XO (XI (XO (XO (XO (XO XH)))))))
| X85 -> Npos (XI (XO (XI (XO (XO (XO (XO XH)))))))
| X86 -> Npos (XO (XI (XI (XO (XO (XO (XO XH)))))))
| X87 -> Npos (XI (XI (XI (XO (XO (XO (XO XH)))))))
| X88 -> Npos (XO (XO (XO (XI (XO (XO (XO XH)))))))
| X89 -> Npos (XI (XO (XO (XI (XO (XO (XO XH)))))))
| X8a -> Npos (XO (XI (XO (XI (XO (XO (XO XH)))))))
| X8b -> Npos (XI (XI (XO (XI (XO (XO (XO XH)))))))
| X8c -> Npos (XO (XO (XI (XI (XO (XO (XO XH)))))))
| X8d -> Npos (XI (XO (XI (XI (XO (XO (XO XH)))))))
| X8e -> Npos (XO (XI (XI (XI (XO (XO (XO XH)))))))
| X8f -> Npos (XI (XI (XI (XI (XO (XO (XO XH)))))))
| X90 -> Npos (XO (XO (XO (XO (XI (XO (XO XH)))))))
| X91 -> Npos (XI (XO (XO (XO (XI (XO (XO XH)))))))
| X92 -> Npos (XO (XI (XO (XO (XI (XO (XO XH)))))))
| X93 -> Npos (XI (XI (XO (XO (XI (XO (XO XH)))))))
| X94 -> Npos (XO (XO (XI (XO (XI (XO (XO XH)))))))
| X95 -> Npos (XI (XO (XI (XO (XI (XO (XO XH)))))))
| X96 -> Npos (XO (XI (XI (XO (XI (XO (XO XH)))))))
| X97 -> Npos (XI (XI (XI (XO (XI (XO (XO XH)))))))
| X98 -> Npos (XO (XO (XO (XI (XI (XO (XO XH)))))))
| X99 -> Npos (XI (XO (XO (XI (XI (XO (XO XH)))))))
| X9a -> Npos (XO (XI (XO (XI (XI (XO (XO XH)))))))
| X9b -> Npos (XI (XI (XO (XI (XI (XO (XO XH)))))))
| X9c -> Npos (XO (XO (XI (XI (XI (XO (XO XH)))))))
| X9d -> Npos (XI (XO (XI (XI (XI (XO (XO XH)))))))
| X9e -> Npos (XO (XI (XI (XI (XI (XO (XO XH)))))))
| X9f -> Npos (XI (XI (XI (XI (XI (XO (XO XH)))))))
| Xa0 -> Npos (XO (XO (XO (XO (XO (XI (XO XH)))))))
| Xa1 -> Npos (XI (XO (XO (XO (XO (XI (XO XH)))))))
| Xa2 -> Npos (XO (XI (XO (XO (XO (XI (XO XH)))))))
| Xa3 -> Npos (XI (XI (XO (XO (XO (XI (XO XH)))))))
| Xa4 -> Npos (XO (XO (XI (XO (XO (XI (XO XH)))))))
| Xa5 -> Npos (XI (XO (XI (XO (XO (XI (XO XH)))))))
| Xa6 -> Npos (XO (XI (XI (XO (XO (XI (XO XH)))))))
| Xa7 -> Npos (XI (XI (XI (XO (XO (XI (XO XH)))))))
| Xa8 -> Npos (XO (XO (XO (XI (XO (XI (XO XH)))))))
| Xa9 -> Npos (XI (XO (XO (XI (XO (XI (XO XH)))))))
| Xaa -> Npos (XO (XI (XO (XI (XO (XI (XO XH)))))))
| Xab -> Npos (XI (XI (XO (XI (XO (XI (XO XH)))))))
| Xac -> Npos (XO (XO (XI (XI (XO (XI (XO XH)))))))
| Xad -> Npos (XI (XO (XI (XI (XO (XI (XO XH)))))))
| Xae -> Npos (XO (XI (XI (XI (XO (XI (XO XH)))))))
| Xaf -> Npos (XI (XI (XI (XI (XO (XI (XO XH)))))))
| Xb0 -> Npos (XO (XO (XO (XO (XI (XI (XO XH)))))))
| Xb1 -> Npos (XI (XO (XO (XO (XI (XI (XO XH)))))))
| Xb2 -> Npos (XO (XI (XO (XO (XI (XI (XO XH)))))))
| Xb3 -> Npos (XI (XI (XO (XO (XI (XI (XO XH)))))))
| Xb4 -> Npos (XO (XO (XI (XO (XI (XI (XO XH)))))))
| Xb5 -> Npos (XI (XO (XI (XO (XI (XI (XO XH)))))))
| Xb6 -> Npos (XO (XI (XI (XO (XI (XI (XO XH)))))))
| Xb7 -> Npos (XI (XI (XI (XO (XI (XI (XO XH)))))))
| Xb8 -> Npos (XO (XO (XO (XI (XI (XI (XO XH)))))))
| Xb9 -> Npos (XI (XO (XO (XI (XI (XI (XO XH)))))))
| Xba -> Npos (XO (XI (XO (XI (XI (XI (XO XH)))))))
| Xbb -> Npos (XI (XI (XO (XI (XI (XI (XO XH)))))))
| Xbc -> Npos (XO (XO (XI (XI (XI (XI (XO XH)))))))
| Xbd -> Npos (XI (XO (XI (XI (XI (XI (XO XH)))))))
| Xbe -> Npos (XO (XI (XI (XI (XI (XI (XO XH)))))))
| Xbf -> Npos (XI (XI (XI (XI (XI (XI (XO XH)))))))
| Xc0 -> Npos (XO (XO (XO (XO (XO (XO (XI XH)))))))
| Xc1 -> Npos (XI (XO (XO (XO (XO (XO (XI XH)))))))
| Xc2 -> Npos (XO (XI (XO (XO (XO (XO (XI XH)))))))
| Xc3 -> Npos (XI (XI (XO (XO (XO (XO (XI XH)))))))
| Xc4 -> Npos (XO (XO (XI (XO (XO (XO (XI XH)))))))
| Xc5 -> Npos (XI (XO (XI (XO (XO (XO (XI XH)))))))
| Xc6 -> Npos (XO (XI (XI (XO (XO (XO (XI XH)))))))
| Xc7 -> Npos (XI (XI (XI (XO (XO (XO (XI XH)))))))
| Xc8 -> Npos (XO (XO (XO (XI (XO (XO (XI XH)))))))
| Xc9 -> Npos (XI (XO (XO (XI (XO (XO (XI XH)))))))
| Xca -> Npos (XO (XI (XO (XI (XO (XO (XI XH)))))))
| Xcb -> Npos (XI (XI (XO (XI (XO (XO (XI XH)))))))
| Xcc -> Npos (XO (XO (XI (XI (XO (XO (XI XH)))))))
| Xcd -> Npos (XI (XO (XI (XI (XO (XO (XI XH)))))))
| Xce -> Npos (XO (XI (XI (XI (XO (XO (XI XH)))))))
| Xcf -> Npos (XI (XI (XI (XI (XO (XO (XI XH)))))))
| Xd0 -> Npos (XO (XO (XO (XO (XI (XO (XI XH)))))))
| Xd1 -> Npos (XI (XO (XO (XO (XI (XO (XI XH)))))))
| Xd2 -> Npos (XO (XI (XO (XO (XI (XO (XI XH)))))))
| Xd3 -> Npos (XI (XI (XO (XO (XI (XO (XI XH)))))))
| Xd4 -> Npos (XO (XO (XI (XO (XI (XO (XI XH)))))))
| Xd5 -> Npos (XI (XO (XI (XO (XI (XO (XI XH)))))))
| Xd6 -> Npos (XO (XI (XI (XO (XI (XO (XI XH)))))))
| Xd7 -> Npos (XI (XI (XI (XO (XI (XO (XI XH)))))))
| Xd8 -> Npos (XO (XO (XO (XI (XI (XO (XI XH)))))))
| Xd9 -> Npos (XI (XO (XO (XI (XI (XO (XI XH)))))))
| Xda -> Npos (XO (XI (XO (XI (XI (XO (XI XH)))))))
| Xdb -> Npos (XI (XI (XO (XI (XI (XO (XI XH)))))))
| Xdc -> Npos (XO (XO (XI (XI (XI (XO (XI XH)))))))
| Xdd -> Npos (XI (XO (XI (XI (XI (XO (XI XH)))))))
| Xde -> Npos (XO (XI (XI (XI (XI (XO (XI XH)))))))
| Xdf -> Npos (XI (XI (XI (XI (XI (XO (XI XH)))))))
| Xe0 -> Npos (XO (XO (XO (XO (XO (XI (XI XH)))))))
| Xe1 -> Npos (XI (XO (XO (XO (XO (XI (XI XH)))))))
| Xe2 -> Npos (XO (XI (XO (XO (XO (XI (XI XH)))))))
| Xe3 -> Npos (XI (XI (XO (XO (XO (XI (XI XH)))))))
| Xe4 -> Npos (XO (XO (XI (XO (XO (XI (XI XH)))))))
| Xe5 -> Npos (XI (XO (XI (XO (XO (XI (XI XH)))))))
| Xe6 -> Npos (XO (XI (XI (XO (XO (XI (XI XH)))))))
| Xe7 -> Npos (XI (XI (XI (XO (XO (XI (XI XH)))))))
| Xe8 -> Npos (XO (XO (XO (XI (XO (XI (XI XH)))))))
| Xe9 -> Npos (XI (XO (XO (XI (XO (XI (XI XH)))))))
| Xea -> Npos (XO (XI (XO (XI (XO (XI (XI XH)))))))
| Xeb -> Npos (XI (XI (XO (XI (XO (XI (XI XH)))))))
| Xec -> Npos (XO (XO (XI (XI (XO (XI (XI XH)))))))
| Xed -> Npos (XI (XO (XI (XI (XO (XI (XI XH)))))))
| Xee -> Npos (XO (XI (XI (XI (XO (XI (XI XH)))))))
| Xef -> Npos (XI (XI (XI (XI (XO (XI (XI XH)))))))
| Xf0 -> Npos (XO (XO (XO (XO (XI (XI (XI XH)))))))
| Xf1 -> Npos (XI (XO (XO (XO (XI (XI (XI XH)))))))
| Xf2 -> Npos (XO (XI (XO (XO (XI (XI (XI XH)))))))
| Xf3 -> Npos (XI (XI (XO (XO (XI (XI (XI XH)))))))
| Xf4 -> Npos (XO (XO (XI (XO (XI (XI (XI XH)))))))
| Xf5 -> Npos (XI (XO (XI (XO (XI (XI (XI XH)))))))
| Xf6 -> Npos (XO (XI (XI (XO (XI (XI (XI XH)))))))
| Xf7 -> Npos (XI (XI (XI (XO (XI (XI (XI XH)))))))
| Xf8 -> Npos (XO (XO (XO (XI (XI (XI (XI XH)))))))
| Xf9 -> Npos (XI (XO (XO (XI (XI (XI (XI XH)))))))
| Xfa -> Npos (XO (XI (XO (XI (XI (XI (XI XH)))))))
| Xfb -> Npos (XI (XI (XO (XI (XI (XI (XI XH)))))))
| Xfc -> Npos (XO (XO (XI (XI (XI (XI (XI XH)))))))
| Xfd -> Npos (XI (XO (XI (XI (XI (XI (XI XH)))))))
| Xfe -> Npos (XO (XI (XI (XI (XI (XI (XI XH)))))))
| Xff -> Npos (XI (XI (XI (XI (XI (XI (XI XH)))))))

(** val of_N : n -> byte option **)

let of_N = function
| N0 -> Some X00
| Npos p ->
  (match p with
   | XI p0 ->
     (match p0 with
      | XI p1 ->
        (match p1 with
         | XI p2 ->
           (match p2 with
            | XI p3 ->
              (match p3 with
               | XI p4 ->
                 (match p4 with
                  | XI p5 ->
                    (match p5 with
                     | XI p6 -> (match p6 with
                                 | XH -> Some Xff
                                 | _ -> None)
                     | XO p6 -> (match p6 with
                                 | XH -> Some Xbf
                                 | _ -> None)
                     | XH -> Some X7f)
                  | XO p5 ->
                    (match p5 with
                     | XI p6 -> (match p6 with
                                 | XH -> Some Xdf
                                 | _ -> None)
                     | XO p6 -> (match p6 with
                                 | XH -> Some X9f
                                 | _ -> None)
                     | XH -> Some X5f)
                  | XH -> Some X3f)
               | XO p4 ->
                 (match p4 with
                  | XI p5 ->
                    (match p5 with
                     | XI p6 -> (match p6 with
                                 | XH -> Some Xef
                                 | _ -> None)
                     | XO p6 -> (match p6 with
                                 | XH -> Some Xaf
                                 | _ -> None)
                     | XH -> Some X6f)
                  | XO p5 ->
                    (match p5 with
                     | XI p6 -> (match p6 with
                                 | XH -> Some Xcf
                                 | _ -> None)
                     | XO p6 -> (match p6 with
                                 | XH -> Some X8f
                                 | _ -> None)
                     | XH -> Some X4f)
                  | XH -> Some X2f)
               | XH -> Some X1f)
            | XO p3 ->
              (match p3 with
               | XI p4 ->
                 (match p4 with
                  | XI p5 ->
                    (match p5 with
                     | XI p6 -> (match p6 with
                                 | XH -> Some Xf7
                                 | _ -> None)
                     | XO p6 -> (match p6 with
                                 | XH -> Some Xb7
                                 | _ -> None)
                     | XH -> Some X77)
                  | XO p5 ->
                    (match p5 with
                     | XI p6 -> (match p6 with
                                 | XH -> Some Xd7
                                 | _ -> None)
                     | XO p6 -> (match p6 with
                                 | XH -> Some X97
                                 | _ -> None)
                     | XH -> Some X57)
                  | XH -> Some X37)
               | XO p4 ->
                 (match p4 with
                  | XI p5 ->
                    (match p5 with
                     | XI p6 -> (match p6 with
                                 | XH -> Some Xe7
                                 | _ -> None)
                     | XO p6 -> (match p6 with
                                 | XH -> Some Xa7
                                 | _ -> None)
                     | XH -> Some X67)
                  | XO p5 ->
                    (match p5 with
                     | XI p6 -> (match p6 with
                                 | XH -> Some Xc7
                                 | _ -> None)
                     | XO p6 -> (match p6 with
                                 | XH -> Some X87
                                 | _ -> None)
                     | XH -> Some X47)
                  | XH -> Some X27)
               | XH -> Some X17)
            | XH -> Some X0f)
         | XO p2 ->
           (match p2 with
            | XI p3 ->
              (match p3 with
               | XI p4 ->
                 (match p4 with
                  | XI p5 ->
                    (match p5 with
                     | XI p6 -> (match p6 with
                                 | XH -> Some Xfb
                                 | _ -> None)
                     | XO p6 -> (match p6 with
                                 | XH -> Some Xbb
                                 | _ -> None)
                     | XH -> Some X7b)
                  | XO p5 ->
                    (match p5 with
                     | XI p6 -> (match p6 with
                                 | XH -> Some Xdb
                                 | _ -> None)
                     | XO p6 -> (match p6 with
                                 | XH -> Some X9b
                                 | _ -> None)
                     | XH -> Some X5b)
                  | XH -> Some X3b)
               | XO p4 ->
                 (match p4 with
                  | XI p5 ->
                    (match p5 with
                     | XI p6 -> (match p6 with
                                 | XH -> Some Xeb
                                 | _ -> None)
                     | XO p6 -> (match p6 with
                                 | XH -> Some Xab
                                 | _ -> None)
                     | XH -> Some X6b)
                  | XO p5 ->
                    (match p5 with
                     | XI p6 -> (match p6 with
                                 | XH -> Some Xcb
                                 | _ -> None)
                     | XO p6 -> (match p6 with
                                 | XH -> Some X8b
                                 | _ -> None)
                     | XH -> Some X4b)
                  | XH -> Some X2b)
               | XH -> Some X1b)
            | XO p3 ->
              (match p3 with
               | XI p4 ->
                 (match p4 with
                  | XI p5 ->
                    (match p5 with
                     | XI p6 -> (match p6 with
                                 | XH -> Some Xf3
                                 | _ -> None)
                     | XO p6 -> (match p6 with
                                 | XH -> Some Xb3
                                 | _ -> None)
                     | XH -> Some X73)
                  | XO p5 ->
                    (match p5 with
                     | XI p6 -> (match p6 with
                                 | XH -> Some Xd3
                                 | _ -> None)
                     | XO p6 -> (match p6 with
                                 | XH -> Some X93
                                 | _ -> None)
                     | XH -> Some X53)
                  | XH -> Some X33)
               | XO p4 ->
                 (match p4 with
                  | XI p5 ->
                    (match p5 with
                     | XI p6 -> (match p6 with
                                 | XH -> Some Xe3
                                 | _ -> None)
                     | XO p6 -> (match p6 with
                                 | XH -> Some Xa3
                                 | _ -> None)
                     | XH -> Some X63)
                  | XO p5 ->
                    (match p5 with
                     | XI p6 -> (match p6 with
                                 | XH -> Some Xc3
                                 | _ -> None)
                     | XO p6 -> (match p6 with
                                 | XH -> Some X83
                                 | _ -> None)
                     | XH -> Some X43)
                  | XH -> Some X23)
               | XH -> Some X13)
            | XH -> Some X0b)
         | XH -> Some X07)
      | XO p1 ->
        (match p1 with
         | XI p2 ->
           (match p2 with
            | XI p3 ->
              (match p3 with
               | XI p4 ->
                 (match p4 with
                  | XI p5 ->
                    (match p5 with
                     | XI p6 -> (match p6 with
                                 | XH -> Some Xfd
                                 | _ -> None)
                     | XO p6 -> (match p6 with
                                 | XH -> Some Xbd
                                 | _ -> None)
                     | XH -> Some X7d)
                  | XO p5 ->
                    (match p5 with
                     | XI p6 -> (match p6 with
                                 | XH -> Some Xdd
                                 | _ -> None)
                     | XO p6 -> (match p6 with
                                 | XH -> Some X9d
                                 | _ -> None)
                     | XH -> Some X5d)
                  | XH -> Some X3d)
               | XO p4 ->
                 (match p4 with
                  | XI p5 ->
                    (match p5 with
                     | XI p6 -> (match p6 with
                                 | XH -> Some Xed
                                 | _ -> None)
                     | XO p6 -> (match p6 with
                                 | XH -> Some Xad
                                 | _ -> None)
                     | XH -> Some X6d)
                  | XO p5 ->
                    (match p5 with
                     | XI p6 -> (match p6 with
                                 | XH -> Some Xcd
                                 | _ -> None)
                     | XO p6 -> (match p6 with
                                 | XH -> Some X8d
                                 | _ -> None)
                     | XH -> Some X4d)
                  | XH -> Some X2d)
               | XH -> Some X1d)
            | XO p3 ->
              (match p3 with
               | XI p4 ->
                 (match p4 with
                  | XI p5 ->
                    (match p5 with
                     | XI p6 -> (match p6 with
                                 | XH -> Some Xf5
                                 | _ -> None)
                     | XO p6 -> (match p6 with
                                 | XH -> Some Xb5
                                 | _ -> None)
                     | XH -> Some X75)
                  | XO p5 ->
                    (match p5 with
                     | XI p6 -> (match p6 with
                                 | XH -> Some Xd5
                                 | _ -> None)
                     | XO p6 -> (match p6 with
                                 | XH -> Some X95
                                 | _ -> None)
                     | XH -> Some X55)
                  | XH -> Some X35)
               | XO p4 ->
                 (match p4 with
                  | XI p5 ->
                    (match p5 with
                     | XI p6 -> (match p6 with
                                 | XH -> Some Xe5
                                 | _ -> None)
                     | XO p6 -> (match p6 with
                                 | XH -> Some Xa5
                                 | _ -> None)
                     | XH -> Some X65)
                  | XO p5 ->
                    (match p5 with
                     | XI p6 -> (match p6 with
                                 | XH -> Some Xc5
                                 | _ -> None)
                     | XO p6 -> (match p6 with
                                 | XH -> Some X85
                                 | _ -> None)
                     | XH -> Some X45)
                  | XH -> Some X25)
               | XH -> Some X15)
            | XH -> Some X0d)
         | XO p2 ->
           (match p2 with
            | XI p3 ->
              (match p3 with
               | XI p4 ->
                 (match p4 with
                  | XI p5 ->
                    (match p5 with
                     | XI p6 -> (match p6 with
                                 | XH -> Some Xf9
                                 | _ -> None)
                     | XO p6 -> (match p6 with
                                 | XH -> Some Xb9
                                 | _ -> None)
                     | XH -> Some X79)
                  | XO p5 ->
                    (match p5 with
                     | XI p6 -> (match p6 with
                                 | XH -> Some Xd9
                                 | _ -> None)
                     | XO p6 -> (match p6 with
                                 | XH -> Some X99
                                 | _ -> None)
                     | XH -> Some X59)
                  | XH -> Some X39)
               | XO p4 ->
                 (match p4 with
                  | XI p5 ->
                    (match p5 with
                     | XI p6 -> (match p6 with
                                 | XH -> Some Xe9
                                 | _ -> None)
                     | XO p6 -> (match p6 with
                                 | XH -> Some Xa9
                                 | _ -> None)
                     | XH -> Some X69)
                  | XO p5 ->
                    (match p5 with
                     | XI p6 -> (match p6 with
                                 | XH -> Some Xc9
                                 | _ -> None)
                     | XO p6 -> (match p6 with
                                 | XH -> Some X89
                                 | _ -> None)
                     | XH -> Some X49)
                  | XH -> Some X29)
               | XH -> Some X19)
            | XO p3 ->
              (match p3 with
               | XI p4 ->
                 (match p4 with
                  | XI p5 ->
                    (match p5 with
                     | XI p6 -> (match p6 with
                                 | XH -> Some Xf1
                                 | _ -> None)
                     | XO p6 -> (match p6 with
                                 | XH -> Some Xb1
                                 | _ -> None)
                     | XH -> Some X71)
                  | XO p5 ->
                    (match p5 with
                     | XI p6 -> (match p6 with
                                 | XH -> Some Xd1
                                 | _ -> None)
                     | XO p6 -> (match p6 with
                                 | XH -> Some X91
                                 | _ -> None)
                     | XH -> Some X51)
                  | XH -> Some X31)
               | XO p4 ->
                 (match p4 with
                  | XI p5 ->
                    (match p5 with
                     | XI p6 -> (match p6 with
                                 | XH -> Some Xe1
                                 | _ -> None)
                     | XO p6 -> (match p6 with
                                 | XH -> Some Xa1
                                 | _ -> None)
                     | XH -> Some X61)
                  | XO p5 ->
                    (match p5 with
                     | XI p6 -> (match p6 with
                                 | XH -> Some Xc1
                                 | _ -> None)
                     | XO p6 -> (match p6 with
                                 | XH -> Some X81
                                 | _ -> None)
                     | XH -> Some X41)
                  | XH -> Some X21)
               | XH -> Some X11)
            | XH -> Some X09)
         | XH -> Some X05)
      | XH -> Some X03)
   | XO p0 ->
     (match p0 with
      | XI p1 ->
        (match p1 with
         | XI p2 ->
           (match p2 with
            | XI p3 ->
              (match p3 with
               | XI p4 ->
                 (match p4 with
                  | XI p5 ->
                    (match p5 with
                     | XI p6 -> (match p6 with
                                 | XH -> Some Xfe
                                 | _ -> None)
                     | XO p6 -> (match p6 with
                                 | XH -> Some Xbe
                                 | _ -> None)
                     | XH -> Some X7e)
                  | XO p5 ->
                    (match p5 with
                     | XI p6 -> (match p6 with
                                 | XH -> Some Xde
                                 | _ -> None)
                     | XO p6 -> (match p6 with
                                 | XH -> Some X9e
                                 | _ -> None)
                     | XH -> Some X5e)
                  | XH -> Some X3e)
               | XO p4 ->
                 (match p4 with
                  | XI p5 ->
                    (match p5 with
                     | XI p6 -> (match p6 with
                                 | XH -> Some Xee
                                 | _ -> None)
                     | XO p6 -> (match p6 with
                                 | XH -> Some Xae
                                 | _ -> None)
                     | XH -> Some X6e)
                  | XO p5 ->
                    (match p5 with
                     | XI p6 -> (match p6 with
                                 | XH -> Some Xce
                                 | _ -> None)
                     | XO p6 -> (match p6 with
                                 | XH -> Some X8e
                                 | _ -> None)
                     | XH -> Some X4e)
                  | XH -> Some X2e)
               | XH -> Some X1e)
            | XO p3 ->
              (match p3 with
               | XI p4 ->
                 (match p4 with
                  | XI p5 ->
                    (match p5 with
                     | XI p6 -> (match p6 with
                                 | XH -> Some Xf6
                                 | _ -> None)
                     | XO p6 -> (match p6 with
                                 | XH -> Some Xb6
                                 | _ -> None)
                     | XH -> Some X76)
                  | XO p5 ->
                    (match p5 with
                     | XI p6 -> (match p6 with
                                 | XH -> Some Xd6
                                 | _ -> None)
                     | XO p6 -> (match p6 with
                                 | XH -> Some X96
                                 | _ -> None)
                     | XH -> Some X56)
                  | XH -> Some X36)
               | XO p4 ->
                 (match p4 with
                  | XI p5 ->
                    (match p5 with
                     | XI p6 -> (match p6 with
                                 | XH -> Some Xe6
                                 | _ -> None)
                     | XO p6 -> (match p6 with
                                 | XH -> Some Xa6
                                 | _ -> None)
                     | XH -> Some X66)
                  | XO p5 ->
                    (match p5 with
                     | XI p6 -> (match p6 with
                                 | XH -> Some Xc6
                                 | _ -> None)
                     | XO p6 -> (match p6 with
                                 | XH -> Some X86
                                 | _ -> None)
                     | XH -> Some X46)
                  | XH -> Some X26)
               | XH -> Some X16)
            | XH -> Some X0e)
         | XO p2 ->
           (match p2 with
            | XI p3 ->
              (match p3 with
               | XI p4 ->
                 (match p4 with
                  | XI p5 ->
                    (match p5 with
                     | XI p6 -> (match p6 with
                                 | XH -> Some Xfa
                                 | _ -> None)
                     | XO p6 -> (match p6 with
                                 | XH -> Some Xba
                                 | _ -> None)
                     | XH -> Some X7a)
                  | XO p5 ->
                    (match p5 with
                     | XI p6 -> (match p6 with
                                 | XH -> Some Xda
                                 | _ -> None)
                     | XO p6 -> (match p6 with
                                 | XH -> Some X9a
                                 | _ -> None)
                     | XH -> Some X5a)
                  | XH -> Some X3a)
               | XO p4 ->
                 (match p4 with
                  | XI p5 ->
                    (match p5 with
                     | XI p6 -> (match p6 with
                                 | XH -> Some Xea
                                 | _ -> None)
                     | XO p6 -> (match p6 with
                                 | XH -> Some Xaa
                                 | _ -> None)
                     | XH -> Some X6a)
                  | XO p5 ->
                    (match p5 with
                     | XI p6 -> (match p6 with
                                 | XH -> Some Xca
                                 | _ -> None)
                     | XO p6 -> (match p6 with
                                 | XH -> Some X8a
                                 | _ -> None)
                     | XH -> Some X4a)
                  | XH -> Some X2a)
               | XH -> Some X1a)
            | XO p3 ->
              (match p3 with
               | XI p4 ->
                 (match p4 with
                  | XI p5 ->
                    (match p5 with
                     | XI p6 -> (match p6 with
                                 | XH -> Some Xf2
                                 | _ -> None)
                     | XO p6 -> (match p6 with
                                 | XH -> Some Xb2
                                 | _ -> None)
                     | XH -> Some X72)
                  | XO p5 ->
                    (match p5 with
                     | XI p6 -> (match p6 with
                                 | XH -> Some Xd2
                                 | _ -> None)
                     | XO p6 -> (match p6 with
                                 | XH -> Some X92
                                 | _ -> None)
                     | XH -> Some X52)
                  | XH -> Some X32)
               | XO p4 ->
                 (match p4 with
                  | XI p5 ->
                    (match p5 with
                     | XI p6 -> (match p6 with
                                 | XH -> Some Xe2
                                 | _ -> None)
                     | XO p6 -> (match p6 with
                                 | XH -> Some Xa2
                                 | _ -> None)
                     | XH -> Some X62)
                  | XO p5 ->
                    (match p5 with
                     | XI p6 -> (match p6 with
                                 | XH -> Some Xc2
                                 | _ -> None)
                     | XO p6 -> (match p6 with
                                 | XH -> Some X82
                                 | _ -> None)
                     | XH -> Some X42)
                  | XH -> Some X22)
               | XH -> Some X12)
            | XH -> Some X0a)
         | XH -> Some X06)
      | XO p1 ->
        (match p1 with
         | XI p2 ->
           (match p2 with
            | XI p3 ->
              (match p3 with
               | XI p4 ->
                 (match p4 with
                  | XI p5 ->
                    (match p5 with
                     | XI p6 -> (match p6 with
                                 | XH -> Some Xfc
                                 | _ -> None)
                     | XO p6 -> (match p6 with
                                 | XH -> Some Xbc
                                 | _ -> None)
                     | XH -> Some X7c)
                  | XO p5 ->
                    (match p5 with
                     | XI p6 -> (match p6 with
                                 | XH -> Some Xdc
                                 | _ -> None)
                     | XO p6 -> (match p6 with
                                 | XH -> Some X9c
                                 | _ -> None)
                     | XH -> Some X5c)
                  | XH -> Some X3c)
               | XO p4 ->
                 (match p4 with
                  | XI p5 ->
                    (match p5 with
                     | XI p6 -> (match p6 with
                                 | XH -> Some Xec
                                 | _ -> None)
                     | XO p6 -> (match p6 with
                                 | XH -> Some Xac
                                 | _ -> None)
                     | XH -> Some X6c)
                  | XO p5 ->
                    (match p5 with
                     | XI p6 -> (match p6 with
                                 | XH -> Some Xcc
                                 | _ -> None)
                     | XO p6 -> (match p6 with
                                 | XH -> Some X8c
                                 | _ -> None)
                     | XH -> Some X4c)
                  | XH -> Some X2c)
               | XH -> Some X1c)
            | XO p3 ->
              (match p3 with
               | XI p4 ->
                 (match p4 with
                  | XI p5 ->
                    (match p5 with
                     | XI p6 -> (match p6 with
                                 | XH -> Some Xf4
                                 | _ -> None)
                     | XO p6 -> (match p6 with
                                 | XH -> Some Xb4
                                 | _ -> None)
                     | XH -> Some X74)
                  | XO p5 ->
                    (match p5 with
                     | XI p6 -> (match p6 with
                                 | XH -> Some Xd4
                                 | _ -> None)
                     | XO p6 -> (match p6 with
                                 | XH -> Some X94
                                 | _ -> None)
                     | XH -> Some X54)
                  | XH -> Some X34)
               | XO p4 ->
                 (match p4 with
                  | XI p5 ->
                    (match p5 with
                     | XI p6 -> (match p6 with
                                 | XH -> Some Xe4
                                 | _ -> None)
                     | XO p6 -> (match p6 with
                                 | XH -> Some Xa4
                                 | _ -> None)
                     | XH -> Some X64)
                  | XO p5 ->
                    (match p5 with
                     | XI p6 -> (match p6 with
                                 | XH -> Some Xc4
                                 | _ -> None)
                     | XO p6 -> (match p6 with
                                 | XH -> Some X84
                                 | _ -> None)
                     | XH -> Some X44)
                  | XH -> Some X24)
               | XH -> Some X14)
            | XH -> Some X0c)
         | XO p2 ->
           (match p2 with
            | XI p3 ->
              (match p3 with
               | XI p4 ->
                 (match p4 with
                  | XI p5 ->
                    (match p5 with
                     | XI p6 -> (match p6 with
                                 | XH -> Some Xf8
                                 | _ -> None)
                     | XO p6 -> (match p6 with
                                 | XH -> Some Xb8
                                 | _ -> None)
                     | XH -> Some X78)
                  | XO p5 ->
                    (match p5 with
                     | XI p6 -> (match p6 with
                                 | XH -> Some Xd8
                                 | _ -> None)
                     | XO p6 -> (match p6 with
                                 | XH -> Some X98
                                 | _ -> None)
                     | XH -> Some X58)
                  | XH -> Some X38)
               | XO p4 ->
                 (match p4 with
                  | XI p5 ->
                    (match p5 with
                     | XI p6 -> (match p6 with
                                 | XH -> Some Xe8
                                 | _ -> None)
                     | XO p6 -> (match p6 with
                                 | XH -> Some Xa8
                                 | _ -> None)
                     | XH -> Some X68)
                  | XO p5 ->
                    (match p5 with
                     | XI p6 -> (match p6 with
                                 | XH -> Some Xc8
                                 | _ -> None)
                     | XO p6 -> (match p6 with
                                 | XH -> Some X88
                                 | _ -> None)
                     | XH -> Some X48)
                  | XH -> Some X28)
               | XH -> Some X18)
            | XO p3 ->
              (match p3 with
               | XI p4 ->
                 (match p4 with
                  | XI p5 ->
                    (match p5 with
                     | XI p6 -> (match p6 with
                                 | XH -> Some Xf0
                                 | _ -> None)
                     | XO p6 -> (match p6 with
                                 | XH -> Some Xb0
                                 | _ -> None)
                     | XH -> Some X70)
                  | XO p5 ->
                    (match p5 with
                     | XI p6 -> (match p6 with
                                 | XH -> Some Xd0
                                 | _ -> None)
                     | XO p6 -> (match p6 with
                                 | XH -> Some X90
                                 | _ -> None)
                     | XH -> Some X50)
                  | XH -> Some X30)
               | XO p4 ->
                 (match p4 with
                  | XI p5 ->
                    (match p5 with
                     | XI p6 -> (match p6 with
                                 | XH -> Some Xe0
                                 | _ -> None)
                     | XO p6 -> (match p6 with
                                 | XH -> Some Xa0
                                 | _ -> None)
                     | XH -> Some X60)
                  | XO p5 ->
                    (match p5 with
                     | XI p6 -> (match p6 with
                                 | XH -> Some Xc0
                                 | _ -> None)
                     | XO p6 -> (match p6 with
                                 | XH -> Some X80
                                 | _ -> None)
                     | XH -> Some X40)
                  | XH -> Some X20)
               | XH -> Some X10)
            | XH -> Some X08)
         | XH -> Some X04)
      | XH -> Some X02)
   | XH -> Some X01)

type fault =
| OOB_read
| OOB_write
| Uninit_read
| Null_deref
| Use_after_free
| Bad_free
| Out_of_fuel
| Int_overflow
| Abort

type 'a res =
| Ok of 'a
| Fault of fault

(** val bind : 'a1 res -> ('a1 -> 'a2 res) -> 'a2 res **)

let bind r k =
  match r with
  | Ok a -> k a
  | Fault f -> Fault f

(** val num_anchor : ((nat * positive) * n) * z **)

let num_anchor =
  (((O, XH), N0), Z0)

type mname = byte list
  (* singleton inductive, whose constructor was MN *)

(** val bytes_of_mname : mname -> byte list **)

let bytes_of_mname n0 =
  n0

(** val bytes_eqb : byte list -> byte list -> bool **)

let rec bytes_eqb a b =
  match a with
  | [] -> (match b with
           | [] -> true
           | _ :: _ -> false)
  | x :: a' ->
    (match b with
     | [] -> false
     | y :: b' -> (&&) (eqb0 x y) (bytes_eqb a' b'))

(** val mname_eqb : mname -> mname -> bool **)

let mname_eqb a b =
  bytes_eqb (bytes_of_mname a) (bytes_of_mname b)

type cmp =
| Ge
| Gt0
| Le
| Lt0
| Eq0
| Ne

type catom =
| CDebug of cmp * z * bool
| CFileLine of bool
| CGnuc of bool

type rcond =
| RCmp of cmp * z
| RConst of bool

type prim =
| PDprintf
| PWarn
| PError
| PFatal
| PRaw

type body =
| Nop
| Seq of body * body
| If of rcond * body * body
| IfNotArg of body
| Out of prim * bool
| Return of bool
| Call of mname
| Under of mname * body
| Mark

type mdef =
| DStmt of body
| DPrefix of rcond

type macro = { m_name : mname; m_alts : (catom list * mdef) list }

type dfam = { d_name : mname; d_if : mname; d_define : z; d_doc : z }

type rt = { r_level : z; r_silent : bool; r_name : bool; r_cond : bool }

type event =
| EvCond
| EvArgs
| EvVal
| EvMark
| OutDbg
| OutWarn
| OutErr
| OutFatal
| OutRaw

type ctl =
| Fall
| Ret of bool
| Exit
| Stuck

(** val gated_print : event -> rt -> event list * ctl **)

let gated_print e s =
  if s.r_silent
  then ([], Fall)
  else if negb s.r_name then ([], Fall) else ((e :: []), Fall)

(** val fatal_print : rt -> event list * ctl **)

let fatal_print s =
  if (&&) (negb s.r_silent) s.r_name
  then ((OutFatal :: []), Exit)
  else ([], Exit)

(** val prim_model : prim -> rt -> event list * ctl **)

let prim_model p s =
  match p with
  | PDprintf -> gated_print OutDbg s
  | PWarn -> gated_print OutWarn s
  | PError -> gated_print OutErr s
  | PFatal -> fatal_print s
  | PRaw -> ((OutRaw :: []), Fall)

(** val ladder : macro list **)

let ladder =
  { m_name =
    (X5f :: (X5f :: (X44 :: (X45 :: (X42 :: (X55 :: (X47 :: [])))))));
    m_alts = ((((CFileLine true) :: ((CGnuc true) :: [])), (DStmt (Out
    (PDprintf, false)))) :: ((((CFileLine true) :: ((CGnuc false) :: [])),
    (DStmt (Out (PDprintf, false)))) :: ((((CFileLine false) :: []), (DStmt
    Nop)) :: []))) } :: ({ m_name =
    (X41 :: (X53 :: (X53 :: (X45 :: (X52 :: (X54 :: [])))))); m_alts =
    ((((CDebug (Ge, (Zpos XH), true)) :: ((CFileLine true) :: ((CGnuc
    true) :: []))), (DStmt (IfNotArg (If ((RCmp (Ge, (Zpos XH))), (Out
    (PFatal, false)), (Seq ((Out (PWarn, false)), (Return
    false)))))))) :: ((((CDebug (Ge, (Zpos XH), true)) :: ((CFileLine
    true) :: ((CGnuc false) :: []))), (DStmt (IfNotArg (If ((RCmp (Ge, (Zpos
    XH))), (Out (PFatal, false)), (Seq ((Out (PWarn, false)), (Return
    false)))))))) :: ((((CDebug (Ge, (Zpos XH), true)) :: ((CFileLine
    false) :: [])), (DStmt (IfNotArg (If ((RCmp (Ge, (Zpos XH))), (Out
    (PFatal, false)), (Seq ((Out (PWarn, false)), (Return
    false)))))))) :: ((((CDebug (Ge, (Zpos XH), false)) :: []), (DStmt
    Nop)) :: [])))) } :: ({ m_name =
    (X41 :: (X53 :: (X53 :: (X45 :: (X52 :: (X54 :: (X5f :: (X52 :: (X56 :: (X41 :: (X4c :: [])))))))))));
    m_alts = ((((CDebug (Ge, (Zpos XH), true)) :: ((CFileLine
    true) :: ((CGnuc true) :: []))), (DStmt (IfNotArg (If ((RCmp (Ge, (Zpos
    XH))), (Out (PFatal, false)), (Seq ((Out (PWarn, false)), (Return
    true)))))))) :: ((((CDebug (Ge, (Zpos XH), true)) :: ((CFileLine
    true) :: ((CGnuc false) :: []))), (DStmt (IfNotArg (Seq ((If ((RCmp (Ge,
    (Zpos XH))), (Out (PFatal, false)), (Out (PWarn, false)))), (Return
    true)))))) :: ((((CDebug (Ge, (Zpos XH), true)) :: ((CFileLine
    false) :: [])), (DStmt (IfNotArg (Seq ((If ((RCmp (Ge, (Zpos XH))), (Out
    (PFatal, false)), (Out (PWarn, false)))), (Return
    true)))))) :: ((((CDebug (Ge, (Zpos XH), false)) :: []), (DStmt
    Nop)) :: [])))) } :: ({ m_name =
    (X41 :: (X53 :: (X53 :: (X45 :: (X52 :: (X54 :: (X5f :: (X4e :: (X4f :: (X54 :: (X52 :: (X45 :: (X41 :: (X43 :: (X48 :: (X45 :: (X44 :: [])))))))))))))))));
    m_alts = ((((CDebug (Ge, (Zpos XH), true)) :: ((CFileLine
    true) :: ((CGnuc true) :: []))), (DStmt (If ((RCmp (Ge, (Zpos XH))), (Out
    (PFatal, false)), (Seq ((Out (PWarn, false)), (Return
    false))))))) :: ((((CDebug (Ge, (Zpos XH), true)) :: ((CFileLine
    true) :: ((CGnuc false) :: []))), (DStmt (If ((RCmp (Ge, (Zpos XH))),
    (Out (PFatal, false)), (Seq ((Out (PWarn, false)), (Return
    false))))))) :: ((((CDebug (Ge, (Zpos XH), true)) :: ((CFileLine
    false) :: [])), (DStmt (Return false))) :: ((((CDebug (Ge, (Zpos XH),
    false)) :: []), (DStmt (Return false))) :: [])))) } :: ({ m_name =
    (X41 :: (X53 :: (X53 :: (X45 :: (X52 :: (X54 :: (X5f :: (X4e :: (X4f :: (X54 :: (X52 :: (X45 :: (X41 :: (X43 :: (X48 :: (X45 :: (X44 :: (X5f :: (X52 :: (X56 :: (X41 :: (X4c :: []))))))))))))))))))))));
    m_alts = ((((CDebug (Ge, (Zpos XH), true)) :: ((CFileLine
    true) :: ((CGnuc true) :: []))), (DStmt (Seq ((If ((RCmp (Ge, (Zpos
    XH))), (Out (PFatal, false)), (Out (PWarn, false)))), (Return
    true))))) :: ((((CDebug (Ge, (Zpos XH), true)) :: ((CFileLine
    true) :: ((CGnuc false) :: []))), (DStmt (Seq ((If ((RCmp (Ge, (Zpos
    XH))), (Out (PFatal, false)), (Out (PWarn, false)))), (Return
    true))))) :: ((((CDebug (Ge, (Zpos XH), true)) :: ((CFileLine
    false) :: [])), (DStmt (Return true))) :: ((((CDebug (Ge, (Zpos XH),
    false)) :: []), (DStmt (Return true))) :: [])))) } :: ({ m_name =
    (X41 :: (X42 :: (X4f :: (X52 :: (X54 :: []))))); m_alts = ((((CDebug (Ge,
    (Zpos XH), true)) :: ((CFileLine true) :: ((CGnuc true) :: []))), (DStmt
    (Out (PFatal, false)))) :: ((((CDebug (Ge, (Zpos XH),
    true)) :: ((CFileLine true) :: ((CGnuc false) :: []))), (DStmt (Out
    (PFatal, false)))) :: ((((CDebug (Ge, (Zpos XH), true)) :: ((CFileLine
    false) :: [])), (DStmt (Out (PFatal, false)))) :: ((((CDebug (Ge, (Zpos
    XH), false)) :: []), (DStmt (Out (PFatal,
    false)))) :: [])))) } :: ({ m_name =
    (X52 :: (X45 :: (X51 :: (X55 :: (X49 :: (X52 :: (X45 :: [])))))));
    m_alts = ((((CDebug (Ge, (Zpos XH), true)) :: []), (DStmt (IfNotArg (Seq
    ((If ((RCmp (Ge, (Zpos XH))), (Seq ((Call
    (X5f :: (X5f :: (X44 :: (X45 :: (X42 :: (X55 :: (X47 :: [])))))))), (Out
    (PDprintf, false)))), Nop)), (Return false)))))) :: ((((CDebug (Ge, (Zpos
    XH), false)) :: []), (DStmt (IfNotArg (Return
    false)))) :: [])) } :: ({ m_name =
    (X52 :: (X45 :: (X51 :: (X55 :: (X49 :: (X52 :: (X45 :: (X5f :: (X52 :: (X56 :: (X41 :: (X4c :: []))))))))))));
    m_alts = ((((CDebug (Ge, (Zpos XH), true)) :: []), (DStmt (IfNotArg (Seq
    ((If ((RCmp (Ge, (Zpos XH))), (Seq ((Call
    (X5f :: (X5f :: (X44 :: (X45 :: (X42 :: (X55 :: (X47 :: [])))))))), (Out
    (PDprintf, false)))), Nop)), (Return true)))))) :: ((((CDebug (Ge, (Zpos
    XH), false)) :: []), (DStmt (IfNotArg (Return
    true)))) :: [])) } :: ({ m_name =
    (X44 :: (X50 :: (X52 :: (X49 :: (X4e :: (X54 :: (X46 :: [])))))));
    m_alts = ((((CDebug (Ge, (Zpos XH), true)) :: []), (DStmt (Seq ((Call
    (X5f :: (X5f :: (X44 :: (X45 :: (X42 :: (X55 :: (X47 :: [])))))))), (Out
    (PDprintf, true)))))) :: ((((CDebug (Ge, (Zpos XH), false)) :: []),
    (DStmt Nop)) :: [])) } :: ({ m_name =
    (X44 :: (X50 :: (X52 :: (X49 :: (X4e :: (X54 :: (X46 :: (X31 :: []))))))));
    m_alts = ((((CDebug (Ge, (Zpos XH), true)) :: []), (DStmt (If ((RCmp (Ge,
    (Zpos XH))), (Seq ((Call
    (X5f :: (X5f :: (X44 :: (X45 :: (X42 :: (X55 :: (X47 :: [])))))))), (Out
    (PDprintf, true)))), Nop)))) :: ((((CDebug (Ge, (Zpos XH),
    false)) :: []), (DStmt Nop)) :: [])) } :: ({ m_name =
    (X44 :: (X50 :: (X52 :: (X49 :: (X4e :: (X54 :: (X46 :: (X32 :: []))))))));
    m_alts = ((((CDebug (Ge, (Zpos XH), true)) :: []), (DStmt (If ((RCmp (Ge,
    (Zpos (XO XH)))), (Seq ((Call
    (X5f :: (X5f :: (X44 :: (X45 :: (X42 :: (X55 :: (X47 :: [])))))))), (Out
    (PDprintf, true)))), Nop)))) :: ((((CDebug (Ge, (Zpos XH),
    false)) :: []), (DStmt Nop)) :: [])) } :: ({ m_name =
    (X44 :: (X50 :: (X52 :: (X49 :: (X4e :: (X54 :: (X46 :: (X33 :: []))))))));
    m_alts = ((((CDebug (Ge, (Zpos XH), true)) :: []), (DStmt (If ((RCmp (Ge,
    (Zpos (XI XH)))), (Seq ((Call
    (X5f :: (X5f :: (X44 :: (X45 :: (X42 :: (X55 :: (X47 :: [])))))))), (Out
    (PDprintf, true)))), Nop)))) :: ((((CDebug (Ge, (Zpos XH),
    false)) :: []), (DStmt Nop)) :: [])) } :: ({ m_name =
    (X44 :: (X50 :: (X52 :: (X49 :: (X4e :: (X54 :: (X46 :: (X34 :: []))))))));
    m_alts = ((((CDebug (Ge, (Zpos XH), true)) :: []), (DStmt (If ((RCmp (Ge,
    (Zpos (XO (XO XH))))), (Seq ((Call
    (X5f :: (X5f :: (X44 :: (X45 :: (X42 :: (X55 :: (X47 :: [])))))))), (Out
    (PDprintf, true)))), Nop)))) :: ((((CDebug (Ge, (Zpos XH),
    false)) :: []), (DStmt Nop)) :: [])) } :: ({ m_name =
    (X44 :: (X50 :: (X52 :: (X49 :: (X4e :: (X54 :: (X46 :: (X35 :: []))))))));
    m_alts = ((((CDebug (Ge, (Zpos XH), true)) :: []), (DStmt (If ((RCmp (Ge,
    (Zpos (XI (XO XH))))), (Seq ((Call
    (X5f :: (X5f :: (X44 :: (X45 :: (X42 :: (X55 :: (X47 :: [])))))))), (Out
    (PDprintf, true)))), Nop)))) :: ((((CDebug (Ge, (Zpos XH),
    false)) :: []), (DStmt Nop)) :: [])) } :: ({ m_name =
    (X44 :: (X50 :: (X52 :: (X49 :: (X4e :: (X54 :: (X46 :: (X36 :: []))))))));
    m_alts = ((((CDebug (Ge, (Zpos XH), true)) :: []), (DStmt (If ((RCmp (Ge,
    (Zpos (XO (XI XH))))), (Seq ((Call
    (X5f :: (X5f :: (X44 :: (X45 :: (X42 :: (X55 :: (X47 :: [])))))))), (Out
    (PDprintf, true)))), Nop)))) :: ((((CDebug (Ge, (Zpos XH),
    false)) :: []), (DStmt Nop)) :: [])) } :: ({ m_name =
    (X44 :: (X50 :: (X52 :: (X49 :: (X4e :: (X54 :: (X46 :: (X37 :: []))))))));
    m_alts = ((((CDebug (Ge, (Zpos XH), true)) :: []), (DStmt (If ((RCmp (Ge,
    (Zpos (XI (XI XH))))), (Seq ((Call
    (X5f :: (X5f :: (X44 :: (X45 :: (X42 :: (X55 :: (X47 :: [])))))))), (Out
    (PDprintf, true)))), Nop)))) :: ((((CDebug (Ge, (Zpos XH),
    false)) :: []), (DStmt Nop)) :: [])) } :: ({ m_name =
    (X44 :: (X50 :: (X52 :: (X49 :: (X4e :: (X54 :: (X46 :: (X38 :: []))))))));
    m_alts = ((((CDebug (Ge, (Zpos XH), true)) :: []), (DStmt (If ((RCmp (Ge,
    (Zpos (XO (XO (XO XH)))))), (Seq ((Call
    (X5f :: (X5f :: (X44 :: (X45 :: (X42 :: (X55 :: (X47 :: [])))))))), (Out
    (PDprintf, true)))), Nop)))) :: ((((CDebug (Ge, (Zpos XH),
    false)) :: []), (DStmt Nop)) :: [])) } :: ({ m_name =
    (X44 :: (X50 :: (X52 :: (X49 :: (X4e :: (X54 :: (X46 :: (X39 :: []))))))));
    m_alts = ((((CDebug (Ge, (Zpos XH), true)) :: []), (DStmt (If ((RCmp (Ge,
    (Zpos (XI (XO (XO XH)))))), (Seq ((Call
    (X5f :: (X5f :: (X44 :: (X45 :: (X42 :: (X55 :: (X47 :: [])))))))), (Out
    (PDprintf, true)))), Nop)))) :: ((((CDebug (Ge, (Zpos XH),
    false)) :: []), (DStmt Nop)) :: [])) } :: ({ m_name =
    (X44 :: (X5f :: (X4e :: (X45 :: (X56 :: (X45 :: (X52 :: [])))))));
    m_alts = (([], (DStmt Nop)) :: []) } :: ({ m_name =
    (X44 :: (X5f :: (X4f :: (X50 :: (X54 :: (X49 :: (X4f :: (X4e :: (X53 :: (X5f :: (X49 :: (X46 :: []))))))))))));
    m_alts = ((((CDebug (Ge, (Zpos XH), true)) :: []), (DPrefix (RCmp (Ge,
    (Zpos XH))))) :: ((((CDebug (Ge, (Zpos XH), false)) :: []), (DPrefix
    (RConst false))) :: [])) } :: ({ m_name =
    (X44 :: (X5f :: (X4f :: (X50 :: (X54 :: (X49 :: (X4f :: (X4e :: (X53 :: [])))))))));
    m_alts = ((((CDebug (Ge, (Zpos XH), true)) :: []), (DStmt (Under
    ((X44 :: (X5f :: (X4f :: (X50 :: (X54 :: (X49 :: (X4f :: (X4e :: (X53 :: (X5f :: (X49 :: (X46 :: [])))))))))))),
    (Call
    (X44 :: (X50 :: (X52 :: (X49 :: (X4e :: (X54 :: (X46 :: [])))))))))))) :: ((((CDebug
    (Ge, (Zpos XH), false)) :: []), (DStmt Nop)) :: [])) } :: ({ m_name =
    (X44 :: (X5f :: (X4f :: (X42 :: (X4a :: (X5f :: (X49 :: (X46 :: []))))))));
    m_alts = ((((CDebug (Ge, (Zpos (XO XH)), true)) :: []), (DPrefix (RCmp
    (Ge, (Zpos (XO XH)))))) :: ((((CDebug (Ge, (Zpos (XO XH)),
    false)) :: []), (DPrefix (RConst false))) :: [])) } :: ({ m_name =
    (X44 :: (X5f :: (X4f :: (X42 :: (X4a :: []))))); m_alts = ((((CDebug (Ge,
    (Zpos (XO XH)), true)) :: []), (DStmt (Under
    ((X44 :: (X5f :: (X4f :: (X42 :: (X4a :: (X5f :: (X49 :: (X46 :: [])))))))),
    (Call
    (X44 :: (X50 :: (X52 :: (X49 :: (X4e :: (X54 :: (X46 :: [])))))))))))) :: ((((CDebug
    (Ge, (Zpos (XO XH)), false)) :: []), (DStmt
    Nop)) :: [])) } :: ({ m_name =
    (X44 :: (X5f :: (X43 :: (X4f :: (X4e :: (X46 :: (X5f :: (X49 :: (X46 :: [])))))))));
    m_alts = ((((CDebug (Ge, (Zpos (XI XH)), true)) :: []), (DPrefix (RCmp
    (Ge, (Zpos (XI XH)))))) :: ((((CDebug (Ge, (Zpos (XI XH)),
    false)) :: []), (DPrefix (RConst false))) :: [])) } :: ({ m_name =
    (X44 :: (X5f :: (X43 :: (X4f :: (X4e :: (X46 :: [])))))); m_alts =
    ((((CDebug (Ge, (Zpos (XI XH)), true)) :: []), (DStmt (Under
    ((X44 :: (X5f :: (X43 :: (X4f :: (X4e :: (X46 :: (X5f :: (X49 :: (X46 :: []))))))))),
    (Call
    (X44 :: (X50 :: (X52 :: (X49 :: (X4e :: (X54 :: (X46 :: [])))))))))))) :: ((((CDebug
    (Ge, (Zpos (XI XH)), false)) :: []), (DStmt
    Nop)) :: [])) } :: ({ m_name =
    (X44 :: (X5f :: (X4d :: (X45 :: (X4d :: (X5f :: (X49 :: (X46 :: []))))))));
    m_alts = ((((CDebug (Ge, (Zpos (XI (XO XH))), true)) :: []), (DPrefix
    (RCmp (Ge, (Zpos (XI (XO XH))))))) :: ((((CDebug (Ge, (Zpos (XI (XO
    XH))), false)) :: []), (DPrefix (RConst false))) :: [])) } :: ({ m_name =
    (X44 :: (X5f :: (X4d :: (X45 :: (X4d :: []))))); m_alts = ((((CDebug (Ge,
    (Zpos (XI (XO XH))), true)) :: []), (DStmt (Under
    ((X44 :: (X5f :: (X4d :: (X45 :: (X4d :: (X5f :: (X49 :: (X46 :: [])))))))),
    (Call
    (X44 :: (X50 :: (X52 :: (X49 :: (X4e :: (X54 :: (X46 :: [])))))))))))) :: ((((CDebug
    (Ge, (Zpos (XI (XO XH))), false)) :: []), (DStmt
    Nop)) :: [])) } :: ({ m_name =
    (X44 :: (X5f :: (X53 :: (X54 :: (X52 :: (X49 :: (X4e :: (X47 :: (X53 :: (X5f :: (X49 :: (X46 :: []))))))))))));
    m_alts = ((((CDebug (Ge, (Zpos (XI (XI (XI (XI (XO (XO (XO (XO (XI (XI
    (XI (XO (XO XH)))))))))))))), true)) :: []), (DPrefix (RCmp (Ge, (Zpos
    (XI (XI (XI (XI (XO (XO (XO (XO (XI (XI (XI (XO (XO
    XH)))))))))))))))))) :: ((((CDebug (Ge, (Zpos (XI (XI (XI (XI (XO (XO (XO
    (XO (XI (XI (XI (XO (XO XH)))))))))))))), false)) :: []), (DPrefix
    (RConst false))) :: [])) } :: ({ m_name =
    (X44 :: (X5f :: (X53 :: (X54 :: (X52 :: (X49 :: (X4e :: (X47 :: (X53 :: [])))))))));
    m_alts = ((((CDebug (Ge, (Zpos (XI (XI (XI (XI (XO (XO (XO (XO (XI (XI
    (XI (XO (XO XH)))))))))))))), true)) :: []), (DStmt (Under
    ((X44 :: (X5f :: (X53 :: (X54 :: (X52 :: (X49 :: (X4e :: (X47 :: (X53 :: (X5f :: (X49 :: (X46 :: [])))))))))))),
    (Call
    (X44 :: (X50 :: (X52 :: (X49 :: (X4e :: (X54 :: (X46 :: [])))))))))))) :: ((((CDebug
    (Ge, (Zpos (XI (XI (XI (XI (XO (XO (XO (XO (XI (XI (XI (XO (XO
    XH)))))))))))))), false)) :: []), (DStmt Nop)) :: [])) } :: ({ m_name =
    (X44 :: (X5f :: (X50 :: (X41 :: (X52 :: (X53 :: (X45 :: (X5f :: (X49 :: (X46 :: []))))))))));
    m_alts = ((((CDebug (Ge, (Zpos (XI (XI (XI (XI (XO (XO (XO (XO (XI (XI
    (XI (XO (XO XH)))))))))))))), true)) :: []), (DPrefix (RCmp (Ge, (Zpos
    (XI (XI (XI (XI (XO (XO (XO (XO (XI (XI (XI (XO (XO
    XH)))))))))))))))))) :: ((((CDebug (Ge, (Zpos (XI (XI (XI (XI (XO (XO (XO
    (XO (XI (XI (XI (XO (XO XH)))))))))))))), false)) :: []), (DPrefix
    (RConst false))) :: [])) } :: ({ m_name =
    (X44 :: (X5f :: (X50 :: (X41 :: (X52 :: (X53 :: (X45 :: [])))))));
    m_alts = ((((CDebug (Ge, (Zpos (XI (XI (XI (XI (XO (XO (XO (XO (XI (XI
    (XI (XO (XO XH)))))))))))))), true)) :: []), (DStmt (Under
    ((X44 :: (X5f :: (X50 :: (X41 :: (X52 :: (X53 :: (X45 :: (X5f :: (X49 :: (X46 :: [])))))))))),
    (Call
    (X44 :: (X50 :: (X52 :: (X49 :: (X4e :: (X54 :: (X46 :: [])))))))))))) :: ((((CDebug
    (Ge, (Zpos (XI (XI (XI (XI (XO (XO (XO (XO (XI (XI (XI (XO (XO
    XH)))))))))))))), false)) :: []), (DStmt
    Nop)) :: [])) } :: []))))))))))))))))))))))))))))))

(** val hdr_family : mname list **)

let hdr_family =
  (X5f :: (X5f :: (X44 :: (X45 :: (X42 :: (X55 :: (X47 :: []))))))) :: []

(** val assert_family : (mname * bool) list **)

let assert_family =
  ((X41 :: (X53 :: (X53 :: (X45 :: (X52 :: (X54 :: [])))))),
    false) :: (((X41 :: (X53 :: (X53 :: (X45 :: (X52 :: (X54 :: (X5f :: (X52 :: (X56 :: (X41 :: (X4c :: []))))))))))),
    true) :: [])

(** val notreached_family : (mname * bool) list **)

let notreached_family =
  ((X41 :: (X53 :: (X53 :: (X45 :: (X52 :: (X54 :: (X5f :: (X4e :: (X4f :: (X54 :: (X52 :: (X45 :: (X41 :: (X43 :: (X48 :: (X45 :: (X44 :: []))))))))))))))))),
    false) :: (((X41 :: (X53 :: (X53 :: (X45 :: (X52 :: (X54 :: (X5f :: (X4e :: (X4f :: (X54 :: (X52 :: (X45 :: (X41 :: (X43 :: (X48 :: (X45 :: (X44 :: (X5f :: (X52 :: (X56 :: (X41 :: (X4c :: [])))))))))))))))))))))),
    true) :: [])

(** val require_family : (mname * bool) list **)

let require_family =
  ((X52 :: (X45 :: (X51 :: (X55 :: (X49 :: (X52 :: (X45 :: []))))))),
    false) :: (((X52 :: (X45 :: (X51 :: (X55 :: (X49 :: (X52 :: (X45 :: (X5f :: (X52 :: (X56 :: (X41 :: (X4c :: [])))))))))))),
    true) :: [])

(** val abort_family : mname list **)

let abort_family =
  (X41 :: (X42 :: (X4f :: (X52 :: (X54 :: []))))) :: []

(** val dprintf_family : (mname * z) list **)

let dprintf_family =
  ((X44 :: (X50 :: (X52 :: (X49 :: (X4e :: (X54 :: (X46 :: (X31 :: [])))))))),
    (Zpos
    XH)) :: (((X44 :: (X50 :: (X52 :: (X49 :: (X4e :: (X54 :: (X46 :: (X32 :: [])))))))),
    (Zpos (XO
    XH))) :: (((X44 :: (X50 :: (X52 :: (X49 :: (X4e :: (X54 :: (X46 :: (X33 :: [])))))))),
    (Zpos (XI
    XH))) :: (((X44 :: (X50 :: (X52 :: (X49 :: (X4e :: (X54 :: (X46 :: (X34 :: [])))))))),
    (Zpos (XO (XO
    XH)))) :: (((X44 :: (X50 :: (X52 :: (X49 :: (X4e :: (X54 :: (X46 :: (X35 :: [])))))))),
    (Zpos (XI (XO
    XH)))) :: (((X44 :: (X50 :: (X52 :: (X49 :: (X4e :: (X54 :: (X46 :: (X36 :: [])))))))),
    (Zpos (XO (XI
    XH)))) :: (((X44 :: (X50 :: (X52 :: (X49 :: (X4e :: (X54 :: (X46 :: (X37 :: [])))))))),
    (Zpos (XI (XI
    XH)))) :: (((X44 :: (X50 :: (X52 :: (X49 :: (X4e :: (X54 :: (X46 :: (X38 :: [])))))))),
    (Zpos (XO (XO (XO
    XH))))) :: (((X44 :: (X50 :: (X52 :: (X49 :: (X4e :: (X54 :: (X46 :: (X39 :: [])))))))),
    (Zpos (XI (XO (XO XH))))) :: []))))))))

(** val dprintf_plain_family : mname list **)

let dprintf_plain_family =
  (X44 :: (X50 :: (X52 :: (X49 :: (X4e :: (X54 :: (X46 :: []))))))) :: []

(** val never_family : mname list **)

let never_family =
  (X44 :: (X5f :: (X4e :: (X45 :: (X56 :: (X45 :: (X52 :: []))))))) :: []

(** val d_family : dfam list **)

let d_family =
  { d_name =
    (X44 :: (X5f :: (X4f :: (X50 :: (X54 :: (X49 :: (X4f :: (X4e :: (X53 :: [])))))))));
    d_if =
    (X44 :: (X5f :: (X4f :: (X50 :: (X54 :: (X49 :: (X4f :: (X4e :: (X53 :: (X5f :: (X49 :: (X46 :: []))))))))))));
    d_define = (Zpos XH); d_doc = (Zpos XH) } :: ({ d_name =
    (X44 :: (X5f :: (X4f :: (X42 :: (X4a :: []))))); d_if =
    (X44 :: (X5f :: (X4f :: (X42 :: (X4a :: (X5f :: (X49 :: (X46 :: []))))))));
    d_define = (Zpos (XO XH)); d_doc = (Zpos (XO XH)) } :: ({ d_name =
    (X44 :: (X5f :: (X43 :: (X4f :: (X4e :: (X46 :: [])))))); d_if =
    (X44 :: (X5f :: (X43 :: (X4f :: (X4e :: (X46 :: (X5f :: (X49 :: (X46 :: [])))))))));
    d_define = (Zpos (XI XH)); d_doc = (Zpos (XI XH)) } :: ({ d_name =
    (X44 :: (X5f :: (X4d :: (X45 :: (X4d :: []))))); d_if =
    (X44 :: (X5f :: (X4d :: (X45 :: (X4d :: (X5f :: (X49 :: (X46 :: []))))))));
    d_define = (Zpos (XI (XO XH))); d_doc = (Zpos (XI (XO
    XH))) } :: ({ d_name =
    (X44 :: (X5f :: (X53 :: (X54 :: (X52 :: (X49 :: (X4e :: (X47 :: (X53 :: [])))))))));
    d_if =
    (X44 :: (X5f :: (X53 :: (X54 :: (X52 :: (X49 :: (X4e :: (X47 :: (X53 :: (X5f :: (X49 :: (X46 :: []))))))))))));
    d_define = (Zpos (XI (XI (XI (XI (XO (XO (XO (XO (XI (XI (XI (XO (XO
    XH)))))))))))))); d_doc = (Zpos (XI (XI (XI (XI (XO (XO (XO (XO (XI (XI
    (XI (XO (XO XH)))))))))))))) } :: ({ d_name =
    (X44 :: (X5f :: (X50 :: (X41 :: (X52 :: (X53 :: (X45 :: []))))))); d_if =
    (X44 :: (X5f :: (X50 :: (X41 :: (X52 :: (X53 :: (X45 :: (X5f :: (X49 :: (X46 :: []))))))))));
    d_define = (Zpos (XI (XI (XI (XI (XO (XO (XO (XO (XI (XI (XI (XO (XO
    XH)))))))))))))); d_doc = (Zpos (XI (XI (XI (XI (XO (XO (XO (XO (XI (XI
    (XI (XO (XO XH)))))))))))))) } :: [])))))

type cenv = { e_c : z; e_fileline : bool; e_gnuc : bool }

(** val eval_cmp : cmp -> z -> z -> bool **)

let eval_cmp o x k =
  match o with
  | Ge -> Z.geb x k
  | Gt0 -> Z.gtb x k
  | Le -> Z.leb x k
  | Lt0 -> Z.ltb x k
  | Eq0 -> Z.eqb x k
  | Ne -> negb (Z.eqb x k)

(** val eval_atom : cenv -> catom -> bool **)

let eval_atom e = function
| CDebug (o, k, pol) -> eqb (eval_cmp o e.e_c k) pol
| CFileLine pol -> eqb e.e_fileline pol
| CGnuc pol -> eqb e.e_gnuc pol

(** val eval_path : cenv -> catom list -> bool **)

let eval_path e p =
  forallb (eval_atom e) p

(** val select : cenv -> (catom list * mdef) list -> mdef option **)

let rec select e = function
| [] -> None
| p0 :: t -> let (p, d) = p0 in if eval_path e p then Some d else select e t

(** val lookup : mname -> macro list -> macro option **)

let rec lookup name = function
| [] -> None
| m :: t -> if mname_eqb name m.m_name then Some m else lookup name t

(** val eval_rcond : z -> rcond -> bool **)

let eval_rcond r = function
| RCmp (o, k) -> eval_cmp o r k
| RConst b -> b

(** val stuck : event list * ctl **)

let stuck =
  ([], Stuck)

(** val exec : macro list -> nat -> cenv -> rt -> body -> event list * ctl **)

let rec exec l fuel e s =
  let rec go = function
  | Nop -> ([], Fall)
  | Seq (a, b') ->
    let (ev, c) = go a in
    (match c with
     | Fall -> let (ev', c') = go b' in ((app ev ev'), c')
     | _ -> (ev, c))
  | If (rc, t, f) -> if eval_rcond s.r_level rc then go t else go f
  | IfNotArg t ->
    if s.r_cond
    then ((EvCond :: []), Fall)
    else let (ev, c) = go t in ((EvCond :: ev), c)
  | Out (p, user_args) ->
    let (ev, c) = prim_model p s in
    ((app (if user_args then EvArgs :: [] else []) ev), c)
  | Return v -> ((if v then EvVal :: [] else []), (Ret v))
  | Call name ->
    (match fuel with
     | O -> stuck
     | S f ->
       (match lookup name l with
        | Some m ->
          (match select e m.m_alts with
           | Some m0 ->
             (match m0 with
              | DStmt b' -> exec l f e s b'
              | DPrefix _ -> stuck)
           | None -> stuck)
        | None -> stuck))
  | Under (name, b') ->
    (match lookup name l with
     | Some m ->
       (match select e m.m_alts with
        | Some m0 ->
          (match m0 with
           | DStmt _ -> stuck
           | DPrefix rc ->
             if eval_rcond s.r_level rc then go b' else ([], Fall))
        | None -> stuck)
     | None -> stuck)
  | Mark -> ((EvMark :: []), Fall)
  in go

(** val call_depth : nat **)

let call_depth =
  S (S (S (S (S (S (S (S O)))))))

(** val run_in : macro list -> mname -> cenv -> rt -> event list * ctl **)

let run_in l name e s =
  match lookup name l with
  | Some m ->
    (match select e m.m_alts with
     | Some m0 ->
       (match m0 with
        | DStmt b -> exec l call_depth e s b
        | DPrefix rc ->
          if eval_rcond s.r_level rc
          then ((EvMark :: []), Fall)
          else ([], Fall))
     | None -> stuck)
  | None -> stuck

type obs = { o_dbg : bool; o_warn : bool; o_err : bool; o_fatal : bool;
             o_cond : nat; o_args : nat; o_val : nat; o_mark : nat;
             o_ctl : ctl }

(** val event_eqb : event -> event -> bool **)

let event_eqb a b =
  match a with
  | EvCond -> (match b with
               | EvCond -> true
               | _ -> false)
  | EvArgs -> (match b with
               | EvArgs -> true
               | _ -> false)
  | EvVal -> (match b with
              | EvVal -> true
              | _ -> false)
  | EvMark -> (match b with
               | EvMark -> true
               | _ -> false)
  | OutDbg -> (match b with
               | OutDbg -> true
               | _ -> false)
  | OutWarn -> (match b with
                | OutWarn -> true
                | _ -> false)
  | OutErr -> (match b with
               | OutErr -> true
               | _ -> false)
  | OutFatal -> (match b with
                 | OutFatal -> true
                 | _ -> false)
  | OutRaw -> (match b with
               | OutRaw -> true
               | _ -> false)

(** val has : event -> event list -> bool **)

let has x l =
  existsb (event_eqb x) l

(** val count : event -> event list -> nat **)

let count x l =
  length (filter (event_eqb x) l)

(** val observe : (event list * ctl) -> obs **)

let observe = function
| (ev, c) ->
  { o_dbg = ((||) (has OutDbg ev) (has OutRaw ev)); o_warn =
    (has OutWarn ev); o_err = (has OutErr ev); o_fatal = (has OutFatal ev);
    o_cond = (count EvCond ev); o_args = (count EvArgs ev); o_val =
    (count EvVal ev); o_mark = (count EvMark ev); o_ctl = c }

(** val printed : obs -> bool **)

let printed o =
  (||) ((||) ((||) o.o_dbg o.o_warn) o.o_err) o.o_fatal

(** val behaviour_in : macro list -> mname -> cenv -> rt -> obs **)

let behaviour_in l name e s =
  observe (run_in l name e s)

(** val behaviour : mname -> cenv -> rt -> obs **)

let behaviour =
  behaviour_in ladder

(** val prim_behaviour : prim -> rt -> obs **)

let prim_behaviour p s =
  observe (prim_model p s)

(** val can_print : rt -> bool **)

let can_print s =
  (&&) (negb s.r_silent) s.r_name

(** val b2n : bool -> nat **)

let b2n = function
| true -> S O
| false -> O

(** val quiet : obs **)

let quiet =
  { o_dbg = false; o_warn = false; o_err = false; o_fatal = false; o_cond =
    O; o_args = O; o_val = O; o_mark = O; o_ctl = Fall }

type kind =
| KHdr
| KAssert of bool
| KNotreached of bool
| KRequire of bool
| KAbort
| KDprintf of z
| KDprintfPlain
| KNever
| KD of z
| KDIf of z

(** val spec_gated : bool -> rt -> obs **)

let spec_gated g s =
  { o_dbg = ((&&) g (can_print s)); o_warn = false; o_err = false; o_fatal =
    false; o_cond = O; o_args = (b2n g); o_val = O; o_mark = O; o_ctl = Fall }

(** val spec_assert_failed : bool -> rt -> obs **)

let spec_assert_failed rv s =
  if Z.geb s.r_level (Zpos XH)
  then { o_dbg = false; o_warn = false; o_err = false; o_fatal =
         (can_print s); o_cond = O; o_args = O; o_val = O; o_mark = O;
         o_ctl = Exit }
  else { o_dbg = false; o_warn = (can_print s); o_err = false; o_fatal =
         false; o_cond = O; o_args = O; o_val = (b2n rv); o_mark = O; o_ctl =
         (Ret rv) }

(** val with_cond : obs -> obs **)

let with_cond o =
  { o_dbg = o.o_dbg; o_warn = o.o_warn; o_err = o.o_err; o_fatal = o.o_fatal;
    o_cond = (S O); o_args = o.o_args; o_val = o.o_val; o_mark = o.o_mark;
    o_ctl = o.o_ctl }

(** val bare_return : bool -> obs **)

let bare_return rv =
  { o_dbg = false; o_warn = false; o_err = false; o_fatal = false; o_cond =
    O; o_args = O; o_val = (b2n rv); o_mark = O; o_ctl = (Ret rv) }

(** val spec : kind -> cenv -> rt -> obs **)

let spec k e s =
  let c = e.e_c in
  let r = s.r_level in
  (match k with
   | KHdr ->
     { o_dbg = ((&&) e.e_fileline (can_print s)); o_warn = false; o_err =
       false; o_fatal = false; o_cond = O; o_args = O; o_val = O; o_mark = O;
       o_ctl = Fall }
   | KAssert rv ->
     if Z.geb c (Zpos XH)
     then if s.r_cond
          then with_cond quiet
          else with_cond (spec_assert_failed rv s)
     else quiet
   | KNotreached rv ->
     if (&&) (Z.geb c (Zpos XH)) e.e_fileline
     then spec_assert_failed rv s
     else bare_return rv
   | KRequire rv ->
     if s.r_cond
     then with_cond quiet
     else { o_dbg =
            ((&&) ((&&) (Z.geb c (Zpos XH)) (Z.geb r (Zpos XH)))
              (can_print s)); o_warn = false; o_err = false; o_fatal = false;
            o_cond = (S O); o_args = O; o_val = (b2n rv); o_mark = O; o_ctl =
            (Ret rv) }
   | KAbort ->
     { o_dbg = false; o_warn = false; o_err = false; o_fatal = (can_print s);
       o_cond = O; o_args = O; o_val = O; o_mark = O; o_ctl = Exit }
   | KDprintf n0 -> spec_gated ((&&) (Z.geb c (Zpos XH)) (Z.geb r n0)) s
   | KDprintfPlain -> spec_gated (Z.geb c (Zpos XH)) s
   | KNever -> quiet
   | KD l -> spec_gated ((&&) (Z.geb c l) (Z.geb r l)) s
   | KDIf l ->
     { o_dbg = false; o_warn = false; o_err = false; o_fatal = false;
       o_cond = O; o_args = O; o_val = O; o_mark =
       (b2n ((&&) (Z.geb c l) (Z.geb r l))); o_ctl = Fall })

(** val spec_prim : prim -> rt -> obs **)

let spec_prim p s =
  let q = can_print s in
  (match p with
   | PDprintf ->
     { o_dbg = q; o_warn = false; o_err = false; o_fatal = false; o_cond = O;
       o_args = O; o_val = O; o_mark = O; o_ctl = Fall }
   | PWarn ->
     { o_dbg = false; o_warn = q; o_err = false; o_fatal = false; o_cond = O;
       o_args = O; o_val = O; o_mark = O; o_ctl = Fall }
   | PError ->
     { o_dbg = false; o_warn = false; o_err = q; o_fatal = false; o_cond = O;
       o_args = O; o_val = O; o_mark = O; o_ctl = Fall }
   | PFatal ->
     { o_dbg = false; o_warn = false; o_err = false; o_fatal = q; o_cond = O;
       o_args = O; o_val = O; o_mark = O; o_ctl = Exit }
   | PRaw ->
     { o_dbg = true; o_warn = false; o_err = false; o_fatal = false; o_cond =
       O; o_args = O; o_val = O; o_mark = O; o_ctl = Fall })

(** val classify :
    mname list -> (mname * bool) list -> (mname * bool) list ->
    (mname * bool) list -> mname list -> (mname * z) list -> mname list ->
    mname list -> dfam list -> (mname * kind) list **)

let classify hdr asrt nr req ab dp dpp nev ds =
  app (map (fun n0 -> (n0, KHdr)) hdr)
    (app (map (fun p -> ((fst p), (KAssert (snd p)))) asrt)
      (app (map (fun p -> ((fst p), (KNotreached (snd p)))) nr)
        (app (map (fun p -> ((fst p), (KRequire (snd p)))) req)
          (app (map (fun n0 -> (n0, KAbort)) ab)
            (app (map (fun p -> ((fst p), (KDprintf (snd p)))) dp)
              (app (map (fun n0 -> (n0, KDprintfPlain)) dpp)
                (app (map (fun n0 -> (n0, KNever)) nev)
                  (app (map (fun d -> (d.d_name, (KD d.d_doc))) ds)
                    (map (fun d -> (d.d_if, (KDIf d.d_doc))) ds)))))))))

(** val classified : (mname * kind) list **)

let classified =
  classify hdr_family assert_family notreached_family require_family
    abort_family dprintf_family dprintf_plain_family never_family d_family

(** val mk_env : z -> bool -> bool -> cenv **)

let mk_env c fl gn =
  { e_c = c; e_fileline = fl; e_gnuc = gn }

(** val mk_rt : z -> bool -> bool -> bool -> rt **)

let mk_rt r si na co =
  { r_level = r; r_silent = si; r_name = na; r_cond = co }
