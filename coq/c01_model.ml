
(** val negb : bool -> bool **)

let negb = function
| true -> false
| false -> true

type nat =
| O
| S of nat

(** val length : 'a1 list -> nat **)

let rec length = function
| [] -> O
| _ :: l' -> S (length l')

(** val app : 'a1 list -> 'a1 list -> 'a1 list **)

let rec app l m =
  match l with
  | [] -> m
  | a :: l1 -> a :: (app l1 m)

type comparison =
| Eq
| Lt
| Gt

(** val compOpp : comparison -> comparison **)

let compOpp = function
| Eq -> Eq
| Lt -> Gt
| Gt -> Lt

module Coq__1 = struct
 (** val add : nat -> nat -> nat **)
 let rec add n0 m =
   match n0 with
   | O -> m
   | S p -> S (add p m)
end
include Coq__1

(** val sub : nat -> nat -> nat **)

let rec sub n0 m =
  match n0 with
  | O -> n0
  | S k -> (match m with
            | O -> n0
            | S l -> sub k l)

module Nat =
 struct
  (** val leb : nat -> nat -> bool **)

  let rec leb n0 m =
    match n0 with
    | O -> true
    | S n' -> (match m with
               | O -> false
               | S m' -> leb n' m')

  (** val ltb : nat -> nat -> bool **)

  let ltb n0 m =
    leb (S n0) m
 end

(** val nth_error : 'a1 list -> nat -> 'a1 option **)

let rec nth_error l = function
| O -> (match l with
        | [] -> None
        | x :: _ -> Some x)
| S n1 -> (match l with
           | [] -> None
           | _ :: l0 -> nth_error l0 n1)

(** val rev : 'a1 list -> 'a1 list **)

let rec rev = function
| [] -> []
| x :: l' -> app (rev l') (x :: [])

(** val map : ('a1 -> 'a2) -> 'a1 list -> 'a2 list **)

let rec map f = function
| [] -> []
| a :: t -> (f a) :: (map f t)

(** val firstn : nat -> 'a1 list -> 'a1 list **)

let rec firstn n0 l =
  match n0 with
  | O -> []
  | S n1 -> (match l with
             | [] -> []
             | a :: l0 -> a :: (firstn n1 l0))

(** val skipn : nat -> 'a1 list -> 'a1 list **)

let rec skipn n0 l =
  match n0 with
  | O -> l
  | S n1 -> (match l with
             | [] -> []
             | _ :: l0 -> skipn n1 l0)

(** val repeat : 'a1 -> nat -> 'a1 list **)

let rec repeat x = function
| O -> []
| S k -> x :: (repeat x k)

type positive =
| XI of positive
| XO of positive
| XH

type n =
| N0
| Npos of positive

type z =
| Z0
| Zpos of positive
| Zneg of positive

module Pos =
 struct
  (** val succ : positive -> positive **)

  let rec succ = function
  | XI p -> XO (succ p)
  | XO p -> XI p
  | XH -> XO XH

  (** val add : positive -> positive -> positive **)

  let rec add x y =
    match x with
    | XI p ->
      (match y with
       | XI q -> XO (add_carry p q)
       | XO q -> XI (add p q)
       | XH -> XO (succ p))
    | XO p ->
      (match y with
       | XI q -> XI (add p q)
       | XO q -> XO (add p q)
       | XH -> XI p)
    | XH -> (match y with
             | XI q -> XO (succ q)
             | XO q -> XI q
             | XH -> XO XH)

  (** val add_carry : positive -> positive -> positive **)

  and add_carry x y =
    match x with
    | XI p ->
      (match y with
       | XI q -> XI (add_carry p q)
       | XO q -> XO (add_carry p q)
       | XH -> XI (succ p))
    | XO p ->
      (match y with
       | XI q -> XO (add_carry p q)
       | XO q -> XI (add p q)
       | XH -> XO (succ p))
    | XH ->
      (match y with
       | XI q -> XI (succ q)
       | XO q -> XO (succ q)
       | XH -> XI XH)

  (** val pred_double : positive -> positive **)

  let rec pred_double = function
  | XI p -> XI (XO p)
  | XO p -> XI (pred_double p)
  | XH -> XH

  (** val mul : positive -> positive -> positive **)

  let rec mul x y =
    match x with
    | XI p -> add y (XO (mul p y))
    | XO p -> XO (mul p y)
    | XH -> y

  (** val compare_cont : comparison -> positive -> positive -> comparison **)

  let rec compare_cont r x y =
    match x with
    | XI p ->
      (match y with
       | XI q -> compare_cont r p q
       | XO q -> compare_cont Gt p q
       | XH -> Gt)
    | XO p ->
      (match y with
       | XI q -> compare_cont Lt p q
       | XO q -> compare_cont r p q
       | XH -> Gt)
    | XH -> (match y with
             | XH -> r
             | _ -> Lt)

  (** val compare : positive -> positive -> comparison **)

  let compare =
    compare_cont Eq

  (** val eqb : positive -> positive -> bool **)

  let rec eqb p q =
    match p with
    | XI p0 -> (match q with
                | XI q0 -> eqb p0 q0
                | _ -> false)
    | XO p0 -> (match q with
                | XO q0 -> eqb p0 q0
                | _ -> false)
    | XH -> (match q with
             | XH -> true
             | _ -> false)

  (** val iter_op : ('a1 -> 'a1 -> 'a1) -> positive -> 'a1 -> 'a1 **)

  let rec iter_op op0 p a =
    match p with
    | XI p0 -> op0 a (iter_op op0 p0 (op0 a a))
    | XO p0 -> iter_op op0 p0 (op0 a a)
    | XH -> a

  (** val to_nat : positive -> nat **)

  let to_nat x =
    iter_op Coq__1.add x (S O)

  (** val of_succ_nat : nat -> positive **)

  let rec of_succ_nat = function
  | O -> XH
  | S x -> succ (of_succ_nat x)
 end

module Z =
 struct
  (** val double : z -> z **)

  let double = function
  | Z0 -> Z0
  | Zpos p -> Zpos (XO p)
  | Zneg p -> Zneg (XO p)

  (** val succ_double : z -> z **)

  let succ_double = function
  | Z0 -> Zpos XH
  | Zpos p -> Zpos (XI p)
  | Zneg p -> Zneg (Pos.pred_double p)

  (** val pred_double : z -> z **)

  let pred_double = function
  | Z0 -> Zneg XH
  | Zpos p -> Zpos (Pos.pred_double p)
  | Zneg p -> Zneg (XI p)

  (** val pos_sub : positive -> positive -> z **)

  let rec pos_sub x y =
    match x with
    | XI p ->
      (match y with
       | XI q -> double (pos_sub p q)
       | XO q -> succ_double (pos_sub p q)
       | XH -> Zpos (XO p))
    | XO p ->
      (match y with
       | XI q -> pred_double (pos_sub p q)
       | XO q -> double (pos_sub p q)
       | XH -> Zpos (Pos.pred_double p))
    | XH ->
      (match y with
       | XI q -> Zneg (XO q)
       | XO q -> Zneg (Pos.pred_double q)
       | XH -> Z0)

  (** val add : z -> z -> z **)

  let add x y =
    match x with
    | Z0 -> y
    | Zpos x' ->
      (match y with
       | Z0 -> x
       | Zpos y' -> Zpos (Pos.add x' y')
       | Zneg y' -> pos_sub x' y')
    | Zneg x' ->
      (match y with
       | Z0 -> x
       | Zpos y' -> pos_sub y' x'
       | Zneg y' -> Zneg (Pos.add x' y'))

  (** val opp : z -> z **)

  let opp = function
  | Z0 -> Z0
  | Zpos x0 -> Zneg x0
  | Zneg x0 -> Zpos x0

  (** val sub : z -> z -> z **)

  let sub m n0 =
    add m (opp n0)

  (** val mul : z -> z -> z **)

  let mul x y =
    match x with
    | Z0 -> Z0
    | Zpos x' ->
      (match y with
       | Z0 -> Z0
       | Zpos y' -> Zpos (Pos.mul x' y')
       | Zneg y' -> Zneg (Pos.mul x' y'))
    | Zneg x' ->
      (match y with
       | Z0 -> Z0
       | Zpos y' -> Zneg (Pos.mul x' y')
       | Zneg y' -> Zpos (Pos.mul x' y'))

  (** val compare : z -> z -> comparison **)

  let compare x y =
    match x with
    | Z0 -> (match y with
             | Z0 -> Eq
             | Zpos _ -> Lt
             | Zneg _ -> Gt)
    | Zpos x' -> (match y with
                  | Zpos y' -> Pos.compare x' y'
                  | _ -> Gt)
    | Zneg x' ->
      (match y with
       | Zneg y' -> compOpp (Pos.compare x' y')
       | _ -> Lt)

  (** val leb : z -> z -> bool **)

  let leb x y =
    match compare x y with
    | Gt -> false
    | _ -> true

  (** val ltb : z -> z -> bool **)

  let ltb x y =
    match compare x y with
    | Lt -> true
    | _ -> false

  (** val geb : z -> z -> bool **)

  let geb x y =
    match compare x y with
    | Lt -> false
    | _ -> true

  (** val gtb : z -> z -> bool **)

  let gtb x y =
    match compare x y with
    | Gt -> true
    | _ -> false

  (** val eqb : z -> z -> bool **)

  let eqb x y =
    match x with
    | Z0 -> (match y with
             | Z0 -> true
             | _ -> false)
    | Zpos p -> (match y with
                 | Zpos q -> Pos.eqb p q
                 | _ -> false)
    | Zneg p -> (match y with
                 | Zneg q -> Pos.eqb p q
                 | _ -> false)

  (** val min : z -> z -> z **)

  let min n0 m =
    match compare n0 m with
    | Gt -> m
    | _ -> n0

  (** val to_nat : z -> nat **)

  let to_nat = function
  | Zpos p -> Pos.to_nat p
  | _ -> O

  (** val of_nat : nat -> z **)

  let of_nat = function
  | O -> Z0
  | S n1 -> Zpos (Pos.of_succ_nat n1)

  (** val pos_div_eucl : positive -> z -> z * z **)

  let rec pos_div_eucl a b =
    match a with
    | XI a' ->
      let (q, r) = pos_div_eucl a' b in
      let r' = add (mul (Zpos (XO XH)) r) (Zpos XH) in
      if ltb r' b
      then ((mul (Zpos (XO XH)) q), r')
      else ((add (mul (Zpos (XO XH)) q) (Zpos XH)), (sub r' b))
    | XO a' ->
      let (q, r) = pos_div_eucl a' b in
      let r' = mul (Zpos (XO XH)) r in
      if ltb r' b
      then ((mul (Zpos (XO XH)) q), r')
      else ((add (mul (Zpos (XO XH)) q) (Zpos XH)), (sub r' b))
    | XH -> if leb (Zpos (XO XH)) b then (Z0, (Zpos XH)) else ((Zpos XH), Z0)

  (** val div_eucl : z -> z -> z * z **)

  let div_eucl a b =
    match a with
    | Z0 -> (Z0, Z0)
    | Zpos a' ->
      (match b with
       | Z0 -> (Z0, a)
       | Zpos _ -> pos_div_eucl a' b
       | Zneg b' ->
         let (q, r) = pos_div_eucl a' (Zpos b') in
         (match r with
          | Z0 -> ((opp q), Z0)
          | _ -> ((opp (add q (Zpos XH))), (add b r))))
    | Zneg a' ->
      (match b with
       | Z0 -> (Z0, a)
       | Zpos _ ->
         let (q, r) = pos_div_eucl a' b in
         (match r with
          | Z0 -> ((opp q), Z0)
          | _ -> ((opp (add q (Zpos XH))), (sub b r)))
       | Zneg b' -> let (q, r) = pos_div_eucl a' (Zpos b') in (q, (opp r)))

  (** val div : z -> z -> z **)

  let div a b =
    let (q, _) = div_eucl a b in q

  (** val modulo : z -> z -> z **)

  let modulo a b =
    let (_, r) = div_eucl a b in r
 end

type fault =
| OOB_read
| OOB_write
| Uninit_read
| Null_deref
| Use_after_free
| Bad_free
| Out_of_fuel
| Int_overflow
| Abort

type 'a res =
| Ok of 'a
| Fault of fault

(** val bind : 'a1 res -> ('a1 -> 'a2 res) -> 'a2 res **)

let bind r k =
  match r with
  | Ok a -> k a
  | Fault f -> Fault f

(** val num_anchor : ((nat * positive) * n) * z **)

let num_anchor =
  (((O, XH), N0), Z0)

type cell = z option

type buf = cell list

(** val rdn : buf -> nat -> z res **)

let rdn b i =
  match nth_error b i with
  | Some c -> (match c with
               | Some v -> Ok v
               | None -> Fault Uninit_read)
  | None -> Fault OOB_read

(** val upd : 'a1 list -> nat -> 'a1 -> 'a1 list **)

let rec upd l n0 v =
  match l with
  | [] -> []
  | x :: t -> (match n0 with
               | O -> v :: t
               | S n' -> x :: (upd t n' v))

(** val wrn : buf -> nat -> z -> buf res **)

let wrn b i v =
  if Nat.ltb i (length b) then Ok (upd b i (Some v)) else Fault OOB_write

(** val rd : buf -> z -> z res **)

let rd b i =
  if Z.ltb i Z0 then Fault OOB_read else rdn b (Z.to_nat i)

(** val wr : buf -> z -> z -> buf res **)

let wr b i v =
  if Z.ltb i Z0 then Fault OOB_write else wrn b (Z.to_nat i) v

(** val bytes : z list -> buf **)

let bytes s =
  map (fun x -> Some x) s

(** val cstr : z list -> buf -> buf **)

let cstr s rest =
  app (bytes s) ((Some Z0) :: rest)

(** val strlen : buf -> nat res **)

let rec strlen = function
| [] -> Fault OOB_read
| c0 :: t ->
  (match c0 with
   | Some c ->
     if Z.eqb c Z0 then Ok O else bind (strlen t) (fun n0 -> Ok (S n0))
   | None -> Fault Uninit_read)

(** val strnlen : buf -> nat -> nat res **)

let rec strnlen b = function
| O -> Ok O
| S n' ->
  (match b with
   | [] -> Fault OOB_read
   | c0 :: t ->
     (match c0 with
      | Some c ->
        if Z.eqb c Z0 then Ok O else bind (strnlen t n') (fun k -> Ok (S k))
      | None -> Fault Uninit_read))

(** val take_str : buf -> z list **)

let rec take_str = function
| [] -> []
| c0 :: t ->
  (match c0 with
   | Some c -> if Z.eqb c Z0 then [] else c :: (take_str t)
   | None -> [])

(** val isspace : z -> bool **)

let isspace c =
  (||)
    ((&&) (Z.leb (Zpos (XI (XO (XO XH)))) c)
      (Z.leb c (Zpos (XI (XO (XI XH))))))
    (Z.eqb c (Zpos (XO (XO (XO (XO (XO XH)))))))

(** val isupper : z -> bool **)

let isupper c =
  (&&) (Z.leb (Zpos (XI (XO (XO (XO (XO (XO XH))))))) c)
    (Z.leb c (Zpos (XO (XI (XO (XI (XI (XO XH))))))))

(** val islower : z -> bool **)

let islower c =
  (&&) (Z.leb (Zpos (XI (XO (XO (XO (XO (XI XH))))))) c)
    (Z.leb c (Zpos (XO (XI (XO (XI (XI (XI XH))))))))

(** val isdigit : z -> bool **)

let isdigit c =
  (&&) (Z.leb (Zpos (XO (XO (XO (XO (XI XH)))))) c)
    (Z.leb c (Zpos (XI (XO (XO (XI (XI XH)))))))

(** val tolower : z -> z **)

let tolower c =
  if isupper c then Z.add c (Zpos (XO (XO (XO (XO (XO XH)))))) else c

(** val toupper : z -> z **)

let toupper c =
  if islower c then Z.sub c (Zpos (XO (XO (XO (XO (XO XH)))))) else c

(** val str_buff_inc : z **)

let str_buff_inc =
  Zpos (XO (XO (XO (XO (XO (XO (XO (XO (XO (XO (XO (XO XH))))))))))))

(** val map_str : (z -> z) -> buf -> buf res **)

let rec map_str f b = match b with
| [] -> Fault OOB_read
| c0 :: t ->
  (match c0 with
   | Some c ->
     if Z.eqb c Z0
     then Ok b
     else bind (map_str f t) (fun t' -> Ok ((Some (f c)) :: t'))
   | None -> Fault Uninit_read)

(** val sub_cells : buf -> nat -> nat -> cell list res **)

let sub_cells b start n0 =
  if Nat.leb (add start n0) (length b)
  then Ok (firstn n0 (skipn start b))
  else Fault OOB_read

(** val put_cells : buf -> nat -> cell list -> buf res **)

let put_cells b start cs =
  if Nat.leb (add start (length cs)) (length b)
  then Ok (app (firstn start b) (app cs (skipn (add start (length cs)) b)))
  else Fault OOB_write

(** val rev_loop : buf -> nat -> z -> nat -> buf res **)

let rec rev_loop b j i = function
| O -> Fault Out_of_fuel
| S fuel' ->
  if Z.gtb i (Z.of_nat j)
  then bind (rdn b j) (fun cj ->
         bind (rd b i) (fun ci ->
           bind (wrn b j ci) (fun b1 ->
             bind (wr b1 i cj) (fun b2 ->
               rev_loop b2 (S j) (Z.sub i (Zpos XH)) fuel'))))
  else Ok b

(** val strrev : buf -> buf res **)

let strrev s =
  bind (strlen s) (fun l -> rev_loop s O (Z.sub (Z.of_nat l) (Zpos XH)) (S l))

(** val dropwhile : ('a1 -> bool) -> 'a1 list -> 'a1 list **)

let rec dropwhile f l = match l with
| [] -> []
| x :: t -> if f x then dropwhile f t else l

(** val trim_ws : z list -> z list **)

let trim_ws s =
  rev (dropwhile isspace (rev (dropwhile isspace s)))

type str = { str_s : buf option; str_len : z; str_size : z }

(** val empty_str : str **)

let empty_str =
  { str_s = None; str_len = Z0; str_size = Z0 }

(** val malloc : z -> buf res **)

let malloc n0 =
  if Z.ltb n0 Z0 then Fault Int_overflow else Ok (repeat None (Z.to_nat n0))

(** val realloc : buf option -> z -> buf option res **)

let realloc p n0 =
  if Z.ltb n0 Z0
  then Fault Int_overflow
  else if Z.eqb n0 Z0
       then Ok None
       else (match p with
             | Some b ->
               Ok (Some
                 (app (firstn (Z.to_nat n0) b)
                   (repeat None (sub (Z.to_nat n0) (length b)))))
             | None -> Ok (Some (repeat None (Z.to_nat n0))))

(** val deref : buf option -> buf res **)

let deref = function
| Some b -> Ok b
| None -> Fault Null_deref

(** val str_str : str -> buf **)

let str_str o =
  match o.str_s with
  | Some b -> b
  | None -> (Some Z0) :: []

(** val getz : buf -> z -> z -> cell list res **)

let getz b off n0 =
  if (||) (Z.ltb off Z0) (Z.ltb n0 Z0)
  then Fault OOB_read
  else sub_cells b (Z.to_nat off) (Z.to_nat n0)

(** val putz : buf -> z -> cell list -> buf res **)

let putz b off cs =
  if Z.ltb off Z0 then Fault OOB_write else put_cells b (Z.to_nat off) cs

(** val memmovez : buf -> z -> z -> z -> buf res **)

let memmovez b dst src n0 =
  bind (getz b src n0) (fun cs -> putz b dst cs)

(** val read_cstr : buf -> z list res **)

let rec read_cstr = function
| [] -> Fault OOB_read
| c0 :: t ->
  (match c0 with
   | Some c ->
     if Z.eqb c Z0 then Ok [] else bind (read_cstr t) (fun r -> Ok (c :: r))
   | None -> Fault Uninit_read)

(** val read_cstr_at : buf -> z -> z list res **)

let read_cstr_at b off =
  if Z.ltb off Z0
  then Fault OOB_read
  else if Z.ltb (Z.of_nat (length b)) off
       then Fault OOB_read
       else read_cstr (skipn (Z.to_nat off) b)

(** val zlen : 'a1 list -> z **)

let zlen l =
  Z.of_nat (length l)

(** val cstr_cells : z list -> cell list **)

let cstr_cells t =
  app (bytes t) ((Some Z0) :: [])

(** val init : str res **)

let init =
  Ok empty_str

(** val init_from_ptr : z list option -> str res **)

let init_from_ptr = function
| Some t ->
  let len = zlen t in
  let size = Z.add len (Zpos XH) in
  bind (malloc size) (fun b ->
    bind (putz b Z0 (cstr_cells t)) (fun b' -> Ok { str_s = (Some b');
      str_len = len; str_size = size }))
| None -> init

(** val init_from_buff : buf option -> z -> str res **)

let init_from_buff buff size =
  bind
    (match buff with
     | Some b -> bind (strnlen b (Z.to_nat size)) (fun n0 -> Ok (Z.of_nat n0))
     | None -> Ok Z0) (fun len ->
    let size0 = if Z.eqb size len then Z.add size (Zpos XH) else size in
    bind (malloc size0) (fun b ->
      bind
        (match buff with
         | Some src -> bind (getz src Z0 len) (fun cs -> putz b Z0 cs)
         | None -> Ok b) (fun b1 ->
        bind (wr b1 len Z0) (fun b2 -> Ok { str_s = (Some b2); str_len = len;
          str_size = size0 }))))

(** val take_line : nat -> z list -> z list * z list **)

let rec take_line k st =
  match k with
  | O -> ([], st)
  | S k' ->
    (match st with
     | [] -> ([], [])
     | c :: t ->
       if Z.eqb c (Zpos (XO (XI (XO XH))))
       then ((c :: []), t)
       else let (a, r) = take_line k' t in ((c :: a), r))

(** val find_byte : z -> z list -> nat option **)

let rec find_byte c = function
| [] -> None
| x :: r ->
  if Z.eqb x c
  then Some O
  else (match find_byte c r with
        | Some k -> Some (S k)
        | None -> None)

(** val fp_loop : z -> nat -> str -> z list -> (str * z option) res **)

let rec fp_loop inc fuel o stream =
  match fuel with
  | O -> Fault Out_of_fuel
  | S fuel' ->
    (match stream with
     | [] -> Ok (o, None)
     | _ :: _ ->
       let p = o.str_len in
       let (chunk, rest) = take_line (Z.to_nat (Z.sub inc (Zpos XH))) stream
       in
       bind (deref o.str_s) (fun b ->
         bind (putz b p (cstr_cells chunk)) (fun b1 ->
           bind (read_cstr_at b1 p) (fun t ->
             match find_byte (Zpos (XO (XI (XO XH)))) t with
             | Some k ->
               let e = Z.add p (Z.of_nat k) in
               bind (wr b1 e Z0) (fun b2 -> Ok ({ str_s = (Some b2);
                 str_len = o.str_len; str_size = o.str_size }, (Some e)))
             | None ->
               let len = Z.add o.str_len (zlen t) in
               let size = Z.add o.str_size inc in
               bind (realloc (Some b1) size) (fun s' ->
                 fp_loop inc fuel' { str_s = s'; str_len = len; str_size =
                   size } rest)))))

(** val init_from_fp_gen : z -> z list -> str res **)

let init_from_fp_gen inc stream =
  bind (malloc inc) (fun b ->
    bind (wr b Z0 Z0) (fun b0 ->
      bind
        (fp_loop inc (S (length stream)) { str_s = (Some b0); str_len = Z0;
          str_size = inc } stream) (fun x ->
        let (o, e) = x in
        bind
          (match e with
           | Some e0 -> Ok e0
           | None ->
             bind (deref o.str_s) (fun b1 ->
               bind (read_cstr b1) (fun t -> Ok (zlen t)))) (fun len ->
          let size = Z.add len (Zpos XH) in
          bind (realloc o.str_s size) (fun s' -> Ok { str_s = s'; str_len =
            len; str_size = size })))))

(** val init_from_fp : z list -> str res **)

let init_from_fp =
  init_from_fp_gen str_buff_inc

type rd_event =
| Data of z list
| EINTR
| EAGAIN
| EOF
| Err

type rd_result =
| RData of z list
| RIntr
| RStop

(** val read_call : z -> rd_event list -> rd_result * rd_event list **)

let read_call n0 = function
| [] -> (RStop, [])
| r0 :: r ->
  (match r0 with
   | Data l ->
     (match l with
      | [] -> (RStop, r)
      | _ :: _ ->
        let a = firstn (Z.to_nat n0) l in
        let rest = skipn (Z.to_nat n0) l in
        ((RData a), (match rest with
                     | [] -> r
                     | _ :: _ -> (Data rest) :: r)))
   | EINTR -> (RIntr, r)
   | _ -> (RStop, r))

(** val sched_measure : rd_event list -> nat **)

let rec sched_measure = function
| [] -> O
| r0 :: r ->
  (match r0 with
   | Data l -> S (add (length l) (sched_measure r))
   | _ -> S (sched_measure r))

(** val fd_loop : z -> nat -> str -> z -> rd_event list -> str res **)

let rec fd_loop inc fuel o p sched =
  match fuel with
  | O -> Fault Out_of_fuel
  | S fuel' ->
    let (r0, r) = read_call inc sched in
    (match r0 with
     | RData a ->
       bind (deref o.str_s) (fun b ->
         bind (putz b p (bytes a)) (fun b1 ->
           let size = Z.add o.str_size (zlen a) in
           bind (realloc (Some b1) size) (fun s' ->
             fd_loop inc fuel' { str_s = s'; str_len = o.str_len; str_size =
               size } (Z.sub size inc) r)))
     | RIntr -> fd_loop inc fuel' o p r
     | RStop -> Ok o)

(** val init_from_fd_gen : z -> rd_event list -> str res **)

let init_from_fd_gen inc sched =
  bind (malloc inc) (fun b ->
    bind
      (fd_loop inc (S (sched_measure sched)) { str_s = (Some b); str_len =
        Z0; str_size = inc } Z0 sched) (fun o ->
      let len = Z.sub o.str_size inc in
      let size = Z.add len (Zpos XH) in
      bind (realloc o.str_s size) (fun s' ->
        bind (deref s') (fun b' ->
          bind (wr b' len Z0) (fun b'' -> Ok { str_s = (Some b''); str_len =
            len; str_size = size })))))

(** val init_from_fd : rd_event list -> str res **)

let init_from_fd =
  init_from_fd_gen str_buff_inc

(** val dec_digits : nat -> z -> z list -> z list **)

let rec dec_digits fuel n0 acc =
  match fuel with
  | O -> acc
  | S f ->
    let acc' =
      (Z.add (Zpos (XO (XO (XO (XO (XI XH))))))
        (Z.modulo n0 (Zpos (XO (XI (XO XH)))))) :: acc
    in
    if Z.eqb (Z.div n0 (Zpos (XO (XI (XO XH))))) Z0
    then acc'
    else dec_digits f (Z.div n0 (Zpos (XO (XI (XO XH))))) acc'

(** val dec_repr : z -> z list **)

let dec_repr n0 =
  if Z.ltb n0 Z0
  then (Zpos (XI (XO (XI (XI (XO
         XH)))))) :: (dec_digits (S (S (S (S (S (S (S (S (S (S (S (S (S (S (S
                       (S (S (S (S (S O)))))))))))))))))))) (Z.opp n0) [])
  else dec_digits (S (S (S (S (S (S (S (S (S (S (S (S (S (S (S (S (S (S (S (S
         O)))))))))))))))))))) n0 []

(** val init_from_num : z -> str res **)

let init_from_num num =
  let t = dec_repr num in
  let len = zlen t in
  let size = Z.add len (Zpos XH) in
  bind (malloc size) (fun b ->
    bind (putz b Z0 (cstr_cells t)) (fun b' -> Ok { str_s = (Some b');
      str_len = len; str_size = size }))

(** val str_done : str -> str **)

let str_done o =
  if Z.eqb o.str_size Z0 then o else empty_str

(** val dup : str -> str res **)

let dup o =
  match o.str_s with
  | Some b ->
    bind (malloc o.str_size) (fun nb ->
      bind (getz b Z0 (Z.add o.str_len (Zpos XH))) (fun cs ->
        bind (putz nb Z0 cs) (fun nb' -> Ok { str_s = (Some nb'); str_len =
          o.str_len; str_size = o.str_size })))
  | None -> Ok { str_s = None; str_len = o.str_len; str_size = o.str_size }

(** val grow_size : str -> z -> z -> z **)

let grow_size o add0 olen =
  let size = Z.add o.str_size add0 in
  if Z.leb size (Z.add o.str_len olen)
  then Z.add (Z.add o.str_len olen) (Zpos XH)
  else size

(** val append : str -> str option -> (bool * str) res **)

let append o = function
| Some x ->
  if (&&) (negb (Z.eqb x.str_size Z0)) (negb (Z.eqb x.str_len Z0))
  then let size = grow_size o (Z.sub x.str_size (Zpos XH)) x.str_len in
       bind (realloc o.str_s size) (fun s' ->
         bind (deref s') (fun b ->
           bind (getz (str_str x) Z0 (Z.add x.str_len (Zpos XH))) (fun cs ->
             bind (putz b o.str_len cs) (fun b' -> Ok (true, { str_s = (Some
               b'); str_len = (Z.add o.str_len x.str_len); str_size = size })))))
  else Ok (true, o)
| None -> Ok (false, o)

(** val append_from_ptr : str -> z list option -> (bool * str) res **)

let append_from_ptr o = function
| Some t ->
  let len = zlen t in
  if negb (Z.eqb len Z0)
  then let size = grow_size o len len in
       bind (realloc o.str_s size) (fun s' ->
         bind (deref s') (fun b ->
           bind (putz b o.str_len (cstr_cells t)) (fun b' -> Ok (true,
             { str_s = (Some b'); str_len = (Z.add o.str_len len); str_size =
             size }))))
  else Ok (true, o)
| None -> Ok (false, o)

(** val append_char : str -> z -> (bool * str) res **)

let append_char o c =
  let len = Z.add o.str_len (Zpos XH) in
  bind
    (if Z.leb o.str_size len
     then bind (realloc o.str_s (Z.add len (Zpos XH))) (fun s' -> Ok (s',
            (Z.add len (Zpos XH))))
     else Ok (o.str_s, o.str_size)) (fun x ->
    let (s', size) = x in
    bind (deref s') (fun b ->
      bind (wr b (Z.sub len (Zpos XH)) c) (fun b1 ->
        bind (wr b1 len Z0) (fun b2 -> Ok (true, { str_s = (Some b2);
          str_len = len; str_size = size })))))

(** val prepend : str -> str option -> (bool * str) res **)

let prepend o = function
| Some x ->
  if (&&) (negb (Z.eqb x.str_size Z0)) (negb (Z.eqb x.str_len Z0))
  then let size = grow_size o (Z.sub x.str_size (Zpos XH)) x.str_len in
       bind (realloc o.str_s size) (fun s' ->
         bind (deref s') (fun b ->
           bind (memmovez b x.str_len Z0 o.str_len) (fun b1 ->
             bind (getz (str_str x) Z0 x.str_len) (fun cs ->
               bind (putz b1 Z0 cs) (fun b2 ->
                 let len = Z.add o.str_len x.str_len in
                 bind (wr b2 len Z0) (fun b3 -> Ok (true, { str_s = (Some
                   b3); str_len = len; str_size = size })))))))
  else Ok (true, o)
| None -> Ok (false, o)

(** val prepend_from_ptr : str -> z list option -> (bool * str) res **)

let prepend_from_ptr o = function
| Some t ->
  let olen = zlen t in
  if negb (Z.eqb olen Z0)
  then let size = grow_size o olen olen in
       bind (realloc o.str_s size) (fun s' ->
         bind (deref s') (fun b ->
           bind (memmovez b olen Z0 o.str_len) (fun b1 ->
             bind (putz b1 Z0 (bytes t)) (fun b2 ->
               let len = Z.add o.str_len olen in
               bind (wr b2 len Z0) (fun b3 -> Ok (true, { str_s = (Some b3);
                 str_len = len; str_size = size }))))))
  else Ok (true, o)
| None -> Ok (false, o)

(** val prepend_char : str -> z -> (bool * str) res **)

let prepend_char o c =
  let len = Z.add o.str_len (Zpos XH) in
  bind
    (if Z.leb o.str_size len
     then bind (realloc o.str_s (Z.add len (Zpos XH))) (fun s' -> Ok (s',
            (Z.add len (Zpos XH))))
     else Ok (o.str_s, o.str_size)) (fun x ->
    let (s', size) = x in
    bind (deref s') (fun b ->
      bind (memmovez b (Zpos XH) Z0 (Z.sub len (Zpos XH))) (fun b1 ->
        bind (wr b1 Z0 c) (fun b2 ->
          bind (wr b2 len Z0) (fun b3 -> Ok (true, { str_s = (Some b3);
            str_len = len; str_size = size }))))))

(** val splice_args : str -> z -> z -> (z * z) option **)

let splice_args o idx cnt =
  let idx0 = if Z.ltb idx Z0 then Z.add o.str_len idx else idx in
  if negb (Z.geb idx0 Z0)
  then None
  else if negb (Z.ltb idx0 o.str_len)
       then None
       else let cnt0 =
              if Z.ltb cnt Z0 then Z.add (Z.add idx0 o.str_len) cnt else cnt
            in
            if negb (Z.geb cnt0 Z0)
            then None
            else if negb (Z.leb cnt0 (Z.sub o.str_len idx0))
                 then None
                 else Some (idx0, cnt0)

(** val splice_cells : str -> z -> z -> cell list res -> (bool * str) res **)

let splice_cells o idx cnt ins =
  match splice_args o idx cnt with
  | Some p ->
    let (idx0, cnt0) = p in
    bind ins (fun ins0 ->
      let newsize = Z.add (Z.sub (Z.add o.str_len (zlen ins0)) cnt0) (Zpos XH)
      in
      bind (malloc newsize) (fun tmp ->
        bind (deref o.str_s) (fun b ->
          bind
            (if Z.gtb idx0 Z0
             then bind (getz b Z0 idx0) (fun cs -> putz tmp Z0 cs)
             else Ok tmp) (fun tmp1 ->
            bind (putz tmp1 idx0 ins0) (fun tmp2 ->
              bind
                (getz b (Z.add idx0 cnt0)
                  (Z.add (Z.sub (Z.sub o.str_len idx0) cnt0) (Zpos XH)))
                (fun cs ->
                bind (putz tmp2 (Z.add idx0 (zlen ins0)) cs) (fun tmp3 ->
                  bind
                    (if Z.ltb o.str_size newsize
                     then bind (realloc o.str_s newsize) (fun s' -> Ok (s',
                            newsize))
                     else Ok (o.str_s, o.str_size)) (fun x ->
                    let (s', size) = x in
                    bind (deref s') (fun b' ->
                      bind (putz b' Z0 tmp3) (fun b'' -> Ok (true, { str_s =
                        (Some b''); str_len = (Z.sub newsize (Zpos XH));
                        str_size = size })))))))))))
  | None -> Ok (false, o)

(** val splice : str -> z -> z -> str option -> (bool * str) res **)

let splice o idx cnt other =
  splice_cells o idx cnt
    (match other with
     | Some x -> getz (str_str x) Z0 x.str_len
     | None -> Ok [])

(** val splice_from_ptr :
    str -> z -> z -> z list option -> (bool * str) res **)

let splice_from_ptr o idx cnt other =
  splice_cells o idx cnt (Ok
    (match other with
     | Some t -> bytes t
     | None -> []))

(** val substr_args : str -> z -> z -> (z * z) option **)

let substr_args o idx cnt =
  let idx0 = if Z.ltb idx Z0 then Z.add o.str_len idx else idx in
  if negb (Z.geb idx0 Z0)
  then None
  else if negb (Z.ltb idx0 o.str_len)
       then None
       else let cnt0 =
              if Z.leb cnt Z0 then Z.add (Z.sub o.str_len idx0) cnt else cnt
            in
            if negb (Z.geb cnt0 Z0)
            then None
            else let cnt1 =
                   if Z.gtb cnt0 (Z.sub o.str_len idx0)
                   then Z.sub o.str_len idx0
                   else cnt0
                 in
                 Some (idx0, cnt1)

(** val substr : str -> z -> z -> str option res **)

let substr o idx cnt =
  match substr_args o idx cnt with
  | Some p ->
    let (idx0, cnt0) = p in
    bind (init_from_buff (Some (skipn (Z.to_nat idx0) (str_str o))) cnt0)
      (fun r -> Ok (Some r))
  | None -> Ok None

(** val substr_to_ptr : str -> z -> z -> buf option res **)

let substr_to_ptr o idx cnt =
  match substr_args o idx cnt with
  | Some p ->
    let (idx0, cnt0) = p in
    bind (malloc (Z.add cnt0 (Zpos XH))) (fun nb ->
      bind (getz (str_str o) idx0 cnt0) (fun cs ->
        bind (putz nb Z0 cs) (fun nb1 ->
          bind (wr nb1 cnt0 Z0) (fun nb2 -> Ok (Some nb2)))))
  | None -> Ok None

(** val trim_front : nat -> buf -> z -> z -> z res **)

let rec trim_front fuel b start e =
  match fuel with
  | O -> Fault Out_of_fuel
  | S f ->
    bind (rd b start) (fun c ->
      if (&&) (isspace c) (Z.leb start e)
      then trim_front f b (Z.add start (Zpos XH)) e
      else Ok start)

(** val trim_back : nat -> buf -> z -> z -> z res **)

let rec trim_back fuel b start e =
  match fuel with
  | O -> Fault Out_of_fuel
  | S f ->
    if Z.ltb start e
    then bind (rd b e) (fun c ->
           if isspace c then trim_back f b start (Z.sub e (Zpos XH)) else Ok e)
    else Ok e

(** val trim : str -> (bool * str) res **)

let trim o =
  match o.str_s with
  | Some b ->
    let fuel = S (Z.to_nat (Z.add o.str_len (Zpos XH))) in
    bind (trim_front fuel b Z0 (Z.sub o.str_len (Zpos XH))) (fun start ->
      bind (trim_back fuel b start (Z.sub o.str_len (Zpos XH))) (fun e ->
        if Z.gtb start e
        then Ok (true, (str_done o))
        else let e0 = Z.add e (Zpos XH) in
             bind (wr b e0 Z0) (fun b1 ->
               let len = Z.sub e0 start in
               let size = Z.add len (Zpos XH) in
               bind (memmovez b1 Z0 start size) (fun b2 ->
                 bind (realloc (Some b2) size) (fun s' -> Ok (true, { str_s =
                   s'; str_len = len; str_size = size }))))))
  | None -> Ok (true, o)

(** val reverse : str -> (bool * str) res **)

let reverse o =
  match o.str_s with
  | Some b ->
    bind (strrev b) (fun b' -> Ok (true, { str_s = (Some b'); str_len =
      o.str_len; str_size = o.str_size }))
  | None -> Ok (false, o)

(** val case_map : (z -> z) -> str -> (bool * str) res **)

let case_map f o =
  match o.str_s with
  | Some b ->
    bind (map_str f b) (fun b' -> Ok (true, { str_s = (Some b'); str_len =
      o.str_len; str_size = o.str_size }))
  | None -> Ok (true, o)

(** val upcase : str -> (bool * str) res **)

let upcase =
  case_map toupper

(** val downcase : str -> (bool * str) res **)

let downcase =
  case_map tolower

(** val clear : str -> z -> (bool * str) res **)

let clear o c =
  match o.str_s with
  | Some b ->
    bind (putz b Z0 (repeat (Some c) (Z.to_nat o.str_size))) (fun b1 ->
      bind (wr b1 o.str_len Z0) (fun b2 -> Ok (true, { str_s = (Some b2);
        str_len = o.str_len; str_size = o.str_size })))
  | None -> Ok (true, o)

type fmt_arg =
| FmtNull
| FmtEmpty
| FmtText of z list

(** val sprintf : str -> fmt_arg -> (bool * str) res **)

let sprintf o f =
  let o1 = match o.str_s with
           | Some _ -> str_done o
           | None -> o in
  (match f with
   | FmtNull -> Ok (false, o1)
   | FmtEmpty -> Ok (true, o1)
   | FmtText t ->
     let c = zlen t in
     if Z.leb c Z0
     then Ok (false, o1)
     else let size = Z.add c (Zpos XH) in
          bind (malloc size) (fun b ->
            bind (putz b Z0 (cstr_cells t)) (fun b' -> Ok (true, { str_s =
              (Some b'); str_len = c; str_size = size }))))

(** val strcmp_l : z list -> z list -> z **)

let rec strcmp_l a b =
  match a with
  | [] -> (match b with
           | [] -> Z0
           | _ :: _ -> Zneg XH)
  | x :: a' ->
    (match b with
     | [] -> Zpos XH
     | y :: b' ->
       if Z.ltb x y
       then Zneg XH
       else if Z.ltb y x then Zpos XH else strcmp_l a' b')

type cmp_kind =
| CmpPlain
| CmpCase
| CmpN of z
| CmpNCase of z

(** val cut : z -> z list -> z list **)

let cut n0 t =
  if (||) (Z.ltb n0 Z0) (Z.leb (zlen t) n0) then t else firstn (Z.to_nat n0) t

(** val cmp_bytes : cmp_kind -> z list -> z list -> z **)

let cmp_bytes k a b =
  match k with
  | CmpPlain -> strcmp_l a b
  | CmpCase -> strcmp_l (map tolower a) (map tolower b)
  | CmpN n0 -> strcmp_l (cut n0 a) (cut n0 b)
  | CmpNCase n0 -> strcmp_l (map tolower (cut n0 a)) (map tolower (cut n0 b))

(** val cmp : cmp_kind -> str -> str option -> z res **)

let cmp k o = function
| Some x ->
  bind (read_cstr (str_str o)) (fun a ->
    bind (read_cstr (str_str x)) (fun b -> Ok (cmp_bytes k a b)))
| None -> Ok (Zpos XH)

(** val cmp_with_ptr : cmp_kind -> str -> z list option -> z res **)

let cmp_with_ptr k o = function
| Some t -> bind (read_cstr (str_str o)) (fun a -> Ok (cmp_bytes k a t))
| None -> Ok (Zpos XH)

(** val is_prefix : z list -> z list -> bool **)

let rec is_prefix p t =
  match p with
  | [] -> true
  | x :: p' ->
    (match t with
     | [] -> false
     | y :: t' -> (&&) (Z.eqb x y) (is_prefix p' t'))

(** val strstr_l : z list -> z list -> nat option **)

let rec strstr_l hay needle =
  if is_prefix needle hay
  then Some O
  else (match hay with
        | [] -> None
        | _ :: h' ->
          (match strstr_l h' needle with
           | Some k -> Some (S k)
           | None -> None))

(** val find : str -> str option -> z res **)

let find o = function
| Some x ->
  bind (read_cstr (str_str o)) (fun a ->
    bind (read_cstr (str_str x)) (fun b -> Ok
      (match strstr_l a b with
       | Some k -> Z.of_nat k
       | None -> o.str_len)))
| None -> Ok (Zneg XH)

(** val find_from_ptr : str -> z list option -> z res **)

let find_from_ptr o = function
| Some t ->
  bind (read_cstr (str_str o)) (fun a -> Ok
    (match strstr_l a t with
     | Some k -> Z.of_nat k
     | None -> o.str_len))
| None -> Ok (Zneg XH)

(** val rfind_byte : z -> z list -> nat option **)

let rec rfind_byte c = function
| [] -> None
| x :: r ->
  (match rfind_byte c r with
   | Some k -> Some (S k)
   | None -> if Z.eqb x c then Some O else None)

(** val index_of : str -> z -> z res **)

let index_of o c =
  bind (read_cstr (str_str o)) (fun a -> Ok
    (if Z.eqb c Z0
     then zlen a
     else (match find_byte c a with
           | Some k -> Z.of_nat k
           | None -> o.str_len)))

(** val rindex_of : str -> z -> z res **)

let rindex_of o c =
  bind (read_cstr (str_str o)) (fun a -> Ok
    (if Z.eqb c Z0
     then zlen a
     else (match rfind_byte c a with
           | Some k -> Z.of_nat k
           | None -> o.str_len)))

(** val digit_val : z -> z option **)

let digit_val c =
  if isdigit c
  then Some (Z.sub c (Zpos (XO (XO (XO (XO (XI XH)))))))
  else if islower c
       then Some
              (Z.add (Z.sub c (Zpos (XI (XO (XO (XO (XO (XI XH)))))))) (Zpos
                (XO (XI (XO XH)))))
       else if isupper c
            then Some
                   (Z.add (Z.sub c (Zpos (XI (XO (XO (XO (XO (XO XH))))))))
                     (Zpos (XO (XI (XO XH)))))
            else None

(** val ulong_max : z **)

let ulong_max =
  Zpos (XI (XI (XI (XI (XI (XI (XI (XI (XI (XI (XI (XI (XI (XI (XI (XI (XI
    (XI (XI (XI (XI (XI (XI (XI (XI (XI (XI (XI (XI (XI (XI (XI (XI (XI (XI
    (XI (XI (XI (XI (XI (XI (XI (XI (XI (XI (XI (XI (XI (XI (XI (XI (XI (XI
    (XI (XI (XI (XI (XI (XI (XI (XI (XI (XI
    XH)))))))))))))))))))))))))))))))))))))))))))))))))))))))))))))))

(** val strtoul_digits :
    z -> z list -> z -> bool -> bool -> (z * bool) * bool **)

let rec strtoul_digits base t acc ovf seen =
  match t with
  | [] -> ((acc, ovf), seen)
  | c :: r ->
    (match digit_val c with
     | Some d ->
       if Z.ltb d base
       then let acc' = Z.add (Z.mul acc base) d in
            if (||) ovf (Z.gtb acc' ulong_max)
            then strtoul_digits base r Z0 true true
            else strtoul_digits base r acc' false true
       else ((acc, ovf), seen)
     | None -> ((acc, ovf), seen))

(** val has_hex_prefix : z list -> bool **)

let has_hex_prefix = function
| [] -> false
| z0 :: l ->
  (match z0 with
   | Zpos p ->
     (match p with
      | XO p0 ->
        (match p0 with
         | XO p1 ->
           (match p1 with
            | XO p2 ->
              (match p2 with
               | XO p3 ->
                 (match p3 with
                  | XI p4 ->
                    (match p4 with
                     | XH ->
                       (match l with
                        | [] -> false
                        | x :: l0 ->
                          (match l0 with
                           | [] -> false
                           | d :: _ ->
                             (&&)
                               ((||)
                                 (Z.eqb x (Zpos (XO (XO (XO (XI (XI (XI
                                   XH))))))))
                                 (Z.eqb x (Zpos (XO (XO (XO (XI (XI (XO
                                   XH)))))))))
                               (match digit_val d with
                                | Some v ->
                                  Z.ltb v (Zpos (XO (XO (XO (XO XH)))))
                                | None -> false)))
                     | _ -> false)
                  | _ -> false)
               | _ -> false)
            | _ -> false)
         | _ -> false)
      | _ -> false)
   | _ -> false)

(** val strtoul_l : z list -> z -> z **)

let strtoul_l t base =
  if (||) ((||) (Z.ltb base Z0) (Z.eqb base (Zpos XH)))
       (Z.gtb base (Zpos (XO (XO (XI (XO (XO XH)))))))
  then Z0
  else let t0 = dropwhile isspace t in
       (match t0 with
        | [] ->
          let neg = false in
          if (&&)
               ((||) (Z.eqb base Z0)
                 (Z.eqb base (Zpos (XO (XO (XO (XO XH)))))))
               (has_hex_prefix t0)
          then let base0 = Zpos (XO (XO (XO (XO XH)))) in
               let t1 = skipn (S (S O)) t0 in
               let (p, _) = strtoul_digits base0 t1 Z0 false false in
               let (v, ovf) = p in
               if ovf
               then ulong_max
               else if neg
                    then Z.modulo (Z.opp v) (Z.add ulong_max (Zpos XH))
                    else v
          else if Z.eqb base Z0
               then let base0 =
                      match t0 with
                      | [] -> Zpos (XO (XI (XO XH)))
                      | z0 :: _ ->
                        (match z0 with
                         | Zpos p ->
                           (match p with
                            | XO p0 ->
                              (match p0 with
                               | XO p1 ->
                                 (match p1 with
                                  | XO p2 ->
                                    (match p2 with
                                     | XO p3 ->
                                       (match p3 with
                                        | XI p4 ->
                                          (match p4 with
                                           | XH -> Zpos (XO (XO (XO XH)))
                                           | _ -> Zpos (XO (XI (XO XH))))
                                        | _ -> Zpos (XO (XI (XO XH))))
                                     | _ -> Zpos (XO (XI (XO XH))))
                                  | _ -> Zpos (XO (XI (XO XH))))
                               | _ -> Zpos (XO (XI (XO XH))))
                            | _ -> Zpos (XO (XI (XO XH))))
                         | _ -> Zpos (XO (XI (XO XH))))
                    in
                    let (p, _) = strtoul_digits base0 t0 Z0 false false in
                    let (v, ovf) = p in
                    if ovf
                    then ulong_max
                    else if neg
                         then Z.modulo (Z.opp v) (Z.add ulong_max (Zpos XH))
                         else v
               else let (p, _) = strtoul_digits base t0 Z0 false false in
                    let (v, ovf) = p in
                    if ovf
                    then ulong_max
                    else if neg
                         then Z.modulo (Z.opp v) (Z.add ulong_max (Zpos XH))
                         else v
        | z0 :: r ->
          (match z0 with
           | Zpos p ->
             (match p with
              | XI p0 ->
                (match p0 with
                 | XI p1 ->
                   (match p1 with
                    | XO p2 ->
                      (match p2 with
                       | XI p3 ->
                         (match p3 with
                          | XO p4 ->
                            (match p4 with
                             | XH ->
                               let neg = false in
                               if (&&)
                                    ((||) (Z.eqb base Z0)
                                      (Z.eqb base (Zpos (XO (XO (XO (XO
                                        XH))))))) (has_hex_prefix r)
                               then let base0 = Zpos (XO (XO (XO (XO XH)))) in
                                    let t1 = skipn (S (S O)) r in
                                    let (p5, _) =
                                      strtoul_digits base0 t1 Z0 false false
                                    in
                                    let (v, ovf) = p5 in
                                    if ovf
                                    then ulong_max
                                    else if neg
                                         then Z.modulo (Z.opp v)
                                                (Z.add ulong_max (Zpos XH))
                                         else v
                               else if Z.eqb base Z0
                                    then let base0 =
                                           match r with
                                           | [] -> Zpos (XO (XI (XO XH)))
                                           | z1 :: _ ->
                                             (match z1 with
                                              | Zpos p5 ->
                                                (match p5 with
                                                 | XO p6 ->
                                                   (match p6 with
                                                    | XO p7 ->
                                                      (match p7 with
                                                       | XO p8 ->
                                                         (match p8 with
                                                          | XO p9 ->
                                                            (match p9 with
                                                             | XI p10 ->
                                                               (match p10 with
                                                                | XH ->
                                                                  Zpos (XO
                                                                    (XO (XO
                                                                    XH)))
                                                                | _ ->
                                                                  Zpos (XO
                                                                    (XI (XO
                                                                    XH))))
                                                             | _ ->
                                                               Zpos (XO (XI
                                                                 (XO XH))))
                                                          | _ ->
                                                            Zpos (XO (XI (XO
                                                              XH))))
                                                       | _ ->
                                                         Zpos (XO (XI (XO
                                                           XH))))
                                                    | _ ->
                                                      Zpos (XO (XI (XO XH))))
                                                 | _ -> Zpos (XO (XI (XO XH))))
                                              | _ -> Zpos (XO (XI (XO XH))))
                                         in
                                         let (p5, _) =
                                           strtoul_digits base0 r Z0 false
                                             false
                                         in
                                         let (v, ovf) = p5 in
                                         if ovf
                                         then ulong_max
                                         else if neg
                                              then Z.modulo (Z.opp v)
                                                     (Z.add ulong_max (Zpos
                                                       XH))
                                              else v
                                    else let (p5, _) =
                                           strtoul_digits base r Z0 false
                                             false
                                         in
                                         let (v, ovf) = p5 in
                                         if ovf
                                         then ulong_max
                                         else if neg
                                              then Z.modulo (Z.opp v)
                                                     (Z.add ulong_max (Zpos
                                                       XH))
                                              else v
                             | _ ->
                               let neg = false in
                               if (&&)
                                    ((||) (Z.eqb base Z0)
                                      (Z.eqb base (Zpos (XO (XO (XO (XO
                                        XH))))))) (has_hex_prefix t0)
                               then let base0 = Zpos (XO (XO (XO (XO XH)))) in
                                    let t1 = skipn (S (S O)) t0 in
                                    let (p5, _) =
                                      strtoul_digits base0 t1 Z0 false false
                                    in
                                    let (v, ovf) = p5 in
                                    if ovf
                                    then ulong_max
                                    else if neg
                                         then Z.modulo (Z.opp v)
                                                (Z.add ulong_max (Zpos XH))
                                         else v
                               else if Z.eqb base Z0
                                    then let base0 =
                                           match t0 with
                                           | [] -> Zpos (XO (XI (XO XH)))
                                           | z1 :: _ ->
                                             (match z1 with
                                              | Zpos p5 ->
                                                (match p5 with
                                                 | XO p6 ->
                                                   (match p6 with
                                                    | XO p7 ->
                                                      (match p7 with
                                                       | XO p8 ->
                                                         (match p8 with
                                                          | XO p9 ->
                                                            (match p9 with
                                                             | XI p10 ->
                                                               (match p10 with
                                                                | XH ->
                                                                  Zpos (XO
                                                                    (XO (XO
                                                                    XH)))
                                                                | _ ->
                                                                  Zpos (XO
                                                                    (XI (XO
                                                                    XH))))
                                                             | _ ->
                                                               Zpos (XO (XI
                                                                 (XO XH))))
                                                          | _ ->
                                                            Zpos (XO (XI (XO
                                                              XH))))
                                                       | _ ->
                                                         Zpos (XO (XI (XO
                                                           XH))))
                                                    | _ ->
                                                      Zpos (XO (XI (XO XH))))
                                                 | _ -> Zpos (XO (XI (XO XH))))
                                              | _ -> Zpos (XO (XI (XO XH))))
                                         in
                                         let (p5, _) =
                                           strtoul_digits base0 t0 Z0 false
                                             false
                                         in
                                         let (v, ovf) = p5 in
                                         if ovf
                                         then ulong_max
                                         else if neg
                                              then Z.modulo (Z.opp v)
                                                     (Z.add ulong_max (Zpos
                                                       XH))
                                              else v
                                    else let (p5, _) =
                                           strtoul_digits base t0 Z0 false
                                             false
                                         in
                                         let (v, ovf) = p5 in
                                         if ovf
                                         then ulong_max
                                         else if neg
                                              then Z.modulo (Z.opp v)
                                                     (Z.add ulong_max (Zpos
                                                       XH))
                                              else v)
                          | _ ->
                            let neg = false in
                            if (&&)
                                 ((||) (Z.eqb base Z0)
                                   (Z.eqb base (Zpos (XO (XO (XO (XO XH)))))))
                                 (has_hex_prefix t0)
                            then let base0 = Zpos (XO (XO (XO (XO XH)))) in
                                 let t1 = skipn (S (S O)) t0 in
                                 let (p4, _) =
                                   strtoul_digits base0 t1 Z0 false false
                                 in
                                 let (v, ovf) = p4 in
                                 if ovf
                                 then ulong_max
                                 else if neg
                                      then Z.modulo (Z.opp v)
                                             (Z.add ulong_max (Zpos XH))
                                      else v
                            else if Z.eqb base Z0
                                 then let base0 =
                                        match t0 with
                                        | [] -> Zpos (XO (XI (XO XH)))
                                        | z1 :: _ ->
                                          (match z1 with
                                           | Zpos p4 ->
                                             (match p4 with
                                              | XO p5 ->
                                                (match p5 with
                                                 | XO p6 ->
                                                   (match p6 with
                                                    | XO p7 ->
                                                      (match p7 with
                                                       | XO p8 ->
                                                         (match p8 with
                                                          | XI p9 ->
                                                            (match p9 with
                                                             | XH ->
                                                               Zpos (XO (XO
                                                                 (XO XH)))
                                                             | _ ->
                                                               Zpos (XO (XI
                                                                 (XO XH))))
                                                          | _ ->
                                                            Zpos (XO (XI (XO
                                                              XH))))
                                                       | _ ->
                                                         Zpos (XO (XI (XO
                                                           XH))))
                                                    | _ ->
                                                      Zpos (XO (XI (XO XH))))
                                                 | _ -> Zpos (XO (XI (XO XH))))
                                              | _ -> Zpos (XO (XI (XO XH))))
                                           | _ -> Zpos (XO (XI (XO XH))))
                                      in
                                      let (p4, _) =
                                        strtoul_digits base0 t0 Z0 false false
                                      in
                                      let (v, ovf) = p4 in
                                      if ovf
                                      then ulong_max
                                      else if neg
                                           then Z.modulo (Z.opp v)
                                                  (Z.add ulong_max (Zpos XH))
                                           else v
                                 else let (p4, _) =
                                        strtoul_digits base t0 Z0 false false
                                      in
                                      let (v, ovf) = p4 in
                                      if ovf
                                      then ulong_max
                                      else if neg
                                           then Z.modulo (Z.opp v)
                                                  (Z.add ulong_max (Zpos XH))
                                           else v)
                       | _ ->
                         let neg = false in
                         if (&&)
                              ((||) (Z.eqb base Z0)
                                (Z.eqb base (Zpos (XO (XO (XO (XO XH)))))))
                              (has_hex_prefix t0)
                         then let base0 = Zpos (XO (XO (XO (XO XH)))) in
                              let t1 = skipn (S (S O)) t0 in
                              let (p3, _) =
                                strtoul_digits base0 t1 Z0 false false
                              in
                              let (v, ovf) = p3 in
                              if ovf
                              then ulong_max
                              else if neg
                                   then Z.modulo (Z.opp v)
                                          (Z.add ulong_max (Zpos XH))
                                   else v
                         else if Z.eqb base Z0
                              then let base0 =
                                     match t0 with
                                     | [] -> Zpos (XO (XI (XO XH)))
                                     | z1 :: _ ->
                                       (match z1 with
                                        | Zpos p3 ->
                                          (match p3 with
                                           | XO p4 ->
                                             (match p4 with
                                              | XO p5 ->
                                                (match p5 with
                                                 | XO p6 ->
                                                   (match p6 with
                                                    | XO p7 ->
                                                      (match p7 with
                                                       | XI p8 ->
                                                         (match p8 with
                                                          | XH ->
                                                            Zpos (XO (XO (XO
                                                              XH)))
                                                          | _ ->
                                                            Zpos (XO (XI (XO
                                                              XH))))
                                                       | _ ->
                                                         Zpos (XO (XI (XO
                                                           XH))))
                                                    | _ ->
                                                      Zpos (XO (XI (XO XH))))
                                                 | _ -> Zpos (XO (XI (XO XH))))
                                              | _ -> Zpos (XO (XI (XO XH))))
                                           | _ -> Zpos (XO (XI (XO XH))))
                                        | _ -> Zpos (XO (XI (XO XH))))
                                   in
                                   let (p3, _) =
                                     strtoul_digits base0 t0 Z0 false false
                                   in
                                   let (v, ovf) = p3 in
                                   if ovf
                                   then ulong_max
                                   else if neg
                                        then Z.modulo (Z.opp v)
                                               (Z.add ulong_max (Zpos XH))
                                        else v
                              else let (p3, _) =
                                     strtoul_digits base t0 Z0 false false
                                   in
                                   let (v, ovf) = p3 in
                                   if ovf
                                   then ulong_max
                                   else if neg
                                        then Z.modulo (Z.opp v)
                                               (Z.add ulong_max (Zpos XH))
                                        else v)
                    | _ ->
                      let neg = false in
                      if (&&)
                           ((||) (Z.eqb base Z0)
                             (Z.eqb base (Zpos (XO (XO (XO (XO XH)))))))
                           (has_hex_prefix t0)
                      then let base0 = Zpos (XO (XO (XO (XO XH)))) in
                           let t1 = skipn (S (S O)) t0 in
                           let (p2, _) =
                             strtoul_digits base0 t1 Z0 false false
                           in
                           let (v, ovf) = p2 in
                           if ovf
                           then ulong_max
                           else if neg
                                then Z.modulo (Z.opp v)
                                       (Z.add ulong_max (Zpos XH))
                                else v
                      else if Z.eqb base Z0
                           then let base0 =
                                  match t0 with
                                  | [] -> Zpos (XO (XI (XO XH)))
                                  | z1 :: _ ->
                                    (match z1 with
                                     | Zpos p2 ->
                                       (match p2 with
                                        | XO p3 ->
                                          (match p3 with
                                           | XO p4 ->
                                             (match p4 with
                                              | XO p5 ->
                                                (match p5 with
                                                 | XO p6 ->
                                                   (match p6 with
                                                    | XI p7 ->
                                                      (match p7 with
                                                       | XH ->
                                                         Zpos (XO (XO (XO
                                                           XH)))
                                                       | _ ->
                                                         Zpos (XO (XI (XO
                                                           XH))))
                                                    | _ ->
                                                      Zpos (XO (XI (XO XH))))
                                                 | _ -> Zpos (XO (XI (XO XH))))
                                              | _ -> Zpos (XO (XI (XO XH))))
                                           | _ -> Zpos (XO (XI (XO XH))))
                                        | _ -> Zpos (XO (XI (XO XH))))
                                     | _ -> Zpos (XO (XI (XO XH))))
                                in
                                let (p2, _) =
                                  strtoul_digits base0 t0 Z0 false false
                                in
                                let (v, ovf) = p2 in
                                if ovf
                                then ulong_max
                                else if neg
                                     then Z.modulo (Z.opp v)
                                            (Z.add ulong_max (Zpos XH))
                                     else v
                           else let (p2, _) =
                                  strtoul_digits base t0 Z0 false false
                                in
                                let (v, ovf) = p2 in
                                if ovf
                                then ulong_max
                                else if neg
                                     then Z.modulo (Z.opp v)
                                            (Z.add ulong_max (Zpos XH))
                                     else v)
                 | XO p1 ->
                   (match p1 with
                    | XI p2 ->
                      (match p2 with
                       | XI p3 ->
                         (match p3 with
                          | XO p4 ->
                            (match p4 with
                             | XH ->
                               let neg = true in
                               if (&&)
                                    ((||) (Z.eqb base Z0)
                                      (Z.eqb base (Zpos (XO (XO (XO (XO
                                        XH))))))) (has_hex_prefix r)
                               then let base0 = Zpos (XO (XO (XO (XO XH)))) in
                                    let t1 = skipn (S (S O)) r in
                                    let (p5, _) =
                                      strtoul_digits base0 t1 Z0 false false
                                    in
                                    let (v, ovf) = p5 in
                                    if ovf
                                    then ulong_max
                                    else if neg
                                         then Z.modulo (Z.opp v)
                                                (Z.add ulong_max (Zpos XH))
                                         else v
                               else if Z.eqb base Z0
                                    then let base0 =
                                           match r with
                                           | [] -> Zpos (XO (XI (XO XH)))
                                           | z1 :: _ ->
                                             (match z1 with
                                              | Zpos p5 ->
                                                (match p5 with
                                                 | XO p6 ->
                                                   (match p6 with
                                                    | XO p7 ->
                                                      (match p7 with
                                                       | XO p8 ->
                                                         (match p8 with
                                                          | XO p9 ->
                                                            (match p9 with
                                                             | XI p10 ->
                                                               (match p10 with
                                                                | XH ->
                                                                  Zpos (XO
                                                                    (XO (XO
                                                                    XH)))
                                                                | _ ->
                                                                  Zpos (XO
                                                                    (XI (XO
                                                                    XH))))
                                                             | _ ->
                                                               Zpos (XO (XI
                                                                 (XO XH))))
                                                          | _ ->
                                                            Zpos (XO (XI (XO
                                                              XH))))
                                                       | _ ->
                                                         Zpos (XO (XI (XO
                                                           XH))))
                                                    | _ ->
                                                      Zpos (XO (XI (XO XH))))
                                                 | _ -> Zpos (XO (XI (XO XH))))
                                              | _ -> Zpos (XO (XI (XO XH))))
                                         in
                                         let (p5, _) =
                                           strtoul_digits base0 r Z0 false
                                             false
                                         in
                                         let (v, ovf) = p5 in
                                         if ovf
                                         then ulong_max
                                         else if neg
                                              then Z.modulo (Z.opp v)
                                                     (Z.add ulong_max (Zpos
                                                       XH))
                                              else v
                                    else let (p5, _) =
                                           strtoul_digits base r Z0 false
                                             false
                                         in
                                         let (v, ovf) = p5 in
                                         if ovf
                                         then ulong_max
                                         else if neg
                                              then Z.modulo (Z.opp v)
                                                     (Z.add ulong_max (Zpos
                                                       XH))
                                              else v
                             | _ ->
                               let neg = false in
                               if (&&)
                                    ((||) (Z.eqb base Z0)
                                      (Z.eqb base (Zpos (XO (XO (XO (XO
                                        XH))))))) (has_hex_prefix t0)
                               then let base0 = Zpos (XO (XO (XO (XO XH)))) in
                                    let t1 = skipn (S (S O)) t0 in
                                    let (p5, _) =
                                      strtoul_digits base0 t1 Z0 false false
                                    in
                                    let (v, ovf) = p5 in
                                    if ovf
                                    then ulong_max
                                    else if neg
                                         then Z.modulo (Z.opp v)
                                                (Z.add ulong_max (Zpos XH))
                                         else v
                               else if Z.eqb base Z0
                                    then let base0 =
                                           match t0 with
                                           | [] -> Zpos (XO (XI (XO XH)))
                                           | z1 :: _ ->
                                             (match z1 with
                                              | Zpos p5 ->
                                                (match p5 with
                                                 | XO p6 ->
                                                   (match p6 with
                                                    | XO p7 ->
                                                      (match p7 with
                                                       | XO p8 ->
                                                         (match p8 with
                                                          | XO p9 ->
                                                            (match p9 with
                                                             | XI p10 ->
                                                               (match p10 with
                                                                | XH ->
                                                                  Zpos (XO
                                                                    (XO (XO
                                                                    XH)))
                                                                | _ ->
                                                                  Zpos (XO
                                                                    (XI (XO
                                                                    XH))))
                                                             | _ ->
                                                               Zpos (XO (XI
                                                                 (XO XH))))
                                                          | _ ->
                                                            Zpos (XO (XI (XO
                                                              XH))))
                                                       | _ ->
                                                         Zpos (XO (XI (XO
                                                           XH))))
                                                    | _ ->
                                                      Zpos (XO (XI (XO XH))))
                                                 | _ -> Zpos (XO (XI (XO XH))))
                                              | _ -> Zpos (XO (XI (XO XH))))
                                         in
                                         let (p5, _) =
                                           strtoul_digits base0 t0 Z0 false
                                             false
                                         in
                                         let (v, ovf) = p5 in
                                         if ovf
                                         then ulong_max
                                         else if neg
                                              then Z.modulo (Z.opp v)
                                                     (Z.add ulong_max (Zpos
                                                       XH))
                                              else v
                                    else let (p5, _) =
                                           strtoul_digits base t0 Z0 false
                                             false
                                         in
                                         let (v, ovf) = p5 in
                                         if ovf
                                         then ulong_max
                                         else if neg
                                              then Z.modulo (Z.opp v)
                                                     (Z.add ulong_max (Zpos
                                                       XH))
                                              else v)
                          | _ ->
                            let neg = false in
                            if (&&)
                                 ((||) (Z.eqb base Z0)
                                   (Z.eqb base (Zpos (XO (XO (XO (XO XH)))))))
                                 (has_hex_prefix t0)
                            then let base0 = Zpos (XO (XO (XO (XO XH)))) in
                                 let t1 = skipn (S (S O)) t0 in
                                 let (p4, _) =
                                   strtoul_digits base0 t1 Z0 false false
                                 in
                                 let (v, ovf) = p4 in
                                 if ovf
                                 then ulong_max
                                 else if neg
                                      then Z.modulo (Z.opp v)
                                             (Z.add ulong_max (Zpos XH))
                                      else v
                            else if Z.eqb base Z0
                                 then let base0 =
                                        match t0 with
                                        | [] -> Zpos (XO (XI (XO XH)))
                                        | z1 :: _ ->
                                          (match z1 with
                                           | Zpos p4 ->
                                             (match p4 with
                                              | XO p5 ->
                                                (match p5 with
                                                 | XO p6 ->
                                                   (match p6 with
                                                    | XO p7 ->
                                                      (match p7 with
                                                       | XO p8 ->
                                                         (match p8 with
                                                          | XI p9 ->
                                                            (match p9 with
                                                             | XH ->
                                                               Zpos (XO (XO
                                                                 (XO XH)))
                                                             | _ ->
                                                               Zpos (XO (XI
                                                                 (XO XH))))
                                                          | _ ->
                                                            Zpos (XO (XI (XO
                                                              XH))))
                                                       | _ ->
                                                         Zpos (XO (XI (XO
                                                           XH))))
                                                    | _ ->
                                                      Zpos (XO (XI (XO XH))))
                                                 | _ -> Zpos (XO (XI (XO XH))))
                                              | _ -> Zpos (XO (XI (XO XH))))
                                           | _ -> Zpos (XO (XI (XO XH))))
                                      in
                                      let (p4, _) =
                                        strtoul_digits base0 t0 Z0 false false
                                      in
                                      let (v, ovf) = p4 in
                                      if ovf
                                      then ulong_max
                                      else if neg
                                           then Z.modulo (Z.opp v)
                                                  (Z.add ulong_max (Zpos XH))
                                           else v
                                 else let (p4, _) =
                                        strtoul_digits base t0 Z0 false false
                                      in
                                      let (v, ovf) = p4 in
                                      if ovf
                                      then ulong_max
                                      else if neg
                                           then Z.modulo (Z.opp v)
                                                  (Z.add ulong_max (Zpos XH))
                                           else v)
                       | _ ->
                         let neg = false in
                         if (&&)
                              ((||) (Z.eqb base Z0)
                                (Z.eqb base (Zpos (XO (XO (XO (XO XH)))))))
                              (has_hex_prefix t0)
                         then let base0 = Zpos (XO (XO (XO (XO XH)))) in
                              let t1 = skipn (S (S O)) t0 in
                              let (p3, _) =
                                strtoul_digits base0 t1 Z0 false false
                              in
                              let (v, ovf) = p3 in
                              if ovf
                              then ulong_max
                              else if neg
                                   then Z.modulo (Z.opp v)
                                          (Z.add ulong_max (Zpos XH))
                                   else v
                         else if Z.eqb base Z0
                              then let base0 =
                                     match t0 with
                                     | [] -> Zpos (XO (XI (XO XH)))
                                     | z1 :: _ ->
                                       (match z1 with
                                        | Zpos p3 ->
                                          (match p3 with
                                           | XO p4 ->
                                             (match p4 with
                                              | XO p5 ->
                                                (match p5 with
                                                 | XO p6 ->
                                                   (match p6 with
                                                    | XO p7 ->
                                                      (match p7 with
                                                       | XI p8 ->
                                                         (match p8 with
                                                          | XH ->
                                                            Zpos (XO (XO (XO
                                                              XH)))
                                                          | _ ->
                                                            Zpos (XO (XI (XO
                                                              XH))))
                                                       | _ ->
                                                         Zpos (XO (XI (XO
                                                           XH))))
                                                    | _ ->
                                                      Zpos (XO (XI (XO XH))))
                                                 | _ -> Zpos (XO (XI (XO XH))))
                                              | _ -> Zpos (XO (XI (XO XH))))
                                           | _ -> Zpos (XO (XI (XO XH))))
                                        | _ -> Zpos (XO (XI (XO XH))))
                                   in
                                   let (p3, _) =
                                     strtoul_digits base0 t0 Z0 false false
                                   in
                                   let (v, ovf) = p3 in
                                   if ovf
                                   then ulong_max
                                   else if neg
                                        then Z.modulo (Z.opp v)
                                               (Z.add ulong_max (Zpos XH))
                                        else v
                              else let (p3, _) =
                                     strtoul_digits base t0 Z0 false false
                                   in
                                   let (v, ovf) = p3 in
                                   if ovf
                                   then ulong_max
                                   else if neg
                                        then Z.modulo (Z.opp v)
                                               (Z.add ulong_max (Zpos XH))
                                        else v)
                    | _ ->
                      let neg = false in
                      if (&&)
                           ((||) (Z.eqb base Z0)
                             (Z.eqb base (Zpos (XO (XO (XO (XO XH)))))))
                           (has_hex_prefix t0)
                      then let base0 = Zpos (XO (XO (XO (XO XH)))) in
                           let t1 = skipn (S (S O)) t0 in
                           let (p2, _) =
                             strtoul_digits base0 t1 Z0 false false
                           in
                           let (v, ovf) = p2 in
                           if ovf
                           then ulong_max
                           else if neg
                                then Z.modulo (Z.opp v)
                                       (Z.add ulong_max (Zpos XH))
                                else v
                      else if Z.eqb base Z0
                           then let base0 =
                                  match t0 with
                                  | [] -> Zpos (XO (XI (XO XH)))
                                  | z1 :: _ ->
                                    (match z1 with
                                     | Zpos p2 ->
                                       (match p2 with
                                        | XO p3 ->
                                          (match p3 with
                                           | XO p4 ->
                                             (match p4 with
                                              | XO p5 ->
                                                (match p5 with
                                                 | XO p6 ->
                                                   (match p6 with
                                                    | XI p7 ->
                                                      (match p7 with
                                                       | XH ->
                                                         Zpos (XO (XO (XO
                                                           XH)))
                                                       | _ ->
                                                         Zpos (XO (XI (XO
                                                           XH))))
                                                    | _ ->
                                                      Zpos (XO (XI (XO XH))))
                                                 | _ -> Zpos (XO (XI (XO XH))))
                                              | _ -> Zpos (XO (XI (XO XH))))
                                           | _ -> Zpos (XO (XI (XO XH))))
                                        | _ -> Zpos (XO (XI (XO XH))))
                                     | _ -> Zpos (XO (XI (XO XH))))
                                in
                                let (p2, _) =
                                  strtoul_digits base0 t0 Z0 false false
                                in
                                let (v, ovf) = p2 in
                                if ovf
                                then ulong_max
                                else if neg
                                     then Z.modulo (Z.opp v)
                                            (Z.add ulong_max (Zpos XH))
                                     else v
                           else let (p2, _) =
                                  strtoul_digits base t0 Z0 false false
                                in
                                let (v, ovf) = p2 in
                                if ovf
                                then ulong_max
                                else if neg
                                     then Z.modulo (Z.opp v)
                                            (Z.add ulong_max (Zpos XH))
                                     else v)
                 | XH ->
                   let neg = false in
                   if (&&)
                        ((||) (Z.eqb base Z0)
                          (Z.eqb base (Zpos (XO (XO (XO (XO XH)))))))
                        (has_hex_prefix t0)
                   then let base0 = Zpos (XO (XO (XO (XO XH)))) in
                        let t1 = skipn (S (S O)) t0 in
                        let (p1, _) = strtoul_digits base0 t1 Z0 false false
                        in
                        let (v, ovf) = p1 in
                        if ovf
                        then ulong_max
                        else if neg
                             then Z.modulo (Z.opp v)
                                    (Z.add ulong_max (Zpos XH))
                             else v
                   else if Z.eqb base Z0
                        then let base0 =
                               match t0 with
                               | [] -> Zpos (XO (XI (XO XH)))
                               | z1 :: _ ->
                                 (match z1 with
                                  | Zpos p1 ->
                                    (match p1 with
                                     | XO p2 ->
                                       (match p2 with
                                        | XO p3 ->
                                          (match p3 with
                                           | XO p4 ->
                                             (match p4 with
                                              | XO p5 ->
                                                (match p5 with
                                                 | XI p6 ->
                                                   (match p6 with
                                                    | XH ->
                                                      Zpos (XO (XO (XO XH)))
                                                    | _ ->
                                                      Zpos (XO (XI (XO XH))))
                                                 | _ -> Zpos (XO (XI (XO XH))))
                                              | _ -> Zpos (XO (XI (XO XH))))
                                           | _ -> Zpos (XO (XI (XO XH))))
                                        | _ -> Zpos (XO (XI (XO XH))))
                                     | _ -> Zpos (XO (XI (XO XH))))
                                  | _ -> Zpos (XO (XI (XO XH))))
                             in
                             let (p1, _) =
                               strtoul_digits base0 t0 Z0 false false
                             in
                             let (v, ovf) = p1 in
                             if ovf
                             then ulong_max
                             else if neg
                                  then Z.modulo (Z.opp v)
                                         (Z.add ulong_max (Zpos XH))
                                  else v
                        else let (p1, _) =
                               strtoul_digits base t0 Z0 false false
                             in
                             let (v, ovf) = p1 in
                             if ovf
                             then ulong_max
                             else if neg
                                  then Z.modulo (Z.opp v)
                                         (Z.add ulong_max (Zpos XH))
                                  else v)
              | _ ->
                let neg = false in
                if (&&)
                     ((||) (Z.eqb base Z0)
                       (Z.eqb base (Zpos (XO (XO (XO (XO XH)))))))
                     (has_hex_prefix t0)
                then let base0 = Zpos (XO (XO (XO (XO XH)))) in
                     let t1 = skipn (S (S O)) t0 in
                     let (p0, _) = strtoul_digits base0 t1 Z0 false false in
                     let (v, ovf) = p0 in
                     if ovf
                     then ulong_max
                     else if neg
                          then Z.modulo (Z.opp v) (Z.add ulong_max (Zpos XH))
                          else v
                else if Z.eqb base Z0
                     then let base0 =
                            match t0 with
                            | [] -> Zpos (XO (XI (XO XH)))
                            | z1 :: _ ->
                              (match z1 with
                               | Zpos p0 ->
                                 (match p0 with
                                  | XO p1 ->
                                    (match p1 with
                                     | XO p2 ->
                                       (match p2 with
                                        | XO p3 ->
                                          (match p3 with
                                           | XO p4 ->
                                             (match p4 with
                                              | XI p5 ->
                                                (match p5 with
                                                 | XH ->
                                                   Zpos (XO (XO (XO XH)))
                                                 | _ -> Zpos (XO (XI (XO XH))))
                                              | _ -> Zpos (XO (XI (XO XH))))
                                           | _ -> Zpos (XO (XI (XO XH))))
                                        | _ -> Zpos (XO (XI (XO XH))))
                                     | _ -> Zpos (XO (XI (XO XH))))
                                  | _ -> Zpos (XO (XI (XO XH))))
                               | _ -> Zpos (XO (XI (XO XH))))
                          in
                          let (p0, _) = strtoul_digits base0 t0 Z0 false false
                          in
                          let (v, ovf) = p0 in
                          if ovf
                          then ulong_max
                          else if neg
                               then Z.modulo (Z.opp v)
                                      (Z.add ulong_max (Zpos XH))
                               else v
                     else let (p0, _) = strtoul_digits base t0 Z0 false false
                          in
                          let (v, ovf) = p0 in
                          if ovf
                          then ulong_max
                          else if neg
                               then Z.modulo (Z.opp v)
                                      (Z.add ulong_max (Zpos XH))
                               else v)
           | _ ->
             let neg = false in
             if (&&)
                  ((||) (Z.eqb base Z0)
                    (Z.eqb base (Zpos (XO (XO (XO (XO XH)))))))
                  (has_hex_prefix t0)
             then let base0 = Zpos (XO (XO (XO (XO XH)))) in
                  let t1 = skipn (S (S O)) t0 in
                  let (p, _) = strtoul_digits base0 t1 Z0 false false in
                  let (v, ovf) = p in
                  if ovf
                  then ulong_max
                  else if neg
                       then Z.modulo (Z.opp v) (Z.add ulong_max (Zpos XH))
                       else v
             else if Z.eqb base Z0
                  then let base0 =
                         match t0 with
                         | [] -> Zpos (XO (XI (XO XH)))
                         | z1 :: _ ->
                           (match z1 with
                            | Zpos p ->
                              (match p with
                               | XO p0 ->
                                 (match p0 with
                                  | XO p1 ->
                                    (match p1 with
                                     | XO p2 ->
                                       (match p2 with
                                        | XO p3 ->
                                          (match p3 with
                                           | XI p4 ->
                                             (match p4 with
                                              | XH -> Zpos (XO (XO (XO XH)))
                                              | _ -> Zpos (XO (XI (XO XH))))
                                           | _ -> Zpos (XO (XI (XO XH))))
                                        | _ -> Zpos (XO (XI (XO XH))))
                                     | _ -> Zpos (XO (XI (XO XH))))
                                  | _ -> Zpos (XO (XI (XO XH))))
                               | _ -> Zpos (XO (XI (XO XH))))
                            | _ -> Zpos (XO (XI (XO XH))))
                       in
                       let (p, _) = strtoul_digits base0 t0 Z0 false false in
                       let (v, ovf) = p in
                       if ovf
                       then ulong_max
                       else if neg
                            then Z.modulo (Z.opp v)
                                   (Z.add ulong_max (Zpos XH))
                            else v
                  else let (p, _) = strtoul_digits base t0 Z0 false false in
                       let (v, ovf) = p in
                       if ovf
                       then ulong_max
                       else if neg
                            then Z.modulo (Z.opp v)
                                   (Z.add ulong_max (Zpos XH))
                            else v))

(** val to_num : str -> z -> z res **)

let to_num o base =
  bind (read_cstr (str_str o)) (fun a -> Ok (strtoul_l a base))

(** val to_float_arg : str -> z list res **)

let to_float_arg o =
  read_cstr (str_str o)

(** val get_len : str -> z **)

let get_len o =
  o.str_len

(** val get_size : str -> z **)

let get_size o =
  o.str_size

(** val set_len : str -> z -> str **)

let set_len o n0 =
  { str_s = o.str_s; str_len = n0; str_size = o.str_size }

(** val set_size : str -> z -> str **)

let set_size o n0 =
  { str_s = o.str_s; str_len = o.str_len; str_size = n0 }

type ctor =
| CInit
| CPtr of z list option
| CBuff of buf option * z
| CFp of z list
| CFd of rd_event list
| CNum of z

(** val construct : ctor -> str res **)

let construct = function
| CInit -> init
| CPtr t -> init_from_ptr t
| CBuff (b, n0) -> init_from_buff b n0
| CFp st -> init_from_fp st
| CFd sc -> init_from_fd sc
| CNum n0 -> init_from_num n0

type op =
| OReinit of ctor
| ODone
| OOtherNull
| OOtherNew of ctor
| OOtherDup
| OOtherSubstr of z * z
| OSwap
| OAppend
| OAppendPtr of z list option
| OAppendChar of z
| OPrepend
| OPrependPtr of z list option
| OPrependChar of z
| OSplice of z * z
| OSplicePtr of z * z * z list option
| OTrim
| OReverse
| OUpcase
| ODowncase
| OClear of z
| OSprintf of fmt_arg
| OSubstrToPtr of z * z
| OCmp of cmp_kind
| OCmpPtr of cmp_kind * z list option
| OFind
| OFindPtr of z list option
| OIndex of z
| ORindex of z
| OToNum of z
| OToFloat
| OGetLen
| OGetSize
| OSetSame

type out =
| RUnit
| RBool of bool
| RInt of z
| RSize of z
| ROpen of bool
| RPtr of buf option
| RText of z list

type mstate = str * str option

(** val lift : (bool * str) res -> str option -> (out * mstate) res **)

let lift r other =
  bind r (fun x -> let (b, o') = x in Ok ((RBool b), (o', other)))

(** val step : mstate -> op -> (out * mstate) res **)

let step st p =
  let (o, other) = st in
  (match p with
   | OReinit c ->
     bind (construct c) (fun o' -> Ok ((RBool true), (o', other)))
   | ODone -> Ok ((RBool true), ((str_done o), other))
   | OOtherNull -> Ok (RUnit, (o, None))
   | OOtherNew c -> bind (construct c) (fun x -> Ok (RUnit, (o, (Some x))))
   | OOtherDup -> bind (dup o) (fun x -> Ok (RUnit, (o, (Some x))))
   | OOtherSubstr (i, c) ->
     bind (substr o i c) (fun x -> Ok ((RBool
       (match x with
        | Some _ -> true
        | None -> false)), (o, x)))
   | OSwap ->
     Ok (RUnit,
       (match other with
        | Some x -> (x, (Some o))
        | None -> (o, None)))
   | OAppend -> lift (append o other) other
   | OAppendPtr t -> lift (append_from_ptr o t) other
   | OAppendChar c -> lift (append_char o c) other
   | OPrepend -> lift (prepend o other) other
   | OPrependPtr t -> lift (prepend_from_ptr o t) other
   | OPrependChar c -> lift (prepend_char o c) other
   | OSplice (i, c) -> lift (splice o i c other) other
   | OSplicePtr (i, c, t) -> lift (splice_from_ptr o i c t) other
   | OTrim -> lift (trim o) other
   | OReverse ->
     bind (reverse o) (fun x ->
       let (b, o') = x in Ok ((ROpen b), (o', other)))
   | OUpcase -> lift (upcase o) other
   | ODowncase -> lift (downcase o) other
   | OClear c -> lift (clear o c) other
   | OSprintf f -> lift (sprintf o f) other
   | OSubstrToPtr (i, c) ->
     bind (substr_to_ptr o i c) (fun r -> Ok ((RPtr r), st))
   | OCmp k -> bind (cmp k o other) (fun r -> Ok ((RInt r), st))
   | OCmpPtr (k, t) -> bind (cmp_with_ptr k o t) (fun r -> Ok ((RInt r), st))
   | OFind -> bind (find o other) (fun r -> Ok ((RInt r), st))
   | OFindPtr t -> bind (find_from_ptr o t) (fun r -> Ok ((RInt r), st))
   | OIndex c -> bind (index_of o c) (fun r -> Ok ((RInt r), st))
   | ORindex c -> bind (rindex_of o c) (fun r -> Ok ((RInt r), st))
   | OToNum b -> bind (to_num o b) (fun r -> Ok ((RInt r), st))
   | OToFloat -> bind (to_float_arg o) (fun r -> Ok ((RText r), st))
   | OGetLen -> Ok ((RInt (get_len o)), st)
   | OGetSize -> Ok ((RSize (get_size o)), st)
   | OSetSame ->
     Ok (RUnit, ((set_size (set_len o (get_len o)) (get_size o)), other)))

type text = z list

(** val norm_idx : z -> z -> z option **)

let norm_idx len idx =
  let i = if Z.ltb idx Z0 then Z.add len idx else idx in
  if (&&) (Z.leb Z0 i) (Z.ltb i len) then Some i else None

(** val splice_cnt : z -> z -> z -> z option **)

let splice_cnt len i cnt =
  let c = if Z.ltb cnt Z0 then Z.add (Z.add i len) cnt else cnt in
  if (&&) (Z.leb Z0 c) (Z.leb c (Z.sub len i)) then Some c else None

(** val substr_cnt : z -> z -> z -> z option **)

let substr_cnt len i cnt =
  let c = if Z.leb cnt Z0 then Z.add (Z.sub len i) cnt else cnt in
  if Z.ltb c Z0 then None else Some (Z.min c (Z.sub len i))

(** val sub0 : text -> z -> z -> text **)

let sub0 t i c =
  firstn (Z.to_nat c) (skipn (Z.to_nat i) t)

(** val spec_splice : text -> z -> z -> text -> text option **)

let spec_splice t idx cnt ins =
  match norm_idx (zlen t) idx with
  | Some i ->
    (match splice_cnt (zlen t) i cnt with
     | Some c ->
       Some
         (app (firstn (Z.to_nat i) t)
           (app ins (skipn (Z.to_nat (Z.add i c)) t)))
     | None -> None)
  | None -> None

(** val spec_substr : text -> z -> z -> text option **)

let spec_substr t idx cnt =
  match norm_idx (zlen t) idx with
  | Some i ->
    (match substr_cnt (zlen t) i cnt with
     | Some c -> Some (sub0 t i c)
     | None -> None)
  | None -> None

(** val first_line : z list -> text **)

let rec first_line = function
| [] -> []
| c :: r ->
  if Z.eqb c (Zpos (XO (XI (XO XH)))) then [] else c :: (first_line r)

(** val delivered : rd_event list -> text **)

let rec delivered = function
| [] -> []
| r0 :: r ->
  (match r0 with
   | Data l0 ->
     (match l0 with
      | [] -> []
      | c :: l -> app (c :: l) (delivered r))
   | EINTR -> delivered r
   | _ -> [])

(** val spec_construct : ctor -> text **)

let spec_construct = function
| CInit -> []
| CPtr t0 -> (match t0 with
              | Some t -> t
              | None -> [])
| CBuff (b0, n0) ->
  (match b0 with
   | Some b -> firstn (Z.to_nat n0) (take_str b)
   | None -> [])
| CFp st -> first_line st
| CFd sc -> delivered sc
| CNum n0 -> dec_repr n0

(** val spec_find : text -> text -> z **)

let spec_find t needle =
  match strstr_l t needle with
  | Some k -> Z.of_nat k
  | None -> zlen t

(** val spec_index : text -> z -> z **)

let spec_index t c =
  match find_byte c t with
  | Some k -> Z.of_nat k
  | None -> zlen t

(** val spec_rindex : text -> z -> z **)

let spec_rindex t c =
  match rfind_byte c t with
  | Some k -> Z.of_nat k
  | None -> zlen t

type sstate = text * text option

(** val ins_text : text option -> text **)

let ins_text = function
| Some x -> x
| None -> []

(** val sstep : sstate -> op -> out * sstate **)

let sstep st p =
  let (t, other) = st in
  (match p with
   | OReinit c -> ((RBool true), ((spec_construct c), other))
   | ODone -> ((RBool true), ([], other))
   | OOtherNull -> (RUnit, (t, None))
   | OOtherNew c -> (RUnit, (t, (Some (spec_construct c))))
   | OOtherDup -> (RUnit, (t, (Some t)))
   | OOtherSubstr (i, c) ->
     let r = spec_substr t i c in
     ((RBool (match r with
              | Some _ -> true
              | None -> false)), (t, r))
   | OSwap ->
     (RUnit, (match other with
              | Some x -> (x, (Some t))
              | None -> (t, None)))
   | OAppend ->
     (match other with
      | Some x -> ((RBool true), ((app t x), other))
      | None -> ((RBool false), st))
   | OAppendPtr a ->
     (match a with
      | Some x -> ((RBool true), ((app t x), other))
      | None -> ((RBool false), st))
   | OAppendChar c -> ((RBool true), ((app t (c :: [])), other))
   | OPrepend ->
     (match other with
      | Some x -> ((RBool true), ((app x t), other))
      | None -> ((RBool false), st))
   | OPrependPtr a ->
     (match a with
      | Some x -> ((RBool true), ((app x t), other))
      | None -> ((RBool false), st))
   | OPrependChar c -> ((RBool true), ((c :: t), other))
   | OSplice (i, c) ->
     (match spec_splice t i c (ins_text other) with
      | Some t' -> ((RBool true), (t', other))
      | None -> ((RBool false), st))
   | OSplicePtr (i, c, a) ->
     (match spec_splice t i c (ins_text a) with
      | Some t' -> ((RBool true), (t', other))
      | None -> ((RBool false), st))
   | OTrim -> ((RBool true), ((trim_ws t), other))
   | OReverse -> (RUnit, ((rev t), other))
   | OUpcase -> ((RBool true), ((map toupper t), other))
   | ODowncase -> ((RBool true), ((map tolower t), other))
   | OClear c -> ((RBool true), ((repeat c (length t)), other))
   | OSprintf f ->
     (match f with
      | FmtNull -> ((RBool false), ([], other))
      | FmtEmpty -> ((RBool true), ([], other))
      | FmtText x ->
        ((RBool (negb (match x with
                       | [] -> true
                       | _ :: _ -> false))), (x, other)))
   | OSubstrToPtr (i, c) ->
     ((RPtr
       (match spec_substr t i c with
        | Some x -> Some (cstr x [])
        | None -> None)), st)
   | OCmp k ->
     ((RInt (match other with
             | Some x -> cmp_bytes k t x
             | None -> Zpos XH)), st)
   | OCmpPtr (k, a) ->
     ((RInt (match a with
             | Some x -> cmp_bytes k t x
             | None -> Zpos XH)), st)
   | OFind ->
     ((RInt (match other with
             | Some x -> spec_find t x
             | None -> Zneg XH)), st)
   | OFindPtr a ->
     ((RInt (match a with
             | Some x -> spec_find t x
             | None -> Zneg XH)), st)
   | OIndex c -> ((RInt (if Z.eqb c Z0 then zlen t else spec_index t c)), st)
   | ORindex c ->
     ((RInt (if Z.eqb c Z0 then zlen t else spec_rindex t c)), st)
   | OToNum b -> ((RInt (strtoul_l t b)), st)
   | OToFloat -> ((RText t), st)
   | OGetLen -> ((RInt (zlen t)), st)
   | _ -> (RUnit, st))
