
val negb : bool -> bool

type nat =
| O
| S of nat

val fst : ('a1 * 'a2) -> 'a1

val snd : ('a1 * 'a2) -> 'a2

val length : 'a1 list -> nat

val app : 'a1 list -> 'a1 list -> 'a1 list

type comparison =
| Eq
| Lt
| Gt

val compOpp : comparison -> comparison

val add : nat -> nat -> nat

val fold_left : ('a1 -> 'a2 -> 'a1) -> 'a2 list -> 'a1 -> 'a1

val filter : ('a1 -> bool) -> 'a1 list -> 'a1 list

val find : ('a1 -> bool) -> 'a1 list -> 'a1 option

val firstn : nat -> 'a1 list -> 'a1 list

val skipn : nat -> 'a1 list -> 'a1 list

type positive =
| XI of positive
| XO of positive
| XH

type n =
| N0
| Npos of positive

type z =
| Z0
| Zpos of positive
| Zneg of positive

module Pos :
 sig
  val succ : positive -> positive

  val add : positive -> positive -> positive

  val add_carry : positive -> positive -> positive

  val pred_double : positive -> positive

  val mul : positive -> positive -> positive

  val iter : ('a1 -> 'a1) -> 'a1 -> positive -> 'a1

  val compare_cont : comparison -> positive -> positive -> comparison

  val compare : positive -> positive -> comparison

  val eqb : positive -> positive -> bool

  val iter_op : ('a1 -> 'a1 -> 'a1) -> positive -> 'a1 -> 'a1

  val to_nat : positive -> nat

  val of_succ_nat : nat -> positive
 end

module Z :
 sig
  val double : z -> z

  val succ_double : z -> z

  val pred_double : z -> z

  val pos_sub : positive -> positive -> z

  val add : z -> z -> z

  val opp : z -> z

  val sub : z -> z -> z

  val mul : z -> z -> z

  val pow_pos : z -> positive -> z

  val pow : z -> z -> z

  val compare : z -> z -> comparison

  val leb : z -> z -> bool

  val ltb : z -> z -> bool

  val eqb : z -> z -> bool

  val to_nat : z -> nat

  val of_nat : nat -> z

  val pos_div_eucl : positive -> z -> z * z

  val div_eucl : z -> z -> z * z

  val modulo : z -> z -> z
 end

type fault =
| OOB_read
| OOB_write
| Uninit_read
| Null_deref
| Use_after_free
| Bad_free
| Out_of_fuel
| Int_overflow
| Abort

type 'a res =
| Ok of 'a
| Fault of fault

val bind : 'a1 res -> ('a1 -> 'a2 res) -> 'a2 res

val num_anchor : ((nat * positive) * n) * z

val spifmem_fname_len : z

val spifmem_fname_cap : z

val spifmem_line_bits : z

val debug_mem : z

val null_fname : z list

type memrec = { r_ptr : z; r_size : z; r_file : z list; r_line : z }

type table = memrec list

val nonull : z list option -> z list

val store_fname : z list -> z list

val store_line : z -> z

val memrec_add_var : table -> z list -> z -> z -> z -> table

val find_from : table -> z -> nat -> nat option

val memrec_find_var : table -> z -> nat option

val memrec_rem_var : table -> z -> table

val memrec_chg_var : table -> z list -> z -> z -> z -> z -> table

val memrec_dump : table -> z * z

type heap = (z * z) list

val h_lookup : heap -> z -> z option

val h_live : heap -> z -> bool

val h_remove : z -> heap -> heap

val a_malloc : heap -> z -> z -> z * heap

val a_free : heap -> z -> heap res

val a_realloc : heap -> z -> z -> z -> (z * heap) res

type st = { s_lvl : z; s_tab : table; s_heap : heap }

val tracking : z -> bool

val size_t : z -> z

val spifmem_malloc : st -> z list option -> z -> z -> z -> z * st

val spifmem_calloc : st -> z list option -> z -> z -> z -> z -> z * st

val spifmem_free : st -> z -> st res

val spifmem_realloc : st -> z list option -> z -> z -> z -> z -> (z * st) res

val spifmem_strdup : st -> z list option -> z -> z list option -> z -> z * st

val plain_MALLOC : st -> z -> z -> z * st

val plain_CALLOC : st -> z -> z -> z -> z * st

val plain_REALLOC : st -> z -> z -> z -> (z * st) res

val plain_FREE : st -> z -> st res

val plain_STRDUP : st -> z list option -> z -> (z * st) res

val tracking_build : z -> bool

type op =
| SetLevel of z
| Malloc of z list option * z * z * z
| Calloc of z list option * z * z * z * z
| Realloc of z list option * z * z * z * z
| Strdup of z list option * z * z list option * z
| Free of z
| MMalloc of z list * z * z * z
| MCalloc of z list * z * z * z * z
| MRealloc of z list * z * z * z * z
| MStrdup of z list * z * z list option * z
| MFree of z
| Foreign of z * z
| Dump

type outcome =
| RetPtr of z
| RetVoid
| Dumped of z * z

val step : z -> st -> op -> (outcome * st) res

val run : z -> st -> op list -> ((outcome * z) list * st) res

val init_state : z -> st

type info = (z * z list) * z

type smap = (z * info) list

val sm_lookup : z -> smap -> info option

val sm_delete : z -> smap -> smap

val sm_insert : z -> info -> smap -> smap

val file20 : z list option -> z list

type spec_st = { sp_map : smap; sp_foreign : heap }

val spec_alloc : spec_st -> z list option -> z -> z -> z -> spec_st

val spec_free : spec_st -> z -> spec_st

val spec_realloc : spec_st -> z list option -> z -> z -> z -> z -> spec_st

val spec_step : spec_st -> op -> spec_st

val spec_run : op list -> spec_st

val freshb : heap -> z -> bool

val valid_opb : heap -> op -> bool

val sane_script : z -> st -> op list -> bool
