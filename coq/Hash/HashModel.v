(* Executable model of src/builtin_hashes.c (property C18): spifhash_jenkins, spifhash_jenkins32,
   spifhash_jenkinsLE, spifhash_rotating, spifhash_one_at_a_time, spifhash_fnv, as written.

   The key is a `buf` starting at the pointer the C function receives and extending to the end of
   the enclosing object; every key access is a checked read, so "reads exactly the stated number
   of key bytes" is "returns Ok on a buffer of exactly that many cells, and the same value on any
   longer buffer".  spif_uint32_t arithmetic is explicit (mod 2^32) on Z.

   Everything that is a constant or a table in the source comes from generated files:
   Gen/Constants.v (mix steps, seeds, shift amounts of the one-loop hashes) and Gen/HashGen.v
   (block-loop test / loads / advance / decrement, tail-switch entries, alignment mask, word
   loads), both re-derived from the source tree on every run.  This file contains no proofs. *)
From LV Require Export Base.Buf.
From LV Require Export Gen.Constants Gen.HashGen.
Local Open Scope Z_scope.

(* ---- spif_uint32_t arithmetic ---- *)
Definition W32 : Z := 4294967296.
(* conversion to spif_uint32_t: keep the low 32 bits (= x mod 2^32, also for negative x;
   HashProofs.wrap32_mod).  Written with land because the extracted model evaluates it about
   25 times per key byte and binary division on Z is ten times slower. *)
Definition wrap32 (x : Z) : Z := Z.land x 4294967295.
Definition add32 (a b : Z) : Z := wrap32 (a + b).
Definition sub32 (a b : Z) : Z := wrap32 (a - b).
Definition shl32 (a n : Z) : Z := wrap32 (Z.shiftl a n).
Definition shr32 (a n : Z) : Z := Z.shiftr a n.
Definition xor32 (a b : Z) : Z := Z.lxor a b.

(* ---- the three registers a, b, c ---- *)
Definition regs : Type := (Z * Z * Z)%type.
Definition getr (r : reg) (s : regs) : Z :=
  let '(a, b, c) := s in match r with RA => a | RB => b | RC => c end.
Definition setr (r : reg) (v : Z) (s : regs) : regs :=
  let '(a, b, c) := s in match r with RA => (v, b, c) | RB => (a, v, c) | RC => (a, b, v) end.
(* r += v *)
Definition addr (r : reg) (v : Z) (s : regs) : regs := setr r (add32 (getr r s) v) s.

(* ---- SPIFHASH_JENKINS_MIX, interpreted from the generated step list ----
   one step (t, m1, m2, x, left, n) is   t -= m1; t -= m2; t ^= (x << n)  or  (x >> n)  *)
Definition mix_step (st : reg * reg * reg * reg * bool * Z) (s : regs) : regs :=
  let '(t, m1, m2, x, shl, n) := st in
  let s := setr t (sub32 (getr t s) (getr m1 s)) s in
  let s := setr t (sub32 (getr t s) (getr m2 s)) s in
  setr t (xor32 (getr t s) (if shl then shl32 (getr x s) n else shr32 (getr x s) n)) s.
Definition mix (s : regs) : regs := fold_left (fun s st => mix_step st s) jenkins_mix_steps s.

(* ---- byte-wise block:  r += (key[i0] + ((spif_uint32_t) key[i1] << s1) + ...)  ---- *)
Fixpoint lane_sum (key : buf) (lanes : list (Z * Z)) (acc : Z) : res Z :=
  match lanes with
  | [] => Ok acc
  | (i, sh) :: rest => v <- rd key i ;; lane_sum key rest (add32 acc (shl32 v sh))
  end.
Fixpoint load_block (key : buf) (loads : list (reg * list (Z * Z))) (s : regs) : res regs :=
  match loads with
  | [] => Ok s
  | (r, lanes) :: rest => v <- lane_sum key lanes 0 ;; load_block key rest (addr r v s)
  end.

(* while (len >= test) { loads; MIX; key += adv; len -= dec; }   -- result: (key, len, registers) *)
Fixpoint byte_loop (test : Z) (loads : list (reg * list (Z * Z))) (adv dec : Z)
         (fuel : nat) (key : buf) (len : Z) (s : regs) {struct fuel} : res (buf * Z * regs) :=
  match fuel with
  | O => Fault Out_of_fuel
  | S f =>
    if len >=? test then
      s1 <- load_block key loads s ;;
      byte_loop test loads adv dec f (skipn (Z.to_nat adv) key) (sub32 len dec) (mix s1)
    else Ok (key, len, s)
  end.

(* a 32-bit load on a little-endian host: four checked byte reads *)
Definition rd_word (key : buf) (off : Z) : res Z :=
  b0 <- rd key off ;; b1 <- rd key (off + 1) ;; b2 <- rd key (off + 2) ;; b3 <- rd key (off + 3) ;;
  Ok (b0 + b1 * 256 + b2 * 65536 + b3 * 16777216).

(* word-wise block: r += *(spif_uint32_t * )(key + scale * o) *)
Fixpoint load_words (key : buf) (scale : Z) (loads : list (reg * Z)) (s : regs) : res regs :=
  match loads with
  | [] => Ok s
  | (r, o) :: rest => v <- rd_word key (scale * o) ;; load_words key scale rest (addr r v s)
  end.
Fixpoint word_loop (test : Z) (scale : Z) (loads : list (reg * Z)) (adv dec : Z)
         (fuel : nat) (key : buf) (len : Z) (s : regs) {struct fuel} : res (buf * Z * regs) :=
  match fuel with
  | O => Fault Out_of_fuel
  | S f =>
    if len >=? test then
      s1 <- load_words key scale loads s ;;
      word_loop test scale loads adv dec f (skipn (Z.to_nat (scale * adv)) key) (sub32 len dec) (mix s1)
    else Ok (key, len, s)
  end.

(* switch (len) { case n: ...; case n-1: ...; }  every case falls through: execution starts at the
   entry whose label equals len and runs to the end of the list; no matching label = nothing *)
Fixpoint switch_from {E} (label : E -> Z) (len : Z) (ents : list E) : list E :=
  match ents with
  | [] => []
  | e :: rest => if label e =? len then e :: rest else switch_from label len rest
  end.
(* case _: r += ((spif_uint32_t) key[i] << sh); *)
Fixpoint run_tail (key : buf) (ents : list (Z * reg * Z * Z)) (s : regs) : res regs :=
  match ents with
  | [] => Ok s
  | (_, r, i, sh) :: rest => v <- rd key i ;; run_tail key rest (addr r (shl32 v sh) s)
  end.
(* case _: r += key_dword[i]; *)
Fixpoint run_tail_words (key : buf) (ents : list (Z * reg * Z)) (s : regs) : res regs :=
  match ents with
  | [] => Ok s
  | (_, r, i) :: rest => v <- rd_word key (4 * i) ;; run_tail_words key rest (addr r v s)
  end.

(* the loops run at most length/test + 1 times *)
Definition fuel_for (length : Z) : nat := S (Z.to_nat length).

(* ---- spifhash_jenkins (builtin_hashes.c:57) ---- *)
Definition jenkins (key : buf) (length seed : Z) : res Z :=
  let s0 := (builtin_random_seed, builtin_random_seed, seed) in
  '(key1, len1, s1) <- byte_loop jenkins_test jenkins_loads jenkins_advance jenkins_dec
                                 (fuel_for length) key length s0 ;;
  let s2 := addr RC length s1 in
  s3 <- run_tail key1 (switch_from (fun e => let '(n, _, _, _) := e in n) len1 jenkins_tail) s2 ;;
  Ok (getr RC (mix s3)).

(* ---- spifhash_jenkins32 (builtin_hashes.c:118): length counts 32-bit words ---- *)
Definition jenkins32 (key : buf) (length seed : Z) : res Z :=
  let s0 := (builtin_random_seed, builtin_random_seed, seed) in
  '(key1, len1, s1) <- word_loop jenkins32_test 4 jenkins32_loads jenkins32_advance jenkins32_dec
                                 (fuel_for length) key length s0 ;;
  let s2 := addr RC length s1 in
  s3 <- run_tail_words key1 (switch_from (fun e => let '(n, _, _) := e in n) len1 jenkins32_tail) s2 ;;
  Ok (getr RC (mix s3)).

(* ---- spifhash_jenkinsLE (builtin_hashes.c:169): addr is the key pointer as an integer ---- *)
Definition jenkinsLE (addr_ : Z) (key : buf) (length seed : Z) : res Z :=
  let s0 := (builtin_random_seed, builtin_random_seed, seed) in
  '(key1, len1, s1) <-
     (if Z.land (wrap32 addr_) jenkinsLE_align_mask =? 0
      then word_loop jenkinsLE_aligned_test 1 jenkinsLE_aligned_loads jenkinsLE_aligned_advance
                     jenkinsLE_aligned_dec (fuel_for length) key length s0
      else byte_loop jenkinsLE_test jenkinsLE_loads jenkinsLE_advance jenkinsLE_dec
                     (fuel_for length) key length s0) ;;
  let s2 := addr RC length s1 in
  s3 <- run_tail key1 (switch_from (fun e => let '(n, _, _, _) := e in n) len1 jenkinsLE_tail) s2 ;;
  Ok (getr RC (mix s3)).

(* ---- spifhash_rotating (builtin_hashes.c:274) ---- *)
Definition rot_step (hash b : Z) : Z :=
  let '(s1, s2, _, _) := rotating_shifts in xor32 (xor32 (shl32 hash s1) (shr32 hash s2)) b.
Definition rot_final (hash : Z) : Z :=
  let '(_, _, s3, s4) := rotating_shifts in xor32 (xor32 hash (shr32 hash s3)) (shr32 hash s4).
(* for (i = 0; i < len; i++) hash = step hash key[i];   n = len - i iterations remain *)
Fixpoint index_loop (step : Z -> Z -> Z) (n : nat) (key : buf) (i : Z) (hash : Z) : res Z :=
  match n with
  | O => Ok hash
  | S n' => b <- rd key i ;; index_loop step n' key (i + 1) (step hash b)
  end.
Definition rotating (key : buf) (len seed : Z) : res Z :=
  let seed := if seed =? 0 then builtin_random_seed else seed in
  h <- index_loop rot_step (Z.to_nat len) key 0 seed ;;
  Ok (rot_final h).

(* ---- spifhash_one_at_a_time (builtin_hashes.c:302) ---- *)
Definition oaat_step (hash b : Z) : Z :=
  let '(s1, s2, _, _, _) := oaat_shifts in
  let hash := add32 hash b in
  let hash := add32 hash (shl32 hash s1) in
  xor32 hash (shr32 hash s2).
Definition oaat_final (hash : Z) : Z :=
  let '(_, _, s3, s4, s5) := oaat_shifts in
  let hash := add32 hash (shl32 hash s3) in
  let hash := xor32 hash (shr32 hash s4) in
  add32 hash (shl32 hash s5).
Definition one_at_a_time (key : buf) (len seed : Z) : res Z :=
  let seed := if seed =? 0 then builtin_random_seed else seed in
  h <- index_loop oaat_step (Z.to_nat len) key 0 seed ;;
  Ok (oaat_final h).

(* ---- spifhash_fnv (builtin_hashes.c:336), the __GNUC__ branch ----
   hash ^= *key;  hash += (hash << k1) + (hash << k2) + ...; *)
Definition fnv_mul (hash : Z) : Z :=
  add32 hash (fold_left (fun acc k => add32 acc (shl32 hash k)) fnv_shifts 0).
Definition fnv_step (hash b : Z) : Z := fnv_mul (xor32 hash b).
(* for (hash = seed; key < key_end; key++)   n = key_end - key iterations remain *)
Fixpoint ptr_loop (step : Z -> Z -> Z) (n : nat) (key : buf) (hash : Z) : res Z :=
  match n with
  | O => Ok hash
  | S n' => b <- rd key 0 ;; ptr_loop step n' (skipn 1 key) (step hash b)
  end.
Definition fnv (key : buf) (len seed : Z) : res Z :=
  let seed := if seed =? 0 then fnv_init else seed in
  ptr_loop fnv_step (Z.to_nat len) key seed.
