(* Reference definitions of the six built-in hashes (property C18), over lists of byte values,
   independent of the model and of the generated constants: written with folds, block
   splitting, multiplication / division by powers of two and literal constants.

   - lookup2 / hash2: Bob Jenkins, "Hash functions", Dr. Dobb's Journal, September 1997 (lookup2.c:
     hash() and hash2()).  The published code initialises a and b with the golden ratio
     0x9e3779b9 ("an arbitrary value"); libast initialises them with BUILTIN_RANDOM_SEED =
     0xf721b64d.  The reference below takes that value as `golden`; `libast_seed` is the
     literal that stored libast hash values depend on.
   - rotating hash and one-at-a-time hash: same article; libast's variants start from the seed
     (instead of len / 0) and the rotating hash ends with the power-of-two-table finalisation
     hash ^ (hash >> 10) ^ (hash >> 20).
   - FNV-1a, 32 bit: h <- ((h xor b) * 16777619) mod 2^32, offset basis 2166136261
     (Fowler / Noll / Vo).
   No proofs in this file; it is extracted together with the model. *)
From Coq Require Import ZArith List.
Import ListNotations.
Local Open Scope Z_scope.

Definition M32 : Z := 2 ^ 32.
Definition libast_seed : Z := 4146181709.        (* 0xf721b64d *)
Definition fnv_offset_basis : Z := 2166136261.   (* 0x811c9dc5 *)
Definition fnv_32_prime : Z := 16777619.         (* 0x01000193 *)

(* ---- lookup2 mix: nine rows, each  x -= y; x -= z; x ^= (z >> k)  or  (z << k) ---- *)
Definition rowR (x y z k : Z) : Z := Z.lxor ((x - y - z) mod M32) (z / 2 ^ k).
Definition rowL (x y z k : Z) : Z := Z.lxor ((x - y - z) mod M32) ((z * 2 ^ k) mod M32).
(* a -= b; a -= c; a ^= (c >> k) *)
Definition mixA (k : Z) (s : Z * Z * Z) : Z * Z * Z := let '(a, b, c) := s in (rowR a b c k, b, c).
(* b -= c; b -= a; b ^= (a << k) *)
Definition mixB (k : Z) (s : Z * Z * Z) : Z * Z * Z := let '(a, b, c) := s in (a, rowL b c a k, c).
(* c -= a; c -= b; c ^= (b >> k) *)
Definition mixC (k : Z) (s : Z * Z * Z) : Z * Z * Z := let '(a, b, c) := s in (a, b, rowR c a b k).
(* lookup2.c:  mix(a,b,c):  >>13 <<8 >>13   >>12 <<16 >>5   >>3 <<10 >>15 *)
Definition lookup2_mix (s : Z * Z * Z) : Z * Z * Z :=
  let s := mixC 13 (mixB 8 (mixA 13 s)) in
  let s := mixC 5 (mixB 16 (mixA 12 s)) in
  mixC 15 (mixB 10 (mixA 3 s)).

(* little-endian value of a byte string *)
Definition le_word (bs : list Z) : Z := fold_right (fun b acc => b + 256 * acc) 0 bs.
(* n consecutive chunks of m elements *)
Fixpoint chunks {A} (m n : nat) (l : list A) : list (list A) :=
  match n with
  | O => []
  | S n' => firstn m l :: chunks m n' (skipn m l)
  end.
Definition sub {A} (l : list A) (i n : nat) : list A := firstn n (skipn i l).
Definition third (s : Z * Z * Z) : Z := let '(_, _, c) := s in c.

(* hash(): every full 12-byte block adds three little-endian words and mixes; the remaining
   0..11 bytes are added the same way except that the lowest byte of c is reserved for the
   length (the tail bytes 8..10 enter c shifted up by one byte), then a last mix; c is returned *)
Definition lookup2_block (s : Z * Z * Z) (blk : list Z) : Z * Z * Z :=
  let '(a, b, c) := s in
  lookup2_mix ((a + le_word (sub blk 0 4)) mod M32,
               (b + le_word (sub blk 4 4)) mod M32,
               (c + le_word (sub blk 8 4)) mod M32).
Definition lookup2 (golden : Z) (k : list Z) (initval : Z) : Z :=
  let n := length k in
  let nb := (n / 12)%nat in
  let '(a, b, c) := fold_left lookup2_block (chunks 12 nb k) (golden, golden, initval) in
  let t := skipn (12 * nb) k in
  third (lookup2_mix ((a + le_word (sub t 0 4)) mod M32,
                      (b + le_word (sub t 4 4)) mod M32,
                      (c + (Z.of_nat n + 256 * le_word (sub t 8 3))) mod M32)).

(* hash2(): the key is an array of 32-bit words, the length counts words *)
Definition hash2_block (s : Z * Z * Z) (blk : list Z) : Z * Z * Z :=
  let '(a, b, c) := s in
  lookup2_mix ((a + nth 0 blk 0) mod M32, (b + nth 1 blk 0) mod M32, (c + nth 2 blk 0) mod M32).
Definition hash2 (golden : Z) (k : list Z) (initval : Z) : Z :=
  let n := length k in
  let nb := (n / 3)%nat in
  let '(a, b, c) := fold_left hash2_block (chunks 3 nb k) (golden, golden, initval) in
  let t := skipn (3 * nb) k in
  third (lookup2_mix ((a + nth 0 t 0) mod M32, (b + nth 1 t 0) mod M32, (c + Z.of_nat n) mod M32)).
(* the memory image of a word array on a little-endian host, and back *)
Definition le_bytes (w : Z) : list Z := [w mod 256; (w / 256) mod 256; (w / 65536) mod 256; (w / 16777216) mod 256].
Definition words_of_bytes (bs : list Z) : list Z := map le_word (chunks 4 (length bs / 4) bs).

(* ---- rotating hash: rotate left by 4, xor the byte in ---- *)
Definition rotl32 (h k : Z) : Z := (h * 2 ^ k) mod M32 + h / 2 ^ (32 - k).
Definition rotating_ref (k : list Z) (seed : Z) : Z :=
  let h := fold_left (fun h b => Z.lxor (rotl32 h 4) b) k seed in
  Z.lxor (Z.lxor h (h / 2 ^ 10)) (h / 2 ^ 20).

(* ---- one-at-a-time: h += b; h += h << 10; h ^= h >> 6;  finally h += h << 3; h ^= h >> 11; h += h << 15
   (x += x << n is multiplication by 2^n + 1) ---- *)
Definition oaat_ref (k : list Z) (seed : Z) : Z :=
  let h := fold_left (fun h b => let h := ((h + b) * 1025) mod M32 in Z.lxor h (h / 64)) k seed in
  let h := (h * 9) mod M32 in
  let h := Z.lxor h (h / 2048) in
  (h * 32769) mod M32.

(* ---- FNV-1a ---- *)
Definition fnv1a_ref (k : list Z) (seed : Z) : Z :=
  fold_left (fun h b => (Z.lxor h b * fnv_32_prime) mod M32) k seed.

(* libast's seed handling: rotating and one-at-a-time replace a zero seed by BUILTIN_RANDOM_SEED,
   FNV by the FNV-1a offset basis; the Jenkins family uses the seed as given *)
Definition nz_seed (dflt seed : Z) : Z := if seed =? 0 then dflt else seed.
Definition spec_jenkins (k : list Z) (seed : Z) : Z := lookup2 libast_seed k seed.
Definition spec_jenkins32 (ws : list Z) (seed : Z) : Z := hash2 libast_seed ws seed.
Definition spec_rotating (k : list Z) (seed : Z) : Z := rotating_ref k (nz_seed libast_seed seed).
Definition spec_oaat (k : list Z) (seed : Z) : Z := oaat_ref k (nz_seed libast_seed seed).
Definition spec_fnv (k : list Z) (seed : Z) : Z := fnv1a_ref k (nz_seed fnv_offset_basis seed).
