(* Proofs for property C18: the model of src/builtin_hashes.c (HashModel.v) against the reference
   definitions (HashSpec.v). *)
From LV Require Import Base.Buf Hash.HashModel Hash.HashSpec.
Local Open Scope Z_scope.

(* ------------------------------------------------------------------------------------------ *)
(* 32-bit arithmetic *)
Lemma W32_M32 : W32 = M32. Proof. reflexivity. Qed.

Lemma wrap32_mod x : wrap32 x = x mod W32.
Proof. unfold wrap32. change 4294967295 with (Z.ones 32). rewrite Z.land_ones by lia. reflexivity. Qed.

Lemma mix_step_A n s : 0 <= n -> mix_step (RA, RB, RC, RC, false, n) s = mixA n s.
Proof.
  intros Hn. destruct s as [[a b] c]. cbv [mix_step getr setr mixA rowR xor32 sub32 shr32].
  rewrite !wrap32_mod, Z.shiftr_div_pow2, Zminus_mod_idemp_l by lia. reflexivity.
Qed.
Lemma mix_step_B n s : 0 <= n -> mix_step (RB, RC, RA, RA, true, n) s = mixB n s.
Proof.
  intros Hn. destruct s as [[a b] c]. cbv [mix_step getr setr mixB rowL xor32 sub32 shl32].
  rewrite !wrap32_mod, Z.shiftl_mul_pow2, Zminus_mod_idemp_l by lia. reflexivity.
Qed.
Lemma mix_step_C n s : 0 <= n -> mix_step (RC, RA, RB, RB, false, n) s = mixC n s.
Proof.
  intros Hn. destruct s as [[a b] c]. cbv [mix_step getr setr mixC rowR xor32 sub32 shr32].
  rewrite !wrap32_mod, Z.shiftr_div_pow2, Zminus_mod_idemp_l by lia. reflexivity.
Qed.

Theorem mix_is_lookup2_mix : forall s, mix s = lookup2_mix s.
Proof.
  intros s. unfold mix, jenkins_mix_steps, lookup2_mix. cbn [fold_left].
  rewrite !mix_step_A, !mix_step_B, !mix_step_C by lia. reflexivity.
Qed.

(* ------------------------------------------------------------------------------------------ *)
(* lists: chunks *)
Lemma chunks_length {A} m n (l : list A) : length (chunks m n l) = n.
Proof. revert l; induction n as [|n IH]; intros l; simpl; auto. Qed.

Lemma skipn_add {A} a b (l : list A) : skipn (a + b) l = skipn b (skipn a l).
Proof.
  revert l; induction a as [|a IH]; intros l; simpl; [reflexivity|].
  destruct l as [|x l]; [now rewrite skipn_nil | apply IH].
Qed.

Lemma chunks_concat {A} m n (l : list A) :
  (m * n <= length l)%nat -> concat (chunks m n l) ++ skipn (m * n) l = l.
Proof.
  revert l; induction n as [|n IH]; intros l H; simpl.
  - rewrite Nat.mul_0_r. reflexivity.
  - rewrite <- app_assoc. replace (m * S n)%nat with (m + m * n)%nat by lia.
    rewrite skipn_add. rewrite IH.
    + apply firstn_skipn.
    + rewrite skipn_length. lia.
Qed.

Lemma chunks_all_length {A} m n (l : list A) :
  (m * n <= length l)%nat -> Forall (fun c => length c = m) (chunks m n l).
Proof.
  revert l; induction n as [|n IH]; intros l H; simpl; constructor.
  - apply firstn_length_le. lia.
  - apply IH. rewrite skipn_length. lia.
Qed.

Lemma div_mul_le a b : (b <> 0 -> b * (a / b) <= a)%nat.
Proof. intros. apply Nat.mul_div_le; auto. Qed.

Lemma tail_len a b : (b <> 0 -> a - b * (a / b) < b)%nat.
Proof.
  intros Hb. pose proof (Nat.div_mod a b Hb). pose proof (Nat.mod_upper_bound a b Hb). lia.
Qed.

(* ------------------------------------------------------------------------------------------ *)
(* spifhash_jenkins = lookup2 hash() *)
(* congruence normalisation: everything to `_ mod W32`, mods pushed outwards *)
Lemma add32_mod a b : add32 a b = (a + b) mod W32.
Proof. apply wrap32_mod. Qed.
Lemma shl32_mod a n : 0 <= n -> shl32 a n = (a * 2 ^ n) mod W32.
Proof. intros. unfold shl32. now rewrite wrap32_mod, Z.shiftl_mul_pow2. Qed.

Definition u32 (x : Z) : Prop := 0 <= x < W32.
Ltac pow_lits :=
  change (2 ^ 0) with 1 in *; change (2 ^ 8) with 256 in *; change (2 ^ 16) with 65536 in *;
  change (2 ^ 24) with 16777216 in *.
Ltac norm32 :=
  rewrite ?add32_mod; rewrite ?shl32_mod by lia;
  change M32 with W32; unfold le_word; cbn [fold_right]; pow_lits; unfold u32, W32 in *;
  Z.div_mod_to_equations; lia.

(* one block of spifhash_jenkins *)
Lemma jenkins_load_block b0 b1 b2 b3 b4 b5 b6 b7 b8 b9 b10 b11 T a b c :
  load_block (Some b0 :: Some b1 :: Some b2 :: Some b3 :: Some b4 :: Some b5 :: Some b6 :: Some b7 ::
              Some b8 :: Some b9 :: Some b10 :: Some b11 :: T) jenkins_loads (a, b, c) =
  Ok ((a + le_word [b0; b1; b2; b3]) mod M32, (b + le_word [b4; b5; b6; b7]) mod M32,
      (c + le_word [b8; b9; b10; b11]) mod M32).
Proof.
  cbv [load_block jenkins_loads lane_sum rd rdn Z.ltb Z.compare Z.to_nat Pos.to_nat Pos.iter_op Nat.add nth_error bind addr setr getr].
  f_equal. f_equal; [f_equal|]; norm32.
Qed.

(* ---- values stay 32-bit ---- *)
Definition in32 (s : Z * Z * Z) : Prop := let '(a, b, c) := s in u32 a /\ u32 b /\ u32 c.

Lemma mod_u32 x : u32 (x mod W32).
Proof. apply Z.mod_pos_bound. reflexivity. Qed.

Lemma testbit_high a n : u32 a -> 32 <= n -> Z.testbit a n = false.
Proof.
  unfold u32. intros Ha Hn. destruct (Z.eq_dec a 0) as [->|Hnz]; [apply Z.bits_0|].
  apply Z.bits_above_log2; [lia|].
  assert (Z.log2 a < 32) by (apply Z.log2_lt_pow2; [lia | exact (proj2 Ha)]). lia.
Qed.

Lemma lxor_u32 a b : u32 a -> u32 b -> u32 (Z.lxor a b).
Proof.
  intros Ha Hb.
  assert (E : Z.lxor a b = Z.lxor a b mod 2 ^ 32).
  { apply Z.bits_inj'. intros n Hn. destruct (Z.lt_ge_cases n 32) as [Hlt|Hge].
    - now rewrite Z.mod_pow2_bits_low.
    - rewrite Z.mod_pow2_bits_high by lia. rewrite Z.lxor_spec, !testbit_high by assumption. reflexivity. }
  rewrite E. apply Z.mod_pos_bound. reflexivity.
Qed.

Lemma div_pow2_u32 z k : 0 <= k -> u32 z -> u32 (z / 2 ^ k).
Proof.
  unfold u32. intros Hk Hz. assert (0 < 2 ^ k) by (apply Z.pow_pos_nonneg; lia). split.
  - apply Z.div_pos; lia.
  - apply Z.div_lt_upper_bound; nia.
Qed.

Lemma rowR_u32 x y z k : 0 <= k -> u32 z -> u32 (rowR x y z k).
Proof. intros. apply lxor_u32; [apply mod_u32 | now apply div_pow2_u32]. Qed.
Lemma rowL_u32 x y z k : u32 (rowL x y z k).
Proof. apply lxor_u32; apply mod_u32. Qed.

Lemma lookup2_mix_in32 s : in32 s -> in32 (lookup2_mix s).
Proof.
  destruct s as [[a b] c]. intros (Ha & Hb & Hc). unfold lookup2_mix.
  cbv [mixA mixB mixC in32].
  repeat match goal with
         | |- _ /\ _ => split
         | |- u32 (rowR _ _ _ _) => apply rowR_u32; [lia|]
         | |- u32 (rowL _ _ _ _) => apply rowL_u32
         | |- u32 _ => assumption
         end.
Qed.

Ltac compute_model :=
  cbv [sub firstn skipn length bytes map app Z.of_nat Pos.of_succ_nat Pos.succ switch_from jenkins_tail jenkinsLE_tail
       Z.eqb Pos.eqb run_tail load_block jenkins_loads jenkinsLE_loads lane_sum
       rd rdn Z.ltb Z.compare Z.to_nat Pos.to_nat Pos.iter_op Nat.add nth_error bind addr setr getr].

Lemma jenkins_tail_spec t rest L a b c :
  (length t < 12)%nat -> u32 a -> u32 b ->
  run_tail (bytes t ++ rest)
           (switch_from (fun e => let '(n, _, _, _) := e in n) (Z.of_nat (length t)) jenkins_tail)
           (addr RC L (a, b, c)) =
  Ok ((a + le_word (sub t 0 4)) mod M32, (b + le_word (sub t 4 4)) mod M32,
      (c + (L + 256 * le_word (sub t 8 3))) mod M32).
Proof.
  intros H Ha Hb. unfold u32 in *.
  do 12 (destruct t as [|? t]; [ compute_model; f_equal; f_equal; [f_equal|]; norm32 | ]).
  simpl in H; lia.
Qed.

(* from here on the two mix functions are only used through mix_is_lookup2_mix and
   lookup2_mix_in32: unfolding them on symbolic registers is exponential (nine rows, each
   mentioning the previous values three times) *)
Global Opaque lookup2_mix mix.

Lemma lookup2_block_in32 s blk : in32 (lookup2_block s blk).
Proof.
  destruct s as [[a b] c]. unfold lookup2_block. apply lookup2_mix_in32.
  change M32 with W32. cbv [in32]. repeat split; apply mod_u32.
Qed.

Lemma fold_blocks_in32 blks s : in32 s -> in32 (fold_left lookup2_block blks s).
Proof.
  revert s; induction blks as [|blk blks IH]; intros s Hs; cbn [fold_left]; [assumption|].
  apply IH, lookup2_block_in32.
Qed.

Lemma sub32_small len d : 0 <= d <= len -> len < W32 -> sub32 len d = len - d.
Proof. intros. unfold sub32. rewrite wrap32_mod. apply Z.mod_small. lia. Qed.

Lemma fold_left_cons {A B} (f : A -> B -> A) x l a : fold_left f (x :: l) a = fold_left f l (f a x).
Proof. reflexivity. Qed.

Lemma lookup2_block_explicit a b c b0 b1 b2 b3 b4 b5 b6 b7 b8 b9 b10 b11 :
  lookup2_block (a, b, c) [b0; b1; b2; b3; b4; b5; b6; b7; b8; b9; b10; b11] =
  lookup2_mix ((a + le_word [b0; b1; b2; b3]) mod M32, (b + le_word [b4; b5; b6; b7]) mod M32,
               (c + le_word [b8; b9; b10; b11]) mod M32).
Proof. unfold lookup2_block, sub. cbn [firstn skipn]. reflexivity. Qed.

Lemma jenkins_loop_spec : forall blks t rest fuel s len,
  Forall (fun b => length b = 12%nat) blks ->
  (length t < 12)%nat -> (length blks < fuel)%nat ->
  len = 12 * Z.of_nat (length blks) + Z.of_nat (length t) -> len < W32 ->
  byte_loop jenkins_test jenkins_loads jenkins_advance jenkins_dec fuel
            (bytes (concat blks ++ t) ++ rest) len s
  = Ok (bytes t ++ rest, Z.of_nat (length t), fold_left lookup2_block blks s).
Proof.
  induction blks as [|blk blks IH]; intros t rest fuel s len Hall Ht Hfuel Hlen Hw.
  - destruct fuel as [|f]; [simpl in Hfuel; lia|]. simpl in Hlen.
    cbn [byte_loop concat app fold_left]. unfold jenkins_test.
    destruct (len >=? 12) eqn:E; [apply Z.geb_le in E; lia|]. subst len. reflexivity.
  - pose proof (Forall_inv Hall) as Hb; pose proof (Forall_inv_tail Hall) as Hall'. cbn beta in Hb.
    destruct fuel as [|f]; [simpl in Hfuel; lia|].
    do 12 (destruct blk as [|? blk]; [simpl in Hb; discriminate|]).
    destruct blk; [|simpl in Hb; discriminate].
    cbn [length] in Hlen, Hfuel.
    cbn [concat app bytes map byte_loop]. unfold jenkins_test.
    destruct (len >=? 12) eqn:E; [|rewrite Z.geb_leb in E; apply Z.leb_gt in E; lia].
    destruct s as [[a b] c]. rewrite jenkins_load_block. cbn [bind].
    change (Z.to_nat jenkins_advance) with 12%nat. cbn [skipn].
    rewrite mix_is_lookup2_mix. unfold jenkins_dec. rewrite sub32_small by lia.
    change (map Some (concat blks ++ t)) with (bytes (concat blks ++ t)).
    rewrite (IH t rest f _ (len - 12)) by (auto; lia).
    rewrite fold_left_cons, lookup2_block_explicit. reflexivity.
Qed.

Lemma bind_Ok {A B} (a : A) (k : A -> res B) : bind (Ok a) k = k a.
Proof. reflexivity. Qed.
Lemma getr_RC_third s : getr RC s = third s.
Proof. destruct s as [[a b] c]. reflexivity. Qed.

Lemma concat_length_blocks {A} m (blks : list (list A)) :
  Forall (fun b => length b = m) blks -> length (concat blks) = (m * length blks)%nat.
Proof.
  induction 1 as [|x l Hx Hl IH]; cbn [concat length]; [lia|]. rewrite app_length, IH, Hx. lia.
Qed.

(* the reference with the key already split *)
Definition lookup2_split (golden : Z) (blks : list (list Z)) (t : list Z) (L initval : Z) : Z :=
  let '(a, b, c) := fold_left lookup2_block blks (golden, golden, initval) in
  third (lookup2_mix ((a + le_word (sub t 0 4)) mod M32,
                      (b + le_word (sub t 4 4)) mod M32,
                      (c + (L + 256 * le_word (sub t 8 3))) mod M32)).

Lemma u32_seed : u32 builtin_random_seed.
Proof. unfold u32, W32, builtin_random_seed. lia. Qed.

Lemma jenkins_blocks_tail blks t rest seed :
  Forall (fun b => length b = 12%nat) blks -> (length t < 12)%nat ->
  Z.of_nat (length (concat blks ++ t)) < W32 -> u32 seed ->
  jenkins (bytes (concat blks ++ t) ++ rest) (Z.of_nat (length (concat blks ++ t))) seed =
  Ok (lookup2_split builtin_random_seed blks t (Z.of_nat (length (concat blks ++ t))) seed).
Proof.
  intros Hall Ht Hlen Hseed. unfold jenkins, lookup2_split.
  set (L := Z.of_nat (length (concat blks ++ t))) in *.
  assert (HL : L = 12 * Z.of_nat (length blks) + Z.of_nat (length t)).
  { unfold L. rewrite app_length, (concat_length_blocks 12) by assumption. lia. }
  rewrite (jenkins_loop_spec blks t rest (fuel_for L) _ L Hall Ht); [| unfold fuel_for; lia | exact HL | exact Hlen].
  rewrite bind_Ok. cbv beta iota.
  pose proof (fold_blocks_in32 blks (builtin_random_seed, builtin_random_seed, seed)) as Hin.
  destruct (fold_left lookup2_block blks (builtin_random_seed, builtin_random_seed, seed)) as [[a b] c].
  destruct Hin as (Ha & Hb & _). { repeat split; try apply u32_seed; apply Hseed. }
  rewrite jenkins_tail_spec by assumption. rewrite bind_Ok.
  rewrite mix_is_lookup2_mix, getr_RC_third. reflexivity.
Qed.

Theorem jenkins_equals_lookup2 k rest seed :
  Z.of_nat (length k) < W32 -> u32 seed ->
  jenkins (bytes k ++ rest) (Z.of_nat (length k)) seed = Ok (lookup2 builtin_random_seed k seed).
Proof.
  intros Hlen Hseed.
  set (nb := (length k / 12)%nat).
  assert (Hle : (12 * nb <= length k)%nat) by (apply div_mul_le; lia).
  pose proof (chunks_concat 12 nb k Hle) as E.
  assert (R : lookup2 builtin_random_seed k seed =
              lookup2_split builtin_random_seed (chunks 12 nb k) (skipn (12 * nb) k) (Z.of_nat (length k)) seed)
    by reflexivity.
  rewrite R. clear R.
  assert (G : forall k', k' = k ->
              jenkins (bytes k' ++ rest) (Z.of_nat (length k')) seed =
              Ok (lookup2_split builtin_random_seed (chunks 12 nb k) (skipn (12 * nb) k)
                                (Z.of_nat (length k')) seed)).
  { intros k' Ek'. rewrite <- E in Ek'. subst k'. apply jenkins_blocks_tail; auto.
    - apply chunks_all_length; exact Hle.
    - rewrite skipn_length. apply tail_len. lia.
    - rewrite E. exact Hlen. }
  apply G. reflexivity.
Qed.

(* ------------------------------------------------------------------------------------------ *)
(* spifhash_jenkinsLE: the aligned word loop computes what the byte loop computes, on every
   buffer (faults included: both read cells 0..11 in the same order) *)
Lemma load_words_eq_block key s :
  load_words key 1 jenkinsLE_aligned_loads s = load_block key jenkinsLE_loads s.
Proof.
  destruct s as [[a b] c].
  cbv [load_words load_block jenkinsLE_aligned_loads jenkinsLE_loads lane_sum rd_word bind].
  change (1 * 0) with 0. change (1 * 4) with 4. change (1 * 8) with 8.
  change (0 + 1) with 1. change (0 + 2) with 2. change (0 + 3) with 3.
  change (4 + 1) with 5. change (4 + 2) with 6. change (4 + 3) with 7.
  change (8 + 1) with 9. change (8 + 2) with 10. change (8 + 3) with 11.
  destruct (rd key 0) as [v0|]; [|reflexivity]. destruct (rd key 1) as [v1|]; [|reflexivity].
  destruct (rd key 2) as [v2|]; [|reflexivity]. destruct (rd key 3) as [v3|]; [|reflexivity].
  destruct (rd key 4) as [v4|]; [|reflexivity]. destruct (rd key 5) as [v5|]; [|reflexivity].
  destruct (rd key 6) as [v6|]; [|reflexivity]. destruct (rd key 7) as [v7|]; [|reflexivity].
  destruct (rd key 8) as [v8|]; [|reflexivity]. destruct (rd key 9) as [v9|]; [|reflexivity].
  destruct (rd key 10) as [v10|]; [|reflexivity]. destruct (rd key 11) as [v11|]; [|reflexivity].
  cbv [addr setr getr]. f_equal. f_equal; [f_equal|]; norm32.
Qed.

Lemma word_loop_eq_byte_loop fuel : forall key len s,
  word_loop jenkinsLE_aligned_test 1 jenkinsLE_aligned_loads jenkinsLE_aligned_advance
            jenkinsLE_aligned_dec fuel key len s =
  byte_loop jenkinsLE_test jenkinsLE_loads jenkinsLE_advance jenkinsLE_dec fuel key len s.
Proof.
  induction fuel as [|f IH]; intros key len s; [reflexivity|].
  cbn [word_loop byte_loop].
  change jenkinsLE_aligned_test with jenkinsLE_test.
  destruct (len >=? jenkinsLE_test); [|reflexivity].
  rewrite load_words_eq_block.
  destruct (load_block key jenkinsLE_loads s) as [s1|]; [|reflexivity].
  rewrite !bind_Ok.
  change (1 * jenkinsLE_aligned_advance) with jenkinsLE_advance.
  change jenkinsLE_aligned_dec with jenkinsLE_dec.
  apply IH.
Qed.

Theorem jenkinsLE_equals_jenkins : forall addr_ key length seed,
  jenkinsLE addr_ key length seed = jenkins key length seed.
Proof.
  intros. unfold jenkinsLE, jenkins.
  destruct (Z.land (wrap32 addr_) jenkinsLE_align_mask =? 0); [rewrite word_loop_eq_byte_loop|];
    change jenkinsLE_test with jenkins_test; change jenkinsLE_loads with jenkins_loads;
    change jenkinsLE_advance with jenkins_advance; change jenkinsLE_dec with jenkins_dec;
    change jenkinsLE_tail with jenkins_tail; reflexivity.
Qed.

(* ------------------------------------------------------------------------------------------ *)
(* ---- spifhash_jenkins32 = hash2() on the word array whose memory image the key is ---- *)
Lemma le_bytes_congr a w :
  add32 a (w mod 256 + (w / 256) mod 256 * 256 + (w / 65536) mod 256 * 65536 + (w / 16777216) mod 256 * 16777216)
  = (a + w) mod M32.
Proof.
  rewrite add32_mod. change M32 with W32. unfold W32. Z.div_mod_to_equations. lia.
Qed.

Lemma load_words_12 b0 b1 b2 b3 b4 b5 b6 b7 b8 b9 b10 b11 T a b c :
  load_words (Some b0 :: Some b1 :: Some b2 :: Some b3 :: Some b4 :: Some b5 :: Some b6 :: Some b7 ::
              Some b8 :: Some b9 :: Some b10 :: Some b11 :: T) 4 jenkins32_loads (a, b, c) =
  Ok (add32 a (b0 + b1 * 256 + b2 * 65536 + b3 * 16777216),
      add32 b (b4 + b5 * 256 + b6 * 65536 + b7 * 16777216),
      add32 c (b8 + b9 * 256 + b10 * 65536 + b11 * 16777216)).
Proof.
  cbv [load_words jenkins32_loads rd_word].
  change (4 * 0) with 0. change (4 * 1) with 4. change (4 * 2) with 8.
  change (0 + 1) with 1. change (0 + 2) with 2. change (0 + 3) with 3.
  change (4 + 1) with 5. change (4 + 2) with 6. change (4 + 3) with 7.
  change (8 + 1) with 9. change (8 + 2) with 10. change (8 + 3) with 11.
  cbv [rd rdn Z.ltb Z.compare Z.to_nat Pos.to_nat Pos.iter_op Nat.add nth_error bind addr setr getr].
  reflexivity.
Qed.

Definition mem_words (ws : list Z) : buf := bytes (flat_map le_bytes ws).

Lemma mem_words_cons w ws rest :
  mem_words (w :: ws) ++ rest =
  Some (w mod 256) :: Some ((w / 256) mod 256) :: Some ((w / 65536) mod 256) ::
  Some ((w / 16777216) mod 256) :: (mem_words ws ++ rest).
Proof. reflexivity. Qed.

Lemma hash2_block_explicit a b c w0 w1 w2 :
  hash2_block (a, b, c) [w0; w1; w2] =
  lookup2_mix ((a + w0) mod M32, (b + w1) mod M32, (c + w2) mod M32).
Proof. reflexivity. Qed.

Lemma hash2_block_in32 s blk : in32 (hash2_block s blk).
Proof.
  destruct s as [[a b] c]. unfold hash2_block. apply lookup2_mix_in32.
  change M32 with W32. cbv [in32]. repeat split; apply mod_u32.
Qed.
Lemma fold_hash2_in32 blks s : in32 s -> in32 (fold_left hash2_block blks s).
Proof.
  revert s; induction blks as [|blk blks IH]; intros s Hs; [exact Hs|].
  rewrite fold_left_cons. apply IH, hash2_block_in32.
Qed.

Lemma jenkins32_loop_spec : forall wblks wt rest fuel s len,
  Forall (fun b => length b = 3%nat) wblks ->
  (length wt < 3)%nat -> (length wblks < fuel)%nat ->
  len = 3 * Z.of_nat (length wblks) + Z.of_nat (length wt) -> len < W32 ->
  word_loop jenkins32_test 4 jenkins32_loads jenkins32_advance jenkins32_dec fuel
            (mem_words (concat wblks ++ wt) ++ rest) len s
  = Ok (mem_words wt ++ rest, Z.of_nat (length wt), fold_left hash2_block wblks s).
Proof.
  induction wblks as [|blk blks IH]; intros t rest fuel s len Hall Ht Hfuel Hlen Hw.
  - destruct fuel as [|f]; [simpl in Hfuel; lia|]. simpl in Hlen.
    cbn [word_loop concat app fold_left]. unfold jenkins32_test.
    destruct (len >=? 3) eqn:E; [apply Z.geb_le in E; lia|]. subst len. reflexivity.
  - pose proof (Forall_inv Hall) as Hb; pose proof (Forall_inv_tail Hall) as Hall'. cbn beta in Hb.
    destruct fuel as [|f]; [simpl in Hfuel; lia|].
    do 3 (destruct blk as [|? blk]; [simpl in Hb; discriminate|]).
    destruct blk; [|simpl in Hb; discriminate].
    cbn [length] in Hlen, Hfuel.
    cbn [concat app word_loop]. rewrite !mem_words_cons. unfold jenkins32_test.
    destruct (len >=? 3) eqn:E; [|rewrite Z.geb_leb in E; apply Z.leb_gt in E; lia].
    destruct s as [[a b] c]. rewrite load_words_12, !le_bytes_congr. rewrite bind_Ok.
    change (Z.to_nat (4 * jenkins32_advance)) with 12%nat. cbn [skipn].
    rewrite mix_is_lookup2_mix. unfold jenkins32_dec. rewrite sub32_small by lia.
    rewrite (IH t rest f _ (len - 3)) by (auto; lia).
    rewrite fold_left_cons, hash2_block_explicit. reflexivity.
Qed.

Lemma mod_small_u32 x : u32 x -> x = (x + 0) mod M32.
Proof. unfold u32. intros H. change M32 with W32. rewrite Z.add_0_r, Z.mod_small; auto. Qed.

Lemma jenkins32_tail_spec wt rest L a b c :
  (length wt < 3)%nat -> u32 a -> u32 b ->
  run_tail_words (mem_words wt ++ rest)
                 (switch_from (fun e => let '(n, _, _) := e in n) (Z.of_nat (length wt)) jenkins32_tail)
                 (addr RC L (a, b, c)) =
  Ok ((a + nth 0 wt 0) mod M32, (b + nth 1 wt 0) mod M32, (c + L) mod M32).
Proof.
  intros H Ha Hb.
  destruct wt as [|w0 wt]; [|destruct wt as [|w1 wt]; [|destruct wt as [|w2 wt]; [|simpl in H; lia]]];
    rewrite ?mem_words_cons;
    cbv [length Z.of_nat Pos.of_succ_nat Pos.succ switch_from jenkins32_tail Z.eqb Pos.eqb run_tail_words rd_word nth];
    change (4 * 0) with 0; change (4 * 1) with 4;
    change (0 + 1) with 1; change (0 + 2) with 2; change (0 + 3) with 3;
    change (4 + 1) with 5; change (4 + 2) with 6; change (4 + 3) with 7;
    cbv [rd rdn Z.ltb Z.compare Z.to_nat Pos.to_nat Pos.iter_op Nat.add nth_error bind addr setr getr];
    rewrite ?le_bytes_congr, add32_mod; change W32 with M32;
    rewrite <- ?(mod_small_u32 a Ha), <- ?(mod_small_u32 b Hb); reflexivity.
Qed.

Definition hash2_split (golden : Z) (blks : list (list Z)) (t : list Z) (L initval : Z) : Z :=
  let '(a, b, c) := fold_left hash2_block blks (golden, golden, initval) in
  third (lookup2_mix ((a + nth 0 t 0) mod M32, (b + nth 1 t 0) mod M32, (c + L) mod M32)).

Lemma jenkins32_blocks_tail blks t rest seed :
  Forall (fun b => length b = 3%nat) blks -> (length t < 3)%nat ->
  Z.of_nat (length (concat blks ++ t)) < W32 -> u32 seed ->
  jenkins32 (mem_words (concat blks ++ t) ++ rest) (Z.of_nat (length (concat blks ++ t))) seed =
  Ok (hash2_split builtin_random_seed blks t (Z.of_nat (length (concat blks ++ t))) seed).
Proof.
  intros Hall Ht Hlen Hseed. unfold jenkins32, hash2_split.
  set (L := Z.of_nat (length (concat blks ++ t))) in *.
  assert (HL : L = 3 * Z.of_nat (length blks) + Z.of_nat (length t)).
  { unfold L. rewrite app_length, (concat_length_blocks 3) by assumption. lia. }
  rewrite (jenkins32_loop_spec blks t rest (fuel_for L) _ L Hall Ht); [| unfold fuel_for; lia | exact HL | exact Hlen].
  rewrite bind_Ok. cbv beta iota.
  pose proof (fold_hash2_in32 blks (builtin_random_seed, builtin_random_seed, seed)) as Hin.
  destruct (fold_left hash2_block blks (builtin_random_seed, builtin_random_seed, seed)) as [[a b] c].
  destruct Hin as (Ha & Hb & _). { repeat split; try apply u32_seed; apply Hseed. }
  rewrite jenkins32_tail_spec by assumption. rewrite bind_Ok.
  rewrite mix_is_lookup2_mix, getr_RC_third. reflexivity.
Qed.

Theorem jenkins32_equals_hash2 ws rest seed :
  Z.of_nat (length ws) < W32 -> u32 seed ->
  jenkins32 (mem_words ws ++ rest) (Z.of_nat (length ws)) seed = Ok (hash2 builtin_random_seed ws seed).
Proof.
  intros Hlen Hseed.
  set (nb := (length ws / 3)%nat).
  assert (Hle : (3 * nb <= length ws)%nat) by (apply div_mul_le; lia).
  pose proof (chunks_concat 3 nb ws Hle) as E.
  assert (R : hash2 builtin_random_seed ws seed =
              hash2_split builtin_random_seed (chunks 3 nb ws) (skipn (3 * nb) ws) (Z.of_nat (length ws)) seed)
    by reflexivity.
  rewrite R. clear R.
  assert (G : forall k', k' = ws ->
              jenkins32 (mem_words k' ++ rest) (Z.of_nat (length k')) seed =
              Ok (hash2_split builtin_random_seed (chunks 3 nb ws) (skipn (3 * nb) ws)
                              (Z.of_nat (length k')) seed)).
  { intros k' Ek'. rewrite <- E in Ek'. subst k'. apply jenkins32_blocks_tail; auto.
    - apply chunks_all_length; exact Hle.
    - rewrite skipn_length. apply tail_len. lia.
    - rewrite E. exact Hlen. }
  apply G. reflexivity.
Qed.

(* ------------------------------------------------------------------------------------------ *)
(* ---- the one-loop hashes: the loops are folds over exactly the first `len` cells ---- *)
Lemma rd_mid pre x k rest : rd (bytes (pre ++ x :: k) ++ rest) (Z.of_nat (length pre)) = Ok x.
Proof.
  unfold rd. destruct (Z.of_nat (length pre) <? 0) eqn:E; [apply Z.ltb_lt in E; lia|].
  rewrite Nat2Z.id. rewrite rdn_app_l by (rewrite bytes_length, app_length; simpl; lia).
  apply rdn_bytes. rewrite nth_error_app2 by lia. now rewrite Nat.sub_diag.
Qed.

Lemma index_loop_fold step : forall k pre rest h,
  index_loop step (length k) (bytes (pre ++ k) ++ rest) (Z.of_nat (length pre)) h = Ok (fold_left step k h).
Proof.
  induction k as [|x k IH]; intros pre rest h; [reflexivity|].
  cbn [length index_loop]. rewrite rd_mid, bind_Ok.
  replace (Z.of_nat (length pre) + 1) with (Z.of_nat (length (pre ++ [x]))) by (rewrite app_length; simpl; lia).
  replace (pre ++ x :: k) with ((pre ++ [x]) ++ k) by (now rewrite <- app_assoc).
  rewrite IH. reflexivity.
Qed.

Lemma ptr_loop_fold step : forall k rest h,
  ptr_loop step (length k) (bytes k ++ rest) h = Ok (fold_left step k h).
Proof.
  induction k as [|x k IH]; intros rest h; [reflexivity|].
  cbn [length ptr_loop bytes map app]. change (rd (Some x :: map Some k ++ rest) 0) with (@Ok Z x).
  rewrite bind_Ok. cbn [skipn]. apply IH.
Qed.

Lemma fold_left_ext_inv {A B} (P : A -> Prop) (Q : B -> Prop) (f g : A -> B -> A) :
  (forall a b, P a -> Q b -> f a b = g a b) -> (forall a b, P a -> Q b -> P (g a b)) ->
  forall l a, P a -> Forall Q l -> fold_left f l a = fold_left g l a /\ P (fold_left g l a).
Proof.
  intros Hfg Hp. induction l as [|x l IH]; intros a Ha Hl; [split; [reflexivity | exact Ha]|].
  pose proof (Forall_inv Hl) as Hx. pose proof (Forall_inv_tail Hl) as Hl'.
  rewrite !fold_left_cons. rewrite Hfg by assumption. apply IH; auto.
Qed.

(* rotating *)
Lemma shl_shr_disjoint h : u32 h -> Z.land ((h * 2 ^ 4) mod 2 ^ 32) (h / 2 ^ 28) = 0.
Proof.
  intros Hh. apply Z.bits_inj'. intros n Hn. rewrite Z.land_spec, Z.bits_0.
  destruct (Z.lt_ge_cases n 4) as [Hlt|Hge].
  - rewrite Z.mod_pow2_bits_low by lia. rewrite Z.mul_pow2_bits_low by lia. reflexivity.
  - rewrite Z.div_pow2_bits by lia. rewrite (testbit_high h (n + 28)) by (auto; lia).
    apply andb_false_r.
Qed.

Lemma rot_step_spec h b : u32 h -> rot_step h b = Z.lxor (rotl32 h 4) b.
Proof.
  intros Hh. unfold rot_step, rotl32. cbv [rotating_shifts]. unfold xor32, shr32. rewrite shl32_mod by lia.
  rewrite Z.shiftr_div_pow2 by lia. change (32 - 4) with 28. change M32 with (2 ^ 32). change W32 with (2 ^ 32).
  rewrite <- (Z.add_nocarry_lxor ((h * 2 ^ 4) mod 2 ^ 32) (h / 2 ^ 28)) by (apply shl_shr_disjoint; exact Hh). reflexivity.
Qed.

Lemma rot_final_spec h : rot_final h = Z.lxor (Z.lxor h (h / 2 ^ 10)) (h / 2 ^ 20).
Proof. unfold rot_final. cbv [rotating_shifts]. unfold xor32, shr32. now rewrite !Z.shiftr_div_pow2 by lia. Qed.

Lemma rotl32_u32 h : u32 h -> u32 (rotl32 h 4).
Proof.
  intros Hh. unfold rotl32. change (32 - 4) with 28. change M32 with (2 ^ 32).
  rewrite Z.add_nocarry_lxor by (apply shl_shr_disjoint; exact Hh).
  apply lxor_u32; [apply mod_u32 | apply div_pow2_u32; [lia | exact Hh]].
Qed.

Lemma byte_u32 b : is_byte b -> u32 b.
Proof. unfold is_byte, u32, W32. lia. Qed.

Lemma nz_seed_u32 d seed : u32 d -> u32 seed -> u32 (nz_seed d seed).
Proof. unfold nz_seed. destruct (seed =? 0); auto. Qed.

Lemma libast_seed_eq : builtin_random_seed = libast_seed.
Proof. reflexivity. Qed.
Lemma fnv_init_eq : fnv_init = fnv_offset_basis.
Proof. reflexivity. Qed.
Lemma fnv_prime_eq : fnv_prime = fnv_32_prime.
Proof. reflexivity. Qed.

Lemma rotating_fold k rest seed :
  rotating (bytes k ++ rest) (Z.of_nat (length k)) seed =
  Ok (rot_final (fold_left rot_step k (nz_seed builtin_random_seed seed))).
Proof.
  unfold rotating. rewrite Nat2Z.id.
  rewrite (index_loop_fold rot_step k [] rest). rewrite bind_Ok. reflexivity.
Qed.

Theorem rotating_def k rest seed :
  Forall is_byte k -> u32 seed ->
  rotating (bytes k ++ rest) (Z.of_nat (length k)) seed = Ok (spec_rotating k seed).
Proof.
  intros Hk Hs. rewrite rotating_fold, rot_final_spec. unfold spec_rotating, rotating_ref.
  rewrite libast_seed_eq.
  destruct (fold_left_ext_inv u32 is_byte rot_step (fun h b => Z.lxor (rotl32 h 4) b)) with
      (l := k) (a := nz_seed libast_seed seed) as [E _]; auto.
  - intros a b Ha _. apply rot_step_spec; exact Ha.
  - intros a b Ha Hb. apply lxor_u32; [apply rotl32_u32; exact Ha | apply byte_u32; exact Hb].
  - apply nz_seed_u32; [rewrite <- libast_seed_eq; apply u32_seed | exact Hs].
  - rewrite E. reflexivity.
Qed.

(* one-at-a-time *)
Lemma oaat_step_spec h b :
  oaat_step h b = (let h1 := ((h + b) * 1025) mod M32 in Z.lxor h1 (h1 / 64)).
Proof.
  unfold oaat_step. cbv [oaat_shifts]. cbv zeta. unfold xor32, shr32.
  rewrite Z.shiftr_div_pow2 by lia. change (2 ^ 6) with 64.
  assert (E : add32 (add32 h b) (shl32 (add32 h b) 10) = ((h + b) * 1025) mod M32).
  { rewrite !add32_mod, shl32_mod by lia. change (2 ^ 10) with 1024. change M32 with W32. unfold W32.
    Z.div_mod_to_equations. lia. }
  rewrite E. reflexivity.
Qed.

Lemma oaat_final_spec h :
  oaat_final h = (let h := (h * 9) mod M32 in let h := Z.lxor h (h / 2048) in (h * 32769) mod M32).
Proof.
  unfold oaat_final. cbv [oaat_shifts]. cbv zeta. unfold xor32, shr32.
  rewrite Z.shiftr_div_pow2 by lia. change (2 ^ 11) with 2048.
  assert (E1 : add32 h (shl32 h 3) = (h * 9) mod M32).
  { rewrite !add32_mod, shl32_mod by lia. change (2 ^ 3) with 8. change M32 with W32. unfold W32.
    Z.div_mod_to_equations. lia. }
  rewrite E1.
  set (x := Z.lxor ((h * 9) mod M32) ((h * 9) mod M32 / 2048)).
  rewrite !add32_mod, shl32_mod by lia. change (2 ^ 15) with 32768. change M32 with W32. unfold W32.
  clearbody x. Z.div_mod_to_equations. lia.
Qed.

Lemma oaat_fold k rest seed :
  one_at_a_time (bytes k ++ rest) (Z.of_nat (length k)) seed =
  Ok (oaat_final (fold_left oaat_step k (nz_seed builtin_random_seed seed))).
Proof.
  unfold one_at_a_time. rewrite Nat2Z.id.
  rewrite (index_loop_fold oaat_step k [] rest). rewrite bind_Ok. reflexivity.
Qed.

Lemma fold_left_ext {A B} (f g : A -> B -> A) : (forall a b, f a b = g a b) ->
  forall l a, fold_left f l a = fold_left g l a.
Proof. intros E. induction l as [|x l IH]; intros a; [reflexivity|]. rewrite !fold_left_cons, E. apply IH. Qed.

Theorem oaat_def k rest seed :
  one_at_a_time (bytes k ++ rest) (Z.of_nat (length k)) seed = Ok (spec_oaat k seed).
Proof.
  rewrite oaat_fold, oaat_final_spec. unfold spec_oaat, oaat_ref. rewrite libast_seed_eq.
  rewrite (fold_left_ext oaat_step _ oaat_step_spec). reflexivity.
Qed.

(* FNV *)
Theorem fnv_shift_add_is_multiply h : fnv_mul h = (h * fnv_prime) mod W32.
Proof.
  unfold fnv_mul. cbv [fnv_shifts fold_left fnv_prime]. rewrite !add32_mod, !shl32_mod by lia.
  change (2 ^ 1) with 2. change (2 ^ 4) with 16. change (2 ^ 7) with 128. change (2 ^ 8) with 256.
  change (2 ^ 24) with 16777216. unfold W32. Z.div_mod_to_equations. lia.
Qed.

Lemma fnv_fold k rest seed :
  fnv (bytes k ++ rest) (Z.of_nat (length k)) seed = Ok (fold_left fnv_step k (nz_seed fnv_init seed)).
Proof. unfold fnv. rewrite Nat2Z.id. apply ptr_loop_fold. Qed.

Theorem fnv_def k rest seed :
  fnv (bytes k ++ rest) (Z.of_nat (length k)) seed = Ok (spec_fnv k seed).
Proof.
  rewrite fnv_fold. unfold spec_fnv, fnv1a_ref. rewrite fnv_init_eq.
  rewrite (fold_left_ext fnv_step (fun h b => (Z.lxor h b * fnv_32_prime) mod M32)); [reflexivity|].
  intros a b. unfold fnv_step, xor32. rewrite fnv_shift_add_is_multiply, fnv_prime_eq. reflexivity.
Qed.

(* ------------------------------------------------------------------------------------------ *)
(* ---- the byte view of spifhash_jenkins32: a key of 4n bytes is the memory image of its words ---- *)
Lemma le_bytes_le_word b0 b1 b2 b3 :
  is_byte b0 -> is_byte b1 -> is_byte b2 -> is_byte b3 ->
  le_bytes (le_word [b0; b1; b2; b3]) = [b0; b1; b2; b3].
Proof.
  unfold is_byte, le_bytes, le_word. cbn [fold_right]. intros H0 H1 H2 H3.
  repeat f_equal; Z.div_mod_to_equations; lia.
Qed.

Lemma mem_words_of_bytes : forall n k,
  length k = (4 * n)%nat -> Forall is_byte k ->
  flat_map le_bytes (map le_word (chunks 4 n k)) = k.
Proof.
  induction n as [|n IH]; intros k Hl Hb.
  - destruct k; [reflexivity | simpl in Hl; lia].
  - do 4 (destruct k as [|? k]; [simpl in Hl; lia|]).
    repeat match goal with H : Forall is_byte (_ :: _) |- _ =>
      let Hx := fresh "Hx" in pose proof (Forall_inv H) as Hx; apply Forall_inv_tail in H end.
    cbn [chunks firstn skipn map flat_map]. rewrite le_bytes_le_word by assumption.
    cbn [app]. rewrite IH; [reflexivity | simpl in Hl; lia | assumption].
Qed.

Theorem jenkins32_on_bytes k n rest seed :
  length k = (4 * n)%nat -> Forall is_byte k -> Z.of_nat n < W32 -> u32 seed ->
  jenkins32 (bytes k ++ rest) (Z.of_nat n) seed = Ok (spec_jenkins32 (words_of_bytes k) seed).
Proof.
  intros Hl Hb Hn Hs. unfold words_of_bytes, spec_jenkins32.
  replace (length k / 4)%nat with n by (rewrite Hl, Nat.mul_comm, Nat.div_mul; lia).
  rewrite <- libast_seed_eq.
  assert (Hlen : length (map le_word (chunks 4 n k)) = n) by (rewrite map_length; apply chunks_length).
  rewrite <- (jenkins32_equals_hash2 (map le_word (chunks 4 n k)) rest seed) by (rewrite ?Hlen; assumption).
  unfold mem_words. rewrite mem_words_of_bytes by assumption. rewrite Hlen. reflexivity.
Qed.

(* ---- exactly `length` key cells are read: Ok on an exactly sized key, and whatever follows the
   key (further cells, uninitialised cells, nothing) does not matter ---- *)
Theorem hashes_read_exactly k rest seed addr_ :
  Z.of_nat (length k) < W32 -> u32 seed ->
  let n := Z.of_nat (length k) in
  (is_ok (jenkins (bytes k) n seed) = true /\ jenkins (bytes k ++ rest) n seed = jenkins (bytes k) n seed) /\
  (is_ok (jenkinsLE addr_ (bytes k) n seed) = true /\
   jenkinsLE addr_ (bytes k ++ rest) n seed = jenkinsLE addr_ (bytes k) n seed) /\
  (is_ok (rotating (bytes k) n seed) = true /\ rotating (bytes k ++ rest) n seed = rotating (bytes k) n seed) /\
  (is_ok (one_at_a_time (bytes k) n seed) = true /\
   one_at_a_time (bytes k ++ rest) n seed = one_at_a_time (bytes k) n seed) /\
  (is_ok (fnv (bytes k) n seed) = true /\ fnv (bytes k ++ rest) n seed = fnv (bytes k) n seed).
Proof.
  intros Hlen Hs n. subst n.
  pose proof (jenkins_equals_lookup2 k [] seed Hlen Hs) as J0. rewrite app_nil_r in J0.
  pose proof (rotating_fold k [] seed) as R0. rewrite app_nil_r in R0.
  pose proof (oaat_fold k [] seed) as O0. rewrite app_nil_r in O0.
  pose proof (fnv_fold k [] seed) as F0. rewrite app_nil_r in F0.
  rewrite !jenkinsLE_equals_jenkins.
  rewrite (jenkins_equals_lookup2 k rest seed Hlen Hs), (rotating_fold k rest), (oaat_fold k rest), (fnv_fold k rest).
  rewrite J0, R0, O0, F0. cbn [is_ok]. repeat split.
Qed.

Theorem jenkins32_reads_exactly ws rest seed :
  Z.of_nat (length ws) < W32 -> u32 seed ->
  let n := Z.of_nat (length ws) in
  is_ok (jenkins32 (mem_words ws) n seed) = true /\
  jenkins32 (mem_words ws ++ rest) n seed = jenkins32 (mem_words ws) n seed.
Proof.
  intros Hlen Hs n. subst n.
  pose proof (jenkins32_equals_hash2 ws [] seed Hlen Hs) as J0. rewrite app_nil_r in J0.
  rewrite (jenkins32_equals_hash2 ws rest seed Hlen Hs), J0. split; reflexivity.
Qed.

(* ---- a zero seed is replaced ---- *)
Theorem seed_zero_replaced key len :
  rotating key len 0 = rotating key len builtin_random_seed /\
  one_at_a_time key len 0 = one_at_a_time key len builtin_random_seed /\
  fnv key len 0 = fnv key len fnv_init.
Proof.
  unfold rotating, one_at_a_time, fnv.
  change (0 =? 0) with true. change (builtin_random_seed =? 0) with false. change (fnv_init =? 0) with false.
  cbv iota. repeat split.
Qed.

(* ---- the constants stored hash values depend on, and the source shape ---- *)
Theorem constants_are_published :
  builtin_random_seed = 4146181709 /\ fnv_init = 2166136261 /\ fnv_prime = 16777619.
Proof. repeat split. Qed.

Theorem source_shape_recognised : hashgen_errors = [].
Proof. reflexivity. Qed.
