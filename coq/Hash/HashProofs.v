(* Proofs for property C18: the model of src/builtin_hashes.c (HashModel.v) against the reference
   definitions (HashSpec.v). *)
From LV Require Import Base.Buf Hash.HashModel Hash.HashSpec.
Local Open Scope Z_scope.

(* ------------------------------------------------------------------------------------------ *)
(* 32-bit arithmetic *)
Lemma W32_M32 : W32 = M32. Proof. reflexivity. Qed.

Lemma wrap32_mod x : wrap32 x = x mod W32.
Proof. unfold wrap32. change 4294967295 with (Z.ones 32). rewrite Z.land_ones by lia. reflexivity. Qed.

Lemma mix_step_A n s : 0 <= n -> mix_step (RA, RB, RC, RC, false, n) s = mixA n s.
Proof.
  intros Hn. destruct s as [[a b] c]. cbv [mix_step getr setr mixA rowR xor32 sub32 shr32].
  rewrite !wrap32_mod, Z.shiftr_div_pow2, Zminus_mod_idemp_l by lia. reflexivity.
Qed.
Lemma mix_step_B n s : 0 <= n -> mix_step (RB, RC, RA, RA, true, n) s = mixB n s.
Proof.
  intros Hn. destruct s as [[a b] c]. cbv [mix_step getr setr mixB rowL xor32 sub32 shl32].
  rewrite !wrap32_mod, Z.shiftl_mul_pow2, Zminus_mod_idemp_l by lia. reflexivity.
Qed.
Lemma mix_step_C n s : 0 <= n -> mix_step (RC, RA, RB, RB, false, n) s = mixC n s.
Proof.
  intros Hn. destruct s as [[a b] c]. cbv [mix_step getr setr mixC rowR xor32 sub32 shr32].
  rewrite !wrap32_mod, Z.shiftr_div_pow2, Zminus_mod_idemp_l by lia. reflexivity.
Qed.

Theorem mix_is_lookup2_mix : forall s, mix s = lookup2_mix s.
Proof.
  intros s. unfold mix, jenkins_mix_steps, lookup2_mix. cbn [fold_left].
  rewrite !mix_step_A, !mix_step_B, !mix_step_C by lia. reflexivity.
Qed.

(* ------------------------------------------------------------------------------------------ *)
(* lists: chunks *)
Lemma chunks_length {A} m n (l : list A) : length (chunks m n l) = n.
Proof. revert l; induction n as [|n IH]; intros l; simpl; auto. Qed.

Lemma skipn_add {A} a b (l : list A) : skipn (a + b) l = skipn b (skipn a l).
Proof.
  revert l; induction a as [|a IH]; intros l; simpl; [reflexivity|].
  destruct l as [|x l]; [now rewrite skipn_nil | apply IH].
Qed.

Lemma chunks_concat {A} m n (l : list A) :
  (m * n <= length l)%nat -> concat (chunks m n l) ++ skipn (m * n) l = l.
Proof.
  revert l; induction n as [|n IH]; intros l H; simpl.
  - rewrite Nat.mul_0_r. reflexivity.
  - rewrite <- app_assoc. replace (m * S n)%nat with (m + m * n)%nat by lia.
    rewrite skipn_add. rewrite IH.
    + apply firstn_skipn.
    + rewrite skipn_length. lia.
Qed.

Lemma chunks_all_length {A} m n (l : list A) :
  (m * n <= length l)%nat -> Forall (fun c => length c = m) (chunks m n l).
Proof.
  revert l; induction n as [|n IH]; intros l H; simpl; constructor.
  - apply firstn_length_le. lia.
  - apply IH. rewrite skipn_length. lia.
Qed.

Lemma div_mul_le a b : (b <> 0 -> b * (a / b) <= a)%nat.
Proof. intros. apply Nat.mul_div_le; auto. Qed.

Lemma tail_len a b : (b <> 0 -> a - b * (a / b) < b)%nat.
Proof.
  intros Hb. pose proof (Nat.div_mod a b Hb). pose proof (Nat.mod_upper_bound a b Hb). lia.
Qed.
