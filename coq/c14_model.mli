
type nat =
| O
| S of nat

val length : 'a1 list -> nat

val app : 'a1 list -> 'a1 list -> 'a1 list

type comparison =
| Eq
| Lt
| Gt

val compOpp : comparison -> comparison

val add : nat -> nat -> nat

val sub : nat -> nat -> nat

module Nat :
 sig
  val eqb : nat -> nat -> bool

  val leb : nat -> nat -> bool

  val ltb : nat -> nat -> bool
 end

val nth : nat -> 'a1 list -> 'a1 -> 'a1

val nth_error : 'a1 list -> nat -> 'a1 option

val map : ('a1 -> 'a2) -> 'a1 list -> 'a2 list

val forallb : ('a1 -> bool) -> 'a1 list -> bool

val firstn : nat -> 'a1 list -> 'a1 list

val skipn : nat -> 'a1 list -> 'a1 list

type positive =
| XI of positive
| XO of positive
| XH

type n =
| N0
| Npos of positive

type z =
| Z0
| Zpos of positive
| Zneg of positive

module Pos :
 sig
  val succ : positive -> positive

  val add : positive -> positive -> positive

  val add_carry : positive -> positive -> positive

  val pred_double : positive -> positive

  val mul : positive -> positive -> positive

  val compare_cont : comparison -> positive -> positive -> comparison

  val compare : positive -> positive -> comparison

  val eqb : positive -> positive -> bool
 end

module Z :
 sig
  val double : z -> z

  val succ_double : z -> z

  val pred_double : z -> z

  val pos_sub : positive -> positive -> z

  val add : z -> z -> z

  val opp : z -> z

  val sub : z -> z -> z

  val mul : z -> z -> z

  val compare : z -> z -> comparison

  val leb : z -> z -> bool

  val ltb : z -> z -> bool

  val eqb : z -> z -> bool

  val pos_div_eucl : positive -> z -> z * z

  val div_eucl : z -> z -> z * z

  val div : z -> z -> z

  val modulo : z -> z -> z
 end

type fault =
| OOB_read
| OOB_write
| Uninit_read
| Null_deref
| Use_after_free
| Bad_free
| Out_of_fuel
| Int_overflow
| Abort

type 'a res =
| Ok of 'a
| Fault of fault

val bind : 'a1 res -> ('a1 -> 'a2 res) -> 'a2 res

val num_anchor : ((nat * positive) * n) * z

type cell = z option

type buf = cell list

val rdn : buf -> nat -> z res

val strlen : buf -> nat res

val isupper : z -> bool

val islower : z -> bool

val isalpha : z -> bool

val isdigit : z -> bool

val isalnum : z -> bool

val read_bytes : buf -> nat -> nat -> z list res

type comps = { c_proto : z list option; c_user : z list option;
               c_passwd : z list option; c_host : z list option;
               c_port : z list option; c_path : z list option;
               c_query : z list option }

type lookup_result =
| LProto
| LServ of z * bool
| LNone

val ch_colon : z

val ch_slash : z

val ch_quest : z

val ch_at : z

val digit : z -> z

val strip0 : z list -> z list

val dec5 : z -> z list

val strchr_go : buf -> nat -> z -> nat option res

val strchr_from : buf -> nat -> z -> nat option res

val alnum_scan : buf -> nat -> nat -> nat res

val read_str_go : buf -> z list res

val read_str : buf -> nat -> z list res

val resolve_port : bool -> lookup_result -> (bool * z list option) res

val url_parse_gen :
  bool -> buf -> (z list -> lookup_result) -> (bool * comps) res

val find_go : z -> z list -> nat -> nat option

val find_from : z -> z list -> nat -> nat option

val sub0 : z list -> nat -> nat -> z list

val nthz : z list -> nat -> z

val stage1 : z list -> z list option * nat

val stage2 : z list -> nat -> nat

val stage3 : z list -> nat -> (z list option * z list option) * nat

val stage4 : z list -> nat -> nat -> (z list option * z list option) * nat

val stage5 : z list -> nat -> nat -> z list option * z list option

val finish : (z list -> lookup_result) -> comps -> bool * comps

val parse_pure : z list -> (z list -> lookup_result) -> bool * comps

val opt_app : z list option -> (z list -> z list) -> z list

val render : comps -> bool -> z list

val localhost : z list

val canon : comps -> comps

val unparse_text : comps -> z list

val fill_port : comps -> (z list -> lookup_result) -> bool * comps
