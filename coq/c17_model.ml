
(** val negb : bool -> bool **)

let negb = function
| true -> false
| false -> true

type nat =
| O
| S of nat

(** val length : 'a1 list -> nat **)

let rec length = function
| [] -> O
| _ :: l' -> S (length l')

(** val app : 'a1 list -> 'a1 list -> 'a1 list **)

let rec app l m =
  match l with
  | [] -> m
  | a :: l1 -> a :: (app l1 m)

type comparison =
| Eq
| Lt
| Gt

(** val compOpp : comparison -> comparison **)

let compOpp = function
| Eq -> Eq
| Lt -> Gt
| Gt -> Lt

(** val sub : nat -> nat -> nat **)

let rec sub n0 m =
  match n0 with
  | O -> n0
  | S k -> (match m with
            | O -> n0
            | S l -> sub k l)

module Nat =
 struct
  (** val eqb : nat -> nat -> bool **)

  let rec eqb n0 m =
    match n0 with
    | O -> (match m with
            | O -> true
            | S _ -> false)
    | S n' -> (match m with
               | O -> false
               | S m' -> eqb n' m')

  (** val leb : nat -> nat -> bool **)

  let rec leb n0 m =
    match n0 with
    | O -> true
    | S n' -> (match m with
               | O -> false
               | S m' -> leb n' m')

  (** val ltb : nat -> nat -> bool **)

  let ltb n0 m =
    leb (S n0) m
 end

(** val tl : 'a1 list -> 'a1 list **)

let tl = function
| [] -> []
| _ :: m -> m

(** val map : ('a1 -> 'a2) -> 'a1 list -> 'a2 list **)

let rec map f = function
| [] -> []
| a :: t -> (f a) :: (map f t)

(** val existsb : ('a1 -> bool) -> 'a1 list -> bool **)

let rec existsb f = function
| [] -> false
| a :: l0 -> (||) (f a) (existsb f l0)

(** val repeat : 'a1 -> nat -> 'a1 list **)

let rec repeat x = function
| O -> []
| S k -> x :: (repeat x k)

type positive =
| XI of positive
| XO of positive
| XH

type n =
| N0
| Npos of positive

type z =
| Z0
| Zpos of positive
| Zneg of positive

module Pos =
 struct
  (** val succ : positive -> positive **)

  let rec succ = function
  | XI p -> XO (succ p)
  | XO p -> XI p
  | XH -> XO XH

  (** val add : positive -> positive -> positive **)

  let rec add x y =
    match x with
    | XI p ->
      (match y with
       | XI q -> XO (add_carry p q)
       | XO q -> XI (add p q)
       | XH -> XO (succ p))
    | XO p ->
      (match y with
       | XI q -> XI (add p q)
       | XO q -> XO (add p q)
       | XH -> XI p)
    | XH -> (match y with
             | XI q -> XO (succ q)
             | XO q -> XI q
             | XH -> XO XH)

  (** val add_carry : positive -> positive -> positive **)

  and add_carry x y =
    match x with
    | XI p ->
      (match y with
       | XI q -> XI (add_carry p q)
       | XO q -> XO (add_carry p q)
       | XH -> XI (succ p))
    | XO p ->
      (match y with
       | XI q -> XO (add_carry p q)
       | XO q -> XI (add p q)
       | XH -> XO (succ p))
    | XH ->
      (match y with
       | XI q -> XI (succ q)
       | XO q -> XO (succ q)
       | XH -> XI XH)

  (** val pred_double : positive -> positive **)

  let rec pred_double = function
  | XI p -> XI (XO p)
  | XO p -> XI (pred_double p)
  | XH -> XH

  (** val compare_cont : comparison -> positive -> positive -> comparison **)

  let rec compare_cont r x y =
    match x with
    | XI p ->
      (match y with
       | XI q -> compare_cont r p q
       | XO q -> compare_cont Gt p q
       | XH -> Gt)
    | XO p ->
      (match y with
       | XI q -> compare_cont Lt p q
       | XO q -> compare_cont r p q
       | XH -> Gt)
    | XH -> (match y with
             | XH -> r
             | _ -> Lt)

  (** val compare : positive -> positive -> comparison **)

  let compare =
    compare_cont Eq

  (** val eqb : positive -> positive -> bool **)

  let rec eqb p q =
    match p with
    | XI p0 -> (match q with
                | XI q0 -> eqb p0 q0
                | _ -> false)
    | XO p0 -> (match q with
                | XO q0 -> eqb p0 q0
                | _ -> false)
    | XH -> (match q with
             | XH -> true
             | _ -> false)
 end

module Z =
 struct
  (** val double : z -> z **)

  let double = function
  | Z0 -> Z0
  | Zpos p -> Zpos (XO p)
  | Zneg p -> Zneg (XO p)

  (** val succ_double : z -> z **)

  let succ_double = function
  | Z0 -> Zpos XH
  | Zpos p -> Zpos (XI p)
  | Zneg p -> Zneg (Pos.pred_double p)

  (** val pred_double : z -> z **)

  let pred_double = function
  | Z0 -> Zneg XH
  | Zpos p -> Zpos (Pos.pred_double p)
  | Zneg p -> Zneg (XI p)

  (** val pos_sub : positive -> positive -> z **)

  let rec pos_sub x y =
    match x with
    | XI p ->
      (match y with
       | XI q -> double (pos_sub p q)
       | XO q -> succ_double (pos_sub p q)
       | XH -> Zpos (XO p))
    | XO p ->
      (match y with
       | XI q -> pred_double (pos_sub p q)
       | XO q -> double (pos_sub p q)
       | XH -> Zpos (Pos.pred_double p))
    | XH ->
      (match y with
       | XI q -> Zneg (XO q)
       | XO q -> Zneg (Pos.pred_double q)
       | XH -> Z0)

  (** val add : z -> z -> z **)

  let add x y =
    match x with
    | Z0 -> y
    | Zpos x' ->
      (match y with
       | Z0 -> x
       | Zpos y' -> Zpos (Pos.add x' y')
       | Zneg y' -> pos_sub x' y')
    | Zneg x' ->
      (match y with
       | Z0 -> x
       | Zpos y' -> pos_sub y' x'
       | Zneg y' -> Zneg (Pos.add x' y'))

  (** val opp : z -> z **)

  let opp = function
  | Z0 -> Z0
  | Zpos x0 -> Zneg x0
  | Zneg x0 -> Zpos x0

  (** val sub : z -> z -> z **)

  let sub m n0 =
    add m (opp n0)

  (** val compare : z -> z -> comparison **)

  let compare x y =
    match x with
    | Z0 -> (match y with
             | Z0 -> Eq
             | Zpos _ -> Lt
             | Zneg _ -> Gt)
    | Zpos x' -> (match y with
                  | Zpos y' -> Pos.compare x' y'
                  | _ -> Gt)
    | Zneg x' ->
      (match y with
       | Zneg y' -> compOpp (Pos.compare x' y')
       | _ -> Lt)

  (** val leb : z -> z -> bool **)

  let leb x y =
    match compare x y with
    | Gt -> false
    | _ -> true

  (** val ltb : z -> z -> bool **)

  let ltb x y =
    match compare x y with
    | Lt -> true
    | _ -> false

  (** val gtb : z -> z -> bool **)

  let gtb x y =
    match compare x y with
    | Gt -> true
    | _ -> false

  (** val eqb : z -> z -> bool **)

  let eqb x y =
    match x with
    | Z0 -> (match y with
             | Z0 -> true
             | _ -> false)
    | Zpos p -> (match y with
                 | Zpos q -> Pos.eqb p q
                 | _ -> false)
    | Zneg p -> (match y with
                 | Zneg q -> Pos.eqb p q
                 | _ -> false)
 end

type fault =
| OOB_read
| OOB_write
| Uninit_read
| Null_deref
| Use_after_free
| Bad_free
| Out_of_fuel
| Int_overflow
| Abort

type 'a res =
| Ok of 'a
| Fault of fault

(** val bind : 'a1 res -> ('a1 -> 'a2 res) -> 'a2 res **)

let bind r k =
  match r with
  | Ok a -> k a
  | Fault f -> Fault f

(** val num_anchor : ((nat * positive) * n) * z **)

let num_anchor =
  (((O, XH), N0), Z0)

type cell = z option

type buf = cell list

(** val upd : 'a1 list -> nat -> 'a1 -> 'a1 list **)

let rec upd l n0 v =
  match l with
  | [] -> []
  | x :: t -> (match n0 with
               | O -> v :: t
               | S n' -> x :: (upd t n' v))

(** val wrn : buf -> nat -> z -> buf res **)

let wrn b i v =
  if Nat.ltb i (length b) then Ok (upd b i (Some v)) else Fault OOB_write

(** val bytes : z list -> buf **)

let bytes s =
  map (fun x -> Some x) s

(** val cstr : z list -> buf -> buf **)

let cstr s rest =
  app (bytes s) ((Some Z0) :: rest)

(** val isupper : z -> bool **)

let isupper c =
  (&&) (Z.leb (Zpos (XI (XO (XO (XO (XO (XO XH))))))) c)
    (Z.leb c (Zpos (XO (XI (XO (XI (XI (XO XH))))))))

(** val islower : z -> bool **)

let islower c =
  (&&) (Z.leb (Zpos (XI (XO (XO (XO (XO (XI XH))))))) c)
    (Z.leb c (Zpos (XO (XI (XO (XI (XI (XI XH))))))))

(** val isalpha : z -> bool **)

let isalpha c =
  (||) (isupper c) (islower c)

(** val isdigit : z -> bool **)

let isdigit c =
  (&&) (Z.leb (Zpos (XO (XO (XO (XO (XI XH)))))) c)
    (Z.leb c (Zpos (XI (XO (XO (XI (XI XH)))))))

(** val isalnum : z -> bool **)

let isalnum c =
  (||) (isalpha c) (isdigit c)

(** val tolower : z -> z **)

let tolower c =
  if isupper c then Z.add c (Zpos (XO (XO (XO (XO (XO XH)))))) else c

(** val vc_bufsz1 : nat **)

let vc_bufsz1 =
  S (S (S (S (S (S (S (S (S (S (S (S (S (S (S (S (S (S (S (S (S (S (S (S (S
    (S (S (S (S (S (S (S (S (S (S (S (S (S (S (S (S (S (S (S (S (S (S (S (S
    (S (S (S (S (S (S (S (S (S (S (S (S (S (S (S (S (S (S (S (S (S (S (S (S
    (S (S (S (S (S (S (S (S (S (S (S (S (S (S (S (S (S (S (S (S (S (S (S (S
    (S (S (S (S (S (S (S (S (S (S (S (S (S (S (S (S (S (S (S (S (S (S (S (S
    (S (S (S (S (S (S (S
    O)))))))))))))))))))))))))))))))))))))))))))))))))))))))))))))))))))))))))))))))))))))))))))))))))))))))))))))))))))))))))))))))

(** val vc_bufsz2 : nat **)

let vc_bufsz2 =
  S (S (S (S (S (S (S (S (S (S (S (S (S (S (S (S (S (S (S (S (S (S (S (S (S
    (S (S (S (S (S (S (S (S (S (S (S (S (S (S (S (S (S (S (S (S (S (S (S (S
    (S (S (S (S (S (S (S (S (S (S (S (S (S (S (S (S (S (S (S (S (S (S (S (S
    (S (S (S (S (S (S (S (S (S (S (S (S (S (S (S (S (S (S (S (S (S (S (S (S
    (S (S (S (S (S (S (S (S (S (S (S (S (S (S (S (S (S (S (S (S (S (S (S (S
    (S (S (S (S (S (S (S
    O)))))))))))))))))))))))))))))))))))))))))))))))))))))))))))))))))))))))))))))))))))))))))))))))))))))))))))))))))))))))))))))))

(** val vc_default1 : z **)

let vc_default1 =
  Zpos (XO (XI XH))

(** val vc_default2 : z **)

let vc_default2 =
  Zpos (XO (XI XH))

(** val vc_arbitrary : z **)

let vc_arbitrary =
  Zpos (XO (XI XH))

(** val vc_words1 : (z list * z) list **)

let vc_words1 =
  (((Zpos (XI (XI (XO (XO (XI (XI XH))))))) :: ((Zpos (XO (XI (XI (XI (XO (XI
    XH))))))) :: ((Zpos (XI (XO (XO (XO (XO (XI XH))))))) :: ((Zpos (XO (XO
    (XO (XO (XI (XI XH))))))) :: [])))), (Zpos XH)) :: ((((Zpos (XO (XO (XO
    (XO (XI (XI XH))))))) :: ((Zpos (XO (XI (XO (XO (XI (XI
    XH))))))) :: ((Zpos (XI (XO (XI (XO (XO (XI XH))))))) :: []))), (Zpos (XO
    XH))) :: ((((Zpos (XI (XO (XO (XO (XO (XI XH))))))) :: ((Zpos (XO (XO (XI
    (XI (XO (XI XH))))))) :: ((Zpos (XO (XO (XO (XO (XI (XI
    XH))))))) :: ((Zpos (XO (XO (XO (XI (XO (XI XH))))))) :: ((Zpos (XI (XO
    (XO (XO (XO (XI XH))))))) :: []))))), (Zpos (XI XH))) :: ((((Zpos (XO (XI
    (XO (XO (XO (XI XH))))))) :: ((Zpos (XI (XO (XI (XO (XO (XI
    XH))))))) :: ((Zpos (XO (XO (XI (XO (XI (XI XH))))))) :: ((Zpos (XI (XO
    (XO (XO (XO (XI XH))))))) :: [])))), (Zpos (XO (XO XH)))) :: ((((Zpos (XO
    (XI (XO (XO (XI (XI XH))))))) :: ((Zpos (XI (XI (XO (XO (XO (XI
    XH))))))) :: [])), (Zpos (XI (XO XH)))) :: []))))

(** val vc_words2 : (z list * z) list **)

let vc_words2 =
  (((Zpos (XI (XI (XO (XO (XI (XI XH))))))) :: ((Zpos (XO (XI (XI (XI (XO (XI
    XH))))))) :: ((Zpos (XI (XO (XO (XO (XO (XI XH))))))) :: ((Zpos (XO (XO
    (XO (XO (XI (XI XH))))))) :: [])))), (Zpos XH)) :: ((((Zpos (XO (XO (XO
    (XO (XI (XI XH))))))) :: ((Zpos (XO (XI (XO (XO (XI (XI
    XH))))))) :: ((Zpos (XI (XO (XI (XO (XO (XI XH))))))) :: []))), (Zpos (XO
    XH))) :: ((((Zpos (XI (XO (XO (XO (XO (XI XH))))))) :: ((Zpos (XO (XO (XI
    (XI (XO (XI XH))))))) :: ((Zpos (XO (XO (XO (XO (XI (XI
    XH))))))) :: ((Zpos (XO (XO (XO (XI (XO (XI XH))))))) :: ((Zpos (XI (XO
    (XO (XO (XO (XI XH))))))) :: []))))), (Zpos (XI XH))) :: ((((Zpos (XO (XI
    (XO (XO (XO (XI XH))))))) :: ((Zpos (XI (XO (XI (XO (XO (XI
    XH))))))) :: ((Zpos (XO (XO (XI (XO (XI (XI XH))))))) :: ((Zpos (XI (XO
    (XO (XO (XO (XI XH))))))) :: [])))), (Zpos (XO (XO XH)))) :: ((((Zpos (XO
    (XI (XO (XO (XI (XI XH))))))) :: ((Zpos (XI (XI (XO (XO (XO (XI
    XH))))))) :: [])), (Zpos (XI (XO XH)))) :: []))))

(** val vc_tail1 : z list list **)

let vc_tail1 =
  ((Zpos (XI (XI (XO (XO (XI (XI XH))))))) :: ((Zpos (XO (XI (XI (XI (XO (XI
    XH))))))) :: ((Zpos (XI (XO (XO (XO (XO (XI XH))))))) :: ((Zpos (XO (XO
    (XO (XO (XI (XI XH))))))) :: [])))) :: (((Zpos (XO (XO (XO (XO (XI (XI
    XH))))))) :: ((Zpos (XO (XI (XO (XO (XI (XI XH))))))) :: ((Zpos (XI (XO
    (XI (XO (XO (XI XH))))))) :: []))) :: (((Zpos (XI (XO (XO (XO (XO (XI
    XH))))))) :: ((Zpos (XO (XO (XI (XI (XO (XI XH))))))) :: ((Zpos (XO (XO
    (XO (XO (XI (XI XH))))))) :: ((Zpos (XO (XO (XO (XI (XO (XI
    XH))))))) :: ((Zpos (XI (XO (XO (XO (XO (XI
    XH))))))) :: []))))) :: (((Zpos (XO (XI (XO (XO (XO (XI
    XH))))))) :: ((Zpos (XI (XO (XI (XO (XO (XI XH))))))) :: ((Zpos (XO (XO
    (XI (XO (XI (XI XH))))))) :: ((Zpos (XI (XO (XO (XO (XO (XI
    XH))))))) :: [])))) :: [])))

(** val vc_tail1_yes : comparison **)

let vc_tail1_yes =
  Lt

(** val vc_tail1_no : comparison **)

let vc_tail1_no =
  Gt

(** val vc_tail2 : z list list **)

let vc_tail2 =
  ((Zpos (XI (XI (XO (XO (XI (XI XH))))))) :: ((Zpos (XO (XI (XI (XI (XO (XI
    XH))))))) :: ((Zpos (XI (XO (XO (XO (XO (XI XH))))))) :: ((Zpos (XO (XO
    (XO (XO (XI (XI XH))))))) :: [])))) :: (((Zpos (XO (XO (XO (XO (XI (XI
    XH))))))) :: ((Zpos (XO (XI (XO (XO (XI (XI XH))))))) :: ((Zpos (XI (XO
    (XI (XO (XO (XI XH))))))) :: []))) :: (((Zpos (XI (XO (XO (XO (XO (XI
    XH))))))) :: ((Zpos (XO (XO (XI (XI (XO (XI XH))))))) :: ((Zpos (XO (XO
    (XO (XO (XI (XI XH))))))) :: ((Zpos (XO (XO (XO (XI (XO (XI
    XH))))))) :: ((Zpos (XI (XO (XO (XO (XO (XI
    XH))))))) :: []))))) :: (((Zpos (XO (XI (XO (XO (XO (XI
    XH))))))) :: ((Zpos (XI (XO (XI (XO (XO (XI XH))))))) :: ((Zpos (XO (XO
    (XI (XO (XI (XI XH))))))) :: ((Zpos (XI (XO (XO (XO (XO (XI
    XH))))))) :: [])))) :: [])))

(** val vc_tail2_yes : comparison **)

let vc_tail2_yes =
  Gt

(** val vc_tail2_no : comparison **)

let vc_tail2_no =
  Lt

(** val map_str : (z -> z) -> buf -> buf res **)

let rec map_str f b = match b with
| [] -> Fault OOB_read
| c0 :: t ->
  (match c0 with
   | Some c ->
     if Z.eqb c Z0
     then Ok b
     else bind (map_str f t) (fun t' -> Ok ((Some (f c)) :: t'))
   | None -> Fault Uninit_read)

(** val downcase_str : buf -> buf res **)

let downcase_str =
  map_str tolower

(** val cmp_of_int : z -> comparison **)

let cmp_of_int i =
  if Z.ltb i Z0 then Lt else if Z.gtb i Z0 then Gt else Eq

(** val peek : z list -> z **)

let peek = function
| [] -> Z0
| c :: _ -> c

(** val ispunct' : z -> bool **)

let ispunct' c =
  negb (isalnum c)

(** val strcmp_c : (z -> z) -> buf -> buf -> z res **)

let rec strcmp_c f b1 b2 =
  match b1 with
  | [] -> Fault OOB_read
  | c :: t1 ->
    (match c with
     | Some c1 ->
       (match b2 with
        | [] -> Fault OOB_read
        | c0 :: t2 ->
          (match c0 with
           | Some c2 ->
             if Z.eqb (f c1) (f c2)
             then if Z.eqb c1 Z0 then Ok Z0 else strcmp_c f t1 t2
             else Ok (Z.sub (f c1) (f c2))
           | None -> Fault Uninit_read))
     | None -> Fault Uninit_read)

(** val idb : z -> z **)

let idb c =
  c

(** val strcasecmp_l : z list -> z list -> z **)

let rec strcasecmp_l a b =
  match a with
  | [] -> (match b with
           | [] -> Z0
           | c2 :: _ -> Z.sub Z0 (tolower c2))
  | c1 :: a' ->
    (match b with
     | [] -> Z.sub (tolower c1) Z0
     | c2 :: b' ->
       if Z.eqb (tolower c1) (tolower c2)
       then strcasecmp_l a' b'
       else Z.sub (tolower c1) (tolower c2))

(** val strncmp_l : z list -> z list -> nat -> z **)

let rec strncmp_l a b = function
| O -> Z0
| S n' ->
  let c1 = peek a in
  let c2 = peek b in
  if Z.eqb c1 c2
  then if Z.eqb c1 Z0 then Z0 else strncmp_l (tl a) (tl b) n'
  else Z.sub c1 c2

(** val beg_ci : z list -> z list -> bool **)

let rec beg_ci v = function
| [] -> true
| l :: lit' ->
  (match v with
   | [] -> false
   | c :: v' -> (&&) (Z.eqb (tolower c) (tolower l)) (beg_ci v' lit'))

(** val copy_run :
    bool -> (z -> bool) -> z list -> buf -> nat -> ((z list * buf) * nat) res **)

let rec copy_run bounded cls v b p =
  match v with
  | [] -> Ok ((v, b), p)
  | c :: v' ->
    if cls c
    then if (&&) bounded (negb (Nat.ltb p (sub (length b) (S O))))
         then copy_run bounded cls v' b p
         else bind (wrn b p c) (fun b' -> copy_run bounded cls v' b' (S p))
    else Ok ((v, b), p)

(** val copy_runs :
    bool -> (z -> bool) -> z list -> z list -> buf -> buf -> (((z list * z
    list) * buf) * buf) res **)

let copy_runs bounded cls v1 v2 b1 b2 =
  bind (copy_run bounded cls v1 b1 O) (fun x ->
    let (p, p1) = x in
    let (v1', b3) = p in
    bind (copy_run bounded cls v2 b2 O) (fun x0 ->
      let (p0, p2) = x0 in
      let (v2', b4) = p0 in
      bind (wrn b4 p2 Z0) (fun b5 ->
        bind (wrn b3 p1 Z0) (fun b6 -> Ok (((v1', v2'), b6), b5)))))

(** val word_rank : (z list * z) list -> z -> buf -> z res **)

let rec word_rank tbl dflt b =
  match tbl with
  | [] -> Ok dflt
  | p :: tbl' ->
    let (w, r) = p in
    bind (strcmp_c idb b (cstr w [])) (fun c ->
      if Z.eqb c Z0 then Ok r else word_rank tbl' dflt b)

(** val skip_zeros : z list -> z list **)

let rec skip_zeros v = match v with
| [] -> []
| c :: v' ->
  if Z.eqb c (Zpos (XO (XO (XO (XO (XI XH)))))) then skip_zeros v' else v

(** val span_digits : z list -> z list * z list **)

let rec span_digits v = match v with
| [] -> ([], [])
| c :: v' ->
  if isdigit c then let (d, r) = span_digits v' in ((c :: d), r) else ([], v)

(** val tail_rule :
    z list list -> comparison -> comparison -> z list -> comparison **)

let tail_rule tbl yes no v =
  if existsb (beg_ci v) tbl then yes else no

(** val vc_loop :
    bool -> bool -> nat -> z list -> z list -> buf -> buf -> comparison res **)

let rec vc_loop bounded fixed_mismatch fuel v1 v2 b1 b2 =
  match fuel with
  | O -> Fault Out_of_fuel
  | S fuel' ->
    let c1 = peek v1 in
    let c2 = peek v2 in
    if (&&) (negb (Z.eqb c1 Z0)) (negb (Z.eqb c2 Z0))
    then if (&&) (isalpha c1) (isalpha c2)
         then bind (copy_runs bounded isalpha v1 v2 b1 b2) (fun x ->
                let (p, b3) = x in
                let (p0, b4) = p in
                let (v1', v2') = p0 in
                bind (downcase_str b4) (fun b5 ->
                  bind (downcase_str b3) (fun b6 ->
                    bind (word_rank vc_words1 vc_default1 b5) (fun i1 ->
                      bind (word_rank vc_words2 vc_default2 b6) (fun i2 ->
                        if negb (Z.eqb i1 i2)
                        then Ok (cmp_of_int (Z.sub i1 i2))
                        else if Z.eqb i1 vc_arbitrary
                             then bind (strcmp_c idb b5 b6) (fun c ->
                                    if negb (Z.eqb c Z0)
                                    then Ok (cmp_of_int c)
                                    else vc_loop bounded fixed_mismatch fuel'
                                           v1' v2' b5 b6)
                             else vc_loop bounded fixed_mismatch fuel' v1'
                                    v2' b5 b6)))))
         else if (&&) (isdigit c1) (isdigit c2)
              then let (d1, r1) = span_digits (skip_zeros v1) in
                   let (d2, r2) = span_digits (skip_zeros v2) in
                   let c =
                     if negb (Nat.eqb (length d1) (length d2))
                     then if Nat.ltb (length d1) (length d2) then Lt else Gt
                     else cmp_of_int (strncmp_l d1 d2 (length d1))
                   in
                   (match c with
                    | Eq -> vc_loop bounded fixed_mismatch fuel' r1 r2 b1 b2
                    | _ -> Ok c)
              else if (&&) (ispunct' c1) (ispunct' c2)
                   then bind (copy_runs bounded ispunct' v1 v2 b1 b2)
                          (fun x ->
                          let (p, b3) = x in
                          let (p0, b4) = p in
                          let (v1', v2') = p0 in
                          bind (strcmp_c tolower b4 b3) (fun c ->
                            match cmp_of_int c with
                            | Eq ->
                              vc_loop bounded fixed_mismatch fuel' v1' v2' b4
                                b3
                            | x0 -> Ok x0))
                   else if fixed_mismatch
                        then Ok (cmp_of_int (strcasecmp_l v1 v2))
                        else bind (strcmp_c tolower b1 b2) (fun c -> Ok
                               (cmp_of_int c))
    else if negb (Z.eqb c1 Z0)
         then Ok (tail_rule vc_tail1 vc_tail1_yes vc_tail1_no v1)
         else if negb (Z.eqb c2 Z0)
              then Ok (tail_rule vc_tail2 vc_tail2_yes vc_tail2_no v2)
              else Ok Eq

(** val fresh : nat -> buf **)

let fresh n0 =
  repeat None n0

(** val vercmp_gen : bool -> bool -> z list -> z list -> comparison res **)

let vercmp_gen bounded fixed_mismatch a b =
  vc_loop bounded fixed_mismatch (S (length a)) a b (fresh vc_bufsz1)
    (fresh vc_bufsz2)

(** val vercmp : z list -> z list -> comparison res **)

let vercmp =
  vercmp_gen true true
