
(** val negb : bool -> bool **)

let negb = function
| true -> false
| false -> true

type nat =
| O
| S of nat

(** val fst : ('a1 * 'a2) -> 'a1 **)

let fst = function
| (x, _) -> x

(** val snd : ('a1 * 'a2) -> 'a2 **)

let snd = function
| (_, y) -> y

(** val length : 'a1 list -> nat **)

let rec length = function
| [] -> O
| _ :: l' -> S (length l')

(** val app : 'a1 list -> 'a1 list -> 'a1 list **)

let rec app l m =
  match l with
  | [] -> m
  | a :: l1 -> a :: (app l1 m)

type comparison =
| Eq
| Lt
| Gt

(** val compOpp : comparison -> comparison **)

let compOpp = function
| Eq -> Eq
| Lt -> Gt
| Gt -> Lt

module Coq__1 = struct
 (** val add : nat -> nat -> nat **)
 let rec add n0 m =
   match n0 with
   | O -> m
   | S p -> S (add p m)
end
include Coq__1

(** val mul : nat -> nat -> nat **)

let rec mul n0 m =
  match n0 with
  | O -> O
  | S p -> add m (mul p m)

(** val nth_error : 'a1 list -> nat -> 'a1 option **)

let rec nth_error l = function
| O -> (match l with
        | [] -> None
        | x :: _ -> Some x)
| S n1 -> (match l with
           | [] -> None
           | _ :: l0 -> nth_error l0 n1)

(** val rev : 'a1 list -> 'a1 list **)

let rec rev = function
| [] -> []
| x :: l' -> app (rev l') (x :: [])

(** val map : ('a1 -> 'a2) -> 'a1 list -> 'a2 list **)

let rec map f = function
| [] -> []
| a :: t -> (f a) :: (map f t)

(** val fold_left : ('a1 -> 'a2 -> 'a1) -> 'a2 list -> 'a1 -> 'a1 **)

let rec fold_left f l a0 =
  match l with
  | [] -> a0
  | b :: t -> fold_left f t (f a0 b)

(** val existsb : ('a1 -> bool) -> 'a1 list -> bool **)

let rec existsb f = function
| [] -> false
| a :: l0 -> (||) (f a) (existsb f l0)

(** val seq : nat -> nat -> nat list **)

let rec seq start = function
| O -> []
| S len0 -> start :: (seq (S start) len0)

type positive =
| XI of positive
| XO of positive
| XH

type n =
| N0
| Npos of positive

type z =
| Z0
| Zpos of positive
| Zneg of positive

module Pos =
 struct
  (** val succ : positive -> positive **)

  let rec succ = function
  | XI p -> XO (succ p)
  | XO p -> XI p
  | XH -> XO XH

  (** val add : positive -> positive -> positive **)

  let rec add x y =
    match x with
    | XI p ->
      (match y with
       | XI q -> XO (add_carry p q)
       | XO q -> XI (add p q)
       | XH -> XO (succ p))
    | XO p ->
      (match y with
       | XI q -> XI (add p q)
       | XO q -> XO (add p q)
       | XH -> XI p)
    | XH -> (match y with
             | XI q -> XO (succ q)
             | XO q -> XI q
             | XH -> XO XH)

  (** val add_carry : positive -> positive -> positive **)

  and add_carry x y =
    match x with
    | XI p ->
      (match y with
       | XI q -> XI (add_carry p q)
       | XO q -> XO (add_carry p q)
       | XH -> XI (succ p))
    | XO p ->
      (match y with
       | XI q -> XO (add_carry p q)
       | XO q -> XI (add p q)
       | XH -> XO (succ p))
    | XH ->
      (match y with
       | XI q -> XI (succ q)
       | XO q -> XO (succ q)
       | XH -> XI XH)

  (** val pred_double : positive -> positive **)

  let rec pred_double = function
  | XI p -> XI (XO p)
  | XO p -> XI (pred_double p)
  | XH -> XH

  (** val compare_cont : comparison -> positive -> positive -> comparison **)

  let rec compare_cont r x y =
    match x with
    | XI p ->
      (match y with
       | XI q -> compare_cont r p q
       | XO q -> compare_cont Gt p q
       | XH -> Gt)
    | XO p ->
      (match y with
       | XI q -> compare_cont Lt p q
       | XO q -> compare_cont r p q
       | XH -> Gt)
    | XH -> (match y with
             | XH -> r
             | _ -> Lt)

  (** val compare : positive -> positive -> comparison **)

  let compare =
    compare_cont Eq

  (** val iter_op : ('a1 -> 'a1 -> 'a1) -> positive -> 'a1 -> 'a1 **)

  let rec iter_op op p a =
    match p with
    | XI p0 -> op a (iter_op op p0 (op a a))
    | XO p0 -> iter_op op p0 (op a a)
    | XH -> a

  (** val to_nat : positive -> nat **)

  let to_nat x =
    iter_op Coq__1.add x (S O)

  (** val of_succ_nat : nat -> positive **)

  let rec of_succ_nat = function
  | O -> XH
  | S x -> succ (of_succ_nat x)
 end

module Z =
 struct
  (** val double : z -> z **)

  let double = function
  | Z0 -> Z0
  | Zpos p -> Zpos (XO p)
  | Zneg p -> Zneg (XO p)

  (** val succ_double : z -> z **)

  let succ_double = function
  | Z0 -> Zpos XH
  | Zpos p -> Zpos (XI p)
  | Zneg p -> Zneg (Pos.pred_double p)

  (** val pred_double : z -> z **)

  let pred_double = function
  | Z0 -> Zneg XH
  | Zpos p -> Zpos (Pos.pred_double p)
  | Zneg p -> Zneg (XI p)

  (** val pos_sub : positive -> positive -> z **)

  let rec pos_sub x y =
    match x with
    | XI p ->
      (match y with
       | XI q -> double (pos_sub p q)
       | XO q -> succ_double (pos_sub p q)
       | XH -> Zpos (XO p))
    | XO p ->
      (match y with
       | XI q -> pred_double (pos_sub p q)
       | XO q -> double (pos_sub p q)
       | XH -> Zpos (Pos.pred_double p))
    | XH ->
      (match y with
       | XI q -> Zneg (XO q)
       | XO q -> Zneg (Pos.pred_double q)
       | XH -> Z0)

  (** val add : z -> z -> z **)

  let add x y =
    match x with
    | Z0 -> y
    | Zpos x' ->
      (match y with
       | Z0 -> x
       | Zpos y' -> Zpos (Pos.add x' y')
       | Zneg y' -> pos_sub x' y')
    | Zneg x' ->
      (match y with
       | Z0 -> x
       | Zpos y' -> pos_sub y' x'
       | Zneg y' -> Zneg (Pos.add x' y'))

  (** val opp : z -> z **)

  let opp = function
  | Z0 -> Z0
  | Zpos x0 -> Zneg x0
  | Zneg x0 -> Zpos x0

  (** val sub : z -> z -> z **)

  let sub m n0 =
    add m (opp n0)

  (** val compare : z -> z -> comparison **)

  let compare x y =
    match x with
    | Z0 -> (match y with
             | Z0 -> Eq
             | Zpos _ -> Lt
             | Zneg _ -> Gt)
    | Zpos x' -> (match y with
                  | Zpos y' -> Pos.compare x' y'
                  | _ -> Gt)
    | Zneg x' ->
      (match y with
       | Zneg y' -> compOpp (Pos.compare x' y')
       | _ -> Lt)

  (** val leb : z -> z -> bool **)

  let leb x y =
    match compare x y with
    | Gt -> false
    | _ -> true

  (** val ltb : z -> z -> bool **)

  let ltb x y =
    match compare x y with
    | Lt -> true
    | _ -> false

  (** val to_nat : z -> nat **)

  let to_nat = function
  | Zpos p -> Pos.to_nat p
  | _ -> O

  (** val of_nat : nat -> z **)

  let of_nat = function
  | O -> Z0
  | S n1 -> Zpos (Pos.of_succ_nat n1)
 end

type fault =
| OOB_read
| OOB_write
| Uninit_read
| Null_deref
| Use_after_free
| Bad_free
| Out_of_fuel
| Int_overflow
| Abort

type 'a res =
| Ok of 'a
| Fault of fault

(** val is_ok : 'a1 res -> bool **)

let is_ok = function
| Ok _ -> true
| Fault _ -> false

(** val num_anchor : ((nat * positive) * n) * z **)

let num_anchor =
  (((O, XH), N0), Z0)

type key = z list

type elem = { eid : nat; ekey : key }

(** val key_cmp : key -> key -> comparison **)

let rec key_cmp a b =
  match a with
  | [] -> (match b with
           | [] -> Eq
           | _ :: _ -> Lt)
  | x :: a' ->
    (match b with
     | [] -> Gt
     | y :: b' -> (match Z.compare x y with
                   | Eq -> key_cmp a' b'
                   | x0 -> x0))

(** val key_eqb : key -> key -> bool **)

let key_eqb a b =
  match key_cmp a b with
  | Eq -> true
  | _ -> false

(** val key_gtb : key -> key -> bool **)

let key_gtb a b =
  match key_cmp a b with
  | Gt -> true
  | _ -> false

type out =
| OBool of bool
| OInt of z
| OElem of elem option
| OElems of elem option list
| ODup of z * key option list * key option list
| OText of key option
| OPair of (key * key) option
| OTexts of key list
| OPairs of (key * key) list
| OUnit

type 'a iter = 'a list

(** val it_new : 'a1 list -> 'a1 iter **)

let it_new xs =
  xs

(** val it_has_next : 'a1 iter -> bool **)

let it_has_next = function
| [] -> false
| _ :: _ -> true

(** val it_next : 'a1 iter -> 'a1 option * 'a1 iter **)

let it_next = function
| [] -> (None, [])
| x :: t -> ((Some x), t)

(** val it_sweep : nat -> 'a1 iter -> 'a1 list * bool **)

let rec it_sweep fuel it =
  match fuel with
  | O -> ([], (negb (it_has_next it)))
  | S f ->
    if it_has_next it
    then let (o, it') = it_next it in
         (match o with
          | Some x -> let (l, b) = it_sweep f it' in ((x :: l), b)
          | None -> ([], false))
    else ([], true)

type lstate = elem option list

(** val gt_slot : elem -> elem option -> bool **)

let gt_slot e = function
| Some x -> key_gtb e.ekey x.ekey
| None -> true

(** val eq_slot : key -> elem option -> bool **)

let eq_slot p = function
| Some x -> key_eqb p x.ekey
| None -> false

(** val llen : lstate -> z **)

let llen xs =
  Z.of_nat (length xs)

(** val norm_idx : z -> z -> z **)

let norm_idx len idx =
  if Z.ltb idx Z0 then Z.add idx len else idx

(** val ins_ordered : elem -> lstate -> lstate **)

let rec ins_ordered e xs = match xs with
| [] -> (Some e) :: []
| s :: t -> if gt_slot e s then s :: (ins_ordered e t) else (Some e) :: xs

(** val ins_at : nat -> elem -> lstate -> lstate **)

let rec ins_at n0 e xs =
  match n0 with
  | O -> (Some e) :: xs
  | S n' ->
    (match xs with
     | [] -> None :: (ins_at n' e [])
     | s :: t -> s :: (ins_at n' e t))

(** val l_insert_at : lstate -> z -> elem -> lstate * bool **)

let l_insert_at xs idx e =
  let i = norm_idx (llen xs) idx in
  if Z.ltb i Z0 then (xs, false) else ((ins_at (Z.to_nat i) e xs), true)

(** val rem_first : key -> lstate -> lstate * elem option **)

let rec rem_first p = function
| [] -> ([], None)
| s :: t ->
  if eq_slot p s
  then (t, s)
  else let (t', r) = rem_first p t in ((s :: t'), r)

(** val rem_nth : nat -> 'a1 list -> 'a1 list **)

let rec rem_nth n0 xs =
  match n0 with
  | O -> (match xs with
          | [] -> []
          | _ :: t -> t)
  | S n' -> (match xs with
             | [] -> []
             | x :: t -> x :: (rem_nth n' t))

(** val slot_at : lstate -> nat -> elem option **)

let slot_at xs n0 =
  match nth_error xs n0 with
  | Some s -> s
  | None -> None

(** val in_range : lstate -> z -> nat option **)

let in_range xs idx =
  let i = norm_idx (llen xs) idx in
  if (||) (Z.ltb i Z0) (Z.leb (llen xs) i) then None else Some (Z.to_nat i)

(** val l_get : lstate -> z -> elem option **)

let l_get xs idx =
  match in_range xs idx with
  | Some n0 -> slot_at xs n0
  | None -> None

(** val l_remove_at : lstate -> z -> lstate * elem option **)

let l_remove_at xs idx =
  match in_range xs idx with
  | Some n0 -> ((rem_nth n0 xs), (slot_at xs n0))
  | None -> (xs, None)

(** val index_from : key -> lstate -> z -> z **)

let rec index_from p xs i =
  match xs with
  | [] -> Zneg XH
  | s :: t -> if eq_slot p s then i else index_from p t (Z.add i (Zpos XH))

(** val l_index : lstate -> key -> z **)

let l_index xs p =
  index_from p xs Z0

(** val l_find : lstate -> key -> elem option **)

let rec l_find xs p =
  match xs with
  | [] -> None
  | s :: t -> if eq_slot p s then s else l_find t p

(** val slot_key : elem option -> key option **)

let slot_key = function
| Some x -> Some x.ekey
| None -> None

type lop =
| LAppend of elem
| LPrepend of elem
| LInsert of elem
| LInsertAt of z * elem
| LRemove of elem option
| LRemoveAt of z
| LGet of z
| LIndex of elem
| LFind of elem option
| LContains of elem option
| LCount
| LReverse
| LToArray
| LIterate
| LDup

(** val is_some : 'a1 option -> bool **)

let is_some = function
| Some _ -> true
| None -> false

(** val list_step : lstate -> lop -> lstate * out **)

let list_step xs = function
| LAppend e -> ((app xs ((Some e) :: [])), (OBool true))
| LPrepend e -> (((Some e) :: xs), (OBool true))
| LInsert e -> ((ins_ordered e xs), (OBool true))
| LInsertAt (idx, e) ->
  let (xs', ok) = l_insert_at xs idx e in (xs', (OBool ok))
| LRemove p0 ->
  (match p0 with
   | Some p -> let (xs', r) = rem_first p.ekey xs in (xs', (OElem r))
   | None -> (xs, (OElem None)))
| LRemoveAt idx -> let (xs', r) = l_remove_at xs idx in (xs', (OElem r))
| LGet idx -> (xs, (OElem (l_get xs idx)))
| LIndex p -> (xs, (OInt (l_index xs p.ekey)))
| LFind p0 ->
  (match p0 with
   | Some p -> (xs, (OElem (l_find xs p.ekey)))
   | None -> (xs, (OElem None)))
| LContains p0 ->
  (match p0 with
   | Some p -> (xs, (OBool (is_some (l_find xs p.ekey))))
   | None -> (xs, (OBool false)))
| LCount -> (xs, (OInt (llen xs)))
| LReverse -> ((rev xs), (OBool true))
| LToArray -> (xs, (OElems xs))
| LIterate -> (xs, (OElems (fst (it_sweep (S (length xs)) (it_new xs)))))
| LDup -> (xs, (ODup ((llen xs), (map slot_key xs), (map slot_key xs))))

type vstate = elem list

(** val v_ins : elem -> vstate -> vstate **)

let rec v_ins e xs = match xs with
| [] -> e :: []
| x :: t -> if key_gtb e.ekey x.ekey then x :: (v_ins e t) else e :: xs

(** val v_rem : key -> vstate -> vstate * elem option **)

let rec v_rem p = function
| [] -> ([], None)
| x :: t ->
  if key_eqb p x.ekey
  then (t, (Some x))
  else let (t', r) = v_rem p t in ((x :: t'), r)

(** val v_find : vstate -> key -> elem option **)

let rec v_find xs p =
  match xs with
  | [] -> None
  | x :: t -> if key_eqb p x.ekey then Some x else v_find t p

type vop =
| VInsert of elem
| VRemove of elem
| VFind of elem
| VContains of elem
| VCount
| VIterate
| VToArray

(** val vec_step : vstate -> vop -> vstate * out **)

let vec_step xs = function
| VInsert e -> ((v_ins e xs), (OBool true))
| VRemove p -> let (xs', r) = v_rem p.ekey xs in (xs', (OElem r))
| VFind p -> (xs, (OElem (v_find xs p.ekey)))
| VContains p -> (xs, (OBool (is_some (v_find xs p.ekey))))
| VCount -> (xs, (OInt (Z.of_nat (length xs))))
| VIterate ->
  (xs, (OElems
    (map (fun x -> Some x) (fst (it_sweep (S (length xs)) (it_new xs))))))
| VToArray -> (xs, (OElems (map (fun x -> Some x) xs)))

type mstate = (key * key) list

(** val m_set : key -> key -> mstate -> mstate * bool **)

let rec m_set k v m = match m with
| [] -> (((k, v) :: []), false)
| p :: t ->
  let (k', v') = p in
  (match key_cmp k k' with
   | Eq -> (((k', v) :: t), true)
   | Lt -> (((k, v) :: m), false)
   | Gt -> let (t', r) = m_set k v t in (((k', v') :: t'), r))

(** val m_get : mstate -> key -> key option **)

let rec m_get m k =
  match m with
  | [] -> None
  | p :: t -> let (k', v') = p in if key_eqb k k' then Some v' else m_get t k

(** val m_remove : key -> mstate -> mstate * (key * key) option **)

let rec m_remove k = function
| [] -> ([], None)
| p :: t ->
  let (k', v') = p in
  if key_eqb k k'
  then (t, (Some (k', v')))
  else let (t', r) = m_remove k t in (((k', v') :: t'), r)

(** val m_has_value : mstate -> key -> bool **)

let m_has_value m v =
  existsb (fun p -> key_eqb (snd p) v) m

type mop =
| MSet of key * key
| MGet of key
| MRemove of key
| MHasKey of key
| MHasValue of key
| MCount
| MGetKeys
| MGetValues
| MGetPairs
| MIterate
| MMutK of key
| MMutV of key
| MDelK
| MDelV

(** val map_step : mstate -> mop -> mstate * out **)

let map_step m = function
| MSet (k, v) -> let (m', r) = m_set k v m in (m', (OBool r))
| MGet k -> (m, (OText (m_get m k)))
| MRemove k -> let (m', r) = m_remove k m in (m', (OPair r))
| MHasKey k -> (m, (OBool (is_some (m_get m k))))
| MHasValue v -> (m, (OBool (m_has_value m v)))
| MCount -> (m, (OInt (Z.of_nat (length m))))
| MGetKeys -> (m, (OTexts (map fst m)))
| MGetValues -> (m, (OTexts (map snd m)))
| MGetPairs -> (m, (OPairs m))
| MIterate -> (m, (OPairs (fst (it_sweep (S (length m)) (it_new m)))))
| _ -> (m, OUnit)

(** val final : ('a1 -> 'a2 -> 'a1 * out) -> 'a1 -> 'a2 list -> 'a1 **)

let final step s ops =
  fold_left (fun s0 op -> fst (step s0 op)) ops s

(** val outs : ('a1 -> 'a2 -> 'a1 * out) -> 'a1 -> 'a2 list -> out list **)

let rec outs step s = function
| [] -> []
| op :: t -> (snd (step s op)) :: (outs step (fst (step s op)) t)

(** val run :
    ('a1 -> 'a2 -> 'a1 * out) -> 'a1 -> 'a2 list -> 'a1 * out list **)

let run step s ops =
  ((final step s ops), (outs step s ops))

(** val list_readback :
    lstate -> (z * elem option list) * elem option list **)

let list_readback xs =
  let n0 = llen xs in
  ((n0,
  (map (fun i -> l_get xs (Z.sub (Z.sub (Z.of_nat i) n0) (Zpos XH)))
    (seq O (add (mul (S (S O)) (length xs)) (S (S O)))))),
  (fst (it_sweep (S (length xs)) (it_new xs))))
