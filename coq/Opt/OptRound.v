(* C08, part 2: the round trip.  A command line rendered from a list of spellings is parsed to
   exactly the ideal reading of that list.

   Structure: (A) lookups of the model against the lookups of the specification, (B) computation
   rules for the pieces of the loop body under the facts a well-formed spelling provides, (C) one
   equation per kind of spelling: "step from the start of the spelling = the rest of the loop at
   the start of the next one, with the ideal effect applied", (D) induction over the spelling
   list, the epilogue (argv compaction) and the theorem. *)
From LV Require Import Base.Buf Gen.OptGen Opt.OptModel Opt.OptSafe.
Local Open Scope nat_scope.
Arguments slot_upd : simpl never.
Arguments skipn : simpl never.
Arguments has : simpl never.
Arguments to_int : simpl never.
Arguments strtol0 : simpl never.
Arguments istrue : simpl never.
Arguments isfalse : simpl never.
Arguments is_boolean_value : simpl never.
Arguments find_long : simpl never.
Arguments find_short : simpl never.
Arguments long_matches : simpl never.
Arguments num_words : simpl never.
Arguments get_word : simpl never.

(* ---------------------------------------------------------------------------------- *)
(* A. strings and lookups                                                              *)
(* ---------------------------------------------------------------------------------- *)
Lemma nz_word_forall w : nz_word w = true <-> Forall (fun c => c <> 0%Z) w.
Proof.
  unfold nz_word. rewrite forallb_forall, Forall_forall. split; intros H c Hc.
  - specialize (H c Hc). apply negb_true_iff in H. now apply Z.eqb_neq.
  - apply negb_true_iff. apply Z.eqb_neq. auto.
Qed.

Lemma take_nz_id w : nz_word w = true -> take_nz w = w.
Proof.
  induction w as [|c t IH]; simpl; intros H; [reflexivity|].
  apply andb_true_iff in H. destruct H as [H1 H2]. apply negb_true_iff in H1. rewrite H1. now rewrite IH.
Qed.

Lemma nz_word_skipn w k : nz_word w = true -> nz_word (skipn k w) = true.
Proof.
  revert k; induction w as [|c t IH]; intros [|k] H; auto.
  simpl in H. apply andb_true_iff in H. destruct H. rewrite skipn_cons. auto.
Qed.

Lemma nz_word_app a b : nz_word (a ++ b) = nz_word a && nz_word b.
Proof. unfold nz_word. apply forallb_app. Qed.

Lemma bytes_eqb_eq a b : bytes_eqb a b = true <-> a = b.
Proof.
  revert b; induction a as [|x a IH]; intros [|y b]; simpl; split; intros H; try discriminate; auto.
  - apply andb_true_iff in H. destruct H as [H1 H2]. apply Z.eqb_eq in H1. apply IH in H2. congruence.
  - inversion H; subst. rewrite Z.eqb_refl. simpl. now apply IH.
Qed.

Lemma tolower_eq61 c : tolower c = 61%Z -> c = 61%Z.
Proof.
  unfold tolower, isupper. destruct ((65 <=? c)%Z && (c <=? 90)%Z) eqn:E; [|auto].
  apply andb_true_iff in E. destruct E as [E1 E2]. apply Z.leb_le in E1. apply Z.leb_le in E2. lia.
Qed.

Lemma no_eq_forall w : no_eq w = true <-> ~ In 61%Z w.
Proof.
  unfold no_eq. rewrite forallb_forall. split.
  - intros H Hin. specialize (H _ Hin). now rewrite Z.eqb_refl in H.
  - intros H c Hc. apply negb_true_iff. apply Z.eqb_neq. intros ->. auto.
Qed.

Lemma lower_no61 w : no_eq w = true -> ~ In 61%Z (lower w).
Proof.
  intros H Hin. apply no_eq_forall in H. apply H. unfold lower in Hin. apply in_map_iff in Hin.
  destruct Hin as (c & Hc & Hin). apply tolower_eq61 in Hc. now subst.
Qed.

Lemma lower_length w : length (lower w) = length w.
Proof. apply map_length. Qed.
Lemma lower_app a b : lower (a ++ b) = lower a ++ lower b.
Proof. apply map_app. Qed.

(* a long name in the table matches "name" or "name=value" exactly when it equals name, case ignored *)
Lemma long_matches_spec lo l suffix :
  no_eq lo = true -> no_eq l = true -> (suffix = [] \/ exists v, suffix = 61%Z :: v) ->
  long_matches lo (l ++ suffix) = streq_ci lo l.
Proof.
  intros Hlo Hl Hsuf. unfold long_matches, streq_ci.
  destruct (bytes_eqb (lower lo) (lower l)) eqn:E.
  - apply bytes_eqb_eq in E. assert (Hlen : length lo = length l) by (rewrite <- (lower_length lo), <- (lower_length l), E; reflexivity).
    rewrite Hlen, firstn_app, Nat.sub_diag, firstn_all, firstn_O, app_nil_r.
    replace (length l <=? length (l ++ suffix)) with true by (symmetry; apply Nat.leb_le; rewrite app_length; lia).
    rewrite (proj2 (bytes_eqb_eq _ _) E). simpl.
    rewrite nth_error_app2, Nat.sub_diag by lia.
    destruct Hsuf as [->|(v & ->)]; reflexivity.
  - destruct (length lo <=? length (l ++ suffix)) eqn:Ele; simpl; [|reflexivity].
    destruct (bytes_eqb (lower lo) (lower (firstn (length lo) (l ++ suffix)))) eqn:E2; simpl; [|reflexivity].
    apply bytes_eqb_eq in E2. apply Nat.leb_le in Ele.
    destruct (Nat.lt_trichotomy (length lo) (length l)) as [Hlt|[Heq|Hgt]].
    + rewrite nth_error_app1 by assumption.
      destruct (nth_error l (length lo)) as [c|] eqn:En.
      * apply nth_error_In in En. apply no_eq_forall in Hl.
        destruct (Z.eqb c 61) eqn:Ec; [|reflexivity]. apply Z.eqb_eq in Ec. subst. contradiction.
      * apply nth_error_None in En. lia.
    + rewrite Heq, firstn_app, Nat.sub_diag, firstn_all, firstn_O, app_nil_r in E2.
      rewrite E2 in E. assert (bytes_eqb (lower l) (lower l) = true) by now apply bytes_eqb_eq. congruence.
    + exfalso. destruct Hsuf as [->|(v & ->)].
      * rewrite app_nil_r in Ele. lia.
      * apply (lower_no61 lo Hlo). rewrite E2. rewrite firstn_app, firstn_all2 by lia.
        rewrite lower_app. apply in_or_app. right.
        replace (length lo - length l) with (S (length lo - length l - 1)) by lia.
        simpl. now left.
Qed.

Lemma find_idx_find {A} (f : A -> bool) l k o :
  find f l = Some o -> exists j, find_idx f l k = Some (k + j) /\ nth_error l j = Some o.
Proof.
  revert k; induction l as [|x t IH]; intros k H; simpl in *; [discriminate|].
  destruct (f x).
  - inversion H; subst. exists 0. rewrite Nat.add_0_r. auto.
  - destruct (IH (S k) H) as (j & Hj & Hn). exists (S j). rewrite <- Nat.add_succ_comm. auto.
Qed.

Lemma find_ext_in {A} (f g : A -> bool) l : (forall x, In x l -> f x = g x) -> find f l = find g l.
Proof.
  induction l as [|x t IH]; intros H; simpl; [reflexivity|].
  rewrite (H x (or_introl eq_refl)). destruct (g x); auto. apply IH. intros; apply H; now right.
Qed.

Lemma find_short_spec tbl x o :
  find_opt tbl (ByShort x) = Some o -> exists j, find_short tbl x = Some j /\ nth_error tbl j = Some o.
Proof. intros H. destruct (find_idx_find _ _ 0 _ H) as (j & Hj & Hn). exists j. auto. Qed.

Lemma names_ok_in tbl o : names_ok tbl = true -> In o tbl -> no_eq (o_long o) = true.
Proof.
  unfold names_ok. rewrite forallb_forall. intros H Hin. specialize (H o Hin).
  unfold name_ok in H. now apply andb_true_iff in H.
Qed.

Lemma find_long_spec tbl l suffix o :
  names_ok tbl = true -> name_ok l = true -> (suffix = [] \/ exists v, suffix = 61%Z :: v) ->
  find_opt tbl (ByLong l) = Some o ->
  exists j, find_long tbl (l ++ suffix) = Some j /\ nth_error tbl j = Some o.
Proof.
  intros Hn Hl Hs H. unfold name_ok in Hl. apply andb_true_iff in Hl. destruct Hl as [_ Hl].
  simpl in H.
  rewrite (find_ext_in _ (fun o => long_matches (o_long o) (l ++ suffix))) in H.
  - destruct (find_idx_find _ _ 0 _ H) as (j & Hj & Hnth). exists j. auto.
  - intros o' Hin. symmetry. apply long_matches_spec; auto. eapply names_ok_in; eauto.
Qed.

Lemma index_eq_app l v : no_eq l = true -> index_eq (l ++ 61%Z :: v) = Some (length l).
Proof.
  induction l as [|c t IH]; simpl; intros H; [reflexivity|].
  apply andb_true_iff in H. destruct H as [H1 H2]. apply negb_true_iff in H1. rewrite H1.
  now rewrite IH.
Qed.
Lemma index_eq_none l : no_eq l = true -> index_eq l = None.
Proof.
  induction l as [|c t IH]; simpl; intros H; [reflexivity|].
  apply andb_true_iff in H. destruct H as [H1 H2]. apply negb_true_iff in H1. rewrite H1.
  now rewrite IH.
Qed.

(* flag tests that follow from the kinds the side conditions allow *)
Lemma needs_value_false_kinds o :
  needs_value o = false -> is_string o = false /\ is_integer o = false /\ is_arglist o = false.
Proof.
  intros H. repeat split.
  - destruct (is_string o) eqn:E; auto. now rewrite (string_needs_value _ E) in H.
  - destruct (is_integer o) eqn:E; auto. now rewrite (integer_needs_value _ E) in H.
  - destruct (is_arglist o) eqn:E; auto. now rewrite (arglist_needs_value _ E) in H.
Qed.

(* ---------------------------------------------------------------------------------- *)
(* B. computation rules                                                                *)
(* ---------------------------------------------------------------------------------- *)
Lemma upd_upd_same {A} (l : list A) k v w : upd (upd l k v) k w = upd l k w.
Proof. revert k; induction l as [|x t IH]; intros [|k]; simpl; auto. now rewrite IH. Qed.

Lemma slot_upd_put {A} (l : list A) k f : k < length l -> slot_upd l (Some k) f = Ok (put l (Some k) f).
Proof.
  intros H. unfold slot_upd, put. destruct (nth_error l k) eqn:E; auto.
  apply nth_error_None in E. lia.
Qed.

Lemma put_length {A} (l : list A) slot f : length (put l slot f) = length l.
Proof. unfold put. destruct slot as [k|]; auto. destruct (nth_error l k); auto. apply upd_length. Qed.

Section Rules.
  Variable e : env.
  Variable n : nat.
  Hypothesis Hargc : e_argc e = length (e_strs e).
  Hypothesis Hnz : forall i s, nth_error (e_strs e) i = Some s -> nz_word s = true.
  Hypothesis Hnames : names_ok (e_tbl e) = true.
  Hypothesis Hwt : wf_table n (e_tbl e).
  Variable rec : st -> option ptr -> res outcome.

  (* "if (!PREPARSE && REMOVE_ARGS) argv[k] = NULL" *)
  Definition clr (a : list (option nat)) (k : nat) : list (option nat) :=
    if rm_active e then upd a k None else a.

  Lemma clr_length a k : length (clr a k) = length a.
  Proof. unfold clr. destruct (rm_active e); auto. apply upd_length. Qed.
  Lemma clr_idem a k : clr (clr a k) k = clr a k.
  Proof. unfold clr. destruct (rm_active e); auto. apply upd_upd_same. Qed.
  Lemma clr_other a k m : k <> m -> nth_error (clr a k) m = nth_error a m.
  Proof. unfold clr. destruct (rm_active e); auto. intros. now apply nth_error_upd_neq. Qed.

  Lemma getc_at i s k :
    nth_error (e_strs e) i = Some s -> k <= length s -> getc e (i, k) = Ok (nth k s 0%Z).
  Proof.
    intros H Hk. unfold getc, str_of. simpl. rewrite H. simpl.
    destruct (k <? length s) eqn:E; [reflexivity|].
    apply Nat.ltb_ge in E. assert (k = length s) by lia. subst. rewrite Nat.eqb_refl.
    now rewrite nth_overflow by lia.
  Qed.

  Lemma cstr_at_at i s k :
    nth_error (e_strs e) i = Some s -> k <= length s -> cstr_at e (i, k) = Ok (skipn k s).
  Proof.
    intros H Hk. unfold cstr_at, str_of. simpl. rewrite H. simpl.
    apply Nat.leb_le in Hk. rewrite Hk. f_equal. apply take_nz_id. apply nz_word_skipn. eauto.
  Qed.

  Lemma nth_nz i s k : nth_error (e_strs e) i = Some s -> k < length s -> (nth k s 0%Z =? 0)%Z = false.
  Proof.
    intros H Hk. apply Z.eqb_neq. pose proof (Hnz _ _ H) as Hn. apply nz_word_forall in Hn.
    rewrite Forall_forall in Hn. apply Hn. now apply nth_In.
  Qed.

  Lemma clear_arg_at s :
    st_i s < length (st_argv s) -> clear_arg e s = Ok (set_argv s (clr (st_argv s) (st_i s))).
  Proof.
    intros H. unfold clear_arg, clr. destruct (rm_active e); [|destruct s; reflexivity].
    unfold argv_set. apply Nat.ltb_lt in H. rewrite H. reflexivity.
  Qed.

  Lemma argv_get_at a k v : nth_error a k = Some v -> argv_get a k = Ok v.
  Proof. intros H. unfold argv_get. now rewrite H. Qed.

  (* the store after a flag occurrence of o, as the model computes it *)
  Lemma handle_boolean_flag o sto val :
    In o (e_tbl e) -> is_boolean o = true -> needs_value o = false -> wf_store n sto ->
    handle_boolean e o sto val false = Ok (assign (e_pre e) o AFlag sto, true).
  Proof.
    intros Hin Hb Hnv (W1 & _). unfold handle_boolean, assign, kind_of, should_parse. rewrite Hb.
    destruct Hwt as [Hs Hbo]. destruct (o_slot o) as [k|] eqn:Ek; [|exfalso; eapply Hbo; eauto].
    pose proof (Hs _ _ Hin Ek).
    assert (Hgo : (if Bool.eqb (e_pre e) (is_preparse o)
                   then b <- slot_upd (sb sto) (Some k) (or_mask o);; Ok (set_sb sto b) else Ok sto) =
                  Ok (if negb (Bool.eqb (e_pre e) (is_preparse o)) then sto
                      else set_sb sto (put (sb sto) (Some k) (or_mask o)))).
    { destruct (Bool.eqb (e_pre e) (is_preparse o)); simpl; auto. rewrite slot_upd_put by lia. reflexivity. }
    destruct val; rewrite Hgo; reflexivity.
  Qed.
  (* ---------------------------------------------------------------------------------- *)
  (* C. one equation per kind of spelling                                                *)
  (* ---------------------------------------------------------------------------------- *)
  (* what the parser finds behind argument i: the NULL at the end, or argument i + 1 untouched *)
  Definition nxt_ok (a : list (option nat)) (i : nat) (nxt : option nat) : Prop :=
    nth_error a (S i) = Some nxt /\
    (nxt = None \/ (nxt = Some (S i) /\ exists s1, nth_error (e_strs e) (S i) = Some s1)).

  Lemma nxt_cstr a i nxt v : nxt_ok a i nxt -> arg_ptr nxt = Some v -> exists vs, cstr_at e v = Ok vs /\ nth_error (e_strs e) (S i) = Some vs /\ v = (S i, 0).
  Proof.
    intros (_ & [->|(-> & s1 & Hs1)]) H; simpl in H; [discriminate|]. inversion H; subst.
    exists s1. rewrite (cstr_at_at _ _ 0 Hs1) by lia. auto.
  Qed.

  Lemma assign_none pre o a sto :
    is_boolean o = false -> needs_value o = false -> is_abstract o = false -> assign pre o a sto = sto.
  Proof.
    intros Hb Hn Ha. destruct (needs_value_false_kinds _ Hn) as (H1 & H2 & H3).
    unfold assign, kind_of. rewrite Hb, H1, H2, H3, Ha. destruct (negb _); reflexivity.
  Qed.

  Lemma tbl_get_at j o : nth_error (e_tbl e) j = Some o -> tbl_get e j = Ok o.
  Proof. intros H. unfold tbl_get. now rewrite H. Qed.

  (* a letter of a bundle of flags, the cursor on it *)
  Lemma lookup_flag sa sto sbad shelps snbad i str k x o nxt :
    nth_error (e_strs e) i = Some str -> nth_error str k = Some x -> letter_ok_b x = true ->
    find_opt (e_tbl e) (ByShort x) = Some o -> flag_kind o = true ->
    i < length sa -> nxt_ok sa i nxt -> wf_store n sto ->
    lookup e rec (mkst i sa sto sbad shelps snbad) (i, k) =
      let s' := mkst i (clr sa i) (assign (e_pre e) o AFlag sto) sbad shelps snbad in
      if S k <? length str then rec s' (Some (i, S k)) else rec (set_i s' (S i)) (arg_ptr nxt).
  Proof.
    intros Hstr Hx Hlet Hfind Hkind Hi Hnxt Hwf.
    assert (Hk : k < length str) by (apply nth_error_Some; congruence).
    unfold letter_ok_b in Hlet. apply andb_true_iff in Hlet. destruct Hlet as [Hx0 Hx45].
    apply negb_true_iff in Hx0. apply negb_true_iff in Hx45.
    unfold flag_kind in Hkind. apply andb_true_iff in Hkind. destruct Hkind as [Hnv Hab].
    apply negb_true_iff in Hnv. apply negb_true_iff in Hab.
    destruct (find_short_spec _ _ _ Hfind) as (j & Hj & Hnth).
    pose proof (nth_error_In _ _ Hnth) as Hin.
    unfold lookup. rewrite (getc_at _ _ _ Hstr) by lia. rewrite (nth_error_nth _ _ _ Hx). cbn [bind].
    rewrite Hx45, Hj. unfold after_find.
    rewrite clear_arg_at by (simpl; auto). cbn [bind set_argv st_i st_argv st_sto st_bad st_helps st_nbad].
    destruct Hnxt as (Hn1 & Hn2).
    rewrite (argv_get_at _ _ nxt) by (rewrite clr_other by lia; exact Hn1). cbn [bind].
    unfold find_value. cbn [fst snd]. rewrite (getc_at _ _ _ Hstr) by lia. cbn [bind].
    rewrite (tbl_get_at _ _ Hnth).
    (* every candidate value is dropped: short boolean, or an option that takes no value *)
    assert (Hdrop : forall (val : option ptr) hasequal,
               (forall v, val = Some v -> exists vs, cstr_at e v = Ok vs) ->
               (o' <- Ok o;;
                match val with
                | Some v =>
                    vs <- cstr_at e v;;
                    (if is_boolean o' && (negb false || negb (is_boolean_value vs))
                     then with_value e rec (mkst i (clr sa i) sto sbad shelps snbad) (i, k) o' nxt false hasequal None
                     else if is_abstract o'
                          then is_valid_option e vs (mkst i (clr sa i) sto sbad shelps snbad)
                                 (fun valid s => with_value e rec s (i, k) o' nxt false hasequal (if valid then None else val))
                          else if negb (needs_value o') && negb (is_boolean o')
                               then with_value e rec (mkst i (clr sa i) sto sbad shelps snbad) (i, k) o' nxt false hasequal None
                               else with_value e rec (mkst i (clr sa i) sto sbad shelps snbad) (i, k) o' nxt false hasequal val)
                | None => with_value e rec (mkst i (clr sa i) sto sbad shelps snbad) (i, k) o' nxt false hasequal None
                end) =
               with_value e rec (mkst i (clr sa i) sto sbad shelps snbad) (i, k) o nxt false hasequal None).
    { intros val hasequal Hv. cbn [bind]. destruct val as [v|]; [|reflexivity].
      destruct (Hv v eq_refl) as (vs & ->). cbn [bind].
      destruct (is_boolean o) eqn:Eb; cbn [negb orb andb]; [reflexivity|].
      rewrite Hab, Hnv. reflexivity. }
    (* from with_value on *)
    assert (Hwv : forall hasequal,
               with_value e rec (mkst i (clr sa i) sto sbad shelps snbad) (i, k) o nxt false hasequal None =
               next_letter e rec (mkst i (clr sa i) (assign (e_pre e) o AFlag sto) sbad shelps snbad) (i, k)).
    { intros hasequal. unfold with_value, consume_value. cbn [is_some andb bind].
      rewrite Hnv, Hab. cbn [andb]. unfold dispatch. cbn [bind].
      destruct (is_boolean o) eqn:Eb.
      - cbn [st_sto]. rewrite (handle_boolean_flag _ _ None Hin Eb Hnv Hwf). cbn [bind].
        unfold set_sto. cbn [st_i st_argv st_sto st_bad st_helps st_nbad].
        rewrite clear_arg_at by (simpl; rewrite clr_length; auto).
        cbn [bind set_argv st_i st_argv st_sto st_bad st_helps st_nbad]. rewrite clr_idem.
        unfold next_loop. reflexivity.
      - destruct (needs_value_false_kinds _ Hnv) as (H1 & H2 & H3). rewrite H1, H2, H3, Hab.
        rewrite clear_arg_at by (simpl; rewrite clr_length; auto).
        cbn [bind set_argv st_i st_argv st_sto st_bad st_helps st_nbad]. rewrite clr_idem.
        rewrite (assign_none _ _ _ _ Eb Hnv Hab). unfold next_loop. reflexivity. }
    assert (Hnl : next_letter e rec (mkst i (clr sa i) (assign (e_pre e) o AFlag sto) sbad shelps snbad) (i, k) =
                  if S k <? length str
                  then rec (mkst i (clr sa i) (assign (e_pre e) o AFlag sto) sbad shelps snbad) (Some (i, S k))
                  else rec (set_i (mkst i (clr sa i) (assign (e_pre e) o AFlag sto) sbad shelps snbad) (S i)) (arg_ptr nxt)).
    { unfold next_letter. cbn [fst snd]. rewrite (getc_at _ _ _ Hstr) by lia. cbn [bind].
      destruct (S k <? length str) eqn:E.
      - apply Nat.ltb_lt in E. rewrite (nth_nz _ _ _ Hstr E). reflexivity.
      - apply Nat.ltb_ge in E. rewrite nth_overflow by lia. cbn [Z.eqb].
        unfold next_arg. cbn [set_i st_i st_argv st_sto st_bad st_helps st_nbad].
        rewrite (argv_get_at _ _ nxt) by (rewrite clr_other by lia; exact Hn1). reflexivity. }
    cbv zeta. rewrite <- Hnl, <- (Hwv false).
    destruct (S k <? length str) eqn:E.
    - apply Nat.ltb_lt in E. rewrite (nth_nz _ _ _ Hstr E). cbn [bind].
      apply (Hdrop (Some (i, S k)) false). intros v Hv. inversion Hv; subst.
      rewrite (cstr_at_at _ _ _ Hstr) by lia. eauto.
    - apply Nat.ltb_ge in E. rewrite nth_overflow by lia. cbn [Z.eqb bind].
      apply (Hdrop (arg_ptr nxt) false). intros v Hv.
      destruct (nxt_cstr _ _ _ _ (conj Hn1 Hn2) Hv) as (vs & Hvs & _). eauto.
  Qed.
  (* ---- options with a value ---- *)
  (* the kinds a value survives the filter for and is assigned *)
  Definition keeps_value (o : opt) (vs : word) (islong hasequal : bool) : Prop :=
    value_kind o vs = true \/
    (bool_kind o = true /\ islong = true /\ is_boolean_value vs = true) \/
    list_kind o = true.

  Lemma next_arg_at s a :
    nth_error (st_argv s) (S (st_i s)) = Some a -> next_arg rec s = rec (set_i s (S (st_i s))) (arg_ptr a).
  Proof. intros H. unfold next_arg. cbn [set_i st_i st_argv]. now rewrite (argv_get_at _ _ _ H). Qed.

  Lemma arglist_words_eq s v vs :
    cstr_at e v = Ok vs -> arglist_words e s v true = Ok (split_words vs).
  Proof.
    intros H. unfold arglist_words. rewrite H. cbn [bind]. unfold fill_array, split_words.
    rewrite map_length, seq_length, Nat.leb_refl. reflexivity.
  Qed.

  (* the type dispatch for a value that was kept: the ideal assignment, argv[i] = NULL, NEXT_ARG *)
  Lemma dispatch_value si sa sto sbad shelps snbad p o islong hasequal v vs :
    In o (e_tbl e) -> cstr_at e v = Ok vs -> keeps_value o vs islong hasequal ->
    (list_kind o = true -> hasequal = true) -> wf_store n sto ->
    si < length sa ->
    dispatch e rec (mkst si sa sto sbad shelps snbad) p o islong hasequal (Some v) =
    next_arg rec (mkst si (clr sa si) (assign (e_pre e) o (AVal vs) sto) sbad shelps snbad).
  Proof.
    intros Hin Hvs Hk Hle (W1 & W2 & W3 & W4) Hsi. destruct Hwt as [Hslot Hbool].
    assert (Hfin : forall sto', (s' <- clear_arg e (mkst si sa sto' sbad shelps snbad);; next_loop e rec s' p islong (Some v)) =
                                next_arg rec (mkst si (clr sa si) sto' sbad shelps snbad)).
    { intros sto'. rewrite clear_arg_at by (simpl; auto). cbn [bind set_argv st_i st_argv st_sto st_bad st_helps st_nbad].
      unfold next_loop. cbn [is_some]. now rewrite orb_true_r. }
    unfold dispatch. rewrite Hvs. cbn [bind]. unfold assign, kind_of, should_parse.
    destruct Hk as [Hk|[(Hk & Hl & Hbv)|Hk]]; [| |pose proof (Hle Hk) as He].
    - (* string, integer, abstract *)
      unfold value_kind in Hk. apply andb_true_iff in Hk. destruct Hk as [Hb Hk].
      apply negb_true_iff in Hb. rewrite Hb. apply orb_true_iff in Hk. destruct Hk as [Hk|Hk].
      + repeat (apply andb_true_iff in Hk; destruct Hk as [Hk ?]).
        destruct (o_slot o) as [k|] eqn:Ek; [|discriminate]. pose proof (Hslot _ _ Hin Ek).
        destruct (is_string o) eqn:Es.
        * destruct (Bool.eqb (e_pre e) (is_preparse o)); cbn [negb st_sto]; [|apply Hfin].
          rewrite slot_upd_put by lia. cbn [bind]. unfold set_sto. cbn [st_i st_argv st_sto st_bad st_helps st_nbad]. apply Hfin.
        * destruct (is_integer o) eqn:Ei; [|discriminate].
          destruct (Bool.eqb (e_pre e) (is_preparse o)); cbn [negb st_sto]; [|apply Hfin].
          rewrite slot_upd_put by lia. cbn [bind]. unfold set_sto. cbn [st_i st_argv st_sto st_bad st_helps st_nbad]. apply Hfin.
      + repeat (apply andb_true_iff in Hk; destruct Hk as [Hk ?]).
        apply negb_true_iff in Hk. destruct (needs_value_false_kinds _ Hk) as (Hq1 & Hq2 & Hq3).
        rewrite Hq1, Hq2, Hq3. match goal with H : is_abstract o = true |- _ => rewrite H end.
        destruct (o_slot o) as [k|] eqn:Ek; [|discriminate].
        destruct (Bool.eqb (e_pre e) (is_preparse o)); cbn [negb st_sto]; [|apply Hfin].
        unfold set_sto. cbn [st_i st_argv st_sto st_bad st_helps st_nbad]. apply Hfin.
    - (* boolean with a boolean word *)
      unfold bool_kind in Hk. repeat (apply andb_true_iff in Hk; destruct Hk as [Hk ?]).
      rewrite Hk. subst islong. unfold handle_boolean, should_parse. cbn [st_sto].
      destruct (o_slot o) as [k|] eqn:Ek; [|exfalso; eapply Hbool; eauto]. pose proof (Hslot _ _ Hin Ek).
      destruct (is_boolean_value_cases _ Hbv) as [Ht|Hf].
      * rewrite Ht. destruct (Bool.eqb (e_pre e) (is_preparse o)); cbn [negb bind]; [|apply Hfin].
        rewrite slot_upd_put by lia. cbn [bind]. unfold set_sto. cbn [st_i st_argv st_sto st_bad st_helps st_nbad]. apply Hfin.
      * rewrite Hf. destruct (istrue vs).
        -- destruct (Bool.eqb (e_pre e) (is_preparse o)); cbn [negb bind]; [|apply Hfin].
           rewrite slot_upd_put by lia. cbn [bind]. unfold set_sto. cbn [st_i st_argv st_sto st_bad st_helps st_nbad]. apply Hfin.
        -- destruct (Bool.eqb (e_pre e) (is_preparse o)); cbn [negb bind]; [|apply Hfin].
           rewrite slot_upd_put by lia. cbn [bind]. unfold set_sto. cbn [st_i st_argv st_sto st_bad st_helps st_nbad]. apply Hfin.
    - (* --list=VALUE *)
      unfold list_kind in Hk. repeat (apply andb_true_iff in Hk; destruct Hk as [Hk ?]).
      apply negb_true_iff in Hk. repeat match goal with H : negb _ = true |- _ => apply negb_true_iff in H end.
      rewrite Hk. match goal with H : is_string o = false |- _ => rewrite H end.
      match goal with H : is_integer o = false |- _ => rewrite H end.
      match goal with H : is_arglist o = true |- _ => rewrite H end.
      subst hasequal.
      destruct (o_slot o) as [k|] eqn:Ek; [|discriminate]. pose proof (Hslot _ _ Hin Ek).
      destruct (Bool.eqb (e_pre e) (is_preparse o)); cbn [negb bind]; [|apply Hfin].
      unfold handle_arglist. rewrite (arglist_words_eq _ _ _ Hvs). cbn [bind st_sto]. rewrite Ek.
      rewrite slot_upd_put by lia. cbn [bind]. unfold set_sto. cbn [st_i st_argv st_sto st_bad st_helps st_nbad]. apply Hfin.
  Qed.
  Lemma keeps_needs o vs islong hasequal :
    keeps_value o vs islong hasequal ->
    (if needs_value o then is_some (o_slot o) else negb (is_abstract o && negb (is_some (o_slot o)))) = true.
  Proof.
    intros [Hk|[(Hk & _)|Hk]].
    - unfold value_kind in Hk. apply andb_true_iff in Hk. destruct Hk as [_ Hk].
      apply orb_true_iff in Hk. destruct Hk as [Hk|Hk]; repeat (apply andb_true_iff in Hk; destruct Hk as [Hk ?]).
      + now rewrite Hk.
      + apply negb_true_iff in Hk. rewrite Hk. match goal with H : is_some _ = true |- _ => rewrite H end.
        now rewrite andb_false_r.
    - unfold bool_kind in Hk. repeat (apply andb_true_iff in Hk; destruct Hk as [Hk ?]).
      repeat match goal with H : negb _ = true |- _ => apply negb_true_iff in H end.
      match goal with H : needs_value o = false |- _ => rewrite H end.
      match goal with H : is_abstract o = false |- _ => rewrite H end. reflexivity.
    - unfold list_kind in Hk. repeat (apply andb_true_iff in Hk; destruct Hk as [Hk ?]).
      match goal with H : is_arglist o = true |- _ => rewrite (arglist_needs_value _ H) end. assumption.
  Qed.

  (* the filter "Boolean options may or may not have a value..." lets such a value through *)
  Lemma filter_keep s p o nxt islong hasequal v vs :
    keeps_value o vs islong hasequal ->
    (if is_boolean o && (negb islong || negb (is_boolean_value vs))
     then with_value e rec s p o nxt islong hasequal None
     else if is_abstract o
          then is_valid_option e vs s (fun valid s => with_value e rec s p o nxt islong hasequal (if valid then None else Some v))
          else if negb (needs_value o) && negb (is_boolean o)
               then with_value e rec s p o nxt islong hasequal None
               else with_value e rec s p o nxt islong hasequal (Some v)) =
    with_value e rec s p o nxt islong hasequal (Some v).
  Proof.
    intros [Hk|[(Hk & Hl & Hbv)|Hk]].
    - unfold value_kind in Hk. apply andb_true_iff in Hk. destruct Hk as [Hb Hk]. apply negb_true_iff in Hb.
      rewrite Hb. cbn [andb]. apply orb_true_iff in Hk.
      destruct Hk as [Hk|Hk]; repeat (apply andb_true_iff in Hk; destruct Hk as [Hk ?]).
      + repeat match goal with H : negb _ = true |- _ => apply negb_true_iff in H end.
        match goal with H : is_abstract o = false |- _ => rewrite H end. rewrite Hk. reflexivity.
      + match goal with H : is_abstract o = true |- _ => rewrite H end.
        match goal with H : negb (hd 0%Z vs =? 45)%Z = true |- _ => apply negb_true_iff in H; rename H into Hhd end.
        unfold is_valid_option. destruct vs as [|c t]; [reflexivity|]. simpl in Hhd. now rewrite Hhd.
    - unfold bool_kind in Hk. repeat (apply andb_true_iff in Hk; destruct Hk as [Hk ?]).
      repeat match goal with H : negb _ = true |- _ => apply negb_true_iff in H end.
      rewrite Hk, Hl, Hbv. cbn [negb orb andb].
      match goal with H : is_abstract o = false |- _ => rewrite H end. now rewrite andb_false_r.
    - unfold list_kind in Hk. repeat (apply andb_true_iff in Hk; destruct Hk as [Hk ?]).
      repeat match goal with H : negb _ = true |- _ => apply negb_true_iff in H end.
      rewrite Hk. cbn [andb]. match goal with H : is_abstract o = false |- _ => rewrite H end.
      match goal with H : is_arglist o = true |- _ => rewrite (arglist_needs_value _ H) end. reflexivity.
  Qed.

  (* an option with a value, from the lookup result on: -xV, -x V, --l=V, --l V *)
  Lemma after_find_value sa sto sbad shelps snbad i off j o islong nxt hasequal v vs restp a2 :
    nth_error (e_tbl e) j = Some o -> i < length sa -> nxt_ok sa i nxt ->
    find_value e (i, off) nxt islong = Ok (Some v, hasequal) ->
    cstr_at e v = Ok vs -> cstr_at e (i, off) = Ok restp ->
    keeps_value o vs islong hasequal -> (list_kind o = true -> hasequal = true) -> wf_store n sto ->
    (Some v = arg_ptr nxt -> nth_error sa (S (S i)) = Some a2) ->
    after_find e rec (mkst i sa sto sbad shelps snbad) (i, off) j islong =
    if optptr_eqb (Some v) (arg_ptr nxt)
    then rec (mkst (S (S i)) (clr (clr sa i) (S i)) (assign (e_pre e) o (AVal vs) sto) sbad shelps snbad) (arg_ptr a2)
    else rec (mkst (S i) (clr sa i) (assign (e_pre e) o (AVal vs) sto) sbad shelps snbad) (arg_ptr nxt).
  Proof.
    intros Hnth Hi Hnxt Hfv Hvs Hrest Hk Hle Hwf Ha2.
    pose proof (nth_error_In _ _ Hnth) as Hin. destruct Hnxt as (Hn1 & Hn2).
    unfold after_find. rewrite clear_arg_at by (simpl; auto).
    cbn [bind set_argv st_i st_argv st_sto st_bad st_helps st_nbad].
    rewrite (argv_get_at _ _ nxt) by (rewrite clr_other by lia; exact Hn1). cbn [bind].
    rewrite Hfv. cbn [bind]. rewrite (tbl_get_at _ _ Hnth). cbn [bind]. rewrite Hvs. cbn [bind].
    rewrite (filter_keep _ _ _ _ _ _ _ _ Hk).
    unfold with_value, consume_value. cbn [is_some andb].
    pose proof (keeps_needs _ _ _ _ Hk) as Hneeds.
    destruct (optptr_eqb (Some v) (arg_ptr nxt)) eqn:Eeq.
    - (* the value is the next argument: consumed *)
      rewrite Hrest. cbn [bind fst snd set_i st_i st_argv st_sto st_bad st_helps st_nbad].
      assert (Hv : Some v = arg_ptr nxt).
      { destruct nxt as [sid|]; simpl in Eeq; [|discriminate]. apply ptr_eqb_true in Eeq. now subst. }
      assert (HSi : S i < length sa).
      { destruct Hn2 as [->|(-> & _)]; [discriminate|]. apply nth_error_Some. congruence. }
      assert (Hd : dispatch e rec (mkst (S i) (clr sa i) sto sbad shelps snbad) (i, off + length restp) o islong hasequal (Some v) =
                   rec (mkst (S (S i)) (clr (clr sa i) (S i)) (assign (e_pre e) o (AVal vs) sto) sbad shelps snbad) (arg_ptr a2)).
      { rewrite (dispatch_value _ _ _ _ _ _ _ _ _ _ _ _ Hin Hvs Hk Hle Hwf) by (rewrite clr_length; exact HSi).
        rewrite (next_arg_at _ a2).
        - reflexivity.
        - cbn [st_argv st_i]. rewrite !clr_other by lia. auto. }
      destruct (needs_value o).
      + rewrite Hneeds. exact Hd.
      + apply negb_true_iff in Hneeds. rewrite Hneeds. exact Hd.
    - cbn [bind].
      assert (Hd : dispatch e rec (mkst i (clr sa i) sto sbad shelps snbad) (i, off) o islong hasequal (Some v) =
                   rec (mkst (S i) (clr sa i) (assign (e_pre e) o (AVal vs) sto) sbad shelps snbad) (arg_ptr nxt)).
      { rewrite (dispatch_value _ _ _ _ _ _ _ _ _ _ _ _ Hin Hvs Hk Hle Hwf) by (rewrite clr_length; exact Hi).
        rewrite clr_idem. rewrite (next_arg_at _ nxt).
        - reflexivity.
        - cbn [st_argv st_i]. rewrite clr_other by lia. exact Hn1. }
      destruct (needs_value o).
      + rewrite Hneeds. exact Hd.
      + apply negb_true_iff in Hneeds. rewrite Hneeds. exact Hd.
  Qed.
  (* ---- --flag ---- *)
  Lemma after_find_flag_long sa sto sbad shelps snbad i off j o nxt name :
    nth_error (e_tbl e) j = Some o -> flag_kind o = true -> i < length sa -> nxt_ok sa i nxt ->
    cstr_at e (i, off) = Ok name -> index_eq name = None ->
    (is_boolean o = true -> forall vs, nxt <> None -> nth_error (e_strs e) (S i) = Some vs -> is_boolean_value vs = false) ->
    wf_store n sto ->
    after_find e rec (mkst i sa sto sbad shelps snbad) (i, off) j true =
    rec (mkst (S i) (clr sa i) (assign (e_pre e) o AFlag sto) sbad shelps snbad) (arg_ptr nxt).
  Proof.
    intros Hnth Hkind Hi Hnxt Hname Hidx Hnb Hwf.
    pose proof (nth_error_In _ _ Hnth) as Hin. destruct Hnxt as (Hn1 & Hn2).
    unfold flag_kind in Hkind. apply andb_true_iff in Hkind. destruct Hkind as [Hnv Hab].
    apply negb_true_iff in Hnv. apply negb_true_iff in Hab.
    unfold after_find. rewrite clear_arg_at by (simpl; auto).
    cbn [bind set_argv st_i st_argv st_sto st_bad st_helps st_nbad].
    rewrite (argv_get_at _ _ nxt) by (rewrite clr_other by lia; exact Hn1). cbn [bind].
    unfold find_value. rewrite Hname. cbn [bind]. rewrite Hidx. cbn [bind].
    rewrite (tbl_get_at _ _ Hnth). cbn [bind].
    (* from with_value on *)
    assert (Hwv : with_value e rec (mkst i (clr sa i) sto sbad shelps snbad) (i, off) o nxt true false None =
                  rec (mkst (S i) (clr sa i) (assign (e_pre e) o AFlag sto) sbad shelps snbad) (arg_ptr nxt)).
    { unfold with_value, consume_value. cbn [is_some andb bind].
      rewrite Hnv, Hab. cbn [andb]. unfold dispatch. cbn [bind].
      destruct (is_boolean o) eqn:Eb.
      - cbn [st_sto].
        assert (Hhb : handle_boolean e o sto None true = Ok (assign (e_pre e) o AFlag sto, true)).
        { pose proof (handle_boolean_flag o sto None Hin Eb Hnv Hwf) as H. unfold handle_boolean in *. exact H. }
        rewrite Hhb. cbn [bind]. unfold set_sto. cbn [st_i st_argv st_sto st_bad st_helps st_nbad].
        rewrite clear_arg_at by (simpl; rewrite clr_length; auto).
        cbn [bind set_argv st_i st_argv st_sto st_bad st_helps st_nbad]. rewrite clr_idem.
        unfold next_loop. cbn [orb]. rewrite (next_arg_at _ nxt); [reflexivity|].
        cbn [set_argv st_argv st_i]. rewrite ?clr_idem, clr_other by lia. exact Hn1.
      - destruct (needs_value_false_kinds _ Hnv) as (Hq1 & Hq2 & Hq3). rewrite Hq1, Hq2, Hq3, Hab.
        rewrite clear_arg_at by (simpl; rewrite clr_length; auto).
        cbn [bind set_argv st_i st_argv st_sto st_bad st_helps st_nbad]. rewrite clr_idem.
        rewrite (assign_none _ _ _ _ Eb Hnv Hab). unfold next_loop. cbn [orb].
        rewrite (next_arg_at _ nxt); [reflexivity|].
        cbn [set_argv st_argv st_i]. rewrite ?clr_idem, clr_other by lia. exact Hn1. }
    destruct (arg_ptr nxt) as [v|] eqn:Ev; [|exact Hwv].
    destruct (nxt_cstr _ _ _ _ (conj Hn1 Hn2) Ev) as (vs & Hvs & Hstr & _). rewrite Hvs. cbn [bind].
    destruct (is_boolean o) eqn:Eb.
    - assert (Hbv : is_boolean_value vs = false).
      { apply (Hnb eq_refl vs); auto. intros ->. discriminate. }
      rewrite Hbv. cbn [negb orb andb]. exact Hwv.
    - cbn [andb]. rewrite Hab, Hnv. cbn [negb andb]. exact Hwv.
  Qed.

  (* ---- the head of a round ---- *)
  Lemma step_start s i c1 rest :
    st_i s = i -> i < e_argc e -> nth_error (st_argv s) i = Some (Some i) ->
    nth_error (e_strs e) i = Some (45%Z :: c1 :: rest) ->
    step e rec s (Some (i, 0)) = lookup e rec s (i, 1).
  Proof.
    intros Hi Hlt Ha Hstr. unfold step. rewrite Hi.
    apply Nat.ltb_lt in Hlt. rewrite Hlt. cbn [negb].
    rewrite (argv_get_at _ _ _ Ha). cbn [bind]. unfold optptr_eqb, arg_ptr, option_map, ptr_eqb.
    cbn [fst snd]. rewrite !Nat.eqb_refl. cbn [andb].
    rewrite (getc_at _ _ 0 Hstr) by (simpl; lia). cbn [bind nth]. cbn [Z.eqb Pos.eqb negb].
    rewrite (getc_at _ _ 1 Hstr) by (simpl; lia). cbn [bind nth fst snd].
    assert (Hc1 : (c1 =? 0)%Z = false) by (apply (nth_nz _ _ 1 Hstr); simpl; lia).
    rewrite Hc1. reflexivity.
  Qed.

  Lemma step_mid s i k a :
    st_i s = i -> i < e_argc e -> nth_error (st_argv s) i = Some a -> 1 <= k ->
    step e rec s (Some (i, k)) = lookup e rec s (i, k).
  Proof.
    intros Hi Hlt Ha Hk. unfold step. rewrite Hi.
    apply Nat.ltb_lt in Hlt. rewrite Hlt. cbn [negb].
    rewrite (argv_get_at _ _ _ Ha). cbn [bind].
    destruct a as [sid|]; [|reflexivity].
    unfold optptr_eqb, arg_ptr, option_map, ptr_eqb. cbn [fst snd].
    destruct k; [lia|]. cbn [Nat.eqb]. now rewrite andb_false_r.
  Qed.

  (* a non-option word (or a lone hyphen) is skipped *)
  Lemma step_word s i w a :
    st_i s = i -> i < e_argc e -> nth_error (st_argv s) i = Some (Some i) ->
    nth_error (e_strs e) i = Some w ->
    (negb (hd 0 w =? 45)%Z || match w with [_] => true | _ => false end) = true ->
    nth_error (st_argv s) (S i) = Some a ->
    step e rec s (Some (i, 0)) = rec (set_i s (S i)) (arg_ptr a).
  Proof.
    intros Hi Hlt Ha Hstr Hw Hnx. unfold step. rewrite Hi.
    apply Nat.ltb_lt in Hlt. rewrite Hlt. cbn [negb].
    rewrite (argv_get_at _ _ _ Ha). cbn [bind]. unfold optptr_eqb, arg_ptr at 1, option_map, ptr_eqb.
    cbn [fst snd]. rewrite !Nat.eqb_refl. cbn [andb].
    rewrite (getc_at _ _ 0 Hstr) by lia. cbn [bind].
    assert (Hna : next_arg rec s = rec (set_i s (S i)) (arg_ptr a)).
    { rewrite <- Hi. apply next_arg_at. now rewrite Hi. }
    destruct w as [|c t].
    - cbn [nth]. cbn [Z.eqb negb]. exact Hna.
    - cbn [nth hd] in *. destruct (Z.eqb c 45) eqn:Ec; cbn [negb]; [|exact Hna].
      cbn [negb orb] in Hw. destruct t as [|c2 t2]; [|discriminate].
      rewrite (getc_at _ _ 1 Hstr) by (simpl; lia). cbn [bind nth fst snd Z.eqb]. exact Hna.
  Qed.

  (* ---- an argument list that takes the rest of the line ---- *)
  Fixpoint nulls_from (a : list (option nat)) (k cnt : nat) : list (option nat) :=
    match cnt with O => a | S c => nulls_from (upd a k None) (S k) c end.
  Lemma clear_from_eq a k cnt : k + cnt <= length a -> clear_from a k cnt = Ok (nulls_from a k cnt).
  Proof.
    revert a k; induction cnt as [|c IH]; intros a k H; simpl; [reflexivity|].
    unfold argv_set. assert (Hk : k <? length a = true) by (apply Nat.ltb_lt; lia). rewrite Hk. cbn [bind].
    apply IH. rewrite upd_length. lia.
  Qed.

  Lemma map_res_eq {A B} (f : A -> res B) (g : A -> B) l :
    (forall x, In x l -> f x = Ok (g x)) -> map_res f l = Ok (map g l).
  Proof.
    induction l as [|x t IH]; intros H; simpl; [reflexivity|].
    rewrite (H x (or_introl eq_refl)). cbn [bind]. rewrite IH by (intros; apply H; now right). reflexivity.
  Qed.

  Lemma map_nth_seq {A} (l : list A) m d :
    map (fun k => nth (k + m) l d) (seq 0 (length l - m)) = skipn m l.
  Proof.
    revert m; induction l as [|x t IH]; intros m.
    - simpl. now rewrite skipn_nil.
    - destruct m as [|m].
      + rewrite skipn_O. simpl length. rewrite Nat.sub_0_r. cbn [seq map]. rewrite Nat.add_0_r at 1. cbn [nth]. f_equal.
        rewrite <- seq_shift, map_map. specialize (IH 0). rewrite Nat.sub_0_r, skipn_O in IH.
        rewrite <- IH at 2. apply map_ext. intros k. now rewrite !Nat.add_0_r.
      + rewrite skipn_cons. simpl length. rewrite Nat.sub_succ. rewrite <- (IH m).
        apply map_ext. intros k. now rewrite Nat.add_succ_r.
  Qed.

  Lemma after_find_rest sa sto sbad shelps snbad i off j o islong restp :
    nth_error (e_tbl e) j = Some o -> list_kind o = true -> S i < e_argc e -> length sa = S (e_argc e) ->
    (forall k, i < k < e_argc e -> nth_error sa k = Some (Some k)) ->
    find_value e (i, off) (Some (S i)) islong = Ok (Some (S i, 0), false) ->
    cstr_at e (i, off) = Ok restp -> wf_store n sto ->
    after_find e rec (mkst i sa sto sbad shelps snbad) (i, off) j islong =
    Ok (Done (e_pre e)
             (mkst (S i) (if rm_active e then nulls_from (clr sa i) (S i) (e_argc e - S i) else clr sa i)
                   (assign (e_pre e) o (ARest (skipn (S i) (e_strs e))) sto) sbad shelps snbad)).
  Proof.
    intros Hnth Hk Hlt Hlen Hsa Hfv Hrest Hwf.
    pose proof (nth_error_In _ _ Hnth) as Hin. destruct Hwt as [Hslot Hbool].
    assert (Hs1 : exists s1, nth_error (e_strs e) (S i) = Some s1).
    { destruct (nth_error (e_strs e) (S i)) eqn:E; eauto. apply nth_error_None in E. lia. }
    destruct Hs1 as (s1 & Hs1).
    assert (Hkv : keeps_value o s1 islong false) by (right; right; exact Hk).
    unfold after_find. rewrite clear_arg_at by (simpl; lia).
    cbn [bind set_argv st_i st_argv st_sto st_bad st_helps st_nbad].
    rewrite (argv_get_at _ _ (Some (S i))) by (rewrite clr_other by lia; apply Hsa; lia). cbn [bind].
    rewrite Hfv. cbn [bind]. rewrite (tbl_get_at _ _ Hnth). cbn [bind].
    rewrite (cstr_at_at _ _ 0 Hs1) by lia. cbn [bind]. rewrite skipn_O.
    rewrite (filter_keep _ _ _ _ _ _ _ _ Hkv).
    unfold with_value, consume_value. cbn [is_some andb optptr_eqb arg_ptr option_map].
    unfold ptr_eqb. cbn [fst snd]. rewrite !Nat.eqb_refl. cbn [andb].
    rewrite Hrest. cbn [bind fst snd set_i st_i st_argv st_sto st_bad st_helps st_nbad].
    pose proof (keeps_needs _ _ _ _ Hkv) as Hneeds.
    unfold list_kind in Hk. repeat (apply andb_true_iff in Hk; destruct Hk as [Hk ?]).
    repeat match goal with H : negb _ = true |- _ => apply negb_true_iff in H end.
    match goal with H : is_arglist o = true |- _ => rename H into Hal end.
    match goal with H : is_string o = false |- _ => rename H into Hst end.
    match goal with H : is_integer o = false |- _ => rename H into Hin' end.
    rewrite (arglist_needs_value _ Hal) in *. rewrite Hneeds.
    destruct (o_slot o) as [k|] eqn:Ek; [|discriminate]. pose proof (Hslot _ _ Hin Ek) as Hkn.
    unfold dispatch. rewrite (cstr_at_at _ _ 0 Hs1) by lia. cbn [bind]. rewrite Hk, Hst, Hin', Hal.
    unfold assign, kind_of, should_parse. rewrite Hk, Hst, Hin', Hal.
    assert (Hfin : forall sto', (a <- (if rm_active e
                       then clear_from (st_argv (mkst (S i) (clr sa i) sto' sbad shelps snbad))
                                       (st_i (mkst (S i) (clr sa i) sto' sbad shelps snbad))
                                       (e_argc e - st_i (mkst (S i) (clr sa i) sto' sbad shelps snbad))
                       else Ok (st_argv (mkst (S i) (clr sa i) sto' sbad shelps snbad)));;
                  Ok (Done (e_pre e) (set_argv (mkst (S i) (clr sa i) sto' sbad shelps snbad) a))) =
             Ok (Done (e_pre e) (mkst (S i) (if rm_active e then nulls_from (clr sa i) (S i) (e_argc e - S i) else clr sa i)
                                      sto' sbad shelps snbad))).
    { intros sto'. cbn [st_i st_argv]. destruct (rm_active e) eqn:Erm.
      - rewrite clear_from_eq by (rewrite clr_length; lia). reflexivity.
      - reflexivity. }
    cbn [set_sto set_i set_argv st_i st_argv st_sto st_bad st_helps st_nbad].
    destruct (Bool.eqb (e_pre e) (is_preparse o)); cbn [negb bind].
    2:{ apply Hfin. }
    unfold handle_arglist, arglist_words. cbn [set_i set_argv st_i st_argv st_sto st_bad st_helps st_nbad].
    rewrite (map_res_eq _ (fun k => Some (nth (k + S i) (e_strs e) []))).
    - cbn [bind]. unfold fill_array. rewrite map_length, seq_length, Nat.leb_refl. cbn [bind].
      rewrite Ek. destruct Hwf as (W1 & W2 & W3 & W4). rewrite slot_upd_put by lia. cbn [bind].
      unfold set_sto. cbn [set_i set_argv st_i st_argv st_sto st_bad st_helps st_nbad].
      replace (map (fun k0 : nat => Some (nth (k0 + S i) (e_strs e) [])) (seq 0 (e_argc e - S i)))
        with (map Some (skipn (S i) (e_strs e))).
      + apply Hfin.
      + rewrite Hargc, <- (map_nth_seq (e_strs e) (S i) []), map_map. reflexivity.
    - intros k0 Hk0. apply in_seq in Hk0. destruct k0 as [|k0].
      + rewrite (cstr_at_at _ _ 0 Hs1) by lia. cbn [bind]. rewrite skipn_O. simpl.
        now rewrite (nth_error_nth _ _ _ Hs1).
      + rewrite (argv_get_at _ _ (Some (S k0 + S i))) by (rewrite clr_other by lia; apply Hsa; lia).
        cbn [bind].
        assert (Hs2 : exists s2, nth_error (e_strs e) (S k0 + S i) = Some s2).
        { destruct (nth_error (e_strs e) (S k0 + S i)) eqn:E; eauto. apply nth_error_None in E. lia. }
        destruct Hs2 as (s2 & Hs2). rewrite (cstr_at_at _ _ 0 Hs2) by lia. cbn [bind]. rewrite skipn_O.
        now rewrite (nth_error_nth _ _ _ Hs2).
  Qed.
  (* ---- from the lookup to after_find ---- *)
  Lemma lookup_short s i str k x j :
    nth_error (e_strs e) i = Some str -> nth_error str k = Some x -> (x =? 45)%Z = false ->
    find_short (e_tbl e) x = Some j ->
    lookup e rec s (i, k) = after_find e rec s (i, k) j false.
  Proof.
    intros Hstr Hx H45 Hj. assert (Hk : k < length str) by (apply nth_error_Some; congruence).
    unfold lookup. rewrite (getc_at _ _ _ Hstr) by lia. rewrite (nth_error_nth _ _ _ Hx). cbn [bind].
    now rewrite H45, Hj.
  Qed.

  Lemma lookup_long s i str k j :
    nth_error (e_strs e) i = Some str -> nth_error str k = Some 45%Z ->
    find_long (e_tbl e) (skipn (S k) str) = Some j ->
    lookup e rec s (i, k) = after_find e rec s (i, S k) j true.
  Proof.
    intros Hstr Hx Hj. assert (Hk : k < length str) by (apply nth_error_Some; congruence).
    unfold lookup. rewrite (getc_at _ _ _ Hstr) by lia. rewrite (nth_error_nth _ _ _ Hx). cbn [bind Z.eqb Pos.eqb fst snd].
    rewrite (cstr_at_at _ _ _ Hstr) by lia. cbn [bind]. now rewrite Hj.
  Qed.

  (* ---- the part of argv the parser has not reached yet ---- *)
  Definition ahead (sa : list (option nat)) (i : nat) : Prop :=
    length sa = S (e_argc e) /\ nth_error sa (e_argc e) = Some None /\
    forall k, i <= k < e_argc e -> nth_error sa k = Some (Some k).
  Definition cur_at (k : nat) : option ptr := if k <? e_argc e then Some (k, 0) else None.

  Lemma ahead_nth sa i k : ahead sa i -> i <= k <= e_argc e ->
    nth_error sa k = Some (if k <? e_argc e then Some k else None).
  Proof.
    intros (Hl & Hlast & Hk) Hr. destruct (k <? e_argc e) eqn:E.
    - apply Nat.ltb_lt in E. apply Hk. lia.
    - apply Nat.ltb_ge in E. assert (k = e_argc e) by lia. subst. exact Hlast.
  Qed.
  Lemma arg_ptr_cur k : arg_ptr (if k <? e_argc e then Some k else None) = cur_at k.
  Proof. unfold cur_at. destruct (k <? e_argc e); reflexivity. Qed.

  Lemma ahead_nxt sa i : ahead sa i -> i < e_argc e ->
    nxt_ok sa i (if S i <? e_argc e then Some (S i) else None).
  Proof.
    intros Ha Hi. split; [apply (ahead_nth _ i); auto; lia|].
    destruct (S i <? e_argc e) eqn:E; [right|left; reflexivity]. split; auto.
    apply Nat.ltb_lt in E. destruct (nth_error (e_strs e) (S i)) eqn:En; eauto.
    apply nth_error_None in En. lia.
  Qed.

  Lemma ahead_clr sa i k : ahead sa i -> k < i -> i <= e_argc e -> ahead (clr sa k) i.
  Proof.
    intros (Hl & Hlast & Hk) Hlt Hle. repeat split.
    - now rewrite clr_length.
    - rewrite clr_other by lia. auto.
    - intros m Hm. rewrite clr_other by lia. now apply Hk.
  Qed.
  Lemma ahead_mono sa i k : ahead sa i -> i <= k -> ahead sa k.
  Proof. intros (Hl & Hlast & Hk) Hle. repeat split; auto. intros m Hm. apply Hk. lia. Qed.

  (* ---- one spelling, from the head of its round to the head of the next spelling's round ---- *)
  Lemma run_word sa sto sbad shelps snbad i w :
    ahead sa i -> i < e_argc e -> nth_error (e_strs e) i = Some w ->
    (negb (hd 0 w =? 45)%Z || match w with [_] => true | _ => false end) = true ->
    step e rec (mkst i sa sto sbad shelps snbad) (Some (i, 0)) = rec (mkst (S i) sa sto sbad shelps snbad) (cur_at (S i)).
  Proof.
    intros Ha Hi Hstr Hw. rewrite <- arg_ptr_cur.
    rewrite (step_word _ i w (if S i <? e_argc e then Some (S i) else None)); auto.
    - cbn [st_argv]. rewrite (ahead_nth _ i i Ha) by lia. apply Nat.ltb_lt in Hi. now rewrite Hi.
    - cbn [st_argv]. apply (ahead_nth _ i); auto; lia.
  Qed.

  Lemma run_attached sa sto sbad shelps snbad i x v o :
    ahead sa i -> i < e_argc e -> nth_error (e_strs e) i = Some (45%Z :: x :: v) -> v <> [] ->
    letter_ok_b x = true -> find_opt (e_tbl e) (ByShort x) = Some o -> value_kind o v = true -> wf_store n sto ->
    step e rec (mkst i sa sto sbad shelps snbad) (Some (i, 0)) =
    rec (mkst (S i) (clr sa i) (assign (e_pre e) o (AVal v) sto) sbad shelps snbad) (cur_at (S i)).
  Proof.
    intros Ha Hi Hstr Hv Hlet Hfind Hkind Hwf.
    unfold letter_ok_b in Hlet. apply andb_true_iff in Hlet. destruct Hlet as [_ H45]. apply negb_true_iff in H45.
    destruct (find_short_spec _ _ _ Hfind) as (j & Hj & Hnth).
    pose proof (ahead_nxt _ _ Ha Hi) as Hnxt. set (nxt := if S i <? e_argc e then Some (S i) else None) in *.
    rewrite (step_start _ i x v); auto.
    2:{ cbn [st_argv]. rewrite (ahead_nth _ i i Ha) by lia. apply Nat.ltb_lt in Hi. now rewrite Hi. }
    rewrite (lookup_short _ _ _ 1 x j Hstr); auto.
    rewrite (after_find_value _ _ _ _ _ _ _ _ o false nxt false (i, 2) v (x :: v) None Hnth); auto.
    - match goal with |- context [optptr_eqb ?a ?b] => assert (Hne : optptr_eqb a b = false) end.
      { destruct nxt; simpl; auto. unfold ptr_eqb. simpl. now rewrite andb_false_r. }
      rewrite Hne. unfold nxt. now rewrite arg_ptr_cur.
    - destruct Ha as (Hl & _). lia.
    - unfold find_value. cbn [fst snd]. rewrite (getc_at _ _ 2 Hstr) by (simpl; lia). cbn [bind nth].
      destruct v as [|c t]; [congruence|]. cbn [nth].
      assert (Hc : (c =? 0)%Z = false) by (apply (nth_nz _ _ 2 Hstr); simpl; lia). now rewrite Hc.
    - rewrite (cstr_at_at _ _ 2 Hstr) by (simpl; lia). reflexivity.
    - rewrite (cstr_at_at _ _ 1 Hstr) by (simpl; lia). reflexivity.
    - left; auto.
    - intros Hl. exfalso. unfold value_kind in Hkind. unfold list_kind in Hl.
      repeat (apply andb_true_iff in Hl; destruct Hl as [Hl ?]).
      repeat match goal with H : negb _ = true |- _ => apply negb_true_iff in H end.
      apply andb_true_iff in Hkind. destruct Hkind as [_ Hkind]. apply orb_true_iff in Hkind.
      destruct Hkind as [Hkind|Hkind]; repeat (apply andb_true_iff in Hkind; destruct Hkind as [Hkind ?]).
      + match goal with H : is_string o || is_integer o = true |- _ => apply orb_true_iff in H; destruct H; congruence end.
      + congruence.
    - intros Hc. exfalso. destruct nxt; simpl in Hc; [|discriminate]. inversion Hc.
  Qed.
  Lemma value_not_list o v : value_kind o v = true -> list_kind o = true -> False.
  Proof.
    intros Hkind Hl. unfold value_kind in Hkind. unfold list_kind in Hl.
    repeat (apply andb_true_iff in Hl; destruct Hl as [Hl ?]).
    repeat match goal with H : negb _ = true |- _ => apply negb_true_iff in H end.
    apply andb_true_iff in Hkind. destruct Hkind as [_ Hkind]. apply orb_true_iff in Hkind.
    destruct Hkind as [Hkind|Hkind]; repeat (apply andb_true_iff in Hkind; destruct Hkind as [Hkind ?]).
    - match goal with H : is_string o || is_integer o = true |- _ => apply orb_true_iff in H; destruct H; congruence end.
    - congruence.
  Qed.
  Lemma bool_not_list o : bool_kind o = true -> list_kind o = true -> False.
  Proof.
    intros Hb Hl. unfold bool_kind in Hb. unfold list_kind in Hl.
    repeat (apply andb_true_iff in Hl; destruct Hl as [Hl ?]).
    repeat (apply andb_true_iff in Hb; destruct Hb as [Hb ?]).
    apply negb_true_iff in Hl. congruence.
  Qed.

  Lemma ahead_i sa i : ahead sa i -> i < e_argc e -> nth_error sa i = Some (Some i) /\ i < length sa.
  Proof.
    intros Ha Hi. pose proof (ahead_nth _ i i Ha ltac:(lia)) as H. apply Nat.ltb_lt in Hi. rewrite Hi in H.
    split; auto. apply nth_error_Some. congruence.
  Qed.

  Lemma skipn_app_exact {A} (l r : list A) : skipn (length l) (l ++ r) = r.
  Proof. rewrite skipn_app, Nat.sub_diag, skipn_all, skipn_O. reflexivity. Qed.

  (* -x VALUE *)
  Lemma run_sep sa sto sbad shelps snbad i x v o :
    ahead sa i -> S i < e_argc e -> nth_error (e_strs e) i = Some [45%Z; x] -> nth_error (e_strs e) (S i) = Some v ->
    letter_ok_b x = true -> find_opt (e_tbl e) (ByShort x) = Some o -> value_kind o v = true -> wf_store n sto ->
    step e rec (mkst i sa sto sbad shelps snbad) (Some (i, 0)) =
    rec (mkst (S (S i)) (clr (clr sa i) (S i)) (assign (e_pre e) o (AVal v) sto) sbad shelps snbad) (cur_at (S (S i))).
  Proof.
    intros Ha HSi Hstr Hstr1 Hlet Hfind Hkind Hwf. assert (Hi : i < e_argc e) by lia.
    unfold letter_ok_b in Hlet. apply andb_true_iff in Hlet. destruct Hlet as [_ H45]. apply negb_true_iff in H45.
    destruct (find_short_spec _ _ _ Hfind) as (j & Hj & Hnth).
    pose proof (ahead_nxt _ _ Ha Hi) as Hnxt. destruct (ahead_i _ _ Ha Hi) as (Hai & Hil).
    assert (HSi' : (S i <? e_argc e) = true) by now apply Nat.ltb_lt. rewrite HSi' in Hnxt.
    rewrite (step_start _ i x []); auto.
    rewrite (lookup_short _ _ _ 1 x j Hstr); auto.
    rewrite (after_find_value _ _ _ _ _ _ _ _ o false (Some (S i)) false (S i, 0) v [x]
                              (if S (S i) <? e_argc e then Some (S (S i)) else None) Hnth); auto.
    - cbn [optptr_eqb arg_ptr option_map]. unfold ptr_eqb. cbn [fst snd]. rewrite !Nat.eqb_refl. cbn [andb].
      now rewrite arg_ptr_cur.
    - unfold find_value. cbn [fst snd]. rewrite (getc_at _ _ 2 Hstr) by (simpl; lia). reflexivity.
    - rewrite (cstr_at_at _ _ 0 Hstr1) by lia. reflexivity.
    - rewrite (cstr_at_at _ _ 1 Hstr) by (simpl; lia). reflexivity.
    - left; auto.
    - intros Hl. exfalso. eapply value_not_list; eauto.
    - intros _. apply (ahead_nth _ i); auto; lia.
  Qed.

  (* --long=VALUE *)
  Lemma run_longeq sa sto sbad shelps snbad i l v o :
    ahead sa i -> i < e_argc e -> nth_error (e_strs e) i = Some (45%Z :: 45%Z :: l ++ 61%Z :: v) ->
    name_ok l = true -> find_opt (e_tbl e) (ByLong l) = Some o -> keeps_value o v true true -> wf_store n sto ->
    step e rec (mkst i sa sto sbad shelps snbad) (Some (i, 0)) =
    rec (mkst (S i) (clr sa i) (assign (e_pre e) o (AVal v) sto) sbad shelps snbad) (cur_at (S i)).
  Proof.
    intros Ha Hi Hstr Hl Hfind Hkind Hwf.
    destruct (find_long_spec _ l (61%Z :: v) _ Hnames Hl ltac:(right; eauto) Hfind) as (j & Hj & Hnth).
    pose proof (ahead_nxt _ _ Ha Hi) as Hnxt. destruct (ahead_i _ _ Ha Hi) as (Hai & Hil).
    set (nxt := if S i <? e_argc e then Some (S i) else None) in *.
    unfold name_ok in Hl. apply andb_true_iff in Hl. destruct Hl as [_ Hnoeq].
    rewrite (step_start _ i 45%Z (l ++ 61%Z :: v)); auto.
    rewrite (lookup_long _ _ _ 1 j Hstr); auto.
    rewrite (after_find_value _ _ _ _ _ _ _ _ o true nxt true (i, 2 + length l + 1) v (l ++ 61%Z :: v) None Hnth); auto.
    - match goal with |- context [optptr_eqb ?a ?b] => assert (Hne : optptr_eqb a b = false) end.
      { destruct nxt; simpl; auto. unfold ptr_eqb. cbn [fst snd]. cbn [Nat.eqb]. apply andb_false_r. }
      rewrite Hne. unfold nxt. now rewrite arg_ptr_cur.
    - unfold find_value. rewrite (cstr_at_at _ _ 2 Hstr) by (simpl; lia).
      cbn [bind]. change (skipn 2 (45%Z :: 45%Z :: l ++ 61%Z :: v)) with (l ++ 61%Z :: v).
      rewrite (index_eq_app _ _ Hnoeq). reflexivity.
    - rewrite (cstr_at_at _ _ _ Hstr) by (simpl; rewrite app_length; simpl; lia). f_equal.
      change (2 + length l + 1) with (S (S (length l + 1))). rewrite !skipn_cons.
      replace (length l + 1) with (length (l ++ [61%Z])) by (rewrite app_length; simpl; lia).
      replace (l ++ 61%Z :: v) with ((l ++ [61%Z]) ++ v) by (rewrite <- app_assoc; reflexivity).
      apply skipn_app_exact.
    - rewrite (cstr_at_at _ _ 2 Hstr) by (simpl; lia). reflexivity.
    - intros Hc. exfalso. destruct nxt; simpl in Hc; [|discriminate]. inversion Hc.
  Qed.

  (* --long VALUE, --long WORD *)
  Lemma run_longsep sa sto sbad shelps snbad i l v o :
    ahead sa i -> S i < e_argc e -> nth_error (e_strs e) i = Some (45%Z :: 45%Z :: l) -> nth_error (e_strs e) (S i) = Some v ->
    name_ok l = true -> find_opt (e_tbl e) (ByLong l) = Some o ->
    (value_kind o v = true \/ (bool_kind o = true /\ is_boolean_value v = true)) -> wf_store n sto ->
    step e rec (mkst i sa sto sbad shelps snbad) (Some (i, 0)) =
    rec (mkst (S (S i)) (clr (clr sa i) (S i)) (assign (e_pre e) o (AVal v) sto) sbad shelps snbad) (cur_at (S (S i))).
  Proof.
    intros Ha HSi Hstr Hstr1 Hl Hfind Hkind Hwf. assert (Hi : i < e_argc e) by lia.
    pose proof (find_long_spec _ l [] _ Hnames Hl ltac:(left; reflexivity) Hfind) as (j & Hj & Hnth).
    rewrite app_nil_r in Hj.
    pose proof (ahead_nxt _ _ Ha Hi) as Hnxt. destruct (ahead_i _ _ Ha Hi) as (Hai & Hil).
    assert (HSi' : (S i <? e_argc e) = true) by now apply Nat.ltb_lt. rewrite HSi' in Hnxt.
    unfold name_ok in Hl. apply andb_true_iff in Hl. destruct Hl as [Hnzl Hnoeq].
    assert (Hc1 : exists c1 rest, 45%Z :: l = c1 :: rest) by eauto. destruct Hc1 as (c1 & rest & Hc1).
    rewrite (step_start _ i 45%Z l); auto.
    rewrite (lookup_long _ _ _ 1 j Hstr); auto.
    rewrite (after_find_value _ _ _ _ _ _ _ _ o true (Some (S i)) false (S i, 0) v l
                              (if S (S i) <? e_argc e then Some (S (S i)) else None) Hnth); auto.
    - cbn [optptr_eqb arg_ptr option_map]. unfold ptr_eqb. cbn [fst snd]. rewrite !Nat.eqb_refl. cbn [andb].
      now rewrite arg_ptr_cur.
    - unfold find_value. rewrite (cstr_at_at _ _ 2 Hstr) by (simpl; lia). cbn [bind].
      change (skipn 2 (45%Z :: 45%Z :: l)) with l. rewrite (index_eq_none _ Hnoeq). reflexivity.
    - rewrite (cstr_at_at _ _ 0 Hstr1) by lia. reflexivity.
    - rewrite (cstr_at_at _ _ 2 Hstr) by (simpl; lia). reflexivity.
    - destruct Hkind as [Hk|(Hk & Hb)]; [left; auto|right; left; auto].
    - intros Hlk. exfalso. destruct Hkind as [Hk|(Hk & _)]; [eapply value_not_list|eapply bool_not_list]; eauto.
    - intros _. apply (ahead_nth _ i); auto; lia.
  Qed.

  (* --flag *)
  Lemma run_longflag sa sto sbad shelps snbad i l o :
    ahead sa i -> i < e_argc e -> nth_error (e_strs e) i = Some (45%Z :: 45%Z :: l) ->
    name_ok l = true -> find_opt (e_tbl e) (ByLong l) = Some o -> flag_kind o = true ->
    (is_boolean o = true -> forall vs, nth_error (e_strs e) (S i) = Some vs -> is_boolean_value vs = false) ->
    wf_store n sto ->
    step e rec (mkst i sa sto sbad shelps snbad) (Some (i, 0)) =
    rec (mkst (S i) (clr sa i) (assign (e_pre e) o AFlag sto) sbad shelps snbad) (cur_at (S i)).
  Proof.
    intros Ha Hi Hstr Hl Hfind Hkind Hnb Hwf.
    pose proof (find_long_spec _ l [] _ Hnames Hl ltac:(left; reflexivity) Hfind) as (j & Hj & Hnth).
    rewrite app_nil_r in Hj.
    pose proof (ahead_nxt _ _ Ha Hi) as Hnxt. destruct (ahead_i _ _ Ha Hi) as (Hai & Hil).
    unfold name_ok in Hl. apply andb_true_iff in Hl. destruct Hl as [Hnzl Hnoeq].
    rewrite (step_start _ i 45%Z l); auto.
    rewrite (lookup_long _ _ _ 1 j Hstr); auto.
    rewrite (after_find_flag_long _ _ _ _ _ _ _ _ o (if S i <? e_argc e then Some (S i) else None) l Hnth); auto.
    - now rewrite arg_ptr_cur.
    - rewrite (cstr_at_at _ _ 2 Hstr) by (simpl; lia). reflexivity.
    - now apply index_eq_none.
  Qed.

  (* -x w1 w2 ... / --long w1 w2 ... to the end of the line *)
  Lemma run_rest sa sto sbad shelps snbad i r o :
    ahead sa i -> S i < e_argc e -> nth_error (e_strs e) i = Some (ref_arg r) ->
    match r with ByShort x => letter_ok_b x | ByLong l => name_ok l end = true ->
    find_opt (e_tbl e) r = Some o -> list_kind o = true -> wf_store n sto ->
    step e rec (mkst i sa sto sbad shelps snbad) (Some (i, 0)) =
    Ok (Done (e_pre e)
             (mkst (S i) (if rm_active e then nulls_from (clr sa i) (S i) (e_argc e - S i) else clr sa i)
                   (assign (e_pre e) o (ARest (skipn (S i) (e_strs e))) sto) sbad shelps snbad)).
  Proof.
    intros Ha HSi Hstr Hr Hfind Hkind Hwf. assert (Hi : i < e_argc e) by lia.
    destruct (ahead_i _ _ Ha Hi) as (Hai & Hil).
    assert (HSi' : (S i <? e_argc e) = true) by now apply Nat.ltb_lt.
    destruct Ha as (Hlen & Hlast & Hk).
    destruct r as [x|l]; cbn [ref_arg] in Hstr.
    - unfold letter_ok_b in Hr. apply andb_true_iff in Hr. destruct Hr as [_ H45]. apply negb_true_iff in H45.
      destruct (find_short_spec _ _ _ Hfind) as (j & Hj & Hnth).
      rewrite (step_start _ i x []); auto.
      rewrite (lookup_short _ _ _ 1 x j Hstr); auto.
      apply (after_find_rest _ _ _ _ _ _ _ _ _ _ [x] Hnth); auto.
      + intros k Hk'. apply Hk. lia.
      + unfold find_value. cbn [fst snd]. rewrite (getc_at _ _ 2 Hstr) by (simpl; lia). reflexivity.
      + rewrite (cstr_at_at _ _ 1 Hstr) by (simpl; lia). reflexivity.
    - pose proof (find_long_spec _ l [] _ Hnames Hr ltac:(left; reflexivity) Hfind) as (j & Hj & Hnth).
      rewrite app_nil_r in Hj.
      unfold name_ok in Hr. apply andb_true_iff in Hr. destruct Hr as [Hnzl Hnoeq].
      rewrite (step_start _ i 45%Z l); auto.
      rewrite (lookup_long _ _ _ 1 j Hstr); auto.
      apply (after_find_rest _ _ _ _ _ _ _ _ _ _ l Hnth); auto.
      + intros k Hk'. apply Hk. lia.
      + unfold find_value. rewrite (cstr_at_at _ _ 2 Hstr) by (simpl; lia). cbn [bind].
        change (skipn 2 (45%Z :: 45%Z :: l)) with l. rewrite (index_eq_none _ Hnoeq). reflexivity.
      + rewrite (cstr_at_at _ _ 2 Hstr) by (simpl; lia). reflexivity.
  Qed.
End Rules.

(* ---------------------------------------------------------------------------------- *)
(* D. induction over the spelling list                                                 *)
(* ---------------------------------------------------------------------------------- *)
Lemma nth_error_skipn_add {A} (l : list A) i k : nth_error (skipn i l) k = nth_error l (i + k).
Proof.
  revert i; induction l as [|x t IH]; intros [|i]; simpl; auto.
  - rewrite skipn_nil. now destruct k.
  - rewrite skipn_cons. apply IH.
Qed.

Lemma put_wf {A} n (l : list A) slot f : length l = n -> length (put l slot f) = n.
Proof. intros. now rewrite put_length. Qed.

Lemma assign_wf n pre o a sto : wf_store n sto -> wf_store n (assign pre o a sto).
Proof.
  intros (W1 & W2 & W3 & W4). unfold assign. destruct (negb _); [unfold wf_store; auto|].
  destruct (kind_of o), a; unfold wf_store; simpl; rewrite ?put_length; auto.
  destruct (o_slot o); simpl; auto.
Qed.

Lemma assign_ref_wf n pre tbl r a sto : wf_store n sto -> wf_store n (assign_ref pre tbl r a sto).
Proof. intros H. unfold assign_ref. destruct (find_opt tbl r); auto. now apply assign_wf. Qed.

(* rounds of the loop a spelling takes *)
Definition cost (sp : spelling) : nat := match sp with Bundle xs => length xs | _ => 1 end.
Definition costs (sps : list spelling) : nat := fold_right (fun sp a => cost sp + a) 0 sps.

Ltac split1 H H' := apply andb_true_iff in H; destruct H as [H H'].

Section Trip.
  Variable e : env.
  Variable n : nat.
  Hypothesis Hargc : e_argc e = length (e_strs e).
  Hypothesis Hnz : forall i s, nth_error (e_strs e) i = Some s -> nz_word s = true.
  Hypothesis Hnames : names_ok (e_tbl e) = true.
  Hypothesis Hwt : wf_table n (e_tbl e).

  Let tbl := e_tbl e.
  Let pre := e_pre e.
  Let step_mid_ := step_mid e Hargc.
  Let lookup_flag_ := lookup_flag e n Hargc Hnz Hwt.
  Let run_word_ := run_word e Hargc.
  Let run_attached_ := run_attached e n Hargc Hnz Hwt.
  Let run_sep_ := run_sep e n Hargc Hnz Hwt.
  Let run_longeq_ := run_longeq e n Hargc Hnz Hnames Hwt.
  Let run_longsep_ := run_longsep e n Hargc Hnz Hnames Hwt.
  Let run_longflag_ := run_longflag e n Hargc Hnz Hnames Hwt.
  Let run_rest_ := run_rest e n Hargc Hnz Hnames Hwt.
  Let ahead_mono_ := ahead_mono e Hargc.
  Let ahead_clr_ := ahead_clr e Hargc.
  Let ahead_i_ := ahead_i e Hargc.
  Let ahead_nxt_ := ahead_nxt e Hargc.

  (* argv after the loop, as a function of the spellings still ahead *)
  Fixpoint argv_after (sa : list (option nat)) (i : nat) (sps : list spelling) : list (option nat) :=
    match sps with
    | [] => sa
    | Word _ :: r => argv_after sa (S i) r
    | ShortSep _ _ :: r | LongSep _ _ :: r | BoolWord _ _ :: r =>
        argv_after (clr e (clr e sa i) (S i)) (S (S i)) r
    | ArgListRest _ _ :: _ =>
        if rm_active e then nulls_from (clr e sa i) (S i) (e_argc e - S i) else clr e sa i
    | _ :: r => argv_after (clr e sa i) (S i) r
    end.

  (* a bundle of flags, letter by letter *)
  Lemma bundle_run xs : forall done sa sto sbad shelps snbad f i nxt a,
    nth_error (e_strs e) i = Some (45%Z :: done ++ xs) -> xs <> [] ->
    forallb (fun x => letter_ok_b x && opt_is tbl (ByShort x) flag_kind) xs = true ->
    i < e_argc e -> i < length sa -> nth_error sa i = Some a -> nxt_ok e sa i nxt -> wf_store n sto ->
    lookup e (loop (length xs - 1 + f) e) (mkst i sa sto sbad shelps snbad) (i, 1 + length done) =
    loop f e (mkst (S i) (clr e sa i) (fold_left (fun s x => assign_ref pre tbl (ByShort x) AFlag s) xs sto) sbad shelps snbad)
         (arg_ptr nxt).
  Proof.
    induction xs as [|x xs IH]; intros done sa sto sbad shelps snbad f i nxt a Hstr Hne Hall Hi Hil Hai Hnxt Hwf; [congruence|].
    cbn [forallb] in Hall. apply andb_true_iff in Hall. destruct Hall as [Hx Hall].
    apply andb_true_iff in Hx. destruct Hx as [Hlet Hopt].
    unfold opt_is in Hopt. destruct (find_opt tbl (ByShort x)) as [o|] eqn:Ef; [|discriminate].
    assert (Hnx : nth_error (45%Z :: done ++ x :: xs) (1 + length done) = Some x).
    { cbn [Nat.add nth_error]. rewrite nth_error_app2, Nat.sub_diag by lia. reflexivity. }
    rewrite (lookup_flag_ _ _ _ _ _ _ _ _ _ x o nxt Hstr Hnx Hlet Ef Hopt Hil Hnxt Hwf).
    cbv zeta. cbn [fold_left]. unfold assign_ref at 2. fold tbl. rewrite Ef. fold pre.
    destruct xs as [|y xs].
    - (* last letter *)
      assert (Hlast : (S (1 + length done) <? length (45%Z :: done ++ [x])) = false).
      { apply Nat.ltb_ge. simpl. rewrite app_length. simpl. lia. }
      rewrite Hlast. reflexivity.
    - assert (Hmore : (S (1 + length done) <? length (45%Z :: done ++ x :: y :: xs)) = true).
      { apply Nat.ltb_lt. simpl. rewrite app_length. simpl. lia. }
      rewrite Hmore. replace (length (x :: y :: xs) - 1 + f) with (S (length xs + f)) by (simpl; lia). cbn [loop].
      assert (Hai' : exists a', nth_error (clr e sa i) i = Some a').
      { destruct (nth_error (clr e sa i) i) eqn:E; eauto. apply nth_error_None in E. rewrite clr_length in E. lia. }
      destruct Hai' as (a' & Hai').
      rewrite (step_mid_ _ _ i _ a'); auto; try lia.
      replace (S (1 + length done)) with (1 + length (done ++ [x])) by (rewrite app_length; simpl; lia).
      replace (length xs + f) with (length (y :: xs) - 1 + f) by (simpl; lia).
      rewrite (IH (done ++ [x]) (clr e sa i) _ sbad shelps snbad f i nxt a'); auto.
      + now rewrite clr_idem.
      + rewrite <- app_assoc. exact Hstr.
      + discriminate.
      + now rewrite clr_length.
      + destruct Hnxt as (Hn1 & Hn2). split; auto. rewrite clr_other by lia. exact Hn1.
      + now apply assign_wf.
  Qed.
  (* ---- the list of remaining strings and positions ---- *)
  Lemma skipn_add {A} (l : list A) i m : skipn (i + m) l = skipn m (skipn i l).
  Proof.
    revert l; induction i as [|i IH]; intros l; [reflexivity|].
    destruct l as [|x t]; cbn [Nat.add]; [now rewrite !skipn_nil|]. rewrite !skipn_cons. apply IH.
  Qed.
  Lemma skipn_step {A} (l : list A) i a b : skipn i l = a ++ b -> skipn (i + length a) l = b.
  Proof.
    intros H. rewrite skipn_add, H. apply skipn_app_exact.
  Qed.
  Lemma skipn_nth {A} (l : list A) i a b k : skipn i l = a ++ b -> k < length a -> nth_error l (i + k) = nth_error a k.
  Proof. intros H Hk. rewrite <- nth_error_skipn_add, H. now apply nth_error_app1. Qed.
  Lemma skipn_nth_next {A} (l : list A) i a b : skipn i l = a ++ b -> nth_error l (i + length a) = hd_error b.
  Proof.
    intros H. rewrite <- nth_error_skipn_add, H, nth_error_app2, Nat.sub_diag by lia. now destruct b.
  Qed.
  Lemma skipn_lt {A} (l : list A) i x t : skipn i l = x :: t -> i < length l.
  Proof.
    intros H. destruct (Nat.lt_ge_cases i (length l)); auto. rewrite skipn_all2 in H by lia. discriminate.
  Qed.

  Lemma opt_is_inv r p : opt_is tbl r p = true -> exists o, find_opt tbl r = Some o /\ p o = true.
  Proof. unfold opt_is. destruct (find_opt tbl r); [eauto|discriminate]. Qed.

  Lemma render_one_nonempty sp : exists x t, render_one sp = x :: t.
  Proof. destruct sp; simpl; eauto. Qed.
  Lemma render_nil sps : render sps = [] -> sps = [].
  Proof.
    destruct sps as [|sp r]; auto. unfold render. simpl. destruct (render_one_nonempty sp) as (x & t & ->). discriminate.
  Qed.
  Lemma render_cons sp r : render (sp :: r) = render_one sp ++ render r.
  Proof. reflexivity. Qed.

  Lemma ahead_step sa i m : ahead e sa i -> i + m <= e_argc e -> ahead e sa (i + m).
  Proof. intros H Hm. apply (ahead_mono_ sa i); auto. lia. Qed.

  Lemma run_sps : forall rest i sa sto ws sbad shelps snbad f,
    skipn i (e_strs e) = render rest -> ahead e sa i -> wf_store n sto -> sps_ok tbl rest = true ->
    exists iend,
      loop (costs rest + S f) e (mkst i sa sto sbad shelps snbad) (cur_at e i) =
      Ok (Done pre (mkst iend (argv_after sa i rest) (fst (fold_left (ideal_one pre tbl) rest (sto, ws))) sbad shelps snbad)).
  Proof.
    induction rest as [|sp r IH]; intros i sa sto ws sbad shelps snbad f Hsk Ha Hwf Hok.
    { (* end of the command line *)
      exists i. cbn [costs fold_right Nat.add loop argv_after fold_left fst]. unfold step. cbn [st_i].
      assert (Hge : (i <? e_argc e) = false).
      { apply Nat.ltb_ge. rewrite Hargc. destruct (Nat.lt_ge_cases i (length (e_strs e))); auto.
        exfalso. assert (length (skipn i (e_strs e)) = 0) by now rewrite Hsk. rewrite skipn_length in H0. lia. }
      rewrite Hge. reflexivity. }
    cbn [sps_ok] in Hok. apply andb_true_iff in Hok. destruct Hok as [Hsp Hrok].
    rewrite render_cons in Hsk.
    destruct (render_one_nonempty sp) as (x0 & t0 & Hr1).
    assert (Hi : i < e_argc e). { rewrite Hargc. rewrite Hr1 in Hsk. eapply skipn_lt; eauto. }
    assert (Hcur : cur_at e i = Some (i, 0)). { unfold cur_at. apply Nat.ltb_lt in Hi. now rewrite Hi. }
    assert (Hlenle : i + length (render_one sp) <= e_argc e).
    { rewrite Hargc. assert (Hl : length (skipn i (e_strs e)) = length (render_one sp ++ render r)) by now rewrite Hsk.
      rewrite skipn_length, app_length in Hl. lia. }
    pose proof (skipn_step _ _ _ _ Hsk) as Hsk'.
    assert (Hnth : forall k, k < length (render_one sp) -> nth_error (e_strs e) (i + k) = nth_error (render_one sp) k)
      by (intros; eapply skipn_nth; eauto).
    pose proof (skipn_nth_next _ _ _ _ Hsk) as Hnext.
    cbn [costs fold_right]. fold (costs r). rewrite Hcur.
    (* one-round spellings: loop (1 + m) = step (loop m) *)
    destruct sp as [x|xs|x v|x v|l|l v|l v|l w|ro lws|w]; cbn [render_one length] in *; cbn [cost sp_ok] in *.
    - (* ShortFlag *)
      apply andb_true_iff in Hsp. destruct Hsp as [Hlet Hopt].
      pose proof (Hnth 0 ltac:(lia)) as Hstr. rewrite Nat.add_0_r in Hstr. cbn [nth_error] in Hstr.
      destruct (ahead_i_ sa i Ha Hi) as (Hai & Hil).
      cbn [Nat.add loop]. rewrite (step_start e Hargc Hnz _ _ i x []); auto.
      pose proof (bundle_run [x] [] sa sto sbad shelps snbad (costs r + S f) i _ _ Hstr ltac:(discriminate)
                             ltac:(cbn [forallb]; rewrite Hlet, Hopt; reflexivity) Hi Hil Hai (ahead_nxt_ sa i Ha Hi) Hwf) as Hb.
      cbn [length Nat.sub Nat.add] in Hb. rewrite Hb. rewrite arg_ptr_cur.
      replace (S i) with (i + 1) by lia.
      destruct (IH (i + 1) (clr e sa i) (fold_left (fun s x => assign_ref pre tbl (ByShort x) AFlag s) [x] sto) ws sbad shelps snbad f)
        as (iend & Hend); auto.
      + apply ahead_clr_; try lia. apply ahead_step; auto.
      + cbn [fold_left]. now apply assign_ref_wf.
      + exists iend. fold pre. rewrite Hend. cbn [fold_left ideal_one argv_after]. replace (i + 1) with (S i) by lia. reflexivity.
    - (* Bundle *)
      apply andb_true_iff in Hsp. destruct Hsp as [Hne Hall].
      destruct xs as [|x xs]; [discriminate|].
      pose proof (Hnth 0 ltac:(lia)) as Hstr. rewrite Nat.add_0_r in Hstr. cbn [nth_error] in Hstr.
      destruct (ahead_i_ sa i Ha Hi) as (Hai & Hil).
      rewrite <- Nat.add_assoc. cbn [length Nat.add loop]. rewrite (step_start e Hargc Hnz _ _ i x xs); auto.
      pose proof (bundle_run (x :: xs) [] sa sto sbad shelps snbad (costs r + S f) i _ _ Hstr ltac:(discriminate)
                             Hall Hi Hil Hai (ahead_nxt_ sa i Ha Hi) Hwf) as Hb.
      cbn [length Nat.sub Nat.add] in Hb. rewrite Nat.sub_0_r in Hb. rewrite Hb. rewrite arg_ptr_cur.
      replace (S i) with (i + 1) by lia.
      destruct (IH (i + 1) (clr e sa i) (fold_left (fun s x => assign_ref pre tbl (ByShort x) AFlag s) (x :: xs) sto) ws sbad shelps snbad f)
        as (iend & Hend); auto.
      + apply ahead_clr_; try lia. apply ahead_step; auto.
      + clear - Hwf. revert sto Hwf. generalize (x :: xs). intros l. induction l; intros; cbn [fold_left]; auto.
        apply IHl. now apply assign_ref_wf.
      + exists iend. fold pre. rewrite Hend. cbn [fold_left ideal_one argv_after]. replace (i + 1) with (S i) by lia. reflexivity.
    - (* ShortAttached *)
      split1 Hsp Hopt. split1 Hsp Hvne. split1 Hsp Hnzv.
      destruct (opt_is_inv _ _ Hopt) as (o & Hfind & Hkind).
      pose proof (Hnth 0 ltac:(lia)) as Hstr. rewrite Nat.add_0_r in Hstr. cbn [nth_error] in Hstr.
      cbn [Nat.add loop]. rewrite (run_attached_ _ sa sto sbad shelps snbad i x v o); auto.
      2:{ destruct v; [discriminate|congruence]. }
      replace (S i) with (i + 1) by lia.
      destruct (IH (i + 1) (clr e sa i) (assign pre o (AVal v) sto) ws sbad shelps snbad f) as (iend & Hend); auto.
      + apply ahead_clr_; try lia. apply ahead_step; auto.
      + now apply assign_wf.
      + exists iend. fold pre. rewrite Hend. cbn [fold_left ideal_one argv_after]. unfold assign_ref. fold tbl. rewrite Hfind.
        replace (i + 1) with (S i) by lia. reflexivity.
    - (* ShortSep *)
      split1 Hsp Hopt. split1 Hsp Hnzv.
      destruct (opt_is_inv _ _ Hopt) as (o & Hfind & Hkind).
      pose proof (Hnth 0 ltac:(lia)) as Hstr. rewrite Nat.add_0_r in Hstr. cbn [nth_error] in Hstr.
      pose proof (Hnth 1 ltac:(lia)) as Hstr1. cbn [nth_error] in Hstr1. replace (i + 1) with (S i) in Hstr1 by lia.
      cbn [Nat.add loop]. rewrite (run_sep_ _ sa sto sbad shelps snbad i x v o); auto; try lia.
      replace (S (S i)) with (i + 2) by lia.
      destruct (IH (i + 2) (clr e (clr e sa i) (S i)) (assign pre o (AVal v) sto) ws sbad shelps snbad f) as (iend & Hend); auto.
      + apply ahead_clr_; try lia. apply ahead_clr_; try lia. apply ahead_step; auto.
      + now apply assign_wf.
      + exists iend. fold pre. rewrite Hend. cbn [fold_left ideal_one argv_after]. unfold assign_ref. fold tbl. rewrite Hfind.
        replace (i + 2) with (S (S i)) by lia. reflexivity.
    - (* LongFlag *)
      split1 Hsp H. split1 Hsp Hopt.
      destruct (opt_is_inv _ _ Hopt) as (o & Hfind & Hkind).
      pose proof (Hnth 0 ltac:(lia)) as Hstr. rewrite Nat.add_0_r in Hstr. cbn [nth_error] in Hstr.
      cbn [Nat.add loop]. rewrite (run_longflag_ _ sa sto sbad shelps snbad i l o); auto.
      2:{ intros Hb vs Hvs. replace (S i) with (i + 1) in Hvs by lia. rewrite Hnext in Hvs.
          unfold opt_is in H. fold tbl in Hfind. rewrite Hfind, Hb in H. cbn [negb orb] in H.
          unfold word in *. rewrite Hvs in H. now apply negb_true_iff in H. }
      replace (S i) with (i + 1) by lia.
      destruct (IH (i + 1) (clr e sa i) (assign pre o AFlag sto) ws sbad shelps snbad f) as (iend & Hend); auto.
      + apply ahead_clr_; try lia. apply ahead_step; auto.
      + now apply assign_wf.
      + exists iend. fold pre. rewrite Hend. cbn [fold_left ideal_one argv_after]. unfold assign_ref. fold tbl. rewrite Hfind.
        replace (i + 1) with (S i) by lia. reflexivity.
    - (* LongEq *)
      split1 Hsp H. split1 Hsp Hnzv.
      assert (Hk : exists o, find_opt tbl (ByLong l) = Some o /\ keeps_value o v true true).
      { apply orb_true_iff in H. destruct H as [H|H]; [apply orb_true_iff in H; destruct H as [H|H]|].
        - destruct (opt_is_inv _ _ H) as (o & ? & ?). exists o. split; auto. left; auto.
        - apply andb_true_iff in H. destruct H as [H Hbv]. destruct (opt_is_inv _ _ H) as (o & ? & ?).
          exists o. split; auto. right; left; auto.
        - destruct (opt_is_inv _ _ H) as (o & ? & ?). exists o. split; auto. right; right; auto. }
      destruct Hk as (o & Hfind & Hkind).
      pose proof (Hnth 0 ltac:(lia)) as Hstr. rewrite Nat.add_0_r in Hstr. cbn [nth_error] in Hstr.
      cbn [Nat.add loop]. rewrite (run_longeq_ _ sa sto sbad shelps snbad i l v o); auto.
      replace (S i) with (i + 1) by lia.
      destruct (IH (i + 1) (clr e sa i) (assign pre o (AVal v) sto) ws sbad shelps snbad f) as (iend & Hend); auto.
      + apply ahead_clr_; try lia. apply ahead_step; auto.
      + now apply assign_wf.
      + exists iend. fold pre. rewrite Hend. cbn [fold_left ideal_one argv_after]. unfold assign_ref. fold tbl. rewrite Hfind.
        replace (i + 1) with (S i) by lia. reflexivity.
    - (* LongSep *)
      split1 Hsp Hopt. split1 Hsp Hnzv.
      destruct (opt_is_inv _ _ Hopt) as (o & Hfind & Hkind).
      pose proof (Hnth 0 ltac:(lia)) as Hstr. rewrite Nat.add_0_r in Hstr. cbn [nth_error] in Hstr.
      pose proof (Hnth 1 ltac:(lia)) as Hstr1. cbn [nth_error] in Hstr1. replace (i + 1) with (S i) in Hstr1 by lia.
      cbn [Nat.add loop]. rewrite (run_longsep_ _ sa sto sbad shelps snbad i l v o); auto; try lia.
      replace (S (S i)) with (i + 2) by lia.
      destruct (IH (i + 2) (clr e (clr e sa i) (S i)) (assign pre o (AVal v) sto) ws sbad shelps snbad f) as (iend & Hend); auto.
      + apply ahead_clr_; try lia. apply ahead_clr_; try lia. apply ahead_step; auto.
      + now apply assign_wf.
      + exists iend. fold pre. rewrite Hend. cbn [fold_left ideal_one argv_after]. unfold assign_ref. fold tbl. rewrite Hfind.
        replace (i + 2) with (S (S i)) by lia. reflexivity.
    - (* BoolWord *)
      split1 Hsp Hbv. split1 Hsp Hopt. split1 Hsp Hnzw.
      destruct (opt_is_inv _ _ Hopt) as (o & Hfind & Hkind).
      pose proof (Hnth 0 ltac:(lia)) as Hstr. rewrite Nat.add_0_r in Hstr. cbn [nth_error] in Hstr.
      pose proof (Hnth 1 ltac:(lia)) as Hstr1. cbn [nth_error] in Hstr1. replace (i + 1) with (S i) in Hstr1 by lia.
      cbn [Nat.add loop]. rewrite (run_longsep_ _ sa sto sbad shelps snbad i l w o); auto; try lia.
      replace (S (S i)) with (i + 2) by lia.
      destruct (IH (i + 2) (clr e (clr e sa i) (S i)) (assign pre o (AVal w) sto) ws sbad shelps snbad f) as (iend & Hend); auto.
      + apply ahead_clr_; try lia. apply ahead_clr_; try lia. apply ahead_step; auto.
      + now apply assign_wf.
      + exists iend. fold pre. rewrite Hend. cbn [fold_left ideal_one argv_after]. unfold assign_ref. fold tbl. rewrite Hfind.
        replace (i + 2) with (S (S i)) by lia. reflexivity.
    - (* ArgListRest *)
      split1 Hsp Hnone. split1 Hsp Hnzws. split1 Hsp Hne. split1 Hsp Hopt.
      destruct (opt_is_inv _ _ Hopt) as (o & Hfind & Hkind).
      assert (Hr : r = []). { apply render_nil. destruct (render r); [reflexivity|discriminate]. }
      subst r. destruct lws as [|w0 lws]; [discriminate|].
      pose proof (Hnth 0 ltac:(simpl; lia)) as Hstr. rewrite Nat.add_0_r in Hstr. cbn [nth_error] in Hstr.
      cbn [Nat.add loop]. rewrite (run_rest_ _ sa sto sbad shelps snbad i ro o); auto.
      2:{ cbn [length] in Hlenle. lia. }
      eexists. f_equal. f_equal. cbn [fold_left ideal_one argv_after fst]. unfold assign_ref. fold tbl. rewrite Hfind.
      f_equal. f_equal. f_equal.
      replace (S i) with (i + 1) by lia. rewrite skipn_add, Hsk.
      unfold render. cbn [map concat]. rewrite app_nil_r. reflexivity.
    - (* Word *)
      apply andb_true_iff in Hsp. destruct Hsp as [Hnzw Hw].
      pose proof (Hnth 0 ltac:(lia)) as Hstr. rewrite Nat.add_0_r in Hstr. cbn [nth_error] in Hstr.
      cbn [Nat.add loop]. rewrite (run_word_ _ sa sto sbad shelps snbad i w); auto.
      replace (S i) with (i + 1) by lia.
      destruct (IH (i + 1) sa sto (ws ++ [w]) sbad shelps snbad f) as (iend & Hend); auto.
      + apply ahead_step; auto.
      + exists iend. fold pre. rewrite Hend. cbn [fold_left ideal_one argv_after]. replace (i + 1) with (S i) by lia. reflexivity.
  Qed.
End Trip.

(* ---------------------------------------------------------------------------------- *)
(* the theorem                                                                         *)
(* ---------------------------------------------------------------------------------- *)
Definition words_of (sps : list spelling) : list word :=
  flat_map (fun sp => match sp with Word w => [w] | _ => [] end) sps.

Lemma ideal_words pre tbl sps : forall sto ws,
  snd (fold_left (ideal_one pre tbl) sps (sto, ws)) = ws ++ words_of sps.
Proof.
  induction sps as [|sp r IH]; intros sto ws; cbn [fold_left words_of flat_map snd].
  - now rewrite app_nil_r.
  - destruct sp; cbn [ideal_one]; rewrite IH; cbn [app]; try reflexivity.
    now rewrite <- app_assoc.
Qed.

Lemma total_app a b : total (a ++ b) = total a + total b.
Proof. induction a as [|x t IH]; simpl; [reflexivity|]. rewrite IH. lia. Qed.

Lemma costs_le sps : costs sps <= total (render sps).
Proof.
  induction sps as [|sp r IH]; [simpl; lia|].
  rewrite render_cons, total_app. cbn [costs fold_right]. fold (costs r).
  assert (cost sp <= total (render_one sp)); [|lia].
  destruct sp; simpl; lia.
Qed.

Lemma sp_ok_nz tbl sp next s : sp_ok tbl sp next = true -> In s (render_one sp) -> nz_word s = true.
Proof.
  intros Hok Hin. unfold letter_ok_b, name_ok in *.
  destruct sp as [x|xs|x v|x v|l|l v|l v|l w|ro lws|w]; cbn [render_one sp_ok] in *.
  - split1 Hok H. split1 Hok H0. destruct Hin as [<-|[]]. simpl. now rewrite Hok.
  - split1 Hok Hall. destruct Hin as [<-|[]]. cbn [nz_word forallb Z.eqb negb andb].
    clear Hok. induction xs as [|x xs IH]; [reflexivity|]. cbn [forallb] in *. split1 Hall H.
    split1 Hall H0. split1 Hall H1. rewrite Hall. cbn [andb]. now apply IH.
  - split1 Hok H. split1 Hok H0. split1 Hok H1. split1 Hok H2. destruct Hin as [<-|[]].
    cbn [nz_word forallb Z.eqb negb andb]. rewrite Hok. exact H1.
  - split1 Hok H. split1 Hok H0. split1 Hok H1. destruct Hin as [<-|[<-|[]]]; auto.
    cbn [nz_word forallb Z.eqb negb andb]. now rewrite Hok.
  - split1 Hok H. split1 Hok H0. split1 Hok H1. destruct Hin as [<-|[]]. exact Hok.
  - split1 Hok H. split1 Hok H0. split1 Hok H1. destruct Hin as [<-|[]].
    cbn [nz_word forallb Z.eqb negb andb]. fold (nz_word (l ++ 61%Z :: v)). rewrite nz_word_app, Hok.
    cbn [nz_word forallb Z.eqb negb andb]. exact H0.
  - split1 Hok H. split1 Hok H0. split1 Hok H1. destruct Hin as [<-|[<-|[]]]; auto.
  - split1 Hok H. split1 Hok H0. split1 Hok H1. split1 Hok H2. destruct Hin as [<-|[<-|[]]]; auto.
  - split1 Hok H. split1 Hok H0. split1 Hok H1. split1 Hok H2. destruct Hin as [<-|Hin].
    + destruct ro as [x|l]; cbn [ref_arg].
      * split1 Hok H3. cbn [nz_word forallb Z.eqb negb andb]. now rewrite Hok.
      * split1 Hok H3. exact Hok.
    + rewrite forallb_forall in H0. auto.
  - split1 Hok H. destruct Hin as [<-|[]]. exact Hok.
Qed.

Lemma sps_ok_nz tbl sps s : sps_ok tbl sps = true -> In s (render sps) -> nz_word s = true.
Proof.
  induction sps as [|sp r IH]; intros Hok Hin; [destruct Hin|].
  cbn [sps_ok] in Hok. split1 Hok Hr. rewrite render_cons in Hin. apply in_app_or in Hin.
  destruct Hin as [Hin|Hin]; [eapply sp_ok_nz; eauto|auto].
Qed.

Lemma argv_after_id e sa i sps : rm_active e = false -> argv_after e sa i sps = sa.
Proof.
  intros Hrm. revert sa i; induction sps as [|sp r IH]; intros sa i; [reflexivity|].
  assert (Hc : forall a k, clr e a k = a) by (intros; unfold clr; now rewrite Hrm).
  destruct sp; cbn [argv_after]; rewrite ?Hc, ?Hrm; auto.
Qed.

Lemma ahead_init e : e_argc e = length (e_strs e) -> ahead e (init_argv (e_argc e)) 1.
Proof.
  intros H. repeat split.
  - apply init_argv_length.
  - apply init_argv_last.
  - intros k Hk. apply init_argv_lt. lia.
Qed.

(* ---- argv after the loop and after the compaction ---- *)
Definition somes (l : list (option nat)) : list nat :=
  flat_map (fun x => match x with Some v => [v] | None => [] end) l.

(* the positions of the non-option words, from position i on *)
Fixpoint kept_ids (i : nat) (sps : list spelling) : list nat :=
  match sps with
  | [] => []
  | ArgListRest _ _ :: _ => []                 (* takes the rest of the line *)
  | sp :: r => (match sp with Word _ => [i] | _ => [] end) ++ kept_ids (i + length (render_one sp)) r
  end.

Lemma kept_ids_words tbl strs sps : forall i,
  sps_ok tbl sps = true -> skipn i strs = render sps ->
  map (fun k => nth k strs []) (kept_ids i sps) = words_of sps.
Proof.
  induction sps as [|sp r IH]; intros i Hok Hsk; [reflexivity|].
  cbn [sps_ok] in Hok. split1 Hok Hrok.
  rewrite render_cons in Hsk.
  assert (Hgen : map (fun k => nth k strs []) ((match sp with Word _ => [i] | _ => [] end) ++ kept_ids (i + length (render_one sp)) r)
                 = words_of (sp :: r)).
  { cbn [words_of flat_map]. rewrite map_app.
    rewrite (IH _ Hrok (skipn_step _ _ _ _ Hsk)). f_equal.
    destruct sp; try reflexivity. cbn [map]. f_equal.
    pose proof (skipn_nth _ _ _ _ 0 Hsk ltac:(simpl; lia)) as H. rewrite Nat.add_0_r in H. cbn [render_one nth_error] in H.
    now apply nth_error_nth. }
  destruct sp; try exact Hgen.
  (* ArgListRest is the last spelling *)
  cbn [sp_ok] in Hok. split1 Hok Hnone.
  assert (Hr : r = []). { apply render_nil. destruct (render r); [reflexivity|discriminate]. }
  subst r. reflexivity.
Qed.

Lemma nulls_from_length a k c : length (nulls_from a k c) = length a.
Proof. revert a k; induction c as [|c IH]; intros a k; simpl; auto. now rewrite IH, upd_length. Qed.
Lemma nulls_from_before a k c m : m < k -> nth_error (nulls_from a k c) m = nth_error a m.
Proof.
  revert a k; induction c as [|c IH]; intros a k H; simpl; auto.
  rewrite IH by lia. apply nth_error_upd_neq. lia.
Qed.
Lemma nulls_from_in a k c m : k <= m < k + c -> m < length a -> nth_error (nulls_from a k c) m = Some None.
Proof.
  revert a k; induction c as [|c IH]; intros a k H Hl; simpl; [lia|].
  destruct (Nat.eq_dec k m) as [->|Hne].
  - rewrite nulls_from_before by lia. now apply nth_error_upd_eq.
  - apply IH; [lia|now rewrite upd_length].
Qed.

Lemma argv_after_length e sa i sps : length (argv_after e sa i sps) = length sa.
Proof.
  revert sa i; induction sps as [|sp r IH]; intros sa i; [reflexivity|].
  destruct sp; cbn [argv_after]; rewrite ?IH, ?clr_length; auto.
  destruct (rm_active e); rewrite ?nulls_from_length, ?clr_length; auto.
Qed.

Lemma argv_after_before e sa i sps k : k < i -> nth_error (argv_after e sa i sps) k = nth_error sa k.
Proof.
  revert sa i; induction sps as [|sp r IH]; intros sa i Hk; [reflexivity|].
  destruct sp; cbn [argv_after]; rewrite ?IH by lia; rewrite ?clr_other by lia; auto.
  destruct (rm_active e); rewrite ?nulls_from_before by lia; rewrite ?clr_other by lia; auto.
Qed.

Lemma clr_at e a k : rm_active e = true -> k < length a -> nth_error (clr e a k) k = Some None.
Proof. intros Hrm Hk. unfold clr. rewrite Hrm. now apply nth_error_upd_eq. Qed.

Lemma window_cons {A} (l : list A) i m x :
  nth_error l i = Some x -> firstn (S m) (skipn i l) = x :: firstn m (skipn (S i) l).
Proof.
  revert i; induction l as [|y t IH]; intros [|i] H; simpl in H; try discriminate.
  - inversion H; subst. reflexivity.
  - rewrite !skipn_cons. now apply IH.
Qed.

Lemma nth_error_firstn_lt {A} (l : list A) n m : m < n -> nth_error (firstn n l) m = nth_error l m.
Proof.
  revert n m; induction l as [|x t IH]; intros [|n] [|m] H; simpl; auto; try lia. apply IH. lia.
Qed.

Lemma somes_nones l : (forall x, In x l -> x = None) -> somes l = [].
Proof.
  induction l as [|x t IH]; intros H; [reflexivity|]. cbn [somes flat_map].
  rewrite (H x (or_introl eq_refl)). apply IH. intros; apply H; now right.
Qed.

(* the non-NULL slots behind position i after the loop are exactly the positions of the words *)
Lemma argv_after_kept e :
  e_argc e = length (e_strs e) -> rm_active e = true ->
  forall sps sa i, skipn i (e_strs e) = render sps -> ahead e sa i -> i <= e_argc e ->
  somes (firstn (e_argc e - i) (skipn i (argv_after e sa i sps))) = kept_ids i sps.
Proof.
  intros Hargc Hrm. induction sps as [|sp r IH]; intros sa i Hsk Ha Hile.
  { assert (Hge : e_argc e <= i).
    { rewrite Hargc. destruct (Nat.lt_ge_cases i (length (e_strs e))); auto.
      exfalso. assert (length (skipn i (e_strs e)) = 0) by now rewrite Hsk. rewrite skipn_length in H0. lia. }
    replace (e_argc e - i) with 0 by lia. reflexivity. }
  rewrite render_cons in Hsk.
  destruct (render_one_nonempty sp) as (x0 & t0 & Hr1).
  assert (Hi : i < e_argc e). { rewrite Hargc. rewrite Hr1 in Hsk. eapply skipn_lt; eauto. }
  assert (Hlenle : i + length (render_one sp) <= e_argc e).
  { rewrite Hargc. assert (Hl : length (skipn i (e_strs e)) = length (render_one sp ++ render r)) by now rewrite Hsk.
    rewrite skipn_length, app_length in Hl. lia. }
  pose proof (skipn_step _ _ _ _ Hsk) as Hsk'.
  destruct (ahead_i e Hargc sa i Ha Hi) as (Hai & Hil).
  assert (Hone : forall sa', ahead e sa' (i + 1) -> length (render_one sp) = 1 ->
                 nth_error (argv_after e sa' (S i) r) i = Some None ->
                 somes (firstn (e_argc e - i) (skipn i (argv_after e sa' (S i) r))) = kept_ids (i + 1) r).
  { intros sa' Ha' Hl1 Hnone. unfold word in *. replace (e_argc e - i) with (S (e_argc e - S i)) by lia.
    rewrite (window_cons _ _ _ _ Hnone). cbn [somes flat_map app]. fold (somes (firstn (e_argc e - S i) (skipn (S i) (argv_after e sa' (S i) r)))).
    replace (S i) with (i + 1) by lia. rewrite Hl1 in Hsk'. apply IH; auto. lia. }
  assert (Htwo : forall sa', ahead e sa' (i + 2) -> length (render_one sp) = 2 ->
                 nth_error (argv_after e sa' (S (S i)) r) i = Some None ->
                 nth_error (argv_after e sa' (S (S i)) r) (S i) = Some None ->
                 somes (firstn (e_argc e - i) (skipn i (argv_after e sa' (S (S i)) r))) = kept_ids (i + 2) r).
  { intros sa' Ha' Hl2 Hn0 Hn1. unfold word in *. rewrite Hl2 in *. replace (e_argc e - i) with (S (S (e_argc e - S (S i)))) by lia.
    rewrite (window_cons _ _ _ _ Hn0), (window_cons _ _ _ _ Hn1). cbn [somes flat_map app].
    fold (somes (firstn (e_argc e - S (S i)) (skipn (S (S i)) (argv_after e sa' (S (S i)) r)))).
    replace (S (S i)) with (i + 2) by lia. apply IH; auto. }
  assert (Hc1 : nth_error (argv_after e (clr e sa i) (S i) r) i = Some None).
  { rewrite argv_after_before by lia. apply clr_at; auto. }
  assert (Hc2a : nth_error (argv_after e (clr e (clr e sa i) (S i)) (S (S i)) r) i = Some None).
  { rewrite argv_after_before by lia. rewrite clr_other by lia. apply clr_at; auto. }
  assert (Hc2b : S i < e_argc e -> nth_error (argv_after e (clr e (clr e sa i) (S i)) (S (S i)) r) (S i) = Some None).
  { intros HS. rewrite argv_after_before by lia. apply clr_at; auto. rewrite clr_length. destruct Ha as (Hl & _). lia. }
  assert (Ha1 : ahead e (clr e sa i) (i + 1)).
  { apply (ahead_clr e Hargc); try lia. apply (ahead_mono e Hargc sa i); auto. lia. }
  assert (Ha2 : S i < e_argc e -> ahead e (clr e (clr e sa i) (S i)) (i + 2)).
  { intros HS. apply (ahead_clr e Hargc); try lia. apply (ahead_clr e Hargc); try lia. apply (ahead_mono e Hargc sa i); auto. lia. }
  destruct sp as [x|xs|x v|x v|l|l v|l v|l w|ro lws|w]; cbn [argv_after kept_ids app render_one length] in *;
    try (apply Hone; auto; fail); try (apply Htwo; auto; try apply Hc2b; try apply Ha2; lia).
  - (* ArgListRest: everything from i on is NULL *)
    rewrite Hrm. apply somes_nones.
    intros y Hy. apply In_nth_error in Hy. destruct Hy as (m & Hm).
      assert (Hml : m < e_argc e - i).
      { assert (m < length (firstn (e_argc e - i) (skipn i (nulls_from (clr e sa i) (S i) (e_argc e - S i))))) by (apply nth_error_Some; congruence).
        rewrite firstn_length in H. lia. }
      rewrite nth_error_firstn_lt in Hm by exact Hml.
      rewrite nth_error_skipn_add in Hm.
      destruct m as [|m].
      + rewrite Nat.add_0_r, nulls_from_before in Hm by lia. rewrite clr_at in Hm; auto. congruence.
      + rewrite nulls_from_in in Hm; try lia; [congruence|]. rewrite clr_length. destruct Ha as (Hl & _). lia.
  - (* Word: slot i is kept *)
    assert (Hw : nth_error (argv_after e sa (S i) r) i = Some (Some i)) by (rewrite argv_after_before by lia; auto).
    replace (e_argc e - i) with (S (e_argc e - S i)) by lia.
    rewrite (window_cons _ _ _ _ Hw). cbn [somes flat_map app]. f_equal.
    fold (somes (firstn (e_argc e - S i) (skipn (S i) (argv_after e sa (S i) r)))).
    replace (S i) with (i + 1) by lia. apply IH; auto; try lia. apply (ahead_mono e Hargc sa i); auto. lia.
Qed.

(* the compaction loop *)
Lemma firstn_upd_ge {A} (l : list A) k v m : m <= k -> firstn m (upd l k v) = firstn m l.
Proof.
  revert k m; induction l as [|x t IH]; intros [|k] [|m] H; simpl; auto; try lia. f_equal. apply IH. lia.
Qed.
Lemma firstn_upd_snoc {A} (l : list A) k v : k < length l -> firstn (S k) (upd l k v) = firstn k l ++ [v].
Proof.
  revert k; induction l as [|x t IH]; intros [|k] H; simpl in *; try lia; auto. f_equal. apply IH. lia.
Qed.
Lemma skipn_upd_lt {A} (l : list A) k v m : k < m -> skipn m (upd l k v) = skipn m l.
Proof.
  revert k m; induction l as [|x t IH]; intros [|k] [|m] H; simpl; auto; try lia. rewrite !skipn_cons. apply IH. lia.
Qed.

Lemma compact_spec n : forall a k j,
  j <= k -> k + n <= length a ->
  let kept := somes (firstn n (skipn k a)) in
  exists a', compact a k n j = Ok (a', j + length kept) /\ length a' = length a /\
             firstn (j + length kept) a' = firstn j a ++ map Some kept /\
             (forall m, k + n <= m -> nth_error a' m = nth_error a m) /\
             (kept = [] -> a' = a).
Proof.
  induction n as [|n IH]; intros a k j Hj Hk kept; subst kept.
  - cbn [firstn somes flat_map length map compact]. rewrite Nat.add_0_r, app_nil_r. exists a. auto.
  - cbn [compact]. unfold argv_get. destruct (nth_error a k) as [v|] eqn:Ev.
    2:{ apply nth_error_None in Ev. lia. }
    cbn [bind]. rewrite (window_cons _ _ _ _ Ev). destruct v as [sid|].
    + unfold argv_set. assert (Hjl : j <? length a = true) by (apply Nat.ltb_lt; lia). rewrite Hjl. cbn [bind].
      destruct (IH (upd a j (Some sid)) (S k) (S j)) as (a' & Hc & Hl & Hf & Hrest & _); try lia.
      { rewrite upd_length. lia. }
      rewrite skipn_upd_lt in Hc, Hf by lia.
      cbn [somes flat_map app length]. fold (somes (firstn n (skipn (S k) a))).
      exists a'. replace (j + S (length (somes (firstn n (skipn (S k) a))))) with (S j + length (somes (firstn n (skipn (S k) a)))) by lia.
      split; [exact Hc|]. split; [now rewrite Hl, upd_length|]. split.
      * rewrite Hf, firstn_upd_snoc by lia. rewrite <- app_assoc. reflexivity.
      * split; [|discriminate]. intros m Hm. rewrite Hrest by lia. apply nth_error_upd_neq. lia.
    + cbn [somes flat_map app]. fold (somes (firstn n (skipn (S k) a))).
      destruct (IH a (S k) j) as (a' & Hc & Hl & Hf & Hrest & Hsame); try lia.
      exists a'. split; [exact Hc|]. split; [exact Hl|]. split; [exact Hf|]. split; [|exact Hsame].
      intros m Hm. apply Hrest. lia.
Qed.

Lemma argv_words_prefix strs ids t : argv_words strs (map Some ids ++ None :: t) = map (fun k => nth k strs []) ids.
Proof. induction ids as [|k ids IH]; simpl; [reflexivity|]. now rewrite IH. Qed.

Lemma split_at {A} (l : list A) j x : nth_error l j = Some x -> l = firstn j l ++ x :: skipn (S j) l.
Proof.
  revert j; induction l as [|y t IH]; intros [|j] H; simpl in H; try discriminate.
  - inversion H; subst. reflexivity.
  - simpl. rewrite skipn_cons. f_equal. now apply IH.
Qed.

Lemma somes_length_le l : length (somes l) <= length l.
Proof. induction l as [|x t IH]; simpl; [lia|]. destruct x; simpl; rewrite ?app_length; simpl; lia. Qed.

Lemma somes_head_none x t : somes (x :: t) = [] -> x = None.
Proof. destruct x; [discriminate|reflexivity]. Qed.

(* parse_round_trip.  For every table (value pointers into the pools, booleans with one, long
   names without '='), every list of spellings that satisfies the side conditions [sps_ok], every
   program name, all four {preparse, remove_args} settings, every bad-option limit and help handler:
   parsing the rendered command line returns normally with the targets exactly as the ideal reading
   leaves them, no bad option counted and the help handler never called; with argument removal in
   effect argv afterwards is the program name followed by the non-option words in their order and
   a NULL, otherwise argv is untouched. *)
Theorem parse_round_trip tbl pre rm allow ret prog sps sto bad n :
  wf_table n tbl -> names_ok tbl = true -> wf_store n sto -> nz_word prog = true -> sps_ok tbl sps = true ->
  let strs := prog :: render sps in
  let e := mkenv tbl strs (length strs) pre rm allow ret in
  exists s', parse e (init_st (length strs) sto bad) = Ok (Done (pre && (length strs <=? 1)) s') /\
             st_sto s' = fst (ideal pre tbl sps sto) /\
             st_bad s' = bad /\ st_helps s' = 0 /\ st_nbad s' = 0 /\
             (if negb pre && rm
              then argv_words strs (st_argv s') = prog :: snd (ideal pre tbl sps sto)
              else st_argv s' = init_argv (length strs)).
Proof.
  intros Hwt Hnames Hwf Hprog Hok strs e.
  assert (Hargc : e_argc e = length (e_strs e)) by reflexivity.
  assert (Hnz : forall i s, nth_error (e_strs e) i = Some s -> nz_word s = true).
  { intros i s Hs. apply nth_error_In in Hs. destruct Hs as [<-|Hs]; auto. eapply sps_ok_nz; eauto. }
  unfold parse, parse_with. change (e_argc e) with (length strs). change (e_strs e) with strs. change (e_pre e) with pre.
  destruct (length strs <=? 1) eqn:Ea.
  { (* no arguments: REQUIRE(argc > 1) *)
    apply Nat.leb_le in Ea. assert (Hs : sps = []).
    { apply render_nil. destruct (render sps) eqn:E; auto. subst strs. simpl in Ea. lia. }
    subst sps. eexists; split; [rewrite andb_true_r; reflexivity|]. cbn.
    repeat split; auto. destruct (negb pre && rm); reflexivity. }
  apply Nat.leb_gt in Ea. rewrite andb_false_r.
  unfold argv_get. cbn [init_st st_argv]. rewrite (init_argv_lt _ 1 Ea).
  cbn [bind arg_ptr option_map set_i st_i st_argv st_sto st_bad st_helps st_nbad].
  pose proof (costs_le sps) as Hc.
  assert (Hfuel : parse_fuel strs = costs sps + S (total strs - costs sps)).
  { rewrite parse_fuel_total. subst strs. simpl. lia. }
  rewrite Hfuel.
  destruct (run_sps e n Hargc Hnz Hnames Hwt sps 1 (init_argv (length strs)) sto [] bad 0 0 (total strs - costs sps))
    as (iend & Hloop); auto.
  { apply (ahead_init e Hargc). }
  assert (Hcur : cur_at e 1 = Some (1, 0)).
  { unfold cur_at. change (e_argc e) with (length strs). apply Nat.ltb_lt in Ea. now rewrite Ea. }
  rewrite Hcur in Hloop.
  change (set_i (init_st (length strs) sto bad) 1) with (mkst 1 (init_argv (length strs)) sto bad 0 0).
  rewrite Hloop. cbn [bind].
  unfold epilogue. change (e_pre e) with pre. change (e_rm e) with rm.
  set (A := argv_after e (init_argv (length strs)) 1 sps).
  assert (Hst : fst (fold_left (ideal_one pre (e_tbl e)) sps (sto, [])) = fst (ideal pre tbl sps sto)) by reflexivity.
  destruct pre eqn:Epre.
  { eexists; split; [reflexivity|]. cbn. repeat split; auto. apply argv_after_id. reflexivity. }
  destruct rm eqn:Erm.
  2:{ eexists; split; [reflexivity|]. cbn. repeat split; auto. apply argv_after_id. reflexivity. }
  (* argument removal: the compaction *)
  assert (Hrm : rm_active e = true) by reflexivity.
  assert (HlA : length A = S (length strs)) by (unfold A; rewrite argv_after_length; apply init_argv_length).
  cbn [st_argv negb andb].
  destruct (compact_spec (length strs - 1) A 1 1) as (a' & Hcm & Hl' & Hf & Hrest & Hsame); try lia.
  change (e_argc e) with (length strs).
  assert (Hkept : somes (firstn (length strs - 1) (skipn 1 A)) = kept_ids 1 sps).
  { apply (argv_after_kept e Hargc Hrm sps (init_argv (length strs)) 1); auto.
    - apply (ahead_init e Hargc).
    - change (e_argc e) with (length strs). lia. }
  rewrite Hkept in *. rewrite Hcm. cbn [bind].
  assert (HA0 : nth_error A 0 = Some (Some 0)).
  { unfold A. rewrite argv_after_before by lia. apply init_argv_lt. lia. }
  assert (Hf1 : firstn 1 A = [Some 0]).
  { destruct A as [|x t]; [discriminate|]. simpl in HA0. inversion HA0. reflexivity. }
  rewrite Hf1 in Hf.
  assert (Hwords : map (fun k => nth k strs []) (kept_ids 1 sps) = snd (ideal pre tbl sps sto)).
  { unfold ideal. rewrite ideal_words. cbn [app]. apply (kept_ids_words tbl); auto. }
  assert (Hfin : exists fin, (if 1 <? 1 + length (kept_ids 1 sps) then argv_set a' (1 + length (kept_ids 1 sps)) None else Ok a') = Ok fin /\
                             argv_words strs fin = prog :: snd (ideal pre tbl sps sto)).
  { assert (Hjle : 1 + length (kept_ids 1 sps) <= length strs).
    { rewrite <- Hkept. pose proof (somes_length_le (firstn (length strs - 1) (skipn 1 A))) as H.
      rewrite firstn_length in H. lia. }
    destruct (kept_ids 1 sps) as [|k0 ks] eqn:Ek.
    - (* no word left: argv[1] is NULL already *)
      cbn [length Nat.add Nat.ltb Nat.leb]. exists a'. split; [reflexivity|].
      rewrite (Hsame eq_refl).
      assert (HA1 : nth_error A 1 = Some None).
      { destruct (nth_error A 1) as [x|] eqn:E1.
        - replace (length strs - 1) with (S (length strs - 2)) in Hkept by lia.
          rewrite (window_cons _ _ _ _ E1) in Hkept. now rewrite (somes_head_none _ _ Hkept).
        - apply nth_error_None in E1. lia. }
      rewrite (split_at A 1 None HA1), Hf1. rewrite <- Hwords. reflexivity.
    - unfold argv_set.
      assert (Hlt : 1 <? 1 + length (k0 :: ks) = true) by (apply Nat.ltb_lt; simpl; lia). rewrite Hlt.
      assert (Hjl : 1 + length (k0 :: ks) <? length a' = true) by (apply Nat.ltb_lt; lia). rewrite Hjl.
      eexists; split; [reflexivity|].
      set (j := 1 + length (k0 :: ks)) in *.
      assert (Hnj : nth_error (upd a' j None) j = Some None) by (apply nth_error_upd_eq; lia).
      rewrite (split_at _ j None Hnj), firstn_upd_ge by lia. rewrite Hf.
      change ([Some 0] ++ map Some (k0 :: ks)) with (map Some (0 :: k0 :: ks)).
      rewrite argv_words_prefix. cbn [map]. rewrite <- Hwords. reflexivity. }
  destruct Hfin as (fin & -> & Hw). cbn [bind].
  eexists; split; [reflexivity|]. cbn [st_sto st_bad st_helps st_nbad st_argv set_argv]. repeat split; auto.
  rewrite Epre in Hw. exact Hw.
Qed.

(* the usual client sequence: a pre-parse pass followed by the normal pass assigns the options of
   both passes, and argv is compacted once, by the second pass *)
Theorem parse_twice_round_trip tbl rm allow ret prog sps sto bad n :
  wf_table n tbl -> names_ok tbl = true -> wf_store n sto -> nz_word prog = true -> sps_ok tbl sps = true ->
  sps <> [] ->
  let strs := prog :: render sps in
  let e := mkenv tbl strs (length strs) true rm allow ret in
  let sto1 := fst (ideal true tbl sps sto) in
  exists s', parse_twice e (init_st (length strs) sto bad) = Ok (Done false s') /\
             st_sto s' = fst (ideal false tbl sps sto1) /\
             st_bad s' = bad /\ st_helps s' = 0 /\ st_nbad s' = 0 /\
             (if rm then argv_words strs (st_argv s') = prog :: snd (ideal false tbl sps sto1)
              else st_argv s' = init_argv (length strs)).
Proof.
  intros Hwt Hnames Hwf Hprog Hok Hne strs e sto1.
  assert (Hlen : (length strs <=? 1) = false).
  { apply Nat.leb_gt. subst strs. destruct (render sps) eqn:E; [apply render_nil in E; congruence|simpl; lia]. }
  destruct (parse_round_trip tbl true rm allow ret prog sps sto bad n Hwt Hnames Hwf Hprog Hok)
    as (s1 & Hp1 & Hs1 & Hb1 & Hh1 & Hn1 & Ha1).
  fold strs in Hp1, Ha1. rewrite Hlen in Hp1. cbn [negb andb] in Ha1, Hp1.
  unfold parse_twice. change (with_pre e true) with e.
  unfold e. rewrite Hp1. cbn [bind].
  assert (Hwf1 : wf_store n sto1).
  { unfold sto1, ideal. clear - Hwf. generalize (@nil word). revert sto Hwf.
    induction sps as [|sp r IH]; intros sto Hwf ws; [exact Hwf|]. cbn [fold_left].
    destruct sp; cbn [ideal_one]; try (apply IH; now apply assign_ref_wf); [|apply IH; exact Hwf].
    apply IH. revert sto Hwf. induction xs as [|x xs IHx]; intros sto Hwf; cbn [fold_left]; auto.
    apply IHx. now apply assign_ref_wf. }
  destruct (parse_round_trip tbl false rm allow ret prog sps sto1 bad n Hwt Hnames Hwf1 Hprog Hok)
    as (s2 & Hp2 & Hs2 & Hb2 & Hh2 & Hn2 & Ha2).
  fold strs in Hp2, Ha2. rewrite Hlen in Hp2. cbn [negb andb] in Ha2, Hp2.
  exists s2. split; [|auto].
  (* the second call starts from the first call's final state, which is the initial state again
     except for the targets *)
  unfold with_pre. cbn [e_tbl e_strs e_argc e_rm e_allow e_ret].
  rewrite <- Hp2. unfold parse, parse_with. cbn [e_argc e_strs]. rewrite Hlen.
  rewrite Ha1. cbn [init_st st_argv].
  replace (set_i s1 1) with (set_i (init_st (length strs) sto1 bad) 1); [reflexivity|].
  destruct s1; cbn in *. subst. reflexivity.
Qed.
