(* C08, part 2: the round trip.  A command line rendered from a list of spellings is parsed to
   exactly the ideal reading of that list.

   Structure: (A) lookups of the model against the lookups of the specification, (B) computation
   rules for the pieces of the loop body under the facts a well-formed spelling provides, (C) one
   equation per kind of spelling: "step from the start of the spelling = the rest of the loop at
   the start of the next one, with the ideal effect applied", (D) induction over the spelling
   list, the epilogue (argv compaction) and the theorem. *)
From LV Require Import Base.Buf Gen.OptGen Opt.OptModel Opt.OptSafe.
Local Open Scope nat_scope.
Arguments slot_upd : simpl never.
Arguments skipn : simpl never.
Arguments has : simpl never.
Arguments to_int : simpl never.
Arguments strtol0 : simpl never.
Arguments istrue : simpl never.
Arguments isfalse : simpl never.
Arguments is_boolean_value : simpl never.
Arguments find_long : simpl never.
Arguments find_short : simpl never.
Arguments long_matches : simpl never.
Arguments num_words : simpl never.
Arguments get_word : simpl never.

(* ---------------------------------------------------------------------------------- *)
(* A. strings and lookups                                                              *)
(* ---------------------------------------------------------------------------------- *)
Lemma nz_word_forall w : nz_word w = true <-> Forall (fun c => c <> 0%Z) w.
Proof.
  unfold nz_word. rewrite forallb_forall, Forall_forall. split; intros H c Hc.
  - specialize (H c Hc). apply negb_true_iff in H. now apply Z.eqb_neq.
  - apply negb_true_iff. apply Z.eqb_neq. auto.
Qed.

Lemma take_nz_id w : nz_word w = true -> take_nz w = w.
Proof.
  induction w as [|c t IH]; simpl; intros H; [reflexivity|].
  apply andb_true_iff in H. destruct H as [H1 H2]. apply negb_true_iff in H1. rewrite H1. now rewrite IH.
Qed.

Lemma nz_word_skipn w k : nz_word w = true -> nz_word (skipn k w) = true.
Proof.
  revert k; induction w as [|c t IH]; intros [|k] H; auto.
  simpl in H. apply andb_true_iff in H. destruct H. rewrite skipn_cons. auto.
Qed.

Lemma nz_word_app a b : nz_word (a ++ b) = nz_word a && nz_word b.
Proof. unfold nz_word. apply forallb_app. Qed.

Lemma bytes_eqb_eq a b : bytes_eqb a b = true <-> a = b.
Proof.
  revert b; induction a as [|x a IH]; intros [|y b]; simpl; split; intros H; try discriminate; auto.
  - apply andb_true_iff in H. destruct H as [H1 H2]. apply Z.eqb_eq in H1. apply IH in H2. congruence.
  - inversion H; subst. rewrite Z.eqb_refl. simpl. now apply IH.
Qed.

Lemma tolower_eq61 c : tolower c = 61%Z -> c = 61%Z.
Proof.
  unfold tolower, isupper. destruct ((65 <=? c)%Z && (c <=? 90)%Z) eqn:E; [|auto].
  apply andb_true_iff in E. destruct E as [E1 E2]. apply Z.leb_le in E1. apply Z.leb_le in E2. lia.
Qed.

Lemma no_eq_forall w : no_eq w = true <-> ~ In 61%Z w.
Proof.
  unfold no_eq. rewrite forallb_forall. split.
  - intros H Hin. specialize (H _ Hin). now rewrite Z.eqb_refl in H.
  - intros H c Hc. apply negb_true_iff. apply Z.eqb_neq. intros ->. auto.
Qed.

Lemma lower_no61 w : no_eq w = true -> ~ In 61%Z (lower w).
Proof.
  intros H Hin. apply no_eq_forall in H. apply H. unfold lower in Hin. apply in_map_iff in Hin.
  destruct Hin as (c & Hc & Hin). apply tolower_eq61 in Hc. now subst.
Qed.

Lemma lower_length w : length (lower w) = length w.
Proof. apply map_length. Qed.
Lemma lower_app a b : lower (a ++ b) = lower a ++ lower b.
Proof. apply map_app. Qed.

(* a long name in the table matches "name" or "name=value" exactly when it equals name, case ignored *)
Lemma long_matches_spec lo l suffix :
  no_eq lo = true -> no_eq l = true -> (suffix = [] \/ exists v, suffix = 61%Z :: v) ->
  long_matches lo (l ++ suffix) = streq_ci lo l.
Proof.
  intros Hlo Hl Hsuf. unfold long_matches, streq_ci.
  destruct (bytes_eqb (lower lo) (lower l)) eqn:E.
  - apply bytes_eqb_eq in E. assert (Hlen : length lo = length l) by (rewrite <- !lower_length; congruence).
    rewrite Hlen, firstn_app, Nat.sub_diag, firstn_all, firstn_O, app_nil_r.
    replace (length l <=? length (l ++ suffix)) with true by (symmetry; apply Nat.leb_le; rewrite app_length; lia).
    rewrite (proj2 (bytes_eqb_eq _ _) E). simpl.
    rewrite nth_error_app2, Nat.sub_diag by lia.
    destruct Hsuf as [->|(v & ->)]; reflexivity.
  - destruct (length lo <=? length (l ++ suffix)) eqn:Ele; simpl; [|reflexivity].
    destruct (bytes_eqb (lower lo) (lower (firstn (length lo) (l ++ suffix)))) eqn:E2; simpl; [|reflexivity].
    apply bytes_eqb_eq in E2. apply Nat.leb_le in Ele.
    destruct (Nat.lt_trichotomy (length lo) (length l)) as [Hlt|[Heq|Hgt]].
    + rewrite nth_error_app1 by assumption.
      destruct (nth_error l (length lo)) as [c|] eqn:En.
      * apply nth_error_In in En. apply no_eq_forall in Hl.
        destruct (Z.eqb c 61) eqn:Ec; [|reflexivity]. apply Z.eqb_eq in Ec. subst. contradiction.
      * apply nth_error_None in En. lia.
    + rewrite Heq, firstn_app, Nat.sub_diag, firstn_all, firstn_O, app_nil_r in E2.
      rewrite E2 in E. assert (bytes_eqb (lower l) (lower l) = true) by now apply bytes_eqb_eq. congruence.
    + exfalso. destruct Hsuf as [->|(v & ->)].
      * rewrite app_nil_r in Ele. lia.
      * apply (lower_no61 lo Hlo). rewrite E2. rewrite firstn_app, firstn_all2 by lia.
        rewrite lower_app. apply in_or_app. right.
        replace (length lo - length l) with (S (length lo - length l - 1)) by lia.
        simpl. now left.
Qed.

Lemma find_idx_find {A} (f : A -> bool) l k o :
  find f l = Some o -> exists j, find_idx f l k = Some (k + j) /\ nth_error l j = Some o.
Proof.
  revert k; induction l as [|x t IH]; intros k H; simpl in *; [discriminate|].
  destruct (f x).
  - inversion H; subst. exists 0. rewrite Nat.add_0_r. auto.
  - destruct (IH (S k) H) as (j & Hj & Hn). exists (S j). rewrite <- Nat.add_succ_comm. auto.
Qed.

Lemma find_ext_in {A} (f g : A -> bool) l : (forall x, In x l -> f x = g x) -> find f l = find g l.
Proof.
  induction l as [|x t IH]; intros H; simpl; [reflexivity|].
  rewrite (H x (or_introl eq_refl)). destruct (g x); auto. apply IH. intros; apply H; now right.
Qed.

Lemma find_short_spec tbl x o :
  find_opt tbl (ByShort x) = Some o -> exists j, find_short tbl x = Some j /\ nth_error tbl j = Some o.
Proof. intros H. destruct (find_idx_find _ _ 0 _ H) as (j & Hj & Hn). exists j. auto. Qed.

Lemma names_ok_in tbl o : names_ok tbl = true -> In o tbl -> no_eq (o_long o) = true.
Proof.
  unfold names_ok. rewrite forallb_forall. intros H Hin. specialize (H o Hin).
  unfold name_ok in H. now apply andb_true_iff in H.
Qed.

Lemma find_long_spec tbl l suffix o :
  names_ok tbl = true -> name_ok l = true -> (suffix = [] \/ exists v, suffix = 61%Z :: v) ->
  find_opt tbl (ByLong l) = Some o ->
  exists j, find_long tbl (l ++ suffix) = Some j /\ nth_error tbl j = Some o.
Proof.
  intros Hn Hl Hs H. unfold name_ok in Hl. apply andb_true_iff in Hl. destruct Hl as [_ Hl].
  simpl in H.
  rewrite (find_ext_in _ (fun o => long_matches (o_long o) (l ++ suffix))) in H.
  - destruct (find_idx_find _ _ 0 _ H) as (j & Hj & Hnth). exists j. auto.
  - intros o' Hin. symmetry. apply long_matches_spec; auto. eapply names_ok_in; eauto.
Qed.

Lemma index_eq_app l v : no_eq l = true -> index_eq (l ++ 61%Z :: v) = Some (length l).
Proof.
  induction l as [|c t IH]; simpl; intros H; [reflexivity|].
  apply andb_true_iff in H. destruct H as [H1 H2]. apply negb_true_iff in H1. rewrite H1.
  now rewrite IH.
Qed.
Lemma index_eq_none l : no_eq l = true -> index_eq l = None.
Proof.
  induction l as [|c t IH]; simpl; intros H; [reflexivity|].
  apply andb_true_iff in H. destruct H as [H1 H2]. apply negb_true_iff in H1. rewrite H1.
  now rewrite IH.
Qed.

(* flag tests that follow from the kinds the side conditions allow *)
Lemma needs_value_false_kinds o :
  needs_value o = false -> is_string o = false /\ is_integer o = false /\ is_arglist o = false.
Proof.
  intros H. repeat split.
  - destruct (is_string o) eqn:E; auto. now rewrite (string_needs_value _ E) in H.
  - destruct (is_integer o) eqn:E; auto. now rewrite (integer_needs_value _ E) in H.
  - destruct (is_arglist o) eqn:E; auto. now rewrite (arglist_needs_value _ E) in H.
Qed.
