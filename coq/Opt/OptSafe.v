(* C08, part 1: termination and memory safety of the option parser model for every argument
   vector and every well-formed table (parse_total_safe), the accounting of bad options, and the
   frame of the targets (bool_mask_only for a whole parse).

   Method: a state invariant [SInv] (shape of argv, position of i, pool sizes, relation of the
   targets and of the bad-option counter to their initial values), a cursor invariant [CInv]
   (the cursor is in argument i, at its start or strictly inside it), and the measure
   [mu] = (sum over the arguments from i on of length + 2) - cursor offset, which every way round
   the loop decreases.  [good rec M] says that the rest of the loop behaves for every state whose
   measure is below M; each function of the model is shown to preserve "no Fault and the
   postcondition" under that assumption, and the induction on the fuel closes the knot. *)
From LV Require Import Base.Buf Gen.OptGen Opt.OptModel.
Local Open Scope nat_scope.
Arguments slot_upd : simpl never.

(* ---------------------------------------------------------------------------------- *)
(* small facts                                                                         *)
(* ---------------------------------------------------------------------------------- *)
Fixpoint total (l : list (list byte)) : nat :=
  match l with [] => O | s :: t => length s + 2 + total t end.

Lemma parse_fuel_total strs : parse_fuel strs = S (total strs).
Proof. reflexivity. Qed.

Lemma total_skipn strs i s :
  nth_error strs i = Some s -> total (skipn i strs) = length s + 2 + total (skipn (S i) strs).
Proof.
  revert i; induction strs as [|x t IH]; intros [|i] H; simpl in *; try discriminate.
  - now inversion H.
  - now apply IH.
Qed.

Lemma total_skipn_le strs i : total (skipn i strs) <= total strs.
Proof.
  revert i; induction strs as [|x t IH]; intros [|i]; simpl; try lia.
  specialize (IH i). lia.
Qed.

Lemma total_skipn_S strs i : total (skipn (S i) strs) <= total (skipn i strs).
Proof.
  destruct (nth_error strs i) as [s|] eqn:E.
  - rewrite (total_skipn _ _ _ E). lia.
  - apply nth_error_None in E. rewrite !skipn_all2 by lia. simpl. lia.
Qed.

Lemma take_nz_length l : length (take_nz l) <= length l.
Proof. induction l as [|c t IH]; simpl; [lia|]. destruct (Z.eqb c 0); simpl; lia. Qed.

Lemma index_eq_lt s k : index_eq s = Some k -> k < length s.
Proof.
  revert k; induction s as [|c t IH]; intros k H; simpl in *; [discriminate|].
  destruct (Z.eqb c 61).
  - inversion H; lia.
  - destruct (index_eq t) as [k'|]; simpl in H; [|discriminate]. inversion H. specialize (IH k' eq_refl). lia.
Qed.

Lemma bad_modulus : bad_opts_modulus = 256%Z.
Proof. reflexivity. Qed.

(* the value-taking type bits lie inside SPIFOPT_FLAG_TYPEMASK_VALUE *)
Lemma has_sub o f g : Z.land g f = f -> has o f = true -> has o g = true.
Proof.
  unfold has. intros Hfg H. apply negb_true_iff in H. apply negb_true_iff.
  apply Z.eqb_neq in H. apply Z.eqb_neq. intros H0. apply H.
  rewrite <- Hfg. rewrite Z.land_assoc, H0. reflexivity.
Qed.
Lemma string_needs_value o : is_string o = true -> needs_value o = true.
Proof. apply has_sub. reflexivity. Qed.
Lemma integer_needs_value o : is_integer o = true -> needs_value o = true.
Proof. apply has_sub. reflexivity. Qed.
Lemma arglist_needs_value o : is_arglist o = true -> needs_value o = true.
Proof. apply has_sub. reflexivity. Qed.

Lemma find_idx_some {A} (f : A -> bool) l k j :
  find_idx f l k = Some j -> exists x, nth_error l (j - k) = Some x /\ f x = true /\ k <= j.
Proof.
  revert k; induction l as [|x t IH]; intros k H; simpl in *; [discriminate|].
  destruct (f x) eqn:E.
  - inversion H; subst. exists x. rewrite Nat.sub_diag. simpl. auto.
  - destruct (IH _ H) as (y & Hy & Hf & Hle). exists y.
    replace (j - k) with (S (j - S k)) by lia. simpl. repeat split; auto. lia.
Qed.

Lemma find_short_in tbl c j : find_short tbl c = Some j -> exists o, nth_error tbl j = Some o.
Proof.
  unfold find_short. intros H. destruct (find_idx_some _ _ _ _ H) as (o & Ho & _ & _).
  rewrite Nat.sub_0_r in Ho. eauto.
Qed.
Lemma find_long_in tbl n j : find_long tbl n = Some j -> exists o, nth_error tbl j = Some o.
Proof.
  unfold find_long. intros H. destruct (find_idx_some _ _ _ _ H) as (o & Ho & _ & _).
  rewrite Nat.sub_0_r in Ho. eauto.
Qed.

Lemma is_boolean_value_cases v : is_boolean_value v = true -> istrue v = true \/ isfalse v = true.
Proof. destruct v; simpl; [discriminate|]. intros H. now apply orb_true_iff in H. Qed.

(* the state an outcome carries *)
Definition ost (o : outcome) : st := match o with Done _ s => s | Helped _ s => s end.

(* frame of the targets between two stores (bool_mask_only and "no other target") *)
Definition k_string o := negb (is_boolean o) && is_string o.
Definition k_integer o := negb (is_boolean o) && negb (is_string o) && is_integer o.
Definition k_arglist o := negb (is_boolean o) && negb (is_string o) && negb (is_integer o) && is_arglist o.

Record StoreRel (tbl : list opt) (a b : store) : Prop := {
  sr_lb : length (sb b) = length (sb a);
  sr_li : length (si b) = length (si a);
  sr_ls : length (ss b) = length (ss a);
  sr_ll : length (sl b) = length (sl a);
  (* a bit of a boolean target outside the masks of the boolean options aimed at it is unchanged *)
  sr_bits : forall k n,
      (forall o, In o tbl -> is_boolean o = true -> o_slot o = Some k ->
                 Z.testbit (o_mask o mod mask_modulus) n = false) ->
      Z.testbit (nth k (sb b) 0%Z) n = Z.testbit (nth k (sb a) 0%Z) n;
  sr_int : forall k, (forall o, In o tbl -> k_integer o = true -> o_slot o <> Some k) ->
                     nth_error (si b) k = nth_error (si a) k;
  sr_str : forall k, (forall o, In o tbl -> k_string o = true -> o_slot o <> Some k) ->
                     nth_error (ss b) k = nth_error (ss a) k;
  sr_lst : forall k, (forall o, In o tbl -> k_arglist o = true -> o_slot o <> Some k) ->
                     nth_error (sl b) k = nth_error (sl a) k;
  sr_abs : exists l, sa b = sa a ++ l }.

Lemma StoreRel_refl tbl a : StoreRel tbl a a.
Proof. constructor; auto. exists []. now rewrite app_nil_r. Qed.

Lemma StoreRel_trans tbl a b c : StoreRel tbl a b -> StoreRel tbl b c -> StoreRel tbl a c.
Proof.
  intros [] []. constructor; try congruence.
  - intros k n H. rewrite sr_bits1, sr_bits0; auto.
  - intros k H. rewrite sr_int1, sr_int0; auto.
  - intros k H. rewrite sr_str1, sr_str0; auto.
  - intros k H. rewrite sr_lst1, sr_lst0; auto.
  - destruct sr_abs0 as [l1 H1], sr_abs1 as [l2 H2]. exists (l1 ++ l2). rewrite H2, H1. now rewrite app_assoc.
Qed.

Lemma nth_upd_eq {A} (l : list A) k v d : k < length l -> nth k (upd l k v) d = v.
Proof. revert k; induction l as [|x t IH]; intros [|k] H; simpl in *; try lia; auto. apply IH; lia. Qed.
Lemma nth_upd_neq {A} (l : list A) k m v d : k <> m -> nth m (upd l k v) d = nth m l d.
Proof. revert k m; induction l as [|x t IH]; intros [|k] [|m] H; simpl; auto; try congruence. Qed.

Lemma slot_upd_ok {A} (l : list A) k f : k < length l -> exists v, nth_error l k = Some v /\ slot_upd l (Some k) f = Ok (upd l k (f v)).
Proof.
  intros H. unfold slot_upd. destruct (nth_error l k) as [v|] eqn:E.
  - eauto.
  - apply nth_error_None in E. lia.
Qed.

Arguments skipn : simpl never.

Ltac slot_step k :=
  match goal with
  | |- context [slot_upd ?l (Some k) ?f] =>
    let v := fresh "v" in let Hu := fresh "Hu" in
    destruct (slot_upd_ok l k f ltac:(lia)) as (v & _ & Hu); rewrite Hu; clear Hu
  end.

Section Safety.
  Variable e : env.
  Variable npool : nat.            (* size of each target pool *)
  Variable b0 : Z.                 (* bad_opts on entry *)
  Variable n0 : nat.               (* ghost count on entry *)
  Variable sto0 : store.           (* targets on entry *)

  Hypothesis Hlen : length (e_strs e) = e_argc e.
  Hypothesis Hslot : forall o k, In o (e_tbl e) -> o_slot o = Some k -> k < npool.
  Hypothesis Hbool : forall o, In o (e_tbl e) -> is_boolean o = true -> o_slot o <> None.
  Hypothesis Hb0 : (0 <= b0 < bad_opts_modulus)%Z.

  Let strs := e_strs e.
  Let argc := e_argc e.

  Definition wf_store (s : store) : Prop :=
    length (sb s) = npool /\ length (si s) = npool /\ length (ss s) = npool /\ length (sl s) = npool.

  (* no wrap-around of the 8 bit counter: the handler leaves for good above a limit below 255 *)
  Definition NW : Prop := e_ret e = false /\ (b0 <= e_allow e)%Z /\ (e_allow e < bad_opts_modulus - 1)%Z.

  Record BadRel (cont : bool) (s : st) : Prop := {
    br_n : n0 <= st_nbad s;
    br_mod : st_bad s = ((b0 + Z.of_nat (st_nbad s - n0)) mod bad_opts_modulus)%Z;
    br_nw : NW -> st_bad s = (b0 + Z.of_nat (st_nbad s - n0))%Z /\ (cont = true -> (st_bad s <= e_allow e)%Z) }.

  (* what every outcome satisfies *)
  Record PInv (s : st) : Prop := {
    p_len : length (st_argv s) = S argc;
    p_wf : wf_store (st_sto s);
    p_rel : StoreRel (e_tbl e) sto0 (st_sto s);
    p_bad : BadRel false s }.
  Definition Post (o : outcome) : Prop := PInv (ost o).
  Definition OkPost (r : res outcome) : Prop := exists o, r = Ok o /\ Post o.

  (* the state at the head of a round *)
  Record SInv (s : st) : Prop := {
    s_len : length (st_argv s) = S argc;
    s_last : nth_error (st_argv s) argc = Some None;
    s_own : forall k, k < argc -> nth_error (st_argv s) k = Some None \/ nth_error (st_argv s) k = Some (Some k);
    s_ahead : forall k, st_i s < k < argc -> nth_error (st_argv s) k = Some (Some k);
    s_i : 1 <= st_i s <= argc;
    s_wf : wf_store (st_sto s);
    s_rel : StoreRel (e_tbl e) sto0 (st_sto s);
    s_bad : BadRel true s }.

  Definition CInv (s : st) (cur : option ptr) : Prop :=
    match cur with
    | None => True
    | Some (sid, off) =>
      sid = st_i s /\ st_i s < argc /\
      exists str, nth_error strs sid = Some str /\
                  ((off = 0 /\ nth_error (st_argv s) (st_i s) = Some (Some (st_i s))) \/ (1 <= off < length str))
    end.

  Definition mu (s : st) (cur : option ptr) : nat :=
    match cur with None => 0 | Some p => total (skipn (st_i s) strs) - snd p end.

  Definition good (rec : st -> option ptr -> res outcome) (M : nat) : Prop :=
    forall s cur, SInv s -> CInv s cur -> mu s cur < M -> OkPost (rec s cur).

  Lemma BadRel_weaken s : BadRel true s -> BadRel false s.
  Proof. intros []. constructor; auto. intros H. destruct (br_nw0 H). split; auto; discriminate. Qed.

  Lemma BadRel_ext c s s' : st_bad s' = st_bad s -> st_nbad s' = st_nbad s -> BadRel c s -> BadRel c s'.
  Proof. intros Hb Hn []. constructor; rewrite ?Hb, ?Hn; auto. Qed.

  Lemma SInv_PInv s : SInv s -> PInv s.
  Proof. intros []. constructor; auto using BadRel_weaken. Qed.

  Lemma str_at i : i < argc -> exists str, nth_error strs i = Some str.
  Proof.
    intros H. destruct (nth_error strs i) eqn:E; eauto.
    apply nth_error_None in E. unfold strs, argc in *. lia.
  Qed.

  Lemma getc_ok i str off :
    nth_error strs i = Some str -> off <= length str ->
    exists c, getc e (i, off) = Ok c /\ (c <> 0%Z -> off < length str).
  Proof.
    intros H Ho. unfold getc, str_of. simpl. fold strs. rewrite H. simpl.
    destruct (off <? length str) eqn:E1.
    - apply Nat.ltb_lt in E1. eauto.
    - apply Nat.ltb_ge in E1. assert (off = length str) by lia. subst. rewrite Nat.eqb_refl.
      exists 0%Z. split; auto. congruence.
  Qed.

  Lemma cstr_at_ok i str off :
    nth_error strs i = Some str -> off <= length str ->
    exists v, cstr_at e (i, off) = Ok v /\ off + length v <= length str.
  Proof.
    intros H Ho. unfold cstr_at, str_of. simpl. fold strs. rewrite H. simpl.
    apply Nat.leb_le in Ho. rewrite Ho. apply Nat.leb_le in Ho.
    eexists; split; [reflexivity|].
    pose proof (take_nz_length (skipn off str)). rewrite skipn_length in H0. lia.
  Qed.

  (* ---- state changes that keep the invariant ---- *)
  Lemma SInv_set_i s : SInv s -> st_i s < argc -> SInv (set_i s (S (st_i s))).
  Proof.
    intros [] Hi. constructor; simpl; auto.
    - intros k Hk. apply s_ahead0. lia.
    - lia.
    - apply (BadRel_ext _ s); auto.
  Qed.

  Lemma SInv_set_sto s sto :
    SInv s -> wf_store sto -> StoreRel (e_tbl e) (st_sto s) sto -> SInv (set_sto s sto).
  Proof.
    intros [] Hw Hr. constructor; simpl; auto.
    - eapply StoreRel_trans; eauto.
    - apply (BadRel_ext _ s); auto.
  Qed.

  Lemma clear_arg_ok s :
    SInv s -> st_i s < argc ->
    exists s', clear_arg e s = Ok s' /\ SInv s' /\ st_i s' = st_i s /\ st_sto s' = st_sto s /\
               (forall k, k <> st_i s -> nth_error (st_argv s') k = nth_error (st_argv s) k).
  Proof.
    intros HS Hi. unfold clear_arg. destruct (rm_active e).
    - unfold argv_set. destruct HS. assert (Hlt : st_i s < length (st_argv s)) by lia.
      apply Nat.ltb_lt in Hlt. rewrite Hlt. apply Nat.ltb_lt in Hlt. simpl.
      eexists; split; [reflexivity|]. split; [|repeat split; simpl; auto].
      + constructor; simpl; auto.
        * now rewrite upd_length.
        * rewrite nth_error_upd_neq; auto. lia.
        * intros k Hk. destruct (Nat.eq_dec (st_i s) k).
          -- subst. left. now apply nth_error_upd_eq.
          -- rewrite nth_error_upd_neq; auto.
        * intros k Hk. rewrite nth_error_upd_neq by lia. auto.
        * apply (BadRel_ext _ s); auto.
      + intros k Hk. simpl. apply nth_error_upd_neq. congruence.
    - exists s. split; [reflexivity|]. split; [assumption|]. repeat split; auto.
  Qed.

  (* ---- CHECK_BAD ---- *)
  Lemma check_bad_ok s k :
    SInv s ->
    (forall s1, SInv s1 -> st_i s1 = st_i s -> st_argv s1 = st_argv s -> st_sto s1 = st_sto s -> OkPost (k s1)) ->
    OkPost (check_bad e s k).
  Proof.
    intros HS Hk. unfold check_bad.
    pose proof bad_modulus as HM.
    assert (Hnb : S (st_nbad s) - n0 = S (st_nbad s - n0)) by (destruct HS as [_ _ _ _ _ _ _ [? _ _]]; lia).
    assert (Hmod : (((st_bad s + 1) mod bad_opts_modulus) =
                    (b0 + Z.of_nat (S (st_nbad s) - n0)) mod bad_opts_modulus)%Z).
    { destruct HS as [_ _ _ _ _ _ _ [? Hm _]]. rewrite Hm, Hnb, Nat2Z.inj_succ.
      rewrite Zplus_mod_idemp_l. f_equal. lia. }
    assert (HNW : NW -> (((st_bad s + 1) mod bad_opts_modulus) = b0 + Z.of_nat (S (st_nbad s) - n0))%Z).
    { intros Hnw. destruct HS as [_ _ _ _ _ _ _ [? _ Hn]]. destruct (Hn Hnw) as [Heq Hle].
      specialize (Hle eq_refl). destruct Hnw as (_ & ? & ?).
      rewrite Z.mod_small by lia. rewrite Hnb, Nat2Z.inj_succ. lia. }
    set (b := ((st_bad s + 1) mod bad_opts_modulus)%Z) in *.
    destruct (Z.gtb b (e_allow e)) eqn:Egt.
    - destruct (e_ret e) eqn:Eret.
      + apply Hk; simpl; auto. destruct HS. constructor; simpl; auto.
        destruct s_bad0. constructor; simpl; auto; try lia.
        intros (Hf & _). congruence.
      + eexists; split; [reflexivity|]. unfold Post; simpl. destruct HS. constructor; simpl; auto.
        destruct s_bad0. constructor; simpl; auto; try lia.
        intros Hnw. split; auto. discriminate.
    - apply Hk; simpl; auto. destruct HS. constructor; simpl; auto.
      destruct s_bad0. constructor; simpl; auto; try lia.
      intros Hnw. split; auto. intros _. rewrite Z.gtb_ltb in Egt. apply Z.ltb_ge in Egt. exact Egt.
  Qed.

  (* ---- NEXT_ARG / NEXT_LETTER / NEXT_LOOP ---- *)
  Lemma next_arg_ok rec M s :
    good rec M -> SInv s -> st_i s < argc -> total (skipn (S (st_i s)) strs) < M ->
    OkPost (next_arg rec s).
  Proof.
    intros Hg HS Hi HM. unfold next_arg.
    pose proof (SInv_set_i _ HS Hi) as HS'.
    set (s' := set_i s (S (st_i s))) in *.
    assert (Hi' : st_i s' = S (st_i s)) by reflexivity.
    unfold argv_get. destruct (nth_error (st_argv s') (st_i s')) as [a|] eqn:Ea.
    - simpl. apply Hg; auto.
      + destruct a as [sid|]; simpl; auto.
        destruct (Nat.eq_dec (S (st_i s)) argc) as [Heq|Hne].
        * destruct HS'. rewrite Hi', Heq, s_last0 in Ea. discriminate.
        * assert (Hlt : st_i s' < argc) by lia.
          destruct HS'. destruct (s_own0 _ Hlt) as [H|H]; rewrite H in Ea; inversion Ea; subst.
          repeat split; auto. destruct (str_at _ Hlt) as [str Hstr]. exists str. split; auto.
      + destruct a; [|simpl; lia]. unfold mu, arg_ptr, option_map. cbn [snd]. rewrite Hi'. lia.
    - apply nth_error_None in Ea. destruct HS'. lia.
  Qed.

  Lemma next_letter_ok rec M s str off :
    good rec M -> SInv s -> st_i s < argc -> nth_error strs (st_i s) = Some str -> off < length str ->
    total (skipn (st_i s) strs) - off <= M ->
    OkPost (next_letter e rec s (st_i s, off)).
  Proof.
    intros Hg HS Hi Hstr Hoff HM. unfold next_letter. simpl.
    destruct (getc_ok _ _ (S off) Hstr ltac:(lia)) as (c & Hc & Hnz). rewrite Hc. simpl.
    pose proof (total_skipn _ _ _ Hstr) as HT.
    destruct (Z.eqb c 0) eqn:E0.
    - eapply next_arg_ok; eauto. lia.
    - apply Z.eqb_neq in E0. specialize (Hnz E0). apply Hg; auto.
      + simpl. repeat split; auto. exists str. split; auto. right. lia.
      + simpl. lia.
  Qed.

  Lemma next_loop_ok rec M s p islong val :
    good rec M -> SInv s -> st_i s < argc ->
    total (skipn (S (st_i s)) strs) < M ->
    (islong || is_some val = false ->
     exists str off, p = (st_i s, off) /\ nth_error strs (st_i s) = Some str /\ off < length str /\
                     total (skipn (st_i s) strs) - off <= M) ->
    OkPost (next_loop e rec s p islong val).
  Proof.
    intros Hg HS Hi HM H. unfold next_loop. destruct (islong || is_some val).
    - eapply next_arg_ok; eauto.
    - destruct (H eq_refl) as (str & off & -> & ? & ? & ?). eapply next_letter_ok; eauto.
  Qed.

  (* ---- the typed handlers ---- *)
  Lemma testbit_or_mask o v n :
    Z.testbit (o_mask o mod mask_modulus) n = false -> Z.testbit (or_mask o v) n = Z.testbit v n.
  Proof. intros H. unfold or_mask. rewrite Z.lor_spec, H. apply orb_false_r. Qed.
  Lemma testbit_clr_mask o v n :
    Z.testbit (o_mask o mod mask_modulus) n = false -> Z.testbit (clr_mask o v) n = Z.testbit v n.
  Proof.
    intros H. unfold clr_mask. destruct (Z.ltb n 0) eqn:E.
    - apply Z.ltb_lt in E. now rewrite !Z.testbit_neg_r.
    - apply Z.ltb_ge in E. rewrite Z.land_spec, Z.lnot_spec, H by assumption. apply andb_true_r.
  Qed.

  Lemma bool_upd_rel sto o k v f :
    In o (e_tbl e) -> is_boolean o = true -> o_slot o = Some k -> nth_error (sb sto) k = Some v ->
    (forall n, Z.testbit (o_mask o mod mask_modulus) n = false -> Z.testbit (f v) n = Z.testbit v n) ->
    StoreRel (e_tbl e) sto (set_sb sto (upd (sb sto) k (f v))).
  Proof.
    intros Hin Hb Hs Hv Hf. constructor; simpl; auto.
    - apply upd_length.
    - intros k' n H. destruct (Nat.eq_dec k k') as [->|Hne].
      + assert (Hlt : k' < length (sb sto)) by (apply nth_error_Some; congruence).
        rewrite nth_upd_eq by assumption. rewrite (nth_error_nth _ _ _ Hv). apply Hf. eapply H; eauto.
      + now rewrite nth_upd_neq.
    - exists []. now rewrite app_nil_r.
  Qed.

  Lemma handle_boolean_ok o sto val islong :
    In o (e_tbl e) -> is_boolean o = true -> wf_store sto ->
    (forall v, val = Some v -> islong = true -> istrue v = true \/ isfalse v = true) ->
    exists sto', handle_boolean e o sto val islong = Ok (sto', true) /\ wf_store sto' /\
                 StoreRel (e_tbl e) sto sto'.
  Proof.
    intros Hin Hb Hw Hv. unfold handle_boolean.
    destruct (o_slot o) as [k|] eqn:Es; [|exfalso; eapply Hbool; eauto].
    pose proof (Hslot _ _ Hin Es) as Hk. destruct Hw as (Hw1 & Hw2 & Hw3 & Hw4).
    assert (Hset : forall f, (forall v n, Z.testbit (o_mask o mod mask_modulus) n = false -> Z.testbit (f v) n = Z.testbit v n) ->
              exists sto', (if should_parse e o then (b <- slot_upd (sb sto) (Some k) f ;; Ok (set_sb sto b)) else Ok sto) = Ok sto'
                           /\ wf_store sto' /\ StoreRel (e_tbl e) sto sto').
    { intros f Hf. destruct (should_parse e o).
      - destruct (slot_upd_ok (sb sto) k f ltac:(lia)) as (v & Hnv & Hu). rewrite Hu. simpl.
        eexists; split; [reflexivity|]. split.
        + unfold wf_store; simpl. rewrite upd_length. auto.
        + eapply bool_upd_rel; eauto.
      - exists sto. split; [reflexivity|]. split; [unfold wf_store; auto|apply StoreRel_refl]. }
    destruct (Hset (or_mask o) (fun v n => testbit_or_mask o v n)) as (s1 & E1 & W1 & R1).
    destruct (Hset (clr_mask o) (fun v n => testbit_clr_mask o v n)) as (s2 & E2 & W2 & R2).
    destruct val as [v|]; [destruct islong|].
    - destruct (Hv v eq_refl eq_refl) as [Ht|Hf].
      + rewrite Ht, E1. simpl. eauto.
      + rewrite Hf. destruct (istrue v); [rewrite E1|rewrite E2]; simpl; eauto.
    - rewrite E1. simpl. eauto.
    - rewrite E1. simpl. destruct islong; eauto.
  Qed.

  Lemma map_res_ok {A B} (f : A -> res B) l :
    (forall x, In x l -> exists y, f x = Ok y) -> exists r, map_res f l = Ok r /\ length r = length l.
  Proof.
    induction l as [|x t IH]; intros H; simpl.
    - exists []. auto.
    - destruct (H x (or_introl eq_refl)) as (y & Hy). rewrite Hy. simpl.
      destruct IH as (r & Hr & Hl). { intros; apply H; now right. }
      rewrite Hr. simpl. exists (y :: r). simpl. auto.
  Qed.

  Lemma clear_from_ok a k n :
    k + n <= length a -> exists a', clear_from a k n = Ok a' /\ length a' = length a.
  Proof.
    revert a k; induction n as [|n IH]; intros a k H; simpl.
    - eauto.
    - unfold argv_set. assert (Hk : k <? length a = true) by (apply Nat.ltb_lt; lia). rewrite Hk. simpl.
      destruct (IH (upd a k None) (S k)) as (a' & Ha & Hl). { rewrite upd_length. lia. }
      rewrite Ha. exists a'. split; auto. now rewrite Hl, upd_length.
  Qed.

  (* a value pointer is inside an argument string *)
  Definition ptr_ok (v : ptr) : Prop := exists str, nth_error strs (fst v) = Some str /\ snd v <= length str.

  Lemma cstr_at_ptr_ok v : ptr_ok v -> exists x, cstr_at e v = Ok x.
  Proof. intros (str & H1 & H2). destruct v as [a b]. destruct (cstr_at_ok _ _ _ H1 H2) as (x & Hx & _). eauto. Qed.

  Lemma list_upd_rel sto o k ws :
    In o (e_tbl e) -> k_arglist o = true -> o_slot o = Some k ->
    StoreRel (e_tbl e) sto (set_sl sto (upd (sl sto) k ws)).
  Proof.
    intros Hin Hk Hs. constructor; simpl; auto.
    - apply upd_length.
    - intros k' H. apply nth_error_upd_neq. intros ->. eapply H; eauto.
    - exists []. now rewrite app_nil_r.
  Qed.

  Lemma handle_arglist_ok o s val hasequal :
    SInv s -> st_i s < argc -> In o (e_tbl e) -> k_arglist o = true -> is_some (o_slot o) = true -> ptr_ok val ->
    exists sto', handle_arglist e o s val hasequal = Ok sto' /\ wf_store sto' /\ StoreRel (e_tbl e) (st_sto s) sto'.
  Proof.
    intros HS Hi Hin Hk Hsl Hv. unfold handle_arglist.
    destruct (o_slot o) as [k|] eqn:Es; [|discriminate].
    pose proof (Hslot _ _ Hin Es) as Hkp.
    destruct (cstr_at_ptr_ok _ Hv) as (x & Hx).
    assert (Hws : exists ws, arglist_words e s val hasequal = Ok ws).
    { unfold arglist_words. destruct hasequal.
      - rewrite Hx. simpl. unfold fill_array. rewrite map_length, seq_length.
        rewrite Nat.leb_refl. eauto.
      - edestruct (map_res_ok (fun k => match k with
                                   | O => v <- cstr_at e val ;; Ok (Some v)
                                   | _ => a <- argv_get (st_argv s) (k + st_i s) ;;
                                          match a with
                                          | None => Fault Null_deref
                                          | Some sid => v <- cstr_at e (sid, O) ;; Ok (Some v)
                                          end
                                   end) (seq 0 (e_argc e - st_i s))) as (r & Hr & Hl).
        { intros j Hj. apply in_seq in Hj. destruct j as [|j].
          - rewrite Hx. simpl. eauto.
          - destruct HS. fold argc in Hj. unfold argv_get. rewrite (s_ahead0 (S j + st_i s)) by lia. simpl.
            destruct (str_at (S j + st_i s) ltac:(lia)) as (str & Hstr).
            destruct (cstr_at_ok _ _ 0 Hstr ltac:(lia)) as (y & Hy & _).
            change (S (j + st_i s)) with (S j + st_i s). rewrite Hy. simpl. eauto. }
        cbv zeta. rewrite Hr. simpl. unfold fill_array. rewrite Hl, seq_length, Nat.leb_refl. eauto. }
    destruct Hws as (ws & ->). simpl.
    destruct HS. destruct s_wf0 as (W1 & W2 & W3 & W4).
    slot_step k. simpl.
    eexists; split; [reflexivity|]. split.
    - unfold wf_store; simpl. rewrite upd_length. auto.
    - eapply list_upd_rel; eauto.
  Qed.

  Lemma str_upd_rel sto o k w :
    In o (e_tbl e) -> k_string o = true -> o_slot o = Some k ->
    StoreRel (e_tbl e) sto (set_ss sto (upd (ss sto) k w)).
  Proof.
    intros Hin Hk Hs. constructor; simpl; auto.
    - apply upd_length.
    - intros k' H. apply nth_error_upd_neq. intros ->. eapply H; eauto.
    - exists []. now rewrite app_nil_r.
  Qed.
  Lemma int_upd_rel sto o k w :
    In o (e_tbl e) -> k_integer o = true -> o_slot o = Some k ->
    StoreRel (e_tbl e) sto (set_si sto (upd (si sto) k w)).
  Proof.
    intros Hin Hk Hs. constructor; simpl; auto.
    - apply upd_length.
    - intros k' H. apply nth_error_upd_neq. intros ->. eapply H; eauto.
    - exists []. now rewrite app_nil_r.
  Qed.
  Lemma abs_log_rel sto x : StoreRel (e_tbl e) sto (set_sa sto (sa sto ++ [x])).
  Proof. constructor; simpl; auto. eauto. Qed.

  (* ---- the loop body from the type dispatch on ---- *)
  Definition letter_ok (M : nat) (s : st) (p : ptr) (islong : bool) (val : option ptr) : Prop :=
    islong || is_some val = false ->
    exists str off, p = (st_i s, off) /\ nth_error strs (st_i s) = Some str /\ off < length str /\
                    total (skipn (st_i s) strs) - off <= M.

  Lemma dispatch_ok rec M s p o islong hasequal val :
    good rec M -> SInv s -> st_i s < argc -> In o (e_tbl e) ->
    total (skipn (S (st_i s)) strs) < M ->
    letter_ok M s p islong val ->
    (forall v, val = Some v -> ptr_ok v) ->
    (is_boolean o = true -> forall v vs, val = Some v -> islong = true -> cstr_at e v = Ok vs ->
                                         istrue vs = true \/ isfalse vs = true) ->
    (is_boolean o = false -> is_string o || is_integer o || is_arglist o = true ->
     is_some val = true /\ is_some (o_slot o) = true) ->
    (is_boolean o = false -> is_string o = false -> is_integer o = false -> is_arglist o = false ->
     is_abstract o = true -> is_some (o_slot o) = true) ->
    OkPost (dispatch e rec s p o islong hasequal val).
  Proof.
    intros Hg HS Hi Hin HM HL Hval Hbv Hneed Habs. unfold dispatch.
    assert (Hvs : exists vs, match val with None => Ok None | Some v => (x <- cstr_at e v ;; Ok (Some x)) end = Ok vs /\
                             (forall v, val = Some v -> exists x, vs = Some x /\ cstr_at e v = Ok x) /\
                             (val = None -> vs = None)).
    { destruct val as [v|].
      - destruct (cstr_at_ptr_ok v (Hval v eq_refl)) as (x & Hx). rewrite Hx. simpl.
        eexists; split; [reflexivity|]. split; [|discriminate]. intros v' Hv'. inversion Hv'; subst. eauto.
      - eexists; split; [reflexivity|]. split; [discriminate|auto]. }
    destruct Hvs as (vs & -> & Hvs1 & Hvs2). simpl.
    (* the common tail: clear_arg, NEXT_LOOP *)
    assert (Hfin : forall s1, SInv s1 -> st_i s1 = st_i s ->
                              OkPost (s' <- clear_arg e s1 ;; next_loop e rec s' p islong val)).
    { intros s1 HS1 Hi1. destruct (clear_arg_ok s1 HS1 ltac:(lia)) as (s2 & -> & HS2 & Hi2 & _). simpl.
      eapply next_loop_ok; eauto; try (rewrite Hi2, Hi1; assumption). }
    destruct (is_boolean o) eqn:Eb.
    { (* boolean *)
      destruct (handle_boolean_ok o (st_sto s) vs islong Hin Eb (s_wf _ HS)) as (sto' & -> & Hw & Hr).
      { intros v -> Hl. destruct val as [pv|]; [|specialize (Hvs2 eq_refl); discriminate].
        destruct (Hvs1 pv eq_refl) as (x & Hx & Hc). inversion Hx; subst. eapply Hbv; eauto. }
      simpl. apply Hfin; auto. apply SInv_set_sto; auto. }
    destruct (is_string o) eqn:Est.
    { destruct (Hneed eq_refl) as (Hv & Hsl). { rewrite ?Est, ?Ein, ?Eal; reflexivity. }
      destruct (should_parse e o); [|apply Hfin; auto].
      destruct val as [pv|]; [|discriminate]. destruct (Hvs1 pv eq_refl) as (x & -> & _).
      destruct (o_slot o) as [k|] eqn:Es; [|discriminate].
      pose proof (Hslot _ _ Hin Es) as Hk. destruct (s_wf _ HS) as (W1 & W2 & W3 & W4).
      slot_step k. simpl.
      apply Hfin; auto. apply SInv_set_sto; auto.
      - unfold wf_store; simpl. rewrite upd_length. auto.
      - eapply str_upd_rel; eauto. unfold k_string. now rewrite Eb, Est. }
    destruct (is_integer o) eqn:Ein.
    { destruct (Hneed eq_refl) as (Hv & Hsl). { rewrite ?Est, ?Ein, ?Eal; reflexivity. }
      destruct (should_parse e o); [|apply Hfin; auto].
      destruct val as [pv|]; [|discriminate]. destruct (Hvs1 pv eq_refl) as (x & -> & _).
      destruct (o_slot o) as [k|] eqn:Es; [|discriminate].
      pose proof (Hslot _ _ Hin Es) as Hk. destruct (s_wf _ HS) as (W1 & W2 & W3 & W4).
      slot_step k. simpl.
      apply Hfin; auto. apply SInv_set_sto; auto.
      - unfold wf_store; simpl. rewrite upd_length. auto.
      - eapply int_upd_rel; eauto. unfold k_integer. now rewrite Eb, Est, Ein. }
    destruct (is_arglist o) eqn:Eal.
    { destruct (Hneed eq_refl) as (Hv & Hsl). { rewrite ?Est, ?Ein, ?Eal; reflexivity. }
      assert (Hs1 : exists s1, (if should_parse e o then
               match val with
               | None => Fault Null_deref
               | Some v => sto <- handle_arglist e o s v hasequal ;; Ok (set_sto s sto)
               end
             else Ok s) = Ok s1 /\ SInv s1 /\ st_i s1 = st_i s).
      { destruct (should_parse e o); [|eauto].
        destruct val as [pv|]; [|discriminate].
        destruct (handle_arglist_ok o s pv hasequal HS Hi Hin) as (sto' & -> & Hw & Hr); auto.
        { unfold k_arglist. now rewrite Eb, Est, Ein, Eal. }
        simpl. eexists; split; [reflexivity|]. split; auto. apply SInv_set_sto; auto. }
      destruct Hs1 as (s1 & -> & HS1 & Hi1). simpl.
      destruct hasequal; [apply Hfin; auto|].
      assert (Ha : exists a, (if rm_active e then clear_from (st_argv s1) (st_i s1) (e_argc e - st_i s1) else Ok (st_argv s1)) = Ok a
                             /\ length a = length (st_argv s1)).
      { destruct (rm_active e); [|eauto]. apply clear_from_ok. rewrite (s_len _ HS1). fold argc. lia. }
      destruct Ha as (a & -> & Hla). simpl. eexists; split; [reflexivity|].
      unfold Post; simpl. destruct (SInv_PInv _ HS1). constructor; simpl; auto. congruence.
      apply (BadRel_ext _ s1); auto. }
    destruct (is_abstract o) eqn:Eab; [|apply Hfin; auto].
    destruct (should_parse e o); [|apply Hfin; auto].
    specialize (Habs eq_refl eq_refl eq_refl eq_refl eq_refl).
    destruct (o_slot o) as [k|]; [|discriminate].
    apply Hfin; auto. apply SInv_set_sto; auto.
    - apply (s_wf _ HS).
    - apply abs_log_rel.
  Qed.

  (* ---- is_valid_option ---- *)
  Lemma is_valid_option_ok v s k :
    SInv s ->
    (forall b s1, SInv s1 -> st_i s1 = st_i s -> st_argv s1 = st_argv s -> st_sto s1 = st_sto s -> OkPost (k b s1)) ->
    OkPost (is_valid_option e v s k).
  Proof.
    intros HS Hk. unfold is_valid_option.
    destruct v as [|c t]; [apply Hk; auto|].
    destruct (Z.eqb c 45); [|apply Hk; auto].
    destruct t as [|c2 t2].
    - destruct (find_short (e_tbl e) 0); [apply Hk; auto|]. apply check_bad_ok; auto.
    - destruct (Z.eqb c2 45).
      + destruct (find_long (e_tbl e) t2); [apply Hk; auto|]. apply check_bad_ok; auto.
      + destruct (find_short (e_tbl e) c2); [apply Hk; auto|]. apply check_bad_ok; auto.
  Qed.

  Lemma ptr_eqb_true p q : ptr_eqb p q = true -> p = q.
  Proof.
    destruct p, q. unfold ptr_eqb. simpl. intros H. apply andb_true_iff in H. destruct H as [H1 H2].
    apply Nat.eqb_eq in H1. apply Nat.eqb_eq in H2. congruence.
  Qed.

  (* the context of one round once the option has been found: i0 is the argument the cursor is in *)
  Section Round.
    Variable rec : st -> option ptr -> res outcome.
    Variable M : nat.
    Variable i0 : nat.
    Variable str0 : list byte.
    Hypothesis Hg : good rec M.
    Hypothesis Hi0 : i0 < argc.
    Hypothesis Hstr0 : nth_error strs i0 = Some str0.

    (* the value pointer: none, inside the current argument, or the whole next argument *)
    Definition val_ok (nxt : option nat) (val : option ptr) : Prop :=
      match val with
      | None => True
      | Some v => (fst v = i0 /\ snd v <= length str0) \/ (val = arg_ptr nxt /\ nxt = Some (S i0))
      end.

    Lemma val_ok_ptr nxt val v : S i0 < argc \/ nxt = None -> val_ok nxt val -> val = Some v -> ptr_ok v.
    Proof.
      intros Hn H ->. simpl in H. destruct H as [[H1 H2]|[H1 H2]].
      - exists str0. rewrite H1. auto.
      - subst nxt. simpl in H1. inversion H1; subst. simpl.
        destruct Hn as [Hn|Hn]; [|discriminate].
        destruct (str_at _ Hn) as (str & Hs). exists str. simpl. split; auto. lia.
    Qed.

    Lemma with_value_ok s off o nxt islong hasequal val :
      SInv s -> st_i s = i0 -> off <= length str0 -> (islong = false -> off < length str0) ->
      total (skipn i0 strs) - off <= M ->
      In o (e_tbl e) -> nth_error (st_argv s) (S i0) = Some nxt -> val_ok nxt val ->
      (is_boolean o = true -> forall v vs, val = Some v -> islong = true -> cstr_at e v = Ok vs ->
                                           istrue vs = true \/ isfalse vs = true) ->
      OkPost (with_value e rec s (i0, off) o nxt islong hasequal val).
    Proof.
      intros HS Hi Hoff Hoffs HM Hin Hnxt Hval Hbv. unfold with_value.
      pose proof (total_skipn _ _ _ Hstr0) as HT.
      assert (Hnx : S i0 < argc \/ nxt = None).
      { destruct (Nat.eq_dec (S i0) argc) as [Heq|Hne]; [right|left; lia].
        destruct HS. rewrite Heq, s_last0 in Hnxt. now inversion Hnxt. }
      (* the state and cursor after the optional "i++; opt += strlen(opt)" *)
      assert (Hsp : exists s1 off1,
                 consume_value e s (i0, off) nxt val = Ok (s1, (i0, off1)) /\
                 SInv s1 /\ st_i s1 < argc /\ total (skipn (S (st_i s1)) strs) < M /\
                 letter_ok M s1 (i0, off1) islong val /\ (forall v, val = Some v -> ptr_ok v)).
      { assert (Hpv : forall v, val = Some v -> ptr_ok v) by (intros; eapply val_ok_ptr; eauto).
        unfold consume_value.
        destruct (is_some val && optptr_eqb val (arg_ptr nxt)) eqn:Ec.
        - apply andb_true_iff in Ec. destruct Ec as [Ev Ep].
          destruct val as [v|]; [|discriminate]. destruct nxt as [n|]; [|discriminate]. simpl in Ep.
          apply ptr_eqb_true in Ep. subst v.
          assert (Hn : n = S i0 /\ S i0 < argc).
          { destruct Hnx as [Hlt|?]; [|discriminate]. destruct HS.
            rewrite (s_ahead0 (S i0)) in Hnxt by lia. inversion Hnxt. auto. }
          destruct Hn as [-> Hlt].
          destruct (cstr_at_ok _ _ off Hstr0 Hoff) as (rest & Hr & Hle). rewrite Hr. simpl.
          exists (set_i s (S (st_i s))), (off + length rest). split; [reflexivity|].
          split; [apply SInv_set_i; auto; lia|]. cbn [st_i set_i]. rewrite Hi.
          split; [lia|]. split.
          + pose proof (total_skipn_S strs (S i0)). lia.
          + split; auto. intros Hc. rewrite orb_true_r in Hc. discriminate.
        - exists s, off. split; [reflexivity|]. split; auto. rewrite Hi. split; [lia|]. split; [lia|].
          split; auto. intros Hc. apply orb_false_iff in Hc. destruct Hc as [-> _].
          exists str0, off. rewrite Hi. repeat split; auto. }
      destruct Hsp as (s1 & off1 & -> & HS1 & Hi1 & HM1 & HL1 & Hpv). simpl.
      destruct (needs_value o) eqn:Env.
      - destruct val as [v|].
        + destruct (is_some (o_slot o)) eqn:Esl.
          * apply dispatch_ok with (M := M); auto.
          * eapply next_loop_ok; eauto.
        + apply check_bad_ok; auto. intros s2 HS2 Hi2 _ _.
          eapply next_loop_ok; eauto; rewrite ?Hi2; auto.
      - destruct (is_abstract o && negb (is_some (o_slot o))) eqn:Eab.
        + eapply next_loop_ok; eauto.
        + apply dispatch_ok with (M := M); auto.
          * intros _ Hc. exfalso.
            destruct (is_string o) eqn:E1; [now rewrite (string_needs_value _ E1) in Env|].
            destruct (is_integer o) eqn:E2; [now rewrite (integer_needs_value _ E2) in Env|].
            destruct (is_arglist o) eqn:E3; [now rewrite (arglist_needs_value _ E3) in Env|].
            discriminate.
          * intros _ _ _ _ Ha. rewrite Ha in Eab. simpl in Eab. now apply negb_false_iff in Eab.
    Qed.

    Lemma after_find_ok s off j islong :
      SInv s -> st_i s = i0 -> off <= length str0 -> (islong = false -> off < length str0) ->
      total (skipn i0 strs) - off <= M ->
      (exists o, nth_error (e_tbl e) j = Some o) ->
      OkPost (after_find e rec s (i0, off) j islong).
    Proof.
      intros HS Hi Hoff Hoffs HM (o & Ho). unfold after_find.
      destruct (clear_arg_ok s HS ltac:(lia)) as (s1 & -> & HS1 & Hi1 & _ & Hsame). simpl.
      rewrite Hi1, Hi.
      assert (Hnx : exists nxt, nth_error (st_argv s1) (S i0) = Some nxt /\ (nxt = None \/ (nxt = Some (S i0) /\ S i0 < argc))).
      { destruct (Nat.eq_dec (S i0) argc) as [Heq|Hne].
        - exists None. rewrite Heq. split; auto. apply (s_last _ HS1).
        - exists (Some (S i0)). split; [|right; split; auto; lia]. apply (s_ahead _ HS1). lia. }
      destruct Hnx as (nxt & Hnxt & Hnc). unfold argv_get. rewrite Hnxt. simpl.
      assert (Hvh : exists val hasequal, find_value e (i0, off) nxt islong
                = Ok (val, hasequal) /\ val_ok nxt val).
      { assert (Hvn : val_ok nxt (arg_ptr nxt)).
        { destruct Hnc as [->|[-> _]]; simpl; auto. }
        unfold find_value. destruct islong.
        - destruct (cstr_at_ok _ _ off Hstr0 Hoff) as (name & Hn & Hle). rewrite Hn. simpl.
          destruct (index_eq name) as [k|] eqn:Ek.
          + apply index_eq_lt in Ek. eexists _, _. split; [reflexivity|]. simpl. left. split; auto. lia.
          + eexists _, _. split; [reflexivity|]. auto.
        - specialize (Hoffs eq_refl). simpl.
          destruct (getc_ok _ _ (S off) Hstr0 ltac:(lia)) as (c & Hc & _). rewrite Hc. simpl.
          destruct (Z.eqb c 0).
          + eexists _, _. split; [reflexivity|]. auto.
          + eexists _, _. split; [reflexivity|]. simpl. left. split; auto. }
      destruct Hvh as (val & hasequal & -> & Hval). simpl.
      unfold tbl_get. rewrite Ho. simpl.
      pose proof (nth_error_In _ _ Ho) as Hin.
      assert (Hnx2 : S i0 < argc \/ nxt = None) by (destruct Hnc as [?|[_ ?]]; auto).
      destruct val as [v|].
      - destruct (cstr_at_ptr_ok v (val_ok_ptr nxt _ v Hnx2 Hval eq_refl)) as (vs & Hvs). rewrite Hvs. simpl.
        destruct (is_boolean o && (negb islong || negb (is_boolean_value vs))) eqn:Ebc.
        + eapply with_value_ok; eauto; try congruence; try exact I; try (intros; discriminate).
        + assert (Hbv : is_boolean o = true -> forall v' vs', Some v = Some v' -> islong = true ->
                          cstr_at e v' = Ok vs' -> istrue vs' = true \/ isfalse vs' = true).
          { intros Hb v' vs' Hv' Hl Hc. inversion Hv'; subst v'.
            rewrite Hb in Ebc. simpl in Ebc. apply orb_false_iff in Ebc. destruct Ebc as [_ Ebv].
            apply negb_false_iff in Ebv. rewrite Hvs in Hc. inversion Hc; subst.
            now apply is_boolean_value_cases. }
          destruct (is_abstract o).
          * apply is_valid_option_ok; auto. intros b s2 HS2 Hi2 Ha2 _.
            destruct b.
            -- eapply with_value_ok; eauto; try congruence; try exact I; try (intros; discriminate).
            -- eapply with_value_ok; eauto; try congruence.
          * destruct (negb (needs_value o) && negb (is_boolean o)).
            -- eapply with_value_ok; eauto; try congruence; try exact I; try (intros; discriminate).
            -- eapply with_value_ok; eauto; try congruence.
      - eapply with_value_ok; eauto; try congruence; try exact I; try (intros; discriminate).
    Qed.

    Lemma lookup_ok s off :
      SInv s -> st_i s = i0 -> off < length str0 -> total (skipn i0 strs) - off <= M ->
      OkPost (lookup e rec s (i0, off)).
    Proof.
      intros HS Hi Hoff HM. unfold lookup.
      destruct (getc_ok _ _ off Hstr0 ltac:(lia)) as (c & Hc & _). rewrite Hc. simpl.
      pose proof (total_skipn _ _ _ Hstr0) as HT.
      destruct (Z.eqb c 45).
      - destruct (cstr_at_ok _ _ (S off) Hstr0 ltac:(lia)) as (name & Hn & _). rewrite Hn. simpl.
        destruct (find_long (e_tbl e) name) as [j|] eqn:Ef.
        + apply after_find_ok; auto; try lia. eapply find_long_in; eauto.
        + apply check_bad_ok; auto. intros s1 HS1 Hi1 _ _. eapply next_arg_ok; eauto; rewrite Hi1, Hi; lia.
      - destruct (find_short (e_tbl e) c) as [j|] eqn:Ef.
        + apply after_find_ok; auto; try lia. eapply find_short_in; eauto.
        + apply check_bad_ok; auto. intros s1 HS1 Hi1 _ _.
          rewrite <- Hi, <- Hi1. eapply next_letter_ok; eauto; rewrite Hi1, Hi; auto; lia.
    Qed.
  End Round.

  (* ---- one round, the loop, the epilogue ---- *)
  Lemma step_ok rec s cur :
    SInv s -> CInv s cur -> good rec (mu s cur) -> OkPost (step e rec s cur).
  Proof.
    intros HS HC Hg. unfold step.
    destruct (st_i s <? e_argc e) eqn:Ei; simpl.
    2:{ eexists; split; [reflexivity|]. apply SInv_PInv; auto. }
    apply Nat.ltb_lt in Ei. fold argc in Ei.
    destruct cur as [[sid off]|].
    2:{ eexists; split; [reflexivity|]. apply SInv_PInv; auto. }
    destruct HC as (-> & _ & str & Hstr & Hpos).
    unfold mu in Hg. simpl in Hg.
    pose proof (total_skipn _ _ _ Hstr) as HT.
    unfold argv_get.
    destruct Hpos as [[-> Hai]|Hoff].
    - rewrite Hai. simpl. unfold ptr_eqb. simpl. rewrite Nat.eqb_refl. simpl.
      destruct (getc_ok _ _ 0 Hstr ltac:(lia)) as (c & Hc & Hnz). rewrite Hc. simpl.
      destruct (Z.eqb c 45) eqn:Ec; simpl.
      + apply Z.eqb_eq in Ec. assert (Hl : 0 < length str) by (apply Hnz; lia).
        destruct (getc_ok _ _ 1 Hstr ltac:(lia)) as (c1 & Hc1 & Hnz1). rewrite Hc1. simpl.
        destruct (Z.eqb c1 0) eqn:Ec1.
        * eapply next_arg_ok; eauto. lia.
        * apply Z.eqb_neq in Ec1. eapply lookup_ok; eauto. lia.
      + eapply next_arg_ok; eauto. lia.
    - destruct (s_own _ HS _ Ei) as [Ha|Ha]; rewrite Ha; simpl.
      + eapply lookup_ok; eauto. lia.
      + unfold ptr_eqb. simpl. rewrite Nat.eqb_refl. simpl.
        destruct off as [|off]; [lia|]. simpl. eapply lookup_ok; eauto. lia.
  Qed.

  Lemma loop_ok fuel : forall s cur, SInv s -> CInv s cur -> mu s cur < fuel -> OkPost (loop fuel e s cur).
  Proof.
    induction fuel as [|f IH]; intros s cur HS HC Hm; [lia|]. simpl.
    apply step_ok; auto. intros s' cur' HS' HC' Hm'. apply IH; auto. lia.
  Qed.

  Lemma compact_ok a k n j :
    j <= k -> k + n <= length a ->
    exists a' j', compact a k n j = Ok (a', j') /\ length a' = length a /\ j' <= k + n.
  Proof.
    revert a k j; induction n as [|n IH]; intros a k j Hj Hk; simpl.
    - exists a, j. repeat split; auto. lia.
    - unfold argv_get. destruct (nth_error a k) as [v|] eqn:Ev.
      2:{ apply nth_error_None in Ev. lia. }
      simpl. destruct v as [sid|].
      + unfold argv_set. assert (Hjl : j <? length a = true) by (apply Nat.ltb_lt; lia). rewrite Hjl. simpl.
        destruct (IH (upd a j (Some sid)) (S k) (S j)) as (a' & j' & H1 & H2 & H3); try lia.
        { rewrite upd_length. lia. }
        exists a', j'. rewrite H1. repeat split; auto; try lia. now rewrite H2, upd_length.
      + destruct (IH a (S k) j) as (a' & j' & H1 & H2 & H3); try lia.
        exists a', j'. repeat split; auto. lia.
  Qed.

  Lemma epilogue_ok s : PInv s -> 1 < argc -> OkPost (epilogue e s).
  Proof.
    intros HP Ha. unfold epilogue. destruct (e_pre e); [eexists; split; [reflexivity|exact HP]|].
    destruct (e_rm e); [|eexists; split; [reflexivity|exact HP]].
    destruct HP.
    destruct (compact_ok (st_argv s) 1 (e_argc e - 1) 1) as (a & j & Hc & Hl & Hj); try lia.
    rewrite Hc. simpl.
    assert (Ha' : exists a', (if 1 <? j then argv_set a j None else Ok a) = Ok a' /\ length a' = length a).
    { destruct (1 <? j); [|eauto]. unfold argv_set.
      assert (Hjl : j <? length a = true) by (apply Nat.ltb_lt; rewrite Hl, p_len0; fold argc in Hj; lia).
      rewrite Hjl. eexists; split; [reflexivity|]. apply upd_length. }
    destruct Ha' as (a' & -> & Hl'). simpl. eexists; split; [reflexivity|].
    unfold Post; simpl. constructor; simpl; auto; try congruence.
    apply (BadRel_ext _ s); auto.
  Qed.
End Safety.

(* ---------------------------------------------------------------------------------- *)
(* the theorems                                                                        *)
(* ---------------------------------------------------------------------------------- *)
(* a table is well-formed for target pools of n variables each: value pointers point into the
   pools, and boolean options have one (the parser does not check theirs) *)
Definition wf_table (n : nat) (tbl : list opt) : Prop :=
  (forall o k, In o tbl -> o_slot o = Some k -> k < n) /\
  (forall o, In o tbl -> is_boolean o = true -> o_slot o <> None).

Lemma nth_error_seq k n : k < n -> nth_error (seq 0 n) k = Some k.
Proof.
  intros H. rewrite (nth_error_nth' _ 0) by (rewrite seq_length; lia). now rewrite seq_nth.
Qed.
Lemma init_argv_length n : length (init_argv n) = S n.
Proof. unfold init_argv. rewrite app_length, map_length, seq_length. simpl. lia. Qed.
Lemma init_argv_last n : nth_error (init_argv n) n = Some None.
Proof.
  unfold init_argv. rewrite nth_error_app2; rewrite map_length, seq_length; [|lia]. now rewrite Nat.sub_diag.
Qed.
Lemma init_argv_lt n k : k < n -> nth_error (init_argv n) k = Some (Some k).
Proof.
  intros H. unfold init_argv. rewrite nth_error_app1 by (rewrite map_length, seq_length; lia).
  apply map_nth_error. now apply nth_error_seq.
Qed.

(* the general form: entry with any state whose argv is still as the caller built it *)
Lemma parse_with_ok fuel e n s :
  parse_fuel (e_strs e) <= fuel ->
  length (e_strs e) = e_argc e -> wf_table n (e_tbl e) -> wf_store n (st_sto s) ->
  (0 <= st_bad s < bad_opts_modulus)%Z -> st_argv s = init_argv (e_argc e) ->
  OkPost e n (st_bad s) (st_nbad s) (st_sto s) (parse_with fuel e s).
Proof.
  intros Hfuel Hlen [Hslot Hbool] Hwf Hb Hargv.
  assert (HB : forall c s', st_bad s' = st_bad s -> st_nbad s' = st_nbad s ->
                            BadRel e (st_bad s) (st_nbad s) c s').
  { intros c s' H1 H2. constructor; rewrite ?H1, ?H2, ?Nat.sub_diag, ?Z.add_0_r; auto.
    - now rewrite Z.mod_small.
    - intros (_ & ? & ?). split; auto. }
  assert (HP : PInv e n (st_bad s) (st_nbad s) (st_sto s) s).
  { constructor; auto. rewrite Hargv. apply init_argv_length. apply StoreRel_refl. }
  unfold parse_with.
  destruct (e_argc e <=? 1) eqn:Ea.
  { eexists; split; [reflexivity|exact HP]. }
  apply Nat.leb_gt in Ea.
  assert (HS : SInv e n (st_bad s) (st_nbad s) (st_sto s) (set_i s 1)).
  { constructor; simpl; auto; rewrite ?Hargv.
    - apply init_argv_length.
    - apply init_argv_last.
    - intros k Hk. right. now apply init_argv_lt.
    - intros k Hk. apply init_argv_lt. lia.
    - lia.
    - apply StoreRel_refl. }
  unfold argv_get. rewrite Hargv, (init_argv_lt _ 1 Ea). cbn [bind arg_ptr option_map].
  destruct (loop_ok e n (st_bad s) (st_nbad s) (st_sto s) Hlen Hslot Hbool Hb fuel
                    (set_i s 1) (Some (1, 0))) as (o & Ho & HPo); auto.
  - simpl. repeat split; auto.
    destruct (nth_error (e_strs e) 1) as [str|] eqn:E.
    + exists str. split; auto. left. split; auto. rewrite Hargv. exact (init_argv_lt _ 1 Ea).
    + apply nth_error_None in E. lia.
  - simpl. rewrite parse_fuel_total in Hfuel. pose proof (total_skipn_le (e_strs e) 1). lia.
  - rewrite Ho. simpl. destruct o as [b s'|b s'].
    + apply epilogue_ok; auto.
    + eexists; split; [reflexivity|exact HPo].
Qed.

Lemma parse_ok e n s :
  length (e_strs e) = e_argc e -> wf_table n (e_tbl e) -> wf_store n (st_sto s) ->
  (0 <= st_bad s < bad_opts_modulus)%Z -> st_argv s = init_argv (e_argc e) ->
  OkPost e n (st_bad s) (st_nbad s) (st_sto s) (parse e s).
Proof. intros. apply parse_with_ok; auto. Qed.

(* any fuel from parse_fuel on excludes Out_of_fuel (and every other Fault) *)
Theorem parse_total_safe_fuel fuel e n sto bad :
  parse_fuel (e_strs e) <= fuel ->
  length (e_strs e) = e_argc e -> wf_table n (e_tbl e) -> wf_store n sto -> (0 <= bad < 256)%Z ->
  exists out, parse_with fuel e (init_st (e_argc e) sto bad) = Ok out.
Proof.
  intros Hf Hlen Hwt Hws Hb.
  destruct (parse_with_ok fuel e n (init_st (e_argc e) sto bad) Hf Hlen Hwt Hws Hb eq_refl) as (out & Ho & _). eauto.
Qed.

(* parse_total_safe.  For EVERY argument vector (arbitrary bytes, any length), every well-formed
   table and every setting, the model of spifopt_parse run with the fuel [parse_fuel] returns Ok:
   it terminates, and no read or write leaves argv, an argument string, the table, a target or
   an array the parser allocated (each such access of the model is checked, a miss is a Fault).
   The bad-option counter is the 8 bit sum of its initial value and the number of CHECK_BAD()s;
   if the help handler does not return and the limit is below 255 it never wraps (it only grows). *)
Theorem parse_total_safe e n sto bad :
  length (e_strs e) = e_argc e -> wf_table n (e_tbl e) -> wf_store n sto -> (0 <= bad < 256)%Z ->
  exists out, parse e (init_st (e_argc e) sto bad) = Ok out /\
    let s' := ost out in
    length (st_argv s') = S (e_argc e) /\ wf_store n (st_sto s') /\
    st_bad s' = ((bad + Z.of_nat (st_nbad s')) mod 256)%Z /\
    (e_ret e = false -> (bad <= e_allow e < 255)%Z -> st_bad s' = (bad + Z.of_nat (st_nbad s'))%Z).
Proof.
  intros Hlen Hwt Hws Hb.
  destruct (parse_ok e n (init_st (e_argc e) sto bad) Hlen Hwt Hws Hb eq_refl) as (out & Ho & HP).
  exists out. split; auto. destruct HP. simpl in *. destruct p_bad0. simpl in *.
  rewrite Nat.sub_0_r in *. split; [auto|]. split; [auto|]. split; [auto|].
  intros Hr Ha. apply br_nw0. repeat split; auto; try lia. rewrite bad_modulus. lia.
Qed.

(* the same with an explicit fuel: any fuel from parse_fuel on excludes Out_of_fuel *)
Theorem loop_fuel_enough e n s cur fuel :
  length (e_strs e) = e_argc e -> wf_table n (e_tbl e) -> (0 <= st_bad s < bad_opts_modulus)%Z ->
  SInv e n (st_bad s) (st_nbad s) (st_sto s) s -> CInv e s cur -> mu e s cur < fuel ->
  exists out, loop fuel e s cur = Ok out.
Proof.
  intros Hlen [H1 H2] Hb HS HC Hm.
  destruct (loop_ok e n _ _ _ Hlen H1 H2 Hb fuel s cur HS HC Hm) as (o & Ho & _). eauto.
Qed.

(* bool_mask_only for a whole parse.  Whatever the command line: a bit of a boolean target that
   lies outside the masks of all boolean options aimed at that target keeps its value, an integer /
   string / list target that no option of that kind is aimed at keeps its value, and the calls of
   the abstract handlers are only appended to. *)
Theorem bool_mask_only e n sto bad out :
  length (e_strs e) = e_argc e -> wf_table n (e_tbl e) -> wf_store n sto -> (0 <= bad < 256)%Z ->
  parse e (init_st (e_argc e) sto bad) = Ok out ->
  StoreRel (e_tbl e) sto (st_sto (ost out)).
Proof.
  intros Hlen Hwt Hws Hb Hp.
  destruct (parse_ok e n (init_st (e_argc e) sto bad) Hlen Hwt Hws Hb eq_refl) as (out' & Ho & HP).
  rewrite Hp in Ho. inversion Ho; subst. apply (p_rel _ _ _ _ _ _ HP).
Qed.

(* bool_mask_only for one boolean option: handle_boolean writes at most the one target, as
   old | mask or old & ~mask, and returns TRUE whenever the caller has filtered the value *)
Lemma slot_upd_inv {A} (l : list A) k f r : slot_upd l (Some k) f = Ok r -> exists v, nth_error l k = Some v /\ r = upd l k (f v).
Proof. unfold slot_upd. destruct (nth_error l k); intros H; inversion H; eauto. Qed.

Theorem handle_boolean_exact e o sto val islong sto' r k :
  handle_boolean e o sto val islong = Ok (sto', r) -> o_slot o = Some k ->
  si sto' = si sto /\ ss sto' = ss sto /\ sl sto' = sl sto /\ sa sto' = sa sto /\
  (sb sto' = sb sto \/
   exists v, nth_error (sb sto) k = Some v /\
             (sb sto' = upd (sb sto) k (Z.lor v (o_mask o mod mask_modulus)) \/
              sb sto' = upd (sb sto) k (Z.land v (Z.lnot (o_mask o mod mask_modulus))))).
Proof.
  intros H Hk. unfold handle_boolean in H. rewrite Hk in H.
  assert (Hset : forall f s1, (if should_parse e o then (b <- slot_upd (sb sto) (Some k) f ;; Ok (set_sb sto b)) else Ok sto) = Ok s1 ->
            si s1 = si sto /\ ss s1 = ss sto /\ sl s1 = sl sto /\ sa s1 = sa sto /\
            (sb s1 = sb sto \/ exists v, nth_error (sb sto) k = Some v /\ sb s1 = upd (sb sto) k (f v))).
  { intros f s1 H1. destruct (should_parse e o).
    - destruct (slot_upd (sb sto) (Some k) f) as [b|] eqn:E; simpl in H1; [|discriminate].
      inversion H1; subst. simpl. destruct (slot_upd_inv _ _ _ _ E) as (v & Hv & ->). repeat split; eauto.
    - inversion H1; subst. repeat split; auto. }
  assert (Hor : forall s1, (if should_parse e o then (b <- slot_upd (sb sto) (Some k) (or_mask o) ;; Ok (set_sb sto b)) else Ok sto) = Ok s1 ->
     si s1 = si sto /\ ss s1 = ss sto /\ sl s1 = sl sto /\ sa s1 = sa sto /\
     (sb s1 = sb sto \/ exists v, nth_error (sb sto) k = Some v /\
             (sb s1 = upd (sb sto) k (Z.lor v (o_mask o mod mask_modulus)) \/
              sb s1 = upd (sb sto) k (Z.land v (Z.lnot (o_mask o mod mask_modulus)))))).
  { intros s1 H1. destruct (Hset _ _ H1) as (?&?&?&?&[?|(v&?&?)]); repeat split; auto. right. exists v. auto. }
  assert (Hclr : forall s1, (if should_parse e o then (b <- slot_upd (sb sto) (Some k) (clr_mask o) ;; Ok (set_sb sto b)) else Ok sto) = Ok s1 ->
     si s1 = si sto /\ ss s1 = ss sto /\ sl s1 = sl sto /\ sa s1 = sa sto /\
     (sb s1 = sb sto \/ exists v, nth_error (sb sto) k = Some v /\
             (sb s1 = upd (sb sto) k (Z.lor v (o_mask o mod mask_modulus)) \/
              sb s1 = upd (sb sto) k (Z.land v (Z.lnot (o_mask o mod mask_modulus)))))).
  { intros s1 H1. destruct (Hset _ _ H1) as (?&?&?&?&[?|(v&?&?)]); repeat split; auto. right. exists v. auto. }
  destruct val as [v|]; [destruct islong|].
  - destruct (istrue v); [|destruct (isfalse v)].
    + apply bind_ok in H. destruct H as (s1 & H1 & H2). inversion H2; subst. auto.
    + apply bind_ok in H. destruct H as (s1 & H1 & H2). inversion H2; subst. auto.
    + apply bind_ok in H. destruct H as (s1 & H1 & H2). inversion H2; subst. auto.
  - apply bind_ok in H. destruct H as (s1 & H1 & H2). inversion H2; subst. auto.
  - apply bind_ok in H. destruct H as (s1 & H1 & H2). inversion H2; subst. auto.
Qed.
