(* Executable model of the command line option parser, src/options.c (property C08), as the code
   stands after the repairs listed in checks/c08.py: spifopt_parse with its cursor macros
   NEXT_ARG / NEXT_LETTER / NEXT_LOOP, find_long_option, find_short_option, find_value_long,
   find_value_short, is_boolean_value, is_valid_option, handle_boolean / integer / string /
   arglist, CHECK_BAD (include/libast_internal.h), and the helpers of src/strings.c that
   handle_arglist calls (spiftool_num_words, spiftool_get_word).

   Memory picture.  The argument strings are separate blocks, never written by the parser:
   [e_strs] holds their bytes, string number sid is the block argv[sid] pointed to on entry.
   A character pointer is a pair (sid, off); NULL is [None].  argv is a list of argc + 1
   pointer slots.  Every character access goes through [getc] / [cstr_at] (checked against
   length + 1: the terminator may be read, nothing after it), every argv[k] through
   [argv_get] / [argv_set] (checked against argc + 1 slots), every table access through
   [tbl_get], every target through its slot list; a miss is a [Fault].
   The option table and the constants come from Gen/OptGen.v (generated from the headers).
   No proofs in this file. *)
From LV Require Export Base.Buf Gen.OptGen.
Local Open Scope Z_scope.

(* ---------------------------------------------------------------------------------- *)
(* option table                                                                        *)
(* ---------------------------------------------------------------------------------- *)
Record opt : Type := mkopt {
  o_short : byte;              (* 0 = no short form *)
  o_long : list byte;          (* long name, no terminator *)
  o_flags : Z;                 (* 16 bit: type bits and modifiers *)
  o_slot : option nat;         (* value pointer: None = NULL, Some k = target number k of the kind
                                  the type dispatch of spifopt_parse selects *)
  o_mask : Z }.                (* boolean bit mask, 32 bit *)

Definition has (o : opt) (f : Z) : bool := negb (Z.land (o_flags o) f =? 0).
Definition is_boolean o := has o flag_boolean.
Definition is_integer o := has o flag_integer.
Definition is_string o := has o flag_string.
Definition is_arglist o := has o flag_arglist.
Definition is_abstract o := has o flag_abstract.
Definition is_preparse o := has o flag_preparse.
Definition needs_value o := has o flag_typemask_value.

(* ---------------------------------------------------------------------------------- *)
(* targets                                                                             *)
(* ---------------------------------------------------------------------------------- *)
Definition word := list byte.
Record store : Type := mkstore {
  sb : list Z;                                  (* boolean targets: unsigned long bit fields *)
  si : list Z;                                  (* integer targets: int *)
  ss : list (option word);                      (* string targets: char *, None = NULL *)
  sl : list (option (list (option word)));      (* argument lists: the entries before the final NULL *)
  sa : list (nat * option word) }.              (* calls of the abstract handlers, oldest first *)

Definition set_sb s v := mkstore v (si s) (ss s) (sl s) (sa s).
Definition set_si s v := mkstore (sb s) v (ss s) (sl s) (sa s).
Definition set_ss s v := mkstore (sb s) (si s) v (sl s) (sa s).
Definition set_sl s v := mkstore (sb s) (si s) (ss s) v (sa s).
Definition set_sa s v := mkstore (sb s) (si s) (ss s) (sl s) v.

(* a write through the value pointer: NULL pointer -> Null_deref, slot outside the pool -> OOB *)
Definition slot_upd {A} (l : list A) (slot : option nat) (f : A -> A) : res (list A) :=
  match slot with
  | None => Fault Null_deref
  | Some k => match nth_error l k with
              | None => Fault OOB_write
              | Some v => Ok (upd l k (f v))
              end
  end.

(* ---------------------------------------------------------------------------------- *)
(* environment (never changes during one call) and parser state                        *)
(* ---------------------------------------------------------------------------------- *)
Record env : Type := mkenv {
  e_tbl : list opt;
  e_strs : list (list byte);   (* contents of the argument strings *)
  e_argc : nat;
  e_pre : bool;                (* SPIFOPT_SETTING_PREPARSE *)
  e_rm : bool;                 (* SPIFOPT_SETTING_REMOVE_ARGS *)
  e_allow : Z;                 (* SPIFOPT_ALLOWBAD_GET() *)
  e_ret : bool }.              (* does the help handler return? *)

Record st : Type := mkst {
  st_i : nat;                  (* i *)
  st_argv : list (option nat); (* argv[0..argc]; Some sid = pointer to string sid *)
  st_sto : store;
  st_bad : Z;                  (* spifopt_settings.bad_opts *)
  st_helps : nat;              (* calls of the help handler *)
  st_nbad : nat }.             (* ghost: number of CHECK_BAD() executions *)

Definition set_i s v := mkst v (st_argv s) (st_sto s) (st_bad s) (st_helps s) (st_nbad s).
Definition set_argv s v := mkst (st_i s) v (st_sto s) (st_bad s) (st_helps s) (st_nbad s).
Definition set_sto s v := mkst (st_i s) (st_argv s) v (st_bad s) (st_helps s) (st_nbad s).

Definition ptr := (nat * nat)%type.

(* Done pre s: spifopt_parse returned, PREPARSE flag now pre; Helped pre s: the help handler left
   the parser by longjmp (flag and state at that moment) *)
Inductive outcome : Type :=
| Done (pre : bool) (s : st)
| Helped (pre : bool) (s : st).

(* ---------------------------------------------------------------------------------- *)
(* checked memory access                                                               *)
(* ---------------------------------------------------------------------------------- *)
Definition str_of (e : env) (sid : nat) : res (list byte) :=
  match nth_error (e_strs e) sid with Some s => Ok s | None => Fault OOB_read end.

(* *p : the bytes of the string, then the terminator, then the end of the block *)
Definition getc (e : env) (p : ptr) : res byte :=
  s <- str_of e (fst p) ;;
  if (snd p <? length s)%nat then Ok (nth (snd p) s 0)
  else if (snd p =? length s)%nat then Ok 0
  else Fault OOB_read.

Fixpoint take_nz (l : list byte) : list byte :=
  match l with
  | [] => []
  | c :: t => if c =? 0 then [] else c :: take_nz t
  end.

(* the C string p points to (what strlen, strchr, strcasecmp, strdup, strtol see) *)
Definition cstr_at (e : env) (p : ptr) : res (list byte) :=
  s <- str_of e (fst p) ;;
  if (snd p <=? length s)%nat then Ok (take_nz (skipn (snd p) s)) else Fault OOB_read.

Definition argv_get (a : list (option nat)) (k : nat) : res (option nat) :=
  match nth_error a k with Some v => Ok v | None => Fault OOB_read end.
Definition argv_set (a : list (option nat)) (k : nat) (v : option nat) : res (list (option nat)) :=
  if (k <? length a)%nat then Ok (upd a k v) else Fault OOB_write.

Definition tbl_get (e : env) (j : nat) : res opt :=
  match nth_error (e_tbl e) j with Some o => Ok o | None => Fault OOB_read end.

Definition arg_ptr (a : option nat) : option ptr := option_map (fun sid => (sid, O)) a.
Definition ptr_eqb (p q : ptr) : bool := (fst p =? fst q)%nat && (snd p =? snd q)%nat.
Definition optptr_eqb (p q : option ptr) : bool :=
  match p, q with Some a, Some b => ptr_eqb a b | None, None => true | _, _ => false end.
Definition is_some {A} (o : option A) : bool := match o with Some _ => true | None => false end.

(* ---------------------------------------------------------------------------------- *)
(* pure string functions                                                               *)
(* ---------------------------------------------------------------------------------- *)
Fixpoint bytes_eqb (a b : list byte) : bool :=
  match a, b with
  | [], [] => true
  | x :: a', y :: b' => (x =? y) && bytes_eqb a' b'
  | _, _ => false
  end.
Definition lower (s : list byte) : list byte := map tolower s.
(* strcasecmp(a, b) == 0 *)
Definition streq_ci (a b : list byte) : bool := bytes_eqb (lower a) (lower b).

Definition istrue (v : list byte) : bool := existsb (streq_ci v) true_vals.
Definition isfalse (v : list byte) : bool := existsb (streq_ci v) false_vals.
(* is_boolean_value(): the pointer is known to be non-NULL here *)
Definition is_boolean_value (v : list byte) : bool :=
  match v with [] => false | _ => istrue v || isfalse v end.

(* find_long_option: !strncasecmp(long, opt, l) && (opt[l] == '=' || !opt[l]) *)
Definition long_matches (l name : list byte) : bool :=
  let n := length l in
  (n <=? length name)%nat && bytes_eqb (lower l) (lower (firstn n name)) &&
  match nth_error name n with None => true | Some c => c =? 61 end.

Fixpoint find_idx {A} (f : A -> bool) (l : list A) (k : nat) : option nat :=
  match l with
  | [] => None
  | x :: t => if f x then Some k else find_idx f t (S k)
  end.
Definition find_long (tbl : list opt) (name : list byte) : option nat :=
  find_idx (fun o => long_matches (o_long o) name) tbl O.
Definition find_short (tbl : list opt) (c : byte) : option nat :=
  find_idx (fun o => o_short o =? c) tbl O.

(* strchr(s, '='): offset of the first '=' *)
Fixpoint index_eq (s : list byte) : option nat :=
  match s with
  | [] => None
  | c :: t => if c =? 61 then Some O else option_map S (index_eq t)
  end.

(* ---- strtol(s, NULL, 0) followed by the conversion to int ---- *)
Fixpoint skip_ws (l : list byte) : list byte :=
  match l with
  | c :: t => if isspace c then skip_ws t else l
  | [] => []
  end.
Definition digit_val (c : byte) : Z :=
  if isdigit c then c - 48 else if islower c then c - 87 else if isupper c then c - 55 else 99.
Fixpoint acc_digits (base : Z) (l : list byte) (v : Z) : Z :=
  match l with
  | [] => v
  | c :: t => let d := digit_val c in if d <? base then acc_digits base t (v * base + d) else v
  end.
Definition long_max : Z := 9223372036854775807.
Definition long_min : Z := -9223372036854775808.
Definition strtol0 (s : list byte) : Z :=
  let s := skip_ws s in
  let '(neg, s) := match s with
                   | c :: t => if c =? 45 then (true, t) else if c =? 43 then (false, t) else (false, s)
                   | [] => (false, s)
                   end in
  let '(base, s) := match s with
                    | c :: x :: d :: t =>
                      if (c =? 48) && ((x =? 120) || (x =? 88)) && (digit_val d <? 16) then (16, d :: t)
                      else if c =? 48 then (8, s) else (10, s)
                    | c :: _ => if c =? 48 then (8, s) else (10, s)
                    | [] => (10, s)
                    end in
  let v := acc_digits base s 0 in
  let v := if neg then - v else v in
  if v >? long_max then long_max else if v <? long_min then long_min else v.
Definition to_int (z : Z) : Z := (z + 2147483648) mod 4294967296 - 2147483648.

(* ---- spiftool_num_words / spiftool_get_word as automata over the characters ----
   IS_DELIM(c) = delim ? c == delim : isspace(c) *)
Definition is_quote (c : byte) : bool := (c =? 34) || (c =? 39).
Definition is_delim (delim c : byte) : bool := if delim =? 0 then isspace c else c =? delim.

(* num_words: [None] = between words (the skip loops and the head of the for loop),
   [Some d] = inside a word with delimiter d; every entry into a word counts *)
Fixpoint nw_go (l : list byte) (mode : option byte) (cnt : nat) : nat :=
  match l with
  | [] => cnt
  | c :: t =>
    match mode with
    | None => if isspace c then nw_go t None cnt
              else if is_quote c then nw_go t (Some c) (S cnt)
              else nw_go t (Some 0) (S cnt)
    | Some d =>
      if is_delim d c then nw_go t None cnt
      else match t with
           (* a backslash-escaped quote inside a word is stepped over (repo fix 7e90004) *)
           | c2 :: t2 => if (c =? 92) && is_quote c2 then nw_go t2 mode cnt else nw_go t mode cnt
           | [] => nw_go t mode cnt
           end
    end
  end.
Definition num_words (s : list byte) : nat := nw_go s None O.

(* get_word: all words the loop "for (j = 0; j < index && str[i]; j++)" can produce, in order.
   [GSkip] = the whitespace skip at the start of a round, [GWord d w] = copying a word (w is
   the copy so far, reversed).  A round only starts while str[i] is not the terminator; a
   round that finds nothing but whitespace yields the empty word. *)
Inductive gmode : Type := GTop | GSkip | GWord (d : byte) (w : list byte).
Fixpoint gw_go (l : list byte) (m : gmode) (acc : list (list byte)) : list (list byte) :=
  match l with
  | [] => match m with
          | GTop => rev acc
          | GSkip => rev ([] :: acc)
          | GWord _ w => rev (rev w :: acc)
          end
  | c :: t =>
    match m with
    | GTop | GSkip =>
      if isspace c then gw_go t GSkip acc
      else if is_quote c then gw_go t (GWord c []) acc
      else (* first character of an unquoted word; it is no delimiter *)
        match t with
        | q :: t' => if (c =? 92) && is_quote q then gw_go t' (GWord 0 [q]) acc
                     else gw_go t (GWord 0 [c]) acc
        | [] => gw_go t (GWord 0 [c]) acc
        end
    | GWord d w =>
      if is_delim d c then
        (* a closing quote is stepped over; a blank starts the next round's whitespace skip *)
        gw_go t (if d =? 0 then GSkip else GTop) (rev w :: acc)
      else
        match t with
        | q :: t' => if (c =? 92) && is_quote q then gw_go t' (GWord d (q :: w)) acc
                     else gw_go t (GWord d (c :: w)) acc
        | [] => gw_go t (GWord d (c :: w)) acc
        end
    end
  end.
Definition get_words (s : list byte) : list (list byte) := gw_go s GTop [].
(* spiftool_get_word(index, s): NULL when fewer than index rounds were possible *)
Definition get_word (index : nat) (s : list byte) : option (list byte) :=
  match index with O => None | S k => nth_error (get_words s) k end.

(* ---------------------------------------------------------------------------------- *)
(* the parser                                                                          *)
(* ---------------------------------------------------------------------------------- *)
Definition should_parse (e : env) (o : opt) : bool := Bool.eqb (e_pre e) (is_preparse o).
Definition rm_active (e : env) : bool := negb (e_pre e) && e_rm e.

(* CHECK_BAD(): count; above the limit call the help handler, which returns or does not *)
Definition check_bad (e : env) (s : st) (k : st -> res outcome) : res outcome :=
  let b := (st_bad s + 1) mod bad_opts_modulus in
  let s1 := mkst (st_i s) (st_argv s) (st_sto s) b (st_helps s) (S (st_nbad s)) in
  if b >? e_allow e then
    let s2 := mkst (st_i s) (st_argv s) (st_sto s) b (S (st_helps s)) (S (st_nbad s)) in
    if e_ret e then k s2 else Ok (Helped (e_pre e) s2)
  else k s1.

(* is_valid_option(): counts a bad option as a side effect of a failed lookup *)
Definition is_valid_option (e : env) (v : list byte) (s : st) (k : bool -> st -> res outcome) : res outcome :=
  match v with
  | c :: t =>
    if c =? 45 then
      match t with
      | c2 :: t2 =>
        if c2 =? 45 then
          match find_long (e_tbl e) t2 with
          | Some _ => k true s
          | None => check_bad e s (k false)
          end
        else
          match find_short (e_tbl e) c2 with
          | Some _ => k true s
          | None => check_bad e s (k false)
          end
      | [] =>
        match find_short (e_tbl e) 0 with
        | Some _ => k true s
        | None => check_bad e s (k false)
        end
      end
    else k false s
  | [] => k false s
  end.

(* "if (!PREPARSE && REMOVE_ARGS) argv[i] = NULL;" *)
Definition clear_arg (e : env) (s : st) : res st :=
  if rm_active e then (a <- argv_set (st_argv s) (st_i s) None ;; Ok (set_argv s a)) else Ok s.

(* "for (; i < argc; i++) argv[i] = NULL;" *)
Fixpoint clear_from (a : list (option nat)) (k n : nat) : res (list (option nat)) :=
  match n with
  | O => Ok a
  | S n' => a' <- argv_set a k None ;; clear_from a' (S k) n'
  end.

Definition or_mask (o : opt) (v : Z) : Z := Z.lor v (o_mask o mod mask_modulus).
Definition clr_mask (o : opt) (v : Z) : Z := Z.land v (Z.lnot (o_mask o mod mask_modulus)).

(* handle_boolean(n, val_ptr, islong): the new store and the return value *)
Definition handle_boolean (e : env) (o : opt) (sto : store) (val : option (list byte)) (islong : bool)
  : res (store * bool) :=
  let setb f := if should_parse e o then (b <- slot_upd (sb sto) (o_slot o) f ;; Ok (set_sb sto b)) else Ok sto in
  match val, islong with
  | Some v, true =>
    if istrue v then (s' <- setb (or_mask o) ;; Ok (s', true))
    else if isfalse v then (s' <- setb (clr_mask o) ;; Ok (s', true))
    else (s' <- setb (or_mask o) ;; Ok (s', false))
  | _, _ => s' <- setb (or_mask o) ;; Ok (s', true)
  end.

(* the array handle_arglist allocates has [alloc] pointer slots; [ws] entries and the final
   NULL are written into it *)
Definition fill_array {A} (alloc : nat) (ws : list A) : res (list A) :=
  if (length ws + 1 <=? alloc)%nat then Ok ws else Fault OOB_write.

Fixpoint map_res {A B} (f : A -> res B) (l : list A) : res (list B) :=
  match l with
  | [] => Ok []
  | x :: t => y <- f x ;; r <- map_res f t ;; Ok (y :: r)
  end.

(* handle_arglist(n, val_ptr, hasequal, i, argc, argv): the entries written into the new array *)
Definition arglist_words (e : env) (s : st) (val : ptr) (hasequal : bool) : res (list (option word)) :=
  if hasequal then
    v <- cstr_at e val ;;
    let len := num_words v in
    fill_array (len + 1) (map (fun k => get_word (S k) v) (seq 0 len))
  else
    let len := (e_argc e - st_i s)%nat in
    ws <- map_res (fun k => match k with
                            | O => v <- cstr_at e val ;; Ok (Some v)
                            | _ => a <- argv_get (st_argv s) (k + st_i s) ;;
                                   match a with
                                   | None => Fault Null_deref           (* strdup(NULL) *)
                                   | Some sid => v <- cstr_at e (sid, O) ;; Ok (Some v)
                                   end
                            end) (seq 0 len) ;;
    fill_array (e_argc e - st_i s + 1) ws.

Definition handle_arglist (e : env) (o : opt) (s : st) (val : ptr) (hasequal : bool) : res store :=
  ws <- arglist_words e s val hasequal ;;
  l <- slot_upd (sl (st_sto s)) (o_slot o) (fun _ => Some ws) ;;
  Ok (set_sl (st_sto s) l).

Section Step.
  Variable e : env.
  (* the rest of the loop: state and cursor (opt) at the head of the next round *)
  Variable rec : st -> option ptr -> res outcome.

  (* NEXT_ARG(): i++; opt = argv[i]; continue *)
  Definition next_arg (s : st) : res outcome :=
    let s' := set_i s (S (st_i s)) in
    a <- argv_get (st_argv s') (st_i s') ;;
    rec s' (arg_ptr a).

  (* NEXT_LETTER(): if (opt[1]) opt++; else NEXT_ARG(); continue *)
  Definition next_letter (s : st) (p : ptr) : res outcome :=
    c <- getc e (fst p, S (snd p)) ;;
    if c =? 0 then next_arg s else rec s (Some (fst p, S (snd p))).

  (* NEXT_LOOP() *)
  Definition next_loop (s : st) (p : ptr) (islong : bool) (val : option ptr) : res outcome :=
    if islong || is_some val then next_arg s else next_letter s p.

  (* from "if (SPIFOPT_OPT_IS_BOOLEAN(j))" to the end of the loop body *)
  Definition dispatch (s : st) (p : ptr) (o : opt) (islong hasequal : bool) (val : option ptr) : res outcome :=
    vs <- match val with None => Ok None | Some v => (x <- cstr_at e v ;; Ok (Some x)) end ;;
    let finish s := (s' <- clear_arg e s ;; next_loop s' p islong val) in
    if is_boolean o then
      '(sto, r) <- handle_boolean e o (st_sto s) vs islong ;;
      let s := set_sto s sto in
      finish (if r then s else set_i s (pred (st_i s)))
    else if is_string o then
      if should_parse e o then
        match vs with
        | None => Fault Null_deref                                   (* strdup(NULL) *)
        | Some v => l <- slot_upd (ss (st_sto s)) (o_slot o) (fun _ => Some v) ;;
                    finish (set_sto s (set_ss (st_sto s) l))
        end
      else finish s
    else if is_integer o then
      if should_parse e o then
        match vs with
        | None => Fault Null_deref                                   (* strtol(NULL) *)
        | Some v => l <- slot_upd (si (st_sto s)) (o_slot o) (fun _ => to_int (strtol0 v)) ;;
                    finish (set_sto s (set_si (st_sto s) l))
        end
      else finish s
    else if is_arglist o then
      s1 <- (if should_parse e o then
               match val with
               | None => Fault Null_deref
               | Some v => sto <- handle_arglist e o s v hasequal ;; Ok (set_sto s sto)
               end
             else Ok s) ;;
      if hasequal then finish s1
      else
        (* the rest of the command line belongs to this option: remove it, leave the loop *)
        a <- (if rm_active e then clear_from (st_argv s1) (st_i s1) (e_argc e - st_i s1) else Ok (st_argv s1)) ;;
        Ok (Done (e_pre e) (set_argv s1 a))
    else if is_abstract o then
      if should_parse e o then
        match o_slot o with
        | None => Fault Null_deref                                   (* call through a NULL pointer *)
        | Some k => finish (set_sto s (set_sa (st_sto s) (sa (st_sto s) ++ [(k, vs)])))
        end
      else finish s
    else finish s.

  (* a value taken from the next argument is consumed:
     "if (val_ptr == argv[i + 1]) { i++; opt += strlen(opt); }" *)
  Definition consume_value (s : st) (p : ptr) (nxt : option nat) (val : option ptr) : res (st * ptr) :=
    if is_some val && optptr_eqb val (arg_ptr nxt) then
      rest <- cstr_at e p ;; Ok (set_i s (S (st_i s)), (fst p, (snd p + length rest)%nat))
    else Ok (s, p).

  (* find_value_long / find_value_short: the value pointer and hasequal *)
  Definition find_value (p : ptr) (nxt : option nat) (islong : bool) : res (option ptr * bool) :=
    if islong then
      name <- cstr_at e p ;;
      match index_eq name with
      | Some k => Ok (Some (fst p, (snd p + k + 1)%nat), true)
      | None => Ok (arg_ptr nxt, false)
      end
    else
      c <- getc e (fst p, S (snd p)) ;;
      if c =? 0 then Ok (arg_ptr nxt, false) else Ok (Some (fst p, S (snd p)), false).

  (* from "if (val_ptr == argv[i + 1])" to the dispatch: val is the value pointer that survived the
     boolean / abstract filter, nxt = argv[i + 1] *)
  Definition with_value (s : st) (p : ptr) (o : opt) (nxt : option nat) (islong hasequal : bool)
             (val : option ptr) : res outcome :=
    '(s, p) <- consume_value s p nxt val ;;
    (* (the deprecation warning only prints) *)
    if needs_value o then
      match val with
      | None => check_bad e s (fun s => next_loop s p islong val)
      | Some _ =>
        if is_some (o_slot o) then dispatch s p o islong hasequal val else next_loop s p islong val
      end
    else if is_abstract o && negb (is_some (o_slot o)) then next_loop s p islong val
    else dispatch s p o islong hasequal val.

  (* from "if (!PREPARSE && REMOVE_ARGS) argv[i] = NULL" after the lookup to with_value;
     p points at the option letter / at the long name *)
  Definition after_find (s : st) (p : ptr) (j : nat) (islong : bool) : res outcome :=
    s <- clear_arg e s ;;
    nxt <- argv_get (st_argv s) (S (st_i s)) ;;
    '(val, hasequal) <- find_value p nxt islong ;;
    o <- tbl_get e j ;;
    (* "Boolean options may or may not have a value..." *)
    match val with
    | None => with_value s p o nxt islong hasequal None
    | Some v =>
      vs <- cstr_at e v ;;
      if is_boolean o && (negb islong || negb (is_boolean_value vs)) then with_value s p o nxt islong hasequal None
      else if is_abstract o then
        is_valid_option e vs s (fun valid s => with_value s p o nxt islong hasequal (if valid then None else val))
      else if negb (needs_value o) && negb (is_boolean o) then
        (* a counter, or no type at all: takes no value *)
        with_value s p o nxt islong hasequal None
      else with_value s p o nxt islong hasequal val
    end.

  (* "if (opt[0] is a hyphen) ... find_long_option ... else ... find_short_option": p is the cursor behind
     the leading hyphen, or somewhere inside a bundle *)
  Definition lookup (s : st) (p : ptr) : res outcome :=
    c <- getc e p ;;
    if c =? 45 then
      (* long option: skip the second hyphen *)
      let p := (fst p, S (snd p)) in
      name <- cstr_at e p ;;
      match find_long (e_tbl e) name with
      | None => check_bad e s next_arg
      | Some j => after_find s p j true
      end
    else
      match find_short (e_tbl e) c with
      | None => check_bad e s (fun s => next_letter s p)
      | Some j => after_find s p j false
      end.

  (* one round of "for (i = 1, opt = argv[1]; i < argc; )" *)
  Definition step (s : st) (cur : option ptr) : res outcome :=
    if negb (st_i s <? e_argc e)%nat then Ok (Done (e_pre e) s)
    else
      match cur with
      | None => Ok (Done (e_pre e) s)                                  (* break *)
      | Some p =>
        ai <- argv_get (st_argv s) (st_i s) ;;
        if optptr_eqb (Some p) (arg_ptr ai) then
          (* at the start of argv[i]: a word or a lone hyphen is skipped *)
          c <- getc e p ;;
          if negb (c =? 45) then next_arg s
          else
            c1 <- getc e (fst p, S (snd p)) ;;
            if c1 =? 0 then next_arg s else lookup s (fst p, S (snd p))
        else lookup s p
      end.
End Step.

Fixpoint loop (fuel : nat) (e : env) (s : st) (cur : option ptr) : res outcome :=
  match fuel with
  | O => Fault Out_of_fuel
  | S f => step e (loop f e) s cur
  end.

(* the argv compaction after the loop: for (i = 1, j = 1; i < argc; i++) if (argv[i]) argv[j++] = argv[i] *)
Fixpoint compact (a : list (option nat)) (k n j : nat) : res (list (option nat) * nat) :=
  match n with
  | O => Ok (a, j)
  | S n' =>
    v <- argv_get a k ;;
    match v with
    | Some _ => a' <- argv_set a j v ;; compact a' (S k) n' (S j)
    | None => compact a (S k) n' j
    end
  end.

Definition epilogue (e : env) (s : st) : res outcome :=
  if e_pre e then Ok (Done false s)
  else if e_rm e then
    '(a, j) <- compact (st_argv s) 1 (e_argc e - 1) 1 ;;
    a' <- (if (1 <? j)%nat then argv_set a j None else Ok a) ;;
    Ok (Done false (set_argv s a'))
  else Ok (Done false s).

(* fuel that always suffices: every round consumes a letter or an argument *)
Definition parse_fuel (strs : list (list byte)) : nat :=
  S (fold_right (fun s a => (length s + 2 + a)%nat) O strs).

(* spifopt_parse(argc, argv) *)
Definition parse_with (fuel : nat) (e : env) (s : st) : res outcome :=
  if (e_argc e <=? 1)%nat then Ok (Done (e_pre e) s)                   (* REQUIRE(argc > 1) *)
  else
    a1 <- argv_get (st_argv s) 1 ;;
    r <- loop fuel e (set_i s 1%nat) (arg_ptr a1) ;;
    match r with
    | Done _ s' => epilogue e s'
    | Helped b s' => Ok (Helped b s')
    end.
Definition parse (e : env) (s : st) : res outcome := parse_with (parse_fuel (e_strs e)) e s.

(* the usual client sequence: a pre-parse pass, then the normal pass *)
Definition with_pre (e : env) (b : bool) : env :=
  mkenv (e_tbl e) (e_strs e) (e_argc e) b (e_rm e) (e_allow e) (e_ret e).
Definition parse_twice (e : env) (s : st) : res outcome :=
  r <- parse (with_pre e true) s ;;
  match r with
  | Done pre' s' => parse (with_pre e pre') s'
  | Helped b s' => Ok (Helped b s')
  end.

(* the state spifopt_parse is entered with: argv[k] points to string k, argv[argc] = NULL *)
Definition init_argv (argc : nat) : list (option nat) := map Some (seq 0 argc) ++ [None].
Definition init_st (argc : nat) (sto : store) (bad : Z) : st := mkst 1%nat (init_argv argc) sto bad O O.

(* ---------------------------------------------------------------------------------- *)
(* specification: command lines as lists of spellings, and their ideal reading          *)
(* ---------------------------------------------------------------------------------- *)
Inductive optref : Type := ByShort (x : byte) | ByLong (l : word).

Inductive spelling : Type :=
| ShortFlag (x : byte)                        (* -x            option without a value *)
| Bundle (xs : list byte)                     (* -xyz          several of them *)
| ShortAttached (x : byte) (v : word)         (* -xVALUE *)
| ShortSep (x : byte) (v : word)              (* -x VALUE *)
| LongFlag (l : word)                         (* --long *)
| LongEq (l : word) (v : word)                (* --long=VALUE *)
| LongSep (l : word) (v : word)               (* --long VALUE *)
| BoolWord (l : word) (w : word)              (* --long WORD   boolean option, WORD a boolean word *)
| ArgListRest (r : optref) (ws : list word)   (* -x w1 w2 ... / --long w1 w2 ...  to the end of the line *)
| Word (w : word).                            (* a non-option word *)

Definition ref_arg (r : optref) : word :=
  match r with ByShort x => [45; x] | ByLong l => 45 :: 45 :: l end.

Definition render_one (sp : spelling) : list word :=
  match sp with
  | ShortFlag x => [[45; x]]
  | Bundle xs => [45 :: xs]
  | ShortAttached x v => [45 :: x :: v]
  | ShortSep x v => [[45; x]; v]
  | LongFlag l => [45 :: 45 :: l]
  | LongEq l v => [45 :: 45 :: l ++ 61 :: v]
  | LongSep l v => [45 :: 45 :: l; v]
  | BoolWord l w => [45 :: 45 :: l; w]
  | ArgListRest r ws => ref_arg r :: ws
  | Word w => [w]
  end.
Definition render (sps : list spelling) : list word := concat (map render_one sps).

(* the kind of an option, in the order the parser tests the type bits *)
Inductive kind : Type := KBool | KStr | KInt | KList | KAbs | KNone.
Definition kind_of (o : opt) : kind :=
  if is_boolean o then KBool else if is_string o then KStr else if is_integer o then KInt
  else if is_arglist o then KList else if is_abstract o then KAbs else KNone.

(* the option a spelling names: the first entry with that letter / that name (case ignored) *)
Definition find_opt (tbl : list opt) (r : optref) : option opt :=
  match r with
  | ByShort x => find (fun o => o_short o =? x) tbl
  | ByLong l => find (fun o => streq_ci (o_long o) l) tbl
  end.

(* total update of a target through a value pointer *)
Definition put {A} (l : list A) (slot : option nat) (f : A -> A) : list A :=
  match slot with
  | Some k => match nth_error l k with Some v => upd l k (f v) | None => l end
  | None => l
  end.

(* the words of --list=VALUE (word splitting itself belongs to property C12) *)
Definition split_words (v : word) : list (option word) :=
  map (fun k => get_word (S k) v) (seq 0 (num_words v)).

Inductive optarg : Type := AFlag | AVal (v : word) | ARest (ws : list word).

(* what one occurrence of option o does to the targets on the pass [pre] *)
Definition assign (pre : bool) (o : opt) (a : optarg) (sto : store) : store :=
  if negb (Bool.eqb pre (is_preparse o)) then sto        (* option of the other pass: left alone *)
  else
    match kind_of o, a with
    | KBool, AFlag => set_sb sto (put (sb sto) (o_slot o) (or_mask o))
    | KBool, AVal v => set_sb sto (put (sb sto) (o_slot o) (if istrue v then or_mask o else clr_mask o))
    | KStr, AVal v => set_ss sto (put (ss sto) (o_slot o) (fun _ => Some v))
    | KInt, AVal v => set_si sto (put (si sto) (o_slot o) (fun _ => to_int (strtol0 v)))
    | KList, AVal v => set_sl sto (put (sl sto) (o_slot o) (fun _ => Some (split_words v)))
    | KList, ARest ws => set_sl sto (put (sl sto) (o_slot o) (fun _ => Some (map Some ws)))
    | KAbs, AVal v => match o_slot o with
                      | Some k => set_sa sto (sa sto ++ [(k, Some v)])
                      | None => sto
                      end
    | _, _ => sto
    end.

Definition assign_ref (pre : bool) (tbl : list opt) (r : optref) (a : optarg) (sto : store) : store :=
  match find_opt tbl r with Some o => assign pre o a sto | None => sto end.

(* ideal reading of one spelling: the targets and the non-option words seen so far *)
Definition ideal_one (pre : bool) (tbl : list opt) (acc : store * list word) (sp : spelling) : store * list word :=
  let '(sto, ws) := acc in
  match sp with
  | ShortFlag x => (assign_ref pre tbl (ByShort x) AFlag sto, ws)
  | Bundle xs => (fold_left (fun s x => assign_ref pre tbl (ByShort x) AFlag s) xs sto, ws)
  | ShortAttached x v | ShortSep x v => (assign_ref pre tbl (ByShort x) (AVal v) sto, ws)
  | LongFlag l => (assign_ref pre tbl (ByLong l) AFlag sto, ws)
  | LongEq l v | LongSep l v | BoolWord l v => (assign_ref pre tbl (ByLong l) (AVal v) sto, ws)
  | ArgListRest r rest => (assign_ref pre tbl r (ARest rest) sto, ws)
  | Word w => (sto, ws ++ [w])
  end.
(* last occurrence wins: the spellings are applied from left to right *)
Definition ideal (pre : bool) (tbl : list opt) (sps : list spelling) (sto : store) : store * list word :=
  fold_left (ideal_one pre tbl) sps (sto, []).

(* argv as the caller sees it afterwards: the strings up to the first NULL *)
Fixpoint argv_words (strs : list word) (a : list (option nat)) : list word :=
  match a with
  | Some sid :: t => nth sid strs [] :: argv_words strs t
  | _ => []
  end.

(* ---- the side conditions of the round trip, as decidable tests ---- *)
Definition nz_word (w : word) : bool := forallb (fun c => negb (c =? 0)) w.
Definition no_eq (w : word) : bool := forallb (fun c => negb (c =? 61)) w.
Definition letter_ok_b (x : byte) : bool := negb (x =? 0) && negb (x =? 45).
(* an option without a value: boolean, counter, or no type at all *)
Definition flag_kind (o : opt) : bool := negb (needs_value o) && negb (is_abstract o).
(* an option that takes VALUE: string or integer (value pointer checked by the parser), or abstract *)
Definition value_kind (o : opt) (v : word) : bool :=
  negb (is_boolean o) &&
  ((needs_value o && (is_string o || is_integer o) && negb (is_abstract o) && is_some (o_slot o))
   || (negb (needs_value o) && is_abstract o && is_some (o_slot o) && negb (hd 0 v =? 45))).
Definition list_kind (o : opt) : bool :=
  negb (is_boolean o) && negb (is_string o) && negb (is_integer o) && is_arglist o && negb (is_abstract o) &&
  is_some (o_slot o).
Definition bool_kind (o : opt) : bool := is_boolean o && negb (needs_value o) && negb (is_abstract o).

Definition opt_is (tbl : list opt) (r : optref) (p : opt -> bool) : bool :=
  match find_opt tbl r with Some o => p o | None => false end.
Definition name_ok (l : word) : bool := nz_word l && no_eq l.

(* [next]: the argument that follows the spelling on the command line, if any *)
Definition sp_ok (tbl : list opt) (sp : spelling) (next : option word) : bool :=
  match sp with
  | ShortFlag x => letter_ok_b x && opt_is tbl (ByShort x) flag_kind
  | Bundle xs => negb (match xs with [] => true | _ => false end) &&
                 forallb (fun x => letter_ok_b x && opt_is tbl (ByShort x) flag_kind) xs
  | ShortAttached x v => letter_ok_b x && nz_word v && negb (match v with [] => true | _ => false end) &&
                         opt_is tbl (ByShort x) (fun o => value_kind o v)
  | ShortSep x v => letter_ok_b x && nz_word v && opt_is tbl (ByShort x) (fun o => value_kind o v)
  | LongFlag l => name_ok l && opt_is tbl (ByLong l) flag_kind &&
                  (* a boolean word after --flag would be read as its value *)
                  (negb (opt_is tbl (ByLong l) is_boolean) ||
                   match next with Some w => negb (is_boolean_value w) | None => true end)
  | LongEq l v => name_ok l && nz_word v &&
                  (opt_is tbl (ByLong l) (fun o => value_kind o v) ||
                   (opt_is tbl (ByLong l) bool_kind && is_boolean_value v) ||
                   opt_is tbl (ByLong l) list_kind)
  | LongSep l v => name_ok l && nz_word v && opt_is tbl (ByLong l) (fun o => value_kind o v)
  | BoolWord l w => name_ok l && nz_word w && opt_is tbl (ByLong l) bool_kind && is_boolean_value w
  | ArgListRest r ws =>
    match r with ByShort x => letter_ok_b x | ByLong l => name_ok l end &&
    opt_is tbl r list_kind && negb (match ws with [] => true | _ => false end) && forallb nz_word ws &&
    match next with None => true | Some _ => false end          (* it takes the rest of the line *)
  | Word w => nz_word w && (negb (hd 0 w =? 45) || match w with [_] => true | _ => false end)
  end.

Fixpoint sps_ok (tbl : list opt) (sps : list spelling) : bool :=
  match sps with
  | [] => true
  | sp :: rest => sp_ok tbl sp (hd_error (render rest)) && sps_ok tbl rest
  end.

(* the table side of the round trip: long names are C strings without '=' *)
Definition names_ok (tbl : list opt) : bool := forallb (fun o => name_ok (o_long o)) tbl.
