
type nat =
| O
| S of nat

(** val fst : ('a1 * 'a2) -> 'a1 **)

let fst = function
| (x, _) -> x

(** val length : 'a1 list -> nat **)

let rec length = function
| [] -> O
| _ :: l' -> S (length l')

type comparison =
| Eq
| Lt
| Gt

(** val compOpp : comparison -> comparison **)

let compOpp = function
| Eq -> Eq
| Lt -> Gt
| Gt -> Lt

module Coq__1 = struct
 (** val add : nat -> nat -> nat **)
 let rec add n0 m =
   match n0 with
   | O -> m
   | S p -> S (add p m)
end
include Coq__1

(** val mul : nat -> nat -> nat **)

let rec mul n0 m =
  match n0 with
  | O -> O
  | S p -> add m (mul p m)

module Nat =
 struct
  (** val divmod : nat -> nat -> nat -> nat -> nat * nat **)

  let rec divmod x y q u =
    match x with
    | O -> (q, u)
    | S x' ->
      (match u with
       | O -> divmod x' y (S q) y
       | S u' -> divmod x' y q u')

  (** val div : nat -> nat -> nat **)

  let div x y = match y with
  | O -> y
  | S y' -> fst (divmod x y' O y')
 end

(** val nth : nat -> 'a1 list -> 'a1 -> 'a1 **)

let rec nth n0 l default =
  match n0 with
  | O -> (match l with
          | [] -> default
          | x :: _ -> x)
  | S m -> (match l with
            | [] -> default
            | _ :: t -> nth m t default)

(** val nth_error : 'a1 list -> nat -> 'a1 option **)

let rec nth_error l = function
| O -> (match l with
        | [] -> None
        | x :: _ -> Some x)
| S n1 -> (match l with
           | [] -> None
           | _ :: l0 -> nth_error l0 n1)

(** val map : ('a1 -> 'a2) -> 'a1 list -> 'a2 list **)

let rec map f = function
| [] -> []
| a :: t -> (f a) :: (map f t)

(** val fold_left : ('a1 -> 'a2 -> 'a1) -> 'a2 list -> 'a1 -> 'a1 **)

let rec fold_left f l a0 =
  match l with
  | [] -> a0
  | b :: t -> fold_left f t (f a0 b)

(** val fold_right : ('a2 -> 'a1 -> 'a1) -> 'a1 -> 'a2 list -> 'a1 **)

let rec fold_right f a0 = function
| [] -> a0
| b :: t -> f b (fold_right f a0 t)

(** val firstn : nat -> 'a1 list -> 'a1 list **)

let rec firstn n0 l =
  match n0 with
  | O -> []
  | S n1 -> (match l with
             | [] -> []
             | a :: l0 -> a :: (firstn n1 l0))

(** val skipn : nat -> 'a1 list -> 'a1 list **)

let rec skipn n0 l =
  match n0 with
  | O -> l
  | S n1 -> (match l with
             | [] -> []
             | _ :: l0 -> skipn n1 l0)

type positive =
| XI of positive
| XO of positive
| XH

type n =
| N0
| Npos of positive

type z =
| Z0
| Zpos of positive
| Zneg of positive

module Pos =
 struct
  (** val succ : positive -> positive **)

  let rec succ = function
  | XI p -> XO (succ p)
  | XO p -> XI p
  | XH -> XO XH

  (** val add : positive -> positive -> positive **)

  let rec add x y =
    match x with
    | XI p ->
      (match y with
       | XI q -> XO (add_carry p q)
       | XO q -> XI (add p q)
       | XH -> XO (succ p))
    | XO p ->
      (match y with
       | XI q -> XI (add p q)
       | XO q -> XO (add p q)
       | XH -> XI p)
    | XH -> (match y with
             | XI q -> XO (succ q)
             | XO q -> XI q
             | XH -> XO XH)

  (** val add_carry : positive -> positive -> positive **)

  and add_carry x y =
    match x with
    | XI p ->
      (match y with
       | XI q -> XI (add_carry p q)
       | XO q -> XO (add_carry p q)
       | XH -> XI (succ p))
    | XO p ->
      (match y with
       | XI q -> XO (add_carry p q)
       | XO q -> XI (add p q)
       | XH -> XO (succ p))
    | XH ->
      (match y with
       | XI q -> XI (succ q)
       | XO q -> XO (succ q)
       | XH -> XI XH)

  (** val pred_double : positive -> positive **)

  let rec pred_double = function
  | XI p -> XI (XO p)
  | XO p -> XI (pred_double p)
  | XH -> XH

  (** val pred_N : positive -> n **)

  let pred_N = function
  | XI p -> Npos (XO p)
  | XO p -> Npos (pred_double p)
  | XH -> N0

  (** val mul : positive -> positive -> positive **)

  let rec mul x y =
    match x with
    | XI p -> add y (XO (mul p y))
    | XO p -> XO (mul p y)
    | XH -> y

  (** val iter : ('a1 -> 'a1) -> 'a1 -> positive -> 'a1 **)

  let rec iter f x = function
  | XI n' -> f (iter f (iter f x n') n')
  | XO n' -> iter f (iter f x n') n'
  | XH -> f x

  (** val div2 : positive -> positive **)

  let div2 = function
  | XI p0 -> p0
  | XO p0 -> p0
  | XH -> XH

  (** val div2_up : positive -> positive **)

  let div2_up = function
  | XI p0 -> succ p0
  | XO p0 -> p0
  | XH -> XH

  (** val compare_cont : comparison -> positive -> positive -> comparison **)

  let rec compare_cont r x y =
    match x with
    | XI p ->
      (match y with
       | XI q -> compare_cont r p q
       | XO q -> compare_cont Gt p q
       | XH -> Gt)
    | XO p ->
      (match y with
       | XI q -> compare_cont Lt p q
       | XO q -> compare_cont r p q
       | XH -> Gt)
    | XH -> (match y with
             | XH -> r
             | _ -> Lt)

  (** val compare : positive -> positive -> comparison **)

  let compare =
    compare_cont Eq

  (** val eqb : positive -> positive -> bool **)

  let rec eqb p q =
    match p with
    | XI p0 -> (match q with
                | XI q0 -> eqb p0 q0
                | _ -> false)
    | XO p0 -> (match q with
                | XO q0 -> eqb p0 q0
                | _ -> false)
    | XH -> (match q with
             | XH -> true
             | _ -> false)

  (** val coq_Nsucc_double : n -> n **)

  let coq_Nsucc_double = function
  | N0 -> Npos XH
  | Npos p -> Npos (XI p)

  (** val coq_Ndouble : n -> n **)

  let coq_Ndouble = function
  | N0 -> N0
  | Npos p -> Npos (XO p)

  (** val coq_lor : positive -> positive -> positive **)

  let rec coq_lor p q =
    match p with
    | XI p0 ->
      (match q with
       | XI q0 -> XI (coq_lor p0 q0)
       | XO q0 -> XI (coq_lor p0 q0)
       | XH -> p)
    | XO p0 ->
      (match q with
       | XI q0 -> XI (coq_lor p0 q0)
       | XO q0 -> XO (coq_lor p0 q0)
       | XH -> XI p0)
    | XH -> (match q with
             | XO q0 -> XI q0
             | _ -> q)

  (** val coq_land : positive -> positive -> n **)

  let rec coq_land p q =
    match p with
    | XI p0 ->
      (match q with
       | XI q0 -> coq_Nsucc_double (coq_land p0 q0)
       | XO q0 -> coq_Ndouble (coq_land p0 q0)
       | XH -> Npos XH)
    | XO p0 ->
      (match q with
       | XI q0 -> coq_Ndouble (coq_land p0 q0)
       | XO q0 -> coq_Ndouble (coq_land p0 q0)
       | XH -> N0)
    | XH -> (match q with
             | XO _ -> N0
             | _ -> Npos XH)

  (** val ldiff : positive -> positive -> n **)

  let rec ldiff p q =
    match p with
    | XI p0 ->
      (match q with
       | XI q0 -> coq_Ndouble (ldiff p0 q0)
       | XO q0 -> coq_Nsucc_double (ldiff p0 q0)
       | XH -> Npos (XO p0))
    | XO p0 ->
      (match q with
       | XI q0 -> coq_Ndouble (ldiff p0 q0)
       | XO q0 -> coq_Ndouble (ldiff p0 q0)
       | XH -> Npos p)
    | XH -> (match q with
             | XO _ -> Npos XH
             | _ -> N0)

  (** val coq_lxor : positive -> positive -> n **)

  let rec coq_lxor p q =
    match p with
    | XI p0 ->
      (match q with
       | XI q0 -> coq_Ndouble (coq_lxor p0 q0)
       | XO q0 -> coq_Nsucc_double (coq_lxor p0 q0)
       | XH -> Npos (XO p0))
    | XO p0 ->
      (match q with
       | XI q0 -> coq_Nsucc_double (coq_lxor p0 q0)
       | XO q0 -> coq_Ndouble (coq_lxor p0 q0)
       | XH -> Npos (XI p0))
    | XH ->
      (match q with
       | XI q0 -> Npos (XO q0)
       | XO q0 -> Npos (XI q0)
       | XH -> N0)

  (** val iter_op : ('a1 -> 'a1 -> 'a1) -> positive -> 'a1 -> 'a1 **)

  let rec iter_op op p a =
    match p with
    | XI p0 -> op a (iter_op op p0 (op a a))
    | XO p0 -> iter_op op p0 (op a a)
    | XH -> a

  (** val to_nat : positive -> nat **)

  let to_nat x =
    iter_op Coq__1.add x (S O)

  (** val of_succ_nat : nat -> positive **)

  let rec of_succ_nat = function
  | O -> XH
  | S x -> succ (of_succ_nat x)
 end

module N =
 struct
  (** val succ_pos : n -> positive **)

  let succ_pos = function
  | N0 -> XH
  | Npos p -> Pos.succ p

  (** val coq_lor : n -> n -> n **)

  let coq_lor n0 m =
    match n0 with
    | N0 -> m
    | Npos p -> (match m with
                 | N0 -> n0
                 | Npos q -> Npos (Pos.coq_lor p q))

  (** val ldiff : n -> n -> n **)

  let ldiff n0 m =
    match n0 with
    | N0 -> N0
    | Npos p -> (match m with
                 | N0 -> n0
                 | Npos q -> Pos.ldiff p q)

  (** val coq_lxor : n -> n -> n **)

  let coq_lxor n0 m =
    match n0 with
    | N0 -> m
    | Npos p -> (match m with
                 | N0 -> n0
                 | Npos q -> Pos.coq_lxor p q)
 end

module Z =
 struct
  (** val double : z -> z **)

  let double = function
  | Z0 -> Z0
  | Zpos p -> Zpos (XO p)
  | Zneg p -> Zneg (XO p)

  (** val succ_double : z -> z **)

  let succ_double = function
  | Z0 -> Zpos XH
  | Zpos p -> Zpos (XI p)
  | Zneg p -> Zneg (Pos.pred_double p)

  (** val pred_double : z -> z **)

  let pred_double = function
  | Z0 -> Zneg XH
  | Zpos p -> Zpos (Pos.pred_double p)
  | Zneg p -> Zneg (XI p)

  (** val pos_sub : positive -> positive -> z **)

  let rec pos_sub x y =
    match x with
    | XI p ->
      (match y with
       | XI q -> double (pos_sub p q)
       | XO q -> succ_double (pos_sub p q)
       | XH -> Zpos (XO p))
    | XO p ->
      (match y with
       | XI q -> pred_double (pos_sub p q)
       | XO q -> double (pos_sub p q)
       | XH -> Zpos (Pos.pred_double p))
    | XH ->
      (match y with
       | XI q -> Zneg (XO q)
       | XO q -> Zneg (Pos.pred_double q)
       | XH -> Z0)

  (** val add : z -> z -> z **)

  let add x y =
    match x with
    | Z0 -> y
    | Zpos x' ->
      (match y with
       | Z0 -> x
       | Zpos y' -> Zpos (Pos.add x' y')
       | Zneg y' -> pos_sub x' y')
    | Zneg x' ->
      (match y with
       | Z0 -> x
       | Zpos y' -> pos_sub y' x'
       | Zneg y' -> Zneg (Pos.add x' y'))

  (** val opp : z -> z **)

  let opp = function
  | Z0 -> Z0
  | Zpos x0 -> Zneg x0
  | Zneg x0 -> Zpos x0

  (** val sub : z -> z -> z **)

  let sub m n0 =
    add m (opp n0)

  (** val mul : z -> z -> z **)

  let mul x y =
    match x with
    | Z0 -> Z0
    | Zpos x' ->
      (match y with
       | Z0 -> Z0
       | Zpos y' -> Zpos (Pos.mul x' y')
       | Zneg y' -> Zneg (Pos.mul x' y'))
    | Zneg x' ->
      (match y with
       | Z0 -> Z0
       | Zpos y' -> Zneg (Pos.mul x' y')
       | Zneg y' -> Zpos (Pos.mul x' y'))

  (** val pow_pos : z -> positive -> z **)

  let pow_pos z0 =
    Pos.iter (mul z0) (Zpos XH)

  (** val pow : z -> z -> z **)

  let pow x = function
  | Z0 -> Zpos XH
  | Zpos p -> pow_pos x p
  | Zneg _ -> Z0

  (** val compare : z -> z -> comparison **)

  let compare x y =
    match x with
    | Z0 -> (match y with
             | Z0 -> Eq
             | Zpos _ -> Lt
             | Zneg _ -> Gt)
    | Zpos x' -> (match y with
                  | Zpos y' -> Pos.compare x' y'
                  | _ -> Gt)
    | Zneg x' ->
      (match y with
       | Zneg y' -> compOpp (Pos.compare x' y')
       | _ -> Lt)

  (** val leb : z -> z -> bool **)

  let leb x y =
    match compare x y with
    | Gt -> false
    | _ -> true

  (** val ltb : z -> z -> bool **)

  let ltb x y =
    match compare x y with
    | Lt -> true
    | _ -> false

  (** val geb : z -> z -> bool **)

  let geb x y =
    match compare x y with
    | Lt -> false
    | _ -> true

  (** val eqb : z -> z -> bool **)

  let eqb x y =
    match x with
    | Z0 -> (match y with
             | Z0 -> true
             | _ -> false)
    | Zpos p -> (match y with
                 | Zpos q -> Pos.eqb p q
                 | _ -> false)
    | Zneg p -> (match y with
                 | Zneg q -> Pos.eqb p q
                 | _ -> false)

  (** val to_nat : z -> nat **)

  let to_nat = function
  | Zpos p -> Pos.to_nat p
  | _ -> O

  (** val of_nat : nat -> z **)

  let of_nat = function
  | O -> Z0
  | S n1 -> Zpos (Pos.of_succ_nat n1)

  (** val of_N : n -> z **)

  let of_N = function
  | N0 -> Z0
  | Npos p -> Zpos p

  (** val pos_div_eucl : positive -> z -> z * z **)

  let rec pos_div_eucl a b =
    match a with
    | XI a' ->
      let (q, r) = pos_div_eucl a' b in
      let r' = add (mul (Zpos (XO XH)) r) (Zpos XH) in
      if ltb r' b
      then ((mul (Zpos (XO XH)) q), r')
      else ((add (mul (Zpos (XO XH)) q) (Zpos XH)), (sub r' b))
    | XO a' ->
      let (q, r) = pos_div_eucl a' b in
      let r' = mul (Zpos (XO XH)) r in
      if ltb r' b
      then ((mul (Zpos (XO XH)) q), r')
      else ((add (mul (Zpos (XO XH)) q) (Zpos XH)), (sub r' b))
    | XH -> if leb (Zpos (XO XH)) b then (Z0, (Zpos XH)) else ((Zpos XH), Z0)

  (** val div_eucl : z -> z -> z * z **)

  let div_eucl a b =
    match a with
    | Z0 -> (Z0, Z0)
    | Zpos a' ->
      (match b with
       | Z0 -> (Z0, a)
       | Zpos _ -> pos_div_eucl a' b
       | Zneg b' ->
         let (q, r) = pos_div_eucl a' (Zpos b') in
         (match r with
          | Z0 -> ((opp q), Z0)
          | _ -> ((opp (add q (Zpos XH))), (add b r))))
    | Zneg a' ->
      (match b with
       | Z0 -> (Z0, a)
       | Zpos _ ->
         let (q, r) = pos_div_eucl a' b in
         (match r with
          | Z0 -> ((opp q), Z0)
          | _ -> ((opp (add q (Zpos XH))), (sub b r)))
       | Zneg b' -> let (q, r) = pos_div_eucl a' (Zpos b') in (q, (opp r)))

  (** val div : z -> z -> z **)

  let div a b =
    let (q, _) = div_eucl a b in q

  (** val modulo : z -> z -> z **)

  let modulo a b =
    let (_, r) = div_eucl a b in r

  (** val div2 : z -> z **)

  let div2 = function
  | Z0 -> Z0
  | Zpos p -> (match p with
               | XH -> Z0
               | _ -> Zpos (Pos.div2 p))
  | Zneg p -> Zneg (Pos.div2_up p)

  (** val shiftl : z -> z -> z **)

  let shiftl a = function
  | Z0 -> a
  | Zpos p -> Pos.iter (mul (Zpos (XO XH))) a p
  | Zneg p -> Pos.iter div2 a p

  (** val shiftr : z -> z -> z **)

  let shiftr a n0 =
    shiftl a (opp n0)

  (** val coq_land : z -> z -> z **)

  let coq_land a b =
    match a with
    | Z0 -> Z0
    | Zpos a0 ->
      (match b with
       | Z0 -> Z0
       | Zpos b0 -> of_N (Pos.coq_land a0 b0)
       | Zneg b0 -> of_N (N.ldiff (Npos a0) (Pos.pred_N b0)))
    | Zneg a0 ->
      (match b with
       | Z0 -> Z0
       | Zpos b0 -> of_N (N.ldiff (Npos b0) (Pos.pred_N a0))
       | Zneg b0 ->
         Zneg (N.succ_pos (N.coq_lor (Pos.pred_N a0) (Pos.pred_N b0))))

  (** val coq_lxor : z -> z -> z **)

  let coq_lxor a b =
    match a with
    | Z0 -> b
    | Zpos a0 ->
      (match b with
       | Z0 -> a
       | Zpos b0 -> of_N (Pos.coq_lxor a0 b0)
       | Zneg b0 -> Zneg (N.succ_pos (N.coq_lxor (Npos a0) (Pos.pred_N b0))))
    | Zneg a0 ->
      (match b with
       | Z0 -> a
       | Zpos b0 -> Zneg (N.succ_pos (N.coq_lxor (Pos.pred_N a0) (Npos b0)))
       | Zneg b0 -> of_N (N.coq_lxor (Pos.pred_N a0) (Pos.pred_N b0)))
 end

type fault =
| OOB_read
| OOB_write
| Uninit_read
| Null_deref
| Use_after_free
| Bad_free
| Out_of_fuel
| Int_overflow
| Abort

type 'a res =
| Ok of 'a
| Fault of fault

(** val bind : 'a1 res -> ('a1 -> 'a2 res) -> 'a2 res **)

let bind r k =
  match r with
  | Ok a -> k a
  | Fault f -> Fault f

(** val num_anchor : ((nat * positive) * n) * z **)

let num_anchor =
  (((O, XH), N0), Z0)

type cell = z option

type buf = cell list

(** val rdn : buf -> nat -> z res **)

let rdn b i =
  match nth_error b i with
  | Some c -> (match c with
               | Some v -> Ok v
               | None -> Fault Uninit_read)
  | None -> Fault OOB_read

(** val rd : buf -> z -> z res **)

let rd b i =
  if Z.ltb i Z0 then Fault OOB_read else rdn b (Z.to_nat i)

type reg =
| RA
| RB
| RC

(** val jenkins_mix_steps :
    (((((reg * reg) * reg) * reg) * bool) * z) list **)

let jenkins_mix_steps =
  (((((RA, RB), RC), RC), false), (Zpos (XI (XO (XI XH))))) :: ((((((RB, RC),
    RA), RA), true), (Zpos (XO (XO (XO XH))))) :: ((((((RC, RA), RB), RB),
    false), (Zpos (XI (XO (XI XH))))) :: ((((((RA, RB), RC), RC), false),
    (Zpos (XO (XO (XI XH))))) :: ((((((RB, RC), RA), RA), true), (Zpos (XO
    (XO (XO (XO XH)))))) :: ((((((RC, RA), RB), RB), false), (Zpos (XI (XO
    XH)))) :: ((((((RA, RB), RC), RC), false), (Zpos (XI XH))) :: ((((((RB,
    RC), RA), RA), true), (Zpos (XO (XI (XO XH))))) :: ((((((RC, RA), RB),
    RB), false), (Zpos (XI (XI (XI XH))))) :: []))))))))

(** val builtin_random_seed : z **)

let builtin_random_seed =
  Zpos (XI (XO (XI (XI (XO (XO (XI (XO (XO (XI (XI (XO (XI (XI (XO (XI (XI
    (XO (XO (XO (XO (XI (XO (XO (XI (XI (XI (XO (XI (XI (XI
    XH)))))))))))))))))))))))))))))))

(** val fnv_init : z **)

let fnv_init =
  Zpos (XI (XO (XI (XO (XO (XO (XI (XI (XI (XO (XI (XI (XI (XO (XO (XI (XO
    (XO (XI (XI (XI (XO (XO (XO (XI (XO (XO (XO (XO (XO (XO
    XH)))))))))))))))))))))))))))))))

(** val fnv_shifts : z list **)

let fnv_shifts =
  (Zpos XH) :: ((Zpos (XO (XO XH))) :: ((Zpos (XI (XI XH))) :: ((Zpos (XO (XO
    (XO XH)))) :: ((Zpos (XO (XO (XO (XI XH))))) :: []))))

(** val rotating_shifts : ((z * z) * z) * z **)

let rotating_shifts =
  ((((Zpos (XO (XO XH))), (Zpos (XO (XO (XI (XI XH)))))), (Zpos (XO (XI (XO
    XH))))), (Zpos (XO (XO (XI (XO XH))))))

(** val oaat_shifts : (((z * z) * z) * z) * z **)

let oaat_shifts =
  (((((Zpos (XO (XI (XO XH)))), (Zpos (XO (XI XH)))), (Zpos (XI XH))), (Zpos
    (XI (XI (XO XH))))), (Zpos (XI (XI (XI XH)))))

(** val jenkins_test : z **)

let jenkins_test =
  Zpos (XO (XO (XI XH)))

(** val jenkins_loads : (reg * (z * z) list) list **)

let jenkins_loads =
  (RA, ((Z0, Z0) :: (((Zpos XH), (Zpos (XO (XO (XO XH))))) :: (((Zpos (XO
    XH)), (Zpos (XO (XO (XO (XO XH)))))) :: (((Zpos (XI XH)), (Zpos (XO (XO
    (XO (XI XH)))))) :: []))))) :: ((RB, (((Zpos (XO (XO XH))),
    Z0) :: (((Zpos (XI (XO XH))), (Zpos (XO (XO (XO XH))))) :: (((Zpos (XO
    (XI XH))), (Zpos (XO (XO (XO (XO XH)))))) :: (((Zpos (XI (XI XH))), (Zpos
    (XO (XO (XO (XI XH)))))) :: []))))) :: ((RC, (((Zpos (XO (XO (XO XH)))),
    Z0) :: (((Zpos (XI (XO (XO XH)))), (Zpos (XO (XO (XO XH))))) :: (((Zpos
    (XO (XI (XO XH)))), (Zpos (XO (XO (XO (XO XH)))))) :: (((Zpos (XI (XI (XO
    XH)))), (Zpos (XO (XO (XO (XI XH)))))) :: []))))) :: []))

(** val jenkins_advance : z **)

let jenkins_advance =
  Zpos (XO (XO (XI XH)))

(** val jenkins_dec : z **)

let jenkins_dec =
  Zpos (XO (XO (XI XH)))

(** val jenkins_tail : (((z * reg) * z) * z) list **)

let jenkins_tail =
  ((((Zpos (XI (XI (XO XH)))), RC), (Zpos (XO (XI (XO XH))))), (Zpos (XO (XO
    (XO (XI XH)))))) :: (((((Zpos (XO (XI (XO XH)))), RC), (Zpos (XI (XO (XO
    XH))))), (Zpos (XO (XO (XO (XO XH)))))) :: (((((Zpos (XI (XO (XO XH)))),
    RC), (Zpos (XO (XO (XO XH))))), (Zpos (XO (XO (XO XH))))) :: (((((Zpos
    (XO (XO (XO XH)))), RB), (Zpos (XI (XI XH)))), (Zpos (XO (XO (XO (XI
    XH)))))) :: (((((Zpos (XI (XI XH))), RB), (Zpos (XO (XI XH)))), (Zpos (XO
    (XO (XO (XO XH)))))) :: (((((Zpos (XO (XI XH))), RB), (Zpos (XI (XO
    XH)))), (Zpos (XO (XO (XO XH))))) :: (((((Zpos (XI (XO XH))), RB), (Zpos
    (XO (XO XH)))), Z0) :: (((((Zpos (XO (XO XH))), RA), (Zpos (XI XH))),
    (Zpos (XO (XO (XO (XI XH)))))) :: (((((Zpos (XI XH)), RA), (Zpos (XO
    XH))), (Zpos (XO (XO (XO (XO XH)))))) :: (((((Zpos (XO XH)), RA), (Zpos
    XH)), (Zpos (XO (XO (XO XH))))) :: (((((Zpos XH), RA), Z0),
    Z0) :: []))))))))))

(** val jenkinsLE_align_mask : z **)

let jenkinsLE_align_mask =
  Zpos (XI XH)

(** val jenkinsLE_test : z **)

let jenkinsLE_test =
  Zpos (XO (XO (XI XH)))

(** val jenkinsLE_loads : (reg * (z * z) list) list **)

let jenkinsLE_loads =
  (RA, ((Z0, Z0) :: (((Zpos XH), (Zpos (XO (XO (XO XH))))) :: (((Zpos (XO
    XH)), (Zpos (XO (XO (XO (XO XH)))))) :: (((Zpos (XI XH)), (Zpos (XO (XO
    (XO (XI XH)))))) :: []))))) :: ((RB, (((Zpos (XO (XO XH))),
    Z0) :: (((Zpos (XI (XO XH))), (Zpos (XO (XO (XO XH))))) :: (((Zpos (XO
    (XI XH))), (Zpos (XO (XO (XO (XO XH)))))) :: (((Zpos (XI (XI XH))), (Zpos
    (XO (XO (XO (XI XH)))))) :: []))))) :: ((RC, (((Zpos (XO (XO (XO XH)))),
    Z0) :: (((Zpos (XI (XO (XO XH)))), (Zpos (XO (XO (XO XH))))) :: (((Zpos
    (XO (XI (XO XH)))), (Zpos (XO (XO (XO (XO XH)))))) :: (((Zpos (XI (XI (XO
    XH)))), (Zpos (XO (XO (XO (XI XH)))))) :: []))))) :: []))

(** val jenkinsLE_advance : z **)

let jenkinsLE_advance =
  Zpos (XO (XO (XI XH)))

(** val jenkinsLE_dec : z **)

let jenkinsLE_dec =
  Zpos (XO (XO (XI XH)))

(** val jenkinsLE_aligned_test : z **)

let jenkinsLE_aligned_test =
  Zpos (XO (XO (XI XH)))

(** val jenkinsLE_aligned_loads : (reg * z) list **)

let jenkinsLE_aligned_loads =
  (RA, Z0) :: ((RB, (Zpos (XO (XO XH)))) :: ((RC, (Zpos (XO (XO (XO
    XH))))) :: []))

(** val jenkinsLE_aligned_advance : z **)

let jenkinsLE_aligned_advance =
  Zpos (XO (XO (XI XH)))

(** val jenkinsLE_aligned_dec : z **)

let jenkinsLE_aligned_dec =
  Zpos (XO (XO (XI XH)))

(** val jenkinsLE_tail : (((z * reg) * z) * z) list **)

let jenkinsLE_tail =
  ((((Zpos (XI (XI (XO XH)))), RC), (Zpos (XO (XI (XO XH))))), (Zpos (XO (XO
    (XO (XI XH)))))) :: (((((Zpos (XO (XI (XO XH)))), RC), (Zpos (XI (XO (XO
    XH))))), (Zpos (XO (XO (XO (XO XH)))))) :: (((((Zpos (XI (XO (XO XH)))),
    RC), (Zpos (XO (XO (XO XH))))), (Zpos (XO (XO (XO XH))))) :: (((((Zpos
    (XO (XO (XO XH)))), RB), (Zpos (XI (XI XH)))), (Zpos (XO (XO (XO (XI
    XH)))))) :: (((((Zpos (XI (XI XH))), RB), (Zpos (XO (XI XH)))), (Zpos (XO
    (XO (XO (XO XH)))))) :: (((((Zpos (XO (XI XH))), RB), (Zpos (XI (XO
    XH)))), (Zpos (XO (XO (XO XH))))) :: (((((Zpos (XI (XO XH))), RB), (Zpos
    (XO (XO XH)))), Z0) :: (((((Zpos (XO (XO XH))), RA), (Zpos (XI XH))),
    (Zpos (XO (XO (XO (XI XH)))))) :: (((((Zpos (XI XH)), RA), (Zpos (XO
    XH))), (Zpos (XO (XO (XO (XO XH)))))) :: (((((Zpos (XO XH)), RA), (Zpos
    XH)), (Zpos (XO (XO (XO XH))))) :: (((((Zpos XH), RA), Z0),
    Z0) :: []))))))))))

(** val jenkins32_test : z **)

let jenkins32_test =
  Zpos (XI XH)

(** val jenkins32_loads : (reg * z) list **)

let jenkins32_loads =
  (RA, Z0) :: ((RB, (Zpos XH)) :: ((RC, (Zpos (XO XH))) :: []))

(** val jenkins32_advance : z **)

let jenkins32_advance =
  Zpos (XI XH)

(** val jenkins32_dec : z **)

let jenkins32_dec =
  Zpos (XI XH)

(** val jenkins32_tail : ((z * reg) * z) list **)

let jenkins32_tail =
  (((Zpos (XO XH)), RB), (Zpos XH)) :: ((((Zpos XH), RA), Z0) :: [])

(** val wrap32 : z -> z **)

let wrap32 x =
  Z.coq_land x (Zpos (XI (XI (XI (XI (XI (XI (XI (XI (XI (XI (XI (XI (XI (XI
    (XI (XI (XI (XI (XI (XI (XI (XI (XI (XI (XI (XI (XI (XI (XI (XI (XI
    XH))))))))))))))))))))))))))))))))

(** val add32 : z -> z -> z **)

let add32 a b =
  wrap32 (Z.add a b)

(** val sub32 : z -> z -> z **)

let sub32 a b =
  wrap32 (Z.sub a b)

(** val shl32 : z -> z -> z **)

let shl32 a n0 =
  wrap32 (Z.shiftl a n0)

(** val shr32 : z -> z -> z **)

let shr32 =
  Z.shiftr

(** val xor32 : z -> z -> z **)

let xor32 =
  Z.coq_lxor

type regs = (z * z) * z

(** val getr : reg -> regs -> z **)

let getr r = function
| (p, c) -> let (a, b) = p in (match r with
                               | RA -> a
                               | RB -> b
                               | RC -> c)

(** val setr : reg -> z -> regs -> regs **)

let setr r v = function
| (p, c) ->
  let (a, b) = p in
  (match r with
   | RA -> ((v, b), c)
   | RB -> ((a, v), c)
   | RC -> ((a, b), v))

(** val addr : reg -> z -> regs -> regs **)

let addr r v s =
  setr r (add32 (getr r s) v) s

(** val mix_step :
    (((((reg * reg) * reg) * reg) * bool) * z) -> regs -> regs **)

let mix_step st s =
  let (p, n0) = st in
  let (p0, shl) = p in
  let (p1, x) = p0 in
  let (p2, m2) = p1 in
  let (t, m1) = p2 in
  let s0 = setr t (sub32 (getr t s) (getr m1 s)) s in
  let s1 = setr t (sub32 (getr t s0) (getr m2 s0)) s0 in
  setr t
    (xor32 (getr t s1)
      (if shl then shl32 (getr x s1) n0 else shr32 (getr x s1) n0)) s1

(** val mix : regs -> regs **)

let mix s =
  fold_left (fun s0 st -> mix_step st s0) jenkins_mix_steps s

(** val lane_sum : buf -> (z * z) list -> z -> z res **)

let rec lane_sum key lanes acc =
  match lanes with
  | [] -> Ok acc
  | p :: rest ->
    let (i, sh) = p in
    bind (rd key i) (fun v -> lane_sum key rest (add32 acc (shl32 v sh)))

(** val load_block : buf -> (reg * (z * z) list) list -> regs -> regs res **)

let rec load_block key loads s =
  match loads with
  | [] -> Ok s
  | p :: rest ->
    let (r, lanes) = p in
    bind (lane_sum key lanes Z0) (fun v -> load_block key rest (addr r v s))

(** val byte_loop :
    z -> (reg * (z * z) list) list -> z -> z -> nat -> buf -> z -> regs ->
    ((buf * z) * regs) res **)

let rec byte_loop test loads adv dec fuel key len s =
  match fuel with
  | O -> Fault Out_of_fuel
  | S f ->
    if Z.geb len test
    then bind (load_block key loads s) (fun s1 ->
           byte_loop test loads adv dec f (skipn (Z.to_nat adv) key)
             (sub32 len dec) (mix s1))
    else Ok ((key, len), s)

(** val rd_word : buf -> z -> z res **)

let rd_word key off =
  bind (rd key off) (fun b0 ->
    bind (rd key (Z.add off (Zpos XH))) (fun b1 ->
      bind (rd key (Z.add off (Zpos (XO XH)))) (fun b2 ->
        bind (rd key (Z.add off (Zpos (XI XH)))) (fun b3 -> Ok
          (Z.add
            (Z.add
              (Z.add b0
                (Z.mul b1 (Zpos (XO (XO (XO (XO (XO (XO (XO (XO XH)))))))))))
              (Z.mul b2 (Zpos (XO (XO (XO (XO (XO (XO (XO (XO (XO (XO (XO (XO
                (XO (XO (XO (XO XH)))))))))))))))))))
            (Z.mul b3 (Zpos (XO (XO (XO (XO (XO (XO (XO (XO (XO (XO (XO (XO
              (XO (XO (XO (XO (XO (XO (XO (XO (XO (XO (XO (XO
              XH)))))))))))))))))))))))))))))))

(** val load_words : buf -> z -> (reg * z) list -> regs -> regs res **)

let rec load_words key scale loads s =
  match loads with
  | [] -> Ok s
  | p :: rest ->
    let (r, o) = p in
    bind (rd_word key (Z.mul scale o)) (fun v ->
      load_words key scale rest (addr r v s))

(** val word_loop :
    z -> z -> (reg * z) list -> z -> z -> nat -> buf -> z -> regs ->
    ((buf * z) * regs) res **)

let rec word_loop test scale loads adv dec fuel key len s =
  match fuel with
  | O -> Fault Out_of_fuel
  | S f ->
    if Z.geb len test
    then bind (load_words key scale loads s) (fun s1 ->
           word_loop test scale loads adv dec f
             (skipn (Z.to_nat (Z.mul scale adv)) key) (sub32 len dec) 
             (mix s1))
    else Ok ((key, len), s)

(** val switch_from : ('a1 -> z) -> z -> 'a1 list -> 'a1 list **)

let rec switch_from label len = function
| [] -> []
| e :: rest ->
  if Z.eqb (label e) len then e :: rest else switch_from label len rest

(** val run_tail : buf -> (((z * reg) * z) * z) list -> regs -> regs res **)

let rec run_tail key ents s =
  match ents with
  | [] -> Ok s
  | p :: rest ->
    let (p0, sh) = p in
    let (p1, i) = p0 in
    let (_, r) = p1 in
    bind (rd key i) (fun v -> run_tail key rest (addr r (shl32 v sh) s))

(** val run_tail_words : buf -> ((z * reg) * z) list -> regs -> regs res **)

let rec run_tail_words key ents s =
  match ents with
  | [] -> Ok s
  | p :: rest ->
    let (p0, i) = p in
    let (_, r) = p0 in
    bind (rd_word key (Z.mul (Zpos (XO (XO XH))) i)) (fun v ->
      run_tail_words key rest (addr r v s))

(** val fuel_for : z -> nat **)

let fuel_for length0 =
  S (Z.to_nat length0)

(** val jenkins : buf -> z -> z -> z res **)

let jenkins key length0 seed =
  let s0 = ((builtin_random_seed, builtin_random_seed), seed) in
  bind
    (byte_loop jenkins_test jenkins_loads jenkins_advance jenkins_dec
      (fuel_for length0) key length0 s0) (fun x ->
    let (p, s1) = x in
    let (key1, len1) = p in
    let s2 = addr RC length0 s1 in
    bind
      (run_tail key1
        (switch_from (fun e ->
          let (y, _) = e in let (y1, _) = y in let (n0, _) = y1 in n0) len1
          jenkins_tail) s2) (fun s3 -> Ok (getr RC (mix s3))))

(** val jenkins32 : buf -> z -> z -> z res **)

let jenkins32 key length0 seed =
  let s0 = ((builtin_random_seed, builtin_random_seed), seed) in
  bind
    (word_loop jenkins32_test (Zpos (XO (XO XH))) jenkins32_loads
      jenkins32_advance jenkins32_dec (fuel_for length0) key length0 s0)
    (fun x ->
    let (p, s1) = x in
    let (key1, len1) = p in
    let s2 = addr RC length0 s1 in
    bind
      (run_tail_words key1
        (switch_from (fun e -> let (y, _) = e in let (n0, _) = y in n0) len1
          jenkins32_tail) s2) (fun s3 -> Ok (getr RC (mix s3))))

(** val jenkinsLE : z -> buf -> z -> z -> z res **)

let jenkinsLE addr_ key length0 seed =
  let s0 = ((builtin_random_seed, builtin_random_seed), seed) in
  bind
    (if Z.eqb (Z.coq_land (wrap32 addr_) jenkinsLE_align_mask) Z0
     then word_loop jenkinsLE_aligned_test (Zpos XH) jenkinsLE_aligned_loads
            jenkinsLE_aligned_advance jenkinsLE_aligned_dec
            (fuel_for length0) key length0 s0
     else byte_loop jenkinsLE_test jenkinsLE_loads jenkinsLE_advance
            jenkinsLE_dec (fuel_for length0) key length0 s0) (fun x ->
    let (p, s1) = x in
    let (key1, len1) = p in
    let s2 = addr RC length0 s1 in
    bind
      (run_tail key1
        (switch_from (fun e ->
          let (y, _) = e in let (y1, _) = y in let (n0, _) = y1 in n0) len1
          jenkinsLE_tail) s2) (fun s3 -> Ok (getr RC (mix s3))))

(** val rot_step : z -> z -> z **)

let rot_step hash b =
  let (p, _) = rotating_shifts in
  let (p0, _) = p in
  let (s1, s2) = p0 in xor32 (xor32 (shl32 hash s1) (shr32 hash s2)) b

(** val rot_final : z -> z **)

let rot_final hash =
  let (p, s4) = rotating_shifts in
  let (_, s3) = p in xor32 (xor32 hash (shr32 hash s3)) (shr32 hash s4)

(** val index_loop : (z -> z -> z) -> nat -> buf -> z -> z -> z res **)

let rec index_loop step n0 key i hash =
  match n0 with
  | O -> Ok hash
  | S n' ->
    bind (rd key i) (fun b ->
      index_loop step n' key (Z.add i (Zpos XH)) (step hash b))

(** val rotating : buf -> z -> z -> z res **)

let rotating key len seed =
  let seed0 = if Z.eqb seed Z0 then builtin_random_seed else seed in
  bind (index_loop rot_step (Z.to_nat len) key Z0 seed0) (fun h -> Ok
    (rot_final h))

(** val oaat_step : z -> z -> z **)

let oaat_step hash b =
  let (p, _) = oaat_shifts in
  let (p0, _) = p in
  let (p1, _) = p0 in
  let (s1, s2) = p1 in
  let hash0 = add32 hash b in
  let hash1 = add32 hash0 (shl32 hash0 s1) in xor32 hash1 (shr32 hash1 s2)

(** val oaat_final : z -> z **)

let oaat_final hash =
  let (p, s5) = oaat_shifts in
  let (p0, s4) = p in
  let (_, s3) = p0 in
  let hash0 = add32 hash (shl32 hash s3) in
  let hash1 = xor32 hash0 (shr32 hash0 s4) in add32 hash1 (shl32 hash1 s5)

(** val one_at_a_time : buf -> z -> z -> z res **)

let one_at_a_time key len seed =
  let seed0 = if Z.eqb seed Z0 then builtin_random_seed else seed in
  bind (index_loop oaat_step (Z.to_nat len) key Z0 seed0) (fun h -> Ok
    (oaat_final h))

(** val fnv_mul : z -> z **)

let fnv_mul hash =
  add32 hash (fold_left (fun acc k -> add32 acc (shl32 hash k)) fnv_shifts Z0)

(** val fnv_step : z -> z -> z **)

let fnv_step hash b =
  fnv_mul (xor32 hash b)

(** val ptr_loop : (z -> z -> z) -> nat -> buf -> z -> z res **)

let rec ptr_loop step n0 key hash =
  match n0 with
  | O -> Ok hash
  | S n' ->
    bind (rd key Z0) (fun b ->
      ptr_loop step n' (skipn (S O) key) (step hash b))

(** val fnv : buf -> z -> z -> z res **)

let fnv key len seed =
  let seed0 = if Z.eqb seed Z0 then fnv_init else seed in
  ptr_loop fnv_step (Z.to_nat len) key seed0

(** val m32 : z **)

let m32 =
  Z.pow (Zpos (XO XH)) (Zpos (XO (XO (XO (XO (XO XH))))))

(** val libast_seed : z **)

let libast_seed =
  Zpos (XI (XO (XI (XI (XO (XO (XI (XO (XO (XI (XI (XO (XI (XI (XO (XI (XI
    (XO (XO (XO (XO (XI (XO (XO (XI (XI (XI (XO (XI (XI (XI
    XH)))))))))))))))))))))))))))))))

(** val fnv_offset_basis : z **)

let fnv_offset_basis =
  Zpos (XI (XO (XI (XO (XO (XO (XI (XI (XI (XO (XI (XI (XI (XO (XO (XI (XO
    (XO (XI (XI (XI (XO (XO (XO (XI (XO (XO (XO (XO (XO (XO
    XH)))))))))))))))))))))))))))))))

(** val fnv_32_prime : z **)

let fnv_32_prime =
  Zpos (XI (XI (XO (XO (XI (XO (XO (XI (XI (XO (XO (XO (XO (XO (XO (XO (XO
    (XO (XO (XO (XO (XO (XO (XO XH))))))))))))))))))))))))

(** val rowR : z -> z -> z -> z -> z **)

let rowR x y z0 k =
  Z.coq_lxor (Z.modulo (Z.sub (Z.sub x y) z0) m32)
    (Z.div z0 (Z.pow (Zpos (XO XH)) k))

(** val rowL : z -> z -> z -> z -> z **)

let rowL x y z0 k =
  Z.coq_lxor (Z.modulo (Z.sub (Z.sub x y) z0) m32)
    (Z.modulo (Z.mul z0 (Z.pow (Zpos (XO XH)) k)) m32)

(** val mixA : z -> ((z * z) * z) -> (z * z) * z **)

let mixA k = function
| (p, c) -> let (a, b) = p in (((rowR a b c k), b), c)

(** val mixB : z -> ((z * z) * z) -> (z * z) * z **)

let mixB k = function
| (p, c) -> let (a, b) = p in ((a, (rowL b c a k)), c)

(** val mixC : z -> ((z * z) * z) -> (z * z) * z **)

let mixC k = function
| (p, c) -> let (a, b) = p in ((a, b), (rowR c a b k))

(** val lookup2_mix : ((z * z) * z) -> (z * z) * z **)

let lookup2_mix s =
  let s0 =
    mixC (Zpos (XI (XO (XI XH))))
      (mixB (Zpos (XO (XO (XO XH)))) (mixA (Zpos (XI (XO (XI XH)))) s))
  in
  let s1 =
    mixC (Zpos (XI (XO XH)))
      (mixB (Zpos (XO (XO (XO (XO XH))))) (mixA (Zpos (XO (XO (XI XH)))) s0))
  in
  mixC (Zpos (XI (XI (XI XH))))
    (mixB (Zpos (XO (XI (XO XH)))) (mixA (Zpos (XI XH)) s1))

(** val le_word : z list -> z **)

let le_word bs =
  fold_right (fun b acc ->
    Z.add b (Z.mul (Zpos (XO (XO (XO (XO (XO (XO (XO (XO XH))))))))) acc)) Z0
    bs

(** val chunks : nat -> nat -> 'a1 list -> 'a1 list list **)

let rec chunks m n0 l =
  match n0 with
  | O -> []
  | S n' -> (firstn m l) :: (chunks m n' (skipn m l))

(** val sub0 : 'a1 list -> nat -> nat -> 'a1 list **)

let sub0 l i n0 =
  firstn n0 (skipn i l)

(** val third : ((z * z) * z) -> z **)

let third = function
| (_, c) -> c

(** val lookup2_block : ((z * z) * z) -> z list -> (z * z) * z **)

let lookup2_block s blk =
  let (p, c) = s in
  let (a, b) = p in
  lookup2_mix
    (((Z.modulo (Z.add a (le_word (sub0 blk O (S (S (S (S O))))))) m32),
    (Z.modulo
      (Z.add b (le_word (sub0 blk (S (S (S (S O)))) (S (S (S (S O))))))) m32)),
    (Z.modulo
      (Z.add c
        (le_word
          (sub0 blk (S (S (S (S (S (S (S (S O)))))))) (S (S (S (S O)))))))
      m32))

(** val lookup2 : z -> z list -> z -> z **)

let lookup2 golden k initval =
  let n0 = length k in
  let nb = Nat.div n0 (S (S (S (S (S (S (S (S (S (S (S (S O)))))))))))) in
  let (p, c) =
    fold_left lookup2_block
      (chunks (S (S (S (S (S (S (S (S (S (S (S (S O)))))))))))) nb k)
      ((golden, golden), initval)
  in
  let (a, b) = p in
  let t = skipn (mul (S (S (S (S (S (S (S (S (S (S (S (S O)))))))))))) nb) k
  in
  third
    (lookup2_mix
      (((Z.modulo (Z.add a (le_word (sub0 t O (S (S (S (S O))))))) m32),
      (Z.modulo
        (Z.add b (le_word (sub0 t (S (S (S (S O)))) (S (S (S (S O))))))) m32)),
      (Z.modulo
        (Z.add c
          (Z.add (Z.of_nat n0)
            (Z.mul (Zpos (XO (XO (XO (XO (XO (XO (XO (XO XH)))))))))
              (le_word
                (sub0 t (S (S (S (S (S (S (S (S O)))))))) (S (S (S O))))))))
        m32)))

(** val hash2_block : ((z * z) * z) -> z list -> (z * z) * z **)

let hash2_block s blk =
  let (p, c) = s in
  let (a, b) = p in
  lookup2_mix (((Z.modulo (Z.add a (nth O blk Z0)) m32),
    (Z.modulo (Z.add b (nth (S O) blk Z0)) m32)),
    (Z.modulo (Z.add c (nth (S (S O)) blk Z0)) m32))

(** val hash2 : z -> z list -> z -> z **)

let hash2 golden k initval =
  let n0 = length k in
  let nb = Nat.div n0 (S (S (S O))) in
  let (p, c) =
    fold_left hash2_block (chunks (S (S (S O))) nb k) ((golden, golden),
      initval)
  in
  let (a, b) = p in
  let t = skipn (mul (S (S (S O))) nb) k in
  third
    (lookup2_mix (((Z.modulo (Z.add a (nth O t Z0)) m32),
      (Z.modulo (Z.add b (nth (S O) t Z0)) m32)),
      (Z.modulo (Z.add c (Z.of_nat n0)) m32)))

(** val words_of_bytes : z list -> z list **)

let words_of_bytes bs =
  map le_word
    (chunks (S (S (S (S O)))) (Nat.div (length bs) (S (S (S (S O))))) bs)

(** val rotl32 : z -> z -> z **)

let rotl32 h k =
  Z.add (Z.modulo (Z.mul h (Z.pow (Zpos (XO XH)) k)) m32)
    (Z.div h
      (Z.pow (Zpos (XO XH)) (Z.sub (Zpos (XO (XO (XO (XO (XO XH)))))) k)))

(** val rotating_ref : z list -> z -> z **)

let rotating_ref k seed =
  let h =
    fold_left (fun h b -> Z.coq_lxor (rotl32 h (Zpos (XO (XO XH)))) b) k seed
  in
  Z.coq_lxor
    (Z.coq_lxor h (Z.div h (Z.pow (Zpos (XO XH)) (Zpos (XO (XI (XO XH)))))))
    (Z.div h (Z.pow (Zpos (XO XH)) (Zpos (XO (XO (XI (XO XH)))))))

(** val oaat_ref : z list -> z -> z **)

let oaat_ref k seed =
  let h =
    fold_left (fun h b ->
      let h0 =
        Z.modulo
          (Z.mul (Z.add h b) (Zpos (XI (XO (XO (XO (XO (XO (XO (XO (XO (XO
            XH)))))))))))) m32
      in
      Z.coq_lxor h0 (Z.div h0 (Zpos (XO (XO (XO (XO (XO (XO XH))))))))) k seed
  in
  let h0 = Z.modulo (Z.mul h (Zpos (XI (XO (XO XH))))) m32 in
  let h1 =
    Z.coq_lxor h0
      (Z.div h0 (Zpos (XO (XO (XO (XO (XO (XO (XO (XO (XO (XO (XO
        XH)))))))))))))
  in
  Z.modulo
    (Z.mul h1 (Zpos (XI (XO (XO (XO (XO (XO (XO (XO (XO (XO (XO (XO (XO (XO
      (XO XH))))))))))))))))) m32

(** val fnv1a_ref : z list -> z -> z **)

let fnv1a_ref k seed =
  fold_left (fun h b -> Z.modulo (Z.mul (Z.coq_lxor h b) fnv_32_prime) m32) k
    seed

(** val nz_seed : z -> z -> z **)

let nz_seed dflt seed =
  if Z.eqb seed Z0 then dflt else seed

(** val spec_jenkins : z list -> z -> z **)

let spec_jenkins k seed =
  lookup2 libast_seed k seed

(** val spec_jenkins32 : z list -> z -> z **)

let spec_jenkins32 ws seed =
  hash2 libast_seed ws seed

(** val spec_rotating : z list -> z -> z **)

let spec_rotating k seed =
  rotating_ref k (nz_seed libast_seed seed)

(** val spec_oaat : z list -> z -> z **)

let spec_oaat k seed =
  oaat_ref k (nz_seed libast_seed seed)

(** val spec_fnv : z list -> z -> z **)

let spec_fnv k seed =
  fnv1a_ref k (nz_seed fnv_offset_basis seed)
