(* ArrayModel - pointer-level model of /repo/src/array.c (class `array`: list, vector and map
   interface plus its iterator), stage 2 of C02 / C03 / C04.  Executable, NO proofs in this file.

   HEAP PICTURE.  One spif_array_t object = record {alen; aitems}.  `aitems` is the items
   pointer: None = NULL, Some b = a heap block of exactly `length b` pointer slots (what
   MALLOC / REALLOC handed out: no slack).  A slot (cell) is
       None            not yet written since (re)allocation   (reading it = Fault Uninit_read)
       Some None       a NULL pointer (placeholder made by insert_at)
       Some (Some x)   pointer to the object x
   Every access to a block is bounds-checked: blk_rd / blk_wr / blk_memmove / blk_memset0 return
   Fault OOB_read / OOB_write outside the block, dereferencing a NULL items pointer or calling a
   method through a NULL object is Fault Null_deref, `len + 1` beyond INT_MAX (spif_listidx_t is
   spif_int32_t) is Fault Int_overflow, a loop that outruns its fuel is Fault Out_of_fuel.

   OBJECTS.  List / vector interface: A = P = ContSpec.elem (spif_str objects: identity + text),
   SPIF_OBJ_COMP = key_cmp on the texts behind SPIF_OBJ_COMP_CHECK_NULL.  Map interface:
   A = pair = (key text, value text) - an objpair that owns COPIES (spif_objpair_new_from_both
   duplicates both objects), P = key; spif_objpair_comp compares the pair's key with the other
   object (its key if that is a pair too).  A pair object is represented by its contents in the
   slot that points to it, so spif_objpair_set_value is a slot rewrite.

   MEMORY MANAGEMENT as array.c uses it (libast.h, both the plain and the spifmem_ variant):
   MALLOC(n) = a fresh block (malloc(0) is a non-NULL empty block), REALLOC(p, 0) frees and
   yields NULL, REALLOC(p, n) keeps the common prefix, new slots are unwritten.  Allocation is
   assumed to succeed.  Tear-down (spif_array_done / _del) is not modelled: the correspondence
   harness runs it under ASan and prints `end`.

   Each function below carries the name of the C function it mirrors; statement order is kept. *)
From LV Require Export Base.Res Cont.ContSpec.
Local Open Scope Z_scope.

Definition INT_MAX : Z := 2147483647.
(* x + 1 in spif_listidx_t *)
Definition chk_inc (z : Z) : res Z := if z <? INT_MAX then Ok (z + 1) else Fault Int_overflow.

(* ---------------------------------------------------------------------------------------- *)
(* blocks of pointer slots *)
Notation cell A := (option (option A)) (only parsing).
Notation block A := (list (option (option A))) (only parsing).
Section Block.
  Context {A : Type}.
  Definition blen (b : (block A)) : Z := Z.of_nat (length b).

  Definition blk_rd (b : (block A)) (i : Z) : res (option A) :=
    if (i <? 0) || (blen b <=? i) then Fault OOB_read
    else match nth_error b (Z.to_nat i) with
         | Some (Some v) => Ok v
         | Some None => Fault Uninit_read
         | None => Fault OOB_read
         end.

  Definition blk_wr (b : (block A)) (i : Z) (v : option A) : res (block A) :=
    if (i <? 0) || (blen b <=? i) then Fault OOB_write
    else Ok (firstn (Z.to_nat i) b ++ Some v :: skipn (S (Z.to_nat i)) b).

  (* memmove(b + dst, b + src, n slots): raw copy (unwritten slots stay unwritten) *)
  Definition blk_memmove (b : (block A)) (dst src n : Z) : res (block A) :=
    if n <? 0 then Fault OOB_read                      (* negative-size-param *)
    else if n =? 0 then Ok b
    else if (src <? 0) || (blen b <? src + n) then Fault OOB_read
    else if (dst <? 0) || (blen b <? dst + n) then Fault OOB_write
    else Ok (firstn (Z.to_nat dst) b ++ firstn (Z.to_nat n) (skipn (Z.to_nat src) b)
             ++ skipn (Z.to_nat (dst + n)) b).

  (* memset(b + off, 0, n slots) *)
  Definition blk_memset0 (b : (block A)) (off n : Z) : res (block A) :=
    if n <? 0 then Fault OOB_write
    else if n =? 0 then Ok b
    else if (off <? 0) || (blen b <? off + n) then Fault OOB_write
    else Ok (firstn (Z.to_nat off) b ++ repeat (Some None) (Z.to_nat n) ++ skipn (Z.to_nat (off + n)) b).

  Definition blk_malloc (n : Z) : option (block A) := Some (repeat None (Z.to_nat n)).
  Definition blk_realloc (old : option (block A)) (n : Z) : option (block A) :=
    match old with
    | None => if n =? 0 then None else blk_malloc n
    | Some b => if n =? 0 then None
                else Some (firstn (Z.to_nat n) b ++ repeat None (Z.to_nat n - length b))
    end.
End Block.


(* ---------------------------------------------------------------------------------------- *)
(* the array object and the comparison-free member functions *)
Record arr (A : Type) : Type := mkArr { alen : Z; aitems : option (block A) }.
Arguments mkArr {A} _ _.
Arguments alen {A} _.
Arguments aitems {A} _.

(* spif_array_{list,vector,map}_init: len = 0, items = NULL *)
Definition arr_new {A} : arr A := mkArr 0 None.

Definition deref {A} (p : option (block A)) : res (block A) :=
  match p with Some b => Ok b | None => Fault Null_deref end.
(* self->items[i] *)
Definition item_rd {A} (a : arr A) (i : Z) : res (option A) := b <- deref (aitems a) ;; blk_rd b i.

(* `if (self->items) REALLOC(self->items, n) else MALLOC(n)` *)
Definition grow {A} (items : option (block A)) (n : Z) : option (block A) :=
  match items with Some _ => blk_realloc items n | None => blk_malloc n end.

(* spif_array_append (NULL objects are accepted) *)
Definition arr_append {A} (a : arr A) (obj : option A) : res (arr A * bool) :=
  len <- chk_inc (alen a) ;;                                   (* self->len++ *)
  b <- deref (grow (aitems a) len) ;;
  b' <- blk_wr b (len - 1) obj ;;
  Ok (mkArr len (Some b'), true).

(* spif_array_count *)
Definition arr_count {A} (a : arr A) : Z := alen a.

(* spif_array_get *)
Definition arr_get {A} (a : arr A) (idx : Z) : res (option A) :=
  let idx := if idx <? 0 then idx + alen a else idx in
  if (0 <=? idx) && (idx <? alen a) then item_rd a idx else Ok None.

(* spif_array_insert_at *)
Definition arr_insert_at {A} (a : arr A) (obj : option A) (idx : Z) : res (arr A * bool) :=
  match obj with
  | None => Ok (a, false)                                      (* REQUIRE_RVAL(!SPIF_OBJ_ISNULL(obj), FALSE) *)
  | Some _ =>
    let idx := if idx <? 0 then idx + alen a else idx in
    if idx <? 0 then Ok (a, false)                             (* REQUIRE_RVAL(idx >= 0, FALSE) *)
    else
      let lf := if alen a <? idx then - (idx - alen a) else alen a - idx in
      let len := if alen a <? idx then idx else alen a in              (* self->len = idx *)
      len1 <- chk_inc len ;;
      b <- deref (grow (aitems a) len1) ;;
      b <- (if 0 <? lf then blk_memmove b (idx + 1) idx lf
            else if lf <? 0 then blk_memset0 b (idx - (- lf)) (- lf)
            else Ok b) ;;
      b <- blk_wr b idx obj ;;
      Ok (mkArr len1 (Some b), true)                           (* self->len++ *)
  end.

(* spif_array_prepend *)
Definition arr_prepend {A} (a : arr A) (obj : option A) : res (arr A * bool) :=
  match obj with
  | None => Ok (a, false)
  | Some _ =>
    len1 <- chk_inc (alen a) ;;
    b <- deref (grow (aitems a) len1) ;;
    b <- blk_memmove b 1 0 (alen a) ;;
    b <- blk_wr b 0 obj ;;
    Ok (mkArr len1 (Some b), true)
  end.

(* the common tail of spif_array_remove / _map_remove / _remove_at once position i is known *)
Definition arr_take {A} (a : arr A) (i : Z) : res (arr A * option A) :=
  let lf := alen a - i - 1 in
  tmp <- item_rd a i ;;
  b <- deref (aitems a) ;;
  b <- blk_memmove b i (i + 1) lf ;;
  let len := alen a - 1 in                                     (* self->len-- *)
  Ok (mkArr len (blk_realloc (Some b) len), tmp).

(* spif_array_remove_at *)
Definition arr_remove_at {A} (a : arr A) (idx : Z) : res (arr A * option A) :=
  let idx := if idx <? 0 then idx + alen a else idx in
  if (idx <? 0) || (alen a <=? idx) then Ok (a, None) else arr_take a idx.

(* spif_array_reverse: for (i = 0, j = len - 1; i < j; i++, j--) SWAP(items[i], items[j]) *)
Fixpoint rev_loop {A} (fuel : nat) (b : option (block A)) (i j : Z) : res (option (block A)) :=
  match fuel with
  | O => Fault Out_of_fuel
  | S f =>
    if i <? j then
      blk <- deref b ;;
      x <- blk_rd blk i ;;
      y <- blk_rd blk j ;;
      blk <- blk_wr blk i y ;;
      blk <- blk_wr blk j x ;;
      rev_loop f (Some blk) (i + 1) (j - 1)
    else Ok b
  end.
Definition arr_reverse {A} (a : arr A) : res (arr A * bool) :=
  b <- rev_loop (S (Z.to_nat (alen a))) (aitems a) 0 (alen a - 1) ;;
  Ok (mkArr (alen a) b, true).

(* a `for (i = 0; i < self->len; i++) body` loop that copies: reads self->items[i], writes f(item) to dst[i] *)
Fixpoint copy_loop {A B} (fuel : nat) (a : arr A) (f : option A -> res (option B)) (dst : block B) (i : Z)
  : res (block B) :=
  match fuel with
  | O => Fault Out_of_fuel
  | S fu =>
    if i <? alen a then
      s <- item_rd a i ;;
      v <- f s ;;
      dst <- blk_wr dst i v ;;
      copy_loop fu a f dst (i + 1)
    else Ok dst
  end.

(* spif_array_to_array: a fresh block of len slots holding the same pointers *)
Definition arr_to_array {A} (a : arr A) : res (block A) :=
  tmp <- deref (blk_malloc (alen a)) ;;
  copy_loop (S (Z.to_nat (alen a))) a (fun s => Ok s) tmp 0.

(* spif_array_list_dup: memcpy of the object, fresh items block, NULL placeholders kept, every
   object duplicated (dupf = the object's dup method) *)
Definition arr_list_dup {A B} (dupf : A -> B) (a : arr A) : res (arr B) :=
  tmp <- deref (blk_malloc (alen a)) ;;
  b <- copy_loop (S (Z.to_nat (alen a))) a
         (fun s => Ok (match s with None => None | Some x => Some (dupf x) end)) tmp 0 ;;
  Ok (mkArr (alen a) (Some b)).

(* spif_array_vector_dup / _map_dup: the same without the placeholder test - SPIF_OBJ_DUP through
   a NULL slot would be a NULL dereference (not reachable through the harness) *)
Definition arr_strict_dup {A B} (dupf : A -> B) (a : arr A) : res (arr B) :=
  tmp <- deref (blk_malloc (alen a)) ;;
  b <- copy_loop (S (Z.to_nat (alen a))) a
         (fun s => match s with None => Fault Null_deref | Some x => Ok (Some (dupf x)) end) tmp 0 ;;
  Ok (mkArr (alen a) (Some b)).

(* loops of spif_array_get_keys / _get_values / _get_pairs: append f(item) to a new array list *)
Fixpoint collect_loop {A B} (fuel : nat) (a : arr A) (f : A -> B) (l : arr B) (i : Z) : res (arr B) :=
  match fuel with
  | O => Fault Out_of_fuel
  | S fu =>
    if i <? alen a then
      s <- item_rd a i ;;
      match s with
      | None => Fault Null_deref                               (* SPIF_OBJPAIR(NULL)->key *)
      | Some x => '(l', _) <- arr_append l (Some (f x)) ;; collect_loop fu a f l' (i + 1)
      end
    else Ok l
  end.
Definition arr_collect {A B} (f : A -> B) (a : arr A) : res (arr B) :=
  collect_loop (S (Z.to_nat (alen a))) a f arr_new 0.

(* ---------------------------------------------------------------------------------------- *)
(* the array iterator: subject (NULL or the array object) + current_index *)
Record aiter : Set := mkIter { ai_subject : bool; ai_index : Z }.
(* spif_array_iterator -> spif_array_iterator_new / _init *)
Definition arr_iterator : aiter := mkIter true 0.
(* spif_array_iterator_has_next *)
Definition ait_has_next {A} (a : arr A) (it : aiter) : bool :=
  if ai_subject it then negb (alen a <=? ai_index it) else false.
(* spif_array_iterator_next *)
Definition ait_next {A} (a : arr A) (it : aiter) : res (option A * aiter) :=
  if ai_subject it then
    tmp <- arr_get a (ai_index it) ;;
    idx <- chk_inc (ai_index it) ;;
    Ok (tmp, mkIter true idx)
  else Ok (None, it).
(* the client loop `while (has_next) next` of the harness *)
Fixpoint arr_sweep {A} (fuel : nat) (a : arr A) (it : aiter) : res (list (option A)) :=
  match fuel with
  | O => if ait_has_next a it then Fault Out_of_fuel else Ok []
  | S f =>
    if ait_has_next a it then
      '(x, it') <- ait_next a it ;;
      l <- arr_sweep f a it' ;;
      Ok (x :: l)
    else Ok []
  end.
Definition arr_iterate {A} (a : arr A) : res (list (option A)) :=
  arr_sweep (S (Z.to_nat (alen a))) a arr_iterator.

(* get(i) for i = from, from+1, ... (n values) - how the harness reads a list back *)
Fixpoint arr_gets {A} (a : arr A) (from : Z) (n : nat) : res (list (option A)) :=
  match n with
  | O => Ok []
  | S n' => x <- arr_get a from ;; l <- arr_gets a (from + 1) n' ;; Ok (x :: l)
  end.
(* t[0..n-1] of a block handed back by to_array *)
Fixpoint blk_reads {A} (b : block A) (from : Z) (n : nat) : res (list (option A)) :=
  match n with
  | O => Ok []
  | S n' => x <- blk_rd b from ;; l <- blk_reads b (from + 1) n' ;; Ok (x :: l)
  end.

(* ---------------------------------------------------------------------------------------- *)
(* member functions that compare objects *)
(* SPIF_OBJ_COMP(o1, o2) = o1's comp method: a NULL o1 is a NULL dereference; the methods start
   with SPIF_OBJ_COMP_CHECK_NULL, so a NULL o2 compares below o1 *)
Definition comp_obj {X Y} (f : X -> Y -> comparison) (o1 : option X) (o2 : option Y) : res comparison :=
  match o1, o2 with
  | None, _ => Fault Null_deref
  | Some _, None => Ok Gt
  | Some x, Some y => Ok (f x y)
  end.
Definition is_eq (c : comparison) : bool := match c with Eq => true | _ => false end.
Definition is_gt (c : comparison) : bool := match c with Gt => true | _ => false end.

(* `for (i = 0; i < self->len && cond(self->items[i]); i++);` - the value of i afterwards *)
Fixpoint scan {A} (fuel : nat) (a : arr A) (cond : option A -> res bool) (i : Z) : res Z :=
  match fuel with
  | O => Fault Out_of_fuel
  | S f =>
    if i <? alen a then
      s <- item_rd a i ;;
      c <- cond s ;;
      if c then scan f a cond (i + 1) else Ok i
    else Ok i
  end.

Section Compare.
  Context {A P : Type}.
  Variable cmpAP : A -> P -> comparison.       (* SPIF_OBJ_COMP(stored, probe) *)
  Variable cmpPA : P -> A -> comparison.       (* SPIF_OBJ_COMP(probe, stored) *)
  Variable cmpAA : A -> A -> comparison.       (* SPIF_OBJ_COMP(new, stored) *)

  (* spif_array_list_find *)
  Fixpoint list_find_loop (fuel : nat) (a : arr A) (obj : P) (i : Z) : res (option A) :=
    match fuel with
    | O => Fault Out_of_fuel
    | S f =>
      if i <? alen a then
        s <- item_rd a i ;;
        match s with
        | None => list_find_loop f a obj (i + 1)               (* continue *)
        | Some _ =>
          c <- comp_obj cmpAP s (Some obj) ;;
          if is_eq c then Ok s else list_find_loop f a obj (i + 1)
        end
      else Ok None
    end.
  Definition arr_list_find (a : arr A) (obj : option P) : res (option A) :=
    match obj with
    | None => Ok None
    | Some p => list_find_loop (S (Z.to_nat (alen a))) a p 0
    end.
  (* spif_array_list_contains *)
  Definition arr_list_contains (a : arr A) (obj : option P) : res bool :=
    r <- arr_list_find a obj ;; Ok (is_some r).

  (* spif_array_index *)
  Fixpoint index_loop (fuel : nat) (a : arr A) (obj : option P) (i : Z) : res Z :=
    match fuel with
    | O => Fault Out_of_fuel
    | S f =>
      if i <? alen a then
        s <- item_rd a i ;;
        match s with
        | None => match obj with None => Ok i | Some _ => index_loop f a obj (i + 1) end
        | Some _ =>
          c <- comp_obj cmpAP s obj ;;
          if is_eq c then Ok i else index_loop f a obj (i + 1)
        end
      else Ok (-1)
    end.
  Definition arr_index (a : arr A) (obj : option P) : res Z :=
    index_loop (S (Z.to_nat (alen a))) a obj 0.

  (* the binary search of spif_array_vector_find and spif_array_map_get (the same loop twice in
     array.c): the slot found, or NULL *)
  Fixpoint bs_loop (fuel : nat) (a : arr A) (obj : P) (start end_ : Z) : res (option A) :=
    match fuel with
    | O => Fault Out_of_fuel
    | S f =>
      if start <=? end_ then
        let mid := Z.quot (end_ - start) 2 + start in
        s <- item_rd a mid ;;
        diff <- comp_obj cmpAP s (Some obj) ;;
        match diff with
        | Eq => Ok s
        | Lt => bs_loop f a obj (mid + 1) end_
        | Gt => let e := mid - 1 in if e =? -1 then Ok None else bs_loop f a obj start e
        end
      else Ok None
    end.
  Definition arr_bsearch (a : arr A) (obj : option P) : res (option A) :=
    match obj with
    | None => Ok None
    | Some p =>
      if 0 <? alen a then bs_loop (S (Z.to_nat (alen a))) a p 0 (alen a - 1)
      else Ok None                                             (* REQUIRE_RVAL(self->len > 0, NULL) *)
    end.
  (* spif_array_vector_find / _vector_contains *)
  Definition arr_vector_find := arr_bsearch.
  Definition arr_vector_contains (a : arr A) (obj : option P) : res bool :=
    r <- arr_vector_find a obj ;; Ok (is_some r).

  (* spif_array_insert (list `insert`, vector `insert`, and the map's way of adding a pair) *)
  Definition arr_insert (a : arr A) (obj : option A) : res (arr A * bool) :=
    match obj with
    | None => Ok (a, false)
    | Some _ =>
      len1 <- chk_inc (alen a) ;;
      let items := grow (aitems a) len1 in
      let a1 := mkArr (alen a) items in
      i <- scan (S (Z.to_nat (alen a))) a1 (fun s => c <- comp_obj cmpAA obj s ;; Ok (is_gt c)) 0 ;;
      let lf := alen a - i in
      b <- deref items ;;
      b <- (if lf =? 0 then Ok b else blk_memmove b (i + 1) i lf) ;;
      b <- blk_wr b i obj ;;
      Ok (mkArr len1 (Some b), true)
    end.

  (* spif_array_remove *)
  Definition arr_remove (a : arr A) (item : option P) : res (arr A * option A) :=
    match item with
    | None => Ok (a, None)
    | Some _ =>
      i <- scan (S (Z.to_nat (alen a))) a (fun s => c <- comp_obj cmpPA item s ;; Ok (negb (is_eq c))) 0 ;;
      if i =? alen a then Ok (a, None) else arr_take a i
    end.

  (* spif_array_map_remove: the same with the comparison the other way round *)
  Definition arr_map_remove (a : arr A) (item : option P) : res (arr A * option A) :=
    match item with
    | None => Ok (a, None)
    | Some _ =>
      i <- scan (S (Z.to_nat (alen a))) a (fun s => c <- comp_obj cmpAP s item ;; Ok (negb (is_eq c))) 0 ;;
      if i =? alen a then Ok (a, None) else arr_take a i
    end.
End Compare.

(* ---------------------------------------------------------------------------------------- *)
(* LIST and VECTOR interface: elements are spif_str objects *)
Definition ecmp (x y : elem) : comparison := key_cmp (ekey x) (ekey y).

Definition res_map {X Y} (f : X -> Y) (r : res X) : res Y := x <- r ;; Ok (f x).

Definition arr_list_step (a : arr elem) (op : lop) : res (arr elem * out) :=
  match op with
  | LAppend e => '(a', r) <- arr_append a (Some e) ;; Ok (a', OBool r)
  | LPrepend e => '(a', r) <- arr_prepend a (Some e) ;; Ok (a', OBool r)
  | LInsert e => '(a', r) <- arr_insert ecmp a (Some e) ;; Ok (a', OBool r)
  | LInsertAt idx e => '(a', r) <- arr_insert_at a (Some e) idx ;; Ok (a', OBool r)
  | LRemove p => '(a', r) <- arr_remove ecmp a p ;; Ok (a', OElem r)
  | LRemoveAt idx => '(a', r) <- arr_remove_at a idx ;; Ok (a', OElem r)
  | LGet idx => r <- arr_get a idx ;; Ok (a, OElem r)
  | LIndex p => r <- arr_index ecmp a (Some p) ;; Ok (a, OInt r)
  | LFind p => r <- arr_list_find ecmp a p ;; Ok (a, OElem r)
  | LContains p => r <- arr_list_contains ecmp a p ;; Ok (a, OBool r)
  | LCount => Ok (a, OInt (arr_count a))
  | LReverse => '(a', r) <- arr_reverse a ;; Ok (a', OBool r)
  | LToArray => t <- arr_to_array a ;; l <- blk_reads t 0 (Z.to_nat (arr_count a)) ;; Ok (a, OElems l)
  | LIterate => l <- arr_iterate a ;; Ok (a, OElems l)
  | LDup =>
    d <- arr_list_dup ekey a ;;                                (* the copy holds fresh str objects: texts *)
    let n := arr_count d in
    swept <- arr_iterate d ;;
    got <- arr_gets d 0 (Z.to_nat n) ;;
    Ok (a, ODup n swept got)
  end.

Definition arr_vec_step (a : arr elem) (op : vop) : res (arr elem * out) :=
  match op with
  | VInsert e => '(a', r) <- arr_insert ecmp a (Some e) ;; Ok (a', OBool r)
  | VRemove p => '(a', r) <- arr_remove ecmp a (Some p) ;; Ok (a', OElem r)
  | VFind p => r <- arr_vector_find ecmp a (Some p) ;; Ok (a, OElem r)
  | VContains p => r <- arr_vector_contains ecmp a (Some p) ;; Ok (a, OBool r)
  | VCount => Ok (a, OInt (arr_count a))
  | VIterate => l <- arr_iterate a ;; Ok (a, OElems l)
  | VToArray => t <- arr_to_array a ;; l <- blk_reads t 0 (Z.to_nat (arr_count a)) ;; Ok (a, OElems l)
  end.

(* ---------------------------------------------------------------------------------------- *)
(* MAP interface: the slots point to objpairs *)
Notation kv := (key * key)%type (only parsing).        (* an objpair: (key text, value text) *)
Definition pcmp_key (p : kv) (k : key) : comparison := key_cmp (fst p) k.     (* objpair_comp(kv, str) *)
Definition pcmp_pair (p q : kv) : comparison := key_cmp (fst p) (fst q).      (* objpair_comp(kv, kv) *)

(* spif_array_map_get: the value object of the kv the binary search found *)
Definition arr_map_get (a : arr kv) (k : option key) : res (option key) :=
  r <- arr_bsearch pcmp_key a k ;; Ok (option_map snd r).
(* spif_array_has_key *)
Definition arr_has_key (a : arr kv) (k : option key) : res bool :=
  r <- arr_map_get a k ;; Ok (is_some r).

(* spif_array_has_value *)
Fixpoint has_value_loop (fuel : nat) (a : arr kv) (v : key) (i : Z) : res bool :=
  match fuel with
  | O => Fault Out_of_fuel
  | S f =>
    if i <? alen a then
      s <- item_rd a i ;;
      match s with
      | None => Fault Null_deref                               (* kv->value through a NULL kv *)
      | Some p => if is_eq (key_cmp (snd p) v) then Ok true else has_value_loop f a v (i + 1)
      end
    else Ok false
  end.
Definition arr_has_value (a : arr kv) (v : key) : res bool :=
  has_value_loop (S (Z.to_nat (alen a))) a v 0.

(* spif_array_set (key and value are spif_str objects, never an objpair, never NULL) *)
Definition arr_set (a : arr kv) (k v : key) : res (arr kv * bool) :=
  i <- scan (S (Z.to_nat (alen a))) a (fun s => c <- comp_obj pcmp_key s (Some k) ;; Ok (negb (is_eq c))) 0 ;;
  if i =? alen a then
    '(a', _) <- arr_insert pcmp_pair a (Some (k, v)) ;;        (* spif_objpair_new_from_both dups both *)
    Ok (a', false)
  else
    s <- item_rd a i ;;
    match s with
    | None => Fault Null_deref                                 (* spif_objpair_set_value(NULL, ...) *)
    | Some p =>
      b <- deref (aitems a) ;;
      b <- blk_wr b i (Some (fst p, v)) ;;                     (* the kv's value becomes a dup of value *)
      Ok (mkArr (alen a) (Some b), true)
    end.

(* the harness reads a list object handed back by get_keys / get_values / get_pairs with
   count + get(0..n-1); every entry must be an object *)
Fixpoint all_some {X} (l : list (option X)) : res (list X) :=
  match l with
  | [] => Ok []
  | None :: _ => Fault Null_deref
  | Some x :: t => r <- all_some t ;; Ok (x :: r)
  end.
Definition read_list {X} (l : arr X) : res (list X) :=
  g <- arr_gets l 0 (Z.to_nat (arr_count l)) ;; all_some g.

Definition arr_map_step (a : arr kv) (op : mop) : res (arr kv * out) :=
  match op with
  | MSet k v => '(a', r) <- arr_set a k v ;; Ok (a', OBool r)
  | MGet k => r <- arr_map_get a (Some k) ;; Ok (a, OText r)
  | MRemove k => '(a', r) <- arr_map_remove pcmp_key a (Some k) ;; Ok (a', OPair r)
  | MHasKey k => r <- arr_has_key a (Some k) ;; Ok (a, OBool r)
  | MHasValue v => r <- arr_has_value a v ;; Ok (a, OBool r)
  | MCount => Ok (a, OInt (arr_count a))
  | MGetKeys => l <- arr_collect fst a ;; t <- read_list l ;; Ok (a, OTexts t)
  | MGetValues => l <- arr_collect snd a ;; t <- read_list l ;; Ok (a, OTexts t)
  | MGetPairs => l <- arr_collect (fun p : kv => p) a ;; t <- read_list l ;; Ok (a, OPairs t)
  | MIterate => l <- arr_iterate a ;; t <- all_some l ;; Ok (a, OPairs t)
  | MMutK _ | MMutV _ | MDelK | MDelV | MNewPair => Ok (a, OUnit)    (* the caller's own objects *)
  end.

(* ---------------------------------------------------------------------------------------- *)
(* histories *)
Fixpoint run_m {S O} (step : S -> O -> res (S * out)) (s : S) (ops : list O) : res (S * list out) :=
  match ops with
  | [] => Ok (s, [])
  | op :: t =>
    '(s', o) <- step s op ;;
    '(s'', os) <- run_m step s' t ;;
    Ok (s'', o :: os)
  end.
Definition arr_list_run := run_m arr_list_step arr_new.
Definition arr_vec_run := run_m arr_vec_step arr_new.
Definition arr_map_run := run_m arr_map_step arr_new.

(* ---------------------------------------------------------------------------------------- *)
(* what the harness prints after every operation, computed through the model's own member
   functions (level A read-back) and straight from the struct (level B dump) *)
Definition arr_list_readback (a : arr elem) : res (Z * list (option elem) * list (option elem)) :=
  let n := arr_count a in
  g <- arr_gets a (- n - 1) (Z.to_nat (2 * n + 2)) ;;
  i <- arr_iterate a ;;
  Ok (n, g, i).
Definition arr_vec_readback (a : arr elem) : res (Z * list (option elem) * list (option elem)) :=
  let n := arr_count a in
  i <- arr_iterate a ;;
  t <- arr_to_array a ;;
  l <- blk_reads t 0 (Z.to_nat n) ;;
  Ok (n, i, l).
(* k, v, p through get_keys / get_values / get_pairs, i through a fresh iterator *)
Definition arr_map_readback (a : arr kv) : res (Z * list key * list key * list kv * list kv) :=
  let n := arr_count a in
  lk <- arr_collect fst a ;; k <- read_list lk ;;
  lv <- arr_collect snd a ;; v <- read_list lv ;;
  lp <- arr_collect (fun p : kv => p) a ;; p <- read_list lp ;;
  l <- arr_iterate a ;; i <- all_some l ;;
  Ok (n, k, v, p, i).
(* level B: len and, unless items is NULL, items[0..len-1] (an unwritten slot is shown as None) *)
Definition arr_dump {A} (a : arr A) : Z * option (list (cell A)) :=
  (alen a, match aitems a with
           | None => None
           | Some b => Some (map (fun k => match nth_error b k with Some c => c | None => None end)
                                 (seq 0 (Z.to_nat (alen a))))
           end).
