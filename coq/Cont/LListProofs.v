(* LListProofs - class linked_list refines the ideal list (ContSpec.list_step): for every history
   of list-interface operations that meets the stated precondition the pointer-level model
   (LListModel.ll_list_step) returns Ok - never a Fault -, the same outputs as the ideal sequence,
   and the store it ends in represents the ideal final sequence (head->next chain spells it, len is
   its length, no other live item).  Vector and map: LListVecProofs.v, LListMapProofs.v. *)
From LV Require Import Cont.ContSpec Cont.ContKey Cont.ListProofs Cont.LListModel Cont.LListHeap Cont.LListOps.
Local Open Scope nat_scope.

Notation ReprL := (Repr elem).

(* ---- the generic sequence functions at D = elem are ContSpec's ---------------------------- *)
Lemma g_ins_tail_elem : forall e t, g_ins_tail elem ekey e t = ins_ordered e t.
Proof.
  intros e t. induction t as [|x t IH]; [reflexivity|]. cbn [g_ins_tail ins_ordered].
  change (g_gt elem ekey e x) with (gt_slot e x). destruct (gt_slot e x); [rewrite IH|]; reflexivity.
Qed.

(* the one place where the class and the ideal `insert` part: a new element equal to the head *)
Definition head_differs (e : elem) (xs : lstate) : Prop :=
  match xs with Some x :: _ => ekey e <> ekey x | _ => True end.

Lemma g_ins_elem : forall e xs, head_differs e xs -> g_ins elem ekey e xs = ins_ordered e xs.
Proof.
  intros e [|h t] H; [reflexivity|]. cbn [g_ins ins_ordered]. rewrite g_ins_tail_elem.
  destruct h as [x|]; cbn [g_lt gt_slot]; [|reflexivity].
  cbn in H. unfold key_ltb, key_gtb. destruct (key_cmp (ekey e) (ekey x)) eqn:Q; try reflexivity.
  apply key_cmp_eq in Q. contradiction.
Qed.

Lemma g_ins_at_elem : forall n e xs, g_ins_at elem n e xs = ins_at n e xs.
Proof.
  intros n e xs. unfold g_ins_at. destruct (Nat.le_gt_cases n (length xs)) as [L|L].
  - rewrite ins_at_le by exact L. replace (n - length xs) with 0 by lia. reflexivity.
  - rewrite ins_at_gt by exact L. rewrite firstn_all2 by lia. rewrite skipn_all2 by lia. reflexivity.
Qed.

Lemma g_find_elem : forall k xs, g_find elem ekey k xs = l_find xs k.
Proof. intros k xs. induction xs as [|x t IH]; [reflexivity|]. cbn. rewrite IH. reflexivity. Qed.

Lemma g_index_elem : forall k xs i, g_index elem ekey k xs i = index_from k xs i.
Proof. intros k xs. induction xs as [|x t IH]; intros i; [reflexivity|]. cbn. rewrite IH. reflexivity. Qed.

Lemma g_rem_elem : forall k xs, g_rem elem ekey k xs = rem_first k xs.
Proof. intros k xs. induction xs as [|x t IH]; [reflexivity|]. cbn. rewrite IH. reflexivity. Qed.

Lemma g_get_elem : forall xs idx, g_get elem xs idx = l_get xs idx.
Proof.
  intros xs idx. unfold g_get, l_get, in_range, slot_at, llen.
  destruct ((norm_idx (Z.of_nat (length xs)) idx <? 0)%Z || (Z.of_nat (length xs) <=? norm_idx (Z.of_nat (length xs)) idx)%Z);
    reflexivity.
Qed.

Lemma g_remove_at_elem : forall xs idx, g_remove_at elem xs idx = l_remove_at xs idx.
Proof.
  intros xs idx. unfold g_remove_at, l_remove_at, in_range, slot_at, llen.
  destruct ((norm_idx (Z.of_nat (length xs)) idx <? 0)%Z || (Z.of_nat (length xs) <=? norm_idx (Z.of_nat (length xs)) idx)%Z);
    [reflexivity|]. rewrite rem_nth_eq. reflexivity.
Qed.

Lemma nth_all : forall A (xs : list (option A)),
  map (fun j => match nth_error xs j with Some x => x | None => None end) (seq 0 (length xs)) = xs.
Proof.
  induction xs as [|x t IH]; [reflexivity|]. cbn [length seq map nth_error]. f_equal.
  rewrite <- seq_shift, map_map. exact IH.
Qed.

Lemma g_get_all : forall xs : lstate,
  map (fun j => g_get elem xs (0 + Z.of_nat j)%Z) (seq 0 (length xs)) = xs.
Proof.
  intros xs. transitivity (map (fun j => match nth_error xs j with Some x => x | None => None end) (seq 0 (length xs)));
    [|apply nth_all]. apply map_ext_in. intros j Hj. apply in_seq in Hj.
  unfold g_get, norm_idx. rewrite Z.add_0_l.
  destruct (Z.of_nat j <? 0)%Z eqn:Q; [apply Z.ltb_lt in Q; lia|]. rewrite Q. cbn [orb].
  destruct (Z.of_nat (length xs) <=? Z.of_nat j)%Z eqn:Q1; [apply Z.leb_le in Q1; lia|].
  rewrite Nat2Z.id. reflexivity.
Qed.

(* ---- precondition (ContSpec: where the property text leaves the classes free) --------------- *)
Definition lop_pre (xs : lstate) (op : lop) : Prop :=
  match op with LInsert e => head_differs e xs | _ => True end.
Fixpoint lpre_run (xs : lstate) (ops : list lop) : Prop :=
  match ops with
  | [] => True
  | op :: t => lop_pre xs op /\ lpre_run (fst (list_step xs op)) t
  end.

(* ---- one step ------------------------------------------------------------------------------ *)
Lemma ll_dup_step : forall s o xs, ReprL s o xs ->
  exists s', ll_list_step (s, o) LDup = Ok ((s', o), snd (list_step xs LDup)) /\ ReprL s' o xs.
Proof.
  intros s o xs (ids & R & C). pose proof R as (Hh & G & N & L).
  cbn [ll_list_step].
  destruct (ll_dup_ok elem edup s o ids xs R) as (s1 & cp & E1 & R1 & S1 & L1). rewrite E1. cbn [bind].
  assert (Eid : map (option_map edup) xs = xs).
  { clear. induction xs as [|[x|] t IH]; cbn [map option_map]; [reflexivity|rewrite IH; reflexivity..]. }
  rewrite Eid in R1.
  rewrite (ll_iterate_ok elem _ _ _ _ R1). cbn [bind].
  pose proof R1 as (_ & _ & _ & Lc). unfold ll_count. rewrite Lc, Nat2Z.id.
  rewrite (get_range_ok elem _ _ _ _ _ 0%Z R1). cbn [bind]. rewrite g_get_all.
  destruct (ll_del_ok elem _ _ _ _ R1) as (s2 & E2 & A2 & S2 & L2). rewrite E2. cbn [bind].
  exists s2. split; [reflexivity|].
  assert (Dis : forall j, In j ids -> ~ In j (seq (length s) (length ids))).
  { intros j Hj Q. apply in_seq in Q. pose proof (seg_in_lt elem _ _ _ _ _ G Hj). lia. }
  exists ids. split.
  - rep_split; auto. eapply seg_ext; [|exact G]. intros j Hj. rewrite S2, S1; auto.
  - intros j n Q. destruct (in_dec Nat.eq_dec j (seq (length s) (length ids))) as [I|I].
    + rewrite (A2 j I) in Q. discriminate.
    + rewrite S2, S1 in Q by exact I. eapply C. exact Q.
Qed.

Lemma ll_list_step_ok : forall s o xs op, ReprL s o xs -> lop_pre xs op ->
  exists s' o', ll_list_step (s, o) op = Ok ((s', o'), snd (list_step xs op)) /\
    ReprL s' o' (fst (list_step xs op)).
Proof.
  intros s o xs op R P. pose proof R as (ids & R0 & C0).
  destruct op; cbn [ll_list_step list_step fst snd].
  - destruct (ll_append_ok elem ekey s o xs e R) as (s' & o' & E & R'). rewrite E. cbn [bind]. eauto.
  - destruct (ll_prepend_ok elem ekey s o xs e R) as (s' & o' & E & R'). rewrite E. cbn [bind]. eauto.
  - destruct (ll_insert_ok elem ekey s o xs e R) as (s' & o' & E & R'). rewrite E. cbn [bind].
    rewrite g_ins_elem in R' by exact P. eauto.
  - destruct (ll_insert_at_ok elem ekey s o xs e idx R) as (s' & o' & E & R'). rewrite E. cbn [bind].
    unfold l_insert_at, llen. rewrite g_ins_at_elem in R'.
    destruct (norm_idx (Z.of_nat (length xs)) idx <? 0)%Z; cbn [negb fst snd]; eauto.
  - destruct (ll_remove_gen_ok elem ekey (comp_probe_data elem ekey) s o xs (option_map ekey p) R) as (s' & o' & E & R').
    { intros pk x _ _. apply cmp_agrees_probe. }
    unfold ll_remove. rewrite E. cbn [bind]. destruct p as [p|]; cbn [option_map] in *.
    + rewrite g_rem_elem in *. destruct (rem_first (ekey p) xs) as [xs' r]. cbn [fst snd] in *. eauto.
    + eauto.
  - destruct (ll_remove_at_ok elem s o xs idx R) as (s' & o' & E & R'). rewrite E. cbn [bind].
    rewrite g_remove_at_elem in *. destruct (l_remove_at xs idx) as [xs' r]. cbn [fst snd] in *. eauto.
  - rewrite (ll_get_ok elem _ _ _ _ idx R0). cbn [bind]. rewrite g_get_elem. eauto.
  - rewrite (ll_index_ok elem ekey _ _ _ _ (ekey p) R0). cbn [bind]. rewrite g_index_elem. eauto.
  - rewrite (ll_find_ok elem ekey _ _ _ _ (option_map ekey p) R0). cbn [bind].
    destruct p as [p|]; cbn [option_map]; [rewrite g_find_elem|]; eauto.
  - unfold ll_contains. rewrite (ll_find_ok elem ekey _ _ _ _ (option_map ekey p) R0). cbn [bind].
    destruct p as [p|]; cbn [option_map]; [rewrite g_find_elem|]; eauto.
  - destruct R0 as (_ & _ & _ & L). unfold ll_count. rewrite L. eauto.
  - destruct (ll_reverse_ok elem s o xs R) as (s' & o' & E & R'). rewrite E. cbn [bind]. eauto.
  - rewrite (ll_to_array_ok elem _ _ _ _ R0). cbn [bind]. eauto.
  - rewrite (ll_iterate_ok elem _ _ _ _ R0). cbn [bind]. rewrite it_sweep_exact by lia. eauto.
  - destruct (ll_dup_step s o xs R) as (s' & E & R'). cbn [ll_list_step list_step snd] in E. rewrite E. eauto.
Qed.

(* ---- histories ----------------------------------------------------------------------------- *)
Theorem linked_list_list_refines_from : forall ops s o xs, ReprL s o xs -> lpre_run xs ops ->
  exists s' o', run_model ll_list_step (s, o) ops = Ok ((s', o'), outs list_step xs ops) /\
    ReprL s' o' (final list_step xs ops).
Proof.
  induction ops as [|op t IH]; intros s o xs R P.
  - exists s, o. split; [reflexivity|exact R].
  - destruct P as [P1 P2].
    destruct (ll_list_step_ok s o xs op R P1) as (s1 & o1 & E1 & R1).
    destruct (IH s1 o1 _ R1 P2) as (s2 & o2 & E2 & R2).
    exists s2, o2. cbn [run_model outs]. rewrite E1. cbn [bind]. rewrite E2. cbn [bind].
    rewrite final_cons. split; [reflexivity|exact R2].
Qed.

Theorem linked_list_list_refines : forall ops, lpre_run [] ops ->
  exists s' o', run_model ll_list_step lst0 ops = Ok ((s', o'), outs list_step [] ops) /\
    ReprL s' o' (final list_step [] ops).
Proof. intros ops P. apply linked_list_list_refines_from; [apply Repr_nil|exact P]. Qed.

(* in particular: never a Fault *)
Corollary linked_list_list_safe : forall ops, lpre_run [] ops -> is_ok (run_model ll_list_step lst0 ops) = true.
Proof. intros ops P. destruct (linked_list_list_refines ops P) as (s' & o' & E & _). rewrite E. reflexivity. Qed.

(* the harness's read-back (count, get(-n-1..n), fresh iterator) of a represented state is the ideal one *)
Lemma ll_list_readback_ok : forall s o xs, ReprL s o xs ->
  ll_list_readback (s, o) = Ok (list_readback xs).
Proof.
  intros s o xs (ids & R & C). pose proof R as (_ & _ & _ & L).
  unfold ll_list_readback, list_readback, ll_count, llen. rewrite L.
  rewrite (get_range_ok elem _ _ _ _ _ _ R). cbn [bind].
  rewrite (ll_iterate_ok elem _ _ _ _ R). cbn [bind]. rewrite it_sweep_exact by lia. cbn [fst].
  replace (Z.to_nat (2 * Z.of_nat (length xs) + 2)) with (2 * length xs + 2) by lia.
  f_equal. f_equal. f_equal. apply map_ext. intros j. rewrite g_get_elem. f_equal. lia.
Qed.

(* tear-down: deleting the list frees every item (nothing leaks) *)
Theorem linked_list_list_no_leak : forall ops, lpre_run [] ops ->
  exists s' o' s'', run_model ll_list_step lst0 ops = Ok ((s', o'), outs list_step [] ops) /\
    ll_del elem s' o' = Ok s'' /\ forall j n, nth_error s'' j <> Some (Some n).
Proof.
  intros ops P. destruct (linked_list_list_refines ops P) as (s' & o' & E & R).
  destruct (ll_del_no_leak elem s' o' _ R) as (s'' & E' & A). eauto 6.
Qed.

(* the structure dump compared by the tie (checks/cont_linked_list_tie.py) *)
Lemma ReprL_dump : forall s o xs, ReprL s o xs ->
  ll_dump elem s o = Ok xs /\ ll_len o = Z.of_nat (length xs).
Proof.
  intros s o xs (ids & R & _). split; [eapply ll_dump_ok; eauto|]. destruct R as (_ & _ & _ & L). exact L.
Qed.
