(* DListOps - one lemma per operation of the pointer-level model DListModel.v, generic in the
   data type of the items: if the invariant holds, the operation returns Ok, its result is the
   one computed on the cell list, and the invariant holds for the new cell list. *)
From LV Require Import Cont.ContSpec Cont.ContKey Cont.DListModel Cont.DListStore.
Local Open Scope Z_scope.

Lemma upd_upd_same : forall A (l : list A) i x y, upd (upd l i x) i y = upd l i y.
Proof. induction l; destruct i; cbn; intros; auto. f_equal. auto. Qed.

Lemma snoc_case : forall A (l : list A), l = [] \/ exists l' x, l = l' ++ [x].
Proof. intros. destruct l using rev_ind; eauto. Qed.

(* the prefix before the first element satisfying f, and the rest *)
Fixpoint split_at {A} (f : A -> bool) (l : list A) : list A * list A :=
  match l with
  | [] => ([], [])
  | x :: t => if f x then ([], l) else let (a, r) := split_at f t in (x :: a, r)
  end.
Lemma split_at_app : forall A (f : A -> bool) l, l = fst (split_at f l) ++ snd (split_at f l).
Proof.
  induction l; cbn; auto. destruct (f a); cbn; auto. destruct (split_at f l); cbn in *. congruence.
Qed.
Lemma split_at_fst : forall A (f : A -> bool) l x, In x (fst (split_at f l)) -> f x = false.
Proof.
  induction l; cbn; intros; [tauto|]. destruct (f a) eqn:E; cbn in *; [tauto|].
  destruct (split_at f l); cbn in *. destruct H; subst; auto.
Qed.
Lemma split_at_snd : forall A (f : A -> bool) l x r, snd (split_at f l) = x :: r -> f x = true.
Proof.
  induction l; cbn; intros; [discriminate|]. destruct (f a) eqn:E; cbn in *.
  - inversion H; subst; auto.
  - destruct (split_at f l); cbn in *. eauto.
Qed.
Lemma split_at_map : forall A B (g : B -> A) (f : A -> bool) l,
  split_at f (map g l) = (map g (fst (split_at (fun x => f (g x)) l)), map g (snd (split_at (fun x => f (g x)) l))).
Proof.
  induction l; cbn; auto. destruct (f (g a)); cbn; auto. rewrite IHl.
  destruct (split_at (fun x => f (g x)) l); cbn. auto.
Qed.

(* ---------------------------------------------------------------------------------------- *)
(* symbolic execution of store accesses *)
Ltac addr := rewrite ?length_upd, ?app_length; cbn [length]; first [lia | congruence | (eapply lookup_lt; eassumption)].
Ltac lk := repeat first
  [ rewrite lookup_upd_same by addr
  | rewrite lookup_upd_other by addr
  | rewrite lookup_app_new
  | rewrite lookup_app_l by addr ].
Ltac lk_solve := lk; first [eassumption | reflexivity].
Ltac rd_tac :=
  match goal with
  | |- context [rd ?S (Some ?i)] =>
    let H := fresh "Hrd" in
    eassert (H : lookup S i = Some _) by lk_solve;
    rewrite (rd_some _ _ _ _ H); clear H; cbn [bind ndata nprev nnext]
  end.
Ltac md_tac :=
  match goal with
  | |- context [modify ?S (Some ?i) ?f] =>
    let H := fresh "Hmd" in
    eassert (H : lookup S i = Some _) by lk_solve;
    rewrite (modify_some _ _ _ _ f H); clear H; cbn [bind ndata nprev nnext]
  end.
Ltac del_tac :=
  match goal with
  | |- context [item_del ?S (Some ?i)] =>
    let H := fresh "Hdl" in
    eassert (H : lookup S i = Some _) by lk_solve;
    rewrite (item_del_some _ _ _ _ H); clear H; cbn [bind]
  end.
Ltac exec := unfold set_data, set_prev, set_next;
  repeat first [rd_tac | md_tac | del_tac | rewrite upd_upd_same]; cbn [bind].

Ltac live_upds := repeat (apply live_in_upd_some; [lk; congruence|]).
Ltac frame_seg := repeat (apply dlseg_upd_other; [assumption|]); try apply dlseg_alloc; try assumption.

Section Ops.
Variable D : Type.
Variable dcmp : D -> D -> comparison.
Notation node := (node D).
Notation store := (store D).
Notation cell := (nat * option D)%type.

Lemma fresh_notin : forall (st : store) p (cs : list cell) n, dlseg st p cs n -> ~ In (length st) (ids cs).
Proof. intros st p cs n H HI. eapply dlseg_lt in HI; eauto. lia. Qed.

Lemma nodup_snoc : forall (cs : list cell) c, NoDup (ids cs) -> ~ In (fst c) (ids cs) -> NoDup (ids (cs ++ [c])).
Proof. intros. apply nodup_insert; rewrite app_nil_r; auto. Qed.

Lemma inc_len_ok : forall o, dlen o < INT_MAX -> inc_len o = Ok (mkDl (dlen o + 1) (dhead o) (dtail o)).
Proof. intros. unfold inc_len. apply Z.ltb_lt in H. rewrite H. auto. Qed.

(* ---------------------------------------------------------------------------------------- *)
(* append / prepend *)
Lemma dl_append_inv : forall (st : store) o cs d, Inv st o cs -> dlen o < INT_MAX ->
  exists st' o', dl_append st o d = Ok (st', o', true) /\ Inv st' o' (cs ++ [(length st, d)]).
Proof.
  intros st o cs d [[Hs Hn Hh Ht Hl] Hlive] Hlt.
  pose proof (fresh_notin _ _ _ _ Hs) as Hfresh.
  unfold dl_append, item_new.
  destruct (snoc_case _ cs) as [-> | (cs' & [t x] & ->)].
  - cbn in Ht, Hh. rewrite Ht. exec. rewrite inc_len_ok by (cbn [dlen]; lia). cbn [bind dlen dhead dtail].
    do 2 eexists. split; [reflexivity|]. split.
    + constructor; cbn; auto.
      * split; auto. lk_solve.
      * repeat constructor. cbn. tauto.
      * cbn in Hl. lia.
    + live_upds. eapply live_in_incl; [apply live_in_alloc; eauto|]. cbn. intros a Ha. auto.
  - rewrite lastp_snoc in Ht. cbn [fst] in Ht. rewrite Ht.
    apply dlseg_app in Hs. destruct Hs as [Hs1 [Hs2 _]]. cbn [fst snd hdp] in *.
    rewrite ids_app in Hfresh. cbn in Hfresh.
    destruct (nodup_mid _ _ (t, x) [] Hn) as (Hnt & _ & Hn').
    assert (Htlt : (t < length st)%nat) by (eapply lookup_lt; eauto).
    assert (Hf1 : ~ In (length st) (ids cs')) by (intro; apply Hfresh; apply in_or_app; auto).
    exec. rewrite inc_len_ok by (cbn [dlen]; lia). cbn [bind dlen dhead dtail].
    do 2 eexists. split; [reflexivity|]. split.
    + constructor; cbn [dlen dhead dtail].
      * rewrite !dlseg_app. cbn [dlseg hdp fst snd]. rewrite lastp_snoc. cbn [fst].
        repeat split; try lk_solve. frame_seg.
      * apply nodup_snoc; auto. rewrite ids_app. auto.
      * rewrite Hh, <- app_assoc, !hdp_app. auto.
      * rewrite lastp_snoc. auto.
      * rewrite Hl, !app_length. cbn. lia.
    + live_upds. eapply live_in_incl; [apply live_in_alloc; eauto|].
      rewrite !ids_app. cbn. intros a [Ha | Ha]; subst; auto with datatypes.
Qed.

Lemma dl_prepend_inv : forall (st : store) o cs d, Inv st o cs -> dlen o < INT_MAX ->
  exists st' o', dl_prepend st o d = Ok (st', o', true) /\ Inv st' o' ((length st, d) :: cs).
Proof.
  intros st o cs d [[Hs Hn Hh Ht Hl] Hlive] Hlt.
  pose proof (fresh_notin _ _ _ _ Hs) as Hfresh.
  unfold dl_prepend, item_new.
  destruct cs as [|[h x] cs'].
  - cbn in Ht, Hh, Hl. rewrite Hh. exec. rewrite inc_len_ok by (cbn [dlen]; lia). cbn [bind dlen dhead dtail].
    do 2 eexists. split; [reflexivity|]. split.
    + constructor; cbn; auto.
      * split; auto. lk_solve.
      * repeat constructor. cbn. tauto.
      * lia.
    + live_upds. eapply live_in_incl; [apply live_in_alloc; eauto|]. cbn. intros a Ha. auto.
  - cbn [hdp fst] in Hh. rewrite Hh. destruct Hs as [Hs1 Hs2]. cbn [fst snd] in *.
    inversion Hn as [|? ? Hnh Hn']; subst.
    assert (Hhlt : (h < length st)%nat) by (eapply lookup_lt; eauto).
    assert (Hf1 : ~ In (length st) (ids cs')) by (intro; apply Hfresh; right; auto).
    exec. rewrite inc_len_ok by (cbn [dlen]; lia). cbn [bind dlen dhead dtail].
    do 2 eexists. split; [reflexivity|]. split.
    + constructor; cbn [dlen dhead dtail].
      * cbn [dlseg hdp fst snd]. repeat split; try lk_solve. frame_seg.
      * cbn. constructor; auto.
      * auto.
      * rewrite Ht. auto.
      * rewrite Hl. cbn [length]. lia.
    + live_upds. eapply live_in_incl; [apply live_in_alloc; eauto|]. intros a Ha; auto.
Qed.

(* ---------------------------------------------------------------------------------------- *)
(* forward scan *)
Lemma scan_spec : forall (b : list cell) (st : store) p fuel stop sb i,
  dlseg st p b None -> (length b < fuel)%nat ->
  (forall c, In c b -> stop (snd c) = Ok (sb (snd c))) ->
  scan fuel st (hdp b None) stop i =
  Ok (hdp (snd (split_at (fun c => sb (snd c)) b)) None,
      i + Z.of_nat (length (fst (split_at (fun c => sb (snd c)) b)))).
Proof.
  induction b as [|c t IH]; intros st p fuel stop sb i Hs Hf Hstop.
  - destruct fuel; [cbn in Hf; lia|]. cbn. rewrite Z.add_0_r. auto.
  - destruct fuel; [cbn in Hf; lia|]. destruct Hs as [Hc Ht]. cbn [scan hdp].
    rewrite (rd_some _ _ _ _ Hc). cbn [bind ndata nnext].
    rewrite (Hstop c) by (left; auto). cbn [bind split_at].
    destruct (sb (snd c)); cbn [fst snd hdp length].
    + rewrite Z.add_0_r. auto.
    + rewrite (IH st (Some (fst c)) fuel stop sb (i + 1)); auto.
      * destruct (split_at (fun c0 => sb (snd c0)) t); cbn [fst snd length]. f_equal. f_equal. lia.
      * cbn in Hf. lia.
      * intros. apply Hstop. right; auto.
Qed.

Lemma data_of_hdp : forall (b : list cell) (st : store) p n, dlseg st p b n ->
  data_of st (hdp b None) = Ok (match b with [] => None | c :: _ => snd c end).
Proof.
  destruct b as [|c t]; cbn [data_of hdp]; intros; auto. destruct H as [H _]. rewrite (rd_some _ _ _ _ H). auto.
Qed.

(* ---------------------------------------------------------------------------------------- *)
(* index walks *)
Lemma walk_fwd_spec : forall (b : list cell) (st : store) p fuel i idx,
  dlseg st p b None -> (length b < fuel)%nat -> i <= idx ->
  walk_fwd fuel st (hdp b None) i idx = Ok (hdp (skipn (Z.to_nat (idx - i)) b) None).
Proof.
  induction b as [|c t IH]; intros st p fuel i idx Hs Hf Hi.
  - destruct fuel; [cbn in Hf; lia|]. cbn. rewrite skipn_nil. auto.
  - destruct fuel; [cbn in Hf; lia|]. destruct Hs as [Hc Ht]. cbn [walk_fwd hdp].
    destruct (i <? idx) eqn:E.
    + apply Z.ltb_lt in E. rewrite (rd_some _ _ _ _ Hc). cbn [bind nnext].
      rewrite (IH st (Some (fst c)) fuel (i + 1) idx); auto; [|cbn in Hf; lia|lia].
      replace (Z.to_nat (idx - i)) with (S (Z.to_nat (idx - (i + 1)))) by lia. auto.
    + apply Z.ltb_ge in E. replace (idx - i) with 0 by lia. auto.
Qed.

Lemma walk_back_spec : forall (a : list cell) (st : store) p n fuel i idx,
  dlseg st p a n -> (length a < fuel)%nat -> idx <= i -> i = Z.of_nat (length a) - 1 -> p = None ->
  walk_back fuel st (lastp a None) i idx = Ok (lastp (firstn (Z.to_nat (idx + 1)) a) None).
Proof.
  induction a as [|c t IH] using rev_ind; intros st p n fuel i idx Hs Hf Hi Hl Hp.
  - destruct fuel; [cbn in Hf; lia|]. cbn. rewrite firstn_nil. auto.
  - destruct fuel; [rewrite app_length in Hf; cbn in Hf; lia|].
    rewrite app_length in *. cbn [length] in *.
    apply dlseg_app in Hs. destruct Hs as [Ht [Hc _]]. cbn [hdp] in *.
    rewrite lastp_snoc. cbn [walk_back].
    destruct (idx <? i) eqn:E.
    + apply Z.ltb_lt in E. rewrite (rd_some _ _ _ _ Hc). cbn [bind nprev]. subst p.
      rewrite (IH st None (Some (fst c)) fuel (i - 1) idx); auto; try lia.
      rewrite firstn_app. replace (Z.to_nat (idx + 1) - length t)%nat with O by lia.
      cbn [firstn]. rewrite app_nil_r. auto.
    + apply Z.ltb_ge in E. rewrite firstn_all2 by (rewrite app_length; cbn; lia).
      rewrite lastp_snoc. auto.
Qed.

Lemma hdp_skipn_nth : forall (cs : list cell) k c d, nth_error cs k = Some c -> hdp (skipn k cs) d = Some (fst c).
Proof.
  induction cs; destruct k; cbn; intros; try discriminate; eauto. inversion H; auto.
Qed.
Lemma lastp_firstn_nth : forall (cs : list cell) k c d, nth_error cs k = Some c -> lastp (firstn (S k) cs) d = Some (fst c).
Proof.
  induction cs; destruct k; cbn [nth_error firstn lastp]; intros; try discriminate.
  - inversion H; subst. destruct cs; auto.
  - eapply IHcs; eauto.
Qed.

Lemma locate_spec : forall (st : store) o cs idx c, Shape st o cs ->
  nth_error cs (Z.to_nat idx) = Some c -> 0 <= idx ->
  locate st o idx = Ok (Some (fst c)).
Proof.
  intros st o cs idx c Hsh Hn Hi. pose proof (shape_fuel _ _ _ _ Hsh) as Hf.
  destruct Hsh as [Hs Hnd Hh Ht Hl].
  assert (Hlt : (Z.to_nat idx < length cs)%nat) by (apply nth_error_Some; congruence).
  unfold locate. destruct (Z.quot (dlen o) 2 <? idx).
  - rewrite Ht. rewrite (walk_back_spec cs st None None); auto; try lia.
    replace (Z.to_nat (idx + 1)) with (S (Z.to_nat idx)) by lia.
    erewrite lastp_firstn_nth; eauto.
  - rewrite Hh. rewrite (walk_fwd_spec cs st None); auto. rewrite Z.sub_0_r.
    erewrite hdp_skipn_nth; eauto.
Qed.

Lemma dlseg_nth : forall (cs : list cell) (st : store) p n k c, dlseg st p cs n -> nth_error cs k = Some c ->
  exists q m, lookup st (fst c) = Some (mkNode (snd c) q m).
Proof.
  induction cs; destruct k; cbn [nth_error]; intros; try discriminate.
  - inversion H0; subst. destruct H. eauto.
  - destruct H. eauto.
Qed.

Definition in_rng (len idx : Z) : bool := negb ((idx <? 0) || negb (idx <? len)).

Lemma dl_get_spec : forall (st : store) o cs idx, Shape st o cs ->
  dl_get st o idx =
  Ok (let i := norm o idx in
      if (i <? 0) || negb (i <? dlen o) then None
      else match nth_error (vals cs) (Z.to_nat i) with Some x => x | None => None end).
Proof.
  intros st o cs idx Hsh. unfold dl_get. cbv zeta.
  destruct (norm o idx <? 0) eqn:E1; cbn [orb]; auto.
  destruct (norm o idx <? dlen o) eqn:E2; cbn [negb]; auto.
  apply Z.ltb_ge in E1. apply Z.ltb_lt in E2.
  pose proof (sh_len _ _ _ _ Hsh) as Hl.
  destruct (nth_error cs (Z.to_nat (norm o idx))) as [c|] eqn:En.
  2:{ apply nth_error_None in En. lia. }
  rewrite (locate_spec st o cs _ c); auto. cbn [bind].
  destruct (dlseg_nth _ _ _ _ _ _ (sh_seg _ _ _ _ Hsh) En) as (q & m & Hc).
  unfold data_of. rewrite (rd_some _ _ _ _ Hc). cbn [bind ndata].
  unfold vals. rewrite nth_error_map, En. auto.
Qed.

(* ---------------------------------------------------------------------------------------- *)
(* changing the outward links of a segment *)
Definition same_live (st st' : store) : Prop := forall j, lookup st' j = None <-> lookup st j = None.

Lemma same_live_refl : forall st, same_live st st.
Proof. unfold same_live; tauto. Qed.
Lemma same_live_trans : forall st1 st2 st3, same_live st1 st2 -> same_live st2 st3 -> same_live st1 st3.
Proof. unfold same_live; intros. rewrite H0. auto. Qed.
Lemma same_live_upd : forall (st : store) i nd nd', lookup st i = Some nd -> same_live st (upd st i (Some nd')).
Proof.
  unfold same_live. intros. destruct (Nat.eq_dec i j).
  - subst. rewrite lookup_upd_same by (eapply lookup_lt; eauto). rewrite H. split; discriminate.
  - rewrite lookup_upd_other; tauto.
Qed.
Lemma same_live_in : forall (st st' : store) L, same_live st st' -> live_in st L -> live_in st' L.
Proof. unfold same_live, live_in. intros. apply H0. rewrite <- H. auto. Qed.

Lemma dlseg_set_last_next : forall (a : list cell) (st : store) p n, dlseg st p a n -> NoDup (ids a) -> a <> [] ->
  exists pa nd, lastp a p = Some pa /\ In pa (ids a) /\ lookup st pa = Some nd /\ nnext nd = n /\
    forall n', dlseg (upd st pa (Some (mkNode (ndata nd) (nprev nd) n'))) p a n'.
Proof.
  intros a st p n Hs Hn Hne. destruct (snoc_case _ a) as [-> | (a' & c & ->)]; [congruence|].
  apply dlseg_app in Hs. destruct Hs as [Ha' [Hc _]]. cbn [hdp] in *.
  destruct (nodup_mid _ _ c [] Hn) as (Hnc & _ & _).
  exists (fst c). eexists. rewrite lastp_snoc. split; [auto|]. split.
  { rewrite ids_app. apply in_or_app. right. left. auto. }
  split; [eauto|]. split; [auto|].
  intros n'. apply dlseg_app. cbn [dlseg hdp ndata nprev]. split; [|split; auto].
  - apply dlseg_upd_other; auto.
  - rewrite lookup_upd_same; auto. eapply lookup_lt; eauto.
Qed.

Lemma dlseg_set_first_prev : forall (b : list cell) (st : store) p n, dlseg st p b n -> NoDup (ids b) -> b <> [] ->
  exists nb nd, hdp b n = Some nb /\ In nb (ids b) /\ lookup st nb = Some nd /\ nprev nd = p /\
    forall p', dlseg (upd st nb (Some (mkNode (ndata nd) p' (nnext nd)))) p' b n.
Proof.
  intros b st p n Hs Hn Hne. destruct b as [|c t]; [congruence|]. destruct Hs as [Hc Ht].
  inversion Hn; subst.
  exists (fst c). eexists. split; [auto|]. split; [left; auto|]. split; [eauto|]. split; [auto|].
  intros p'. cbn [dlseg ndata nnext]. split.
  - rewrite lookup_upd_same; auto. eapply lookup_lt; eauto.
  - apply dlseg_upd_other; auto.
Qed.

Lemma hdp_mid_eqb : forall (a : list cell) c b, ~ In (fst c) (ids a) ->
  ptr_eqb (Some (fst c)) (hdp (a ++ c :: b) None) = match a with [] => true | _ => false end.
Proof.
  intros. destruct a as [|a0 a']; cbn.
  - apply Nat.eqb_refl.
  - apply Nat.eqb_neq. intro. apply H. left. auto.
Qed.
Lemma lastp_mid_eqb : forall (a : list cell) c b, ~ In (fst c) (ids b) ->
  ptr_eqb (Some (fst c)) (lastp (a ++ c :: b) None) = match b with [] => true | _ => false end.
Proof.
  intros. rewrite lastp_app. cbn [lastp]. destruct b as [|b0 b'].
  - cbn. apply Nat.eqb_refl.
  - destruct (lastp_nonnil _ (b0 :: b') (Some (fst c)) ltac:(discriminate)) as (x & -> & Hx).
    cbn. apply Nat.eqb_neq. intro E. apply H. rewrite E. apply in_ids. auto.
Qed.

Lemma unlink_inv : forall (st : store) o (a : list cell) c b, Inv st o (a ++ c :: b) ->
  exists st' o', unlink st o (Some (fst c)) = Ok (st', o', snd c) /\ Inv st' o' (a ++ b).
Proof.
  intros st o a c b [[Hs Hn Hh Ht Hl] Hlive].
  apply dlseg_app in Hs. destruct Hs as [Ha [Hc Hb]]. cbn [hdp] in Ha.
  destruct (nodup_mid _ _ _ _ Hn) as (Hca & Hcb & Hnab).
  pose proof (nodup_app_l _ _ _ Hnab) as Hna. pose proof (nodup_app_r _ _ _ Hnab) as Hnb.
  unfold unlink. rewrite (rd_some _ _ _ _ Hc). cbn [bind nprev nnext ndata].
  assert (S1 : exists st1,
     (if is_null (lastp a None) then Ok st else set_next st (lastp a None) (hdp b None)) = Ok st1 /\
     dlseg st1 None a (hdp b None) /\ (forall j, ~ In j (ids a) -> lookup st1 j = lookup st j) /\
     same_live st st1).
  { destruct a as [|a0 a'].
    - exists st. cbn. repeat split; auto using same_live_refl.
    - destruct (dlseg_set_last_next _ _ _ _ Ha Hna ltac:(discriminate)) as (pa & nd & Hl1 & Hin & Hlk & Hnx & Hset).
      rewrite Hl1. cbn [is_null]. unfold set_next. rewrite (modify_some _ _ _ _ _ Hlk).
      eexists. split; [reflexivity|]. split; [apply Hset|]. split.
      + intros j Hj. apply lookup_upd_other. intro; subst; auto.
      + eapply same_live_upd; eauto. }
  destruct S1 as (st1 & -> & Ha1 & Hfr1 & Hsl1). cbn [bind].
  assert (Hc1 : lookup st1 (fst c) = Some (mkNode (snd c) (lastp a None) (hdp b None))) by (rewrite Hfr1; auto).
  rewrite (rd_some _ _ _ _ Hc1). cbn [bind nprev nnext ndata].
  assert (Hb1 : dlseg st1 (Some (fst c)) b None).
  { apply dlseg_frame with st; auto. intros. apply Hfr1. intro. eapply nodup_app_disj; eauto. }
  assert (S2 : exists st2,
     (if is_null (hdp b None) then Ok st1 else set_prev st1 (hdp b None) (lastp a None)) = Ok st2 /\
     dlseg st2 (lastp a None) b None /\ (forall j, ~ In j (ids b) -> lookup st2 j = lookup st1 j) /\
     same_live st1 st2).
  { destruct b as [|b0 b'].
    - exists st1. cbn. repeat split; auto using same_live_refl.
    - destruct (dlseg_set_first_prev _ _ _ _ Hb1 Hnb ltac:(discriminate)) as (nb & nd & Hl1 & Hin & Hlk & Hnx & Hset).
      rewrite Hl1. cbn [is_null]. unfold set_prev. rewrite (modify_some _ _ _ _ _ Hlk).
      eexists. split; [reflexivity|]. split; [apply Hset|]. split.
      + intros j Hj. apply lookup_upd_other. intro; subst; auto.
      + eapply same_live_upd; eauto. }
  destruct S2 as (st2 & -> & Hb2 & Hfr2 & Hsl2). cbn [bind].
  assert (Hc2 : lookup st2 (fst c) = Some (mkNode (snd c) (lastp a None) (hdp b None))) by (rewrite Hfr2; auto).
  exec. rewrite Hh, hdp_mid_eqb by auto.
  match goal with |- context [ptr_eqb _ (dtail ?X)] => replace (dtail X) with (dtail o) by (destruct a; auto) end.
  rewrite Ht, lastp_mid_eqb by auto.
  do 2 eexists. split; [reflexivity|].
  assert (Ha2 : dlseg st2 None a (hdp b None)).
  { apply dlseg_frame with st1; auto. intros. apply Hfr2. intro. eapply nodup_app_disj; eauto. }
  split.
  - constructor.
    + apply dlseg_app. split; apply dlseg_upd_other; auto.
    + auto.
    + rewrite hdp_app. destruct a, b; cbn; auto.
    + destruct a, b; cbn [dtail dhead dlen dec_len]; rewrite ?Ht, ?lastp_app; cbn [lastp]; auto.
    + destruct a, b; cbn [dlen dec_len]; rewrite Hl, ?app_length; cbn [length]; rewrite ?app_length; cbn [length]; lia.
  - eapply live_in_free with (L := ids (a ++ c :: b)).
    + eapply same_live_in; [|eauto]. eapply same_live_trans; eauto.
    + intros x Hx Hne. rewrite ids_app in *. cbn in Hx. apply in_app_or in Hx. apply in_or_app.
      destruct Hx as [|[|]]; auto. congruence.
Qed.

(* ---------------------------------------------------------------------------------------- *)
(* remove / remove_at *)
Definition eq_test (p : D) (c : cell) : bool := is_eq (ocmp dcmp p (snd c)).

Lemma dl_remove_inv : forall (st : store) o cs p, Inv st o cs ->
  match snd (split_at (eq_test p) cs) with
  | [] => dl_remove dcmp st o (Some p) = Ok (st, o, None)
  | c :: b => exists st' o', dl_remove dcmp st o (Some p) = Ok (st', o', snd c) /\
                             Inv st' o' (fst (split_at (eq_test p) cs) ++ b)
  end.
Proof.
  intros st o cs p HI. pose proof HI as [Hsh Hlive]. pose proof (shape_fuel _ _ _ _ Hsh) as Hf.
  unfold dl_remove. rewrite (sh_head _ _ _ _ Hsh).
  destruct (is_null (hdp cs None)) eqn:Enull.
  { destruct cs; [cbn; auto | discriminate]. }
  rewrite (scan_spec cs st None _ _ (fun d => is_eq (ocmp dcmp p d))); auto using (sh_seg _ _ _ _ Hsh).
  cbn [bind]. fold (eq_test p). pose proof (split_at_app _ (eq_test p) cs) as Happ.
  destruct (split_at (eq_test p) cs) as [a r]. cbn [fst snd] in *.
  destruct r as [|c b]; [cbn; auto|]. cbn [hdp is_null]. subst cs.
  apply unlink_inv; auto.
Qed.

Lemma nth_error_split3 : forall A (l : list A) k x, nth_error l k = Some x -> l = firstn k l ++ x :: skipn (S k) l.
Proof.
  induction l; destruct k; cbn [nth_error firstn skipn app]; intros; try discriminate.
  - inversion H; auto.
  - f_equal. apply IHl. auto.
Qed.

Lemma dl_remove_at_inv : forall (st : store) o cs idx, Inv st o cs ->
  let i := norm o idx in
  if (i <? 0) || negb (i <? dlen o) then dl_remove_at st o idx = Ok (st, o, None)
  else exists st' o' c, nth_error cs (Z.to_nat i) = Some c /\
         dl_remove_at st o idx = Ok (st', o', snd c) /\
         Inv st' o' (firstn (Z.to_nat i) cs ++ skipn (S (Z.to_nat i)) cs).
Proof.
  intros st o cs idx HI i. pose proof HI as [Hsh Hlive]. pose proof (sh_len _ _ _ _ Hsh) as Hl.
  unfold dl_remove_at. fold i. rewrite (sh_head _ _ _ _ Hsh).
  destruct (is_null (hdp cs None)) eqn:Enull.
  - destruct cs; [|discriminate]. cbn in Hl. destruct (i <? 0) eqn:E1; cbn [orb]; auto.
    destruct (i <? dlen o) eqn:E2; cbn [negb]; auto. apply Z.ltb_ge in E1. apply Z.ltb_lt in E2. lia.
  - destruct (i <? 0) eqn:E1; cbn [orb]; auto.
    destruct (i <? dlen o) eqn:E2; cbn [negb]; auto.
    apply Z.ltb_ge in E1. apply Z.ltb_lt in E2.
    destruct (nth_error cs (Z.to_nat i)) as [c|] eqn:En.
    2:{ apply nth_error_None in En. lia. }
    rewrite (locate_spec st o cs i c); auto. cbn [bind is_null].
    pose proof (nth_error_split3 _ _ _ _ En) as Hsp.
    rewrite Hsp in HI. destruct (unlink_inv _ _ _ _ _ HI) as (st' & o' & Hu & HI').
    exists st', o', c. auto.
Qed.

(* ---------------------------------------------------------------------------------------- *)
(* splicing a prepared item between two segments (insert, insert_at) *)
Lemma splice_seg : forall (A B : list cell) (stN : store) n d pa,
  A <> [] -> dlseg stN None A (hdp B None) -> dlseg stN (lastp A None) B None ->
  NoDup (ids (A ++ B)) -> ~ In n (ids (A ++ B)) -> lastp A None = Some pa ->
  lookup stN n = Some (mkNode d (Some pa) (hdp B None)) ->
  exists ndN st1 st2,
    lookup stN pa = Some ndN /\ nnext ndN = hdp B None /\
    (if is_null (hdp B None) then Ok stN else set_prev stN (hdp B None) (Some n)) = Ok st1 /\
    set_next st1 (Some pa) (Some n) = Ok st2 /\
    dlseg st2 None (A ++ (n, d) :: B) None /\ same_live stN st2.
Proof.
  intros A B stN n d pa HA HsA HsB Hnd Hn Hpa Hln.
  pose proof (nodup_app_l _ _ _ Hnd) as HnA. pose proof (nodup_app_r _ _ _ Hnd) as HnB.
  destruct (dlseg_set_last_next _ _ _ _ HsA HnA HA) as (pa' & nd & Hl1 & HinA & Hlk & Hnx & Hset).
  rewrite Hpa in Hl1. inversion Hl1; subst pa'. clear Hl1.
  assert (Hnpa : n <> pa). { intro; subst. apply Hn. rewrite ids_app. apply in_or_app. auto. }
  rewrite ids_app in Hn.
  exists nd. destruct B as [|b0 B'].
  - cbn [hdp is_null] in *. exists stN. unfold set_next. rewrite (modify_some _ _ _ _ _ Hlk).
    eexists. split; [eauto|]. split; [auto|]. split; [reflexivity|]. split; [reflexivity|]. split.
    + apply dlseg_app. cbn [dlseg hdp fst snd]. split; [apply Hset|]. split; auto.
      rewrite lookup_upd_other by auto. rewrite Hpa. auto.
    + eapply same_live_upd; eauto.
  - destruct (dlseg_set_first_prev _ _ _ _ HsB HnB ltac:(discriminate)) as (nb & ndb & Hb1 & HinB & Hlkb & Hpb & Hsetb).
    assert (Hpanb : pa <> nb). { intro; subst. eapply nodup_app_disj; eauto. }
    assert (Hnnb : n <> nb). { intro; subst. apply Hn. apply in_or_app. auto. }
    rewrite Hb1. cbn [is_null]. unfold set_prev, set_next. rewrite (modify_some _ _ _ _ _ Hlkb).
    eexists. eexists. split; [eauto|]. split; [congruence|]. split; [reflexivity|].
    assert (Hlk1 : lookup (upd stN nb (Some (mkNode (ndata ndb) (Some n) (nnext ndb)))) pa = Some nd)
      by (rewrite lookup_upd_other; auto).
    rewrite (modify_some _ _ _ _ _ Hlk1). split; [reflexivity|]. split.
    + apply dlseg_app. cbn [dlseg fst snd]. split; [|split].
      * apply dlseg_frame with (upd stN pa (Some (mkNode (ndata nd) (nprev nd) (Some n)))); [|apply Hset].
        intros i Hi. assert (i <> nb) by (intro; subst; eapply nodup_app_disj; eauto).
        destruct (Nat.eq_dec i pa).
        -- subst. rewrite !lookup_upd_same; auto.
           ++ eapply lookup_lt; eauto.
           ++ rewrite length_upd. eapply lookup_lt; eauto.
        -- rewrite !lookup_upd_other; auto.
      * rewrite !lookup_upd_other by auto. rewrite Hpa. auto.
      * apply (dlseg_upd_other D (b0 :: B')); [intro; eapply nodup_app_disj; eauto|]. apply Hsetb.
    + eapply same_live_trans; eapply same_live_upd; eauto.
Qed.

(* ---------------------------------------------------------------------------------------- *)
(* ordered insert *)
Definition ins_test (d : option D) (y : cell) : bool := negb (is_gt (item_comp dcmp d (snd y))).

Definition ins_cells (new : cell) (cs : list cell) : list cell :=
  match cs with
  | [] => [new]
  | h :: t =>
    if is_lt (item_comp dcmp (snd new) (snd h)) then new :: cs
    else if is_gt (item_comp dcmp (snd new) (snd (last cs h))) then cs ++ [new]
    else h :: fst (split_at (ins_test (snd new)) t) ++ new :: snd (split_at (ins_test (snd new)) t)
  end.

Lemma ins_scan_spec : forall (t : list cell) (st : store) p c fuel n d q m,
  dlseg st p (c :: t) None -> (length t < fuel)%nat -> lookup st n = Some (mkNode d q m) ->
  ins_scan dcmp fuel st (Some n) (Some (fst c)) = Ok (lastp (fst (split_at (ins_test d) t)) (Some (fst c))).
Proof.
  induction t as [|y t' IH]; intros st p c fuel n d q m Hs Hf Hn.
  - destruct fuel; [cbn in Hf; lia|]. destruct Hs as [Hc _]. cbn [ins_scan].
    rewrite (rd_some _ _ _ _ Hc). cbn. auto.
  - destruct fuel; [cbn in Hf; lia|]. destruct Hs as [Hc Hs']. cbn [ins_scan].
    rewrite (rd_some _ _ _ _ Hc). cbn [bind nnext hdp]. unfold item_comp_p.
    pose proof Hs' as [Hy _]. rewrite (rd_some _ _ _ _ Hn), (rd_some _ _ _ _ Hy). cbn [bind ndata split_at].
    unfold ins_test at 1. destruct (is_gt (item_comp dcmp d (snd y))); cbn [negb].
    + rewrite (IH st (Some (fst c)) y fuel n d q m); auto; [|cbn in Hf; lia].
      destruct (split_at (ins_test d) t'). cbn. auto.
    + cbn. auto.
Qed.

Lemma dl_insert_inv : forall (st : store) o cs d, Inv st o cs -> dlen o < INT_MAX ->
  exists st' o', dl_insert dcmp st o d = Ok (st', o', true) /\ Inv st' o' (ins_cells (length st, d) cs).
Proof.
  intros st o cs d [[Hs Hn Hh Ht Hl] Hlive] Hlt.
  pose proof (fresh_notin _ _ _ _ Hs) as Hfresh.
  pose proof (shape_fuel _ _ _ _ (mkShape _ _ _ _ Hs Hn Hh Ht Hl)) as Hfuel.
  unfold dl_insert, item_new. rewrite Hh.
  destruct cs as [|[h x] t].
  { cbn in Ht, Hl. cbn [hdp is_null]. exec. rewrite inc_len_ok by (cbn [dlen]; lia). cbn [bind dlen dhead dtail].
    do 2 eexists. split; [reflexivity|]. split.
    + constructor; cbn; auto.
      * split; auto. lk_solve.
      * repeat constructor. cbn. tauto.
      * lia.
    + live_upds. eapply live_in_incl; [apply live_in_alloc; eauto|]. cbn. intros a Ha. auto. }
  cbn [hdp is_null fst]. pose proof Hs as [Hhd Hs'']. cbn [fst snd] in Hhd.
  inversion Hn as [|? ? Hnh Hn']; subst.
  assert (Hhlt : (h < length st)%nat) by (eapply lookup_lt; eauto).
  unfold item_comp_p at 1. exec. unfold ins_cells. cbn [snd].
  destruct (is_lt (item_comp dcmp d x)) eqn:Elt.
  { (* before the head *)
    exec. rewrite inc_len_ok by (cbn [dlen]; lia). cbn [bind dlen dhead dtail].
    assert (Hf1 : ~ In (length st) (ids t)) by (intro; apply Hfresh; right; auto).
    do 2 eexists. split; [reflexivity|]. split.
    + constructor; cbn [dlen dhead dtail].
      * cbn [dlseg hdp fst snd]. repeat split; try lk_solve. frame_seg.
      * cbn. constructor; auto.
      * auto.
      * rewrite Ht. auto.
      * rewrite Hl. cbn [length]. lia.
    + live_upds. eapply live_in_incl; [apply live_in_alloc; eauto|]. intros a Ha; auto. }
  (* the tail item *)
  destruct (snoc_case _ ((h, x) :: t)) as [E | (cs' & [l xl] & E)]; [discriminate|].
  rewrite E in *. rewrite last_last. rewrite lastp_snoc in Ht. cbn [fst snd] in *. rewrite Ht.
  apply dlseg_app in Hs. destruct Hs as [Hs1 [Hs2 _]]. cbn [fst snd hdp] in *.
  destruct (nodup_mid _ _ (l, xl) [] Hn) as (Hnl & _ & Hnc').
  rewrite ids_app in Hfresh. cbn in Hfresh.
  assert (Hllt : (l < length st)%nat) by (eapply lookup_lt; eauto).
  assert (Hf1 : ~ In (length st) (ids cs')) by (intro; apply Hfresh; apply in_or_app; auto).
  unfold item_comp_p at 1. exec.
  destruct (is_gt (item_comp dcmp d xl)) eqn:Egt.
  { (* after the tail *)
    exec. rewrite inc_len_ok by (cbn [dlen]; lia). cbn [bind dlen dhead dtail].
    do 2 eexists. split; [reflexivity|]. split.
    + constructor; cbn [dlen dhead dtail].
      * rewrite !dlseg_app. cbn [dlseg hdp fst snd]. rewrite lastp_snoc. cbn [fst].
        repeat split; try lk_solve. frame_seg.
      * apply nodup_snoc; auto. rewrite ids_app. auto.
      * rewrite <- E. rewrite <- app_comm_cons. auto.
      * rewrite lastp_snoc. auto.
      * rewrite Hl, !app_length. cbn. lia.
    + live_upds. eapply live_in_incl; [apply live_in_alloc; eauto|].
      rewrite !ids_app. cbn. intros a [Ha | Ha]; subst; auto with datatypes. }
  (* in the middle: scan from the head *)
  assert (HtL : lastp ((h, x) :: t) None = Some l) by (rewrite E, lastp_snoc; auto).
  rewrite <- E in *. clear E.
  set (n := length st) in *.
  set (st1 := upd (st ++ [Some (mkNode None None None)]) n (Some (mkNode d None None))).
  assert (Hfr : ~ In n (ids ((h, x) :: t))) by (apply (fresh_notin st None _ None); split; auto).
  assert (Hseg1 : dlseg st1 None ((h, x) :: t) None).
  { subst st1. apply dlseg_upd_other; [exact Hfr|]. apply dlseg_alloc. split; auto. }
  assert (Hn1 : lookup st1 n = Some (mkNode d None None)) by (subst st1; lk_solve).
  assert (Hlive1 : live_in st1 (n :: ids ((h, x) :: t))).
  { subst st1. live_upds. apply live_in_alloc. auto. }
  pose proof (ins_scan_spec t st1 None (h, x) (fuel_of st) n d None None Hseg1 ltac:(cbn in Hfuel; lia) Hn1) as Hscan.
  cbn [fst] in Hscan. rewrite Hscan. clear Hscan. cbn [bind fst].
  pose proof (split_at_app _ (ins_test d) t) as Happ.
  destruct (split_at (ins_test d) t) as [t1 t2]. cbn [fst snd] in *.
  set (A := (h, x) :: t1) in *.
  assert (HAB : (h, x) :: t = A ++ t2) by (subst A; rewrite Happ; auto).
  change (lastp t1 (Some h)) with (lastp A None).
  change ((h, x) :: t1 ++ (n, d) :: t2) with (A ++ (n, d) :: t2).
  assert (HAne : A <> []) by (subst A; discriminate).
  rewrite HAB in *. clearbody A. clear Happ.
  apply dlseg_app in Hseg1. destruct Hseg1 as [HsA HsB].
  pose proof (nodup_app_l _ _ _ Hn) as HnA.
  destruct (dlseg_set_last_next _ _ _ _ HsA HnA HAne) as (pa & nd & Hpa & HinA & Hlk & Hnx & _).
  rewrite Hpa in *.
  assert (Hnpa : n <> pa). { intro; subst pa. apply Hfr. rewrite ids_app. apply in_or_app. auto. }
  exec. rewrite Hnx.
  set (stN := upd st1 n (Some (mkNode d (Some pa) (hdp t2 None)))).
  assert (HnA' : ~ In n (ids A)) by (intro; apply Hfr; rewrite ids_app; apply in_or_app; auto).
  assert (HnB' : ~ In n (ids t2)) by (intro; apply Hfr; rewrite ids_app; apply in_or_app; auto).
  destruct (splice_seg A t2 stN n d pa) as (ndN & sa & sb & HlkN & HnxN & EB & EA & Hseg & Hsl); auto.
  { subst stN. apply dlseg_upd_other; auto. }
  { subst stN. rewrite Hpa. apply dlseg_upd_other; auto. }
  { subst stN. lk_solve. }
  assert (Hlen : dlen o + 1 = Z.of_nat (length (A ++ (n, d) :: t2))).
  { rewrite Hl, !app_length. cbn [length]. lia. }
  assert (HliveN : live_in sb (ids (A ++ (n, d) :: t2))).
  { eapply same_live_in; [exact Hsl|]. subst stN. apply live_in_upd_some; [rewrite Hn1; congruence|].
    eapply live_in_incl; [exact Hlive1|]. rewrite !ids_app. cbn. intros a [Ha | Ha]; subst; auto with datatypes.
    apply in_app_or in Ha. apply in_or_app. destruct Ha; auto. right. right. auto. }
  assert (Hnd' : NoDup (ids (A ++ (n, d) :: t2))) by (apply nodup_insert; auto).
  assert (Hhd' : Some h = hdp (A ++ (n, d) :: t2) None).
  { assert (HH : Some h = hdp (A ++ t2) None) by (rewrite <- HAB; auto).
    rewrite HH, !hdp_app. destruct A; [congruence|auto]. }
  destruct t2 as [|b0 t2'].
  - cbn [hdp is_null] in *. inversion EB; subst sa. cbn [bind].
    unfold set_next in EA. rewrite EA. cbn [bind]. rewrite inc_len_ok by (cbn [dlen]; lia). cbn [bind dlen dhead dtail].
    do 2 eexists. split; [reflexivity|]. split; auto.
    constructor; cbn [dlen dhead dtail]; auto. rewrite lastp_app. auto.
  - cbn [hdp is_null] in *. unfold set_prev in EB. rewrite EB. cbn [bind].
    unfold set_next in EA. rewrite EA. cbn [bind]. rewrite inc_len_ok by lia. cbn [bind dlen dhead dtail].
    do 2 eexists. split; [reflexivity|]. split; auto.
    constructor; cbn [dlen dhead dtail]; auto.
    + rewrite Hh, !hdp_app. destruct A; [congruence|auto].
    + rewrite Ht, <- HtL. rewrite !lastp_app. cbn [lastp]. auto.
Qed.

(* ---------------------------------------------------------------------------------------- *)
(* insert_at *)
Lemma pad_loop_inv : forall k (st : store) o cs, Inv st o cs -> dlen o + Z.of_nat k <= INT_MAX ->
  exists st' o' cs', pad_loop k st o = Ok (st', o') /\ Inv st' o' cs' /\
    vals cs' = vals cs ++ repeat None k /\ dlen o' = dlen o + Z.of_nat k.
Proof.
  induction k; intros st o cs HI Hb.
  - exists st, o, cs. cbn [pad_loop repeat]. rewrite app_nil_r. split; [reflexivity|]. split; [auto|]. split; [auto|cbn; lia].
  - destruct (dl_append_inv st o cs None HI ltac:(lia)) as (st1 & o1 & E1 & HI1).
    assert (Hl1 : dlen o1 = dlen o + 1).
    { destruct HI as [Hsh _], HI1 as [Hsh1 _]. rewrite (sh_len _ _ _ _ Hsh1), (sh_len _ _ _ _ Hsh), app_length. cbn. lia. }
    destruct (IHk st1 o1 _ HI1 ltac:(lia)) as (st' & o' & cs' & E & HI' & Hv & Hl').
    exists st', o', cs'. cbn [pad_loop]. rewrite E1. cbn [bind]. rewrite E.
    split; [reflexivity|]. split; [auto|]. split.
    + rewrite Hv, vals_app. cbn. rewrite <- app_assoc. auto.
    + lia.
Qed.

Lemma back_to_spec : forall (a : list cell) (st : store) n fuel idx,
  dlseg st None a n -> (length a < fuel)%nat -> 1 <= idx <= Z.of_nat (length a) ->
  back_to fuel st (lastp a None) (Z.of_nat (length a)) idx = Ok (lastp (firstn (Z.to_nat idx) a) None, idx).
Proof.
  induction a as [|c a' IH] using rev_ind; intros st n fuel idx Hs Hf Hi.
  - cbn in Hi. lia.
  - destruct fuel; [rewrite app_length in Hf; cbn in Hf; lia|].
    rewrite app_length in *. cbn [length] in *.
    apply dlseg_app in Hs. destruct Hs as [Ha' [Hc _]]. cbn [hdp] in *.
    rewrite lastp_snoc. cbn [back_to]. rewrite (rd_some _ _ _ _ Hc). cbn [bind nprev].
    destruct a' as [|a0 a''] eqn:Ea'.
    + cbn [lastp is_null negb andb]. cbn in Hi. replace idx with 1 by lia. cbn. auto.
    + rewrite <- Ea' in *.
      assert (Hnn : is_null (lastp a' None) = false).
      { destruct (lastp_nonnil _ a' None) as (y & -> & _); [congruence|auto]. }
      rewrite Hnn. cbn [negb andb].
      destruct (idx <? Z.of_nat (length a' + 1)) eqn:E.
      * apply Z.ltb_lt in E. replace (Z.of_nat (length a' + 1) - 1) with (Z.of_nat (length a')) by lia.
        rewrite (IH st (Some (fst c)) fuel idx); auto; try lia.
        rewrite firstn_app. replace (Z.to_nat idx - length a')%nat with O by lia.
        cbn [firstn]. rewrite app_nil_r. auto.
      * apply Z.ltb_ge in E. rewrite firstn_all2 by (rewrite app_length; cbn; lia).
        rewrite lastp_snoc. f_equal. f_equal. lia.
Qed.

Lemma fwd_to_spec : forall (b : list cell) (st : store) p fuel j idx,
  dlseg st p b None -> (length b < fuel)%nat -> b <> [] -> j <= idx -> idx - j < Z.of_nat (length b) ->
  fwd_to fuel st (hdp b None) j idx = Ok (hdp (skipn (Z.to_nat (idx - j)) b) None, idx).
Proof.
  induction b as [|c t IH]; intros st p fuel j idx Hs Hf Hne Hj Hi; [congruence|].
  destruct fuel; [cbn in Hf; lia|]. destruct Hs as [Hc Ht]. cbn [fwd_to hdp length] in *.
  rewrite (rd_some _ _ _ _ Hc). cbn [bind nnext].
  destruct t as [|t0 t'] eqn:Et.
  - cbn [hdp is_null negb andb]. cbn in Hi. replace idx with j by lia. rewrite Z.sub_diag. cbn. auto.
  - rewrite <- Et in *.
    assert (Hnn : is_null (hdp t None) = false) by (rewrite Et; auto).
    rewrite Hnn. cbn [negb andb]. destruct (j <? idx) eqn:E.
    + apply Z.ltb_lt in E. rewrite (IH st (Some (fst c)) fuel (j + 1) idx); auto; try lia; [|congruence].
      replace (Z.to_nat (idx - j)) with (S (Z.to_nat (idx - (j + 1)))) by lia. auto.
    + apply Z.ltb_ge in E. replace (idx - j) with 0 by lia. cbn. f_equal. f_equal. lia.
Qed.

Lemma firstn_skipn_nth : forall A (l : list A) k, (0 < k)%nat -> (k < length l)%nat ->
  exists x y, nth_error l (k - 1) = Some x /\ nth_error l k = Some y /\ firstn k l <> [] /\ skipn k l <> [].
Proof.
  intros. destruct (nth_error l (k - 1)) eqn:E1; [|apply nth_error_None in E1; lia].
  destruct (nth_error l k) eqn:E2; [|apply nth_error_None in E2; lia].
  do 2 eexists. repeat split; eauto.
  - intro HH. apply (f_equal (@length A)) in HH. rewrite firstn_length in HH. cbn in HH. lia.
  - intro HH. apply (f_equal (@length A)) in HH. rewrite skipn_length in HH. cbn in HH. lia.
Qed.

Definition ins_at_vals (k : nat) (d : option D) (xs : list (option D)) : list (option D) :=
  if (k <=? length xs)%nat then firstn k xs ++ d :: skipn k xs
  else xs ++ repeat None (k - length xs) ++ [d].

Lemma dl_insert_at_inv : forall (st : store) o cs d idx, Inv st o cs ->
  let i := norm o idx in
  i < INT_MAX -> (0 <= i -> dlen o < INT_MAX) ->
  if i <? 0 then dl_insert_at st o d idx = Ok (st, o, false)
  else exists st' o' cs', dl_insert_at st o d idx = Ok (st', o', true) /\ Inv st' o' cs' /\
         vals cs' = ins_at_vals (Z.to_nat i) d (vals cs).
Proof.
  intros st o cs d idx HI i Hb Hb2. pose proof HI as [Hsh Hlive]. pose proof (sh_len _ _ _ _ Hsh) as Hl.
  assert (Hvl : length (vals cs) = length cs) by (unfold vals; apply map_length).
  unfold dl_insert_at. fold i.
  destruct (INT_MAX <=? i) eqn:E0; [apply Z.leb_le in E0; lia|].
  destruct (i <? 0) eqn:E1.
  { apply Z.ltb_lt in E1. replace (0 <? i + 1) with false by (symmetry; apply Z.ltb_ge; lia). auto. }
  apply Z.ltb_ge in E1. replace (0 <? i + 1) with true by (symmetry; apply Z.ltb_lt; lia). cbn [negb].
  specialize (Hb2 E1). unfold ins_at_vals.
  destruct (i =? 0) eqn:E2.
  { apply Z.eqb_eq in E2. destruct (dl_prepend_inv st o cs d HI ltac:(lia)) as (st' & o' & E & HI').
    exists st', o', ((length st, d) :: cs). rewrite E2. cbn. auto. }
  apply Z.eqb_neq in E2.
  destruct (i =? dlen o) eqn:E3.
  { apply Z.eqb_eq in E3. destruct (dl_append_inv st o cs d HI ltac:(lia)) as (st' & o' & E & HI').
    exists st', o', (cs ++ [(length st, d)]). split; auto. split; auto.
    replace (Z.to_nat i) with (length (vals cs)) by lia. rewrite Nat.leb_refl.
    rewrite firstn_all, skipn_all, vals_app. auto. }
  apply Z.eqb_neq in E3.
  destruct (dlen o <? i) eqn:E4.
  { apply Z.ltb_lt in E4.
    destruct (pad_loop_inv (Z.to_nat (i - dlen o)) st o cs HI ltac:(lia)) as (st1 & o1 & cs1 & EP & HI1 & Hv1 & Hl1).
    rewrite EP. cbn [bind].
    destruct (dl_append_inv st1 o1 cs1 d HI1 ltac:(lia)) as (st' & o' & E & HI').
    exists st', o', (cs1 ++ [(length st1, d)]). split; auto. split; auto.
    replace (Z.to_nat i <=? length (vals cs))%nat with false by (symmetry; apply Nat.leb_gt; lia).
    rewrite vals_app, Hv1, <- app_assoc. cbn. do 3 f_equal. lia. }
  apply Z.ltb_ge in E4.
  (* 0 < i < len: walk to the item at position i - 1 *)
  pose proof (shape_fuel _ _ _ _ Hsh) as Hfuel. destruct Hsh as [Hs Hn Hh Ht _].
  destruct (firstn_skipn_nth _ cs (Z.to_nat i) ltac:(lia) ltac:(lia)) as (cp & cn & Hcp & Hcn & HAne & HBne).
  remember (firstn (Z.to_nat i) cs) as A eqn:EqA. remember (skipn (Z.to_nat i) cs) as B eqn:EqB.
  assert (HAB : cs = A ++ B) by (subst A B; symmetry; apply firstn_skipn).
  assert (HlastA : lastp A None = Some (fst cp)).
  { subst A. replace (Z.to_nat i) with (S (Z.to_nat i - 1)) by lia. eapply lastp_firstn_nth; eauto. }
  assert (Ewalk : (if Z.quot (dlen o) 2 <? i
                   then back_to (fuel_of st) st (dtail o) (dlen o) i
                   else fwd_to (fuel_of st) st (dhead o) 1 i) = Ok (Some (fst cp), i)).
  { destruct (Z.quot (dlen o) 2 <? i).
    - rewrite Ht, Hl. rewrite (back_to_spec cs st None); auto; [|lia]. rewrite <- EqA, HlastA. auto.
    - rewrite Hh. rewrite (fwd_to_spec cs st None (fuel_of st) 1 i Hs Hfuel); [| |lia|lia].
      2:{ intro HH. rewrite HH in Hl. cbn in Hl. lia. }
      replace (Z.to_nat (i - 1)) with (Z.to_nat i - 1)%nat by lia.
      erewrite hdp_skipn_nth; eauto. }
  rewrite Ewalk. cbn [bind]. rewrite Z.eqb_refl. cbn [negb]. unfold item_new. exec.
  set (n := length st) in *.
  assert (Hfr : ~ In n (ids cs)) by (apply (fresh_notin st None _ None); auto).
  set (st1 := upd (st ++ [Some (mkNode None None None)]) n (Some (mkNode d None None))).
  assert (Hseg1 : dlseg st1 None cs None).
  { subst st1. apply dlseg_upd_other; [exact Hfr|]. apply dlseg_alloc. auto. }
  assert (Hn1 : lookup st1 n = Some (mkNode d None None)) by (subst st1; lk_solve).
  assert (Hlive1 : live_in st1 (n :: ids cs)).
  { subst st1. live_upds. apply live_in_alloc. auto. }
  assert (HvA : vals A = firstn (Z.to_nat i) (vals cs)) by (subst A; unfold vals; rewrite firstn_map; auto).
  assert (HvB : vals B = skipn (Z.to_nat i) (vals cs)) by (subst B; unfold vals; rewrite skipn_map; auto).
  clear EqA EqB. rewrite HAB in Hseg1, Hn, Hfr, Hlive1.
  apply dlseg_app in Hseg1. destruct Hseg1 as [HsA HsB].
  pose proof (nodup_app_l _ _ _ Hn) as HnA.
  destruct (dlseg_set_last_next _ _ _ _ HsA HnA HAne) as (pa & nd & Hpa & HinA & Hlk & Hnx & _).
  rewrite HlastA in Hpa. inversion Hpa; subst pa. clear Hpa. set (pa := fst cp) in *.
  assert (Hnpa : n <> pa). { intro HH. apply Hfr. rewrite ids_app. apply in_or_app. rewrite HH. auto. }
  exec. rewrite Hnx.
  assert (HnA' : ~ In n (ids A)) by (intro; apply Hfr; rewrite ids_app; apply in_or_app; auto).
  assert (HnB' : ~ In n (ids B)) by (intro; apply Hfr; rewrite ids_app; apply in_or_app; auto).
  set (stN := upd st1 n (Some (mkNode d (Some pa) (hdp B None)))).
  assert (P1 : dlseg stN None A (hdp B None)) by (subst stN; apply dlseg_upd_other; auto).
  assert (P2 : dlseg stN (lastp A None) B None) by (subst stN; apply dlseg_upd_other; auto).
  assert (P3 : lookup stN n = Some (mkNode d (Some pa) (hdp B None))) by (subst stN; lk_solve).
  destruct (splice_seg A B stN n d pa HAne P1 P2 Hn Hfr HlastA P3)
    as (ndN & sa & sb & HlkN & HnxN & EB & EA & Hseg & Hsl).
  assert (HnnB : is_null (hdp B None) = false) by (destruct B; [congruence|auto]).
  rewrite HnnB in EB. unfold set_prev in EB. rewrite EB. cbn [bind].
  unfold set_next in EA. rewrite EA. cbn [bind]. rewrite inc_len_ok by lia. cbn [bind].
  exists sb. eexists. exists (A ++ (n, d) :: B). split; [reflexivity|]. split.
  - split.
    + constructor; cbn [dlen dhead dtail]; auto.
      * apply nodup_insert; auto.
      * rewrite Hh, HAB, !hdp_app. destruct A; [congruence|auto].
      * rewrite Ht, HAB, !lastp_app. destruct B; [congruence|auto].
      * rewrite Hl, HAB, !app_length. cbn [length]. lia.
    + eapply same_live_in; [exact Hsl|]. subst stN. apply live_in_upd_some; [rewrite Hn1; congruence|].
      eapply live_in_incl; [exact Hlive1|]. rewrite !ids_app. cbn. intros a [Ha | Ha]; subst; auto with datatypes.
      apply in_app_or in Ha. apply in_or_app. destruct Ha; auto. right. right. auto.
  - replace (Z.to_nat i <=? length (vals cs))%nat with true by (symmetry; apply Nat.leb_le; lia).
    rewrite vals_app. cbn [vals map snd]. fold (vals B). rewrite HvA, HvB. auto.
Qed.

(* ---------------------------------------------------------------------------------------- *)
(* reverse *)
Lemma ids_rev : forall (a : list cell), ids (rev a) = rev (ids a).
Proof. intros. unfold ids. apply map_rev. Qed.

Lemma rev_loop_spec : forall (b a : list cell) (st : store) fuel,
  dlseg st (lastp a None) b None -> dlseg st (hdp b None) (rev a) None ->
  NoDup (ids (a ++ b)) -> (length b < fuel)%nat ->
  exists st', rev_loop fuel st (hdp b None) (lastp a None) = Ok (st', lastp (a ++ b) None) /\
    dlseg st' None (rev (a ++ b)) None /\ same_live st st'.
Proof.
  induction b as [|c t IH]; intros a st fuel Hb Ha Hn Hf.
  - destruct fuel; [cbn in Hf; lia|]. exists st. rewrite app_nil_r. cbn. auto using same_live_refl.
  - destruct fuel; [cbn in Hf; lia|]. destruct Hb as [Hc Ht]. cbn [rev_loop hdp].
    rewrite (rd_some _ _ _ _ Hc). cbn [bind nnext]. rewrite (modify_some _ _ _ _ _ Hc). cbn [bind ndata nprev nnext].
    destruct (nodup_mid _ _ _ _ Hn) as (Hca & Hct & _).
    set (st1 := upd st (fst c) (Some (mkNode (snd c) (hdp t None) (lastp a None)))).
    destruct (IH (a ++ [c]) st1 fuel) as (st' & E & Hs' & Hsl).
    + rewrite lastp_snoc. subst st1. apply dlseg_upd_other; auto.
    + rewrite rev_app_distr. cbn [rev app dlseg fst snd]. split.
      * subst st1. rewrite lookup_upd_same by (eapply lookup_lt; eauto). rewrite hdp_rev. auto.
      * subst st1. apply dlseg_upd_other; auto. rewrite ids_rev. intro HH. apply in_rev in HH. auto.
    + rewrite <- app_assoc. auto.
    + cbn in Hf. lia.
    + rewrite lastp_snoc in E. rewrite <- app_assoc in E, Hs'. cbn [app] in E, Hs'.
      exists st'. split; auto. split; auto.
      eapply same_live_trans; [|exact Hsl]. subst st1. eapply same_live_upd; eauto.
Qed.

Lemma dl_reverse_inv : forall (st : store) o cs, Inv st o cs ->
  exists st' o', dl_reverse st o = Ok (st', o', true) /\ Inv st' o' (rev cs).
Proof.
  intros st o cs [Hsh Hlive]. pose proof (shape_fuel _ _ _ _ Hsh) as Hf. destruct Hsh as [Hs Hn Hh Ht Hl].
  unfold dl_reverse. rewrite Hh.
  destruct (rev_loop_spec cs [] st (fuel_of st)) as (st' & E & Hs' & Hsl); auto.
  { cbn. auto. }
  cbn [lastp app] in E, Hs'. rewrite E. cbn [bind].
  do 2 eexists. split; [reflexivity|]. split.
  - constructor; cbn [dlen dhead dtail]; auto.
    + rewrite ids_rev. apply NoDup_rev. auto.
    + rewrite hdp_rev. auto.
    + rewrite lastp_rev. auto.
    + rewrite rev_length. auto.
  - eapply same_live_in; [exact Hsl|]. rewrite ids_rev. intros a Ha. apply in_rev. rewrite rev_involutive. auto.
Qed.

(* ---------------------------------------------------------------------------------------- *)
(* to_array, iterator *)
Lemma to_array_loop_spec : forall (b : list cell) (st : store) p,
  dlseg st p b None -> to_array_loop (length b) st (hdp b None) = Ok (vals b).
Proof.
  induction b as [|c t IH]; intros st p Hs; [auto|]. destruct Hs as [Hc Ht].
  cbn [length to_array_loop hdp]. rewrite (rd_some _ _ _ _ Hc). cbn [bind nnext ndata].
  rewrite (IH st (Some (fst c))); auto.
Qed.

Lemma dl_to_array_spec : forall (st : store) o cs, Shape st o cs -> dl_to_array st o = Ok (vals cs).
Proof.
  intros st o cs [Hs Hn Hh Ht Hl]. unfold dl_to_array. rewrite Hh, Hl, Nat2Z.id.
  eapply to_array_loop_spec; eauto.
Qed.

Lemma dl_sweep_spec : forall fuel (b : list cell) (st : store) p,
  dlseg st p b None -> dl_sweep fuel st (mkIter true (hdp b None)) = Ok (it_sweep fuel (it_new (vals b))).
Proof.
  induction fuel; intros b st p Hs.
  - destruct b; cbn; auto.
  - destruct b as [|c t]; [cbn; auto|]. destruct Hs as [Hc Ht].
    cbn [dl_sweep iter_has_next it_subject it_current hdp is_null negb andb].
    unfold iter_next. cbn [it_subject it_current negb is_null].
    rewrite (rd_some _ _ _ _ Hc). cbn [bind ndata nnext].
    rewrite (IHfuel t st (Some (fst c))); auto. cbn [bind].
    cbn [vals map it_sweep it_new it_has_next it_next]. fold (vals t).
    unfold it_new. destruct (it_sweep fuel (vals t)). auto.
Qed.

Lemma dl_iterate_spec : forall (st : store) o cs, Shape st o cs -> dl_iterate st o = Ok (vals cs).
Proof.
  intros st o cs [Hs Hn Hh Ht Hl]. unfold dl_iterate, dl_iterator. rewrite Hh.
  rewrite (dl_sweep_spec _ cs st None); auto. rewrite it_sweep_exact; auto.
  unfold sweep_fuel, vals. rewrite map_length, Hl. lia.
Qed.

(* ---------------------------------------------------------------------------------------- *)
(* done: every item of the chain is freed, nothing else changes *)
Lemma done_loop_spec : forall (b : list cell) (st : store) p fuel,
  dlseg st p b None -> NoDup (ids b) -> (length b < fuel)%nat ->
  exists st', done_loop fuel st (hdp b None) = Ok st' /\
    (forall a, In a (ids b) -> lookup st' a = None) /\
    (forall a, ~ In a (ids b) -> lookup st' a = lookup st a).
Proof.
  induction b as [|c t IH]; intros st p fuel Hs Hn Hf.
  - destruct fuel; [cbn in Hf; lia|]. exists st. cbn. repeat split; auto. tauto.
  - destruct fuel; [cbn in Hf; lia|]. destruct Hs as [Hc Ht]. inversion Hn as [|? ? Hct Hnt]; subst.
    cbn [done_loop hdp]. rewrite (rd_some _ _ _ _ Hc). cbn [bind nnext].
    rewrite (item_del_some _ _ _ _ Hc). cbn [bind].
    destruct (IH (upd st (fst c) None) (Some (fst c)) fuel) as (st' & E & H1 & H2); auto.
    { apply dlseg_upd_other; auto. }
    { cbn in Hf. lia. }
    exists st'. split; auto. split.
    + intros a [Ha | Ha]; auto. subst a. rewrite H2; auto. apply lookup_upd_free.
    + intros a Ha. cbn in Ha. rewrite H2 by tauto. apply lookup_upd_other. tauto.
Qed.

Lemma dl_done_spec : forall (st : store) o cs, Shape st o cs ->
  exists st', dl_done st o = Ok (st', dl_init) /\
    (forall a, In a (ids cs) -> lookup st' a = None) /\
    (forall a, ~ In a (ids cs) -> lookup st' a = lookup st a).
Proof.
  intros st o cs Hsh. pose proof (shape_fuel _ _ _ _ Hsh) as Hf. destruct Hsh as [Hs Hn Hh Ht Hl].
  unfold dl_done. destruct (dlen o =? 0) eqn:E.
  - apply Z.eqb_eq in E. destruct cs; [|cbn in Hl; lia]. cbn in *. exists st.
    destruct o; cbn in *; subst. unfold dl_init. repeat split; auto. tauto.
  - rewrite Hh. destruct (done_loop_spec cs st None (fuel_of st)) as (st' & E' & H1 & H2); auto.
    rewrite E'. cbn [bind]. exists st'. auto.
Qed.

(* ---------------------------------------------------------------------------------------- *)
(* ordered scans with early exit *)
Fixpoint ord_find (f : option D -> act) (xs : list (option D)) : option D :=
  match xs with
  | [] => None
  | x :: t => match f x with Found => x | Stop => None | Next => ord_find f t end
  end.

Lemma scan_ord_spec : forall (b : list cell) (st : store) p fuel f,
  dlseg st p b None -> (length b < fuel)%nat ->
  scan_ord fuel st (hdp b None) f = Ok (ord_find f (vals b)).
Proof.
  induction b as [|c t IH]; intros st p fuel f Hs Hf.
  - destruct fuel; [cbn in Hf; lia|]. auto.
  - destruct fuel; [cbn in Hf; lia|]. destruct Hs as [Hc Ht]. cbn [scan_ord hdp].
    rewrite (rd_some _ _ _ _ Hc). cbn [bind ndata nnext vals map ord_find].
    destruct (f (snd c)); auto. apply IH with (Some (fst c)); auto. cbn in Hf. lia.
Qed.

(* replacing the data member of one item *)
Lemma set_data_inv : forall (st : store) o (a : list cell) c b d', Inv st o (a ++ c :: b) ->
  exists st', set_data st (Some (fst c)) d' = Ok st' /\ Inv st' o (a ++ (fst c, d') :: b).
Proof.
  intros st o a c b d' [[Hs Hn Hh Ht Hl] Hlive].
  apply dlseg_app in Hs. destruct Hs as [Ha [Hc Hb]]. cbn [hdp] in Ha.
  destruct (nodup_mid _ _ _ _ Hn) as (Hca & Hcb & Hnab).
  unfold set_data. rewrite (modify_some _ _ _ _ _ Hc). cbn [ndata nprev nnext].
  eexists. split; [reflexivity|]. split.
  - constructor.
    + apply dlseg_app. cbn [dlseg hdp fst snd]. split; [|split].
      * apply dlseg_upd_other; auto.
      * rewrite lookup_upd_same by (eapply lookup_lt; eauto). auto.
      * apply dlseg_upd_other; auto.
    + rewrite ids_app in *. cbn in *. auto.
    + rewrite Hh, !hdp_app. auto.
    + rewrite Ht, !lastp_app. auto.
    + rewrite Hl, !app_length. auto.
  - apply live_in_upd_some; [congruence|]. rewrite ids_app in *. cbn in *. auto.
Qed.

(* ---------------------------------------------------------------------------------------- *)
(* dup: a second chain in fresh cells, the original untouched *)
Lemma item_dup_spec : forall (st : store) s nd, lookup st s = Some nd ->
  exists st', item_dup st (Some s) = Ok (st', Some (length st)) /\ length st' = S (length st) /\
    lookup st' (length st) = Some (mkNode (ndata nd) None None) /\
    (forall j, j <> length st -> lookup st' j = lookup st j).
Proof.
  intros st s nd Hs. unfold item_dup, item_new. rewrite (rd_some _ _ _ _ Hs). cbn [bind].
  destruct (ndata nd) as [d|] eqn:Ed.
  - exec. eexists. split; [reflexivity|]. rewrite length_upd, app_length. cbn [length].
    split; [lia|]. split; [lk_solve|]. intros j Hj. rewrite lookup_upd_other by auto. apply lookup_app_ne. auto.
  - cbn [bind]. eexists. split; [reflexivity|]. rewrite app_length. cbn [length].
    split; [lia|]. split; [apply lookup_app_new|]. intros j Hj. apply lookup_app_ne. auto.
Qed.

Lemma nodup_snoc_nat : forall (l : list nat) x, NoDup l -> ~ In x l -> NoDup (l ++ [x]).
Proof.
  intros. apply NoDup_Add with (a := x) (l := l); auto. rewrite <- (app_nil_r l) at 1. apply Add_app.
Qed.

Lemma dup_loop_spec : forall (t : list cell) (c : cell) (st : store) p (dn : list cell) mk fuel N0,
  dlseg st p (c :: t) None -> (forall i, In i (ids (c :: t)) -> (i < N0)%nat) ->
  dlseg st None dn (Some mk) -> lookup st mk = Some (mkNode (snd c) None None) ->
  NoDup (ids dn ++ [mk]) -> (forall i, In i (ids dn ++ [mk]) -> (N0 <= i)%nat) ->
  (length t < fuel)%nat ->
  exists st' dn' mk' xl,
    dup_loop fuel st (Some (fst c)) (Some mk) (lastp dn None) = Ok (st', Some mk', lastp dn' None) /\
    dlseg st' None dn' (Some mk') /\ lookup st' mk' = Some (mkNode xl None None) /\
    vals dn' ++ [xl] = vals dn ++ snd c :: vals t /\
    hdp (dn' ++ [(mk', xl)]) None = hdp (dn ++ [(mk, snd c)]) None /\
    NoDup (ids dn' ++ [mk']) /\ (forall i, In i (ids dn' ++ [mk']) -> (N0 <= i)%nat) /\
    incl (ids dn ++ [mk]) (ids dn' ++ [mk']) /\
    (forall j, (j < N0)%nat -> lookup st' j = lookup st j) /\
    (forall a, lookup st' a <> None -> lookup st a <> None \/ In a (ids dn' ++ [mk'])).
Proof.
  induction t as [|y t' IH]; intros c st p dn mk fuel N0 Hsrc Hold Hdn Hmk Hnd Hnew Hf.
  - destruct fuel; [cbn in Hf; lia|]. destruct Hsrc as [Hc _]. cbn [dup_loop].
    rewrite (rd_some _ _ _ _ Hc). cbn [bind nnext hdp].
    exists st, dn, mk, (snd c). repeat split; auto. apply incl_refl.
  - destruct fuel; [cbn in Hf; lia|]. destruct Hsrc as [Hc Hsrc']. pose proof Hsrc' as [Hy _]. cbn [dup_loop].
    rewrite (rd_some _ _ _ _ Hc). cbn [bind nnext hdp].
    destruct (item_dup_spec st (fst y) _ Hy) as (st1 & E1 & Hlen1 & Hn1 & Hfr1). rewrite E1. cbn [bind ndata].
    set (n1 := length st) in *.
    assert (Hmklt : (mk < n1)%nat) by (eapply lookup_lt; eauto).
    assert (Hmk1 : lookup st1 mk = Some (mkNode (snd c) None None)) by (rewrite Hfr1; auto; lia).
    assert (Hcold : (fst c < N0)%nat) by (apply Hold; left; auto).
    assert (HmkN : (N0 <= mk)%nat) by (apply Hnew; apply in_or_app; right; left; auto).
    assert (Hc1 : lookup st1 (fst c) = Some (mkNode (snd c) p (Some (fst y)))) by (rewrite Hfr1; auto; lia).
    exec.
    set (st2 := upd st1 mk (Some (mkNode (snd c) (lastp dn None) (Some n1)))).
    assert (Hfr2 : forall j, j <> mk -> j <> n1 -> lookup st2 j = lookup st j).
    { intros j H1 H2. subst st2. rewrite lookup_upd_other by auto. apply Hfr1; auto. }
    assert (Hdnmk : ~ In mk (ids dn)).
    { intro HH. apply NoDup_remove_2 in Hnd. apply Hnd. rewrite app_nil_r. auto. }
    assert (Hdnn1 : ~ In n1 (ids dn)) by (intro HH; eapply dlseg_lt in HH; eauto; lia).
    destruct (IH y st2 (Some (fst c)) (dn ++ [(mk, snd c)]) n1 fuel N0) as
      (st' & dn' & mk' & xl & E & Hdn' & Hmk' & Hv' & Hhd' & Hnd' & Hnew' & Hinc' & Hfr' & Hlive').
    + apply dlseg_frame with st; auto. intros i Hi. apply Hfr2.
      * assert (i < N0)%nat by (apply Hold; right; auto). lia.
      * assert (i < N0)%nat by (apply Hold; right; auto). lia.
    + intros i Hi. apply Hold. right; auto.
    + apply dlseg_app. cbn [dlseg hdp fst snd]. split; [|split; auto].
      * apply dlseg_frame with st; auto. intros i Hi. apply Hfr2; intro; subst; auto.
      * subst st2. rewrite lookup_upd_same by lia. auto.
    + subst st2. rewrite lookup_upd_other by lia. auto.
    + rewrite ids_app. cbn [ids map fst]. apply nodup_snoc_nat; auto.
      intro HH. apply in_app_or in HH. destruct HH as [HH | [HH | []]]; [auto | lia].
    + intros i Hi. rewrite ids_app in Hi. cbn [ids map fst] in Hi. apply in_app_or in Hi.
      destruct Hi as [Hi | [Hi | []]]; [apply Hnew; auto | lia].
    + cbn in Hf. lia.
    + rewrite lastp_snoc in E. cbn [fst] in E.
      exists st', dn', mk', xl. split; [exact E|]. split; auto. split; auto. split.
      { rewrite Hv', vals_app. cbn. rewrite <- app_assoc. auto. }
      split. { rewrite Hhd'. rewrite <- app_assoc. rewrite !hdp_app. cbn. auto. }
      split; auto. split; auto.
      assert (Hinc2 : incl (ids dn ++ [mk]) (ids dn' ++ [mk'])).
      { intros a Ha. apply Hinc'. rewrite ids_app. cbn [ids map fst]. apply in_or_app. left. auto. }
      split; auto. split.
      { intros j Hj. rewrite Hfr' by auto. apply Hfr2; lia. }
      intros a Ha. destruct (Hlive' a Ha) as [H1 | H1]; auto.
      destruct (Nat.eq_dec a mk); [subst; left; congruence|].
      destruct (Nat.eq_dec a n1).
      * subst a. right. apply Hinc'. apply in_or_app. right. left. auto.
      * left. rewrite <- Hfr2; auto.
Qed.

Lemma dl_dup_spec : forall (st : store) o cs, Shape st o cs ->
  exists st2 c cs2, dl_dup st o = Ok (st2, c) /\ Shape st2 c cs2 /\ vals cs2 = vals cs /\
    (forall i, In i (ids cs2) -> (length st <= i)%nat) /\
    (forall j, (j < length st)%nat -> lookup st2 j = lookup st j) /\
    (forall a, lookup st2 a <> None -> lookup st a <> None \/ In a (ids cs2)).
Proof.
  intros st o cs Hsh. pose proof (shape_fuel _ _ _ _ Hsh) as Hfuel. destruct Hsh as [Hs Hn Hh Ht Hl].
  unfold dl_dup. rewrite Hh. destruct cs as [|c0 t].
  - cbn [hdp]. exists st, o, []. split; auto. split; [constructor; auto|]. split; auto.
    split; [intros i []|]. split; auto.
  - cbn [hdp]. destruct Hs as [Hc0 Hst].
    destruct (item_dup_spec st (fst c0) _ Hc0) as (st1 & E1 & Hlen1 & Hn1 & Hfr1). rewrite E1. cbn [bind ndata].
    set (n0 := length st) in *.
    assert (Hold : forall i, In i (ids (c0 :: t)) -> (i < n0)%nat).
    { intros i Hi. apply (dlseg_lt _ (c0 :: t) st None None); [split; auto|auto]. }
    destruct (dup_loop_spec t c0 st1 None [] n0 (fuel_of st) n0) as
      (st' & dn' & mk' & xl & E & Hdn' & Hmk' & Hv' & Hhd' & Hnd' & Hnew' & Hinc' & Hfr' & Hlive'); auto.
    + apply dlseg_frame with st; [|split; auto]. intros i Hi. apply Hfr1. specialize (Hold i Hi). lia.
    + cbn. auto.
    + cbn. repeat constructor. auto.
    + intros i [<- | []]. lia.
    + cbn in Hfuel. lia.
    + cbn [lastp] in E. rewrite E. cbn [bind].
      assert (Hmkn : ~ In mk' (ids dn')).
      { intro HH. apply NoDup_remove_2 in Hnd'. apply Hnd'. rewrite app_nil_r. auto. }
      exec. exists (upd st' mk' (Some (mkNode xl (lastp dn' None) None))).
      eexists. exists (dn' ++ [(mk', xl)]). split; [reflexivity|]. split; [|split; [|split; [|split]]].
      * constructor; cbn [dlen dhead dtail].
        -- apply dlseg_app. cbn [dlseg hdp fst snd]. split; [apply dlseg_upd_other; auto|].
           split; auto. rewrite lookup_upd_same by (eapply lookup_lt; eauto). auto.
        -- rewrite ids_app. auto.
        -- rewrite Hhd'. auto.
        -- rewrite lastp_snoc. auto.
        -- rewrite Hl. rewrite <- (map_length snd (dn' ++ _)). fold (vals (dn' ++ [(mk', xl)])).
           rewrite vals_app. cbn [vals map snd]. fold (vals dn'). rewrite Hv'. cbn. unfold vals. rewrite map_length. auto.
      * rewrite vals_app. cbn [vals map snd]. fold (vals dn'). rewrite Hv'. auto.
      * intros i Hi. rewrite ids_app in Hi. apply Hnew'. auto.
      * intros j Hj. rewrite lookup_upd_other.
        -- rewrite Hfr' by auto. apply Hfr1. lia.
        -- assert (n0 <= mk')%nat by (apply Hnew'; apply in_or_app; right; left; auto). lia.
      * intros a Ha. rewrite ids_app. cbn [ids map fst].
        destruct (Nat.eq_dec a mk'); [subst; right; apply in_or_app; right; left; auto|].
        rewrite lookup_upd_other in Ha by auto. destruct (Hlive' a Ha) as [H1 | H1]; auto.
        destruct (Nat.eq_dec a n0).
        -- subst a. right. apply Hinc'. left. auto.
        -- left. rewrite <- Hfr1; auto.
Qed.

End Ops.

Arguments same_live {D}. Arguments eq_test {D}. Arguments ins_test {D}. Arguments ins_cells {D}.
Arguments ins_at_vals {D}. Arguments ord_find {D}.
