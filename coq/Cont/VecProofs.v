(* Theorems about the ideal sorted multiset (vector interface), for ALL histories. *)
From LV Require Import Cont.ContSpec Cont.ContKey.
From Coq Require Import Sorting.Sorted Sorting.Permutation.
Local Open Scope Z_scope.

(* element order = key order *)
Definition ele (x y : elem) : Prop := key_le (ekey x) (ekey y).
Definition vsorted (xs : vstate) : Prop := StronglySorted ele xs.

Lemma v_ins_perm : forall e xs, Permutation (v_ins e xs) (e :: xs).
Proof.
  induction xs as [|x t IH]; cbn; [apply Permutation_refl|].
  destruct (key_gtb (ekey e) (ekey x)); [|apply Permutation_refl].
  eapply perm_trans; [apply perm_skip; exact IH | apply perm_swap].
Qed.

Lemma v_ins_sorted : forall e xs, vsorted xs -> vsorted (v_ins e xs).
Proof.
  unfold vsorted. induction xs as [|x t IH]; intros Hs; cbn.
  - constructor; constructor.
  - inversion Hs as [|x' t' Ht Hx]; subst.
    destruct (key_gtb (ekey e) (ekey x)) eqn:G.
    + constructor; [apply IH; exact Ht|].
      apply key_gtb_true in G.
      eapply Permutation_Forall; [apply Permutation_sym; apply v_ins_perm|].
      constructor; [apply key_lt_le; exact G | exact Hx].
    + apply key_gtb_false in G.
      constructor; [exact Hs|].
      constructor; [exact G|].
      eapply Forall_impl; [|exact Hx]. intros y Hy. eapply key_le_trans; eauto.
Qed.

(* remove takes out exactly one element with the probe's key - the first - or nothing *)
Lemma v_rem_spec : forall p xs xs' r, v_rem p xs = (xs', r) ->
  (exists x l1 l2, r = Some x /\ ekey x = p /\ xs = l1 ++ x :: l2 /\ xs' = l1 ++ l2 /\
                   forall y, In y l1 -> ekey y <> p)
  \/ (r = None /\ xs' = xs /\ forall y, In y xs -> ekey y <> p).
Proof.
  induction xs as [|x t IH]; intros xs' r H; cbn in H.
  - inversion H; subst. right. repeat split; auto.
  - destruct (key_eqb p (ekey x)) eqn:E.
    + injection H as <- <-. left. exists x, [], t. apply key_eqb_eq in E. repeat split; auto.
    + destruct (v_rem p t) as [t' r'] eqn:R. injection H as <- <-.
      apply key_eqb_neq in E.
      destruct (IH _ _ eq_refl) as [(y & l1 & l2 & Hr & Hk & Hx & Hx' & Hn) | (Hr & Hx' & Hn)].
      * left. exists y, (x :: l1), l2. subst. repeat split; auto.
        intros z [<-|Hz]; [congruence | auto].
      * right. subst. repeat split; auto. intros z [<-|Hz]; [congruence | auto].
Qed.

Lemma v_rem_perm : forall p xs xs' x, v_rem p xs = (xs', Some x) -> Permutation xs (x :: xs').
Proof.
  intros p xs xs' x H.
  destruct (v_rem_spec _ _ _ _ H) as [(y & l1 & l2 & Hr & _ & Hx & Hx' & _) | (Hr & _)]; [|discriminate].
  inversion Hr; subst. apply Permutation_sym. apply Permutation_middle.
Qed.

Lemma v_rem_none : forall p xs xs', v_rem p xs = (xs', None) -> xs' = xs.
Proof.
  intros p xs xs' H.
  destruct (v_rem_spec _ _ _ _ H) as [(y & l1 & l2 & Hr & _) | (_ & Hx & _)]; [discriminate | exact Hx].
Qed.

Lemma ssorted_app_remove : forall (l1 : vstate) x l2, vsorted (l1 ++ x :: l2) -> vsorted (l1 ++ l2).
Proof.
  unfold vsorted. induction l1 as [|a l1 IH]; intros x l2 H; cbn in *.
  - inversion H; assumption.
  - inversion H as [|a' t' Ht Ha]; subst. constructor; [eapply IH; eauto|].
    rewrite Forall_app in *. destruct Ha as [H1 H2]. inversion H2; subst. split; assumption.
Qed.

Lemma v_rem_sorted : forall p xs xs' r, v_rem p xs = (xs', r) -> vsorted xs -> vsorted xs'.
Proof.
  intros p xs xs' r H Hs.
  destruct (v_rem_spec _ _ _ _ H) as [(y & l1 & l2 & _ & _ & Hx & Hx' & _) | (_ & Hx & _)]; subst; auto.
  eapply ssorted_app_remove; eauto.
Qed.

(* find: a stored element with the probe's key iff one is present *)
Lemma v_find_some : forall xs p x, v_find xs p = Some x -> In x xs /\ ekey x = p.
Proof.
  induction xs as [|y t IH]; intros p x H; cbn in H; [discriminate|].
  destruct (key_eqb p (ekey y)) eqn:E.
  - inversion H; subst. apply key_eqb_eq in E. split; [left; reflexivity | auto].
  - destruct (IH _ _ H) as [Hi Hk]. split; [right; exact Hi | exact Hk].
Qed.

Lemma v_find_none : forall xs p, v_find xs p = None <-> (forall x, In x xs -> ekey x <> p).
Proof.
  induction xs as [|y t IH]; intros p; cbn.
  - split; [intros _ x [] | reflexivity].
  - destruct (key_eqb p (ekey y)) eqn:E.
    + apply key_eqb_eq in E. split; [discriminate|]. intros H. exfalso. apply (H y); auto.
    + apply key_eqb_neq in E. rewrite IH. split.
      * intros H x [<-|Hx]; [congruence | auto].
      * intros H x Hx. apply H. right. exact Hx.
Qed.

Theorem v_find_iff : forall xs p,
  (exists x, In x xs /\ ekey x = p) <-> (exists x, v_find xs p = Some x /\ In x xs /\ ekey x = p).
Proof.
  intros xs p. split.
  - intros (x & Hi & Hk). destruct (v_find xs p) as [y|] eqn:F.
    + exists y. split; [reflexivity|]. apply v_find_some. exact F.
    + exfalso. apply (proj1 (v_find_none xs p) F x Hi Hk).
  - intros (x & _ & Hi & Hk). exists x. auto.
Qed.

(* --- all histories ----------------------------------------------------------------------- *)
Lemma vec_step_sorted : forall s op, vsorted s -> vsorted (fst (vec_step s op)).
Proof.
  intros s op Hs. destruct op; cbn; auto.
  - apply v_ins_sorted. exact Hs.
  - destruct (v_rem (ekey p) s) as [s' r] eqn:R. cbn. eapply v_rem_sorted; eauto.
Qed.

Theorem vec_sorted_all : forall ops, vsorted (final vec_step [] ops).
Proof. intros ops. apply final_invariant; [apply vec_step_sorted | constructor]. Qed.

Theorem vec_sorted_prefix : forall ops n, vsorted (final vec_step [] (firstn n ops)).
Proof. intros. apply vec_sorted_all. Qed.

Lemma vsorted_Sorted : forall xs, vsorted xs -> Sorted ele xs.
Proof. intros. apply StronglySorted_Sorted. assumption. Qed.

(* contents: what is stored plus what was handed back = what was inserted *)
Fixpoint v_inserted (ops : list vop) : list elem :=
  match ops with
  | [] => []
  | VInsert e :: t => e :: v_inserted t
  | _ :: t => v_inserted t
  end.
Fixpoint v_handed (s : vstate) (ops : list vop) : list elem :=
  match ops with
  | [] => []
  | op :: t =>
    (match op, snd (vec_step s op) with
     | VRemove _, OElem (Some x) => [x]
     | _, _ => []
     end) ++ v_handed (fst (vec_step s op)) t
  end.

Theorem vec_contents_gen : forall ops s,
  Permutation (final vec_step s ops ++ v_handed s ops) (s ++ v_inserted ops).
Proof.
  induction ops as [|op t IH]; intros s.
  - cbn. apply Permutation_refl.
  - rewrite final_cons. cbn [v_handed].
    destruct op; cbn [vec_step fst snd v_inserted app];
      try (apply IH).
    + (* insert *)
      eapply perm_trans; [apply IH|].
      eapply perm_trans; [apply Permutation_app_tail; apply v_ins_perm|].
      cbn. apply Permutation_middle.
    + (* remove *)
      destruct (v_rem (ekey p) s) as [s' r] eqn:R. cbn [fst snd].
      destruct r as [x|].
      * cbn [app]. eapply perm_trans; [apply Permutation_sym; apply Permutation_middle|].
        eapply perm_trans; [apply perm_skip; apply IH|].
        change (x :: s' ++ v_inserted t) with ((x :: s') ++ v_inserted t).
        apply Permutation_app_tail. apply Permutation_sym. eapply v_rem_perm; eauto.
      * apply v_rem_none in R. subst. apply IH.
Qed.

Theorem vec_contents : forall ops,
  Permutation (final vec_step [] ops ++ v_handed [] ops) (v_inserted ops).
Proof. intros. apply (vec_contents_gen ops []). Qed.

(* no object is stored twice when every inserted object is a distinct one *)
Theorem vec_nodup : forall ops, NoDup (map eid (v_inserted ops)) ->
  NoDup (map eid (final vec_step [] ops)).
Proof.
  intros ops H.
  assert (P := vec_contents ops).
  apply (Permutation_map eid) in P. apply Permutation_sym in P.
  apply (Permutation_NoDup P) in H. rewrite map_app in H.
  eapply NoDup_app_l. exact H.
Qed.

(* iteration and to_array show the state, ascending *)
Theorem vec_iterate_exact : forall s,
  snd (vec_step s VIterate) = OElems (map Some s) /\ snd (vec_step s VToArray) = OElems (map Some s).
Proof. intros s. unfold vec_step. cbn [snd]. rewrite it_sweep_exact by lia. auto. Qed.

(* --- results depend on keys only ---------------------------------------------------------- *)
(* Elements that compare equal have equal key text, so whatever place a class gives a new element
   among equal ones, and whichever equal element it returns, the key-level picture is the same. *)
Definition strip (e : elem) : elem := mkElem 0 (ekey e).
Definition vop_key (op : vop) : vop :=
  match op with
  | VInsert e => VInsert (strip e) | VRemove p => VRemove (strip p) | VFind p => VFind (strip p)
  | VContains p => VContains (strip p) | o => o
  end.
Definition out_key (o : out) : out :=
  match o with
  | OElem e => OElem (option_map strip e)
  | OElems l => OElems (map (option_map strip) l)
  | o => o
  end.

Lemma v_ins_keys : forall e1 e2 s1 s2, ekey e1 = ekey e2 -> map ekey s1 = map ekey s2 ->
  map ekey (v_ins e1 s1) = map ekey (v_ins e2 s2).
Proof.
  intros e1 e2 s1. induction s1 as [|x t IH]; intros [|y u] Hk Hs; cbn in *; try discriminate.
  - congruence.
  - inversion Hs as [[Hxy Htu]]. rewrite Hk, Hxy.
    destruct (key_gtb (ekey e2) (ekey y)); cbn.
    + f_equal; auto.
    + congruence.
Qed.

Lemma v_rem_keys : forall p s1 s2, map ekey s1 = map ekey s2 ->
  map ekey (fst (v_rem p s1)) = map ekey (fst (v_rem p s2)) /\
  option_map ekey (snd (v_rem p s1)) = option_map ekey (snd (v_rem p s2)).
Proof.
  intros p s1. induction s1 as [|x t IH]; intros [|y u] Hs; cbn in *; try discriminate; [auto|].
  inversion Hs as [[Hxy Htu]]. rewrite Hxy.
  destruct (key_eqb p (ekey y)); cbn.
  - split; [exact Htu | congruence].
  - destruct (IH _ Htu) as [H1 H2].
    destruct (v_rem p t) as [t' r1]. destruct (v_rem p u) as [u' r2]. cbn in *.
    split; congruence.
Qed.

Lemma v_find_keys : forall p s1 s2, map ekey s1 = map ekey s2 ->
  option_map ekey (v_find s1 p) = option_map ekey (v_find s2 p).
Proof.
  intros p s1. induction s1 as [|x t IH]; intros [|y u] Hs; cbn in *; try discriminate; [auto|].
  inversion Hs as [[Hxy Htu]]. rewrite Hxy.
  destruct (key_eqb p (ekey y)); cbn; [congruence | auto].
Qed.

Lemma strip_eq : forall a b, ekey a = ekey b -> strip a = strip b.
Proof. unfold strip. intros a b H. rewrite H. reflexivity. Qed.

Lemma option_strip_eq : forall a b, option_map ekey a = option_map ekey b ->
  option_map strip a = option_map strip b.
Proof. intros [a|] [b|] H; cbn in *; try discriminate; auto. inversion H. f_equal. apply strip_eq. auto. Qed.

Lemma map_strip_eq : forall s1 s2, map ekey s1 = map ekey s2 ->
  map (option_map strip) (map Some s1) = map (option_map strip) (map Some s2).
Proof.
  induction s1 as [|x t IH]; intros [|y u] H; cbn in *; try discriminate; auto.
  inversion H. f_equal; [f_equal; apply strip_eq; auto | auto].
Qed.

Lemma is_some_keys : forall (a b : option elem), option_map ekey a = option_map ekey b -> is_some a = is_some b.
Proof. intros [a|] [b|] H; cbn in *; try discriminate; auto. Qed.

Lemma vec_step_keys : forall s1 s2 op1 op2,
  map ekey s1 = map ekey s2 -> vop_key op1 = vop_key op2 ->
  map ekey (fst (vec_step s1 op1)) = map ekey (fst (vec_step s2 op2)) /\
  out_key (snd (vec_step s1 op1)) = out_key (snd (vec_step s2 op2)).
Proof.
  intros s1 s2 op1 op2 Hs Ho.
  assert (L : length s1 = length s2) by (rewrite <- (map_length ekey s1), Hs, map_length; reflexivity).
  destruct op1, op2; cbn in Ho; try discriminate; cbn [vec_step].
  - inversion Ho as [Hk]. split; [apply v_ins_keys; auto | reflexivity].
  - inversion Ho as [Hk]. rewrite Hk. destruct (v_rem_keys (ekey p0) _ _ Hs) as [H1 H2].
    destruct (v_rem (ekey p0) s1) as [a r1]. destruct (v_rem (ekey p0) s2) as [b r2]. cbn in *.
    split; [exact H1|]. f_equal. apply option_strip_eq. exact H2.
  - inversion Ho as [Hk]. rewrite Hk. cbn. split; [exact Hs|]. f_equal. apply option_strip_eq.
    apply v_find_keys. exact Hs.
  - inversion Ho as [Hk]. rewrite Hk. cbn. split; [exact Hs|]. f_equal. apply is_some_keys.
    apply v_find_keys. exact Hs.
  - cbn. split; [exact Hs|]. rewrite L. reflexivity.
  - cbn [fst snd]. split; [exact Hs|]. rewrite !it_sweep_exact by lia. cbn [fst out_key]. f_equal. apply map_strip_eq. exact Hs.
  - cbn. split; [exact Hs|]. f_equal. apply map_strip_eq. exact Hs.
Qed.

Theorem vec_run_keys : forall ops1 ops2 s1 s2,
  map ekey s1 = map ekey s2 -> map vop_key ops1 = map vop_key ops2 ->
  map ekey (final vec_step s1 ops1) = map ekey (final vec_step s2 ops2) /\
  map out_key (outs vec_step s1 ops1) = map out_key (outs vec_step s2 ops2).
Proof.
  induction ops1 as [|o1 t1 IH]; intros [|o2 t2] s1 s2 Hs Ho; cbn in Ho; try discriminate.
  - cbn. auto.
  - inversion Ho as [[Ho1 Ht]].
    destruct (vec_step_keys s1 s2 o1 o2 Hs Ho1) as [H1 H2].
    rewrite !final_cons. cbn [outs map].
    destruct (IH t2 _ _ H1 Ht) as [H3 H4]. split; [exact H3|]. rewrite H2, H4. reflexivity.
Qed.
