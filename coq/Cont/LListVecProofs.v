(* LListVecProofs - class linked_list through the vector interface.
   (1) The pointer-level model refines EXACTLY (identities included) the class-level sequence
       function llv_step (LListModel.v): same outputs, store represents the sequence, never a Fault.
   (2) llv_step and the ideal sorted multiset vec_step agree on every key-level observable (the class
       puts a new element behind an equal head, the ideal one in front of it: ContSpec leaves the
       choice among equal keys to the class), and the class-level sequence is ascending after every
       history.
   (3) By identity: what the class stores plus what remove handed back is a permutation of what was
       inserted; find / remove return stored objects. *)
From LV Require Import Cont.ContSpec Cont.ContKey Cont.VecProofs Cont.LListModel Cont.LListHeap Cont.LListOps.
From Coq Require Import Sorting.Permutation Sorting.Sorted.
Local Open Scope nat_scope.

Definition ReprV (s : lstore) (o : llist) (ys : vstate) : Prop := Repr elem s o (map Some ys).

(* ---- the generic sequence functions on placeholder-free sequences ---------------------------- *)
Lemma g_ins_tail_vec : forall e t, g_ins_tail elem ekey e (map Some t) = map Some (v_ins e t).
Proof.
  intros e t. induction t as [|x t IH]; [reflexivity|]. cbn [map g_ins_tail v_ins g_gt].
  destruct (key_gtb (ekey e) (ekey x)); cbn [map]; [rewrite IH|]; reflexivity.
Qed.

Lemma g_ins_vec : forall e ys, g_ins elem ekey e (map Some ys) = map Some (llv_ins e ys).
Proof.
  intros e [|h t]; [reflexivity|]. cbn [map g_ins llv_ins g_lt].
  destruct (key_ltb (ekey e) (ekey h)); cbn [map]; [reflexivity|]. rewrite g_ins_tail_vec. reflexivity.
Qed.

Lemma g_rem_vec : forall k ys,
  g_rem elem ekey k (map Some ys) = (map Some (fst (v_rem k ys)), snd (v_rem k ys)).
Proof.
  intros k ys. induction ys as [|y t IH]; [reflexivity|]. cbn [map g_rem v_rem g_eq].
  destruct (key_eqb k (ekey y)); [reflexivity|]. rewrite IH. destruct (v_rem k t). reflexivity.
Qed.

Lemma g_vfind_sorted : forall k ys, vsorted ys -> g_vfind elem ekey k ys = v_find ys k.
Proof.
  intros k ys S. induction S as [|y t St IH Hy]; [reflexivity|]. cbn [g_vfind v_find].
  unfold key_eqb. rewrite (key_cmp_antisym (ekey y) k).
  destruct (key_cmp (ekey y) k) eqn:Q; cbn [CompOpp]; [reflexivity|exact IH|].
  symmetry. apply v_find_none. intros x Hx Ex.
  rewrite Forall_forall in Hy. specialize (Hy x Hx). unfold ele, key_le in Hy. rewrite Ex in Hy. contradiction.
Qed.

(* ---- (1) pointer level = class level ------------------------------------------------------- *)
Lemma ll_vec_step_ok : forall s o ys op, ReprV s o ys -> vsorted ys ->
  exists s' o', ll_vec_step (s, o) op = Ok ((s', o'), snd (llv_step ys op)) /\
    ReprV s' o' (fst (llv_step ys op)).
Proof.
  unfold ReprV. intros s o ys op R S. pose proof R as (ids & R0 & C0).
  destruct op; cbn [ll_vec_step llv_step vec_step fst snd].
  - destruct (ll_insert_ok elem ekey s o _ e R) as (s' & o' & E & R'). rewrite E. cbn [bind].
    rewrite g_ins_vec in R'. eauto.
  - destruct (ll_remove_gen_ok elem ekey (comp_probe_data elem ekey) s o _ (Some (ekey p)) R) as (s' & o' & E & R').
    { intros pk x _ _. apply cmp_agrees_probe. }
    unfold ll_remove. rewrite E. cbn [bind]. rewrite g_rem_vec in *.
    destruct (v_rem (ekey p) ys) as [ys' r]. cbn [fst snd] in *. eauto.
  - rewrite (ll_vector_find_ok elem ekey _ _ _ _ (ekey p) R0). cbn [bind]. rewrite g_vfind_sorted by exact S. eauto.
  - unfold ll_vector_contains. rewrite (ll_vector_find_ok elem ekey _ _ _ _ (ekey p) R0). cbn [bind].
    rewrite g_vfind_sorted by exact S. eauto.
  - destruct R0 as (_ & _ & _ & L). unfold ll_count. rewrite L, map_length. eauto.
  - rewrite (ll_iterate_ok elem _ _ _ _ R0). cbn [bind]. rewrite it_sweep_exact by lia. eauto.
  - rewrite (ll_to_array_ok elem _ _ _ _ R0). cbn [bind]. eauto.
Qed.

(* the class keeps its sequence ascending *)
Lemma ele_trans : forall a b c, ele a b -> ele b c -> ele a c.
Proof. unfold ele. intros. eapply key_le_trans; eauto. Qed.

Lemma llv_ins_sorted : forall e ys, vsorted ys -> vsorted (llv_ins e ys).
Proof.
  intros e [|h t] S; [repeat constructor|]. cbn [llv_ins].
  apply StronglySorted_inv in S. destruct S as [St Hh].
  unfold key_ltb. destruct (key_cmp (ekey e) (ekey h)) eqn:Q.
  - constructor; [apply v_ins_sorted; exact St|].
    eapply Permutation_Forall; [apply Permutation_sym; apply v_ins_perm|].
    constructor; [|exact Hh]. unfold ele, key_le. rewrite key_cmp_antisym, Q. discriminate.
  - assert (Eh : ele e h) by (unfold ele, key_le; rewrite Q; discriminate).
    constructor; [constructor; assumption|]. constructor; [exact Eh|].
    eapply Forall_impl; [|exact Hh]. intros x Hx. eapply ele_trans; eauto.
  - constructor; [apply v_ins_sorted; exact St|].
    eapply Permutation_Forall; [apply Permutation_sym; apply v_ins_perm|].
    constructor; [|exact Hh]. unfold ele, key_le. rewrite key_cmp_antisym, Q. discriminate.
Qed.

Lemma llv_step_sorted : forall ys op, vsorted ys -> vsorted (fst (llv_step ys op)).
Proof.
  intros ys op S. destruct op; try exact (vec_step_sorted ys _ S).
  cbn. apply llv_ins_sorted. exact S.
Qed.

Theorem llv_sorted_all : forall ops, vsorted (final llv_step [] ops).
Proof. intros ops. apply final_invariant; [apply llv_step_sorted|constructor]. Qed.

Theorem linked_list_vector_refines_class_from : forall ops s o ys, ReprV s o ys -> vsorted ys ->
  exists s' o', run_model ll_vec_step (s, o) ops = Ok ((s', o'), outs llv_step ys ops) /\
    ReprV s' o' (final llv_step ys ops) /\ vsorted (final llv_step ys ops).
Proof.
  induction ops as [|op t IH]; intros s o ys R S.
  - exists s, o. split; [reflexivity|]. split; assumption.
  - destruct (ll_vec_step_ok s o ys op R S) as (s1 & o1 & E1 & R1).
    destruct (IH s1 o1 _ R1 (llv_step_sorted ys op S)) as (s2 & o2 & E2 & R2 & S2).
    exists s2, o2. cbn [run_model outs]. rewrite E1. cbn [bind]. rewrite E2. cbn [bind].
    rewrite final_cons. split; [reflexivity|]. split; assumption.
Qed.

Theorem linked_list_vector_refines_class : forall ops,
  exists s' o', run_model ll_vec_step lst0 ops = Ok ((s', o'), outs llv_step [] ops) /\
    ReprV s' o' (final llv_step [] ops) /\ vsorted (final llv_step [] ops).
Proof. intros ops. apply linked_list_vector_refines_class_from; [apply Repr_nil|constructor]. Qed.

(* ---- (2) class level = ideal multiset, by key ------------------------------------------------ *)
Lemma v_ins_head_le : forall e t, vsorted t -> (forall x, In x t -> ele e x) -> v_ins e t = e :: t.
Proof.
  intros e [|x t] S H; [reflexivity|]. cbn [v_ins]. specialize (H x (or_introl eq_refl)).
  apply key_gtb_false in H. rewrite H. reflexivity.
Qed.

Lemma llv_ins_keys : forall e ys xs, vsorted ys -> map ekey ys = map ekey xs ->
  map ekey (llv_ins e ys) = map ekey (v_ins e xs).
Proof.
  intros e [|h t] [|h' t'] S K; cbn in K; try discriminate; [reflexivity|].
  inversion K as [[Kh Kt]]. cbn [llv_ins v_ins]. unfold key_ltb, key_gtb. rewrite <- Kh.
  apply StronglySorted_inv in S. destruct S as [St Hh].
  destruct (key_cmp (ekey e) (ekey h)) eqn:Q; cbn [map].
  - (* equal to the head: behind it in the class, in front of it in the ideal multiset *)
    apply key_cmp_eq in Q. rewrite v_ins_head_le; [cbn [map]; congruence|exact St|].
    intros x Hx. rewrite Forall_forall in Hh. specialize (Hh x Hx). unfold ele in *. rewrite Q. exact Hh.
  - congruence.
  - f_equal; [exact Kh|]. apply v_ins_keys; auto.
Qed.

Lemma llv_step_keys : forall ys xs op, vsorted ys -> map ekey ys = map ekey xs ->
  map ekey (fst (llv_step ys op)) = map ekey (fst (vec_step xs op)) /\
  out_key (snd (llv_step ys op)) = out_key (snd (vec_step xs op)).
Proof.
  intros ys xs op S K. destruct op; try (apply vec_step_keys; [exact K|reflexivity]).
  cbn. split; [apply llv_ins_keys; assumption|reflexivity].
Qed.

Theorem llv_run_keys : forall ops ys xs, vsorted ys -> map ekey ys = map ekey xs ->
  map ekey (final llv_step ys ops) = map ekey (final vec_step xs ops) /\
  map out_key (outs llv_step ys ops) = map out_key (outs vec_step xs ops).
Proof.
  induction ops as [|op t IH]; intros ys xs S K; [cbn; auto|].
  destruct (llv_step_keys ys xs op S K) as [K1 O1].
  destruct (IH _ _ (llv_step_sorted ys op S) K1) as [K2 O2].
  rewrite !final_cons. cbn [outs map]. split; [exact K2|]. rewrite O1, O2. reflexivity.
Qed.

(* the refinement theorem of the vector interface: pointer-level model vs the ideal multiset *)
Theorem linked_list_vector_refines : forall ops,
  exists s' o' ys outs_m,
    run_model ll_vec_step lst0 ops = Ok ((s', o'), outs_m) /\
    ReprV s' o' ys /\ vsorted ys /\
    map ekey ys = map ekey (final vec_step [] ops) /\
    map out_key outs_m = map out_key (outs vec_step [] ops).
Proof.
  intros ops. destruct (linked_list_vector_refines_class ops) as (s' & o' & E & R & S).
  destruct (llv_run_keys ops [] [] (SSorted_nil _) eq_refl) as [K O].
  exists s', o', (final llv_step [] ops), (outs llv_step [] ops). auto.
Qed.

Corollary linked_list_vector_safe : forall ops, is_ok (run_model ll_vec_step lst0 ops) = true.
Proof. intros ops. destruct (linked_list_vector_refines_class ops) as (s' & o' & E & _). rewrite E. reflexivity. Qed.

(* ---- (3) identities: conservation and membership --------------------------------------------- *)
Lemma llv_ins_perm : forall e ys, Permutation (llv_ins e ys) (e :: ys).
Proof.
  intros e [|h t]; [apply Permutation_refl|]. cbn [llv_ins].
  destruct (key_ltb (ekey e) (ekey h)); [apply Permutation_refl|].
  eapply perm_trans; [apply perm_skip; apply v_ins_perm|]. apply perm_swap.
Qed.

Fixpoint llv_handed (s : vstate) (ops : list vop) : list elem :=
  match ops with
  | [] => []
  | op :: t =>
    (match op, snd (llv_step s op) with
     | VRemove _, OElem (Some x) => [x]
     | _, _ => []
     end) ++ llv_handed (fst (llv_step s op)) t
  end.

Theorem llv_contents_gen : forall ops s,
  Permutation (final llv_step s ops ++ llv_handed s ops) (s ++ v_inserted ops).
Proof.
  induction ops as [|op t IH]; intros s.
  - cbn. apply Permutation_refl.
  - rewrite final_cons. cbn [llv_handed].
    destruct op; cbn [llv_step vec_step fst snd v_inserted app]; try (apply IH).
    + eapply perm_trans; [apply IH|].
      eapply perm_trans; [apply Permutation_app_tail; apply llv_ins_perm|].
      cbn. apply Permutation_middle.
    + destruct (v_rem (ekey p) s) as [s' r] eqn:R. cbn [fst snd].
      destruct r as [x|].
      * cbn [app]. eapply perm_trans; [apply Permutation_sym; apply Permutation_middle|].
        eapply perm_trans; [apply perm_skip; apply IH|].
        change (x :: s' ++ v_inserted t) with ((x :: s') ++ v_inserted t).
        apply Permutation_app_tail. apply Permutation_sym. eapply v_rem_perm; eauto.
      * apply v_rem_none in R. subst. apply IH.
Qed.

Theorem llv_contents : forall ops,
  Permutation (final llv_step [] ops ++ llv_handed [] ops) (v_inserted ops).
Proof. intros. apply (llv_contents_gen ops []). Qed.

(* find and remove hand out objects the vector stores at that moment, with the probe's key *)
Theorem llv_find_remove_member : forall ys p x,
  (snd (llv_step ys (VFind p)) = OElem (Some x) \/ snd (llv_step ys (VRemove p)) = OElem (Some x)) ->
  In x ys /\ ekey x = ekey p.
Proof.
  intros ys p x [H|H]; cbn in H.
  - inversion H as [F]. apply v_find_some in F. exact F.
  - destruct (v_rem (ekey p) ys) as [ys' r] eqn:R. cbn in H. inversion H; subst.
    destruct (v_rem_spec _ _ _ _ R) as [(y & l1 & l2 & Er & Ek & Ey & _)|(Er & _)]; [|discriminate].
    inversion Er; subst. split; [apply in_or_app; right; left; reflexivity|assumption].
Qed.

(* tear-down frees every item *)
Theorem linked_list_vector_no_leak : forall ops,
  exists s' o' outs_m s'', run_model ll_vec_step lst0 ops = Ok ((s', o'), outs_m) /\
    ll_del elem s' o' = Ok s'' /\ forall j n, nth_error s'' j <> Some (Some n).
Proof.
  intros ops. destruct (linked_list_vector_refines_class ops) as (s' & o' & E & R & _).
  destruct (ll_del_no_leak elem s' o' _ R) as (s'' & E' & A). eauto 8.
Qed.

(* the structure dump compared by the tie (checks/cont_linked_list_tie.py) *)
Lemma ReprV_dump : forall s o ys, ReprV s o ys ->
  ll_dump elem s o = Ok (map Some ys) /\ ll_len o = Z.of_nat (length ys).
Proof.
  intros s o ys (ids & R & _). split; [eapply ll_dump_ok; eauto|].
  destruct R as (_ & _ & _ & L). rewrite L, map_length. reflexivity.
Qed.
