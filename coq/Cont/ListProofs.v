(* Theorems about the ideal sequence with NULL placeholders (list interface), for ALL histories
   and all index values. *)
From LV Require Import Cont.ContSpec Cont.ContKey.
From Coq Require Import Sorting.Permutation.
Local Open Scope Z_scope.

(* --- positions -------------------------------------------------------------------------------- *)
Lemma ins_at_le : forall n e xs, (n <= length xs)%nat ->
  ins_at n e xs = firstn n xs ++ Some e :: skipn n xs.
Proof.
  induction n as [|n IH]; intros e xs H; [reflexivity|].
  destruct xs as [|s t]; cbn in *; [lia|]. rewrite IH by lia. reflexivity.
Qed.

Lemma ins_at_nil : forall n e, ins_at n e [] = repeat None n ++ [Some e].
Proof. induction n as [|n IH]; intros e; cbn; [reflexivity|]. rewrite IH. reflexivity. Qed.

Lemma ins_at_gt : forall n e xs, (length xs < n)%nat ->
  ins_at n e xs = xs ++ repeat None (n - length xs) ++ [Some e].
Proof.
  induction n as [|n IH]; intros e xs H; [lia|].
  destruct xs as [|s t].
  - rewrite ins_at_nil. reflexivity.
  - cbn in *. rewrite IH by lia. reflexivity.
Qed.

Lemma ins_at_length : forall n e xs, length (ins_at n e xs) = S (Nat.max n (length xs)).
Proof.
  induction n as [|n IH]; intros e xs; [reflexivity|].
  destruct xs as [|s t]; cbn; rewrite IH; cbn; lia.
Qed.

Lemma ins_at_nth : forall n e xs, nth_error (ins_at n e xs) n = Some (Some e).
Proof. induction n as [|n IH]; intros e [|s t]; cbn; auto. Qed.

Lemma rem_nth_eq : forall A n (xs : list A), rem_nth n xs = firstn n xs ++ skipn (S n) xs.
Proof.
  induction n as [|n IH]; intros [|x t]; cbn; try reflexivity. rewrite IH. reflexivity.
Qed.

Lemma rem_nth_length : forall A n (xs : list A), (n < length xs)%nat ->
  length (rem_nth n xs) = (length xs - 1)%nat.
Proof.
  induction n as [|n IH]; intros [|x t] H; cbn in *; try lia. rewrite IH by lia. lia.
Qed.

Lemma in_range_some : forall xs idx n, in_range xs idx = Some n ->
  0 <= norm_idx (llen xs) idx < llen xs /\ n = Z.to_nat (norm_idx (llen xs) idx) /\ (n < length xs)%nat.
Proof.
  unfold in_range, llen. intros xs idx n H.
  destruct (norm_idx (Z.of_nat (length xs)) idx <? 0) eqn:A; [discriminate|].
  destruct (Z.of_nat (length xs) <=? norm_idx (Z.of_nat (length xs)) idx) eqn:B; [discriminate|].
  cbn in H. inversion H. apply Z.ltb_ge in A. apply Z.leb_gt in B. repeat split; lia.
Qed.

Lemma in_range_none : forall xs idx, in_range xs idx = None ->
  norm_idx (llen xs) idx < 0 \/ llen xs <= norm_idx (llen xs) idx.
Proof.
  unfold in_range, llen. intros xs idx H.
  destruct (norm_idx (Z.of_nat (length xs)) idx <? 0) eqn:A; [left; apply Z.ltb_lt; exact A|].
  destruct (Z.of_nat (length xs) <=? norm_idx (Z.of_nat (length xs)) idx) eqn:B; [|discriminate].
  right. apply Z.leb_le. exact B.
Qed.

Lemma in_range_ok : forall xs idx, 0 <= norm_idx (llen xs) idx < llen xs ->
  in_range xs idx = Some (Z.to_nat (norm_idx (llen xs) idx)).
Proof.
  unfold in_range. intros xs idx [H1 H2].
  apply Z.ltb_ge in H1. apply Z.leb_gt in H2. rewrite H1, H2. reflexivity.
Qed.

(* --- refusals and successes of the positional operations ---------------------------------------- *)
Theorem insert_at_refused : forall xs idx e, norm_idx (llen xs) idx < 0 ->
  list_step xs (LInsertAt idx e) = (xs, OBool false).
Proof.
  intros xs idx e H. cbn. unfold l_insert_at. apply Z.ltb_lt in H. rewrite H. reflexivity.
Qed.

Theorem insert_at_done : forall xs idx e, 0 <= norm_idx (llen xs) idx ->
  let n := Z.to_nat (norm_idx (llen xs) idx) in
  list_step xs (LInsertAt idx e) = (ins_at n e xs, OBool true) /\
  nth_error (ins_at n e xs) n = Some (Some e) /\
  length (ins_at n e xs) = S (Nat.max n (length xs)) /\
  ((n <= length xs)%nat -> ins_at n e xs = firstn n xs ++ Some e :: skipn n xs) /\
  ((length xs < n)%nat -> ins_at n e xs = xs ++ repeat None (n - length xs) ++ [Some e]).
Proof.
  intros xs idx e H n. split; [|split; [apply ins_at_nth | split; [apply ins_at_length | split; [apply ins_at_le | apply ins_at_gt]]]].
  cbn. unfold l_insert_at. apply Z.ltb_ge in H. rewrite H. reflexivity.
Qed.

Theorem get_refused : forall xs idx, ~ (0 <= norm_idx (llen xs) idx < llen xs) ->
  list_step xs (LGet idx) = (xs, OElem None) /\ list_step xs (LRemoveAt idx) = (xs, OElem None).
Proof.
  intros xs idx H. cbn. unfold l_get, l_remove_at.
  destruct (in_range xs idx) as [n|] eqn:R; [|auto].
  apply in_range_some in R. destruct R as [R _]. contradiction.
Qed.

Theorem get_done : forall xs idx, 0 <= norm_idx (llen xs) idx < llen xs ->
  let n := Z.to_nat (norm_idx (llen xs) idx) in
  exists s, nth_error xs n = Some s /\
    list_step xs (LGet idx) = (xs, OElem s) /\
    list_step xs (LRemoveAt idx) = (firstn n xs ++ skipn (S n) xs, OElem s).
Proof.
  intros xs idx H n. cbn. unfold l_get, l_remove_at. rewrite (in_range_ok _ _ H). fold n.
  assert (L : (n < length xs)%nat) by (unfold n, llen in *; lia).
  destruct (nth_error xs n) as [s|] eqn:N; [|apply nth_error_None in N; lia].
  exists s. unfold slot_at. rewrite N, rem_nth_eq. auto.
Qed.

(* --- lookups by comparison ------------------------------------------------------------------------ *)
Lemma rem_first_spec : forall p xs xs' r, rem_first p xs = (xs', r) ->
  (exists x l1 l2, r = Some x /\ ekey x = p /\ xs = l1 ++ Some x :: l2 /\ xs' = l1 ++ l2 /\
                   forall s, In s l1 -> eq_slot p s = false)
  \/ (r = None /\ xs' = xs /\ forall s, In s xs -> eq_slot p s = false).
Proof.
  induction xs as [|s t IH]; intros xs' r H; cbn in H.
  - injection H as <- <-. right. repeat split; auto. intros s [].
  - destruct (eq_slot p s) eqn:E.
    + injection H as <- <-. destruct s as [x|]; [|discriminate]. cbn in E. apply key_eqb_eq in E.
      left. exists x, [], t. repeat split; auto. intros s [].
    + destruct (rem_first p t) as [t' r'] eqn:R. injection H as <- <-.
      destruct (IH _ _ eq_refl) as [(y & l1 & l2 & Hr & Hk & Hx & Hx' & Hn) | (Hr & Hx' & Hn)].
      * left. exists y, (s :: l1), l2. subst. repeat split; auto.
        intros z [<-|Hz]; auto.
      * right. subst. repeat split; auto. intros z [<-|Hz]; auto.
Qed.

(* find, contains, index and remove agree on WHICH element is the one equal to the probe: the first *)
Lemma first_equal : forall p xs i,
  match l_find xs p with
  | Some x => exists l1 l2, xs = l1 ++ Some x :: l2 /\ ekey x = p /\
                (forall s, In s l1 -> eq_slot p s = false) /\
                index_from p xs i = i + Z.of_nat (length l1) /\
                rem_first p xs = (l1 ++ l2, Some x)
  | None => (forall s, In s xs -> eq_slot p s = false) /\ index_from p xs i = -1 /\
            rem_first p xs = (xs, None)
  end.
Proof.
  induction xs as [|s t IH]; intros i; cbn.
  - repeat split; auto. intros s [].
  - destruct (eq_slot p s) eqn:E.
    + destruct s as [x|]; [|discriminate]. cbn in E. apply key_eqb_eq in E.
      exists [], t. repeat split; auto; [intros s [] | cbn; lia].
    + specialize (IH (i + 1)). destruct (l_find t p) as [x|].
      * destruct IH as (l1 & l2 & Hx & Hk & Hn & Hi & Hr). exists (s :: l1), l2.
        rewrite Hr, Hi. subst t. repeat split; auto.
        -- intros z [<-|Hz]; auto.
        -- cbn [length]. lia.
      * destruct IH as (Hn & Hi & Hr). rewrite Hr. repeat split; auto.
        intros z [<-|Hz]; auto.
Qed.

Theorem find_index_remove_agree : forall xs p,
  match l_find xs (ekey p) with
  | Some x =>
    exists l1 l2, xs = l1 ++ Some x :: l2 /\ ekey x = ekey p /\
      (forall s, In s l1 -> eq_slot (ekey p) s = false) /\
      snd (list_step xs (LFind (Some p))) = OElem (Some x) /\
      snd (list_step xs (LIndex p)) = OInt (Z.of_nat (length l1)) /\
      snd (list_step xs (LContains (Some p))) = OBool true /\
      list_step xs (LRemove (Some p)) = (l1 ++ l2, OElem (Some x))
  | None =>
    (forall s, In s xs -> eq_slot (ekey p) s = false) /\
    snd (list_step xs (LFind (Some p))) = OElem None /\
    snd (list_step xs (LIndex p)) = OInt (-1) /\
    snd (list_step xs (LContains (Some p))) = OBool false /\
    list_step xs (LRemove (Some p)) = (xs, OElem None)
  end.
Proof.
  intros xs p. assert (F := first_equal (ekey p) xs 0).
  cbn [list_step snd]. unfold l_index.
  destruct (l_find xs (ekey p)) as [x|].
  - destruct F as (l1 & l2 & Hx & Hk & Hn & Hi & Hr). exists l1, l2. rewrite Hr, Hi.
    repeat split; auto.
  - destruct F as (Hn & Hi & Hr). rewrite Hr, Hi. repeat split; auto.
Qed.

(* --- iteration ------------------------------------------------------------------------------------- *)
Theorem list_iterate_exact : forall xs,
  list_step xs LIterate = (xs, OElems xs) /\ list_step xs LToArray = (xs, OElems xs) /\
  (forall k, it_has_next (it_after k (it_new xs)) = (k <? length xs)%nat) /\
  (forall k, fst (it_next (it_after k (it_new xs))) = nth_error xs k).
Proof.
  intros xs. unfold list_step. rewrite it_sweep_exact by lia. cbn [fst].
  repeat split; auto using it_has_next_after, it_next_after.
Qed.

Theorem list_reverse_twice : forall xs, final list_step xs [LReverse; LReverse] = xs.
Proof. intros. cbn. apply rev_involutive. Qed.

Theorem list_count_is_length : forall ops,
  snd (list_step (final list_step [] ops) LCount) = OInt (llen (final list_step [] ops)).
Proof. reflexivity. Qed.

(* --- conservation: nothing is lost, nothing is duplicated ------------------------------------------ *)
Definition opt_list {A} (o : option A) : list A := match o with Some x => [x] | None => [] end.
Definition somes (xs : lstate) : list elem := flat_map opt_list xs.

Lemma somes_app : forall a b, somes (a ++ b) = somes a ++ somes b.
Proof. intros. unfold somes. apply flat_map_app. Qed.

Lemma somes_repeat_none : forall n, somes (repeat None n) = [].
Proof. induction n; cbn; auto. Qed.

Lemma somes_ins_at : forall n e xs, Permutation (somes (ins_at n e xs)) (e :: somes xs).
Proof.
  intros n e xs. destruct (Nat.le_gt_cases n (length xs)) as [H|H].
  - rewrite ins_at_le by exact H. rewrite somes_app. cbn [somes flat_map opt_list app].
    rewrite <- (firstn_skipn n xs) at 3. rewrite somes_app.
    apply Permutation_sym. apply Permutation_middle.
  - rewrite ins_at_gt by exact H. rewrite !somes_app, somes_repeat_none. cbn.
    apply Permutation_sym. apply Permutation_cons_append.
Qed.

Lemma somes_ins_ordered : forall e xs, Permutation (somes (ins_ordered e xs)) (e :: somes xs).
Proof.
  induction xs as [|s t IH]; cbn; [apply Permutation_refl|].
  destruct (gt_slot e s); [|apply Permutation_refl].
  cbn. fold (somes (ins_ordered e t)). fold (somes t).
  eapply perm_trans; [apply Permutation_app_head; exact IH|].
  apply Permutation_sym. apply (Permutation_middle (opt_list s) (somes t) e).
Qed.

Lemma somes_rev : forall xs, Permutation (somes (rev xs)) (somes xs).
Proof.
  induction xs as [|s t IH]; cbn; [apply Permutation_refl|].
  rewrite somes_app. cbn. rewrite app_nil_r. fold (somes t).
  eapply perm_trans; [apply Permutation_app_comm|]. apply Permutation_app_head. exact IH.
Qed.

Lemma somes_rem_first : forall p xs xs' r, rem_first p xs = (xs', r) ->
  Permutation (somes xs) (opt_list r ++ somes xs').
Proof.
  intros p xs xs' r H.
  destruct (rem_first_spec _ _ _ _ H) as [(y & l1 & l2 & Hr & _ & Hx & Hx' & _) | (Hr & Hx & _)]; subst.
  - rewrite !somes_app. cbn. apply Permutation_sym. apply (Permutation_middle (somes l1) (somes l2) y).
  - apply Permutation_refl.
Qed.

Lemma somes_rem_nth : forall n xs, Permutation (somes xs) (opt_list (slot_at xs n) ++ somes (rem_nth n xs)).
Proof.
  unfold slot_at. induction n as [|n IH]; intros [|s t]; cbn; try apply Permutation_refl.
  fold (somes t). fold (somes (rem_nth n t)).
  eapply perm_trans; [apply Permutation_app_head; apply IH|].
  rewrite !app_assoc. apply Permutation_app_tail. apply Permutation_app_comm.
Qed.

(* elements that entered the list / elements the list handed back, along a history *)
Fixpoint l_inserted (s : lstate) (ops : list lop) : list elem :=
  match ops with
  | [] => []
  | op :: t =>
    (match op with
     | LAppend e | LPrepend e | LInsert e => [e]
     | LInsertAt idx e => if snd (l_insert_at s idx e) then [e] else []
     | _ => []
     end) ++ l_inserted (fst (list_step s op)) t
  end.
Fixpoint l_handed (s : lstate) (ops : list lop) : list elem :=
  match ops with
  | [] => []
  | op :: t =>
    (match op, snd (list_step s op) with
     | LRemove _, OElem r | LRemoveAt _, OElem r => opt_list r
     | _, _ => []
     end) ++ l_handed (fst (list_step s op)) t
  end.

Theorem list_contents_gen : forall ops s,
  Permutation (somes (final list_step s ops) ++ l_handed s ops) (somes s ++ l_inserted s ops).
Proof.
  induction ops as [|op t IH]; intros s.
  - cbn. apply Permutation_refl.
  - rewrite final_cons. cbn [l_handed l_inserted].
    eapply perm_trans; [apply Permutation_app_swap_app|].
    eapply perm_trans; [apply Permutation_app_head; apply IH|].
    rewrite !app_assoc. apply Permutation_app_tail.
    destruct op; cbn [list_step fst snd app]; rewrite ?app_nil_r; try apply Permutation_refl.
    + (* append *) rewrite somes_app. apply Permutation_refl.
    + (* prepend *) change (somes (Some e :: s)) with (e :: somes s). apply Permutation_cons_append.
    + (* insert *) eapply perm_trans; [apply somes_ins_ordered|]. apply Permutation_cons_append.
    + (* insert_at *)
      unfold l_insert_at. destruct (norm_idx (llen s) idx <? 0); cbn [fst snd].
      * rewrite ?app_nil_r. apply Permutation_refl.
      * eapply perm_trans; [apply somes_ins_at|]. apply Permutation_cons_append.
    + (* remove *)
      destruct p as [p|]; cbn [fst snd]; [|cbn [opt_list app]; rewrite ?app_nil_r; apply Permutation_refl].
      destruct (rem_first (ekey p) s) as [s' r] eqn:R. cbn [fst snd].
      rewrite ?app_nil_r. apply Permutation_sym. apply somes_rem_first in R. exact R.
    + (* remove_at *)
      unfold l_remove_at. destruct (in_range s idx) as [n|]; cbn [fst snd].
      * rewrite ?app_nil_r. apply Permutation_sym. apply somes_rem_nth.
      * cbn [opt_list app]. rewrite ?app_nil_r. apply Permutation_refl.
    + (* find *) destruct p; apply Permutation_refl.
    + (* contains *) destruct p; apply Permutation_refl.
    + (* reverse *) apply somes_rev.
Qed.

Theorem list_contents : forall ops,
  Permutation (somes (final list_step [] ops) ++ l_handed [] ops) (l_inserted [] ops).
Proof. intros. apply (list_contents_gen ops []). Qed.

Theorem list_nodup : forall ops, NoDup (map eid (l_inserted [] ops)) ->
  NoDup (map eid (somes (final list_step [] ops))).
Proof.
  intros ops H. assert (P := list_contents ops).
  apply (Permutation_map eid) in P. apply Permutation_sym in P.
  apply (Permutation_NoDup P) in H. rewrite map_app in H. eapply NoDup_app_l. exact H.
Qed.
