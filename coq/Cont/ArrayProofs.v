(* ArrayProofs - the pointer-level model of src/array.c (Cont/ArrayModel.v) refines the ideal
   objects of Cont/ContSpec.v.  Part 1: representation, block lemmas, one lemma per member
   function that needs no comparison.  (Part 2, ArrayRefine.v: comparisons, binary search, the
   per-operation step lemmas and the history theorems.) *)
From LV Require Import Cont.ContSpec Cont.ContKey Cont.ListProofs Cont.ArrayModel.
Local Open Scope Z_scope.

(* ---------------------------------------------------------------------------------------- *)
(* representation *)
Definition cells {A} (xs : list (option A)) : block A := map Some xs.

(* the one heap object that represents the sequence xs: len = length, items NULL iff empty,
   otherwise a block of exactly `length xs` written slots spelling xs *)
Definition arr_of {A} (xs : list (option A)) : arr A :=
  mkArr (Z.of_nat (length xs)) (match xs with [] => None | _ => Some (cells xs) end).

Definition Repr_array {A} (a : arr A) (xs : list (option A)) : Prop :=
  alen a = Z.of_nat (length xs) /\
  aitems a = match xs with [] => None | _ => Some (map Some xs) end.

Lemma Repr_array_iff : forall A (a : arr A) xs, Repr_array a xs <-> a = arr_of xs.
Proof.
  intros A [n it] xs. unfold Repr_array, arr_of, cells. cbn. split.
  - intros [-> ->]. reflexivity.
  - intros H. inversion H. auto.
Qed.

Lemma Repr_array_inj : forall A (a : arr A) xs ys, Repr_array a xs -> Repr_array a ys -> xs = ys.
Proof.
  intros A a xs ys [L1 I1] [L2 I2]. rewrite I1 in I2.
  destruct xs as [|x xs], ys as [|y ys]; try discriminate; [reflexivity|].
  inversion I2 as [[Hx Ht]]. f_equal.
  clear -Ht. revert ys Ht. induction xs as [|a xs IH]; intros [|b ys] H; cbn in H; try discriminate; auto.
  inversion H. f_equal; auto.
Qed.

Definition fits {X} (xs : list X) : Prop := Z.of_nat (length xs) <= INT_MAX.

(* ---------------------------------------------------------------------------------------- *)
(* list algebra *)
Lemma firstn_exact : forall X (a b : list X) n, length a = n -> firstn n (a ++ b) = a.
Proof. intros X a b n <-. rewrite firstn_app, Nat.sub_diag, firstn_all. cbn. apply app_nil_r. Qed.

Lemma skipn_exact : forall X (a b : list X) n, length a = n -> skipn n (a ++ b) = b.
Proof. intros X a b n <-. rewrite skipn_app, Nat.sub_diag, skipn_all. reflexivity. Qed.

Lemma nth_error_exact : forall X (a : list X) x b n, length a = n -> nth_error (a ++ x :: b) n = Some x.
Proof. intros X a x b n <-. rewrite nth_error_app2, Nat.sub_diag by lia. reflexivity. Qed.

Lemma cells_app : forall A (a b : list (option A)), cells (a ++ b) = cells a ++ cells b.
Proof. intros. apply map_app. Qed.
Lemma cells_length : forall A (a : list (option A)), length (cells a) = length a.
Proof. intros. apply map_length. Qed.

Lemma app_cons_assoc : forall X (a : list X) x b, a ++ x :: b = (a ++ [x]) ++ b.
Proof. intros. rewrite <- app_assoc. reflexivity. Qed.

Lemma Z_nat_S : forall n : nat, Z.of_nat n + 1 = Z.of_nat (S n).
Proof. intros. lia. Qed.

(* ---------------------------------------------------------------------------------------- *)
(* blocks *)
Section BlockFacts.
  Context {A : Type}.
  Implicit Types (b P M Q : block A).

  Lemma blk_rd_at : forall P c Q, blk_rd (P ++ Some c :: Q) (Z.of_nat (length P)) = Ok c.
  Proof.
    intros P c Q. unfold blk_rd, blen. rewrite app_length. cbn [length].
    replace (Z.of_nat (length P) <? 0) with false by (symmetry; apply Z.ltb_ge; lia).
    replace (Z.of_nat (length P + S (length Q)) <=? Z.of_nat (length P)) with false
      by (symmetry; apply Z.leb_gt; lia).
    cbn [orb]. rewrite Nat2Z.id, nth_error_exact by reflexivity. reflexivity.
  Qed.

  Lemma blk_wr_at : forall P c Q v, blk_wr (P ++ c :: Q) (Z.of_nat (length P)) v = Ok (P ++ Some v :: Q).
  Proof.
    intros P c Q v. unfold blk_wr, blen. rewrite app_length. cbn [length].
    replace (Z.of_nat (length P) <? 0) with false by (symmetry; apply Z.ltb_ge; lia).
    replace (Z.of_nat (length P + S (length Q)) <=? Z.of_nat (length P)) with false
      by (symmetry; apply Z.leb_gt; lia).
    cbn [orb]. rewrite Nat2Z.id, firstn_exact by reflexivity.
    rewrite (app_cons_assoc _ P c Q), skipn_exact by (rewrite app_length; cbn; lia). reflexivity.
  Qed.

  (* memmove one slot up: the M part of P ++ M ++ [c] lands one slot later *)
  Lemma blk_memmove_up : forall P M c, M <> [] ->
    exists d, blk_memmove (P ++ M ++ [c]) (Z.of_nat (length P) + 1) (Z.of_nat (length P)) (Z.of_nat (length M))
              = Ok (P ++ d :: M).
  Proof.
    intros P M c HM.
    assert (LM : (0 < length M)%nat) by (destruct M; [congruence | cbn; lia]).
    unfold blk_memmove, blen. rewrite !app_length. cbn [length].
    replace (Z.of_nat (length M) <? 0) with false by (symmetry; apply Z.ltb_ge; lia).
    replace (Z.of_nat (length M) =? 0) with false by (symmetry; apply Z.eqb_neq; lia).
    replace (Z.of_nat (length P) <? 0) with false by (symmetry; apply Z.ltb_ge; lia).
    replace (Z.of_nat (length P) + 1 <? 0) with false by (symmetry; apply Z.ltb_ge; lia).
    replace (Z.of_nat (length P + (length M + 1)) <? Z.of_nat (length P) + Z.of_nat (length M)) with false
      by (symmetry; apply Z.ltb_ge; lia).
    replace (Z.of_nat (length P + (length M + 1)) <? Z.of_nat (length P) + 1 + Z.of_nat (length M)) with false
      by (symmetry; apply Z.ltb_ge; lia).
    cbn [orb].
    rewrite !Nat2Z.id.
    replace (Z.to_nat (Z.of_nat (length P) + 1)) with (S (length P)) by lia.
    replace (Z.to_nat (Z.of_nat (length P) + 1 + Z.of_nat (length M))) with (length (P ++ M ++ [c]))
      by (rewrite !app_length; cbn; lia).
    rewrite skipn_all, app_nil_r.
    rewrite skipn_exact by reflexivity. rewrite (firstn_exact _ M [c] (length M)) by reflexivity.
    destruct M as [|m M']; [congruence|].
    exists m. f_equal. cbn [app]. rewrite (app_cons_assoc _ P m (M' ++ [c])).
    rewrite firstn_exact by (rewrite app_length; cbn; lia).
    rewrite <- app_assoc. reflexivity.
  Qed.

  (* memmove one slot down: P ++ c :: M becomes P ++ M ++ [last] *)
  Lemma blk_memmove_down : forall P c M, M <> [] ->
    exists d, blk_memmove (P ++ c :: M) (Z.of_nat (length P)) (Z.of_nat (length P) + 1) (Z.of_nat (length M))
              = Ok (P ++ M ++ [d]).
  Proof.
    intros P c M HM.
    assert (LM : (0 < length M)%nat) by (destruct M; [congruence | cbn; lia]).
    unfold blk_memmove, blen. rewrite !app_length. cbn [length].
    replace (Z.of_nat (length M) <? 0) with false by (symmetry; apply Z.ltb_ge; lia).
    replace (Z.of_nat (length M) =? 0) with false by (symmetry; apply Z.eqb_neq; lia).
    replace (Z.of_nat (length P) <? 0) with false by (symmetry; apply Z.ltb_ge; lia).
    replace (Z.of_nat (length P) + 1 <? 0) with false by (symmetry; apply Z.ltb_ge; lia).
    replace (Z.of_nat (length P + S (length M)) <? Z.of_nat (length P) + 1 + Z.of_nat (length M)) with false
      by (symmetry; apply Z.ltb_ge; lia).
    replace (Z.of_nat (length P + S (length M)) <? Z.of_nat (length P) + Z.of_nat (length M)) with false
      by (symmetry; apply Z.ltb_ge; lia).
    cbn [orb].
    rewrite !Nat2Z.id.
    replace (Z.to_nat (Z.of_nat (length P) + 1)) with (S (length P)) by lia.
    replace (Z.to_nat (Z.of_nat (length P) + Z.of_nat (length M))) with (length P + length M)%nat by lia.
    rewrite firstn_exact by reflexivity.
    rewrite (app_cons_assoc _ P c M), skipn_exact by (rewrite app_length; cbn; lia).
    rewrite firstn_all.
    destruct (exists_last HM) as (M' & d & ->).
    exists d. do 3 f_equal.
    rewrite (app_assoc (P ++ [c]) M' [d]).
    apply skipn_exact. rewrite !app_length. cbn. lia.
  Qed.

  Lemma blk_memset0_at : forall P M Q, M <> [] ->
    blk_memset0 (P ++ M ++ Q) (Z.of_nat (length P)) (Z.of_nat (length M))
    = Ok (P ++ repeat (Some None) (length M) ++ Q).
  Proof.
    intros P M Q HM.
    assert (LM : (0 < length M)%nat) by (destruct M; [congruence | cbn; lia]).
    unfold blk_memset0, blen. rewrite !app_length.
    replace (Z.of_nat (length M) <? 0) with false by (symmetry; apply Z.ltb_ge; lia).
    replace (Z.of_nat (length M) =? 0) with false by (symmetry; apply Z.eqb_neq; lia).
    replace (Z.of_nat (length P) <? 0) with false by (symmetry; apply Z.ltb_ge; lia).
    replace (Z.of_nat (length P + (length M + length Q)) <? Z.of_nat (length P) + Z.of_nat (length M)) with false
      by (symmetry; apply Z.ltb_ge; lia).
    cbn [orb]. rewrite !Nat2Z.id.
    replace (Z.to_nat (Z.of_nat (length P) + Z.of_nat (length M))) with (length (P ++ M)) by (rewrite app_length; lia).
    rewrite firstn_exact by reflexivity.
    rewrite (app_assoc P M Q), skipn_exact by reflexivity. reflexivity.
  Qed.
End BlockFacts.

(* growing the items block of the representing object by k >= 1 slots *)
Lemma grow_arr_of : forall A (xs : list (option A)) (k : nat), (0 < k)%nat ->
  grow (aitems (arr_of xs)) (Z.of_nat (length xs + k)) = Some (cells xs ++ repeat None k).
Proof.
  intros A xs k Hk. unfold arr_of. cbn [aitems].
  destruct xs as [|x t].
  - unfold grow, blk_malloc. cbn [length Nat.add cells map app]. rewrite Nat2Z.id. reflexivity.
  - unfold grow, blk_realloc.
    replace (Z.of_nat (length (x :: t) + k) =? 0) with false by (symmetry; apply Z.eqb_neq; lia).
    rewrite Nat2Z.id, cells_length.
    rewrite firstn_all2 by (rewrite cells_length; lia).
    replace (length (x :: t) + k - length (x :: t))%nat with k by lia. reflexivity.
Qed.

(* shrinking a block to its first n slots *)
Lemma shrink_cells : forall A (xs : list (option A)) (extra : block A),
  blk_realloc (Some (cells xs ++ extra)) (Z.of_nat (length xs)) = aitems (arr_of xs).
Proof.
  intros A xs extra. unfold blk_realloc, arr_of. cbn [aitems].
  destruct xs as [|x t]; [reflexivity|].
  replace (Z.of_nat (length (x :: t)) =? 0) with false by (symmetry; apply Z.eqb_neq; cbn; lia).
  rewrite Nat2Z.id, firstn_exact by apply cells_length.
  rewrite app_length, cells_length.
  replace (length (x :: t) - (length (x :: t) + length extra))%nat with 0%nat by lia.
  cbn [repeat]. rewrite app_nil_r. reflexivity.
Qed.

(* ---------------------------------------------------------------------------------------- *)
(* reading an object whose first len slots spell xs (the representing object, or one whose
   items block has just been grown) *)
Definition Reads {A} (a : arr A) (xs : list (option A)) : Prop :=
  alen a = Z.of_nat (length xs) /\
  forall pre s post, xs = pre ++ s :: post -> item_rd a (Z.of_nat (length pre)) = Ok s.

Lemma Reads_block : forall A (xs : list (option A)) extra n,
  n = Z.of_nat (length xs) -> Reads (mkArr n (Some (cells xs ++ extra))) xs.
Proof.
  intros A xs extra n ->. split; [reflexivity|].
  intros pre s post ->. unfold item_rd. cbn.
  rewrite cells_app. cbn. rewrite <- app_assoc. cbn.
  rewrite <- (cells_length _ pre). apply blk_rd_at.
Qed.

Lemma Reads_arr_of : forall A (xs : list (option A)), Reads (arr_of xs) xs.
Proof.
  intros A xs. destruct xs as [|x t].
  - split; [reflexivity|]. intros [|? ?] s post H; discriminate.
  - unfold arr_of. rewrite <- (app_nil_r (cells (x :: t))). apply Reads_block. reflexivity.
Qed.

Lemma chk_inc_ok : forall z, z < INT_MAX -> chk_inc z = Ok (z + 1).
Proof. intros z H. unfold chk_inc. apply Z.ltb_lt in H. rewrite H. reflexivity. Qed.

Lemma arr_of_cons : forall A (x : option A) t,
  arr_of (x :: t) = mkArr (Z.of_nat (length (x :: t))) (Some (cells (x :: t))).
Proof. reflexivity. Qed.

Lemma arr_of_nonempty : forall A (xs : list (option A)), xs <> [] ->
  arr_of xs = mkArr (Z.of_nat (length xs)) (Some (cells xs)).
Proof. intros A [|x t] H; [congruence | reflexivity]. Qed.

Lemma split_nth : forall X (xs : list X) n d, (n < length xs)%nat ->
  xs = firstn n xs ++ nth n xs d :: skipn (S n) xs.
Proof.
  induction xs as [|x t IH]; intros n d H; cbn in H; [lia|].
  destruct n as [|n]; [reflexivity|]. cbn. f_equal. apply IH. lia.
Qed.

(* ---------------------------------------------------------------------------------------- *)
(* spif_array_get *)
Definition g_get {A} (xs : list (option A)) (idx : Z) : option A :=
  let n := Z.of_nat (length xs) in
  let i := if idx <? 0 then idx + n else idx in
  if (0 <=? i) && (i <? n) then nth (Z.to_nat i) xs None else None.

Lemma Reads_nth : forall A (a : arr A) xs i, Reads a xs -> 0 <= i < Z.of_nat (length xs) ->
  item_rd a i = Ok (nth (Z.to_nat i) xs None).
Proof.
  intros A a xs i [_ R] H.
  assert (L : (Z.to_nat i < length xs)%nat) by lia.
  rewrite <- (R _ _ _ (split_nth _ xs (Z.to_nat i) None L)).
  rewrite firstn_length_le by lia. f_equal. lia.
Qed.

Lemma arr_get_spec : forall A (a : arr A) xs idx, Reads a xs -> arr_get a idx = Ok (g_get xs idx).
Proof.
  intros A a xs idx R. unfold arr_get, g_get. rewrite (proj1 R).
  set (i := if idx <? 0 then idx + Z.of_nat (length xs) else idx).
  destruct ((0 <=? i) && (i <? Z.of_nat (length xs))) eqn:C; [|reflexivity].
  apply andb_prop in C. destruct C as [C1 C2]. apply Z.leb_le in C1. apply Z.ltb_lt in C2.
  apply Reads_nth; [exact R | lia].
Qed.

Lemma slot_at_nth : forall xs n, slot_at xs n = nth n xs None.
Proof.
  unfold slot_at. induction xs as [|x t IH]; intros [|n]; cbn; auto.
Qed.

Lemma l_get_g_get : forall xs idx, l_get xs idx = g_get xs idx.
Proof.
  intros xs idx. unfold l_get, in_range, g_get, norm_idx, llen.
  set (n := Z.of_nat (length xs)). set (i := if idx <? 0 then idx + n else idx).
  destruct (i <? 0) eqn:C1; destruct (n <=? i) eqn:C2; destruct (0 <=? i) eqn:C3; destruct (i <? n) eqn:C4;
    cbn [orb andb]; try reflexivity; try apply slot_at_nth;
    rewrite ?Z.ltb_lt, ?Z.ltb_ge, ?Z.leb_le, ?Z.leb_gt in *; lia.
Qed.

Lemma map_nth_seq : forall X (xs : list X) d, map (fun k => nth k xs d) (seq 0 (length xs)) = xs.
Proof.
  induction xs as [|x t IH]; intros d; [reflexivity|].
  cbn [length seq map nth]. f_equal. rewrite <- seq_shift, map_map. apply IH.
Qed.

Lemma arr_gets_spec : forall A (a : arr A) xs, Reads a xs -> forall n from,
  arr_gets a from n = Ok (map (fun k => g_get xs (from + Z.of_nat k)) (seq 0 n)).
Proof.
  intros A a xs R. induction n as [|n IH]; intros from; [reflexivity|].
  cbn [arr_gets]. rewrite (arr_get_spec _ _ _ _ R). cbn [bind]. rewrite IH. cbn [bind seq map].
  rewrite Z.add_0_r. do 2 f_equal. rewrite <- seq_shift, map_map.
  apply map_ext. intros k. f_equal. lia.
Qed.

Lemma g_get_nat : forall A (xs : list (option A)) k, (k < length xs)%nat ->
  g_get xs (Z.of_nat k) = nth k xs None.
Proof.
  intros A xs k H. unfold g_get.
  replace (Z.of_nat k <? 0) with false by (symmetry; apply Z.ltb_ge; lia).
  replace (0 <=? Z.of_nat k) with true by (symmetry; apply Z.leb_le; lia).
  replace (Z.of_nat k <? Z.of_nat (length xs)) with true by (symmetry; apply Z.ltb_lt; lia).
  cbn [andb]. rewrite Nat2Z.id. reflexivity.
Qed.

(* get(0), ..., get(len-1) reads the whole sequence *)
Lemma arr_gets_all : forall A (a : arr A) xs, Reads a xs ->
  arr_gets a 0 (Z.to_nat (arr_count a)) = Ok xs.
Proof.
  intros A a xs R. unfold arr_count. rewrite (proj1 R), Nat2Z.id, (arr_gets_spec _ _ _ R). f_equal.
  rewrite <- (map_nth_seq _ xs None) at 2. apply map_ext_in. intros k Hk. apply in_seq in Hk.
  cbn [Z.add]. apply g_get_nat. lia.
Qed.

(* ---------------------------------------------------------------------------------------- *)
(* the iterator *)
Lemma arr_sweep_spec : forall A (a : arr A) xs, Reads a xs -> fits xs ->
  forall rest pre fuel, xs = pre ++ rest -> (length rest <= fuel)%nat ->
  arr_sweep fuel a (mkIter true (Z.of_nat (length pre))) = Ok rest.
Proof.
  intros A a xs R F. induction rest as [|s t IH]; intros pre fuel E Hf.
  - assert (L : length xs = length pre) by (rewrite E, app_nil_r; reflexivity).
    destruct fuel; cbn [arr_sweep]; unfold ait_has_next; cbn [ai_subject ai_index];
      rewrite (proj1 R), L, Z.leb_refl; reflexivity.
  - destruct fuel as [|f]; [cbn in Hf; lia|].
    assert (L : length xs = (length pre + S (length t))%nat) by (rewrite E, app_length; reflexivity).
    cbn [arr_sweep]. unfold ait_has_next, ait_next. cbn [ai_subject ai_index].
    rewrite (proj1 R).
    replace (Z.of_nat (length xs) <=? Z.of_nat (length pre)) with false by (symmetry; apply Z.leb_gt; lia).
    cbn [negb]. unfold arr_get. rewrite (proj1 R).
    replace (Z.of_nat (length pre) <? 0) with false by (symmetry; apply Z.ltb_ge; lia).
    replace (0 <=? Z.of_nat (length pre)) with true by (symmetry; apply Z.leb_le; lia).
    replace (Z.of_nat (length pre) <? Z.of_nat (length xs)) with true by (symmetry; apply Z.ltb_lt; lia).
    cbn [andb]. rewrite (proj2 R _ _ _ E). cbn [bind].
    rewrite chk_inc_ok by (unfold fits in F; lia). cbn [bind].
    rewrite Z_nat_S. replace (S (length pre)) with (length (pre ++ [s])) by (rewrite app_length; cbn; lia).
    rewrite (IH (pre ++ [s]) f); [reflexivity | rewrite <- app_assoc; exact E | cbn in Hf; lia].
Qed.

Lemma arr_iterate_spec : forall A (a : arr A) xs, Reads a xs -> fits xs -> arr_iterate a = Ok xs.
Proof.
  intros A a xs R F. unfold arr_iterate, arr_iterator. rewrite (proj1 R), Nat2Z.id.
  apply (arr_sweep_spec _ a xs R F xs []); [reflexivity | lia].
Qed.

(* ---------------------------------------------------------------------------------------- *)
(* spif_array_append *)
Lemma arr_append_spec : forall A (xs : list (option A)) v, Z.of_nat (length xs) < INT_MAX ->
  arr_append (arr_of xs) v = Ok (arr_of (xs ++ [v]), true).
Proof.
  intros A xs v H. unfold arr_append.
  replace (alen (arr_of xs)) with (Z.of_nat (length xs)) by reflexivity.
  rewrite chk_inc_ok by exact H. cbn [bind].
  replace (Z.of_nat (length xs) + 1) with (Z.of_nat (length xs + 1)) by lia.
  rewrite grow_arr_of by lia. cbn [deref bind repeat].
  replace (Z.of_nat (length xs + 1) - 1) with (Z.of_nat (length (cells xs))) by (rewrite cells_length; lia).
  rewrite (blk_wr_at (cells xs) None [] v). cbn [bind].
  rewrite arr_of_nonempty by (destruct xs; discriminate).
  rewrite app_length, cells_app. reflexivity.
Qed.

(* the slot-shifting core of insert / insert_at / prepend: one new slot at the end, the part
   after position |pre| moved up, the new pointer written *)
Lemma place_spec : forall A (pre post : list (option A)) v,
  exists b1,
   (if Z.of_nat (length post) =? 0 then Ok (cells (pre ++ post) ++ [None])
    else blk_memmove (cells (pre ++ post) ++ [None]) (Z.of_nat (length pre) + 1) (Z.of_nat (length pre))
                     (Z.of_nat (length post))) = Ok b1 /\
   blk_wr b1 (Z.of_nat (length pre)) v = Ok (cells (pre ++ v :: post)).
Proof.
  intros A pre post v. unfold cells. rewrite !map_app.
  destruct post as [|p post'].
  - cbn [length Z.of_nat Z.eqb bind map]. rewrite app_nil_r. eexists. split; [reflexivity|].
    rewrite <- (map_length Some pre). apply blk_wr_at.
  - replace (Z.of_nat (length (p :: post')) =? 0) with false by (symmetry; apply Z.eqb_neq; cbn; lia).
    rewrite <- app_assoc.
    rewrite <- (map_length Some pre), <- (map_length Some (p :: post')).
    destruct (blk_memmove_up (map Some pre) (map Some (p :: post')) None) as [d ->]; [discriminate|].
    eexists. split; [reflexivity|]. apply blk_wr_at.
Qed.

(* spif_array_prepend *)
Lemma arr_prepend_spec : forall A (xs : list (option A)) e, Z.of_nat (length xs) < INT_MAX ->
  arr_prepend (arr_of xs) (Some e) = Ok (arr_of (Some e :: xs), true).
Proof.
  intros A xs e H. unfold arr_prepend.
  replace (alen (arr_of xs)) with (Z.of_nat (length xs)) by reflexivity.
  rewrite chk_inc_ok by exact H. cbn [bind].
  replace (Z.of_nat (length xs) + 1) with (Z.of_nat (length xs + 1)) by lia.
  rewrite grow_arr_of by lia. cbn [deref bind repeat].
  destruct (place_spec A [] xs (Some e)) as (b1 & P1 & P2). cbn [app length Z.of_nat Z.add] in P1, P2.
  destruct (Z.of_nat (length xs) =? 0) eqn:Z0.
  - apply Z.eqb_eq in Z0. rewrite Z0. unfold blk_memmove at 1. cbn [Z.ltb Z.compare Z.eqb bind].
    inversion P1; subst b1. rewrite P2. cbn [bind]. rewrite arr_of_cons. cbn [length]. do 3 f_equal. lia.
  - rewrite P1. cbn [bind]. rewrite P2. cbn [bind]. rewrite arr_of_cons. cbn [length]. do 3 f_equal. lia.
Qed.

Lemma map_repeat' : forall X Y (f : X -> Y) x n, map f (repeat x n) = repeat (f x) n.
Proof. induction n; cbn; congruence. Qed.

Lemma repeat_snoc : forall X (x : X) n, repeat x (S n) = repeat x n ++ [x].
Proof. induction n; cbn in *; congruence. Qed.

(* spif_array_insert_at *)
Lemma arr_insert_at_spec : forall (xs : lstate) idx e,
  fits (fst (l_insert_at xs idx e)) ->
  arr_insert_at (arr_of xs) (Some e) idx
  = Ok (arr_of (fst (l_insert_at xs idx e)), snd (l_insert_at xs idx e)).
Proof.
  intros xs idx e F. unfold arr_insert_at, l_insert_at, norm_idx, llen in *.
  replace (alen (arr_of xs)) with (Z.of_nat (length xs)) by reflexivity.
  set (i := if idx <? 0 then idx + Z.of_nat (length xs) else idx) in *.
  destruct (i <? 0) eqn:Neg; [reflexivity|]. apply Z.ltb_ge in Neg.
  cbn [fst snd] in *. unfold fits in F. rewrite ins_at_length in F.
  set (n := Z.to_nat i) in *.
  assert (Hi : i = Z.of_nat n) by (unfold n; lia).
  destruct (Z.of_nat (length xs) <? i) eqn:Pad.
  - (* past the end: pad with NULLs *)
    apply Z.ltb_lt in Pad.
    rewrite chk_inc_ok by lia. cbn [bind].
    replace (i + 1) with (Z.of_nat (length xs + (S (n - length xs)))) by lia.
    rewrite grow_arr_of by lia. cbn [deref bind].
    replace (0 <? - (i - Z.of_nat (length xs))) with false by (symmetry; apply Z.ltb_ge; lia).
    replace (- (i - Z.of_nat (length xs)) <? 0) with true by (symmetry; apply Z.ltb_lt; lia).
    rewrite repeat_snoc.
    replace (i - - - (i - Z.of_nat (length xs))) with (Z.of_nat (length (cells xs))) by (rewrite cells_length; lia).
    replace (- - (i - Z.of_nat (length xs))) with (Z.of_nat (length (repeat (@None (option elem)) (n - length xs))))
      by (rewrite repeat_length; lia).
    rewrite blk_memset0_at by (intro HH; apply (f_equal (@length _)) in HH; rewrite repeat_length in HH; cbn in HH; lia).
    cbn [bind]. rewrite repeat_length.
    replace i with (Z.of_nat (length (cells xs ++ repeat (Some (@None elem)) (n - length xs))))
      by (rewrite app_length, cells_length, repeat_length; lia).
    rewrite app_assoc, blk_wr_at. cbn [bind].
    rewrite ins_at_gt by lia.
    rewrite arr_of_nonempty
      by (intro HH; apply app_eq_nil in HH; destruct HH as [_ HH]; apply app_eq_nil in HH; destruct HH; discriminate).
    f_equal. f_equal. f_equal.
    + rewrite !app_length, !repeat_length. cbn [length]. lia.
    + unfold cells. rewrite !map_app, map_repeat'. rewrite <- app_assoc. reflexivity.
  - (* inside, or at the end *)
    apply Z.ltb_ge in Pad.
    rewrite chk_inc_ok by lia. cbn [bind].
    replace (Z.of_nat (length xs) + 1) with (Z.of_nat (length xs + 1)) by lia.
    rewrite grow_arr_of by lia. cbn [deref bind repeat].
    assert (Ln : (n <= length xs)%nat) by lia.
    rewrite ins_at_le by exact Ln.
    destruct (place_spec elem (firstn n xs) (skipn n xs) (Some e)) as (b1 & P1 & P2).
    rewrite firstn_skipn in P1. rewrite firstn_length_le in P1, P2 by exact Ln.
    rewrite skipn_length in P1.
    replace (Z.of_nat (length xs) - i) with (Z.of_nat (length xs - n)) by lia.
    rewrite <- Hi in P1, P2.
    assert (E : (if 0 <? Z.of_nat (length xs - n)
                 then blk_memmove (cells xs ++ [None]) (i + 1) i (Z.of_nat (length xs - n))
                 else if Z.of_nat (length xs - n) <? 0
                      then blk_memset0 (cells xs ++ [None]) (i - - Z.of_nat (length xs - n)) (- Z.of_nat (length xs - n))
                      else Ok (cells xs ++ [None])) = Ok b1).
    { destruct (Z.of_nat (length xs - n) =? 0) eqn:Z0.
      - apply Z.eqb_eq in Z0. rewrite Z0. cbn. exact P1.
      - apply Z.eqb_neq in Z0.
        replace (0 <? Z.of_nat (length xs - n)) with true by (symmetry; apply Z.ltb_lt; lia). exact P1. }
    rewrite E. cbn [bind]. rewrite P2. cbn [bind].
    rewrite arr_of_nonempty by (destruct (firstn n xs); discriminate).
    f_equal. f_equal. f_equal.
    rewrite app_length. cbn [length]. rewrite firstn_length_le, skipn_length by exact Ln. lia.
Qed.

(* the common tail of remove / map_remove / remove_at *)
Lemma arr_take_spec : forall A (pre : list (option A)) s post,
  arr_take (arr_of (pre ++ s :: post)) (Z.of_nat (length pre)) = Ok (arr_of (pre ++ post), s).
Proof.
  intros A pre s post. unfold arr_take.
  rewrite (proj2 (Reads_arr_of _ (pre ++ s :: post)) pre s post eq_refl). cbn [bind].
  rewrite arr_of_nonempty by (destruct pre; discriminate). cbn [aitems alen deref bind].
  rewrite app_length. cbn [length].
  replace (Z.of_nat (length pre + S (length post)) - Z.of_nat (length pre) - 1) with (Z.of_nat (length post)) by lia.
  replace (Z.of_nat (length pre + S (length post)) - 1) with (Z.of_nat (length (pre ++ post)))
    by (rewrite app_length; lia).
  unfold cells. rewrite map_app. cbn [map].
  destruct post as [|p post'].
  - unfold blk_memmove. cbn [length Z.of_nat Z.ltb Z.compare Z.eqb bind]. rewrite app_nil_r.
    cbn [map]. change (map Some pre) with (cells pre). rewrite (shrink_cells _ pre [Some s]). reflexivity.
  - rewrite <- (map_length Some pre), <- (map_length Some (p :: post')).
    destruct (blk_memmove_down (map Some pre) (Some s) (map Some (p :: post'))) as [d ->]; [discriminate|].
    cbn [bind]. rewrite ?map_length. rewrite app_assoc, <- map_app. change (map Some (pre ++ p :: post')) with (cells (pre ++ p :: post')).
    rewrite (shrink_cells _ (pre ++ p :: post') [d]). reflexivity.
Qed.

Definition g_remove_at {A} (xs : list (option A)) (idx : Z) : list (option A) * option A :=
  let n := Z.of_nat (length xs) in
  let i := if idx <? 0 then idx + n else idx in
  if (i <? 0) || (n <=? i) then (xs, None) else (rem_nth (Z.to_nat i) xs, nth (Z.to_nat i) xs None).

Lemma l_remove_at_g : forall xs idx, l_remove_at xs idx = g_remove_at xs idx.
Proof.
  intros xs idx. unfold l_remove_at, in_range, g_remove_at, norm_idx, llen.
  destruct ((_ <? 0) || (_ <=? _)); [reflexivity|]. rewrite slot_at_nth. reflexivity.
Qed.

(* spif_array_remove_at *)
Lemma arr_remove_at_spec : forall A (xs : list (option A)) idx,
  arr_remove_at (arr_of xs) idx = Ok (arr_of (fst (g_remove_at xs idx)), snd (g_remove_at xs idx)).
Proof.
  intros A xs idx. unfold arr_remove_at, g_remove_at.
  replace (alen (arr_of xs)) with (Z.of_nat (length xs)) by reflexivity.
  set (i := if idx <? 0 then idx + Z.of_nat (length xs) else idx).
  destruct ((i <? 0) || (Z.of_nat (length xs) <=? i)) eqn:C; [reflexivity|].
  apply orb_false_elim in C. destruct C as [C1 C2]. apply Z.ltb_ge in C1. apply Z.leb_gt in C2.
  cbn [fst snd].
  assert (L : (Z.to_nat i < length xs)%nat) by lia.
  rewrite rem_nth_eq.
  assert (T := arr_take_spec A (firstn (Z.to_nat i) xs) (nth (Z.to_nat i) xs None) (skipn (S (Z.to_nat i)) xs)).
  rewrite <- (split_nth _ xs (Z.to_nat i) None L) in T. rewrite firstn_length_le in T by lia.
  replace (Z.of_nat (Z.to_nat i)) with i in T by lia. exact T.
Qed.

(* spif_array_reverse *)
Lemma rev_loop_spec : forall A n (ms : list (option A)), (length ms <= n)%nat ->
  forall (P Q : block A) fuel, (length ms < 2 * fuel)%nat ->
  rev_loop fuel (Some (P ++ cells ms ++ Q)) (Z.of_nat (length P)) (Z.of_nat (length P + length ms) - 1)
  = Ok (Some (P ++ cells (rev ms) ++ Q)).
Proof.
  intros A. induction n as [|n IH]; intros ms Hn P Q fuel Hf.
  - destruct ms; [|cbn in Hn; lia]. destruct fuel as [|f]; [lia|]. cbn [rev_loop length rev].
    replace (Z.of_nat (length P) <? Z.of_nat (length P + 0) - 1) with false by (symmetry; apply Z.ltb_ge; lia).
    reflexivity.
  - destruct fuel as [|f]; [lia|].
    destruct ms as [|x t].
    { cbn [rev_loop length rev].
      replace (Z.of_nat (length P) <? Z.of_nat (length P + 0) - 1) with false by (symmetry; apply Z.ltb_ge; lia).
      reflexivity. }
    destruct t as [|x2 t2].
    { cbn [rev_loop length rev app].
      replace (Z.of_nat (length P) <? Z.of_nat (length P + 1) - 1) with false by (symmetry; apply Z.ltb_ge; lia).
      reflexivity. }
    destruct (@exists_last _ (x2 :: t2)) as (t' & y & Et); [discriminate|]. rewrite Et in *. clear Et x2 t2.
    assert (Lms : length (x :: t' ++ [y]) = S (S (length t'))) by (cbn; rewrite app_length; cbn; lia).
    rewrite Lms in *.
    cbn [rev_loop].
    replace (Z.of_nat (length P) <? Z.of_nat (length P + S (S (length t'))) - 1) with true
      by (symmetry; apply Z.ltb_lt; lia).
    cbn [deref bind].
    unfold cells. cbn [map]. rewrite map_app. cbn [map app]. rewrite <- !app_assoc. cbn [app].
    rewrite blk_rd_at. cbn [bind].
    (* the slot at j *)
    set (P2 := P ++ Some x :: map Some t').
    assert (LP2 : Z.of_nat (length P + S (S (length t'))) - 1 = Z.of_nat (length P2)).
    { unfold P2. rewrite app_length. cbn [length]. rewrite map_length. lia. }
    rewrite LP2.
    replace (P ++ Some x :: map Some t' ++ Some y :: Q) with (P2 ++ Some y :: Q)
      by (unfold P2; rewrite <- app_assoc; reflexivity).
    rewrite blk_rd_at. cbn [bind].
    unfold P2 at 1. rewrite <- app_assoc. cbn [app].
    rewrite blk_wr_at. cbn [bind].
    set (P3 := P ++ Some y :: map Some t').
    assert (LP3 : length P2 = length P3) by (unfold P2, P3; rewrite !app_length; reflexivity).
    rewrite LP3.
    replace (P ++ Some y :: map Some t' ++ Some y :: Q) with (P3 ++ Some y :: Q)
      by (unfold P3; rewrite <- app_assoc; reflexivity).
    rewrite blk_wr_at. cbn [bind].
    unfold P3. rewrite <- app_assoc. cbn [app].
    (* the rest *)
    assert (R := IH t' ltac:(lia) (P ++ [Some y]) (Some x :: Q) f ltac:(lia)).
    rewrite <- !app_assoc in R. cbn [app] in R. unfold cells in R.
    replace (Z.of_nat (length P) + 1) with (Z.of_nat (length (P ++ [Some y]))) by (rewrite app_length; cbn; lia).
    replace (Z.of_nat (length (P ++ Some y :: map Some t')) - 1) with (Z.of_nat (length (P ++ [Some y]) + length t') - 1)
      by (rewrite !app_length; cbn [length]; rewrite map_length; lia).
    rewrite R. do 2 f_equal.
    cbn [rev]. rewrite rev_app_distr. cbn [rev app map]. rewrite map_app. cbn [map app].
    rewrite <- app_assoc. reflexivity.
Qed.

Lemma arr_reverse_spec : forall A (xs : list (option A)),
  arr_reverse (arr_of xs) = Ok (arr_of (rev xs), true).
Proof.
  intros A xs. unfold arr_reverse.
  destruct xs as [|x t] eqn:E; [reflexivity|]. rewrite <- E.
  assert (NE : xs <> []) by (subst; discriminate).
  rewrite arr_of_nonempty by exact NE. cbn [alen aitems].
  assert (R := rev_loop_spec A (length xs) xs ltac:(lia) [] [] (S (Z.to_nat (Z.of_nat (length xs)))) ltac:(lia)).
  cbn [app length Z.of_nat Nat.add] in R. rewrite !app_nil_r in R. rewrite R. cbn [bind].
  rewrite arr_of_nonempty by (intro H; apply (f_equal (@length _)) in H; rewrite rev_length in H; subst; discriminate).
  rewrite rev_length. reflexivity.
Qed.

(* copying loops: to_array, list_dup *)
Lemma copy_loop_spec : forall A B (a : arr A) xs (g : option A -> option B) f,
  Reads a xs -> (forall s, f s = Ok (g s)) ->
  forall rest pre (D J : block B) fuel, xs = pre ++ rest -> length D = length pre -> length J = length rest ->
  (length rest < fuel)%nat ->
  copy_loop fuel a f (D ++ J) (Z.of_nat (length pre)) = Ok (D ++ cells (map g rest)).
Proof.
  intros A B a xs g f R Hf. induction rest as [|s t IH]; intros pre D J fuel E HD HJ Hfu.
  - destruct fuel as [|fu]; [lia|]. cbn [copy_loop]. rewrite (proj1 R), E, app_nil_r, Z.ltb_irrefl.
    destruct J; [|discriminate]. reflexivity.
  - destruct fuel as [|fu]; [lia|]. cbn [copy_loop]. rewrite (proj1 R).
    replace (Z.of_nat (length pre) <? Z.of_nat (length xs)) with true
      by (symmetry; apply Z.ltb_lt; rewrite E, app_length; cbn; lia).
    rewrite (proj2 R _ _ _ E). cbn [bind]. rewrite Hf. cbn [bind].
    destruct J as [|j J']; [discriminate|].
    rewrite <- HD, blk_wr_at. cbn [bind].
    rewrite HD, Z_nat_S. replace (S (length pre)) with (length (pre ++ [s])) by (rewrite app_length; cbn; lia).
    rewrite (app_cons_assoc _ D).
    rewrite (IH (pre ++ [s]) (D ++ [Some (g s)]) J' fu).
    + rewrite <- app_assoc. reflexivity.
    + rewrite <- app_assoc. exact E.
    + rewrite !app_length. cbn. lia.
    + cbn in HJ. lia.
    + cbn in Hfu. lia.
Qed.

Lemma arr_to_array_spec : forall A (a : arr A) xs, Reads a xs -> arr_to_array a = Ok (cells xs).
Proof.
  intros A a xs R. unfold arr_to_array, blk_malloc. cbn [deref bind]. rewrite (proj1 R), Nat2Z.id.
  assert (S := copy_loop_spec A A a xs (fun s => s) (fun s => Ok s) R (fun _ => eq_refl) xs [] []
                 (repeat None (length xs)) (S (length xs)) eq_refl eq_refl (repeat_length _ _) ltac:(lia)).
  cbn [app length Z.of_nat] in S. rewrite map_id in S. exact S.
Qed.

Lemma blk_reads_spec : forall A (rest pre : list (option A)) Q,
  blk_reads (cells (pre ++ rest) ++ Q) (Z.of_nat (length pre)) (length rest) = Ok rest.
Proof.
  intros A. induction rest as [|s t IH]; intros pre Q; [reflexivity|].
  cbn [length blk_reads]. unfold cells at 1. rewrite map_app. cbn [map]. rewrite <- app_assoc. cbn [app].
  rewrite <- (map_length Some pre), blk_rd_at. cbn [bind]. rewrite map_length, Z_nat_S.
  replace (S (length pre)) with (length (pre ++ [s])) by (rewrite app_length; cbn; lia).
  assert (R := IH (pre ++ [s]) Q). rewrite <- app_assoc in R. cbn [app] in R.
  rewrite R. reflexivity.
Qed.

Lemma to_array_read_spec : forall A (a : arr A) xs, Reads a xs ->
  (t <- arr_to_array a ;; blk_reads t 0 (Z.to_nat (arr_count a))) = Ok xs.
Proof.
  intros A a xs R. rewrite (arr_to_array_spec _ _ _ R). cbn [bind]. unfold arr_count.
  rewrite (proj1 R), Nat2Z.id.
  assert (S := blk_reads_spec A xs [] []). cbn [app length Z.of_nat] in S. rewrite app_nil_r in S. exact S.
Qed.

(* spif_array_list_dup: a new object whose items block (never NULL) spells the copies *)
Lemma arr_list_dup_spec : forall A B (dupf : A -> B) (a : arr A) xs, Reads a xs ->
  exists d, arr_list_dup dupf a = Ok d /\ Reads d (map (option_map dupf) xs).
Proof.
  intros A B dupf a xs R. unfold arr_list_dup, blk_malloc. cbn [deref bind]. rewrite (proj1 R), Nat2Z.id.
  assert (Hf : forall s : option A,
             (fun s => Ok (match s with None => None | Some x => Some (dupf x) end)) s = Ok (option_map dupf s))
    by (intros [x|]; reflexivity).
  assert (S := copy_loop_spec A B a xs (option_map dupf) _ R Hf xs [] [] (repeat None (length xs)) (S (length xs))
                 eq_refl eq_refl (repeat_length _ _) ltac:(lia)).
  cbn [app length Z.of_nat] in S. rewrite S.
  cbn [bind]. eexists. split; [reflexivity|].
  rewrite <- (app_nil_r (cells _)). apply Reads_block. rewrite map_length. reflexivity.
Qed.

(* the loops of get_keys / get_values / get_pairs *)
Lemma collect_loop_spec : forall A B (a : arr A) (f : A -> B) ps, Reads a (map Some ps) ->
  forall rest pre acc fuel, ps = pre ++ rest -> (length rest < fuel)%nat ->
  Z.of_nat (length acc + length rest) <= INT_MAX ->
  collect_loop fuel a f (arr_of acc) (Z.of_nat (length pre))
  = Ok (arr_of (acc ++ map Some (map f rest))).
Proof.
  intros A B a f ps R. induction rest as [|p t IH]; intros pre acc fuel E Hfu Hfit.
  - destruct fuel as [|fu]; [lia|]. cbn [collect_loop]. rewrite (proj1 R), map_length, E, app_nil_r, Z.ltb_irrefl.
    cbn [map]. rewrite app_nil_r. reflexivity.
  - destruct fuel as [|fu]; [lia|]. cbn [collect_loop]. rewrite (proj1 R), map_length.
    replace (Z.of_nat (length pre) <? Z.of_nat (length ps)) with true
      by (symmetry; apply Z.ltb_lt; rewrite E, app_length; cbn; lia).
    assert (E' : map Some ps = map Some pre ++ Some p :: map Some t) by (rewrite E, map_app; reflexivity).
    rewrite <- (map_length Some pre), (proj2 R _ _ _ E'). cbn [bind].
    rewrite arr_append_spec by (cbn [length] in Hfit; lia). cbn [bind].
    rewrite map_length, Z_nat_S. replace (S (length pre)) with (length (pre ++ [p])) by (rewrite app_length; cbn; lia).
    rewrite (IH (pre ++ [p]) (acc ++ [Some (f p)]) fu).
    + rewrite <- app_assoc. reflexivity.
    + rewrite <- app_assoc. exact E.
    + cbn in Hfu. lia.
    + rewrite app_length. cbn [length] in *. lia.
Qed.

Lemma all_some_map : forall X (l : list X), all_some (map Some l) = Ok l.
Proof. induction l as [|x t IH]; cbn; [reflexivity|]. rewrite IH. reflexivity. Qed.

Lemma arr_collect_read_spec : forall A B (f : A -> B) (a : arr A) ps, Reads a (map Some ps) -> fits ps ->
  (l <- arr_collect f a ;; read_list l) = Ok (map f ps).
Proof.
  intros A B f a ps R F. unfold arr_collect. rewrite (proj1 R), map_length, Nat2Z.id.
  change (@arr_new B) with (@arr_of B []).
  assert (S := collect_loop_spec A B a f ps R ps [] [] (S (length ps)) eq_refl ltac:(lia) F).
  cbn [app length Z.of_nat] in S. rewrite S.
  cbn [app bind]. unfold read_list.
  rewrite (arr_gets_all _ _ _ (Reads_arr_of _ _)). cbn [bind]. apply all_some_map.
Qed.
