(* DListPure - list-level facts behind the refinement of dlinked_list.c: where the class's ordered
   insert places an element (cls_ins) against the standard place "before the first element that
   is not smaller" (std_ins = ContSpec's ins_ordered / v_ins / m_set on an absent key), and the
   reading of the scans in terms of ContSpec's recursive functions.  No store in this file. *)
From LV Require Import Cont.ContSpec Cont.ContKey Cont.DListModel Cont.DListStore Cont.DListOps.
From Coq Require Import Sorting.Sorted.
Local Open Scope Z_scope.

Lemma last_map : forall A B (f : A -> B) l d, last (map f l) (f d) = f (last l d).
Proof. induction l as [|x [|y t] IH]; intros; auto. apply (IH d). Qed.

Lemma last_in : forall A (l : list A) d, l <> [] -> In (last l d) l.
Proof.
  induction l as [|x [|y t] IH]; intros; [congruence|left; auto|]. right. apply IH. discriminate.
Qed.

Lemma split_at_ext : forall A (f g : A -> bool) l, (forall x, f x = g x) -> split_at f l = split_at g l.
Proof. induction l; cbn; intros; auto. rewrite H, IHl; auto. Qed.

Section Keyed.
Variable E : Type.
Variable kf : E -> key.
Definition kcmp (a b : E) : comparison := key_cmp (kf a) (kf b).
Definition kle (a b : E) : Prop := key_le (kf a) (kf b).

Fixpoint std_ins (e : E) (ys : list E) : list E :=
  match ys with
  | [] => [e]
  | y :: t => if key_gtb (kf e) (kf y) then y :: std_ins e t else e :: ys
  end.

Definition ge_test (e y : E) : bool := negb (key_gtb (kf e) (kf y)).

(* where spif_dlinked_list_insert puts the element *)
Definition cls_ins (e : E) (ys : list E) : list E :=
  match ys with
  | [] => [e]
  | h :: t =>
    if key_ltb (kf e) (kf h) then e :: ys
    else if key_gtb (kf e) (kf (last ys h)) then ys ++ [e]
    else h :: fst (split_at (ge_test e) t) ++ e :: snd (split_at (ge_test e) t)
  end.

Lemma std_ins_split : forall e t, std_ins e t = fst (split_at (ge_test e) t) ++ e :: snd (split_at (ge_test e) t).
Proof.
  induction t as [|y t IH]; cbn [std_ins split_at]; auto.
  assert (Hg : ge_test e y = negb (key_gtb (kf e) (kf y))) by reflexivity.
  destruct (key_gtb (kf e) (kf y)) eqn:G; rewrite Hg; cbn [negb]; auto.
  rewrite IH. destruct (split_at (ge_test e) t); auto.
Qed.

Lemma std_ins_all_gt : forall e ys, Forall (fun y => key_gtb (kf e) (kf y) = true) ys -> std_ins e ys = ys ++ [e].
Proof. induction 1; cbn; auto. rewrite H. f_equal. auto. Qed.

Lemma sorted_le_last : forall ys d y, StronglySorted kle ys -> In y ys -> kle y (last ys d).
Proof.
  induction ys as [|h t IH]; intros d y Hs Hy; [destruct Hy|].
  inversion Hs as [|? ? Hst Hall]; subst. destruct t as [|t0 t'].
  - destruct Hy as [-> | []]. apply key_le_refl.
  - change (last (h :: t0 :: t') d) with (last (t0 :: t') d). destruct Hy as [-> | Hy].
    + rewrite Forall_forall in Hall. apply Hall. apply last_in. discriminate.
    + apply IH; auto.
Qed.

Lemma key_ltb_gtb : forall a b, key_ltb a b = true -> key_gtb a b = false.
Proof. unfold key_ltb, key_gtb. intros. destruct (key_cmp a b); congruence. Qed.

Lemma gtb_of_le_lt : forall a b c, key_le a b -> key_gtb c b = true -> key_gtb c a = true.
Proof.
  intros a b c H1 H2. apply key_gtb_true in H2. apply key_gtb_true.
  unfold key_lt in *. destruct (key_cmp a c) eqn:Ec; auto.
  - apply key_cmp_eq in Ec. subst. exfalso. apply H1. apply key_cmp_gt_lt. auto.
  - exfalso. apply key_cmp_gt_lt in Ec. pose proof (key_cmp_lt_trans _ _ _ H2 Ec). apply H1. apply key_cmp_gt_lt. auto.
Qed.

Lemma cls_ins_cases : forall e h t, StronglySorted kle (h :: t) ->
  cls_ins e (h :: t) = std_ins e (h :: t) \/
  (kf e = kf h /\ cls_ins e (h :: t) = h :: std_ins e t /\ std_ins e (h :: t) = e :: h :: t).
Proof.
  intros e h t Hs. cbn [cls_ins std_ins].
  destruct (key_ltb (kf e) (kf h)) eqn:E1.
  { left. rewrite (key_ltb_gtb _ _ E1). auto. }
  destruct (key_gtb (kf e) (kf (last (h :: t) h))) eqn:E2.
  { left. change (if key_gtb (kf e) (kf h) then h :: std_ins e t else e :: h :: t) with (std_ins e (h :: t)).
    rewrite std_ins_all_gt; auto. apply Forall_forall. intros y Hy.
    eapply gtb_of_le_lt; [|exact E2]. apply sorted_le_last; auto. }
  rewrite <- std_ins_split.
  destruct (key_gtb (kf e) (kf h)) eqn:E3; [left; auto|].
  right. split; [|split; auto].
  unfold key_ltb, key_gtb in *. destruct (key_cmp (kf e) (kf h)) eqn:Ec; try discriminate.
  apply key_cmp_eq; auto.
Qed.

Lemma cls_ins_exact : forall e ys, StronglySorted kle ys ->
  match ys with h :: _ => kf h <> kf e | [] => True end -> cls_ins e ys = std_ins e ys.
Proof.
  intros e [|h t] Hs Hh; auto. destruct (cls_ins_cases e h t Hs) as [H | (H & _)]; auto. congruence.
Qed.

Lemma cls_ins_keys : forall e ys, StronglySorted kle ys -> map kf (cls_ins e ys) = map kf (std_ins e ys).
Proof.
  intros e [|h t] Hs; auto. destruct (cls_ins_cases e h t Hs) as [H | (Hk & H1 & H2)]; [rewrite H; auto|].
  rewrite H1, H2. inversion Hs as [|? ? Hst Hall]; subst.
  assert (Ht : std_ins e t = e :: t).
  { destruct t as [|y t']; auto. cbn. inversion Hall; subst.
    assert (key_gtb (kf e) (kf y) = false) as -> by (apply key_gtb_false; rewrite Hk; auto). auto. }
  rewrite Ht. cbn. rewrite Hk. auto.
Qed.

Lemma std_ins_sorted : forall e ys, StronglySorted kle ys -> StronglySorted kle (std_ins e ys).
Proof.
  induction ys as [|y t IH]; intros Hs; cbn.
  - repeat constructor.
  - inversion Hs as [|? ? Hst Hall]; subst. destruct (key_gtb (kf e) (kf y)) eqn:Eg.
    + constructor; auto. rewrite std_ins_split. apply Forall_app. rewrite Forall_forall in Hall. split.
      * apply Forall_forall. intros z Hz. apply Hall. rewrite (split_at_app _ (ge_test e) t). apply in_or_app. auto.
      * constructor.
        -- apply key_lt_le. apply key_gtb_true. auto.
        -- apply Forall_forall. intros z Hz. apply Hall. rewrite (split_at_app _ (ge_test e) t). apply in_or_app. auto.
    + constructor; auto. apply key_gtb_false in Eg. constructor; auto.
      eapply Forall_impl; [|exact Hall]. intros z Hz. eapply key_le_trans; eauto.
Qed.

(* the cells computed by the model against the element lists *)
Lemma ins_cells_keyed : forall (cs : list (nat * option E)) ys n e, vals cs = map Some ys ->
  vals (ins_cells kcmp (n, Some e) cs) = map Some (cls_ins e ys).
Proof.
  unfold vals. intros cs ys n e Hv. destruct cs as [|h t], ys as [|yh yt]; try discriminate; auto.
  cbn [map] in Hv. inversion Hv as [[Hh Ht]]. unfold ins_cells, cls_ins. cbn [snd]. rewrite Hh. cbn [item_comp].
  unfold kcmp at 1.
  replace (is_lt (key_cmp (kf e) (kf yh))) with (key_ltb (kf e) (kf yh)) by (unfold key_ltb, is_lt; destruct key_cmp; auto).
  destruct (key_ltb (kf e) (kf yh)).
  { cbn [map snd]. rewrite Hh, Ht. auto. }
  assert (Hl : snd (last (h :: t) h) = Some (last (yh :: yt) yh)).
  { rewrite <- (last_map _ _ snd). cbn [map]. rewrite Hh, Ht. apply (last_map _ _ Some (yh :: yt) yh). }
  rewrite Hl. cbn [item_comp]. unfold kcmp at 1.
  replace (is_gt (key_cmp (kf e) (kf (last (yh :: yt) yh)))) with (key_gtb (kf e) (kf (last (yh :: yt) yh)))
    by (unfold key_gtb, is_gt; destruct key_cmp; auto).
  destruct (key_gtb (kf e) (kf (last (yh :: yt) yh))).
  { rewrite !map_app. cbn [map snd]. rewrite Hh, Ht. auto. }
  cbn [map snd]. rewrite Hh. f_equal. rewrite !map_app. cbn [map snd].
  set (f' := fun d : option E => negb (is_gt (item_comp kcmp (Some e) d))).
  assert (Hsp : split_at f' (map snd t) =
                (map Some (fst (split_at (ge_test e) yt)), map Some (snd (split_at (ge_test e) yt)))).
  { rewrite Ht, split_at_map. rewrite (split_at_ext _ (fun x => f' (Some x)) (ge_test e)); auto. }
  rewrite split_at_map in Hsp. inversion Hsp as [[H1 H2]].
  change (fun x : nat * option E => f' (snd x)) with (ins_test kcmp (Some e)) in *.
  rewrite H1, H2. auto.
Qed.

End Keyed.

Arguments kcmp {E}. Arguments kle {E}. Arguments std_ins {E}. Arguments cls_ins {E}. Arguments ge_test {E}.

(* ---------------------------------------------------------------------------------------- *)
(* ContSpec's insertions are std_ins *)
Lemma ins_ordered_std : forall e ys, ins_ordered e (map Some ys) = map Some (std_ins ekey e ys).
Proof.
  induction ys as [|y t IH]; cbn [map ins_ordered std_ins gt_slot]; auto.
  destruct (key_gtb (ekey e) (ekey y)); cbn [map]; auto. rewrite IH. auto.
Qed.

Lemma v_ins_std : forall e xs, v_ins e xs = std_ins ekey e xs.
Proof. induction xs as [|y t IH]; cbn; auto; try (rewrite IH; auto). Qed.

Lemma m_set_absent : forall k v m, (forall p, In p m -> fst p <> k) -> m_set k v m = (std_ins fst (k, v) m, false).
Proof.
  induction m as [|[k' v'] t IH]; intros Habs; cbn; auto.
  assert (Hne : k' <> k) by (apply (Habs (k', v')); left; auto).
  unfold key_gtb. destruct (key_cmp k k') eqn:Ec.
  - apply key_cmp_eq in Ec. congruence.
  - auto.
  - rewrite IH; auto. intros p Hp. apply Habs. right. auto.
Qed.

(* ---------------------------------------------------------------------------------------- *)
(* the scans of the list interface read through split_at *)
Lemma rem_first_split : forall k xs,
  rem_first k xs = (fst (split_at (eq_slot k) xs) ++ tl (snd (split_at (eq_slot k) xs)),
                    match snd (split_at (eq_slot k) xs) with [] => None | s :: _ => s end).
Proof.
  induction xs as [|s t IH]; cbn; auto. destruct (eq_slot k s); cbn; auto.
  rewrite IH. destruct (split_at (eq_slot k) t); cbn. auto.
Qed.

Lemma index_from_split : forall k xs i,
  index_from k xs i = match snd (split_at (eq_slot k) xs) with
                      | [] => -1
                      | _ => i + Z.of_nat (length (fst (split_at (eq_slot k) xs)))
                      end.
Proof.
  induction xs as [|s t IH]; intros i; cbn [index_from split_at]; auto.
  destruct (eq_slot k s); cbn [fst snd length]; [lia|].
  rewrite IH. destruct (split_at (eq_slot k) t) as [a r]. cbn [fst snd length]. destruct r; auto. lia.
Qed.

Lemma l_find_split : forall k xs,
  l_find xs k = match snd (split_at (eq_slot k) xs) with [] => None | s :: _ => s end.
Proof.
  induction xs as [|s t IH]; cbn; auto. destruct (eq_slot k s); cbn; auto.
  rewrite IH. destruct (split_at (eq_slot k) t); auto.
Qed.

Lemma eq_test_slot : forall p (cs : list (nat * option elem)),
  split_at (eq_slot (ekey p)) (vals cs) =
  (vals (fst (split_at (eq_test ecmp p) cs)), vals (snd (split_at (eq_test ecmp p) cs))).
Proof.
  intros. unfold vals. rewrite split_at_map.
  rewrite (split_at_ext _ (fun x => eq_slot (ekey p) (snd x)) (eq_test ecmp p)); auto.
  intros [i [x|]]; auto.
Qed.
