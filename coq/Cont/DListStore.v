(* DListStore - store lemmas, doubly-linked segments and the representation invariant of the
   pointer-level model DListModel.v. *)
From LV Require Import Cont.ContSpec Cont.ContKey Cont.DListModel.
Local Open Scope Z_scope.

(* ---------------------------------------------------------------------------------------- *)
(* upd on lists *)
Lemma length_upd : forall A (l : list A) i x, length (upd l i x) = length l.
Proof. induction l; destruct i; cbn; intros; auto. Qed.

Lemma nth_error_upd_same : forall A (l : list A) i x, (i < length l)%nat -> nth_error (upd l i x) i = Some x.
Proof. induction l; destruct i; cbn; intros; try lia; auto. apply IHl. lia. Qed.

Lemma nth_error_upd_other : forall A (l : list A) i j x, i <> j -> nth_error (upd l i x) j = nth_error l j.
Proof. induction l; destruct i, j; cbn; intros; try congruence; auto. Qed.

Section Store.
Variable D : Type.
Notation node := (node D).
Notation store := (store D).

Lemma lookup_lt : forall (st : store) i nd, lookup st i = Some nd -> (i < length st)%nat.
Proof.
  unfold lookup. intros st i nd H. destruct (nth_error st i) eqn:E; [|discriminate].
  apply nth_error_Some. congruence.
Qed.

Lemma lookup_live_lt : forall (st : store) i, lookup st i <> None -> (i < length st)%nat.
Proof. intros st i H. destruct (lookup st i) eqn:E; [eapply lookup_lt; eauto | congruence]. Qed.

Lemma lookup_upd_same : forall (st : store) i nd, (i < length st)%nat -> lookup (upd st i (Some nd)) i = Some nd.
Proof. intros. unfold lookup. rewrite nth_error_upd_same; auto. Qed.

Lemma lookup_upd_free : forall (st : store) i, lookup (upd st i None) i = None.
Proof.
  intros. unfold lookup. destruct (Nat.lt_ge_cases i (length st)).
  - rewrite nth_error_upd_same; auto.
  - destruct (nth_error (upd st i None) i) eqn:E; auto.
    assert (i < length (upd st i None))%nat by (apply nth_error_Some; congruence).
    rewrite length_upd in *. lia.
Qed.

Lemma lookup_upd_other : forall (st : store) i j x, i <> j -> lookup (upd st i x) j = lookup st j.
Proof. intros. unfold lookup. rewrite nth_error_upd_other; auto. Qed.

Lemma lookup_app_l : forall (st : store) x j, (j < length st)%nat -> lookup (st ++ [x]) j = lookup st j.
Proof. intros. unfold lookup. rewrite nth_error_app1; auto. Qed.

Lemma lookup_app_new : forall (st : store) nd, lookup (st ++ [Some nd]) (length st) = Some nd.
Proof. intros. unfold lookup. rewrite nth_error_app2, Nat.sub_diag; auto. Qed.

Lemma lookup_app_ne : forall (st : store) x j, j <> length st -> lookup (st ++ [x]) j = lookup st j.
Proof.
  intros. destruct (Nat.lt_ge_cases j (length st)). { apply lookup_app_l; auto. }
  unfold lookup. rewrite nth_error_app2 by lia.
  assert (nth_error st j = None) as -> by (apply nth_error_None; lia).
  destruct (j - length st)%nat eqn:E; [lia|]. cbn. destruct n; auto.
Qed.

Lemma rd_some : forall (st : store) i nd, lookup st i = Some nd -> rd st (Some i) = Ok nd.
Proof. intros. unfold rd. rewrite H. auto. Qed.

Lemma modify_some : forall (st : store) i nd f, lookup st i = Some nd ->
  modify st (Some i) f = Ok (upd st i (Some (f nd))).
Proof. intros. unfold modify. rewrite H. auto. Qed.

Lemma item_del_some : forall (st : store) i nd, lookup st i = Some nd -> item_del st (Some i) = Ok (upd st i None).
Proof. intros. unfold item_del. rewrite H. auto. Qed.

(* ---------------------------------------------------------------------------------------- *)
(* cells: (address, data) of the items in chain order *)
Notation cell := (nat * option D)%type.
Definition ids (cs : list cell) : list nat := map fst cs.
Definition vals (cs : list cell) : list (option D) := map snd cs.

Definition hdp (cs : list cell) (d : ptr) : ptr := match cs with [] => d | c :: _ => Some (fst c) end.
Fixpoint lastp (cs : list cell) (d : ptr) : ptr := match cs with [] => d | c :: t => lastp t (Some (fst c)) end.

Lemma hdp_app : forall a b d, hdp (a ++ b) d = hdp a (hdp b d).
Proof. destruct a; auto. Qed.
Lemma lastp_app : forall a b d, lastp (a ++ b) d = lastp b (lastp a d).
Proof. induction a; cbn; intros; auto. Qed.
Lemma lastp_snoc : forall a c d, lastp (a ++ [c]) d = Some (fst c).
Proof. intros. rewrite lastp_app. auto. Qed.
Lemma hdp_rev : forall a d, hdp (rev a) d = lastp a d.
Proof.
  induction a using rev_ind; intros; auto.
  rewrite rev_app_distr, lastp_snoc. auto.
Qed.
Lemma lastp_rev : forall a d, lastp (rev a) d = hdp a d.
Proof. destruct a; intros; auto. cbn [rev]. rewrite lastp_snoc. auto. Qed.
Lemma hdp_nonnil : forall a d, a <> [] -> exists c, hdp a d = Some (fst c) /\ In c a.
Proof. destruct a as [|c a]; intros; [congruence|]. exists c. cbn; auto. Qed.
Lemma lastp_nonnil : forall a d, a <> [] -> exists c, lastp a d = Some (fst c) /\ In c a.
Proof.
  induction a using rev_ind; intros; [congruence|]. exists x. rewrite lastp_snoc. split; auto.
  apply in_or_app. right. left. auto.
Qed.
Lemma hdp_nil_iff : forall a, hdp a None = None <-> a = [].
Proof. destruct a; cbn; split; intros; congruence. Qed.
Lemma lastp_nil_iff : forall a, lastp a None = None <-> a = [].
Proof.
  intros. split; intros; subst; auto. destruct a using rev_ind; auto. rewrite lastp_snoc in H. discriminate.
Qed.

Lemma ids_app : forall a b, ids (a ++ b) = ids a ++ ids b.
Proof. intros. apply map_app. Qed.
Lemma vals_app : forall a b, vals (a ++ b) = vals a ++ vals b.
Proof. intros. apply map_app. Qed.
Lemma in_ids : forall (c : cell) cs, In c cs -> In (fst c) (ids cs).
Proof. intros. apply in_map. auto. Qed.

(* ---------------------------------------------------------------------------------------- *)
(* a doubly-linked segment: the cells of cs chained through next from the first, through prev
   from the last; the first cell's prev is p, the last cell's next is n *)
Fixpoint dlseg (st : store) (p : ptr) (cs : list cell) (n : ptr) : Prop :=
  match cs with
  | [] => True
  | c :: t => lookup st (fst c) = Some (mkNode (snd c) p (hdp t n)) /\ dlseg st (Some (fst c)) t n
  end.

Lemma dlseg_app : forall a st p b n,
  dlseg st p (a ++ b) n <-> dlseg st p a (hdp b n) /\ dlseg st (lastp a p) b n.
Proof.
  induction a; cbn [app dlseg lastp]; intros.
  - tauto.
  - rewrite IHa, hdp_app. tauto.
Qed.

Lemma dlseg_live : forall cs st p n i, dlseg st p cs n -> In i (ids cs) -> lookup st i <> None.
Proof.
  induction cs; cbn; intros; [tauto|]. destruct H as [H1 H2]. destruct H0.
  - subst. congruence.
  - eauto.
Qed.

Lemma dlseg_lt : forall cs st p n i, dlseg st p cs n -> In i (ids cs) -> (i < length st)%nat.
Proof. intros. eapply lookup_live_lt, dlseg_live; eauto. Qed.

Lemma dlseg_frame : forall cs (st st' : store) p n,
  (forall i, In i (ids cs) -> lookup st' i = lookup st i) -> dlseg st p cs n -> dlseg st' p cs n.
Proof.
  induction cs; cbn; intros; auto. destruct H0. split.
  - rewrite H; auto.
  - apply IHcs with st; auto.
Qed.

Lemma dlseg_upd_other : forall cs (st : store) p n i x,
  ~ In i (ids cs) -> dlseg st p cs n -> dlseg (upd st i x) p cs n.
Proof.
  intros. apply dlseg_frame with st; auto. intros. apply lookup_upd_other. intro; subst; auto.
Qed.

Lemma dlseg_alloc : forall cs (st : store) p n x, dlseg st p cs n -> dlseg (st ++ [x]) p cs n.
Proof.
  intros. apply dlseg_frame with st; auto. intros. apply lookup_app_l. eapply dlseg_lt; eauto.
Qed.

(* data of a cell is what the node holds; changing only p / n *)
Lemma dlseg_change_prev : forall cs (st : store) p n, cs = [] -> dlseg st p cs n.
Proof. intros; subst; cbn; auto. Qed.

(* ---------------------------------------------------------------------------------------- *)
(* NoDup helpers on ids *)
Lemma nodup_app_disj : forall (a b : list cell) i, NoDup (ids (a ++ b)) -> In i (ids a) -> In i (ids b) -> False.
Proof.
  intros a b i H. rewrite ids_app in H. revert i. induction (ids a); cbn in *; intros; auto.
  inversion H; subst. destruct H0.
  - subst. apply H4. apply in_or_app. auto.
  - eauto.
Qed.
Lemma nodup_app_l : forall (a b : list cell), NoDup (ids (a ++ b)) -> NoDup (ids a).
Proof. intros. rewrite ids_app in H. eapply NoDup_app_l; eauto. Qed.
Lemma nodup_app_r : forall (a b : list cell), NoDup (ids (a ++ b)) -> NoDup (ids b).
Proof.
  intros. rewrite ids_app in H. induction (ids a); cbn in *; auto. inversion H; auto.
Qed.
Lemma nodup_mid : forall (a : list cell) c b, NoDup (ids (a ++ c :: b)) ->
  ~ In (fst c) (ids a) /\ ~ In (fst c) (ids b) /\ NoDup (ids (a ++ b)).
Proof.
  intros. rewrite ids_app in *. cbn in H. pose proof (NoDup_remove _ _ _ H) as [H1 H2].
  split; [|split]; auto.
  - intro. apply H2. apply in_or_app; auto.
  - intro. apply H2. apply in_or_app; auto.
Qed.
Lemma nodup_insert : forall (a : list cell) c b, NoDup (ids (a ++ b)) -> ~ In (fst c) (ids (a ++ b)) ->
  NoDup (ids (a ++ c :: b)).
Proof.
  intros. rewrite ids_app in *. cbn. apply NoDup_Add with (a := fst c) (l := ids a ++ ids b); auto.
  apply Add_app.
Qed.

Lemma nodup_bound : forall (l : list nat) n, NoDup l -> (forall i, In i l -> (i < n)%nat) -> (length l <= n)%nat.
Proof.
  intros. rewrite <- (seq_length n 0). apply NoDup_incl_length; auto.
  intros i Hi. apply in_seq. specialize (H0 i Hi). lia.
Qed.

(* ---------------------------------------------------------------------------------------- *)
(* the invariant *)
Definition live_in (st : store) (L : list nat) : Prop := forall a, lookup st a <> None -> In a L.

Record Shape (st : store) (o : dl) (cs : list cell) : Prop := mkShape {
  sh_seg : dlseg st None cs None;
  sh_nodup : NoDup (ids cs);
  sh_head : dhead o = hdp cs None;
  sh_tail : dtail o = lastp cs None;
  sh_len : dlen o = Z.of_nat (length cs) }.

(* the chain is the whole store: no other live item (no leak), no dangling link *)
Definition Inv (st : store) (o : dl) (cs : list cell) : Prop := Shape st o cs /\ live_in st (ids cs).

Definition Repr (st : store) (o : dl) (xs : list (option D)) : Prop := exists cs, vals cs = xs /\ Inv st o cs.

Lemma shape_fuel : forall st o cs, Shape st o cs -> (length cs < fuel_of st)%nat.
Proof.
  intros st o cs [Hs Hn _ _ _]. unfold fuel_of.
  assert (length (ids cs) <= length st)%nat.
  { apply nodup_bound; auto. intros. eapply dlseg_lt; eauto. }
  unfold ids in H. rewrite map_length in H. lia.
Qed.

Lemma live_in_upd_some : forall (st : store) L i nd, lookup st i <> None -> live_in st L ->
  live_in (upd st i (Some nd)) L.
Proof.
  unfold live_in. intros. destruct (Nat.eq_dec i a).
  - subst. auto.
  - rewrite lookup_upd_other in H1; auto.
Qed.
Lemma live_in_alloc : forall (st : store) L x, live_in st L -> live_in (st ++ [x]) (length st :: L).
Proof.
  unfold live_in. intros. destruct (Nat.eq_dec a (length st)); [left; auto|].
  right. apply H. rewrite lookup_app_ne in H0; auto.
Qed.
Lemma live_in_free : forall (st : store) L L' i, live_in st L -> (forall a, In a L -> a <> i -> In a L') ->
  live_in (upd st i None) L'.
Proof.
  unfold live_in. intros. destruct (Nat.eq_dec i a).
  - subst. rewrite lookup_upd_free in H1. congruence.
  - rewrite lookup_upd_other in H1; auto.
Qed.
Lemma live_in_incl : forall (st : store) L L', live_in st L -> incl L L' -> live_in st L'.
Proof. unfold live_in, incl. intros. auto. Qed.

End Store.

Notation cell D := (nat * option D)%type (only parsing).
Arguments ids {D}. Arguments vals {D}. Arguments hdp {D}. Arguments lastp {D}. Arguments dlseg {D}.
Arguments live_in {D}. Arguments Shape {D}. Arguments Inv {D}. Arguments Repr {D}.
