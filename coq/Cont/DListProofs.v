(* DListProofs - refinement of the pointer-level model of dlinked_list.c (DListModel.v) to the
   ideal objects of ContSpec.v, list interface.  Repr st o xs: the next-chain from head spells xs
   and ends in NULL, the prev-chain from tail spells the reverse, head.prev = tail.next = NULL,
   len = length, the item addresses are pairwise distinct and no other cell of the store is live. *)
From LV Require Import Cont.ContSpec Cont.ContKey Cont.ListProofs Cont.VecProofs
  Cont.DListModel Cont.DListStore Cont.DListOps Cont.DListPure.
From Coq Require Import Sorting.Sorted.
Local Open Scope Z_scope.

Definition asc_plain (xs : lstate) : Prop := exists ys, xs = map Some ys /\ StronglySorted ele ys.

(* ContSpec's stated preconditions, plus the 32-bit range of spif_listidx_t *)
Definition lop_pre (xs : lstate) (op : lop) : Prop :=
  llen (fst (list_step xs op)) <= INT_MAX /\
  match op with
  | LInsert e => asc_plain xs /\ match xs with Some h :: _ => ekey h <> ekey e | _ => True end
  | _ => True
  end.

Fixpoint hist_pre {S O} (pre : S -> O -> Prop) (step : S -> O -> S * out) (s : S) (ops : list O) : Prop :=
  match ops with
  | [] => True
  | op :: t => pre s op /\ hist_pre pre step (fst (step s op)) t
  end.

Lemma repr_len : forall D (st : store D) o xs, Repr st o xs -> dlen o = Z.of_nat (length xs).
Proof.
  intros D st o xs (cs & Hv & [Hsh _]). rewrite (sh_len _ _ _ _ Hsh), <- Hv. unfold vals. rewrite map_length. auto.
Qed.

Lemma repr_empty : forall D, Repr (@nil (option (node D))) dl_init [].
Proof.
  intros D. exists []. split; auto. split.
  - constructor; cbn; auto. constructor.
  - intros a Ha. destruct a; cbn in Ha; congruence.
Qed.

Lemma ins_at_vals_spec : forall k e xs, ins_at_vals k (Some e) xs = ins_at k e xs.
Proof.
  intros. unfold ins_at_vals. destruct (k <=? length xs)%nat eqn:E.
  - apply Nat.leb_le in E. rewrite ins_at_le; auto.
  - apply Nat.leb_gt in E. rewrite ins_at_gt; auto.
Qed.

Lemma norm_spec : forall (st : store elem) o (xs : lstate) idx, Repr st o xs -> norm o idx = norm_idx (llen xs) idx.
Proof. intros. unfold norm, norm_idx, llen. rewrite (repr_len _ _ _ _ H). auto. Qed.

Section ListStep.
Variables (st : store elem) (o : dl) (xs : lstate).
Hypothesis HR : Repr st o xs.

Lemma step_append : forall e, llen (xs ++ [Some e]) <= INT_MAX ->
  exists st' o', dl_append st o (Some e) = Ok (st', o', true) /\ Repr st' o' (xs ++ [Some e]).
Proof.
  intros e Hb. pose proof (repr_len _ _ _ _ HR) as Hl. destruct HR as (cs & Hv & HI).
  unfold llen in Hb. rewrite app_length in Hb. cbn in Hb.
  destruct (dl_append_inv _ st o cs (Some e) HI ltac:(lia)) as (st' & o' & E & HI').
  exists st', o'. split; auto. eexists. split; [|exact HI']. rewrite vals_app, Hv. auto.
Qed.

Lemma step_prepend : forall e, llen (Some e :: xs) <= INT_MAX ->
  exists st' o', dl_prepend st o (Some e) = Ok (st', o', true) /\ Repr st' o' (Some e :: xs).
Proof.
  intros e Hb. pose proof (repr_len _ _ _ _ HR) as Hl. destruct HR as (cs & Hv & HI).
  unfold llen in Hb. cbn [length] in Hb.
  destruct (dl_prepend_inv _ st o cs (Some e) HI ltac:(lia)) as (st' & o' & E & HI').
  exists st', o'. split; auto. eexists. split; [|exact HI']. unfold vals in *. cbn [map snd]. rewrite Hv. auto.
Qed.

Lemma step_insert : forall e, llen (ins_ordered e xs) <= INT_MAX -> asc_plain xs ->
  match xs with Some h :: _ => ekey h <> ekey e | _ => True end ->
  exists st' o', dl_insert ecmp st o (Some e) = Ok (st', o', true) /\ Repr st' o' (ins_ordered e xs).
Proof.
  intros e Hb (ys & Hys & Hsort) Hhd. pose proof (repr_len _ _ _ _ HR) as Hl. destruct HR as (cs & Hv & HI).
  assert (Hlen : llen (ins_ordered e xs) = llen xs + 1).
  { rewrite Hys, ins_ordered_std. unfold llen. rewrite !map_length.
    rewrite std_ins_split, app_length. cbn [length].
    rewrite (split_at_app _ (ge_test ekey e) ys) at 3. rewrite app_length. lia. }
  unfold llen in *.
  destruct (dl_insert_inv _ ecmp st o cs (Some e) HI ltac:(lia)) as (st' & o' & E & HI').
  exists st', o'. split; auto. eexists. split; [|exact HI'].
  rewrite Hys in Hv. rewrite (ins_cells_keyed elem ekey cs ys _ e Hv).
  rewrite Hys, ins_ordered_std. f_equal. apply cls_ins_exact; auto.
  subst xs. destruct ys; cbn in *; auto.
Qed.

Lemma step_insert_at : forall idx e, llen (fst (l_insert_at xs idx e)) <= INT_MAX ->
  exists st' o', dl_insert_at st o (Some e) idx = Ok (st', o', snd (l_insert_at xs idx e)) /\
                 Repr st' o' (fst (l_insert_at xs idx e)).
Proof.
  intros idx e Hb. pose proof (repr_len _ _ _ _ HR) as Hl. pose proof (norm_spec _ _ _ idx HR) as Hnorm.
  pose proof HR as (cs & Hv & HI).
  pose proof (dl_insert_at_inv _ st o cs (Some e) idx HI) as H. cbv zeta in H. rewrite Hnorm in H.
  unfold l_insert_at in *. destruct (norm_idx (llen xs) idx <? 0) eqn:E1.
  - cbn [fst snd] in *. apply Z.ltb_lt in E1. rewrite H by (unfold llen, INT_MAX in *; lia). exists st, o. auto.
  - cbn [fst snd] in *. apply Z.ltb_ge in E1. unfold llen in Hb. rewrite ins_at_length in Hb.
    destruct H as (st' & o' & cs' & E & HI' & Hv'); [unfold llen in *; lia|unfold llen in *; lia|].
    exists st', o'. split; auto. exists cs'. split; auto. rewrite Hv', Hv. apply ins_at_vals_spec.
Qed.

Lemma step_remove : forall p,
  exists st' o', dl_remove ecmp st o (Some p) = Ok (st', o', snd (rem_first (ekey p) xs)) /\
                 Repr st' o' (fst (rem_first (ekey p) xs)).
Proof.
  intros p. destruct HR as (cs & Hv & HI). pose proof (dl_remove_inv _ ecmp st o cs p HI) as H.
  pose proof (split_at_app _ (eq_test ecmp p) cs) as Happ.
  rewrite rem_first_split. cbn [fst snd]. rewrite <- Hv, eq_test_slot. cbn [fst snd].
  destruct (split_at (eq_test ecmp p) cs) as [a r]. cbn [fst snd] in *. destruct r as [|c b].
  - exists st, o. cbn [vals map tl]. rewrite app_nil_r in *. split; auto. exists cs. split; auto. congruence.
  - destruct H as (st' & o' & E & HI'). exists st', o'. cbn [vals map tl]. split; auto. eexists. split; [|exact HI'].
    rewrite vals_app. auto.
Qed.

Lemma in_range_norm : forall idx,
  in_range xs idx = (if (norm o idx <? 0) || negb (norm o idx <? dlen o) then None else Some (Z.to_nat (norm o idx))).
Proof.
  intros. unfold in_range. rewrite (norm_spec _ _ _ idx HR), (repr_len _ _ _ _ HR). fold (llen xs).
  destruct (norm_idx (llen xs) idx <? 0); cbn [orb]; auto.
  rewrite Z.leb_antisym. auto.
Qed.

Lemma step_remove_at : forall idx,
  exists st' o', dl_remove_at st o idx = Ok (st', o', snd (l_remove_at xs idx)) /\
                 Repr st' o' (fst (l_remove_at xs idx)).
Proof.
  intros idx. pose proof (in_range_norm idx) as Hir. destruct HR as (cs & Hv & HI).
  pose proof (dl_remove_at_inv _ st o cs idx HI) as H. cbv zeta in H.
  unfold l_remove_at. rewrite Hir.
  destruct ((norm o idx <? 0) || negb (norm o idx <? dlen o)).
  - exists st, o. split; [auto | exists cs; auto].
  - destruct H as (st' & o' & c & Hn & E & HI'). exists st', o'. cbn [fst snd]. split.
    + rewrite E. f_equal. f_equal. unfold slot_at. rewrite <- Hv. unfold vals. rewrite nth_error_map, Hn. auto.
    + eexists. split; [|exact HI']. rewrite rem_nth_eq, <- Hv. unfold vals.
      rewrite map_app, firstn_map, skipn_map. auto.
Qed.

Lemma step_get : forall idx, dl_get st o idx = Ok (l_get xs idx).
Proof.
  intros idx. pose proof (in_range_norm idx) as Hir. destruct HR as (cs & Hv & [Hsh _]).
  rewrite (dl_get_spec _ st o cs idx Hsh). cbv zeta. unfold l_get. rewrite Hir.
  destruct ((norm o idx <? 0) || negb (norm o idx <? dlen o)); auto.
  unfold slot_at. rewrite Hv. auto.
Qed.

Lemma scan_elem : forall p, exists cs a r,
  vals cs = xs /\ Inv st o cs /\ cs = a ++ r /\ split_at (eq_slot (ekey p)) xs = (vals a, vals r) /\
  scan (fuel_of st) st (dhead o) (eq_stop ecmp p) 0 = Ok (hdp r None, Z.of_nat (length a)) /\
  data_of st (hdp r None) = Ok (match r with [] => None | c :: _ => snd c end).
Proof.
  intros p. destruct HR as (cs & Hv & HI). pose proof HI as [Hsh _].
  pose proof (shape_fuel _ _ _ _ Hsh) as Hf. pose proof (split_at_app _ (eq_test ecmp p) cs) as Happ.
  pose proof (eq_test_slot p cs) as Hsl. rewrite Hv in Hsl.
  pose proof (scan_spec _ cs st None (fuel_of st) (eq_stop ecmp p) (fun d => is_eq (ocmp ecmp p d)) 0
                (sh_seg _ _ _ _ Hsh) Hf ltac:(auto)) as Hscan.
  unfold eq_test in Happ, Hsl.
  rewrite <- (sh_head _ _ _ _ Hsh) in Hscan.
  destruct (split_at (fun c : nat * option elem => is_eq (ocmp ecmp p (snd c))) cs) as [a r]. cbn [fst snd] in *.
  exists cs, a, r. split; auto. split; auto. split; auto. split; auto. split; auto.
  pose proof (sh_seg _ _ _ _ Hsh) as Hs. rewrite Happ in Hs. apply dlseg_app in Hs. destruct Hs as [_ Hr].
  eapply data_of_hdp; eauto.
Qed.

Lemma step_find : forall p, dl_find ecmp st o (Some p) = Ok (l_find xs (ekey p)).
Proof.
  intros p. destruct (scan_elem p) as (cs & a & r & Hv & HI & Happ & Hsp & Hscan & Hdata).
  unfold dl_find. rewrite Hscan. cbn [bind]. rewrite Hdata, l_find_split, Hsp. cbn [snd].
  destruct r; auto.
Qed.

Lemma step_index : forall p, dl_index ecmp st o p = Ok (l_index xs (ekey p)).
Proof.
  intros p. destruct (scan_elem p) as (cs & a & r & Hv & HI & Happ & Hsp & Hscan & Hdata).
  unfold dl_index, l_index. rewrite Hscan. cbn [bind]. rewrite index_from_split, Hsp. cbn [fst snd].
  unfold vals. rewrite map_length. destruct r; cbn; auto.
Qed.

End ListStep.

(* ---------------------------------------------------------------------------------------- *)
(* dup: the copy is built, read back and deleted; the original is untouched and nothing leaks *)
Lemma skipn_nth_cons : forall A (l : list A) k x, nth_error l k = Some x -> skipn k l = x :: skipn (S k) l.
Proof.
  induction l; destruct k; cbn [nth_error skipn]; intros; try discriminate.
  - inversion H; auto.
  - apply IHl; auto.
Qed.

Lemma gets_loop_spec : forall (st : store elem) o cs, Shape st o cs -> forall n i, 0 <= i ->
  i + Z.of_nat n <= dlen o ->
  gets_loop st o i n = Ok (firstn n (skipn (Z.to_nat i) (vals cs))).
Proof.
  intros st o cs Hsh. pose proof (sh_len _ _ _ _ Hsh) as Hl.
  induction n as [|n IH]; intros i Hi Hb; [auto|].
  assert (Hnm : norm o i = i) by (unfold norm; rewrite (proj2 (Z.ltb_ge i 0)); auto; lia).
  cbn [gets_loop]. rewrite (dl_get_spec _ st o cs i Hsh). cbv zeta. rewrite Hnm.
  replace (i <? 0) with false by (symmetry; apply Z.ltb_ge; lia). cbn [orb].
  replace (i <? dlen o) with true by (symmetry; apply Z.ltb_lt; lia). cbn [negb bind].
  destruct (nth_error (vals cs) (Z.to_nat i)) as [x|] eqn:En.
  2:{ apply nth_error_None in En. unfold vals in En. rewrite map_length in En. lia. }
  rewrite IH by lia. cbn [bind]. rewrite (skipn_nth_cons _ _ _ _ En). cbn [firstn].
  replace (Z.to_nat (i + 1)) with (S (Z.to_nat i)) by lia. auto.
Qed.

Lemma step_dup : forall (st : store elem) o xs, Repr st o xs ->
  exists st3, dl_list_step (st, o) LDup = Ok ((st3, o), ODup (llen xs) (map slot_key xs) (map slot_key xs)) /\
              Repr st3 o xs.
Proof.
  intros st o xs (cs & Hv & [Hsh Hlive]). pose proof (sh_len _ _ _ _ Hsh) as Hl.
  destruct (dl_dup_spec _ st o cs Hsh) as (st2 & c & cs2 & E & Hsh2 & Hv2 & Hnew & Hfr & Hlive2).
  cbn [dl_list_step]. rewrite E. cbn [bind].
  rewrite (dl_iterate_spec _ st2 c cs2 Hsh2). cbn [bind].
  pose proof (sh_len _ _ _ _ Hsh2) as Hl2.
  rewrite (gets_loop_spec st2 c cs2 Hsh2) by lia. cbn [bind skipn Z.to_nat].
  destruct (dl_done_spec _ st2 c cs2 Hsh2) as (st3 & E3 & Hfree & Hkeep). rewrite E3. cbn [bind].
  assert (Hlen : length cs2 = length cs).
  { rewrite <- (map_length snd cs2), <- (map_length snd cs). fold (vals cs2) (vals cs). congruence. }
  exists st3. split.
  - rewrite Hl2, Nat2Z.id. rewrite firstn_all2 by (unfold vals; rewrite map_length; lia).
    assert (Hlx : length xs = length cs) by (rewrite <- Hv; unfold vals; apply map_length).
    rewrite Hv2, Hv, Hlen. unfold llen. rewrite Hlx. auto.
  - exists cs. split; auto.
    assert (Hdisj : forall i, In i (ids cs) -> ~ In i (ids cs2)).
    { intros i Hi Hi2. apply Hnew in Hi2. eapply dlseg_lt in Hi; [|exact (sh_seg _ _ _ _ Hsh)]. lia. }
    split.
    + destruct Hsh as [Hs Hn Hh Ht Hl']. constructor; auto.
      apply dlseg_frame with st; auto. intros i Hi. rewrite Hkeep by auto. apply Hfr. eapply dlseg_lt; eauto.
    + intros a Ha. destruct (in_dec Nat.eq_dec a (ids cs2)) as [Hin | Hnin].
      * rewrite Hfree in Ha by auto. congruence.
      * rewrite Hkeep in Ha by auto. destruct (Hlive2 a Ha); [auto | contradiction].
Qed.

(* ---------------------------------------------------------------------------------------- *)
(* one step of the list interface *)
Lemma dl_list_step_refines : forall (st : store elem) o xs op, Repr st o xs -> lop_pre xs op ->
  exists st' o', dl_list_step (st, o) op = Ok ((st', o'), snd (list_step xs op)) /\
                 Repr st' o' (fst (list_step xs op)).
Proof.
  intros st o xs op HR [Hb Hpre]. pose proof (repr_len _ _ _ _ HR) as Hl.
  destruct (match op with LDup => true | _ => false end) eqn:Ed.
  { destruct op; try discriminate. destruct (step_dup st o xs HR) as (st3 & E & HR'). rewrite E. eauto. }
  destruct op; try discriminate; cbn [dl_list_step list_step fst snd] in *.
  - destruct (step_append st o xs HR e Hb) as (st' & o' & E & HR'). rewrite E. cbn. eauto.
  - destruct (step_prepend st o xs HR e Hb) as (st' & o' & E & HR'). rewrite E. cbn. eauto.
  - destruct Hpre as [Hasc Hhd].
    destruct (step_insert st o xs HR e Hb Hasc Hhd) as (st' & o' & E & HR'). rewrite E. cbn. eauto.
  - destruct (l_insert_at xs idx e) as [xs' okb] eqn:El.
    pose proof (step_insert_at st o xs HR idx e) as H. rewrite El in H. cbn [fst snd] in *.
    destruct (H Hb) as (st' & o' & E & HR'). rewrite E. cbn. eauto.
  - destruct p as [p|].
    + destruct (rem_first (ekey p) xs) as [xs' r] eqn:Er.
      pose proof (step_remove st o xs HR p) as H. rewrite Er in H. cbn [fst snd] in *.
      destruct H as (st' & o' & E & HR'). rewrite E. cbn. eauto.
    + cbn. eauto.
  - destruct (l_remove_at xs idx) as [xs' r] eqn:Er.
    pose proof (step_remove_at st o xs HR idx) as H. rewrite Er in H. cbn [fst snd] in *.
    destruct H as (st' & o' & E & HR'). rewrite E. cbn. eauto.
  - rewrite (step_get st o xs HR). cbn. eauto.
  - rewrite (step_index st o xs HR). cbn. eauto.
  - destruct p as [p|].
    + rewrite (step_find st o xs HR). cbn. eauto.
    + cbn. eauto.
  - destruct p as [p|].
    + unfold dl_contains. rewrite (step_find st o xs HR). cbn. destruct (l_find xs (ekey p)); cbn; eauto.
    + cbn. eauto.
  - unfold llen. rewrite Hl. eauto.
  - destruct HR as (cs & Hv & HI). destruct (dl_reverse_inv _ st o cs HI) as (st' & o' & E & HI').
    rewrite E. cbn. do 2 eexists. split; [reflexivity|]. exists (rev cs). split; auto.
    unfold vals. rewrite map_rev. fold (vals cs). rewrite Hv. auto.
  - destruct HR as (cs & Hv & [Hsh Hlive]). rewrite (dl_to_array_spec _ st o cs Hsh). cbn. rewrite Hv.
    do 2 eexists. split; [reflexivity|]. exists cs. split; auto. split; auto.
  - destruct HR as (cs & Hv & [Hsh Hlive]). rewrite (dl_iterate_spec _ st o cs Hsh). cbn [bind]. rewrite Hv.
    rewrite it_sweep_exact by lia. cbn [fst].
    do 2 eexists. split; [reflexivity|]. exists cs. split; auto. split; auto.
Qed.

(* ---------------------------------------------------------------------------------------- *)
(* histories *)
Lemma dl_list_run_refines : forall ops (st : store elem) o xs, Repr st o xs ->
  hist_pre lop_pre list_step xs ops ->
  exists st' o', run_model dl_list_step (st, o) ops = Ok ((st', o'), outs list_step xs ops) /\
    Repr st' o' (final list_step xs ops).
Proof.
  induction ops as [|op t IH]; intros st o xs HR Hpre.
  - cbn. exists st, o. auto.
  - destruct Hpre as [Hp Hpre].
    destruct (dl_list_step_refines st o xs op HR Hp) as (st1 & o1 & E1 & HR1).
    destruct (IH st1 o1 _ HR1 Hpre) as (st' & o' & E & HR').
    exists st', o'. cbn [run_model outs final fold_left]. rewrite E1. cbn [bind]. rewrite E. cbn [bind]. auto.
Qed.

Theorem dlinked_list_list_refines : forall ops, hist_pre lop_pre list_step [] ops ->
  exists st o, run_model dl_list_step e_init ops = Ok ((st, o), outs list_step [] ops) /\
    Repr st o (final list_step [] ops).
Proof. intros ops Hpre. apply dl_list_run_refines; auto. apply repr_empty. Qed.

(* tear-down: deleting the container frees every item, the store holds nothing afterwards *)
Theorem dl_done_frees_all : forall D (st : store D) o xs, Repr st o xs ->
  exists st', dl_done st o = Ok (st', dl_init) /\ forall a, lookup st' a = None.
Proof.
  intros D st o xs (cs & Hv & [Hsh Hlive]). destruct (dl_done_spec _ st o cs Hsh) as (st' & E & Hfree & Hkeep).
  exists st'. split; auto. intros a. destruct (in_dec Nat.eq_dec a (ids cs)) as [Hin | Hnin]; auto.
  rewrite Hkeep by auto. destruct (lookup st a) eqn:El; auto. exfalso. apply Hnin. apply Hlive. congruence.
Qed.

(* ---------------------------------------------------------------------------------------- *)
(* what Repr says about the links, in the terms of the level-B dump of harness/cont.c: the next
   chain from head spells the sequence, the prev chain from tail spells its reverse, and
   head->prev = tail->next = NULL *)
Lemma dump_walk_next : forall D (b : list (nat * option D)) (st : store D) p fuel, dlseg st p b None ->
  (length b <= fuel)%nat -> dump_walk nnext fuel st (hdp b None) = Ok (vals b, false).
Proof.
  induction b as [|c t IH]; intros st p fuel Hs Hf; [destruct fuel; auto|].
  destruct fuel; [cbn in Hf; lia|]. destruct Hs as [Hc Ht]. cbn [dump_walk hdp].
  rewrite (rd_some _ _ _ _ Hc). cbn [bind nnext ndata]. rewrite (IH st (Some (fst c)) fuel); auto.
  cbn in Hf. lia.
Qed.

Lemma dump_walk_prev : forall D (a : list (nat * option D)) (st : store D) n fuel, dlseg st None a n ->
  (length a <= fuel)%nat -> dump_walk nprev fuel st (lastp a None) = Ok (rev (vals a), false).
Proof.
  induction a as [|c t IH] using rev_ind; intros st n fuel Hs Hf; [destruct fuel; auto|].
  rewrite app_length in Hf. cbn in Hf. destruct fuel; [lia|].
  apply dlseg_app in Hs. destruct Hs as [Ht [Hc _]]. rewrite lastp_snoc. cbn [dump_walk].
  rewrite (rd_some _ _ _ _ Hc). cbn [bind nprev ndata]. rewrite (IH st (Some (fst c)) fuel); auto; [|lia].
  cbn [bind]. rewrite vals_app, rev_app_distr. auto.
Qed.

Theorem dl_dump_repr : forall D (st : store D) o xs, Repr st o xs -> dlen o <= 4000 ->
  dl_dump st o = Ok (mkDump D (Z.of_nat (length xs)) xs false (rev xs) false
                            (match xs with [] => None | _ => Some false end)
                            (match xs with [] => None | _ => Some false end)).
Proof.
  intros D st o xs HR Hb. pose proof (repr_len _ _ _ _ HR) as Hl. destruct HR as (cs & Hv & [Hsh Hlive]).
  destruct Hsh as [Hs Hn Hh Ht Hl']. unfold dl_dump.
  replace ((0 <=? dlen o) && (dlen o <=? 4000)) with true
    by (symmetry; apply andb_true_intro; split; [apply Z.leb_le | apply Z.leb_le]; lia).
  rewrite Hh, Ht, Hl', Nat2Z.id.
  rewrite (dump_walk_next _ cs st None); auto; [|lia]. cbn [bind].
  rewrite (dump_walk_prev _ cs st None); auto; [|lia]. cbn [bind]. rewrite Hv.
  assert (Hlen : length cs = length xs) by (rewrite <- Hv; unfold vals; rewrite map_length; auto).
  destruct cs as [|c0 t].
  - destruct xs; [|discriminate]. cbn. auto.
  - destruct xs as [|x0 xt]; [discriminate|]. cbn [hdp]. destruct Hs as [Hc0 Hst].
    rewrite (rd_some _ _ _ _ Hc0). cbn [bind nprev is_null negb].
    destruct (snoc_case _ (c0 :: t)) as [E | (t' & cl & E)]; [discriminate|]. rewrite E, lastp_snoc.
    assert (Hsl : dlseg st None (t' ++ [cl]) None) by (rewrite <- E; split; auto).
    apply dlseg_app in Hsl. destruct Hsl as [_ [Hcl _]]. cbn [hdp] in Hcl.
    rewrite (rd_some _ _ _ _ Hcl). cbn [bind nnext is_null negb]. rewrite <- E, Hlen. auto.
Qed.
