(* Order facts about key_cmp (strcmp on NUL-free byte strings) and general facts about
   histories (final / outs) and iterators, shared by ListProofs / VecProofs / MapProofs. *)
From LV Require Import Cont.ContSpec.
From Coq Require Import Sorting.Sorted Sorting.Permutation.
Local Open Scope Z_scope.

Lemma key_cmp_refl : forall a, key_cmp a a = Eq.
Proof. induction a as [|x a IH]; cbn; [reflexivity|]. rewrite Z.compare_refl. exact IH. Qed.

Lemma key_cmp_eq : forall a b, key_cmp a b = Eq -> a = b.
Proof.
  induction a as [|x a IH]; intros [|y b] H; cbn in H; try discriminate; [reflexivity|].
  destruct (Z.compare x y) eqn:E; try discriminate.
  apply Z.compare_eq in E. subst. f_equal. apply IH. exact H.
Qed.

Lemma key_cmp_eq_iff : forall a b, key_cmp a b = Eq <-> a = b.
Proof. intros a b. split; [apply key_cmp_eq | intros ->; apply key_cmp_refl]. Qed.

Lemma key_cmp_antisym : forall a b, key_cmp b a = CompOpp (key_cmp a b).
Proof.
  induction a as [|x a IH]; intros [|y b]; cbn; try reflexivity.
  rewrite (Z.compare_antisym x y). destruct (Z.compare x y); cbn; auto.
Qed.

Lemma key_cmp_lt_trans : forall a b c, key_cmp a b = Lt -> key_cmp b c = Lt -> key_cmp a c = Lt.
Proof.
  induction a as [|x a IH]; intros [|y b] [|z c] H1 H2; cbn in *; try discriminate; try reflexivity.
  destruct (Z.compare x y) eqn:E1; try discriminate;
  destruct (Z.compare y z) eqn:E2; try discriminate.
  - apply Z.compare_eq in E1. apply Z.compare_eq in E2. subst. rewrite Z.compare_refl. eapply IH; eauto.
  - apply Z.compare_eq in E1. subst. rewrite E2. reflexivity.
  - apply Z.compare_eq in E2. subst. rewrite E1. reflexivity.
  - assert (x < z) as L by (rewrite Z.compare_lt_iff in E1, E2; lia).
    apply Z.compare_lt_iff in L. rewrite L. reflexivity.
Qed.

Lemma key_cmp_gt_lt : forall a b, key_cmp a b = Gt <-> key_cmp b a = Lt.
Proof.
  intros a b. rewrite (key_cmp_antisym a b). destruct (key_cmp a b); cbn; split; congruence.
Qed.

Definition key_lt (a b : key) : Prop := key_cmp a b = Lt.
Definition key_le (a b : key) : Prop := key_cmp a b <> Gt.

Lemma key_lt_le : forall a b, key_lt a b -> key_le a b.
Proof. unfold key_lt, key_le. intros a b H. rewrite H. discriminate. Qed.

Lemma key_le_refl : forall a, key_le a a.
Proof. intros a. unfold key_le. rewrite key_cmp_refl. discriminate. Qed.

Lemma key_le_trans : forall a b c, key_le a b -> key_le b c -> key_le a c.
Proof.
  unfold key_le. intros a b c H1 H2.
  destruct (key_cmp a b) eqn:E1; [| |congruence].
  - apply key_cmp_eq in E1. subst. exact H2.
  - destruct (key_cmp b c) eqn:E2; [| |congruence].
    + apply key_cmp_eq in E2. subst. rewrite E1. discriminate.
    + rewrite (key_cmp_lt_trans _ _ _ E1 E2). discriminate.
Qed.

Lemma key_lt_le_trans : forall a b c, key_lt a b -> key_le b c -> key_lt a c.
Proof.
  unfold key_lt, key_le. intros a b c H1 H2.
  destruct (key_cmp b c) eqn:E2; [| |congruence].
  - apply key_cmp_eq in E2. subst. exact H1.
  - eapply key_cmp_lt_trans; eauto.
Qed.

Lemma key_lt_trans : forall a b c, key_lt a b -> key_lt b c -> key_lt a c.
Proof. unfold key_lt. intros. eapply key_cmp_lt_trans; eauto. Qed.

Lemma key_lt_irrefl : forall a, ~ key_lt a a.
Proof. unfold key_lt. intros a. rewrite key_cmp_refl. discriminate. Qed.

Lemma key_eqb_eq : forall a b, key_eqb a b = true <-> a = b.
Proof.
  intros a b. unfold key_eqb. split.
  - destruct (key_cmp a b) eqn:E; try discriminate. intros _. apply key_cmp_eq. exact E.
  - intros ->. rewrite key_cmp_refl. reflexivity.
Qed.

Lemma key_eqb_refl : forall a, key_eqb a a = true.
Proof. intros. apply key_eqb_eq. reflexivity. Qed.

Lemma key_eqb_neq : forall a b, key_eqb a b = false <-> a <> b.
Proof.
  intros a b. split.
  - intros H E. apply key_eqb_eq in E. congruence.
  - intros H. destruct (key_eqb a b) eqn:E; [|reflexivity]. apply key_eqb_eq in E. contradiction.
Qed.

Lemma key_eqb_sym : forall a b, key_eqb a b = key_eqb b a.
Proof.
  intros a b. destruct (key_eqb a b) eqn:E.
  - apply key_eqb_eq in E. subst. symmetry. apply key_eqb_refl.
  - apply key_eqb_neq in E. symmetry. apply key_eqb_neq. congruence.
Qed.

Lemma key_gtb_true : forall a b, key_gtb a b = true <-> key_lt b a.
Proof.
  intros a b. unfold key_gtb, key_lt. rewrite <- key_cmp_gt_lt.
  destruct (key_cmp a b); split; congruence.
Qed.

Lemma key_gtb_false : forall a b, key_gtb a b = false <-> key_le a b.
Proof.
  intros a b. unfold key_gtb, key_le. destruct (key_cmp a b); split; congruence.
Qed.

(* ---------------------------------------------------------------------------------------- *)
(* histories *)
Section Hist.
  Context {S O : Type} (step : S -> O -> S * out).

  Lemma final_cons : forall s op t, final step s (op :: t) = final step (fst (step s op)) t.
  Proof. reflexivity. Qed.

  Lemma final_app : forall a s b, final step s (a ++ b) = final step (final step s a) b.
  Proof. intros. unfold final. apply fold_left_app. Qed.

  Lemma outs_app : forall a s b, outs step s (a ++ b) = outs step s a ++ outs step (final step s a) b.
  Proof.
    induction a as [|op a IH]; intros s b; cbn; [reflexivity|].
    f_equal. rewrite IH. reflexivity.
  Qed.

  Lemma outs_length : forall ops s, length (outs step s ops) = length ops.
  Proof. induction ops; intros; cbn; auto. Qed.

  (* an invariant kept by every step holds after every history, hence after every prefix *)
  Lemma final_invariant : forall (P : S -> Prop),
    (forall s op, P s -> P (fst (step s op))) ->
    forall ops s, P s -> P (final step s ops).
  Proof.
    intros P Hstep. induction ops as [|op t IH]; intros s Hs; cbn; [exact Hs|].
    apply IH. apply Hstep. exact Hs.
  Qed.
End Hist.

(* ---------------------------------------------------------------------------------------- *)
(* iterators *)
Lemma it_sweep_exact : forall A (xs : list A) fuel,
  (length xs <= fuel)%nat -> it_sweep fuel (it_new xs) = (xs, true).
Proof.
  unfold it_new. induction xs as [|x t IH]; intros fuel H.
  - destruct fuel; reflexivity.
  - destruct fuel as [|f]; [cbn in H; lia|]. cbn. rewrite IH by (cbn in H; lia). reflexivity.
Qed.

Lemma it_sweep_short : forall A (xs : list A) fuel,
  (fuel < length xs)%nat -> it_sweep fuel (it_new xs) = (firstn fuel xs, false).
Proof.
  unfold it_new. induction xs as [|x t IH]; intros fuel H; [cbn in H; lia|].
  destruct fuel as [|f]; [reflexivity|]. cbn. rewrite IH by (cbn in H; lia). reflexivity.
Qed.

Lemma it_after_skipn : forall A k (xs : list A), it_after k (it_new xs) = skipn k xs.
Proof.
  unfold it_new. induction k as [|k IH]; intros xs; [reflexivity|].
  destruct xs as [|x t]; cbn.
  - clear IH. induction k; cbn; auto.
  - apply IH.
Qed.

Lemma it_has_next_after : forall A k (xs : list A),
  it_has_next (it_after k (it_new xs)) = (k <? length xs)%nat.
Proof.
  intros A k xs. rewrite it_after_skipn. revert xs.
  induction k as [|k IH]; intros [|x t]; cbn; try reflexivity. apply IH.
Qed.

(* the k-th call of next (k < length) hands out exactly the k-th element *)
Lemma it_next_after : forall A k (xs : list A),
  fst (it_next (it_after k (it_new xs))) = nth_error xs k.
Proof.
  intros A k xs. rewrite it_after_skipn. revert xs.
  induction k as [|k IH]; intros [|x t]; cbn; try reflexivity. apply IH.
Qed.

Lemma NoDup_app_l : forall A (a b : list A), NoDup (a ++ b) -> NoDup a.
Proof.
  induction a as [|x a IH]; intros b H; cbn in *; [constructor|].
  inversion H as [|x' l' Hn Hd]; subst. constructor; [|eauto].
  intro Hi. apply Hn. apply in_or_app. left. exact Hi.
Qed.
