(* ArrayRefine - part 2 of the refinement proof for src/array.c: the member functions that
   compare objects (linear searches, ordered insert, binary search, map set/get/remove), one
   step lemma per interface and the three history theorems
       array_list_refines, array_vector_refines, array_map_refines. *)
From LV Require Import Cont.ContSpec Cont.ContKey Cont.ListProofs Cont.VecProofs Cont.MapProofs
  Cont.ArrayModel Cont.ArrayProofs.
From Coq Require Import Sorting.Sorted.
Local Open Scope Z_scope.

(* ---------------------------------------------------------------------------------------- *)
(* the `for (i = 0; i < len && cond(items[i]); i++);` loops *)
Fixpoint prefix_len {X} (f : X -> bool) (l : list X) : nat :=
  match l with
  | [] => O
  | x :: t => if f x then S (prefix_len f t) else O
  end.

Lemma prefix_len_le : forall X (f : X -> bool) l, (prefix_len f l <= length l)%nat.
Proof. induction l as [|x t IH]; cbn; [lia|]. destruct (f x); lia. Qed.

Lemma prefix_len_map : forall X Y (g : X -> Y) (f : Y -> bool) l,
  prefix_len f (map g l) = prefix_len (fun x => f (g x)) l.
Proof. induction l as [|x t IH]; cbn; [reflexivity|]. rewrite IH. reflexivity. Qed.

Lemma prefix_len_ext : forall X (f g : X -> bool) l, (forall x, In x l -> f x = g x) ->
  prefix_len f l = prefix_len g l.
Proof.
  induction l as [|x t IH]; intros H; cbn; [reflexivity|].
  rewrite (H x) by (left; reflexivity). rewrite IH; [reflexivity|]. intros y Hy. apply H. right. exact Hy.
Qed.

(* either every element passes, or the list splits at the first one that does not *)
Lemma prefix_len_split : forall X (f : X -> bool) l,
  (prefix_len f l = length l /\ Forall (fun x => f x = true) l) \/
  (exists pre s post, l = pre ++ s :: post /\ length pre = prefix_len f l /\ f s = false /\
                      Forall (fun x => f x = true) pre).
Proof.
  induction l as [|x t IH]; cbn.
  - left. split; [reflexivity | constructor].
  - destruct (f x) eqn:E.
    + destruct IH as [[H1 H2] | (pre & s & post & H1 & H2 & H3 & H4)].
      * left. split; [lia | constructor; assumption].
      * right. exists (x :: pre), s, post. subst t. cbn. repeat split; auto.
    + right. exists [], x, t. repeat split; auto.
Qed.

Lemma scan_spec : forall A (a : arr A) xs cond f, Reads a xs -> (forall s, In s xs -> cond s = Ok (f s)) ->
  forall rest pre fuel, xs = pre ++ rest -> (length rest < fuel)%nat ->
  scan fuel a cond (Z.of_nat (length pre)) = Ok (Z.of_nat (length pre + prefix_len f rest)).
Proof.
  intros A a xs cond f R Hc. induction rest as [|s t IH]; intros pre fuel E Hfu.
  - destruct fuel as [|fu]; [lia|]. cbn [scan prefix_len]. rewrite (proj1 R), E, app_nil_r, Z.ltb_irrefl.
    f_equal. lia.
  - destruct fuel as [|fu]; [lia|]. cbn [scan prefix_len]. rewrite (proj1 R).
    replace (Z.of_nat (length pre) <? Z.of_nat (length xs)) with true
      by (symmetry; apply Z.ltb_lt; rewrite E, app_length; cbn; lia).
    rewrite (proj2 R _ _ _ E). cbn [bind].
    rewrite Hc by (rewrite E; apply in_or_app; right; left; reflexivity). cbn [bind].
    destruct (f s).
    + rewrite Z_nat_S. replace (S (length pre)) with (length (pre ++ [s])) by (rewrite app_length; cbn; lia).
      rewrite (IH (pre ++ [s]) fu); [| rewrite <- app_assoc; exact E | cbn in Hfu; lia].
      f_equal. rewrite app_length. cbn. lia.
    + f_equal. lia.
Qed.

Lemma scan_all : forall A (a : arr A) xs cond f, Reads a xs -> (forall s, In s xs -> cond s = Ok (f s)) ->
  scan (S (Z.to_nat (alen a))) a cond 0 = Ok (Z.of_nat (prefix_len f xs)).
Proof.
  intros A a xs cond f R Hc. rewrite (proj1 R), Nat2Z.id.
  apply (scan_spec A a xs cond f R Hc xs [] (S (length xs))); [reflexivity | lia].
Qed.

(* ---------------------------------------------------------------------------------------- *)
(* spif_array_insert *)
Lemma arr_insert_spec : forall A (cmpAA : A -> A -> comparison) (xs : list (option A)) e f,
  Z.of_nat (length xs) < INT_MAX ->
  (forall s, In s xs -> (c <- comp_obj cmpAA (Some e) s ;; Ok (is_gt c)) = Ok (f s)) ->
  arr_insert cmpAA (arr_of xs) (Some e)
  = Ok (arr_of (firstn (prefix_len f xs) xs ++ Some e :: skipn (prefix_len f xs) xs), true).
Proof.
  intros A cmpAA xs e f H Hc. unfold arr_insert.
  replace (alen (arr_of xs)) with (Z.of_nat (length xs)) by reflexivity.
  rewrite chk_inc_ok by exact H. cbn [bind].
  replace (Z.of_nat (length xs) + 1) with (Z.of_nat (length xs + 1)) by lia.
  rewrite grow_arr_of by lia. cbn [repeat].
  assert (R : Reads (mkArr (Z.of_nat (length xs)) (Some (cells xs ++ [None]))) xs) by (apply Reads_block; reflexivity).
  assert (S := scan_all A _ xs _ f R Hc). cbn [alen] in S. rewrite S. cbn [bind deref].
  set (k := prefix_len f xs).
  assert (Lk : (k <= length xs)%nat) by apply prefix_len_le.
  destruct (place_spec A (firstn k xs) (skipn k xs) (Some e)) as (b1 & P1 & P2).
  rewrite firstn_skipn in P1. rewrite firstn_length_le in P1, P2 by exact Lk. rewrite skipn_length in P1.
  replace (Z.of_nat (length xs) - Z.of_nat k) with (Z.of_nat (length xs - k)) by lia.
  rewrite P1. cbn [bind]. rewrite P2. cbn [bind].
  rewrite arr_of_nonempty by (destruct (firstn k xs); discriminate).
  do 3 f_equal. rewrite app_length. cbn [length]. rewrite firstn_length_le, skipn_length by exact Lk. lia.
Qed.

(* the search + take shape of spif_array_remove and spif_array_map_remove *)
Definition take_first {X} (f : option X -> bool) (xs : list (option X)) : list (option X) * option X :=
  let k := prefix_len f xs in
  if (k =? length xs)%nat then (xs, None) else (firstn k xs ++ skipn (S k) xs, nth k xs None).

Lemma search_take_spec : forall A (xs : list (option A)) cond f,
  (forall s, In s xs -> cond s = Ok (f s)) ->
  (i <- scan (S (Z.to_nat (alen (arr_of xs)))) (arr_of xs) cond 0 ;;
   if i =? alen (arr_of xs) then Ok (arr_of xs, None) else arr_take (arr_of xs) i)
  = Ok (arr_of (fst (take_first f xs)), snd (take_first f xs)).
Proof.
  intros A xs cond f Hc. rewrite (scan_all A _ xs cond f (Reads_arr_of _ xs) Hc). cbn [bind].
  replace (alen (arr_of xs)) with (Z.of_nat (length xs)) by reflexivity. unfold take_first.
  destruct (prefix_len_split _ f xs) as [[H1 H2] | (pre & s & post & H1 & H2 & H3 & H4)].
  - rewrite H1, Z.eqb_refl, Nat.eqb_refl. reflexivity.
  - assert (L : (prefix_len f xs < length xs)%nat) by (rewrite <- H2, H1, app_length; cbn; lia).
    replace (Z.of_nat (prefix_len f xs) =? Z.of_nat (length xs)) with false by (symmetry; apply Z.eqb_neq; lia).
    replace (prefix_len f xs =? length xs)%nat with false by (symmetry; apply Nat.eqb_neq; lia).
    cbn [fst snd]. rewrite <- H2. rewrite H1.
    rewrite arr_take_spec.
    rewrite firstn_exact by reflexivity.
    rewrite (app_cons_assoc _ pre s post), skipn_exact by (rewrite app_length; cbn; lia).
    rewrite <- app_cons_assoc, nth_middle. reflexivity.
Qed.

(* ---------------------------------------------------------------------------------------- *)
(* comparisons of spif_str elements *)
Lemma is_eq_cmp_sym : forall a b, is_eq (key_cmp a b) = key_eqb b a.
Proof.
  intros a b. rewrite key_eqb_sym. unfold key_eqb. destruct (key_cmp a b); reflexivity.
Qed.
Lemma is_eq_cmp : forall a b, is_eq (key_cmp a b) = key_eqb a b.
Proof. intros a b. unfold key_eqb. destruct (key_cmp a b); reflexivity. Qed.

Lemma ecmp_gt_slot : forall e s, (c <- comp_obj ecmp (Some e) s ;; Ok (is_gt c)) = Ok (gt_slot e s).
Proof. intros e [x|]; cbn; [|reflexivity]. unfold ecmp, key_gtb. destruct (key_cmp _ _); reflexivity. Qed.

Lemma ecmp_neq_slot : forall p s,
  (c <- comp_obj ecmp (Some p) s ;; Ok (negb (is_eq c))) = Ok (negb (eq_slot (ekey p) s)).
Proof. intros p [x|]; cbn; [|reflexivity]. unfold ecmp. rewrite is_eq_cmp. reflexivity. Qed.

(* ordered insert = insertion after the longest prefix of smaller slots *)
Lemma ins_ordered_prefix : forall e xs,
  ins_ordered e xs = firstn (prefix_len (gt_slot e) xs) xs ++ Some e :: skipn (prefix_len (gt_slot e) xs) xs.
Proof.
  induction xs as [|s t IH]; cbn; [reflexivity|].
  destruct (gt_slot e s); cbn; [rewrite IH|]; reflexivity.
Qed.

Lemma rem_first_prefix : forall p xs,
  rem_first p xs = take_first (fun s => negb (eq_slot p s)) xs.
Proof.
  intros p xs. unfold take_first.
  destruct (prefix_len_split _ (fun s => negb (eq_slot p s)) xs) as [[H1 H2] | (pre & s & post & H1 & H2 & H3 & H4)].
  - rewrite H1, Nat.eqb_refl. clear H1. induction xs as [|s t IH]; [reflexivity|]. inversion H2 as [|? ? Hs Ht]; subst.
    cbn. apply negb_true_iff in Hs. rewrite Hs, (IH Ht). reflexivity.
  - assert (L : (prefix_len (fun s => negb (eq_slot p s)) xs < length xs)%nat) by (rewrite <- H2, H1, app_length; cbn; lia).
    replace (prefix_len _ xs =? length xs)%nat with false by (symmetry; apply Nat.eqb_neq; lia).
    rewrite <- H2. subst xs. clear H2 L.
    rewrite firstn_exact by reflexivity.
    rewrite (app_cons_assoc _ pre s post), skipn_exact by (rewrite app_length; cbn; lia).
    rewrite <- app_cons_assoc, nth_middle.
    apply negb_false_iff in H3.
    induction pre as [|q pre IH]; cbn.
    + rewrite H3. reflexivity.
    + inversion H4 as [|? ? Hq Hpre]; subst. apply negb_true_iff in Hq. rewrite Hq, (IH Hpre). reflexivity.
Qed.

(* spif_array_remove on elements *)
Lemma arr_remove_spec : forall (xs : lstate) p,
  arr_remove ecmp (arr_of xs) (Some p)
  = Ok (arr_of (fst (rem_first (ekey p) xs)), snd (rem_first (ekey p) xs)).
Proof.
  intros xs p. unfold arr_remove.
  rewrite (search_take_spec elem xs _ (fun s => negb (eq_slot (ekey p) s)) (fun s _ => ecmp_neq_slot p s)).
  rewrite rem_first_prefix. reflexivity.
Qed.

(* spif_array_list_find *)
Lemma list_find_loop_spec : forall (a : arr elem) xs p, Reads a xs ->
  forall rest pre fuel, xs = pre ++ rest -> (length rest < fuel)%nat ->
  list_find_loop ecmp fuel a p (Z.of_nat (length pre)) = Ok (l_find rest (ekey p)).
Proof.
  intros a xs p R. induction rest as [|s t IH]; intros pre fuel E Hfu.
  - destruct fuel as [|fu]; [lia|]. cbn [list_find_loop l_find]. rewrite (proj1 R), E, app_nil_r, Z.ltb_irrefl.
    reflexivity.
  - destruct fuel as [|fu]; [lia|]. cbn [list_find_loop l_find]. rewrite (proj1 R).
    replace (Z.of_nat (length pre) <? Z.of_nat (length xs)) with true
      by (symmetry; apply Z.ltb_lt; rewrite E, app_length; cbn; lia).
    rewrite (proj2 R _ _ _ E). cbn [bind].
    assert (Next : list_find_loop ecmp fu a p (Z.of_nat (length pre) + 1) = Ok (l_find t (ekey p))).
    { rewrite Z_nat_S. replace (S (length pre)) with (length (pre ++ [s])) by (rewrite app_length; cbn; lia).
      apply IH; [rewrite <- app_assoc; exact E | cbn in Hfu; lia]. }
    destruct s as [x|]; cbn [eq_slot comp_obj bind].
    + unfold ecmp at 1. rewrite is_eq_cmp_sym. destruct (key_eqb (ekey p) (ekey x)); [reflexivity | exact Next].
    + exact Next.
Qed.

Lemma arr_list_find_spec : forall (xs : lstate) p,
  arr_list_find ecmp (arr_of xs) p = Ok (match p with Some q => l_find xs (ekey q) | None => None end).
Proof.
  intros xs [q|]; [|reflexivity]. unfold arr_list_find.
  replace (alen (arr_of xs)) with (Z.of_nat (length xs)) by reflexivity. rewrite Nat2Z.id.
  apply (list_find_loop_spec _ xs q (Reads_arr_of _ xs) xs [] (S (length xs))); [reflexivity | lia].
Qed.

(* spif_array_index *)
Lemma index_loop_spec : forall (a : arr elem) xs p, Reads a xs ->
  forall rest pre fuel, xs = pre ++ rest -> (length rest < fuel)%nat ->
  index_loop ecmp fuel a (Some p) (Z.of_nat (length pre)) = Ok (index_from (ekey p) rest (Z.of_nat (length pre))).
Proof.
  intros a xs p R. induction rest as [|s t IH]; intros pre fuel E Hfu.
  - destruct fuel as [|fu]; [lia|]. cbn [index_loop index_from]. rewrite (proj1 R), E, app_nil_r, Z.ltb_irrefl.
    reflexivity.
  - destruct fuel as [|fu]; [lia|]. cbn [index_loop index_from]. rewrite (proj1 R).
    replace (Z.of_nat (length pre) <? Z.of_nat (length xs)) with true
      by (symmetry; apply Z.ltb_lt; rewrite E, app_length; cbn; lia).
    rewrite (proj2 R _ _ _ E). cbn [bind].
    assert (Next : index_loop ecmp fu a (Some p) (Z.of_nat (length pre) + 1)
                   = Ok (index_from (ekey p) t (Z.of_nat (length pre) + 1))).
    { rewrite Z_nat_S. replace (S (length pre)) with (length (pre ++ [s])) by (rewrite app_length; cbn; lia).
      apply IH; [rewrite <- app_assoc; exact E | cbn in Hfu; lia]. }
    destruct s as [x|]; cbn [eq_slot comp_obj bind].
    + unfold ecmp at 1. rewrite is_eq_cmp_sym. destruct (key_eqb (ekey p) (ekey x)); [reflexivity | exact Next].
    + exact Next.
Qed.

Lemma arr_index_spec : forall (xs : lstate) p, arr_index ecmp (arr_of xs) (Some p) = Ok (l_index xs (ekey p)).
Proof.
  intros xs p. unfold arr_index, l_index.
  replace (alen (arr_of xs)) with (Z.of_nat (length xs)) by reflexivity. rewrite Nat2Z.id.
  apply (index_loop_spec _ xs p (Reads_arr_of _ xs) xs [] (S (length xs))); [reflexivity | lia].
Qed.

(* ---------------------------------------------------------------------------------------- *)
(* the binary search of spif_array_vector_find / spif_array_map_get *)
Section BSearch.
  Context {A P : Type}.
  Variable cmpAP : A -> P -> comparison.
  Variable p : P.
  Let c (y : A) : comparison := cmpAP y p.

  (* the class of every stored object against the probe runs Lt ... Lt Eq ... Eq Gt ... Gt *)
  Definition bs_mono (ys : list A) : Prop :=
    forall l1 y l2, ys = l1 ++ y :: l2 ->
      (c y = Lt -> Forall (fun z => c z = Lt) l1) /\ (c y = Gt -> Forall (fun z => c z = Gt) l2).

  Definition bs_result (ys : list A) (r : option A) : Prop :=
    match r with
    | Some y => In y ys /\ c y = Eq
    | None => Forall (fun z => c z <> Eq) ys
    end.

  Lemma Forall_skipn : forall X (Q : X -> Prop) (l : list X) n, Forall Q l -> Forall Q (skipn n l).
  Proof.
    intros X Q l n F. rewrite <- (firstn_skipn n l) in F. apply Forall_app in F. apply F.
  Qed.

  Lemma Forall_skipn_le : forall X (Q : X -> Prop) (l : list X) m n, (m <= n)%nat ->
    Forall Q (skipn m l) -> Forall Q (skipn n l).
  Proof.
    intros X Q. induction l as [|x t IH]; intros m n H F.
    - destruct n; constructor.
    - destruct m as [|m].
      + apply Forall_skipn. exact F.
      + destruct n as [|n]; [lia|]. cbn in *. apply (IH m n); [lia | exact F].
  Qed.

  Lemma bs_exit : forall ys s e, (e <= s)%nat ->
    Forall (fun z => c z = Lt) (firstn s ys) -> Forall (fun z => c z = Gt) (skipn e ys) ->
    Forall (fun z => c z <> Eq) ys.
  Proof.
    intros ys s e H F1 F2. apply (Forall_skipn_le _ _ _ _ _ H) in F2.
    rewrite <- (firstn_skipn s ys). apply Forall_app. split.
    - eapply Forall_impl; [|exact F1]. cbn. intros z Hz. rewrite Hz. discriminate.
    - eapply Forall_impl; [|exact F2]. cbn. intros z Hz. rewrite Hz. discriminate.
  Qed.

  Lemma bs_loop_spec : forall (a : arr A) ys, Reads a (map Some ys) -> bs_mono ys ->
    forall fuel s e, 0 <= s -> e < Z.of_nat (length ys) -> s <= e + 1 -> e - s + 1 < Z.of_nat fuel ->
    Forall (fun z => c z = Lt) (firstn (Z.to_nat s) ys) ->
    Forall (fun z => c z = Gt) (skipn (Z.to_nat (e + 1)) ys) ->
    exists r, bs_loop cmpAP fuel a p s e = Ok r /\ bs_result ys r.
  Proof.
    intros a ys R M. induction fuel as [|fu IH]; intros s e Hs He Hse Hfu F1 F2; [lia|].
    cbn [bs_loop]. destruct (s <=? e) eqn:Cse.
    - apply Z.leb_le in Cse.
      assert (Q : 0 <= Z.quot (e - s) 2 <= e - s).
      { rewrite Z.quot_div_nonneg by lia. split; [apply Z.div_pos; lia|].
        apply Z.div_le_upper_bound; lia. }
      set (mid := Z.quot (e - s) 2 + s) in *.
      assert (Hm : s <= mid <= e) by (unfold mid; lia).
      assert (Lm : (Z.to_nat mid < length ys)%nat) by lia.
      destruct (nth_error ys (Z.to_nat mid)) as [y|] eqn:N; [|apply nth_error_None in N; lia].
      destruct (nth_error_split _ _ N) as (l1 & l2 & E & Ll1).
      assert (Rd : item_rd a mid = Ok (Some y)).
      { assert (E' : map Some ys = map Some l1 ++ Some y :: map Some l2) by (rewrite E, map_app; reflexivity).
        rewrite <- (proj2 R _ _ _ E'). rewrite map_length, Ll1. f_equal. lia. }
      rewrite Rd. cbn [bind comp_obj]. fold (c y).
      destruct (M _ _ _ E) as [MLt MGt].
      destruct (c y) eqn:Cy.
      + exists (Some y). split; [reflexivity|]. split; [|exact Cy].
        rewrite E. apply in_or_app. right. left. reflexivity.
      + apply (IH (mid + 1) e); try lia; [|exact F2].
        replace (Z.to_nat (mid + 1)) with (length (l1 ++ [y])) by (rewrite app_length; cbn; lia).
        rewrite E, (app_cons_assoc _ l1 y l2), firstn_exact by reflexivity.
        apply Forall_app. split; [apply MLt; reflexivity | constructor; [exact Cy | constructor]].
      + assert (G : Forall (fun z => c z = Gt) (skipn (Z.to_nat mid) ys)).
        { rewrite E, <- Ll1, skipn_exact by reflexivity. constructor; [exact Cy | apply MGt; reflexivity]. }
        destruct (mid - 1 =? -1) eqn:Em.
        * apply Z.eqb_eq in Em. exists None. split; [reflexivity|]. cbn.
          replace (Z.to_nat mid) with 0%nat in G by lia. cbn in G.
          eapply Forall_impl; [|exact G]. cbn. intros z Hz. rewrite Hz. discriminate.
        * apply Z.eqb_neq in Em. apply (IH s (mid - 1)); try lia; [exact F1|].
          replace (mid - 1 + 1) with mid by lia. exact G.
    - apply Z.leb_gt in Cse. exists None. split; [reflexivity|]. cbn.
      apply (bs_exit ys (Z.to_nat s) (Z.to_nat (e + 1))); [lia | exact F1 | exact F2].
  Qed.

  Lemma arr_bsearch_spec : forall ys, bs_mono ys ->
    exists r, arr_bsearch cmpAP (arr_of (map Some ys)) (Some p) = Ok r /\ bs_result ys r.
  Proof.
    intros ys M. unfold arr_bsearch.
    replace (alen (arr_of (map Some ys))) with (Z.of_nat (length ys))
      by (unfold arr_of; cbn [alen]; rewrite map_length; reflexivity).
    destruct (0 <? Z.of_nat (length ys)) eqn:Z0.
    - apply Z.ltb_lt in Z0. rewrite Nat2Z.id.
      apply (bs_loop_spec _ ys (Reads_arr_of _ _) M); try lia.
      + cbn. constructor.
      + replace (Z.to_nat (Z.of_nat (length ys) - 1 + 1)) with (length ys) by lia. rewrite skipn_all. constructor.
    - apply Z.ltb_ge in Z0. exists None. split; [reflexivity|]. destruct ys; [constructor | cbn in Z0; lia].
  Qed.
End BSearch.

(* sortedness by key gives the monotone classification *)
Lemma ssorted_split : forall X (R : X -> X -> Prop) l1 y l2, StronglySorted R (l1 ++ y :: l2) ->
  Forall (fun z => R z y) l1 /\ Forall (R y) l2.
Proof.
  induction l1 as [|a l1 IH]; intros y l2 H; cbn in H.
  - inversion H; subst. split; [constructor | assumption].
  - inversion H as [|? ? Ht Ha]; subst. destruct (IH _ _ Ht) as [H1 H2]. split; [|exact H2].
    constructor; [|exact H1]. rewrite Forall_app in Ha. destruct Ha as [_ Ha]. inversion Ha; assumption.
Qed.

Lemma key_le_lt_trans : forall a b c, key_le a b -> key_lt b c -> key_lt a c.
Proof.
  unfold key_le, key_lt. intros a b c H1 H2.
  destruct (key_cmp a b) eqn:E1; [| |congruence].
  - apply key_cmp_eq in E1. subst. exact H2.
  - eapply key_cmp_lt_trans; eauto.
Qed.

Lemma bs_mono_sorted : forall A (kf : A -> key) (k : key) ys,
  StronglySorted (fun a b => key_le (kf a) (kf b)) ys ->
  bs_mono (fun y (q : key) => key_cmp (kf y) q) k ys.
Proof.
  intros A kf k ys S l1 y l2 E. rewrite E in S. destruct (ssorted_split _ _ _ _ _ S) as [H1 H2]. split; intros Hy.
  - eapply Forall_impl; [|exact H1]. cbn. intros z Hz. eapply key_le_lt_trans; eauto.
  - eapply Forall_impl; [|exact H2]. cbn. intros z Hz.
    apply key_cmp_gt_lt. apply key_cmp_gt_lt in Hy. eapply key_lt_le_trans; eauto.
Qed.

(* ---------------------------------------------------------------------------------------- *)
(* histories: every state the ideal object passes through has a length that fits spif_listidx_t *)
Fixpoint run_fits {S O} (step : S -> O -> S * out) (size : S -> nat) (s : S) (ops : list O) : Prop :=
  match ops with
  | [] => True
  | op :: t => Z.of_nat (size (fst (step s op))) <= INT_MAX /\ run_fits step size (fst (step s op)) t
  end.

Lemma run_m_refines : forall (S M O : Type) (step : S -> O -> S * out) (mstep : M -> O -> res (M * out))
    (abs : S -> M) (size : S -> nat) (Inv : S -> Prop),
  (forall s op, Inv s -> Inv (fst (step s op))) ->
  (forall s op, Inv s -> Z.of_nat (size s) <= INT_MAX -> Z.of_nat (size (fst (step s op))) <= INT_MAX ->
                mstep (abs s) op = Ok (abs (fst (step s op)), snd (step s op))) ->
  forall ops s, Inv s -> Z.of_nat (size s) <= INT_MAX -> run_fits step size s ops ->
  run_m mstep (abs s) ops = Ok (abs (final step s ops), outs step s ops).
Proof.
  intros S M O step mstep abs size Inv Hinv Hstep. induction ops as [|op t IH]; intros s Hi Hs Hr.
  - reflexivity.
  - destruct Hr as [H1 H2]. cbn [run_m outs]. rewrite final_cons.
    rewrite (Hstep s op Hi Hs H1). cbn [bind].
    rewrite (IH _ (Hinv _ _ Hi) H1 H2). reflexivity.
Qed.

(* ---------------------------------------------------------------------------------------- *)
(* LIST interface *)
Lemma ins_ordered_length : forall e xs, length (ins_ordered e xs) = S (length xs).
Proof. induction xs as [|s t IH]; cbn; [reflexivity|]. destruct (gt_slot e s); cbn; [rewrite IH|]; reflexivity. Qed.

Lemma slot_key_map : forall xs, map slot_key xs = map (option_map ekey) xs.
Proof. intros. apply map_ext. intros [x|]; reflexivity. Qed.

Lemma arr_count_of : forall A (xs : list (option A)), arr_count (arr_of xs) = Z.of_nat (length xs).
Proof. reflexivity. Qed.

Lemma blk_reads_all : forall A (a : arr A) xs, Reads a xs ->
  blk_reads (cells xs) 0 (Z.to_nat (arr_count a)) = Ok xs.
Proof.
  intros A a xs R. unfold arr_count. rewrite (proj1 R), Nat2Z.id.
  assert (S := blk_reads_spec A xs [] []). cbn [app length Z.of_nat] in S. rewrite app_nil_r in S. exact S.
Qed.

Lemma arr_collect_spec : forall A B (f : A -> B) (a : arr A) ps, Reads a (map Some ps) -> fits ps ->
  arr_collect f a = Ok (arr_of (map Some (map f ps))).
Proof.
  intros A B f a ps R F. unfold arr_collect. rewrite (proj1 R), map_length, Nat2Z.id.
  change (@arr_new B) with (@arr_of B []).
  assert (S := collect_loop_spec A B a f ps R ps [] [] (S (length ps)) eq_refl ltac:(lia) F).
  cbn [app length Z.of_nat] in S. exact S.
Qed.

Lemma read_list_spec : forall X (l : list X), read_list (arr_of (map Some l)) = Ok l.
Proof.
  intros X l. unfold read_list. rewrite (arr_gets_all _ _ _ (Reads_arr_of _ _)). cbn [bind]. apply all_some_map.
Qed.

Lemma arr_list_step_refines : forall (xs : lstate) op, fits xs -> fits (fst (list_step xs op)) ->
  arr_list_step (arr_of xs) op = Ok (arr_of (fst (list_step xs op)), snd (list_step xs op)).
Proof.
  intros xs op F F'. unfold fits in *.
  destruct op; cbn [list_step arr_list_step fst snd] in *.
  - (* append *) rewrite app_length in F'. cbn in F'. rewrite arr_append_spec by lia. reflexivity.
  - (* prepend *) cbn [length] in F'. rewrite arr_prepend_spec by lia. reflexivity.
  - (* insert *) rewrite ins_ordered_length in F'.
    rewrite (arr_insert_spec elem ecmp xs e (gt_slot e)) by (try lia; intros; apply ecmp_gt_slot).
    cbn [bind]. rewrite <- ins_ordered_prefix. reflexivity.
  - (* insert_at *) destruct (l_insert_at xs idx e) as [xs' ok] eqn:E. cbn [fst snd] in *.
    assert (S := arr_insert_at_spec xs idx e). rewrite E in S. cbn [fst snd] in S. rewrite S by exact F'. reflexivity.
  - (* remove *) destruct p as [p|]; [|reflexivity].
    rewrite arr_remove_spec. cbn [bind]. destruct (rem_first (ekey p) xs); reflexivity.
  - (* remove_at *) rewrite arr_remove_at_spec. cbn [bind]. rewrite <- l_remove_at_g.
    destruct (l_remove_at xs idx); reflexivity.
  - (* get *) rewrite (arr_get_spec _ _ xs idx (Reads_arr_of _ xs)). cbn [bind]. rewrite l_get_g_get. reflexivity.
  - (* index *) rewrite arr_index_spec. reflexivity.
  - (* find *) rewrite arr_list_find_spec. cbn [bind]. destruct p; reflexivity.
  - (* contains *) unfold arr_list_contains. rewrite arr_list_find_spec. cbn [bind]. destruct p; reflexivity.
  - (* count *) reflexivity.
  - (* reverse *) rewrite arr_reverse_spec. reflexivity.
  - (* to_array *) rewrite (arr_to_array_spec _ _ xs (Reads_arr_of _ xs)). cbn [bind].
    rewrite (blk_reads_all _ _ xs (Reads_arr_of _ xs)). reflexivity.
  - (* iterate *) rewrite (arr_iterate_spec _ _ xs (Reads_arr_of _ xs) F). cbn [bind].
    rewrite it_sweep_exact by lia. reflexivity.
  - (* dup *) destruct (arr_list_dup_spec elem key ekey (arr_of xs) xs (Reads_arr_of _ xs)) as (d & -> & Rd).
    cbn [bind]. cbn zeta.
    rewrite (arr_iterate_spec _ d _ Rd) by (unfold fits; rewrite map_length; exact F). cbn [bind].
    rewrite (arr_gets_all _ d _ Rd). cbn [bind]. unfold arr_count, llen.
    rewrite (proj1 Rd), map_length, (slot_key_map xs). reflexivity.
Qed.

(* for every history whose lengths fit spif_listidx_t: the model never faults, returns exactly
   the ideal outputs, and ends in the one heap object that represents the ideal final state *)
Theorem array_list_refines : forall ops, run_fits list_step (@length _) [] ops ->
  exists a, arr_list_run ops = Ok (a, outs list_step [] ops) /\ Repr_array a (final list_step [] ops).
Proof.
  intros ops Hr. exists (arr_of (final list_step [] ops)). split; [|apply Repr_array_iff; reflexivity].
  unfold arr_list_run. change (@arr_new elem) with (@arr_of elem []).
  apply (run_m_refines lstate (arr elem) lop list_step arr_list_step arr_of (@length _) (fun _ => True)); auto.
  - intros s op _ H1 H2. apply arr_list_step_refines; assumption.
  - cbn. unfold INT_MAX. lia.
Qed.

(* ---------------------------------------------------------------------------------------- *)
(* VECTOR interface: the slots are never NULL; state = map Some ys *)
Lemma v_ins_ordered : forall e ys, map Some (v_ins e ys) = ins_ordered e (map Some ys).
Proof.
  induction ys as [|y t IH]; cbn; [reflexivity|].
  destruct (key_gtb (ekey e) (ekey y)); cbn; [rewrite IH|]; reflexivity.
Qed.

Lemma v_rem_first : forall p ys,
  rem_first p (map Some ys) = (map Some (fst (v_rem p ys)), snd (v_rem p ys)).
Proof.
  induction ys as [|y t IH]; cbn; [reflexivity|].
  destruct (key_eqb p (ekey y)); cbn; [reflexivity|].
  rewrite IH. destruct (v_rem p t); reflexivity.
Qed.

Lemma v_ins_length : forall e ys, length (v_ins e ys) = S (length ys).
Proof. intros. rewrite <- (map_length Some), v_ins_ordered, ins_ordered_length, map_length. reflexivity. Qed.

(* what the binary search hands back agrees with the ideal find up to the choice among equal keys *)
Lemma bs_result_v_find : forall ys p r, bs_result ecmp p ys r ->
  option_map ekey r = option_map ekey (v_find ys (ekey p)) /\
  (forall x, r = Some x -> In x ys /\ ekey x = ekey p).
Proof.
  intros ys p r H. unfold bs_result, ecmp in H. destruct r as [y|].
  - destruct H as [Hi Hc]. apply key_cmp_eq in Hc. split.
    + destruct (v_find ys (ekey p)) as [x|] eqn:F.
      * apply v_find_some in F. cbn. f_equal. destruct F as [_ F]. congruence.
      * exfalso. apply (proj1 (v_find_none ys (ekey p)) F y Hi Hc).
    + intros x Hx. inversion Hx; subst. auto.
  - split; [|discriminate].
    destruct (v_find ys (ekey p)) as [x|] eqn:F; [|reflexivity].
    apply v_find_some in F. destruct F as [Fi Fk]. rewrite Forall_forall in H.
    exfalso. apply (H x Fi). rewrite Fk. apply key_cmp_refl.
Qed.

(* the model's output against the ideal one: equal, except that `find` may hand back ANOTHER
   stored element with the probe's key (array: whichever the binary search meets first) *)
Definition vout_agree (ys : vstate) (op : vop) (om os : out) : Prop :=
  match op with
  | VFind p => exists r r', om = OElem r /\ os = OElem r' /\ option_map ekey r = option_map ekey r' /\
                            (forall x, r = Some x -> In x ys /\ ekey x = ekey p)
  | _ => om = os
  end.

Lemma arr_vec_step_refines : forall (ys : vstate) op, vsorted ys -> fits ys -> fits (fst (vec_step ys op)) ->
  exists om, arr_vec_step (arr_of (map Some ys)) op = Ok (arr_of (map Some (fst (vec_step ys op))), om) /\
             vout_agree ys op om (snd (vec_step ys op)).
Proof.
  intros ys op Hs F F'. unfold fits in *.
  assert (Fm : fits (map Some ys)) by (unfold fits; rewrite map_length; exact F).
  assert (Bs : forall p, exists r, arr_bsearch ecmp (arr_of (map Some ys)) (Some p) = Ok r /\ bs_result ecmp p ys r).
  { intros p. apply arr_bsearch_spec. apply (bs_mono_sorted elem ekey (ekey p) ys). exact Hs. }
  destruct op; cbn [vec_step arr_vec_step fst snd vout_agree] in *.
  - (* insert *) rewrite v_ins_length in F'.
    rewrite (arr_insert_spec elem ecmp (map Some ys) e (gt_slot e))
      by (try (rewrite map_length; lia); intros; apply ecmp_gt_slot).
    cbn [bind]. rewrite <- ins_ordered_prefix, <- v_ins_ordered. eexists. split; reflexivity.
  - (* remove *) rewrite arr_remove_spec. cbn [bind]. rewrite v_rem_first. cbn [fst snd].
    destruct (v_rem (ekey p) ys). eexists. split; reflexivity.
  - (* find *) destruct (Bs p) as (r & Hr & Hres). unfold arr_vector_find. rewrite Hr. cbn [bind].
    eexists. split; [reflexivity|]. exists r, (v_find ys (ekey p)).
    destruct (bs_result_v_find _ _ _ Hres). auto.
  - (* contains *) destruct (Bs p) as (r & Hr & Hres). unfold arr_vector_contains, arr_vector_find. rewrite Hr. cbn [bind].
    eexists. split; [reflexivity|]. f_equal. apply is_some_keys. apply (bs_result_v_find _ _ _ Hres).
  - (* count *) eexists. split; [reflexivity|]. rewrite arr_count_of, map_length. reflexivity.
  - (* iterate *) rewrite (arr_iterate_spec _ _ _ (Reads_arr_of _ _) Fm). cbn [bind].
    eexists. split; [reflexivity|]. rewrite it_sweep_exact by lia. reflexivity.
  - (* to_array *) rewrite (arr_to_array_spec _ _ _ (Reads_arr_of _ _)). cbn [bind].
    rewrite (blk_reads_all _ _ _ (Reads_arr_of _ _)). eexists. split; reflexivity.
Qed.

Fixpoint vouts_agree (ys : vstate) (ops : list vop) (om : list out) : Prop :=
  match ops, om with
  | [], [] => True
  | op :: t, o :: om' => vout_agree ys op o (snd (vec_step ys op)) /\ vouts_agree (fst (vec_step ys op)) t om'
  | _, _ => False
  end.

Lemma array_vector_refines_gen : forall ops ys, vsorted ys -> fits ys -> run_fits vec_step (@length _) ys ops ->
  exists om, run_m arr_vec_step (arr_of (map Some ys)) ops = Ok (arr_of (map Some (final vec_step ys ops)), om) /\
             vouts_agree ys ops om.
Proof.
  induction ops as [|op t IH]; intros ys Hs F Hr.
  - exists []. split; [reflexivity | exact I].
  - destruct Hr as [H1 H2]. cbn [run_m]. rewrite final_cons.
    destruct (arr_vec_step_refines ys op Hs F H1) as (o & -> & Ho). cbn [bind].
    destruct (IH _ (vec_step_sorted _ op Hs) H1 H2) as (om & -> & Hom). cbn [bind].
    exists (o :: om). split; [reflexivity|]. split; assumption.
Qed.

(* the same state as the ideal sorted multiset (not merely the same keys); outputs equal except
   for the identity of the element `find` returns among equal keys *)
Theorem array_vector_refines : forall ops, run_fits vec_step (@length _) [] ops ->
  exists a om, arr_vec_run ops = Ok (a, om) /\ Repr_array a (map Some (final vec_step [] ops)) /\
               vouts_agree [] ops om.
Proof.
  intros ops Hr.
  destruct (array_vector_refines_gen ops [] ltac:(constructor) ltac:(unfold fits, INT_MAX; cbn; lia) Hr) as (om & H1 & H2).
  exists (arr_of (map Some (final vec_step [] ops))), om. split; [exact H1|]. split; [|exact H2].
  apply Repr_array_iff. reflexivity.
Qed.

(* hence: the outputs agree with the ideal ones compared by key *)
Lemma vout_agree_key : forall ys op om os, vout_agree ys op om os -> out_key om = out_key os.
Proof.
  intros ys op om os H. destruct op; cbn in H; try (subst; reflexivity).
  destruct H as (r & r' & -> & -> & Hk & _). cbn. f_equal. apply option_strip_eq. exact Hk.
Qed.

Lemma vouts_agree_key : forall ops ys om, vouts_agree ys ops om -> map out_key om = map out_key (outs vec_step ys ops).
Proof.
  induction ops as [|op t IH]; intros ys [|o om] H; cbn in H; try contradiction; [reflexivity|].
  destruct H as [H1 H2]. cbn [map outs]. f_equal; [eapply vout_agree_key; eauto | apply IH; exact H2].
Qed.

Theorem array_vector_refines_by_key : forall ops, run_fits vec_step (@length _) [] ops ->
  exists a om, arr_vec_run ops = Ok (a, om) /\ Repr_array a (map Some (final vec_step [] ops)) /\
               map out_key om = map out_key (outs vec_step [] ops).
Proof.
  intros ops Hr. destruct (array_vector_refines ops Hr) as (a & om & H1 & H2 & H3).
  exists a, om. split; [exact H1|]. split; [exact H2|]. apply vouts_agree_key. exact H3.
Qed.

(* ---------------------------------------------------------------------------------------- *)
(* MAP interface: the slots point to objpairs; state = map Some m, keys strictly ascending *)
Lemma take_first_cons : forall X (f : option X -> bool) s t,
  take_first f (s :: t) = if f s then (s :: fst (take_first f t), snd (take_first f t)) else (t, s).
Proof.
  intros X f s t. unfold take_first. cbn [prefix_len length].
  destruct (f s); [|reflexivity].
  cbn [Nat.eqb]. destruct (prefix_len f t =? length t)%nat; reflexivity.
Qed.

Definition p_ne (k : key) (s : option kv) : bool :=
  match s with Some p => negb (key_eqb (fst p) k) | None => true end.
Definition p_gt (k : key) (s : option kv) : bool :=
  match s with Some p => key_gtb k (fst p) | None => true end.

Lemma pcmp_ne : forall k (m : mstate) s, In s (map Some m) ->
  (c <- comp_obj pcmp_key s (Some k) ;; Ok (negb (is_eq c))) = Ok (p_ne k s).
Proof.
  intros k m s H. apply in_map_iff in H. destruct H as (p & <- & _). cbn. unfold pcmp_key.
  rewrite is_eq_cmp. reflexivity.
Qed.

Lemma pcmp_gt : forall k v s,
  (c <- comp_obj pcmp_pair (Some (k, v)) s ;; Ok (is_gt c)) = Ok (p_gt k s).
Proof.
  intros k v [p|]; cbn; [|reflexivity]. unfold pcmp_pair, key_gtb. cbn [fst]. destruct (key_cmp _ _); reflexivity.
Qed.

(* remove *)
Lemma m_remove_take_first : forall k m,
  take_first (p_ne k) (map Some m) = (map Some (fst (m_remove k m)), option_map (fun p => p) (snd (m_remove k m))).
Proof.
  induction m as [|[k' v'] t IH]; [reflexivity|].
  cbn [map m_remove]. rewrite take_first_cons. cbn [p_ne fst]. rewrite (key_eqb_sym k' k).
  destruct (key_eqb k k'); cbn [negb].
  - reflexivity.
  - rewrite IH. destruct (m_remove k t) as [t' r]. reflexivity.
Qed.

Lemma arr_map_remove_spec : forall (m : mstate) k,
  arr_map_remove pcmp_key (arr_of (map Some m)) (Some k)
  = Ok (arr_of (map Some (fst (m_remove k m))), snd (m_remove k m)).
Proof.
  intros m k. unfold arr_map_remove.
  rewrite (search_take_spec kv (map Some m) _ (p_ne k) (pcmp_ne k m)).
  rewrite m_remove_take_first. cbn [fst snd]. destruct (snd (m_remove k m)); reflexivity.
Qed.

(* set: on a strictly ascending association list, "replace the first equal key, else insert
   before the first key that is not smaller" is the ideal m_set *)
Definition k_ne (k : key) (p : kv) : bool := negb (key_eqb (fst p) k).
Definition k_gt (k : key) (p : kv) : bool := key_gtb k (fst p).

Lemma k_ne_all : forall k (t : mstate), Forall (key_lt k) (map fst t) -> prefix_len (k_ne k) t = length t.
Proof.
  induction t as [|[k' v'] t IH]; intros H; [reflexivity|].
  inversion H as [|? ? H1 H2]; subst. cbn [prefix_len length]. unfold k_ne at 1. cbn [fst].
  replace (key_eqb k' k) with false; [cbn [negb]; rewrite IH by exact H2; reflexivity|].
  symmetry. apply key_eqb_neq. intros ->. exact (key_lt_irrefl _ H1).
Qed.

Lemma m_set_char : forall k v (m : mstate), msorted m ->
  m_set k v m =
  if (prefix_len (k_ne k) m =? length m)%nat
  then (firstn (prefix_len (k_gt k) m) m ++ (k, v) :: skipn (prefix_len (k_gt k) m) m, false)
  else (firstn (prefix_len (k_ne k) m) m
          ++ (fst (nth (prefix_len (k_ne k) m) m (k, v)), v) :: skipn (S (prefix_len (k_ne k) m)) m, true).
Proof.
  intros k v. induction m as [|[k' v'] t IH]; intros Hs; [reflexivity|].
  unfold msorted in Hs. cbn [map fst] in Hs. inversion Hs as [|? ? Ht Hk]; subst.
  cbn [m_set prefix_len length].
  assert (Ene : k_ne k (k', v') = negb (key_eqb k' k)) by reflexivity.
  assert (Egt : k_gt k (k', v') = match key_cmp k k' with Gt => true | _ => false end) by reflexivity.
  rewrite Ene, Egt. clear Ene Egt.
  destruct (key_cmp k k') eqn:C.
  - apply key_cmp_eq in C. subst k'. rewrite key_eqb_refl. reflexivity.
  - replace (key_eqb k' k) with false
      by (symmetry; apply key_eqb_neq; intros ->; rewrite key_cmp_refl in C; discriminate).
    cbn [negb Nat.eqb]. rewrite k_ne_all.
    + rewrite Nat.eqb_refl. reflexivity.
    + eapply Forall_impl; [|exact Hk]. cbn. intros z Hz. eapply key_lt_trans; eauto.
  - replace (key_eqb k' k) with false
      by (symmetry; apply key_eqb_neq; intros ->; rewrite key_cmp_refl in C; discriminate).
    cbn [negb Nat.eqb]. rewrite (IH Ht).
    destruct (prefix_len (k_ne k) t =? length t)%nat; reflexivity.
Qed.

Lemma arr_set_spec : forall (m : mstate) k v, msorted m -> fits (fst (m_set k v m)) ->
  arr_set (arr_of (map Some m)) k v = Ok (arr_of (map Some (fst (m_set k v m))), snd (m_set k v m)).
Proof.
  intros m k v Hs F. unfold arr_set.
  rewrite (scan_all kv _ (map Some m) _ (p_ne k) (Reads_arr_of _ _) (pcmp_ne k m)). cbn [bind].
  rewrite prefix_len_map. change (fun x : kv => p_ne k (Some x)) with (k_ne k).
  replace (alen (arr_of (map Some m))) with (Z.of_nat (length m))
    by (unfold arr_of; cbn [alen]; rewrite map_length; reflexivity).
  rewrite (m_set_char k v m Hs) in *.
  destruct (prefix_len (k_ne k) m =? length m)%nat eqn:E1.
  - apply Nat.eqb_eq in E1. rewrite E1, Z.eqb_refl. cbn [fst snd] in *.
    unfold fits in F. rewrite app_length in F. cbn [length] in F.
    assert (Lk := prefix_len_le _ (k_gt k) m).
    rewrite firstn_length_le, skipn_length in F by exact Lk.
    rewrite (arr_insert_spec kv pcmp_pair (map Some m) (k, v) (p_gt k))
      by (try (rewrite map_length; lia); intros; apply pcmp_gt).
    cbn [bind]. rewrite prefix_len_map. change (fun x : kv => p_gt k (Some x)) with (k_gt k).
    rewrite firstn_map, skipn_map, map_app. reflexivity.
  - apply Nat.eqb_neq in E1. assert (Lk := prefix_len_le _ (k_ne k) m).
    set (k1 := prefix_len (k_ne k) m) in *.
    replace (Z.of_nat k1 =? Z.of_nat (length m)) with false by (symmetry; apply Z.eqb_neq; lia).
    cbn [fst snd].
    assert (L : (k1 < length m)%nat) by lia.
    assert (Em := split_nth _ m k1 (k, v) L).
    set (p := nth k1 m (k, v)) in *. set (pre := firstn k1 m) in *. set (post := skipn (S k1) m) in *.
    assert (Lpre : length pre = k1) by (unfold pre; apply firstn_length_le; lia).
    assert (E' : map Some m = map Some pre ++ Some p :: map Some post)
      by (rewrite Em at 1; rewrite map_app; reflexivity).
    assert (Hrd : item_rd (arr_of (map Some m)) (Z.of_nat k1) = Ok (Some p)).
    { rewrite <- Lpre, <- (map_length Some pre). apply (proj2 (Reads_arr_of _ (map Some m)) _ _ _ E'). }
    rewrite Hrd. cbn [bind].
    assert (Hit : aitems (arr_of (map Some m)) = Some (cells (map Some pre) ++ Some (Some p) :: cells (map Some post))).
    { rewrite arr_of_nonempty by (rewrite E'; destruct (map Some pre); discriminate).
      cbn [aitems]. rewrite E'. unfold cells. rewrite map_app. reflexivity. }
    rewrite Hit. cbn [deref bind].
    replace (Z.of_nat k1) with (Z.of_nat (length (cells (map Some pre)))) by (unfold cells; rewrite !map_length; lia).
    rewrite blk_wr_at. cbn [bind].
    rewrite arr_of_nonempty by (destruct pre; discriminate).
    f_equal. f_equal. f_equal.
    + rewrite map_length, !app_length. cbn [length]. rewrite Em at 1. rewrite app_length. reflexivity.
    + unfold cells. rewrite !map_app. reflexivity.
Qed.

(* get: the binary search on ascending keys *)
Lemma msorted_le : forall m, msorted m -> StronglySorted (fun a b : kv => key_le (fst a) (fst b)) m.
Proof.
  unfold msorted. induction m as [|[k v] t IH]; intros H; cbn in *; [constructor|].
  inversion H as [|? ? Ht Hk]; subst. constructor; [apply IH; exact Ht|].
  rewrite Forall_map in Hk. eapply Forall_impl; [|exact Hk]. cbn. intros a Ha. apply key_lt_le. exact Ha.
Qed.

Lemma m_get_in : forall m k v, msorted m -> In (k, v) m -> m_get m k = Some v.
Proof.
  unfold msorted. induction m as [|[k' v'] t IH]; intros k v Hs Hi; [contradiction|].
  cbn in Hs. inversion Hs as [|? ? Ht Hk]; subst. cbn [m_get].
  destruct Hi as [Hi|Hi].
  - inversion Hi; subst. rewrite key_eqb_refl. reflexivity.
  - replace (key_eqb k k') with false; [apply IH; assumption|].
    symmetry. apply key_eqb_neq. intros ->.
    rewrite Forall_forall in Hk. apply (key_lt_irrefl k'). apply Hk.
    apply in_map_iff. exists (k', v). auto.
Qed.

Lemma m_get_notin : forall m k, Forall (fun p : kv => key_cmp (fst p) k <> Eq) m -> m_get m k = None.
Proof.
  induction m as [|[k' v'] t IH]; intros k H; [reflexivity|].
  inversion H as [|? ? H1 H2]; subst. cbn [m_get fst] in *.
  replace (key_eqb k k') with false; [apply IH; exact H2|].
  symmetry. apply key_eqb_neq. intros ->. apply H1. apply key_cmp_refl.
Qed.

Lemma arr_map_get_spec : forall (m : mstate) k, msorted m ->
  arr_map_get (arr_of (map Some m)) (Some k) = Ok (m_get m k).
Proof.
  intros m k Hs. unfold arr_map_get.
  destruct (arr_bsearch_spec pcmp_key k m) as (r & -> & Hr).
  { apply (bs_mono_sorted kv fst k m). apply msorted_le. exact Hs. }
  cbn [bind]. f_equal. unfold bs_result, pcmp_key in Hr. destruct r as [[k' v']|]; cbn [option_map snd].
  - destruct Hr as [Hi Hc]. cbn [fst] in Hc. apply key_cmp_eq in Hc. subst k'.
    symmetry. apply m_get_in; assumption.
  - symmetry. apply m_get_notin. exact Hr.
Qed.

(* has_value *)
Lemma has_value_loop_spec : forall (a : arr kv) (m : mstate) v, Reads a (map Some m) ->
  forall rest pre fuel, m = pre ++ rest -> (length rest < fuel)%nat ->
  has_value_loop fuel a v (Z.of_nat (length pre)) = Ok (m_has_value rest v).
Proof.
  intros a m v R. induction rest as [|p t IH]; intros pre fuel E Hfu.
  - destruct fuel as [|fu]; [lia|]. cbn [has_value_loop]. rewrite (proj1 R), map_length, E, app_nil_r, Z.ltb_irrefl.
    reflexivity.
  - destruct fuel as [|fu]; [lia|]. cbn [has_value_loop]. rewrite (proj1 R), map_length.
    replace (Z.of_nat (length pre) <? Z.of_nat (length m)) with true
      by (symmetry; apply Z.ltb_lt; rewrite E, app_length; cbn; lia).
    assert (E' : map Some m = map Some pre ++ Some p :: map Some t) by (rewrite E, map_app; reflexivity).
    rewrite <- (map_length Some pre), (proj2 R _ _ _ E'). cbn [bind].
    unfold m_has_value. cbn [existsb]. rewrite is_eq_cmp.
    destruct (key_eqb (snd p) v); [reflexivity|]. cbn [orb].
    rewrite map_length, Z_nat_S. replace (S (length pre)) with (length (pre ++ [p])) by (rewrite app_length; cbn; lia).
    apply IH; [rewrite <- app_assoc; exact E | cbn in Hfu; lia].
Qed.

Lemma arr_has_value_spec : forall (m : mstate) v,
  arr_has_value (arr_of (map Some m)) v = Ok (m_has_value m v).
Proof.
  intros m v. unfold arr_has_value.
  replace (alen (arr_of (map Some m))) with (Z.of_nat (length m))
    by (unfold arr_of; cbn [alen]; rewrite map_length; reflexivity).
  rewrite Nat2Z.id.
  apply (has_value_loop_spec _ m v (Reads_arr_of _ _) m [] (S (length m))); [reflexivity | lia].
Qed.

Lemma arr_map_step_refines : forall (m : mstate) op, msorted m -> fits m -> fits (fst (map_step m op)) ->
  arr_map_step (arr_of (map Some m)) op = Ok (arr_of (map Some (fst (map_step m op))), snd (map_step m op)).
Proof.
  intros m op Hs F F'.
  assert (Fm : fits (map Some m)) by (unfold fits in *; rewrite map_length; exact F).
  assert (R := Reads_arr_of _ (map Some m)).
  destruct op; cbn [map_step arr_map_step fst snd] in *; try reflexivity.
  - (* set *) destruct (m_set k v m) as [m' r] eqn:E.
    assert (S := arr_set_spec m k v Hs). rewrite E in S. cbn [fst snd] in *. rewrite S by exact F'. reflexivity.
  - (* get *) rewrite arr_map_get_spec by exact Hs. reflexivity.
  - (* remove *) rewrite arr_map_remove_spec. cbn [bind]. destruct (m_remove k m); reflexivity.
  - (* has_key *) unfold arr_has_key. rewrite arr_map_get_spec by exact Hs. reflexivity.
  - (* has_value *) rewrite arr_has_value_spec. reflexivity.
  - (* count *) rewrite arr_count_of, map_length. reflexivity.
  - (* get_keys *) rewrite (arr_collect_spec _ _ fst _ m R F). cbn [bind]. rewrite read_list_spec. reflexivity.
  - (* get_values *) rewrite (arr_collect_spec _ _ snd _ m R F). cbn [bind]. rewrite read_list_spec. reflexivity.
  - (* get_pairs *) rewrite (arr_collect_spec _ _ (fun p : kv => p) _ m R F). cbn [bind].
    rewrite read_list_spec, map_id. reflexivity.
  - (* iterate *) rewrite (arr_iterate_spec _ _ _ R Fm). cbn [bind]. rewrite all_some_map. cbn [bind].
    rewrite it_sweep_exact by lia. reflexivity.
Qed.

Theorem array_map_refines : forall ops, run_fits map_step (@length _) [] ops ->
  exists a, arr_map_run ops = Ok (a, outs map_step [] ops) /\
            Repr_array a (map Some (final map_step [] ops)).
Proof.
  intros ops Hr. exists (arr_of (map Some (final map_step [] ops))). split; [|apply Repr_array_iff; reflexivity].
  unfold arr_map_run. change (@arr_new kv) with (@arr_of kv (map Some [])).
  apply (run_m_refines mstate (arr kv) mop map_step arr_map_step (fun m => arr_of (map Some m)) (@length _) msorted).
  - intros s op H. apply map_step_sorted. exact H.
  - intros s op H H1 H2. apply arr_map_step_refines; assumption.
  - constructor.
  - cbn. unfold INT_MAX. lia.
  - exact Hr.
Qed.

(* ---------------------------------------------------------------------------------------- *)
(* the level-A read-back the model driver prints is the ideal one *)
Lemma arr_list_readback_spec : forall (xs : lstate), fits xs ->
  arr_list_readback (arr_of xs) = Ok (list_readback xs).
Proof.
  intros xs F. unfold arr_list_readback, list_readback. rewrite arr_count_of.
  rewrite (arr_gets_spec _ _ xs (Reads_arr_of _ xs)). cbn [bind].
  rewrite (arr_iterate_spec _ _ xs (Reads_arr_of _ xs) F). cbn [bind].
  rewrite it_sweep_exact by lia. unfold llen.
  replace (Z.to_nat (2 * Z.of_nat (length xs) + 2)) with (2 * length xs + 2)%nat by lia.
  do 3 f_equal. apply map_ext. intros k. rewrite l_get_g_get. f_equal. lia.
Qed.

(* corollaries in the "never Fault" form *)
Corollary array_list_never_faults : forall ops, run_fits list_step (@length _) [] ops ->
  is_ok (arr_list_run ops) = true.
Proof. intros ops H. destruct (array_list_refines ops H) as (a & -> & _). reflexivity. Qed.
Corollary array_vector_never_faults : forall ops, run_fits vec_step (@length _) [] ops ->
  is_ok (arr_vec_run ops) = true.
Proof. intros ops H. destruct (array_vector_refines ops H) as (a & om & -> & _). reflexivity. Qed.
Corollary array_map_never_faults : forall ops, run_fits map_step (@length _) [] ops ->
  is_ok (arr_map_run ops) = true.
Proof. intros ops H. destruct (array_map_refines ops H) as (a & -> & _). reflexivity. Qed.

(* histories of at most INT_MAX growing operations always fit (each operation adds at most one
   element, insert_at excepted: its position must stay below INT_MAX) *)
Lemma run_fits_short_vec : forall ops ys, Z.of_nat (length ys + length ops) <= INT_MAX ->
  run_fits vec_step (@length _) ys ops.
Proof.
  induction ops as [|op t IH]; intros ys H; [exact I|]. cbn [run_fits length] in *.
  assert (L : (length (fst (vec_step ys op)) <= S (length ys))%nat).
  { destruct op; cbn [vec_step fst]; try lia.
    - rewrite v_ins_length. lia.
    - destruct (v_rem (ekey p) ys) as [ys' r] eqn:E. cbn [fst].
      destruct (v_rem_spec _ _ _ _ E) as [(x & l1 & l2 & _ & _ & -> & -> & _) | (_ & -> & _)]; [|lia].
      rewrite !app_length. cbn. lia. }
  split; [lia | apply IH; lia].
Qed.
