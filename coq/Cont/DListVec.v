(* DListVec - vector interface of dlinked_list.c: the pointer-level model refines EXACTLY the
   class-level sorted multiset cv_step (ContSpec's vec_step, except that insert places the new
   element where spif_dlinked_list_insert places it among equal keys: after an equal head, at the
   end when above the tail), and cv_step agrees with ContSpec's vec_step on every key-level
   result (ContSpec: vector results are compared by key, membership by identity). *)
From LV Require Import Cont.ContSpec Cont.ContKey Cont.ListProofs Cont.VecProofs
  Cont.DListModel Cont.DListStore Cont.DListOps Cont.DListPure Cont.DListProofs.
From Coq Require Import Sorting.Sorted Sorting.Permutation.
Local Open Scope Z_scope.

Definition cv_step (ys : vstate) (op : vop) : vstate * out :=
  match op with
  | VInsert e => (cls_ins ekey e ys, OBool true)
  | _ => vec_step ys op
  end.

Definition vop_pre (xs : vstate) (op : vop) : Prop := Z.of_nat (length (fst (vec_step xs op))) <= INT_MAX.

(* ---------------------------------------------------------------------------------------- *)
(* pure facts *)
Lemma rem_first_plain : forall k ys,
  rem_first k (map Some ys) = (map Some (fst (v_rem k ys)), snd (v_rem k ys)).
Proof.
  induction ys as [|y t IH]; cbn; auto. destruct (key_eqb k (ekey y)); cbn; auto.
  rewrite IH. destruct (v_rem k t); auto.
Qed.

Lemma v_find_above : forall k ys, Forall (fun y => key_lt k (ekey y)) ys -> v_find ys k = None.
Proof.
  induction 1; cbn; auto. unfold key_eqb. unfold key_lt in H. rewrite H. auto.
Qed.

Lemma ord_find_vfind : forall p ys, StronglySorted ele ys ->
  ord_find (vfind_act ecmp p) (map Some ys) = v_find ys (ekey p).
Proof.
  induction ys as [|y t IH]; intros Hs; cbn; auto. inversion Hs as [|? ? Hst Hall]; subst.
  unfold vfind_act at 1. cbn [ocmp]. unfold ecmp at 1, key_eqb.
  destruct (key_cmp (ekey p) (ekey y)) eqn:Ec; auto.
  symmetry. apply v_find_above. eapply Forall_impl; [|exact Hall].
  intros z Hz. eapply key_lt_le_trans; eauto.
Qed.

Lemma ss_keys : forall ys, StronglySorted ele ys <-> StronglySorted key_le (map ekey ys).
Proof.
  induction ys as [|y t IH]; cbn; split; intros H; try constructor; inversion H; subst.
  - apply IH; auto.
  - rewrite Forall_map. auto.
  - apply IH; auto.
  - rewrite Forall_map in *. auto.
Qed.

Lemma cls_ins_perm : forall e ys, Permutation (cls_ins ekey e ys) (e :: ys).
Proof.
  intros e [|h t]; cbn [cls_ins]; auto.
  destruct (key_ltb (ekey e) (ekey h)); auto.
  destruct (key_gtb (ekey e) (ekey (last (h :: t) h))).
  - apply Permutation_sym. apply Permutation_cons_append.
  - rewrite (split_at_app _ (ge_test ekey e) t) at 3.
    eapply perm_trans; [|apply perm_swap]. apply perm_skip. apply Permutation_sym. apply Permutation_middle.
Qed.

Lemma cv_step_sorted : forall ys xs op, StronglySorted ele ys -> map ekey ys = map ekey xs ->
  map ekey (fst (cv_step ys op)) = map ekey (fst (vec_step xs op)) /\
  out_key (snd (cv_step ys op)) = out_key (snd (vec_step xs op)).
Proof.
  intros ys xs op Hs Hk. destruct op; try (apply vec_step_keys; auto).
  cbn [cv_step vec_step fst snd]. split; auto.
  rewrite (cls_ins_keys elem ekey e ys Hs), <- v_ins_std. apply v_ins_keys; auto.
Qed.

(* ---------------------------------------------------------------------------------------- *)
(* one step *)
Lemma dl_vec_step_refines : forall (st : store elem) o ys op, Repr st o (map Some ys) ->
  StronglySorted ele ys -> (forall e, op = VInsert e -> Z.of_nat (length ys) < INT_MAX) ->
  exists st' o', dl_vec_step (st, o) op = Ok ((st', o'), snd (cv_step ys op)) /\
                 Repr st' o' (map Some (fst (cv_step ys op))).
Proof.
  intros st o ys op HR Hs Hb. pose proof (repr_len _ _ _ _ HR) as Hl. rewrite map_length in Hl.
  destruct op; cbn [dl_vec_step cv_step vec_step fst snd].
  - destruct HR as (cs & Hv & HI).
    specialize (Hb e eq_refl).
    destruct (dl_insert_inv _ ecmp st o cs (Some e) HI ltac:(lia)) as (st' & o' & E & HI').
    rewrite E. cbn. do 2 eexists. split; [reflexivity|]. eexists. split; [|exact HI'].
    apply (ins_cells_keyed elem ekey); auto.
  - destruct (step_remove st o _ HR p) as (st' & o' & E & HR'). rewrite rem_first_plain in E, HR'.
    rewrite E. cbn [bind fst snd] in *. destruct (v_rem (ekey p) ys). eauto.
  - unfold dl_vector_find. destruct HR as (cs & Hv & [Hsh Hlive]).
    rewrite (sh_head _ _ _ _ Hsh), (scan_ord_spec _ cs st None); auto using (sh_seg _ _ _ _ Hsh), (shape_fuel _ _ _ _ Hsh).
    rewrite Hv, ord_find_vfind by auto. cbn. do 2 eexists. split; [reflexivity|]. exists cs. split; auto. split; auto.
  - unfold dl_vector_contains, dl_vector_find. destruct HR as (cs & Hv & [Hsh Hlive]).
    rewrite (sh_head _ _ _ _ Hsh), (scan_ord_spec _ cs st None); auto using (sh_seg _ _ _ _ Hsh), (shape_fuel _ _ _ _ Hsh).
    rewrite Hv, ord_find_vfind by auto. cbn. do 2 eexists. split.
    + destruct (v_find ys (ekey p)); reflexivity.
    + exists cs. split; auto. split; auto.
  - rewrite Hl. eauto.
  - destruct HR as (cs & Hv & [Hsh Hlive]). rewrite (dl_iterate_spec _ st o cs Hsh). cbn [bind]. rewrite Hv.
    rewrite it_sweep_exact by lia. cbn [fst].
    do 2 eexists. split; [reflexivity|]. exists cs. split; auto. split; auto.
  - destruct HR as (cs & Hv & [Hsh Hlive]). rewrite (dl_to_array_spec _ st o cs Hsh). cbn. rewrite Hv.
    do 2 eexists. split; [reflexivity|]. exists cs. split; auto. split; auto.
Qed.

(* ---------------------------------------------------------------------------------------- *)
(* histories *)
Lemma dl_vec_run_refines : forall ops (st : store elem) o ys xs, Repr st o (map Some ys) ->
  StronglySorted ele ys -> map ekey ys = map ekey xs -> hist_pre vop_pre vec_step xs ops ->
  Z.of_nat (length xs) <= INT_MAX ->
  exists st' o', run_model dl_vec_step (st, o) ops = Ok ((st', o'), outs cv_step ys ops) /\
    Repr st' o' (map Some (final cv_step ys ops)) /\
    StronglySorted ele (final cv_step ys ops) /\
    map ekey (final cv_step ys ops) = map ekey (final vec_step xs ops) /\
    map out_key (outs cv_step ys ops) = map out_key (outs vec_step xs ops).
Proof.
  induction ops as [|op t IH]; intros st o ys xs HR Hs Hk Hpre Hb.
  - cbn. exists st, o. auto.
  - destruct Hpre as [Hp Hpre]. unfold vop_pre in Hp.
    assert (Hlen : length ys = length xs) by (rewrite <- (map_length ekey ys), Hk, map_length; auto).
    destruct (cv_step_sorted ys xs op Hs Hk) as [Hk' Ho'].
    assert (Hs' : StronglySorted ele (fst (cv_step ys op))).
    { apply ss_keys. rewrite Hk'. apply ss_keys. apply vec_step_sorted. apply ss_keys. rewrite <- Hk. apply ss_keys. auto. }
    assert (Hlt : forall e, op = VInsert e -> Z.of_nat (length ys) < INT_MAX).
    { intros e ->. cbn [vec_step fst] in Hp.
      rewrite v_ins_std, std_ins_split, app_length in Hp. cbn [length] in Hp.
      rewrite Hlen. rewrite (split_at_app _ (ge_test ekey e) xs) at 1. rewrite app_length. lia. }
    destruct (dl_vec_step_refines st o ys op HR Hs Hlt) as (st1 & o1 & E1 & HR1).
    destruct (IH st1 o1 _ _ HR1 Hs' Hk' Hpre Hp) as (st' & o' & E & HR' & Hs'' & Hk'' & Ho'').
    exists st', o'. cbn [run_model outs final fold_left]. rewrite E1. cbn [bind]. rewrite E. cbn [bind].
    split; [reflexivity|]. split; [exact HR'|]. split; [exact Hs''|]. split; [exact Hk''|].
    cbn [map]. rewrite Ho', Ho''. auto.
Qed.

Theorem dlinked_list_vector_refines : forall ops, hist_pre vop_pre vec_step [] ops ->
  exists st o, run_model dl_vec_step e_init ops = Ok ((st, o), outs cv_step [] ops) /\
    Repr st o (map Some (final cv_step [] ops)) /\
    StronglySorted ele (final cv_step [] ops) /\
    map ekey (final cv_step [] ops) = map ekey (final vec_step [] ops) /\
    map out_key (outs cv_step [] ops) = map out_key (outs vec_step [] ops).
Proof.
  intros ops Hpre. apply dl_vec_run_refines; auto.
  - apply repr_empty.
  - constructor.
  - cbn. unfold INT_MAX. lia.
Qed.

(* membership by identity: what the class stores plus what its remove handed back is exactly what
   was inserted *)
Fixpoint cv_handed (s : vstate) (ops : list vop) : list elem :=
  match ops with
  | [] => []
  | op :: t =>
    (match op, snd (cv_step s op) with
     | VRemove _, OElem (Some x) => [x]
     | _, _ => []
     end) ++ cv_handed (fst (cv_step s op)) t
  end.

Theorem cv_contents_gen : forall ops s,
  Permutation (final cv_step s ops ++ cv_handed s ops) (s ++ v_inserted ops).
Proof.
  induction ops as [|op t IH]; intros s.
  - cbn. apply Permutation_refl.
  - rewrite final_cons. cbn [cv_handed].
    destruct op; cbn [cv_step vec_step fst snd v_inserted app]; try (apply IH).
    + eapply perm_trans; [apply IH|].
      eapply perm_trans; [apply Permutation_app_tail; apply cls_ins_perm|].
      cbn. apply Permutation_middle.
    + destruct (v_rem (ekey p) s) as [s' r] eqn:R. cbn [fst snd].
      destruct r as [x|].
      * cbn [app]. eapply perm_trans; [apply Permutation_sym; apply Permutation_middle|].
        eapply perm_trans; [apply perm_skip; apply IH|].
        change (x :: s' ++ v_inserted t) with ((x :: s') ++ v_inserted t).
        apply Permutation_app_tail. apply Permutation_sym. eapply v_rem_perm; eauto.
      * apply v_rem_none in R. subst. apply IH.
Qed.

Theorem cv_contents : forall ops,
  Permutation (final cv_step [] ops ++ cv_handed [] ops) (v_inserted ops).
Proof. intros. apply (cv_contents_gen ops []). Qed.

Theorem cls_ins_placement : forall e ys, StronglySorted ele ys ->
  Permutation (cls_ins ekey e ys) (e :: ys) /\ map ekey (cls_ins ekey e ys) = map ekey (v_ins e ys).
Proof.
  intros e ys Hs. split; [exact (cls_ins_perm e ys)|].
  rewrite v_ins_std. exact (cls_ins_keys elem ekey e ys Hs).
Qed.
