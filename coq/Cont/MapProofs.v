(* Theorems about the ideal dictionary (map interface), for ALL histories. *)
From LV Require Import Cont.ContSpec Cont.ContKey.
From Coq Require Import Sorting.Sorted Sorting.Permutation.
Local Open Scope Z_scope.

(* one pair per key, keys strictly ascending *)
Definition msorted (m : mstate) : Prop := StronglySorted key_lt (map fst m).

Lemma key_cmp_gt_neq : forall a b, key_cmp a b = Gt -> key_eqb a b = false.
Proof. intros a b H. unfold key_eqb. rewrite H. reflexivity. Qed.
Lemma key_cmp_lt_neq : forall a b, key_cmp a b = Lt -> key_eqb a b = false.
Proof. intros a b H. unfold key_eqb. rewrite H. reflexivity. Qed.

Lemma m_get_below : forall m k, Forall (key_lt k) (map fst m) -> m_get m k = None.
Proof.
  induction m as [|[k0 v0] t IH]; intros k H; cbn in *; [reflexivity|].
  inversion H as [|x l Hk Ht]; subst. rewrite (key_cmp_lt_neq _ _ Hk). apply IH. exact Ht.
Qed.

(* --- set ------------------------------------------------------------------------------------ *)
Lemma m_set_get : forall m k v k',
  m_get (fst (m_set k v m)) k' = if key_eqb k' k then Some v else m_get m k'.
Proof.
  induction m as [|[k0 v0] t IH]; intros k v k'; cbn.
  - reflexivity.
  - destruct (key_cmp k k0) eqn:C.
    + apply key_cmp_eq in C. subst k0. cbn. destruct (key_eqb k' k); reflexivity.
    + cbn. reflexivity.
    + specialize (IH k v k'). destruct (m_set k v t) as [t' r]. cbn in *. rewrite IH.
      destruct (key_eqb k' k0) eqn:E0; [|reflexivity].
      destruct (key_eqb k' k) eqn:E; [|reflexivity].
      apply key_eqb_eq in E0. apply key_eqb_eq in E. subst. rewrite key_cmp_refl in C. discriminate.
Qed.

Lemma m_set_keys_forall : forall (P : key -> Prop) m k v,
  Forall P (map fst m) -> P k -> Forall P (map fst (fst (m_set k v m))).
Proof.
  induction m as [|[k0 v0] t IH]; intros k v H Hk; cbn.
  - constructor; auto.
  - inversion H as [|x l H0 Ht]; subst.
    destruct (key_cmp k k0) eqn:C; cbn.
    + constructor; auto.
    + constructor; auto.
    + specialize (IH k v Ht Hk). destruct (m_set k v t) as [t' r]. cbn in *. constructor; auto.
Qed.

Lemma m_set_sorted : forall m k v, msorted m -> msorted (fst (m_set k v m)).
Proof.
  unfold msorted. induction m as [|[k0 v0] t IH]; intros k v H; cbn.
  - constructor; constructor.
  - inversion H as [|x l Ht H0]; subst.
    destruct (key_cmp k k0) eqn:C; cbn.
    + constructor; auto.
    + constructor; [exact H|]. constructor; [exact C|].
      eapply Forall_impl; [|exact H0]. intros y Hy. eapply key_lt_trans; eauto.
    + specialize (IH k v Ht).
      assert (F := m_set_keys_forall (key_lt k0) t k v H0 (proj1 (key_cmp_gt_lt _ _) C)).
      destruct (m_set k v t) as [t' r]. cbn in *. constructor; auto.
Qed.

(* set reports whether it replaced an entry *)
Lemma m_set_reports : forall m k v, msorted m -> snd (m_set k v m) = is_some (m_get m k).
Proof.
  unfold msorted. induction m as [|[k0 v0] t IH]; intros k v H; cbn.
  - reflexivity.
  - inversion H as [|x l Ht H0]; subst.
    destruct (key_cmp k k0) eqn:C; cbn.
    + apply key_cmp_eq in C. subst. rewrite key_eqb_refl. reflexivity.
    + rewrite (key_cmp_lt_neq _ _ C). rewrite m_get_below; [reflexivity|].
      eapply Forall_impl; [|exact H0]. intros y Hy. eapply key_lt_trans; eauto.
    + rewrite (key_cmp_gt_neq _ _ C). specialize (IH k v Ht).
      destruct (m_set k v t) as [t' r]. cbn in *. exact IH.
Qed.

(* --- remove --------------------------------------------------------------------------------- *)
(* remove hands back the pair stored for the key (with the stored key text, which equals the probe) *)
Lemma m_remove_result : forall m k,
  snd (m_remove k m) = match m_get m k with Some v => Some (k, v) | None => None end.
Proof.
  induction m as [|[k0 v0] t IH]; intros k; cbn; [reflexivity|].
  destruct (key_eqb k k0) eqn:E; cbn.
  - apply key_eqb_eq in E. subst. reflexivity.
  - specialize (IH k). destruct (m_remove k t) as [t' r]. cbn in *. exact IH.
Qed.

Lemma m_remove_keys_forall : forall (P : key -> Prop) m k,
  Forall P (map fst m) -> Forall P (map fst (fst (m_remove k m))).
Proof.
  induction m as [|[k0 v0] t IH]; intros k H; cbn; [constructor|].
  inversion H as [|x l H0 Ht]; subst.
  destruct (key_eqb k k0); cbn; [exact Ht|].
  specialize (IH k Ht). destruct (m_remove k t) as [t' r]. cbn in *. constructor; auto.
Qed.

Lemma m_remove_sorted : forall m k, msorted m -> msorted (fst (m_remove k m)).
Proof.
  unfold msorted. induction m as [|[k0 v0] t IH]; intros k H; cbn; [constructor|].
  inversion H as [|x l Ht H0]; subst.
  destruct (key_eqb k k0); cbn; [exact Ht|].
  specialize (IH k Ht). assert (F := m_remove_keys_forall (key_lt k0) t k H0).
  destruct (m_remove k t) as [t' r]. cbn in *. constructor; auto.
Qed.

Lemma m_remove_get : forall m k k', msorted m ->
  m_get (fst (m_remove k m)) k' = if key_eqb k' k then None else m_get m k'.
Proof.
  unfold msorted. induction m as [|[k0 v0] t IH]; intros k k' H; cbn.
  - destruct (key_eqb k' k); reflexivity.
  - inversion H as [|x l Ht H0]; subst.
    destruct (key_eqb k k0) eqn:E; cbn.
    + apply key_eqb_eq in E. subst k0.
      destruct (key_eqb k' k) eqn:E'; [|reflexivity].
      apply key_eqb_eq in E'. subst. apply m_get_below. exact H0.
    + specialize (IH k k' Ht). destruct (m_remove k t) as [t' r]. cbn in *. rewrite IH.
      destruct (key_eqb k' k0) eqn:E0; [|reflexivity].
      destruct (key_eqb k' k) eqn:E'; [|reflexivity].
      apply key_eqb_eq in E0. apply key_eqb_eq in E'. subst. rewrite key_eqb_refl in E. discriminate.
Qed.

Lemma m_remove_absent : forall m k, m_get m k = None -> fst (m_remove k m) = m.
Proof.
  induction m as [|[k0 v0] t IH]; intros k H; cbn in *; [reflexivity|].
  destruct (key_eqb k k0); [discriminate|].
  specialize (IH k H). destruct (m_remove k t) as [t' r]. cbn in *. congruence.
Qed.

(* remove hands the pair back exactly once: a second remove of the same key finds nothing *)
Lemma m_remove_twice : forall m k, msorted m ->
  snd (m_remove k (fst (m_remove k m))) = None /\
  fst (m_remove k (fst (m_remove k m))) = fst (m_remove k m).
Proof.
  intros m k H.
  assert (G : m_get (fst (m_remove k m)) k = None) by (rewrite m_remove_get by exact H; rewrite key_eqb_refl; reflexivity).
  split; [rewrite m_remove_result, G; reflexivity | apply m_remove_absent; exact G].
Qed.

Lemma m_has_value_iff : forall m v, m_has_value m v = true <-> exists k, In (k, v) m.
Proof.
  intros m v. unfold m_has_value. rewrite existsb_exists. split.
  - intros ([k v'] & Hi & He). cbn in He. apply key_eqb_eq in He. subst. exists k. exact Hi.
  - intros (k & Hi). exists (k, v). split; [exact Hi | cbn; apply key_eqb_refl].
Qed.

(* --- all histories --------------------------------------------------------------------------- *)
Lemma map_step_sorted : forall m op, msorted m -> msorted (fst (map_step m op)).
Proof.
  intros m op H. destruct op; cbn; auto.
  - assert (S := m_set_sorted m k v H). destruct (m_set k v m). exact S.
  - assert (S := m_remove_sorted m k H). destruct (m_remove k m). exact S.
Qed.

Theorem map_sorted_all : forall ops, msorted (final map_step [] ops).
Proof. intros. apply final_invariant; [apply map_step_sorted | constructor]. Qed.

(* the dictionary as a function: a key maps to the value most recently set and not removed since *)
Definition dict := key -> option key.
Definition dict_step (f : dict) (op : mop) : dict :=
  match op with
  | MSet k v => fun k' => if key_eqb k' k then Some v else f k'
  | MRemove k => fun k' => if key_eqb k' k then None else f k'
  | _ => f
  end.
Definition dict_of (ops : list mop) : dict := fold_left dict_step ops (fun _ => None).

Lemma map_step_dict : forall m f op, msorted m -> (forall k, m_get m k = f k) ->
  forall k, m_get (fst (map_step m op)) k = dict_step f op k.
Proof.
  intros m f op Hs Hf k'. destruct op; cbn; auto.
  - assert (G := m_set_get m k v k'). destruct (m_set k v m). cbn in *. rewrite G, Hf. reflexivity.
  - assert (G := m_remove_get m k k' Hs). destruct (m_remove k m). cbn in *. rewrite G, Hf. reflexivity.
Qed.

Lemma map_lookup_dict_gen : forall ops m f, msorted m -> (forall k, m_get m k = f k) ->
  forall k, m_get (final map_step m ops) k = fold_left dict_step ops f k.
Proof.
  induction ops as [|op t IH]; intros m f Hs Hf k; cbn; [apply Hf|].
  apply IH; [apply map_step_sorted; exact Hs | apply map_step_dict; assumption].
Qed.

Theorem map_lookup_dict : forall ops k, m_get (final map_step [] ops) k = dict_of ops k.
Proof. intros. apply map_lookup_dict_gen; [constructor | reflexivity]. Qed.

(* every key-addressed result of every history is the ideal dictionary's *)
Definition dict_out (f : dict) (op : mop) : option out :=
  match op with
  | MSet k v => Some (OBool (is_some (f k)))
  | MGet k => Some (OText (f k))
  | MRemove k => Some (OPair (match f k with Some v => Some (k, v) | None => None end))
  | MHasKey k => Some (OBool (is_some (f k)))
  | MMutK _ | MMutV _ | MDelK | MDelV | MNewPair => Some OUnit
  | _ => None
  end.

Lemma map_step_out_dict : forall m f op o, msorted m -> (forall k, m_get m k = f k) ->
  dict_out f op = Some o -> snd (map_step m op) = o.
Proof.
  intros m f op o Hs Hf Ho. destruct op; cbn in *; inversion Ho; subst; try reflexivity.
  - assert (R := m_set_reports m k v Hs). destruct (m_set k v m). cbn in *. rewrite R, Hf. reflexivity.
  - rewrite Hf. reflexivity.
  - assert (R := m_remove_result m k). destruct (m_remove k m). cbn in *. rewrite R, Hf. reflexivity.
  - rewrite Hf. reflexivity.
Qed.

Lemma map_outs_dict_gen : forall ops m f i op o, msorted m -> (forall k, m_get m k = f k) ->
  nth_error ops i = Some op ->
  dict_out (fold_left dict_step (firstn i ops) f) op = Some o ->
  nth_error (outs map_step m ops) i = Some o.
Proof.
  induction ops as [|op0 t IH]; intros m f i op o Hs Hf Hn Ho; [destruct i; discriminate|].
  destruct i as [|i]; cbn in *.
  - inversion Hn; subst. f_equal. eapply map_step_out_dict; eauto.
  - eapply IH; [apply map_step_sorted; exact Hs | apply map_step_dict; eassumption | exact Hn | exact Ho].
Qed.

Theorem map_outs_dict : forall ops i op o,
  nth_error ops i = Some op -> dict_out (dict_of (firstn i ops)) op = Some o ->
  nth_error (outs map_step [] ops) i = Some o.
Proof.
  intros ops i op o Hn Ho.
  apply (map_outs_dict_gen ops [] (fun _ => None) i op o); [constructor | reflexivity | exact Hn | exact Ho].
Qed.

(* order: keys, values, pairs and iteration are one ascending sequence *)
Theorem map_order : forall ops, let m := final map_step [] ops in
  StronglySorted key_lt (map fst m) /\
  snd (map_step m MGetKeys) = OTexts (map fst m) /\
  snd (map_step m MGetValues) = OTexts (map snd m) /\
  snd (map_step m MGetPairs) = OPairs m /\
  snd (map_step m MIterate) = OPairs m /\
  snd (map_step m MCount) = OInt (Z.of_nat (length (map fst m))).
Proof.
  intros ops m. split; [apply map_sorted_all|]. unfold map_step. cbn [snd].
  rewrite it_sweep_exact by lia. rewrite map_length. cbn [fst]. repeat split; reflexivity.
Qed.

(* strictly ascending keys: no key occurs twice *)
Lemma msorted_nodup : forall m, msorted m -> NoDup (map fst m).
Proof.
  unfold msorted. intros m. induction (map fst m) as [|k l IH]; intros H; [constructor|].
  inversion H as [|x l' Hl Hk]; subst. constructor; [|auto].
  intro Hi. rewrite Forall_forall in Hk. apply (key_lt_irrefl k). apply Hk. exact Hi.
Qed.

Theorem map_keys_nodup : forall ops, NoDup (map fst (final map_step [] ops)).
Proof. intros. apply msorted_nodup. apply map_sorted_all. Qed.

(* the caller's objects are not the map's: operations on them change nothing *)
Definition is_caller_op (op : mop) : bool :=
  match op with MMutK _ | MMutV _ | MDelK | MDelV | MNewPair => true | _ => false end.

Theorem map_caller_ops_irrelevant : forall ops m,
  final map_step m (filter (fun op => negb (is_caller_op op)) ops) = final map_step m ops.
Proof.
  induction ops as [|op t IH]; intros m; [reflexivity|].
  cbn [filter]. destruct op; cbn [is_caller_op negb]; rewrite ?final_cons; cbn [map_step fst]; apply IH.
Qed.
