(* LListHeap - the store of LListModel.v: facts about upd / alloc / rd / wr, the list segment
   predicate `seg`, the representation predicates Rep / closed / Repr, and the generic "surgery"
   lemmas (a store that differs from a represented one in a described way represents the edited
   sequence).  Generic in the data type D. *)
From LV Require Import Cont.ContSpec Cont.ContKey Cont.LListModel.
Local Open Scope nat_scope.

Section Heap.
Variable D : Type.
Notation node := (node D).
Notation store := (store D).
Notation rd := (rd D).
Notation wr := (wr D).
Notation upd := (upd D).

(* ---- upd / nth_error --------------------------------------------------------------------- *)
Lemma upd_length : forall (s : store) i v, length (upd s i v) = length s.
Proof. induction s as [|x t IH]; intros [|i] v; cbn; auto. Qed.

Lemma nth_upd_eq : forall (s : store) i v, i < length s -> nth_error (upd s i v) i = Some v.
Proof.
  induction s as [|x t IH]; intros [|i] v H; cbn in *; try lia; auto. apply IH. lia.
Qed.

Lemma nth_upd_neq : forall (s : store) i j v, j <> i -> nth_error (upd s i v) j = nth_error s j.
Proof.
  induction s as [|x t IH]; intros [|i] [|j] v H; cbn; auto; try congruence.
Qed.

Lemma nth_some_lt : forall (s : store) i x, nth_error s i = Some x -> i < length s.
Proof. intros s i x H. apply nth_error_Some. congruence. Qed.

Lemma nth_upd_eq_live : forall (s : store) i v x, nth_error s i = Some x -> nth_error (upd s i v) i = Some v.
Proof. intros. apply nth_upd_eq. eapply nth_some_lt; eauto. Qed.

Lemma upd_upd : forall (s : store) i a b, upd (upd s i a) i b = upd s i b.
Proof. induction s as [|x t IH]; intros [|i] a b; cbn; auto. f_equal. apply IH. Qed.

Lemma nth_app_old : forall (s : store) v j, j <> length s -> nth_error (s ++ [v]) j = nth_error s j.
Proof.
  intros s v j H. destruct (Nat.lt_ge_cases j (length s)) as [L|L].
  - apply nth_error_app1. exact L.
  - rewrite (proj2 (nth_error_None s j)) by lia. apply nth_error_None. rewrite app_length. cbn. lia.
Qed.

Lemma nth_app_new : forall (s : store) v, nth_error (s ++ [v]) (length s) = Some v.
Proof. intros. rewrite nth_error_app2 by lia. rewrite Nat.sub_diag. reflexivity. Qed.

(* ---- rd / wr ----------------------------------------------------------------------------- *)
Lemma rd_ok : forall (s : store) i n, nth_error s i = Some (Some n) -> rd s (Some i) = Ok n.
Proof. intros s i n H. unfold LListModel.rd. rewrite H. reflexivity. Qed.

Lemma wr_ok : forall (s : store) i n0 n, nth_error s i = Some (Some n0) ->
  wr s (Some i) n = Ok (upd s i (Some n)).
Proof. intros s i n0 n H. unfold LListModel.wr. rewrite (rd_ok _ _ _ H). reflexivity. Qed.

Lemma set_next_ok : forall (s : store) i n y, nth_error s i = Some (Some n) ->
  set_next D s (Some i) y = Ok (upd s i (Some (mkNode (ndata n) y))).
Proof. intros s i n y H. unfold set_next. rewrite (rd_ok _ _ _ H). cbn. apply (wr_ok _ _ _ _ H). Qed.

Lemma set_data_ok : forall (s : store) i n d, nth_error s i = Some (Some n) ->
  set_data D s (Some i) d = Ok (upd s i (Some (mkNode d (nnext n)))).
Proof. intros s i n d H. unfold set_data. rewrite (rd_ok _ _ _ H). cbn. apply (wr_ok _ _ _ _ H). Qed.

Lemma item_free_ok : forall (s : store) i n, nth_error s i = Some (Some n) ->
  item_free D s (Some i) = Ok (upd s i None).
Proof. intros s i n H. unfold item_free. rewrite H. reflexivity. Qed.

Lemma item_del_ok : forall (s : store) i n, nth_error s i = Some (Some n) ->
  item_del D s (Some i) = Ok (upd s i None).
Proof.
  intros s i n H. unfold item_del. rewrite (wr_ok _ _ _ _ H). cbn [bind].
  erewrite item_free_ok by (eapply nth_upd_eq_live; eauto). rewrite upd_upd. reflexivity.
Qed.

(* ---- segments ---------------------------------------------------------------------------- *)
Definition hd_ptr (ids : list nat) (q : option nat) : option nat :=
  match ids with i :: _ => Some i | [] => q end.

(* the items ids (in this order) carry the data xs, each points to the next one, the last to q *)
Fixpoint seg (s : store) (ids : list nat) (xs : list (option D)) (q : option nat) : Prop :=
  match ids, xs with
  | [], [] => True
  | i :: ids', x :: xs' => nth_error s i = Some (Some (mkNode x (hd_ptr ids' q))) /\ seg s ids' xs' q
  | _, _ => False
  end.

Lemma seg_length : forall s ids xs q, seg s ids xs q -> length ids = length xs.
Proof.
  induction ids as [|i t IH]; intros [|x xs] q H; cbn in *; try tauto. f_equal. eapply IH. apply H.
Qed.

Lemma hd_ptr_app : forall a b q, hd_ptr (a ++ b) q = hd_ptr a (hd_ptr b q).
Proof. intros [|i a] b q; reflexivity. Qed.

Lemma seg_app : forall s a b xa xb q, length a = length xa ->
  (seg s (a ++ b) (xa ++ xb) q <-> seg s a xa (hd_ptr b q) /\ seg s b xb q).
Proof.
  induction a as [|i a IH]; intros b [|x xa] xb q L; cbn in L; try discriminate.
  - cbn. tauto.
  - cbn [app seg]. rewrite hd_ptr_app. rewrite (IH b xa xb q) by lia. tauto.
Qed.

Lemma seg_split : forall s a b xs q, seg s (a ++ b) xs q ->
  exists xa xb, xs = xa ++ xb /\ length xa = length a /\ seg s a xa (hd_ptr b q) /\ seg s b xb q.
Proof.
  intros s a b xs q H. pose proof (seg_length _ _ _ _ H) as L. rewrite app_length in L.
  exists (firstn (length a) xs), (skipn (length a) xs).
  assert (La : length (firstn (length a) xs) = length a) by (rewrite firstn_length; lia).
  rewrite <- (firstn_skipn (length a) xs) in H. apply seg_app in H; [|lia].
  rewrite firstn_skipn. tauto.
Qed.

Lemma seg_ext : forall s s' ids xs q, (forall i, In i ids -> nth_error s' i = nth_error s i) ->
  seg s ids xs q -> seg s' ids xs q.
Proof.
  induction ids as [|i t IH]; intros [|x xs] q E H; cbn in *; try tauto.
  destruct H as [H1 H2]. split.
  - rewrite E by auto. exact H1.
  - apply IH; auto.
Qed.

Lemma seg_in_node : forall s ids xs q i, seg s ids xs q -> In i ids -> exists n, nth_error s i = Some (Some n).
Proof.
  induction ids as [|j t IH]; intros [|x xs] q i H I; cbn in *; try tauto.
  destruct H as [H1 H2]. destruct I as [->|I]; eauto.
Qed.

Lemma seg_in_lt : forall s ids xs q i, seg s ids xs q -> In i ids -> i < length s.
Proof. intros. destruct (seg_in_node _ _ _ _ _ H H0) as [n Hn]. eapply nth_some_lt; eauto. Qed.

Lemma seg_upd_other : forall s ids xs q c v, ~ In c ids -> seg s ids xs q -> seg (upd s c v) ids xs q.
Proof. intros. eapply seg_ext; [|eassumption]. intros i Hi. apply nth_upd_neq. intro. subst. tauto. Qed.

Lemma seg_alloc : forall s ids xs q v, seg s ids xs q -> seg (s ++ [v]) ids xs q.
Proof.
  intros. eapply seg_ext; [|eassumption]. intros i Hi. apply nth_app_old.
  pose proof (seg_in_lt _ _ _ _ _ H Hi). lia.
Qed.


(* ---- representation ---------------------------------------------------------------------- *)
Definition Rep (s : store) (o : llist) (ids : list nat) (xs : list (option D)) : Prop :=
  ll_head o = hd_ptr ids None /\ seg s ids xs None /\ NoDup ids /\ ll_len o = Z.of_nat (length xs).

(* no live item outside the chain: nothing leaked, nothing dangling *)
Definition closed (s : store) (ids : list nat) : Prop :=
  forall i n, nth_error s i = Some (Some n) -> In i ids.

Definition Repr (s : store) (o : llist) (xs : list (option D)) : Prop :=
  exists ids, Rep s o ids xs /\ closed s ids.

Lemma Repr_unfold : forall s o xs,
  Repr s o xs <->
  exists ids, ll_head o = hd_ptr ids None /\ seg s ids xs None /\ NoDup ids /\
              ll_len o = Z.of_nat (length xs) /\
              (forall i n, nth_error s i = Some (Some n) -> In i ids).
Proof.
  intros s o xs. unfold Repr, Rep, closed. split.
  - intros (ids & (a & b & c & d) & e). exists ids. auto.
  - intros (ids & a & b & c & d & e). exists ids. auto.
Qed.

Lemma Repr_nil : Repr [] ll_new [].
Proof.
  exists []. split.
  - repeat split; cbn; auto. constructor.
  - intros [|i] n H; cbn in H; discriminate.
Qed.

Lemma ids_le_store : forall s ids xs q, seg s ids xs q -> NoDup ids -> length ids <= length s.
Proof.
  intros s ids xs q H N.
  assert (I : incl ids (seq 0 (length s))).
  { intros i Hi. apply in_seq. pose proof (seg_in_lt _ _ _ _ _ H Hi). lia. }
  pose proof (NoDup_incl_length N I) as L. rewrite seq_length in L. exact L.
Qed.

End Heap.

Arguments hd_ptr ids q : simpl nomatch.
