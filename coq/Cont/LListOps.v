(* LListOps - one lemma per loop and per operation of LListModel.v (generic in the data type):
   on a represented list (Repr s o xs: the head->next chain spells xs, len = length, no other live
   item) the operation returns Ok - never a Fault -, its result is the stated pure function of xs
   and the new store represents the stated new sequence. *)
From LV Require Import Cont.ContSpec Cont.ContKey Cont.LListModel Cont.LListHeap.
From Coq Require Import Sorting.Permutation.
Local Open Scope nat_scope.

Ltac rep_split := unfold LListHeap.Rep; split; [|split; [|split]].

Section Ops.
Variable D : Type.
Variable dkey : D -> key.
Notation node := (node D).
Notation store := (store D).
Notation seg := (seg D).
Notation Rep := (Rep D).
Notation closed := (closed D).
Notation Repr := (Repr D).

(* ---- primitives with abstract result stores ---------------------------------------------- *)
Definition same_but (s s' : store) (T : list nat) : Prop :=
  forall j, ~ In j T -> nth_error s' j = nth_error s j.

Lemma same_but_trans : forall s1 s2 s3 T1 T2 T, same_but s1 s2 T1 -> same_but s2 s3 T2 ->
  incl T1 T -> incl T2 T -> same_but s1 s3 T.
Proof.
  intros s1 s2 s3 T1 T2 T H1 H2 I1 I2 j Hj. rewrite H2, H1; auto.
Qed.

Lemma same_but_refl : forall s T, same_but s s T.
Proof. intros s T j _. reflexivity. Qed.

Lemma same_but_weaken : forall s s' T T', same_but s s' T -> incl T T' -> same_but s s' T'.
Proof. intros s s' T T' H I j Hj. apply H. auto. Qed.

Lemma item_new_ex : forall s : store, exists s' it,
  item_new D s = (s', Some it) /\ it = length s /\
  nth_error s' it = Some (Some (mkNode None None)) /\ same_but s s' [it] /\ length s' = S (length s).
Proof.
  intros s. exists (s ++ [Some (mkNode None None)]), (length s). repeat split.
  - apply nth_app_new.
  - intros j Hj. apply nth_app_old. cbn in Hj. intuition.
  - rewrite app_length. cbn. lia.
Qed.

Lemma set_next_ex : forall (s : store) i n y, nth_error s i = Some (Some n) -> exists s',
  set_next D s (Some i) y = Ok s' /\ nth_error s' i = Some (Some (mkNode (ndata n) y)) /\
  same_but s s' [i] /\ length s' = length s.
Proof.
  intros s i n y H. eexists. split; [apply (set_next_ok D _ _ _ _ H)|]. repeat split.
  - eapply nth_upd_eq_live; eauto.
  - intros j Hj. apply nth_upd_neq. cbn in Hj. intuition.
  - apply upd_length.
Qed.

Lemma set_data_ex : forall (s : store) i n d, nth_error s i = Some (Some n) -> exists s',
  set_data D s (Some i) d = Ok s' /\ nth_error s' i = Some (Some (mkNode d (nnext n))) /\
  same_but s s' [i] /\ length s' = length s.
Proof.
  intros s i n d H. eexists. split; [apply (set_data_ok D _ _ _ _ H)|]. repeat split.
  - eapply nth_upd_eq_live; eauto.
  - intros j Hj. apply nth_upd_neq. cbn in Hj. intuition.
  - apply upd_length.
Qed.

Lemma item_del_ex : forall (s : store) i n, nth_error s i = Some (Some n) -> exists s',
  item_del D s (Some i) = Ok s' /\ nth_error s' i = Some None /\ same_but s s' [i] /\ length s' = length s.
Proof.
  intros s i n H. eexists. split; [apply (item_del_ok D _ _ _ H)|]. repeat split.
  - eapply nth_upd_eq_live; eauto.
  - intros j Hj. apply nth_upd_neq. cbn in Hj. intuition.
  - apply upd_length.
Qed.

(* a fresh item carrying d: item_new + item_set_data *)
Lemma fresh_item_ex : forall (s : store) d, exists s1 s2 it,
  item_new D s = (s1, Some it) /\ item_set_data D s1 (Some it) d = Ok s2 /\ it = length s /\
  nth_error s2 it = Some (Some (mkNode (Some d) None)) /\ same_but s s2 [it] /\ length s2 = S (length s).
Proof.
  intros s d. destruct (item_new_ex s) as (s1 & it & E & Hit & N1 & S1 & L1).
  destruct (set_data_ex s1 it _ (Some d) N1) as (s2 & E2 & N2 & S2 & L2).
  exists s1, s2, it. repeat split; auto.
  - eapply same_but_trans; eauto; apply incl_refl.
  - lia.
Qed.

(* ---- moving facts across stores ---------------------------------------------------------- *)
Lemma seg_same_but : forall s s' T ids xs q, same_but s s' T -> (forall i, In i ids -> ~ In i T) ->
  seg s ids xs q -> seg s' ids xs q.
Proof. intros s s' T ids xs q H N G. eapply seg_ext; [|exact G]. intros i Hi. apply H. auto. Qed.

Lemma fresh_not_in : forall s ids xs q, seg s ids xs q -> ~ In (length s) ids.
Proof. intros s ids xs q H I. pose proof (seg_in_lt D _ _ _ _ _ H I). lia. Qed.

Lemma seg_mid : forall s pre c post xs q, seg s (pre ++ c :: post) xs q ->
  exists xpre xc xpost, xs = xpre ++ xc :: xpost /\ length xpre = length pre /\
    nth_error s c = Some (Some (mkNode xc (hd_ptr post q))) /\
    seg s pre xpre (Some c) /\ seg s post xpost q.
Proof.
  intros s pre c post xs q H. destruct (seg_split D _ _ _ _ _ H) as (xa & xb & E & L & Ha & Hb).
  destruct xb as [|xc xpost]; [cbn in Hb; tauto|]. cbn in Hb. destruct Hb as [Hc Hp].
  exists xa, xc, xpost. cbn in Ha. auto.
Qed.

Lemma NoDup_mid : forall (pre : list nat) c post, NoDup (pre ++ c :: post) ->
  ~ In c pre /\ ~ In c post /\ NoDup pre /\ NoDup post /\ (forall j, In j pre -> ~ In j post).
Proof.
  intros pre c post N. pose proof (NoDup_remove_2 _ _ _ N) as H1. pose proof (NoDup_remove_1 _ _ _ N) as H2.
  rewrite in_app_iff in H1. repeat split; try tauto.
  - eapply NoDup_app_l; eauto.
  - clear - H2. induction pre; cbn in *; auto. inversion H2; auto.
  - intros j Hp Hq. clear - H2 Hp Hq. induction pre as [|a pre IH]; cbn in *; [tauto|].
    inversion H2 as [|? ? Hn Hr]; subst. destruct Hp as [->|Hp]; [apply Hn; apply in_or_app; auto|auto].
Qed.

(* the general closure step: T = the touched items *)
Lemma closed_step : forall s s' ids ids' T, closed s ids -> same_but s s' T ->
  (forall j n, In j T -> nth_error s' j = Some (Some n) -> In j ids') ->
  (forall j, In j ids -> ~ In j T -> In j ids') -> closed s' ids'.
Proof.
  intros s s' ids ids' T C S HT HI j n Hj.
  destruct (in_dec Nat.eq_dec j T) as [I|I]; [eauto|].
  apply HI; [|exact I]. rewrite S in Hj by exact I. eapply C; eauto.
Qed.

(* ---- insertion behind an item (append, insert, insert_at, the padding of insert_at) ----------- *)
Lemma splice_after : forall s s' pre c post xpre xc xpost it x,
  seg s (pre ++ c :: post) (xpre ++ xc :: xpost) None -> length pre = length xpre ->
  NoDup (pre ++ c :: post) -> ~ In it (pre ++ c :: post) ->
  nth_error s' it = Some (Some (mkNode x (hd_ptr post None))) ->
  nth_error s' c = Some (Some (mkNode xc (Some it))) ->
  same_but s s' [it; c] ->
  seg s' (pre ++ c :: it :: post) (xpre ++ xc :: x :: xpost) None /\ NoDup (pre ++ c :: it :: post).
Proof.
  intros s s' pre c post xpre xc xpost it x G L N NI Hit Hc S.
  apply seg_app in G; [|exact L]. destruct G as [Gpre Gc]. cbn in Gc. destruct Gc as [_ Gpost].
  destruct (NoDup_mid _ _ _ N) as (N1 & N2 & N3 & N4 & N5).
  rewrite in_app_iff in NI. cbn in NI.
  split.
  - apply seg_app; [exact L|]. split.
    + eapply seg_same_but; [exact S| |exact Gpre]. intros i Hi [<-|[<-|[]]]; tauto.
    + cbn. split; [exact Hc|]. split; [exact Hit|].
      eapply seg_same_but; [exact S| |exact Gpost]. intros i Hi [<-|[<-|[]]]; tauto.
  - apply NoDup_remove_1 in N as N'.
    assert (NoDup (pre ++ it :: post)).
    { clear - N' NI. induction pre as [|a pre IH]; cbn in *.
      - constructor; tauto.
      - inversion N'; subst. constructor.
        + rewrite in_app_iff in *. cbn. intuition.
        + apply IH; auto. intuition. }
    clear - H N NI N1 N2. induction pre as [|a pre IH]; cbn in *.
    + constructor; [cbn; intuition|exact H].
    + inversion H; subst. inversion N; subst. constructor.
      * rewrite in_app_iff in *. cbn in *. intuition.
      * apply IH; auto; intuition.
Qed.

(* ---- walk to the last item --------------------------------------------------------------- *)
Lemma walk_last_ok : forall m l xs s fuel, seg s (m ++ [l]) xs None -> length m < fuel ->
  walk_last D fuel s (hd_ptr (m ++ [l]) None) = Ok (Some l).
Proof.
  induction m as [|c m IH]; intros l xs s fuel G F; (destruct fuel as [|f]; [lia|]).
  - destruct xs as [|x [|? ?]]; cbn in G; try tauto. destruct G as [G _].
    cbn [app hd_ptr walk_last]. rewrite (rd_ok D _ _ _ G). reflexivity.
  - destruct xs as [|x xs]; [cbn in G; tauto|]. cbn [app LListHeap.seg] in G. destruct G as [G1 G2].
    cbn [app hd_ptr walk_last]. rewrite (rd_ok D _ _ _ G1). cbn [bind nnext].
    destruct (m ++ [l]) as [|p r] eqn:E; [destruct m; discriminate|].
    cbn [hd_ptr]. rewrite <- E in *. specialize (IH l xs s f G2). rewrite E in IH. cbn [hd_ptr] in IH.
    apply IH. cbn in F. lia.
Qed.

(* ---- prepend / append ---------------------------------------------------------------------- *)
Lemma ll_prepend_ok : forall s o xs d, Repr s o xs ->
  exists s' o', ll_prepend D s o d = Ok (s', o', true) /\ Repr s' o' (Some d :: xs).
Proof.
  intros s o xs d (ids & (Hh & G & N & L) & C).
  unfold ll_prepend.
  destruct (fresh_item_ex s d) as (s1 & s2 & it & E1 & E2 & Hit & N2 & S2 & L2).
  rewrite E1, E2. cbn [bind].
  destruct (set_next_ex s2 it _ (ll_head o) N2) as (s3 & E3 & N3 & S3 & L3).
  rewrite E3. cbn [bind ll_len ll_head].
  eexists _, _. split; [reflexivity|].
  assert (S13 : same_but s s3 [it]) by (eapply same_but_trans; eauto; apply incl_refl).
  assert (NI : ~ In it ids) by (subst it; eapply fresh_not_in; eauto).
  exists (it :: ids). split.
  - rep_split; cbn [ll_head ll_len hd_ptr].
    + reflexivity.
    + cbn [LListHeap.seg]. split.
      * rewrite N3. cbn [ndata]. rewrite Hh. reflexivity.
      * eapply seg_same_but; [exact S13| |exact G]. intros i Hi [<-|[]]. tauto.
    + constructor; assumption.
    + cbn [length]. lia.
  - eapply closed_step; [exact C|exact S13| |].
    + intros j n [<-|[]] _. left. reflexivity.
    + intros j Hj _. right. exact Hj.
Qed.

Lemma ll_append_ok : forall s o xs d, Repr s o xs ->
  exists s' o', ll_append D s o d = Ok (s', o', true) /\ Repr s' o' (xs ++ [Some d]).
Proof.
  intros s o xs d (ids & (Hh & G & N & L) & C).
  unfold ll_append.
  destruct (fresh_item_ex s d) as (s1 & s2 & it & E1 & E2 & Hit & N2 & S2 & L2).
  rewrite E1, E2. cbn [bind].
  assert (NI : ~ In it ids) by (subst it; eapply fresh_not_in; eauto).
  assert (G2 : seg s2 ids xs None).
  { eapply seg_same_but; [exact S2| |exact G]. intros i Hi [<-|[]]. tauto. }
  destruct ids as [|i0 ids0] using rev_ind.
  - (* empty list *)
    cbn in Hh. rewrite Hh. destruct xs; [|cbn in G; tauto].
    eexists _, _. split; [reflexivity|]. exists [it]. split.
    + rep_split; cbn [ll_head ll_len hd_ptr].
      * reflexivity.
      * cbn. auto.
      * constructor; [tauto|constructor].
      * cbn in *. lia.
    + eapply closed_step; [exact C|exact S2| |].
      * intros j n [<-|[]] _. left. reflexivity.
      * intros j [].
  - clear IHids0. rename i0 into l, ids0 into m.
    assert (Hhd : exists h, ll_head o = Some h).
    { rewrite Hh. destruct m; cbn; eauto. }
    destruct Hhd as [h Hhd]. rewrite Hhd. rewrite <- Hhd, Hh.
    rewrite (walk_last_ok m l xs s2 (fuel_of D s2) G2).
    2:{ unfold fuel_of. pose proof (ids_le_store D _ _ _ _ G2 N) as Q. rewrite app_length in Q. cbn in Q. lia. }
    cbn [bind].
    destruct (seg_mid _ _ _ _ _ _ G) as (xpre & xc & xpost & Ex & Lx & Nl & Gpre & Gpost).
    destruct xpost; [|cbn in Gpost; tauto]. cbn [hd_ptr] in Nl.
    assert (Nl2 : nth_error s2 l = Some (Some (mkNode xc None))).
    { rewrite S2; [exact Nl|]. intros [<-|[]]. apply NI. apply in_or_app. right. left. reflexivity. }
    destruct (set_next_ex s2 l _ (Some it) Nl2) as (s3 & E3 & N3 & S3 & L3).
    rewrite E3. cbn [bind].
    eexists _, _. split; [reflexivity|].
    assert (S13 : same_but s s3 [it; l]).
    { eapply same_but_trans; eauto; intros j [<-|[]]; cbn; auto. }
    assert (NIl : it <> l) by (intros ->; apply NI; apply in_or_app; right; left; reflexivity).
    subst xs. rewrite Hh in *.
    destruct (splice_after s s3 m l [] xpre xc [] it (Some d)) as [G3 N3'].
    + exact G.
    + auto.
    + exact N.
    + exact NI.
    + rewrite S3; [exact N2|]. intros [E|[]]. congruence.
    + exact N3.
    + exact S13.
    + exists (m ++ [l; it]). split.
      * rep_split; cbn [ll_head ll_len].
        -- destruct m; reflexivity.
        -- rewrite <- app_assoc. exact G3.
        -- exact N3'.
        -- rewrite !app_length in *. cbn [length] in *. lia.
      * eapply closed_step; [exact C|exact S13| |].
        -- intros j n [<-|[<-|[]]] _; apply in_or_app; right; cbn; auto.
        -- intros j Hj _. apply in_app_or in Hj. apply in_or_app. destruct Hj as [Hj|[<-|[]]]; [left; exact Hj|right; left; reflexivity].
Qed.

(* ---- ordered insert ------------------------------------------------------------------------ *)
(* what spif_linked_list_insert computes on sequences: before a greater head; otherwise behind the
   head, in front of the first later element that is not below the new one *)
Definition g_gt (d : D) (x : option D) : bool :=
  match x with None => true | Some y => key_gtb (dkey d) (dkey y) end.
Definition g_lt (d : D) (x : option D) : bool :=
  match x with None => false | Some y => key_ltb (dkey d) (dkey y) end.
Fixpoint g_ins_tail (d : D) (t : list (option D)) : list (option D) :=
  match t with
  | [] => [Some d]
  | x :: t' => if g_gt d x then x :: g_ins_tail d t' else Some d :: t
  end.
Definition g_ins (d : D) (xs : list (option D)) : list (option D) :=
  match xs with
  | [] => [Some d]
  | h :: t => if g_lt d h then Some d :: xs else h :: g_ins_tail d t
  end.

Lemma item_comp_ok : forall (s : store) it p d nx x np,
  nth_error s it = Some (Some (mkNode (Some d) nx)) -> nth_error s p = Some (Some (mkNode x np)) ->
  item_comp D dkey s (Some it) (Some p) =
  Ok (match x with None => Gt | Some y => key_cmp (dkey d) (dkey y) end).
Proof.
  intros s it p d nx x np H1 H2. unfold item_comp. rewrite (rd_ok D _ _ _ H1), (rd_ok D _ _ _ H2).
  cbn. destruct x; reflexivity.
Qed.

Lemma insert_loop_ok : forall post c xc xpost s fuel it d nx,
  seg s (c :: post) (xc :: xpost) None ->
  nth_error s it = Some (Some (mkNode (Some d) nx)) -> length post < fuel ->
  exists m cur p2 xm xcur x2,
    c :: post = m ++ cur :: p2 /\ xc :: xpost = xm ++ xcur :: x2 /\ length m = length xm /\
    insert_loop D dkey fuel s (Some it) (Some c) = Ok (Some cur) /\
    xc :: g_ins_tail d xpost = xm ++ xcur :: Some d :: x2.
Proof.
  induction post as [|p post IH]; intros c xc xpost s fuel it d nx G Hit F; (destruct fuel as [|f]; [cbn in F; lia|]).
  - destruct xpost; [|cbn in G; tauto]. cbn in G. destruct G as [G _].
    exists [], c, [], [], xc, []. cbn [app length insert_loop]. rewrite (rd_ok D _ _ _ G). cbn. auto.
  - destruct xpost as [|xp xpost]; [cbn in G; tauto|]. cbn [LListHeap.seg] in G. destruct G as [G1 G2].
    cbn [insert_loop]. rewrite (rd_ok D _ _ _ G1). cbn [bind nnext hd_ptr].
    pose proof G2 as G2'. cbn [LListHeap.seg] in G2'. destruct G2' as [Gp _].
    rewrite (item_comp_ok _ _ _ _ _ _ _ Hit Gp). cbn [bind g_ins_tail].
    assert (Egt : cmp_gt (match xp with None => Gt | Some y => key_cmp (dkey d) (dkey y) end) = g_gt d xp).
    { destruct xp; cbn; [unfold key_gtb|]; reflexivity. }
    rewrite Egt. destruct (g_gt d xp).
    + destruct (IH p xp xpost s f it d nx G2 Hit) as (m & cur & p2 & xm & xcur & x2 & E1 & E2 & E3 & E4 & E5).
      { cbn in F. lia. }
      exists (c :: m), cur, p2, (xc :: xm), xcur, x2. cbn [app length]. rewrite E1, E2, E5, E3. auto.
    + exists [], c, (p :: post), [], xc, (xp :: xpost). cbn. auto.
Qed.

Lemma ll_insert_ok : forall s o xs d, Repr s o xs ->
  exists s' o', ll_insert D dkey s o d = Ok (s', o', true) /\ Repr s' o' (g_ins d xs).
Proof.
  intros s o xs d (ids & (Hh & G & N & L) & C).
  unfold ll_insert.
  destruct (fresh_item_ex s d) as (s1 & s2 & it & E1 & E2 & Hit & N2 & S2 & L2).
  rewrite E1, E2. cbn [bind].
  assert (NI : ~ In it ids) by (subst it; eapply fresh_not_in; eauto).
  assert (G2 : seg s2 ids xs None).
  { eapply seg_same_but; [exact S2| |exact G]. intros i Hi [<-|[]]. tauto. }
  destruct ids as [|h rest].
  - cbn in Hh. rewrite Hh. destruct xs; [|cbn in G; tauto].
    eexists _, _. split; [reflexivity|]. exists [it]. split.
    + rep_split; cbn [ll_head ll_len hd_ptr].
      * reflexivity.
      * cbn. auto.
      * constructor; [tauto|constructor].
      * cbn in *. lia.
    + eapply closed_step; [exact C|exact S2| |].
      * intros j n [<-|[]] _. left. reflexivity.
      * intros j [].
  - destruct xs as [|xh xrest]; [cbn in G; tauto|].
    cbn [hd_ptr] in Hh. rewrite Hh.
    pose proof G2 as G2'. cbn [LListHeap.seg] in G2'. destruct G2' as [Gh2 _].
    rewrite (item_comp_ok _ _ _ _ _ _ _ N2 Gh2). cbn [bind g_ins].
    assert (Elt : cmp_lt (match xh with None => Gt | Some y => key_cmp (dkey d) (dkey y) end) = g_lt d xh).
    { destruct xh; cbn; [unfold key_ltb|]; reflexivity. }
    rewrite Elt. destruct (g_lt d xh).
    + (* in front of the head *)
      destruct (set_next_ex s2 it _ (Some h) N2) as (s3 & E3 & N3 & S3 & L3).
      rewrite E3. cbn [bind].
      eexists _, _. split; [reflexivity|].
      assert (S13 : same_but s s3 [it]) by (eapply same_but_trans; eauto; apply incl_refl).
      exists (it :: h :: rest). split.
      * rep_split; cbn [ll_head ll_len hd_ptr].
        -- reflexivity.
        -- change (seg s3 (it :: h :: rest) (Some d :: xh :: xrest) None) with
             (nth_error s3 it = Some (Some (mkNode (Some d) (Some h))) /\ seg s3 (h :: rest) (xh :: xrest) None).
           split; [exact N3|]. eapply seg_same_but; [exact S13| |exact G]. intros i Hi [<-|[]]. tauto.
        -- constructor; assumption.
        -- cbn [length] in *. lia.
      * eapply closed_step; [exact C|exact S13| |].
        -- intros j n [<-|[]] _. left. reflexivity.
        -- intros j Hj _. right. exact Hj.
    + (* behind the head *)
      destruct (insert_loop_ok rest h xh xrest s2 (fuel_of D s2) it d None G2 N2)
        as (m & cur & p2 & xm & xcur & x2 & Ei & Ex & Lm & El & Es).
      { unfold fuel_of. pose proof (ids_le_store D _ _ _ _ G2 N) as Q. cbn in Q. lia. }
      rewrite El. cbn [bind].
      rewrite Ei in *. rewrite Ex in *.
      destruct (seg_mid _ _ _ _ _ _ G2) as (xpre & xc & xpost & Ex' & Lx & Nc & _ & _).
      rewrite (rd_ok D _ _ _ Nc). cbn [bind nnext].
      destruct (set_next_ex s2 it _ (hd_ptr p2 None) N2) as (s3 & E3 & N3 & S3 & L3).
      rewrite E3. cbn [bind].
      assert (NIc : cur <> it) by (intros ->; apply NI; apply in_or_app; right; left; reflexivity).
      assert (Nc3 : nth_error s3 cur = Some (Some (mkNode xc (hd_ptr p2 None)))).
      { rewrite S3; [exact Nc|]. intros [Q|[]]. congruence. }
      destruct (set_next_ex s3 cur _ (Some it) Nc3) as (s4 & E4 & N4 & S4 & L4).
      rewrite E4. cbn [bind].
      eexists _, _. split; [reflexivity|].
      assert (Exc : xpre = xm /\ xc = xcur /\ xpost = x2).
      { assert (Q : xpre ++ xc :: xpost = xm ++ xcur :: x2) by congruence.
        assert (Lq : length xpre = length xm) by congruence.
        clear - Q Lq. revert xm Q Lq. induction xpre as [|a xpre IH]; intros [|b xm] Q Lq; cbn in *; try discriminate.
        - inversion Q. auto.
        - inversion Q. subst. destruct (IH xm) as (A & B & C'); auto. subst. auto. }
      destruct Exc as (-> & -> & ->).
      assert (S14 : same_but s s4 [it; cur]).
      { eapply same_but_trans; [exact S2| |intros j [<-|[]]; cbn; auto|apply incl_refl].
        eapply same_but_trans; [exact S3|exact S4| |]; intros j [<-|[]]; cbn; auto. }
      destruct (splice_after s s4 m cur p2 xm xcur x2 it (Some d)) as [G4 N4'].
      * exact G.
      * exact Lm.
      * exact N.
      * exact NI.
      * rewrite S4; [exact N3|]. intros [Q|[]]. congruence.
      * exact N4.
      * exact S14.
      * exists (m ++ cur :: it :: p2). split.
        -- rep_split; cbn [ll_head ll_len].
           ++ destruct m; cbn in Ei |- *; congruence.
           ++ rewrite Es. exact G4.
           ++ exact N4'.
           ++ rewrite Es. rewrite !app_length in *. cbn [length] in *. lia.
        -- eapply closed_step; [exact C|exact S14| |].
           ++ intros j n [<-|[<-|[]]] _; apply in_or_app; right; cbn; auto.
           ++ intros j Hj _. apply in_app_or in Hj. apply in_or_app. destruct Hj as [Hj|[<-|Hj]]; cbn; auto.
Qed.

(* ---- insert_at ----------------------------------------------------------------------------- *)
(* position n of the result holds d; shorter sequences are padded with NULL placeholders *)
Definition g_ins_at (n : nat) (d : D) (xs : list (option D)) : list (option D) :=
  firstn n xs ++ repeat None (n - length xs) ++ Some d :: skipn n xs.

Lemma at_walk_ok : forall post c xs s fuel i idx, seg s (c :: post) xs None -> length post < fuel -> (i <= idx)%Z ->
  exists m cur p2, c :: post = m ++ cur :: p2 /\
    at_walk D fuel s (Some c) i idx = Ok (Some cur, (i + Z.of_nat (length m))%Z) /\
    (i + Z.of_nat (length m) <= idx)%Z /\ (p2 = [] \/ (i + Z.of_nat (length m))%Z = idx).
Proof.
  induction post as [|p post IH]; intros c xs s fuel i idx G F Hi; (destruct fuel as [|f]; [cbn in F; lia|]);
    (destruct xs as [|xc xs]; [cbn in G; tauto|]); cbn [LListHeap.seg] in G; destruct G as [G1 G2].
  - exists [], c, []. cbn [app length at_walk]. rewrite (rd_ok D _ _ _ G1). cbn.
    rewrite Z.add_0_r. repeat split; auto.
  - cbn [at_walk]. rewrite (rd_ok D _ _ _ G1). cbn [bind nnext hd_ptr].
    destruct (i <? idx)%Z eqn:Q.
    + apply Z.ltb_lt in Q.
      destruct (IH p xs s f (i + 1)%Z idx G2) as (m & cur & p2 & E1 & E2 & E3 & E4); [cbn in F; lia|lia|].
      exists (c :: m), cur, p2. cbn [app length]. rewrite E1, E2.
      replace (i + 1 + Z.of_nat (length m))%Z with (i + Z.of_nat (S (length m)))%Z in * by lia. auto.
    + apply Z.ltb_ge in Q. exists [], c, (p :: post). cbn [app length]. rewrite Z.add_0_r.
      repeat split; auto. right. lia.
Qed.

Lemma link_after_ok : forall s o m cur p2 xm xc x2 d,
  Rep s o (m ++ cur :: p2) (xm ++ xc :: x2) -> length m = length xm -> closed s (m ++ cur :: p2) ->
  exists s' o', link_after D s o (Some cur) d = Ok (s', o', true) /\ Repr s' o' (xm ++ xc :: Some d :: x2).
Proof.
  intros s o m cur p2 xm xc x2 d (Hh & G & N & L) Lm C.
  unfold link_after.
  destruct (fresh_item_ex s d) as (s1 & s2 & it & E1 & E2 & Hit & N2 & S2 & L2).
  rewrite E1, E2. cbn [bind].
  assert (NI : ~ In it (m ++ cur :: p2)) by (subst it; eapply fresh_not_in; eauto).
  assert (NIc : cur <> it) by (intros ->; apply NI; apply in_or_app; right; left; reflexivity).
  destruct (seg_mid _ _ _ _ _ _ G) as (xpre & xc' & xpost & Ex' & Lx & Nc & _ & _).
  assert (Exc : xpre = xm /\ xc' = xc /\ xpost = x2).
  { assert (Lq : length xpre = length xm) by congruence.
    clear - Ex' Lq. revert xm Ex' Lq. induction xpre as [|a xpre IH]; intros [|b xm] Q Lq; cbn in *; try discriminate.
    - inversion Q. auto.
    - inversion Q. subst. destruct (IH xm) as (A & B & C'); auto. subst. auto. }
  destruct Exc as (-> & -> & ->). clear Ex'.
  assert (Nc2 : nth_error s2 cur = Some (Some (mkNode xc (hd_ptr p2 None)))).
  { rewrite S2; [exact Nc|]. intros [Q|[]]. congruence. }
  rewrite (rd_ok D _ _ _ Nc2). cbn [bind nnext].
  destruct (set_next_ex s2 it _ (hd_ptr p2 None) N2) as (s3 & E3 & N3 & S3 & L3).
  rewrite E3. cbn [bind].
  assert (Nc3 : nth_error s3 cur = Some (Some (mkNode xc (hd_ptr p2 None)))).
  { rewrite S3; [exact Nc2|]. intros [Q|[]]. congruence. }
  destruct (set_next_ex s3 cur _ (Some it) Nc3) as (s4 & E4 & N4 & S4 & L4).
  rewrite E4. cbn [bind].
  eexists _, _. split; [reflexivity|].
  assert (S14 : same_but s s4 [it; cur]).
  { eapply same_but_trans; [exact S2| |intros j [<-|[]]; cbn; auto|apply incl_refl].
    eapply same_but_trans; [exact S3|exact S4| |]; intros j [<-|[]]; cbn; auto. }
  destruct (splice_after s s4 m cur p2 xm xc x2 it (Some d)) as [G4 N4']; auto.
  - rewrite S4; [exact N3|]. intros [Q|[]]. congruence.
  - exists (m ++ cur :: it :: p2). split.
    + rep_split; cbn [ll_head ll_len].
      * rewrite Hh. destruct m; reflexivity.
      * exact G4.
      * exact N4'.
      * rewrite !app_length in *. cbn [length] in *. lia.
    + eapply closed_step; [exact C|exact S14| |].
      * intros j n [<-|[<-|[]]] _; apply in_or_app; right; cbn; auto.
      * intros j Hj _. apply in_app_or in Hj. apply in_or_app. destruct Hj as [Hj|[<-|Hj]]; cbn; auto.
Qed.

Lemma pad_loop_ok : forall k s o m cur xs, Rep s o (m ++ [cur]) xs -> closed s (m ++ [cur]) ->
  exists s' o' m' cur', pad_loop D k s o (Some cur) = Ok (s', o', Some cur') /\
    Rep s' o' (m' ++ [cur']) (xs ++ repeat None k) /\ closed s' (m' ++ [cur']).
Proof.
  induction k as [|k IH]; intros s o m cur xs R C.
  - exists s, o, m, cur. cbn [pad_loop repeat]. rewrite app_nil_r. auto.
  - destruct R as (Hh & G & N & L).
    cbn [pad_loop].
    destruct (item_new_ex s) as (s1 & it & E1 & Hit & N1 & S1 & L1). rewrite E1.
    assert (NI : ~ In it (m ++ [cur])) by (subst it; eapply fresh_not_in; eauto).
    assert (NIc : cur <> it) by (intros ->; apply NI; apply in_or_app; right; left; reflexivity).
    destruct (seg_mid _ _ _ _ _ _ G) as (xm & xc & xpost & Ex & Lx & Nc & _ & Gp).
    destruct xpost; [|cbn in Gp; tauto]. cbn [hd_ptr] in Nc.
    assert (Nc1 : nth_error s1 cur = Some (Some (mkNode xc None))).
    { rewrite S1; [exact Nc|]. intros [Q|[]]. congruence. }
    destruct (set_next_ex s1 cur _ (Some it) Nc1) as (s2 & E2 & N2 & S2 & L2).
    rewrite E2. cbn [bind]. rewrite (rd_ok D _ _ _ N2). cbn [bind nnext ndata].
    assert (S12 : same_but s s2 [it; cur]).
    { eapply same_but_trans; [exact S1|exact S2| |]; intros j [<-|[]]; cbn; auto. }
    subst xs.
    destruct (splice_after s s2 m cur [] xm xc [] it None) as [G2 N2']; auto.
    + rewrite S2; [exact N1|]. intros [Q|[]]. congruence.
    + destruct (IH s2 (mkLL (ll_len o + 1) (ll_head o)) (m ++ [cur]) it ((xm ++ [xc]) ++ [None]))
        as (s' & o' & m' & cur' & E' & R' & C').
      * rep_split; cbn [ll_head ll_len].
        -- rewrite Hh. destruct m; reflexivity.
        -- rewrite <- !app_assoc. exact G2.
        -- rewrite <- app_assoc. exact N2'.
        -- rewrite !app_length in *. cbn [length] in *. lia.
      * eapply closed_step; [exact C|exact S12| |].
        -- intros j n [<-|[<-|[]]] _; apply in_or_app; cbn; auto. left. apply in_or_app. right. left. reflexivity.
        -- intros j Hj _. apply in_or_app. left. exact Hj.
      * exists s', o', m', cur'. rewrite E'. split; [reflexivity|]. split; [|exact C'].
        replace ((xm ++ [xc]) ++ repeat None (S k)) with (((xm ++ [xc]) ++ [None]) ++ repeat None k); [exact R'|].
        rewrite <- !app_assoc. reflexivity.
Qed.

Lemma firstn_exact : forall A (a b : list A), firstn (length a) (a ++ b) = a.
Proof. induction a; intros; cbn; [reflexivity|]. f_equal. auto. Qed.
Lemma skipn_exact : forall A (a b : list A), skipn (length a) (a ++ b) = b.
Proof. induction a; intros; cbn; auto. Qed.

Lemma app_mid_inj : forall A (a a' : list A) x x' b b', a ++ x :: b = a' ++ x' :: b' -> length a = length a' ->
  a = a' /\ x = x' /\ b = b'.
Proof.
  induction a as [|y a IH]; intros [|y' a'] x x' b b' Q Lq; cbn in *; try discriminate.
  - inversion Q. auto.
  - inversion Q. subst. destruct (IH a' x x' b b') as (A1 & B1 & C1); auto. subst. auto.
Qed.

Lemma insert_at_walk_ok : forall s o xs d n, Repr s o xs -> xs <> [] -> 1 <= n ->
  exists s' o', insert_at_walk D s o d (Z.of_nat n) = Ok (s', o', true) /\ Repr s' o' (g_ins_at n d xs).
Proof.
  intros s o xs d n (ids & (Hh & G & N & L) & C) NE Hn.
  destruct ids as [|h rest]; [destruct xs; [congruence|cbn in G; tauto]|].
  unfold insert_at_walk. pose proof Hh as Hh0. cbn [hd_ptr] in Hh. rewrite Hh.
  destruct (at_walk_ok rest h xs s (fuel_of D s) 1%Z (Z.of_nat n) G) as (m & cur & p2 & Ei & Ew & Hle & Hstop).
  { unfold fuel_of. pose proof (ids_le_store D _ _ _ _ G N) as Q. cbn in Q. lia. }
  { lia. }
  rewrite Ew. cbn [bind]. rewrite Ei in *.
  destruct (seg_mid _ _ _ _ _ _ G) as (xm & xc & x2 & Ex & Lx & Nc & _ & Gp2).
  destruct (Z.eq_dec (1 + Z.of_nat (length m)) (Z.of_nat n)) as [Q|Q].
  - (* the position exists: no padding *)
    rewrite Q, Z.sub_diag. cbn [Z.to_nat pad_loop bind].
    subst xs.
    destruct (link_after_ok s o m cur p2 xm xc x2 d) as (s' & o' & E' & R'); auto.
    + rep_split; auto.
    + exists s', o'. split; [exact E'|].
      unfold g_ins_at.
      assert (Ln : n = length (xm ++ [xc])) by (rewrite app_length; cbn; lia).
      replace (xm ++ xc :: x2) with ((xm ++ [xc]) ++ x2) by (rewrite <- app_assoc; reflexivity).
      rewrite Ln, firstn_exact, skipn_exact.
      replace (length (xm ++ [xc]) - length ((xm ++ [xc]) ++ x2)) with 0 by (rewrite (app_length (xm ++ [xc])); lia).
      cbn [repeat app]. rewrite <- app_assoc. exact R'.
  - (* past the end: pad with placeholders *)
    destruct Hstop as [-> | ?]; [|lia].
    destruct x2; [|cbn in Gp2; tauto].
    assert (Lxs : length xs = S (length m)) by (subst xs; rewrite app_length; cbn; lia).
    destruct (pad_loop_ok (Z.to_nat (Z.of_nat n - (1 + Z.of_nat (length m)))) s o m cur xs)
      as (s1 & o1 & m1 & cur1 & E1 & R1 & C1).
    { rep_split; auto. } { exact C. }
    rewrite E1. cbn [bind].
    replace (Z.to_nat (Z.of_nat n - (1 + Z.of_nat (length m)))) with (n - length xs) in * by lia.
    pose proof R1 as (_ & G1 & _ & _).
    destruct (seg_mid _ _ _ _ _ _ G1) as (xm1 & xc1 & x21 & Ex1 & Lx1 & _ & _ & Gp1).
    destruct x21; [|cbn in Gp1; tauto].
    rewrite Ex1 in R1.
    destruct (link_after_ok s1 o1 m1 cur1 [] xm1 xc1 [] d R1) as (s' & o' & E' & R'); auto.
    exists s', o'. split; [exact E'|].
    unfold g_ins_at. rewrite firstn_all2 by lia. rewrite skipn_all2 by lia.
    replace (xs ++ repeat None (n - length xs) ++ [Some d]) with ((xs ++ repeat None (n - length xs)) ++ [Some d])
      by (rewrite <- app_assoc; reflexivity).
    rewrite Ex1. rewrite <- app_assoc. exact R'.
Qed.

Lemma ll_insert_at_ok : forall s o xs d idx, Repr s o xs ->
  let i := norm_idx (Z.of_nat (length xs)) idx in
  exists s' o', ll_insert_at D s o d idx = Ok (s', o', negb (i <? 0)%Z) /\
     Repr s' o' (if (i <? 0)%Z then xs else g_ins_at (Z.to_nat i) d xs).
Proof.
  intros s o xs d idx R i.
  pose proof R as (ids & (Hh & G & N & L) & C).
  unfold ll_insert_at. rewrite L. fold (norm_idx (Z.of_nat (length xs)) idx). fold i.
  rewrite Z.geb_leb. rewrite <- Z.ltb_antisym.
  destruct (i <? 0)%Z eqn:Q; cbn [negb].
  - exists s, o. auto.
  - apply Z.ltb_ge in Q.
    destruct (i =? 0)%Z eqn:Q0.
    + apply Z.eqb_eq in Q0. rewrite Q0. cbn [Z.to_nat]. unfold g_ins_at. cbn. apply ll_prepend_ok. exact R.
    + apply Z.eqb_neq in Q0.
      destruct ids as [|h rest].
      * (* empty list: position 0 becomes the first placeholder *)
        destruct xs; [|cbn in G; tauto]. cbn in Hh. rewrite Hh.
        destruct (item_new_ex s) as (s0 & h & E0 & Hit & N0 & S0 & L0). rewrite E0.
        destruct (insert_at_walk_ok s0 (mkLL (Z.of_nat (length (@nil (option D))) + 1) (Some h)) [None] d (Z.to_nat i))
          as (s' & o' & E' & R').
        { exists [h]. split.
          - rep_split; cbn [ll_head ll_len hd_ptr]; auto.
            + cbn. auto.
            + constructor; [cbn; tauto|constructor].
          - eapply closed_step; [exact C|exact S0| |].
            + intros j n [<-|[]] _. left. reflexivity.
            + intros j []. }
        { discriminate. } { lia. }
        rewrite Z2Nat.id in E' by lia.
        exists s', o'. split; [exact E'|].
        replace (g_ins_at (Z.to_nat i) d []) with (g_ins_at (Z.to_nat i) d [None]); [exact R'|].
        unfold g_ins_at. destruct (Z.to_nat i) as [|k] eqn:Ek; [lia|].
        cbn [firstn length skipn Nat.sub]. rewrite firstn_nil, skipn_nil, Nat.sub_0_r. reflexivity.
      * cbn [hd_ptr] in Hh. rewrite Hh.
        destruct (insert_at_walk_ok s o xs d (Z.to_nat i) R) as (s' & o' & E' & R'); [|lia|].
        { destruct xs; [cbn in G; tauto|discriminate]. }
        rewrite Z2Nat.id in E' by lia. eauto.
Qed.

(* ---- queries ------------------------------------------------------------------------------- *)
Definition g_eq (pk : key) (x : option D) : bool :=
  match x with None => false | Some y => key_eqb pk (dkey y) end.
Fixpoint g_find (pk : key) (xs : list (option D)) : option D :=
  match xs with [] => None | x :: t => if g_eq pk x then x else g_find pk t end.
Fixpoint g_index (pk : key) (xs : list (option D)) (i : Z) : Z :=
  match xs with [] => (-1)%Z | x :: t => if g_eq pk x then i else g_index pk t (i + 1)%Z end.
Fixpoint g_vfind (pk : key) (ys : list D) : option D :=
  match ys with
  | [] => None
  | y :: t => match key_cmp (dkey y) pk with Eq => Some y | Gt => None | Lt => g_vfind pk t end
  end.
Definition g_get (xs : list (option D)) (idx : Z) : option D :=
  let i := norm_idx (Z.of_nat (length xs)) idx in
  if ((i <? 0) || (Z.of_nat (length xs) <=? i))%Z then None
  else match nth_error xs (Z.to_nat i) with Some x => x | None => None end.

Lemma cmp_probe_eq : forall pk x,
  cmp_eq (match x with None => Gt | Some y => key_cmp pk (dkey y) end) = g_eq pk x.
Proof. intros pk [y|]; cbn; [unfold key_eqb|]; reflexivity. Qed.

Lemma find_loop_ok : forall ids xs s fuel pk, seg s ids xs None -> length ids <= fuel ->
  find_loop D dkey fuel s pk (hd_ptr ids None) = Ok (g_find pk xs).
Proof.
  induction ids as [|c rest IH]; intros xs s fuel pk G F; (destruct xs as [|x xs]; try (cbn in G; tauto)).
  - destruct fuel; reflexivity.
  - destruct fuel as [|f]; [cbn in F; lia|]. cbn [LListHeap.seg] in G. destruct G as [G1 G2].
    cbn [hd_ptr find_loop]. rewrite (rd_ok D _ _ _ G1). cbn [bind ndata nnext comp_probe_data g_find].
    rewrite cmp_probe_eq. destruct (g_eq pk x); [reflexivity|]. apply IH; [exact G2|cbn in F; lia].
Qed.

Lemma ll_find_ok : forall s o ids xs pk, Rep s o ids xs ->
  ll_find D dkey s o pk = Ok (match pk with None => None | Some k => g_find k xs end).
Proof.
  intros s o ids xs [k|] (Hh & G & N & L); [|reflexivity]. unfold ll_find. rewrite Hh.
  apply find_loop_ok; [exact G|]. unfold fuel_of. pose proof (ids_le_store D _ _ _ _ G N). lia.
Qed.

Lemma vfind_loop_ok : forall ids ys s fuel pk, seg s ids (map Some ys) None -> length ids <= fuel ->
  vfind_loop D dkey fuel s pk (hd_ptr ids None) = Ok (g_vfind pk ys).
Proof.
  induction ids as [|c rest IH]; intros ys s fuel pk G F; (destruct ys as [|y ys]; try (cbn in G; tauto)).
  - destruct fuel; reflexivity.
  - destruct fuel as [|f]; [cbn in F; lia|]. cbn [map LListHeap.seg] in G. destruct G as [G1 G2].
    cbn [hd_ptr vfind_loop]. rewrite (rd_ok D _ _ _ G1). cbn [bind ndata nnext g_vfind].
    destruct (key_cmp (dkey y) pk); try reflexivity. apply IH; [exact G2|cbn in F; lia].
Qed.

Lemma ll_vector_find_ok : forall s o ids ys k, Rep s o ids (map Some ys) ->
  ll_vector_find D dkey s o (Some k) = Ok (g_vfind k ys).
Proof.
  intros s o ids ys k (Hh & G & N & L). unfold ll_vector_find. rewrite Hh.
  apply vfind_loop_ok; [exact G|]. unfold fuel_of. pose proof (ids_le_store D _ _ _ _ G N). lia.
Qed.

Lemma get_loop_ok : forall ids xs s fuel i idx, seg s ids xs None -> length ids <= fuel -> (i <= idx)%Z ->
  get_loop D fuel s (hd_ptr ids None) i idx = Ok (hd_ptr (skipn (Z.to_nat (idx - i)) ids) None).
Proof.
  induction ids as [|c rest IH]; intros xs s fuel i idx G F Hi; (destruct xs as [|x xs]; try (cbn in G; tauto)).
  - rewrite skipn_nil. destruct fuel; reflexivity.
  - cbn [LListHeap.seg] in G. destruct G as [G1 G2].
    destruct fuel as [|f]; [cbn in F; lia|]. cbn [hd_ptr get_loop].
    destruct (i <? idx)%Z eqn:Q.
    + apply Z.ltb_lt in Q.
      rewrite (rd_ok D _ _ _ G1). cbn [bind nnext].
      rewrite (IH xs s f (i + 1)%Z idx G2); [|cbn in F; lia|lia].
      replace (Z.to_nat (idx - i)) with (S (Z.to_nat (idx - (i + 1)))) by lia. reflexivity.
    + apply Z.ltb_ge in Q. replace (idx - i)%Z with 0%Z by lia. reflexivity.
Qed.

Lemma ll_get_ok : forall s o ids xs idx, Rep s o ids xs -> ll_get D s o idx = Ok (g_get xs idx).
Proof.
  intros s o ids xs idx (Hh & G & N & L). unfold ll_get, g_get. rewrite L.
  fold (norm_idx (Z.of_nat (length xs)) idx). set (i := norm_idx (Z.of_nat (length xs)) idx).
  rewrite Z.geb_leb, <- Z.ltb_antisym.
  destruct (i <? 0)%Z eqn:Q; cbn [negb orb]; [reflexivity|]. apply Z.ltb_ge in Q.
  rewrite (Z.leb_antisym i).
  destruct (i <? Z.of_nat (length xs))%Z eqn:Q1; cbn [negb]; [|reflexivity]. apply Z.ltb_lt in Q1.
  rewrite Hh. rewrite (get_loop_ok ids xs s (fuel_of D s) 0%Z i G); [|unfold fuel_of; pose proof (ids_le_store D _ _ _ _ G N); lia|lia].
  cbn [bind]. rewrite Z.sub_0_r.
  pose proof (seg_length D _ _ _ _ G) as Ll.
  destruct (nth_error ids (Z.to_nat i)) as [c|] eqn:En; [|apply nth_error_None in En; lia].
  destruct (nth_error_split _ _ En) as (pre & post & Ei & Lp).
  subst ids. rewrite <- Lp. rewrite !skipn_exact. cbn [hd_ptr].
  destruct (seg_mid _ _ _ _ _ _ G) as (xpre & xc & xpost & Ex & Lx & Nc & _ & _).
  rewrite (rd_ok D _ _ _ Nc). cbn [bind ndata]. subst xs.
  rewrite nth_error_app2 by lia. replace (length pre - length xpre) with 0 by lia. reflexivity.
Qed.

Lemma index_loop_ok : forall ids xs s fuel pk i, seg s ids xs None -> length ids <= fuel ->
  exists p j, index_loop D dkey fuel s pk (hd_ptr ids None) i = Ok (p, j) /\
    (match p with Some _ => j | None => (-1)%Z end) = g_index pk xs i.
Proof.
  induction ids as [|c rest IH]; intros xs s fuel pk i G F; (destruct xs as [|x xs]; try (cbn in G; tauto)).
  - exists None, i. destruct fuel; auto.
  - destruct fuel as [|f]; [cbn in F; lia|]. cbn [LListHeap.seg] in G. destruct G as [G1 G2].
    cbn [hd_ptr index_loop]. rewrite (rd_ok D _ _ _ G1). cbn [bind ndata nnext comp_probe_data g_index].
    rewrite cmp_probe_eq. destruct (g_eq pk x).
    + exists (Some c), i. auto.
    + apply IH; [exact G2|cbn in F; lia].
Qed.

Lemma ll_index_ok : forall s o ids xs pk, Rep s o ids xs -> ll_index D dkey s o pk = Ok (g_index pk xs 0%Z).
Proof.
  intros s o ids xs pk (Hh & G & N & L). unfold ll_index. rewrite Hh.
  destruct (index_loop_ok ids xs s (fuel_of D s) pk 0%Z G) as (p & j & E & Q).
  { unfold fuel_of. pose proof (ids_le_store D _ _ _ _ G N). lia. }
  rewrite E. cbn [bind]. rewrite Q. reflexivity.
Qed.

Lemma toarr_loop_ok : forall ids xs s, seg s ids xs None ->
  toarr_loop D (length ids) s (hd_ptr ids None) = Ok xs.
Proof.
  induction ids as [|c rest IH]; intros xs s G; (destruct xs as [|x xs]; try (cbn in G; tauto)).
  cbn [LListHeap.seg] in G. destruct G as [G1 G2]. cbn [length hd_ptr toarr_loop].
  rewrite (rd_ok D _ _ _ G1). cbn [bind nnext ndata]. rewrite (IH xs s G2). reflexivity.
Qed.

Lemma ll_to_array_ok : forall s o ids xs, Rep s o ids xs -> ll_to_array D s o = Ok xs.
Proof.
  intros s o ids xs (Hh & G & N & L). unfold ll_to_array. rewrite L, Hh, Nat2Z.id.
  rewrite <- (seg_length D _ _ _ _ G). apply toarr_loop_ok. exact G.
Qed.

Lemma li_sweep_ok : forall ids xs s fuel, seg s ids xs None -> length ids <= fuel ->
  li_sweep D fuel s (mkIt true (hd_ptr ids None)) = Ok xs.
Proof.
  induction ids as [|c rest IH]; intros xs s fuel G F; (destruct xs as [|x xs]; try (cbn in G; tauto)).
  - destruct fuel; reflexivity.
  - destruct fuel as [|f]; [cbn in F; lia|]. cbn [LListHeap.seg] in G. destruct G as [G1 G2].
    cbn [hd_ptr li_sweep li_has_next li_subject li_current negb is_some li_next].
    rewrite (rd_ok D _ _ _ G1). cbn [bind nnext ndata].
    rewrite (IH xs s f G2); [reflexivity|cbn in F; lia].
Qed.

Lemma ll_iterate_ok : forall s o ids xs, Rep s o ids xs -> ll_iterate D s o = Ok xs.
Proof.
  intros s o ids xs (Hh & G & N & L). unfold ll_iterate, ll_iterator. rewrite Hh.
  apply li_sweep_ok; [exact G|]. unfold fuel_of. pose proof (ids_le_store D _ _ _ _ G N). lia.
Qed.

Lemma dump_loop_ok : forall ids xs s fuel, seg s ids xs None -> length ids <= fuel ->
  dump_loop D fuel s (hd_ptr ids None) = Ok xs.
Proof.
  induction ids as [|c rest IH]; intros xs s fuel G F; (destruct xs as [|x xs]; try (cbn in G; tauto)).
  - destruct fuel; reflexivity.
  - destruct fuel as [|f]; [cbn in F; lia|]. cbn [LListHeap.seg] in G. destruct G as [G1 G2].
    cbn [hd_ptr dump_loop]. rewrite (rd_ok D _ _ _ G1). cbn [bind nnext ndata].
    rewrite (IH xs s f G2); [reflexivity|cbn in F; lia].
Qed.

Lemma ll_dump_ok : forall s o ids xs, Rep s o ids xs -> ll_dump D s o = Ok xs.
Proof.
  intros s o ids xs (Hh & G & N & L). unfold ll_dump. rewrite Hh.
  apply dump_loop_ok; [exact G|]. unfold fuel_of. pose proof (ids_le_store D _ _ _ _ G N). lia.
Qed.

Lemma get_range_ok : forall k s o ids xs from, Rep s o ids xs ->
  get_range D k s o from = Ok (map (fun j => g_get xs (from + Z.of_nat j)%Z) (seq 0 k)).
Proof.
  induction k as [|k IH]; intros s o ids xs from R; [reflexivity|].
  cbn [get_range]. rewrite (ll_get_ok _ _ _ _ _ R). cbn [bind].
  rewrite (IH _ _ _ _ _ R). cbn [bind seq map]. rewrite Z.add_0_r. f_equal. f_equal.
  rewrite <- seq_shift, map_map. apply map_ext. intros j. f_equal. lia.
Qed.

(* ---- removal ------------------------------------------------------------------------------- *)
Fixpoint g_rem (pk : key) (xs : list (option D)) : list (option D) * option D :=
  match xs with
  | [] => ([], None)
  | x :: t => if g_eq pk x then (t, x) else let (t', r) := g_rem pk t in (x :: t', r)
  end.

(* the comparison used agrees with g_eq on the data it meets *)
Definition cmp_agrees (cmpf : key -> option D -> res comparison) (pk : key) (x : option D) : Prop :=
  exists c, cmpf pk x = Ok c /\ cmp_eq c = g_eq pk x.

Lemma cmp_agrees_probe : forall pk x, cmp_agrees (comp_probe_data D dkey) pk x.
Proof. intros pk x. eexists. split; [reflexivity|]. apply cmp_probe_eq. Qed.

Lemma cmp_agrees_data : forall pk y, cmp_agrees (comp_data_probe D dkey) pk (Some y).
Proof.
  intros pk y. eexists. split; [reflexivity|]. cbn. unfold key_eqb.
  rewrite (key_cmp_antisym (dkey y) pk). destruct (key_cmp (dkey y) pk); reflexivity.
Qed.

Lemma remove_loop_ok : forall cmpf pk post c xc xpost s fuel,
  seg s (c :: post) (xc :: xpost) None -> (forall x, In x xpost -> cmp_agrees cmpf pk x) -> length post < fuel ->
  exists m cur p2 xm xcur x2,
    c :: post = m ++ cur :: p2 /\ xc :: xpost = xm ++ xcur :: x2 /\ length m = length xm /\
    remove_loop D fuel cmpf s pk (Some c) = Ok (Some cur) /\
    xc :: fst (g_rem pk xpost) = xm ++ xcur :: tl x2 /\ snd (g_rem pk xpost) = hd None x2.
Proof.
  intros cmpf pk. induction post as [|p post IH]; intros c xc xpost s fuel G A F; (destruct fuel as [|f]; [cbn in F; lia|]).
  - destruct xpost; [|cbn in G; tauto]. cbn in G. destruct G as [G _].
    exists [], c, [], [], xc, []. cbn [app length remove_loop]. rewrite (rd_ok D _ _ _ G). cbn. auto 10.
  - destruct xpost as [|xp xpost]; [cbn in G; tauto|]. cbn [LListHeap.seg] in G. destruct G as [G1 G2].
    cbn [remove_loop]. rewrite (rd_ok D _ _ _ G1). cbn [bind nnext hd_ptr].
    pose proof G2 as G2'. cbn [LListHeap.seg] in G2'. destruct G2' as [Gp _].
    rewrite (rd_ok D _ _ _ Gp). cbn [bind ndata].
    destruct (A xp (or_introl eq_refl)) as (c0 & Ec & Eq). rewrite Ec. cbn [bind g_rem]. rewrite Eq.
    destruct (g_eq pk xp).
    + exists [], c, (p :: post), [], xc, (xp :: xpost). cbn. auto 10.
    + destruct (IH p xp xpost s f G2) as (m & cur & p2 & xm & xcur & x2 & E1 & E2 & E3 & E4 & E5 & E6).
      { intros x Hx. apply A. right. exact Hx. } { cbn in F. lia. }
      exists (c :: m), cur, p2, (xc :: xm), xcur, x2. cbn [app length]. rewrite E1, E2, E3, E4.
      destruct (g_rem pk xpost) as [t' r]. cbn [fst snd] in *. rewrite E5. auto 10.
Qed.

Lemma unlink_finish_ok : forall s o t n, nth_error s t = Some (Some n) -> exists s',
  unlink_finish D s o (Some t) = Ok (s', mkLL (ll_len o - 1) (ll_head o), ndata n) /\
  nth_error s' t = Some None /\ same_but s s' [t].
Proof.
  intros s o t n H. unfold unlink_finish. rewrite (rd_ok D _ _ _ H). cbn [bind].
  destruct (set_data_ex s t _ None H) as (s1 & E1 & N1 & S1 & L1). rewrite E1. cbn [bind].
  destruct (item_del_ex s1 t _ N1) as (s2 & E2 & N2 & S2 & L2). rewrite E2. cbn [bind].
  exists s2. repeat split; auto. eapply same_but_trans; eauto; apply incl_refl.
Qed.

Lemma unsplice : forall s s' pre c t post xpre xc xt xpost,
  seg s (pre ++ c :: t :: post) (xpre ++ xc :: xt :: xpost) None -> length pre = length xpre ->
  NoDup (pre ++ c :: t :: post) ->
  nth_error s' c = Some (Some (mkNode xc (hd_ptr post None))) -> same_but s s' [c; t] ->
  seg s' (pre ++ c :: post) (xpre ++ xc :: xpost) None /\ NoDup (pre ++ c :: post).
Proof.
  intros s s' pre c t post xpre xc xt xpost G L N Hc S.
  apply seg_app in G; [|exact L]. destruct G as [Gpre Gc]. cbn in Gc. destruct Gc as [_ [_ Gpost]].
  destruct (NoDup_mid _ _ _ N) as (N1 & N2 & N3 & N4 & N5).
  inversion N4 as [|? ? N6 N7]; subst. cbn in N2.
  assert (Npt : ~ In t pre). { intros Q. apply (N5 t Q). left. reflexivity. }
  split.
  - apply seg_app; [exact L|]. split.
    + eapply seg_same_but; [exact S| |exact Gpre]. intros i Hi [<-|[<-|[]]]; tauto.
    + cbn. split; [exact Hc|].
      eapply seg_same_but; [exact S| |exact Gpost]. intros i Hi [<-|[<-|[]]]; tauto.
  - replace (pre ++ c :: t :: post) with ((pre ++ [c]) ++ t :: post) in N by (rewrite <- app_assoc; reflexivity).
    apply NoDup_remove_1 in N. rewrite <- app_assoc in N. exact N.
Qed.

Lemma ll_remove_gen_ok : forall cmpf s o xs item, Repr s o xs ->
  (forall pk x, item = Some pk -> In x xs -> cmp_agrees cmpf pk x) ->
  exists s' o', ll_remove_gen D cmpf s o item =
      Ok (s', o', match item with None => None | Some pk => snd (g_rem pk xs) end) /\
    Repr s' o' (match item with None => xs | Some pk => fst (g_rem pk xs) end).
Proof.
  intros cmpf s o xs [pk|] R A; [|exists s, o; auto].
  pose proof R as (ids & (Hh & G & N & L) & C).
  specialize (A pk). unfold ll_remove_gen.
  destruct ids as [|h rest].
  - destruct xs; [|cbn in G; tauto]. cbn in Hh. rewrite Hh. exists s, o. auto.
  - destruct xs as [|xh xrest]; [cbn in G; tauto|].
    cbn [hd_ptr] in Hh. rewrite Hh.
    pose proof G as G'. cbn [LListHeap.seg] in G'. destruct G' as [Gh Grest].
    rewrite (rd_ok D _ _ _ Gh). cbn [bind ndata nnext].
    destruct (A xh eq_refl (or_introl eq_refl)) as (c0 & Ec & Eq). rewrite Ec. cbn [bind g_rem]. rewrite Eq.
    inversion N as [|? ? Nh Nrest]; subst.
    destruct (g_eq pk xh).
    + (* the head goes *)
      destruct (unlink_finish_ok s (mkLL (ll_len o) (hd_ptr rest None)) h _ Gh) as (s' & E' & N' & S').
      rewrite E'. cbn [ll_len ll_head ndata fst snd].
      eexists _, _. split; [reflexivity|]. exists rest. split.
      * rep_split; cbn [ll_head ll_len]; auto.
        -- eapply seg_same_but; [exact S'| |exact Grest]. intros i Hi [<-|[]]. tauto.
        -- cbn [length] in L. lia.
      * eapply closed_step; [exact C|exact S'| |].
        -- intros j n [<-|[]] Q. congruence.
        -- intros j [<-|Hj] Q; [exfalso; apply Q; left; reflexivity|exact Hj].
    + destruct (remove_loop_ok cmpf pk rest h xh xrest s (fuel_of D s) G)
        as (m & cur & p2 & xm & xcur & x2 & Ei & Ex & Lm & El & Es & Er).
      { intros x Hx. apply A; [reflexivity|right; exact Hx]. }
      { unfold fuel_of. pose proof (ids_le_store D _ _ _ _ G N) as Q. cbn in Q. lia. }
      rewrite El. cbn [bind].
      assert (Hh0 : Some h = hd_ptr (m ++ cur :: p2) None) by (destruct m; cbn in Ei |- *; congruence).
      rewrite Ei in *. rewrite Ex in *.
      destruct (seg_mid _ _ _ _ _ _ G) as (xpre & xc & xpost & Ex' & Lx & Nc & _ & Gp2).
      apply app_mid_inj in Ex'; [|congruence]. destruct Ex' as (<- & <- & <-).
      rewrite (rd_ok D _ _ _ Nc). cbn [bind nnext].
      destruct (g_rem pk xrest) as [t' r]. cbn [fst snd] in *.
      destruct p2 as [|t p2].
      * (* not found *)
        destruct x2; [|cbn in Gp2; tauto]. cbn [hd_ptr hd tl] in *. subst r.
        exists s, o. split; [reflexivity|]. rewrite Es. exact R.
      * destruct x2 as [|xt x2]; [cbn in Gp2; tauto|]. cbn [hd_ptr hd tl] in *. subst r.
        pose proof Gp2 as Gp2'. cbn [LListHeap.seg] in Gp2'. destruct Gp2' as [Gt _].
        rewrite (rd_ok D _ _ _ Gt). cbn [bind nnext].
        destruct (set_next_ex s cur _ (hd_ptr p2 None) Nc) as (s1 & E1 & N1 & S1 & L1).
        rewrite E1. cbn [bind].
        destruct (NoDup_mid _ _ _ N) as (M1 & M2 & M3 & M4 & M5).
        assert (Nct : t <> cur) by (intros ->; apply M2; left; reflexivity).
        assert (Gt1 : nth_error s1 t = Some (Some (mkNode xt (hd_ptr p2 None)))).
        { rewrite S1; [exact Gt|]. intros [Q|[]]. congruence. }
        destruct (unlink_finish_ok s1 o t _ Gt1) as (s' & E' & N' & S').
        rewrite E'. cbn [ndata].
        eexists _, _. split; [reflexivity|].
        assert (S02 : same_but s s' [cur; t]).
        { eapply same_but_trans; [exact S1|exact S'| |]; intros j [<-|[]]; cbn; auto. }
        destruct (unsplice s s' m cur t p2 xm xcur xt x2) as [G' N'']; auto.
        { rewrite S'; [exact N1|]. intros [Q|[]]. congruence. }
        exists (m ++ cur :: p2). split.
        -- rep_split; cbn [ll_head ll_len].
           ++ rewrite Hh. destruct m; cbn in Hh0 |- *; congruence.
           ++ rewrite Es. exact G'.
           ++ exact N''.
           ++ rewrite Es. rewrite !app_length in *. cbn [length] in *. lia.
        -- eapply closed_step; [exact C|exact S02| |].
           ++ intros j n [<-|[<-|[]]] Q; [apply in_or_app; right; left; reflexivity|congruence].
           ++ intros j Hj Q. apply in_app_or in Hj. apply in_or_app. destruct Hj as [Hj|[<-|[<-|Hj]]]; cbn; auto.
              exfalso. apply Q. cbn. auto.
Qed.

Lemma remove_mid_eq : forall A (xm : list A) xc xt x2,
  firstn (S (length xm)) (xm ++ xc :: xt :: x2) ++ skipn (S (S (length xm))) (xm ++ xc :: xt :: x2) = xm ++ xc :: x2 /\
  nth_error (xm ++ xc :: xt :: x2) (S (length xm)) = Some xt.
Proof.
  induction xm as [|a xm IH]; intros xc xt x2; [cbn; auto|].
  destruct (IH xc xt x2) as [H1 H2]. cbn [length app]. split.
  - change (firstn (S (S (length xm))) (a :: xm ++ xc :: xt :: x2)) with (a :: firstn (S (length xm)) (xm ++ xc :: xt :: x2)).
    change (skipn (S (S (S (length xm)))) (a :: xm ++ xc :: xt :: x2)) with (skipn (S (S (length xm))) (xm ++ xc :: xt :: x2)).
    cbn [app]. f_equal. exact H1.
  - exact H2.
Qed.

Definition g_remove_at (xs : list (option D)) (idx : Z) : list (option D) * option D :=
  let i := norm_idx (Z.of_nat (length xs)) idx in
  if ((i <? 0) || (Z.of_nat (length xs) <=? i))%Z then (xs, None)
  else (firstn (Z.to_nat i) xs ++ skipn (S (Z.to_nat i)) xs,
        match nth_error xs (Z.to_nat i) with Some x => x | None => None end).

Lemma ll_remove_at_ok : forall s o xs idx, Repr s o xs ->
  exists s' o', ll_remove_at D s o idx = Ok (s', o', snd (g_remove_at xs idx)) /\
    Repr s' o' (fst (g_remove_at xs idx)).
Proof.
  intros s o xs idx R. pose proof R as (ids & (Hh & G & N & L) & C).
  unfold ll_remove_at, g_remove_at. rewrite L.
  fold (norm_idx (Z.of_nat (length xs)) idx). set (i := norm_idx (Z.of_nat (length xs)) idx).
  rewrite Z.geb_leb, <- Z.ltb_antisym.
  destruct (i <? 0)%Z eqn:Q; cbn [negb orb fst snd]; [exists s, o; auto|]. apply Z.ltb_ge in Q.
  rewrite (Z.leb_antisym i).
  destruct (i <? Z.of_nat (length xs))%Z eqn:Q1; cbn [negb fst snd]; [|exists s, o; auto]. apply Z.ltb_lt in Q1.
  destruct ids as [|h rest]; [destruct xs; [cbn in Q1; lia|cbn in G; tauto]|].
  destruct xs as [|xh xrest]; [cbn in G; tauto|].
  pose proof Hh as Hh0. cbn [hd_ptr] in Hh. rewrite Hh.
  pose proof G as G'. cbn [LListHeap.seg] in G'. destruct G' as [Gh Grest].
  inversion N as [|? ? Nh Nrest]; subst.
  destruct (i =? 0)%Z eqn:Q0.
  - apply Z.eqb_eq in Q0. rewrite Q0. cbn [Z.to_nat firstn skipn app nth_error].
    rewrite (rd_ok D _ _ _ Gh). cbn [bind nnext ndata ll_len ll_head].
    destruct (set_data_ex s h _ None Gh) as (s1 & E1 & N1 & S1 & L1). rewrite E1. cbn [bind].
    destruct (item_del_ex s1 h _ N1) as (s2 & E2 & N2 & S2 & L2). rewrite E2. cbn [bind].
    eexists _, _. split; [reflexivity|].
    assert (S02 : same_but s s2 [h]) by (eapply same_but_trans; eauto; apply incl_refl).
    exists rest. split.
    + rep_split; cbn [ll_head ll_len]; auto.
      * eapply seg_same_but; [exact S02| |exact Grest]. intros j Hj [<-|[]]. tauto.
      * cbn [length] in *. lia.
    + eapply closed_step; [exact C|exact S02| |].
      * intros j n [<-|[]] Q'. congruence.
      * intros j [<-|Hj] Q'; [exfalso; apply Q'; left; reflexivity|exact Hj].
  - apply Z.eqb_neq in Q0.
    destruct (at_walk_ok rest h (xh :: xrest) s (fuel_of D s) 1%Z i G) as (m & cur & p2 & Ei & Ew & Hle & Hstop).
    { unfold fuel_of. pose proof (ids_le_store D _ _ _ _ G N) as Q'. cbn in Q'. lia. }
    { lia. }
    rewrite Ew. cbn [bind].
    assert (N' : NoDup (h :: rest)) by (constructor; assumption).
    rewrite Ei in *.
    destruct (seg_mid _ _ _ _ _ _ G) as (xm & xc & x2 & Ex & Lx & Nc & _ & Gp2).
    pose proof (seg_length D _ _ _ _ G) as Ll. rewrite app_length in Ll. cbn [length] in Ll.
    assert (Hi : (1 + Z.of_nat (length m))%Z = i).
    { destruct Hstop as [-> | ?]; [cbn [length] in *; lia|assumption]. }
    rewrite Hi, Z.eqb_refl. cbn [negb].
    rewrite (rd_ok D _ _ _ Nc). cbn [bind nnext].
    destruct p2 as [|t p2]; [cbn [length] in *; lia|].
    destruct x2 as [|xt x2]; [cbn in Gp2; tauto|]. cbn [hd_ptr].
    pose proof Gp2 as Gp2'. cbn [LListHeap.seg] in Gp2'. destruct Gp2' as [Gt _].
    rewrite (rd_ok D _ _ _ Gt). cbn [bind nnext].
    destruct (set_next_ex s cur _ (hd_ptr p2 None) Nc) as (s1 & E1 & N1 & S1 & L1).
    rewrite E1. cbn [bind].
    destruct (NoDup_mid _ _ _ N') as (M1 & M2 & M3 & M4 & M5).
    assert (Nct : t <> cur) by (intros ->; apply M2; left; reflexivity).
    assert (Gt1 : nth_error s1 t = Some (Some (mkNode xt (hd_ptr p2 None)))).
    { rewrite S1; [exact Gt|]. intros [Q'|[]]. congruence. }
    rewrite (rd_ok D _ _ _ Gt1). cbn [bind ndata].
    destruct (set_data_ex s1 t _ None Gt1) as (s2 & E2 & N2 & S2 & L2). rewrite E2. cbn [bind].
    destruct (item_del_ex s2 t _ N2) as (s3 & E3 & N3 & S3 & L3). rewrite E3. cbn [bind].
    rewrite Ex. replace (Z.to_nat i) with (S (length xm)) by lia.
    destruct (remove_mid_eq _ xm xc xt x2) as [A1 A2]. rewrite A1, A2.
    eexists _, _. split; [reflexivity|].
    assert (S03 : same_but s s3 [cur; t]).
    { eapply same_but_trans; [exact S1| |intros j [<-|[]]; cbn; auto|apply incl_refl].
      eapply same_but_trans; [exact S2|exact S3| |]; intros j [<-|[]]; cbn; auto. }
    rewrite Ex in G.
    destruct (unsplice s s3 m cur t p2 xm xc xt x2) as [G3 N3']; auto.
    { rewrite S3, S2; [exact N1| |]; intros [Q'|[]]; congruence. }
    exists (m ++ cur :: p2). split.
    + rep_split; cbn [ll_head ll_len].
      * rewrite <- Hh, Hh0. destruct m; reflexivity.
      * exact G3.
      * exact N3'.
      * rewrite Ex in L. rewrite !app_length in *. cbn [length] in *. lia.
    + eapply closed_step; [exact C|exact S03| |].
      * intros j n [<-|[<-|[]]] Q'; [apply in_or_app; right; left; reflexivity|congruence].
      * intros j Hj Q'. apply in_app_or in Hj. apply in_or_app. destruct Hj as [Hj|[<-|[<-|Hj]]]; cbn; auto.
        exfalso. apply Q'. cbn. auto.
Qed.

(* ---- reverse ------------------------------------------------------------------------------- *)
Lemma reverse_loop_ok : forall rest xrest prev xprev s fuel,
  seg s rest xrest None -> seg s prev xprev None -> NoDup (rest ++ prev) -> length rest <= fuel ->
  exists s', reverse_loop D fuel s (hd_ptr prev None) (hd_ptr rest None) = Ok (s', hd_ptr (rev rest ++ prev) None) /\
    seg s' (rev rest ++ prev) (rev xrest ++ xprev) None /\ same_but s s' rest.
Proof.
  induction rest as [|c rest IH]; intros xrest prev xprev s fuel G P N F;
    (destruct xrest as [|xc xrest]; try (cbn in G; tauto)).
  - exists s. cbn [rev app hd_ptr]. split; [destruct fuel; reflexivity|]. split; [exact P|apply same_but_refl].
  - destruct fuel as [|f]; [cbn in F; lia|]. cbn [LListHeap.seg] in G. destruct G as [G1 G2].
    cbn [hd_ptr reverse_loop]. rewrite (rd_ok D _ _ _ G1). cbn [bind nnext].
    destruct (set_next_ex s c _ (hd_ptr prev None) G1) as (s1 & E1 & N1 & S1 & L1). rewrite E1. cbn [bind].
    cbn [app] in N. inversion N as [|? ? Nc N']; subst. rewrite in_app_iff in Nc.
    destruct (IH xrest (c :: prev) (xc :: xprev) s1 f) as (s' & E' & G' & S').
    + eapply seg_same_but; [exact S1| |exact G2]. intros j Hj [<-|[]]. tauto.
    + cbn [LListHeap.seg]. split; [exact N1|].
      eapply seg_same_but; [exact S1| |exact P]. intros j Hj [<-|[]]. tauto.
    + eapply Permutation_NoDup; [apply Permutation_middle|]. constructor; [rewrite in_app_iff; tauto|exact N'].
    + cbn in F. lia.
    + exists s'. cbn [hd_ptr] in E'. rewrite E'. cbn [rev]. rewrite <- !app_assoc. cbn [app].
      split; [reflexivity|]. split; [exact G'|].
      eapply same_but_trans; [exact S1|exact S'| |]; intros j Hj; cbn in *; tauto.
Qed.

Lemma ll_reverse_ok : forall s o xs, Repr s o xs ->
  exists s' o', ll_reverse D s o = Ok (s', o', true) /\ Repr s' o' (rev xs).
Proof.
  intros s o xs (ids & (Hh & G & N & L) & C). unfold ll_reverse. rewrite Hh.
  destruct (reverse_loop_ok ids xs [] [] s (fuel_of D s) G) as (s' & E' & G' & S').
  { exact I. } { rewrite app_nil_r. exact N. }
  { unfold fuel_of. pose proof (ids_le_store D _ _ _ _ G N). lia. }
  cbn [hd_ptr] in E'. rewrite E'. cbn [bind]. rewrite !app_nil_r in *.
  eexists _, _. split; [reflexivity|]. exists (rev ids). split.
  - rep_split; cbn [ll_head ll_len]; auto.
    + apply NoDup_rev. exact N.
    + rewrite rev_length. exact L.
  - eapply closed_step; [exact C|exact S'| |].
    + intros j n Hj _. apply in_rev in Hj. exact Hj.
    + intros j Hj Q. tauto.
Qed.

(* ---- done / del ---------------------------------------------------------------------------- *)
Lemma done_loop_ok : forall ids xs s fuel, seg s ids xs None -> NoDup ids -> length ids <= fuel ->
  exists s', done_loop D fuel s (hd_ptr ids None) = Ok s' /\
    (forall j, In j ids -> nth_error s' j = Some None) /\ same_but s s' ids /\ length s' = length s.
Proof.
  induction ids as [|c rest IH]; intros xs s fuel G N F; (destruct xs as [|x xs]; try (cbn in G; tauto)).
  - exists s. split; [destruct fuel; reflexivity|]. split; [intros j []|]. split; [apply same_but_refl|reflexivity].
  - destruct fuel as [|f]; [cbn in F; lia|]. cbn [LListHeap.seg] in G. destruct G as [G1 G2].
    inversion N as [|? ? Nc N']; subst.
    cbn [hd_ptr done_loop]. rewrite (rd_ok D _ _ _ G1). cbn [bind nnext].
    destruct (item_del_ex s c _ G1) as (s1 & E1 & N1 & S1 & L1). rewrite E1. cbn [bind].
    destruct (IH xs s1 f) as (s' & E' & A' & S' & L'); auto.
    + eapply seg_same_but; [exact S1| |exact G2]. intros j Hj [<-|[]]. tauto.
    + cbn in F. lia.
    + exists s'. split; [exact E'|]. split; [|split].
      * intros j [<-|Hj]; [|auto]. rewrite S'; [exact N1|exact Nc].
      * eapply same_but_trans; [exact S1|exact S'| |]; intros j Hj; cbn in *; tauto.
      * lia.
Qed.

Lemma ll_del_ok : forall s o ids xs, Rep s o ids xs ->
  exists s', ll_del D s o = Ok s' /\
    (forall j, In j ids -> nth_error s' j = Some None) /\ same_but s s' ids /\ length s' = length s.
Proof.
  intros s o ids xs (Hh & G & N & L). unfold ll_del, ll_done. rewrite L.
  destruct (Z.of_nat (length xs) =? 0)%Z eqn:Q.
  - apply Z.eqb_eq in Q. destruct xs; [|cbn in Q; lia]. destruct ids; [|cbn in G; tauto].
    exists s. cbn [bind]. split; [reflexivity|]. split; [intros j []|]. split; [apply same_but_refl|reflexivity].
  - rewrite Hh.
    destruct (done_loop_ok ids xs s (fuel_of D s) G N) as (s' & E' & A' & S' & L').
    { unfold fuel_of. pose proof (ids_le_store D _ _ _ _ G N). lia. }
    rewrite E'. cbn [bind]. exists s'. auto.
Qed.

(* after del of a closed list nothing is live *)
Lemma ll_del_no_leak : forall s o xs, Repr s o xs ->
  exists s', ll_del D s o = Ok s' /\ forall j n, nth_error s' j <> Some (Some n).
Proof.
  intros s o xs (ids & R & C). destruct (ll_del_ok _ _ _ _ R) as (s' & E & A & S & L).
  exists s'. split; [exact E|]. intros j n Q.
  destruct (in_dec Nat.eq_dec j ids) as [I|I].
  - rewrite (A j I) in Q. discriminate.
  - rewrite S in Q by exact I. apply I. eapply C. exact Q.
Qed.

(* ---- dup ----------------------------------------------------------------------------------- *)
Variable ddup : D -> D.

Lemma item_dup_ok : forall (s : store) p x nx, nth_error s p = Some (Some (mkNode x nx)) ->
  exists s' it, item_dup D ddup s (Some p) = Ok (s', Some it) /\ it = length s /\
    nth_error s' it = Some (Some (mkNode (option_map ddup x) None)) /\ same_but s s' [it] /\
    length s' = S (length s).
Proof.
  intros s p x nx H. unfold item_dup. rewrite (rd_ok D _ _ _ H). cbn [bind ndata].
  destruct (item_new_ex s) as (s1 & it & E1 & Hit & N1 & S1 & L1). rewrite E1.
  destruct x as [d|].
  - destruct (set_data_ex s1 it _ (Some (ddup d)) N1) as (s2 & E2 & N2 & S2 & L2). rewrite E2. cbn [bind].
    exists s2, it. repeat split; auto.
    + eapply same_but_trans; eauto; apply incl_refl.
    + lia.
  - exists s1, it. repeat split; auto.
Qed.

Lemma dup_loop_ok : forall post c xc xpost s fuel dc dx,
  seg s (c :: post) (xc :: xpost) None -> nth_error s dc = Some (Some (mkNode dx None)) ->
  ~ In dc (c :: post) -> length post < fuel ->
  exists s' dm dl, dup_loop D ddup fuel s (Some c) (Some dc) = Ok (s', Some dl) /\
    dc :: seq (length s) (length post) = dm ++ [dl] /\
    seg s' (dc :: seq (length s) (length post)) (dx :: map (option_map ddup) xpost) None /\
    same_but s s' (dc :: seq (length s) (length post)) /\ length s' = length s + length post.
Proof.
  induction post as [|p post IH]; intros c xc xpost s fuel dc dx G Hd Nd F; (destruct fuel as [|f]; [cbn in F; lia|]);
    (destruct xpost as [|xp xpost]; try (cbn in G; tauto)); cbn [LListHeap.seg] in G; destruct G as [G1 G2].
  - exists s, [], dc. cbn [dup_loop]. rewrite (rd_ok D _ _ _ G1). cbn. repeat split; auto.
  - cbn [dup_loop]. rewrite (rd_ok D _ _ _ G1). cbn [bind nnext hd_ptr].
    pose proof G2 as G2'. cbn [LListHeap.seg] in G2'. destruct G2' as [Gp _].
    destruct (item_dup_ok s p _ _ Gp) as (s1 & it & E1 & Hit & N1 & S1 & L1). rewrite E1. cbn [bind].
    pose proof (nth_some_lt D _ _ _ Hd) as Ldc.
    assert (Hd1 : nth_error s1 dc = Some (Some (mkNode dx None))).
    { rewrite S1; [exact Hd|]. intros [Q|[]]. lia. }
    destruct (set_next_ex s1 dc _ (Some it) Hd1) as (s2 & E2 & N2 & S2 & L2). rewrite E2. cbn [bind].
    rewrite (rd_ok D _ _ _ N2). cbn [bind nnext ndata].
    assert (S02 : same_but s s2 [it; dc]).
    { eapply same_but_trans; [exact S1|exact S2| |]; intros j [<-|[]]; cbn; auto. }
    assert (Bnd : forall j, In j (p :: post) -> j < length s).
    { intros j Hj. exact (seg_in_lt D s (p :: post) (xp :: xpost) None j G2 Hj). }
    destruct (IH p xp xpost s2 f it (option_map ddup xp)) as (s' & dm & dl & E' & Edm & G' & S' & L').
    + eapply seg_same_but; [exact S02| |exact G2]. intros j Hj [<-|[<-|[]]].
      * specialize (Bnd _ Hj). lia.
      * apply Nd. right. exact Hj.
    + rewrite S2; [exact N1|]. intros [Q|[]]. lia.
    + intros Hj. specialize (Bnd _ Hj). lia.
    + cbn in F. lia.
    + replace (length s2) with (S (length s)) in * by lia.
      exists s', (dc :: dm), dl. rewrite E'. split; [reflexivity|]. cbn [length seq map].
      rewrite <- Hit in *. split; [cbn [app]; rewrite <- Edm; reflexivity|]. split; [|split].
      * cbn [LListHeap.seg hd_ptr]. split; [|exact G'].
        rewrite S'; [exact N2|]. intros [Q|Q]; [lia|]. apply in_seq in Q. lia.
      * eapply same_but_trans; [exact S02|exact S'| |]; intros j Hj; cbn in *; tauto.
      * cbn [length]. lia.
Qed.

Lemma ll_dup_ok : forall s o ids xs, Rep s o ids xs ->
  exists s' cp, ll_dup D ddup s o = Ok (s', cp) /\
    Rep s' cp (seq (length s) (length ids)) (map (option_map ddup) xs) /\
    same_but s s' (seq (length s) (length ids)) /\ length s' = length s + length ids.
Proof.
  intros s o ids xs (Hh & G & N & L). unfold ll_dup.
  destruct ids as [|h rest].
  - destruct xs; [|cbn in G; tauto]. cbn in Hh. rewrite Hh. exists s, (mkLL (ll_len o) None).
    split; [reflexivity|]. split; [|split; [apply same_but_refl|cbn; lia]].
    rep_split; cbn; auto; try constructor.
  - destruct xs as [|xh xrest]; [cbn in G; tauto|]. cbn [hd_ptr] in Hh. rewrite Hh. cbn [ll_len ll_head].
    pose proof G as G'. cbn [LListHeap.seg] in G'. destruct G' as [Gh _].
    destruct (item_dup_ok s h _ _ Gh) as (s1 & it & E1 & Hit & N1 & S1 & L1). rewrite E1. cbn [bind].
    assert (Bnd : forall j, In j (h :: rest) -> j < length s).
    { intros j Hj. exact (seg_in_lt D _ _ _ _ _ G Hj). }
    destruct (dup_loop_ok rest h xh xrest s1 (fuel_of D s1) it (option_map ddup xh)) as (s2 & dm & dl & E2 & Edm & G2 & S2 & L2).
    + eapply seg_same_but; [exact S1| |exact G]. intros j Hj [<-|[]]. specialize (Bnd _ Hj). lia.
    + exact N1.
    + intros Hj. specialize (Bnd _ Hj). lia.
    + unfold fuel_of. pose proof (ids_le_store D _ _ _ _ G N) as Q. cbn in Q. lia.
    + rewrite E2. cbn [bind].
      replace (length s1) with (S (length s)) in * by lia. rewrite <- Hit in *.
      assert (Gdl : exists x, nth_error s2 dl = Some (Some (mkNode x None))).
      { pose proof G2 as G2'. rewrite Edm in G2'. apply seg_mid in G2'.
        destruct G2' as (xa & xb & xc & _ & _ & Q & _ & Gc). destruct xc; [|cbn in Gc; tauto]. eauto. }
      destruct Gdl as [xl Gdl].
      destruct (set_next_ex s2 dl _ None Gdl) as (s3 & E3 & N3 & S3 & L3). rewrite E3. cbn [bind].
      eexists _, _. split; [reflexivity|].
      assert (Eq23 : forall j, nth_error s3 j = nth_error s2 j).
      { intros j. destruct (Nat.eq_dec j dl) as [->|Q]; [rewrite N3, Gdl; reflexivity|].
        apply S3. intros [Q'|[]]. congruence. }
      split; [|split].
      * rep_split; cbn [ll_head ll_len length seq map hd_ptr].
        -- reflexivity.
        -- eapply seg_ext; [|exact G2]. intros j _. apply Eq23.
        -- rewrite Hit. apply (seq_NoDup (S (length rest)) (length s)).
        -- rewrite map_length. exact L.
      * intros j Hj. rewrite Eq23. cbn [length seq] in Hj.
        rewrite S2 by exact Hj. apply S1. intros [Q|[]]. apply Hj. left. exact Q.
      * cbn [length]. lia.
Qed.

(* ---- the data of one item replaced in place (map set on an existing key) ------------------------- *)
Lemma seg_replace_data : forall s s' pre c post xpre xc xpost x',
  seg s (pre ++ c :: post) (xpre ++ xc :: xpost) None -> length pre = length xpre ->
  NoDup (pre ++ c :: post) ->
  nth_error s' c = Some (Some (mkNode x' (hd_ptr post None))) -> same_but s s' [c] ->
  seg s' (pre ++ c :: post) (xpre ++ x' :: xpost) None.
Proof.
  intros s s' pre c post xpre xc xpost x' G L N Hc S.
  apply seg_app in G; [|exact L]. destruct G as [Gpre Gc]. cbn in Gc. destruct Gc as [_ Gpost].
  destruct (NoDup_mid _ _ _ N) as (N1 & N2 & N3 & N4 & N5).
  apply seg_app; [exact L|]. split.
  - eapply seg_same_but; [exact S| |exact Gpre]. intros i Hi [<-|[]]. tauto.
  - cbn. split; [exact Hc|].
    eapply seg_same_but; [exact S| |exact Gpost]. intros i Hi [<-|[]]. tauto.
Qed.

(* ---- as many live items as elements ---------------------------------------------------------- *)
Lemma live_count_none : forall s : store, (forall i n, nth_error s i <> Some (Some n)) -> live_count D s = 0.
Proof.
  induction s as [|[n|] t IH]; intros H; [reflexivity| |].
  - exfalso. apply (H 0 n). reflexivity.
  - unfold live_count in *. cbn. apply IH. intros i n. apply (H (S i) n).
Qed.

Lemma live_count_upd : forall (s : store) c n, nth_error s c = Some (Some n) ->
  live_count D s = S (live_count D (upd D s c None)).
Proof.
  induction s as [|x t IH]; intros [|c] n H; cbn in H; try discriminate.
  - inversion H; subst. reflexivity.
  - unfold live_count in *. cbn [upd filter]. destruct x; cbn [length]; rewrite (IH c n H); reflexivity.
Qed.

Lemma live_count_ids : forall ids (s : store), NoDup ids ->
  (forall i, In i ids -> exists n, nth_error s i = Some (Some n)) -> closed s ids ->
  live_count D s = length ids.
Proof.
  induction ids as [|c rest IH]; intros s N A C.
  - apply live_count_none. intros i n Q. exact (C i n Q).
  - inversion N as [|? ? Nc N']; subst. destruct (A c (or_introl eq_refl)) as [n Hn].
    rewrite (live_count_upd s c n Hn). cbn [length]. f_equal. apply IH; [exact N'| |].
    + intros i Hi. destruct (A i (or_intror Hi)) as [m Hm]. exists m.
      rewrite nth_upd_neq; [exact Hm|]. intros ->. contradiction.
    + intros j m Q. destruct (Nat.eq_dec j c) as [->|Ne].
      * rewrite (nth_upd_eq_live D _ _ _ _ Hn) in Q. discriminate.
      * rewrite nth_upd_neq in Q by exact Ne. destruct (C j m Q) as [<-|Hj]; [congruence|exact Hj].
Qed.

Lemma Repr_live_count : forall s o xs, Repr s o xs -> live_count D s = length xs.
Proof.
  intros s o xs (ids & (Hh & G & N & L) & C). rewrite <- (seg_length D _ _ _ _ G).
  apply live_count_ids; [exact N| |exact C]. intros i Hi. eapply seg_in_node; eauto.
Qed.

End Ops.
