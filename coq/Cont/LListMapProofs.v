(* LListMapProofs - class linked_list through the map interface refines the ideal dictionary
   (ContSpec.map_step): for every history the pointer-level model (LListModel.ll_map_step) returns Ok
   - never a Fault -, the outputs of the ideal dictionary, and ends in a store whose head->next chain
   spells the ideal association list (strictly ascending keys), len = its length, no other live item. *)
From LV Require Import Cont.ContSpec Cont.ContKey Cont.MapProofs Cont.LListModel Cont.LListHeap Cont.LListOps.
From Coq Require Import Sorting.Sorted.
Local Open Scope nat_scope.

Definition ReprM (s : mstore) (o : llist) (m : mstate) : Prop := Repr pair s o (map Some m).

(* ---- loops of the map functions ------------------------------------------------------------- *)
Lemma set_loop_ok : forall ids m (s : mstore) fuel k, seg pair s ids (map Some m) None -> length ids <= fuel ->
  ((forall p, In p m -> fst p <> k) /\ set_loop fuel s k (hd_ptr ids None) = Ok None) \/
  (exists i1 c i2 m1 v0 m2, ids = i1 ++ c :: i2 /\ m = m1 ++ (k, v0) :: m2 /\ length i1 = length m1 /\
     (forall p, In p m1 -> fst p <> k) /\ set_loop fuel s k (hd_ptr ids None) = Ok (Some c)).
Proof.
  induction ids as [|c rest IH]; intros m s fuel k G F; (destruct m as [|[k0 v0] m]; try (cbn in G; tauto)).
  - left. split; [intros p []|destruct fuel; reflexivity].
  - destruct fuel as [|f]; [cbn in F; lia|]. cbn [map LListHeap.seg] in G. destruct G as [G1 G2].
    cbn [hd_ptr set_loop]. rewrite (rd_ok pair _ _ _ G1). cbn [bind ndata nnext comp_data_probe fst].
    destruct (key_cmp k0 k) eqn:Q; cbn [cmp_eq].
    + apply key_cmp_eq in Q. subst k0. right. exists [], c, rest, [], v0, m. cbn. repeat split; auto; intros p [].
    + destruct (IH m s f k G2) as [[A E]|(i1 & c' & i2 & m1 & v1 & m2 & E1 & E2 & E3 & A & E)]; [cbn in F; lia| |].
      * left. split; [|exact E]. intros p [<-|Hp]; [cbn; intros ->; rewrite key_cmp_refl in Q; discriminate|auto].
      * subst rest m. right. exists (c :: i1), c', i2, ((k0, v0) :: m1), v1, m2. cbn [app length]. rewrite E3.
        repeat split; auto. intros p [<-|Hp]; [cbn; intros ->; rewrite key_cmp_refl in Q; discriminate|auto].
    + destruct (IH m s f k G2) as [[A E]|(i1 & c' & i2 & m1 & v1 & m2 & E1 & E2 & E3 & A & E)]; [cbn in F; lia| |].
      * left. split; [|exact E]. intros p [<-|Hp]; [cbn; intros ->; rewrite key_cmp_refl in Q; discriminate|auto].
      * subst rest m. right. exists (c :: i1), c', i2, ((k0, v0) :: m1), v1, m2. cbn [app length]. rewrite E3.
        repeat split; auto. intros p [<-|Hp]; [cbn; intros ->; rewrite key_cmp_refl in Q; discriminate|auto].
Qed.

Lemma has_value_loop_ok : forall ids m (s : mstore) fuel v, seg pair s ids (map Some m) None -> length ids <= fuel ->
  has_value_loop fuel s v (hd_ptr ids None) = Ok (m_has_value m v).
Proof.
  induction ids as [|c rest IH]; intros m s fuel v G F; (destruct m as [|[k0 v0] m]; try (cbn in G; tauto)).
  - destruct fuel; reflexivity.
  - destruct fuel as [|f]; [cbn in F; lia|]. cbn [map LListHeap.seg] in G. destruct G as [G1 G2].
    cbn [hd_ptr has_value_loop]. rewrite (rd_ok pair _ _ _ G1). cbn [bind ndata nnext].
    unfold m_has_value. cbn [existsb snd]. change (cmp_eq (key_cmp v0 v)) with (key_eqb v0 v).
    destruct (key_eqb v0 v); [reflexivity|]. cbn [orb]. apply IH; [exact G2|cbn in F; lia].
Qed.

Lemma collect_loop_ok : forall A (f : pair -> A) ids m (s : mstore) fuel,
  seg pair s ids (map Some m) None -> length ids <= fuel ->
  collect_loop fuel f s (hd_ptr ids None) = Ok (map f m).
Proof.
  intros A f. induction ids as [|c rest IH]; intros m s fuel G F; (destruct m as [|p m]; try (cbn in G; tauto)).
  - destruct fuel; reflexivity.
  - destruct fuel as [|f']; [cbn in F; lia|]. cbn [map LListHeap.seg] in G. destruct G as [G1 G2].
    cbn [hd_ptr collect_loop]. rewrite (rd_ok pair _ _ _ G1). cbn [bind ndata nnext].
    rewrite (IH m s f' G2); [reflexivity|cbn in F; lia].
Qed.

Lemma all_some_map : forall A (l : list A), all_some (map Some l) = Ok l.
Proof. induction l as [|x t IH]; [reflexivity|]. cbn. rewrite IH. reflexivity. Qed.

(* ---- the generic sequence functions on association lists ---------------------------------------- *)
Lemma g_ins_tail_map : forall k v t, (forall p, In p t -> fst p <> k) ->
  g_ins_tail pair fst (k, v) (map Some t) = map Some (fst (m_set k v t)) /\ snd (m_set k v t) = false.
Proof.
  intros k v t. induction t as [|[k0 v0] t IH]; intros A; [cbn; auto|].
  cbn [map g_ins_tail g_gt m_set fst]. unfold key_gtb.
  destruct (key_cmp k k0) eqn:Q.
  - apply key_cmp_eq in Q. exfalso. apply (A (k0, v0)); [left; reflexivity|cbn; congruence].
  - cbn. auto.
  - destruct IH as [I1 I2]; [intros p Hp; apply A; right; exact Hp|].
    destruct (m_set k v t) as [t' r]. cbn [fst snd map] in *. rewrite I1. auto.
Qed.

Lemma g_ins_map : forall k v m, (forall p, In p m -> fst p <> k) ->
  g_ins pair fst (k, v) (map Some m) = map Some (fst (m_set k v m)) /\ snd (m_set k v m) = false.
Proof.
  intros k v [|[k0 v0] t] A; [cbn; auto|].
  cbn [map g_ins g_lt m_set fst]. unfold key_ltb.
  destruct (key_cmp k k0) eqn:Q.
  - apply key_cmp_eq in Q. exfalso. apply (A (k0, v0)); [left; reflexivity|cbn; congruence].
  - cbn. auto.
  - destruct (g_ins_tail_map k v t) as [I1 I2]; [intros p Hp; apply A; right; exact Hp|].
    destruct (m_set k v t) as [t' r]. cbn [fst snd map] in *. rewrite I1. auto.
Qed.

Lemma m_set_found : forall m1 k v0 v m2, msorted (m1 ++ (k, v0) :: m2) ->
  m_set k v (m1 ++ (k, v0) :: m2) = (m1 ++ (k, v) :: m2, true).
Proof.
  induction m1 as [|[k1 v1] m1 IH]; intros k v0 v m2 S.
  - cbn. rewrite key_cmp_refl. reflexivity.
  - cbn [app m_set]. unfold msorted in S. cbn [app map fst] in S. apply StronglySorted_inv in S. destruct S as [St Hh].
    assert (L : key_lt k1 k).
    { rewrite Forall_forall in Hh. apply Hh. rewrite map_app. apply in_or_app. right. left. reflexivity. }
    rewrite (proj2 (key_cmp_gt_lt k k1) L). rewrite (IH k v0 v m2 St). reflexivity.
Qed.

Lemma g_vfind_map : forall k m, msorted m -> option_map snd (g_vfind pair fst k m) = m_get m k.
Proof.
  intros k m. induction m as [|[k0 v0] t IH]; intros S; [reflexivity|].
  unfold msorted in S. cbn [map fst] in S. apply StronglySorted_inv in S. destruct S as [St Hh].
  cbn [g_vfind m_get fst]. unfold key_eqb. rewrite (key_cmp_antisym k0 k).
  destruct (key_cmp k0 k) eqn:Q; cbn [CompOpp option_map snd]; [reflexivity|exact (IH St)|].
  symmetry. apply m_get_below. eapply Forall_impl; [|exact Hh].
  intros y Hy. eapply key_lt_trans; [|exact Hy]. apply key_cmp_gt_lt. exact Q.
Qed.

Lemma g_rem_map : forall k m,
  g_rem pair fst k (map Some m) = (map Some (fst (m_remove k m)), snd (m_remove k m)).
Proof.
  intros k m. induction m as [|[k0 v0] t IH]; [reflexivity|]. cbn [map g_rem m_remove g_eq fst].
  destruct (key_eqb k k0); [reflexivity|]. rewrite IH. destruct (m_remove k t). reflexivity.
Qed.

(* ---- one step ------------------------------------------------------------------------------ *)
Lemma llm_set_ok : forall s o m k v, ReprM s o m -> msorted m ->
  exists s' o', llm_set s o k v = Ok (s', o', snd (m_set k v m)) /\ ReprM s' o' (fst (m_set k v m)).
Proof.
  unfold ReprM. intros s o m k v R S. pose proof R as (ids & (Hh & G & N & L) & C).
  unfold llm_set. rewrite Hh.
  destruct (set_loop_ok ids m s (fuel_of pair s) k G) as [[A E]|(i1 & c & i2 & m1 & v0 & m2 & E1 & E2 & E3 & A & E)].
  { unfold fuel_of. pose proof (ids_le_store pair _ _ _ _ G N). lia. }
  - rewrite E. cbn [bind].
    destruct (ll_insert_ok pair fst s o _ (k, v) R) as (s' & o' & E' & R'). rewrite E'. cbn [bind].
    destruct (g_ins_map k v m A) as [I1 I2]. rewrite I1 in R'. rewrite I2. eauto.
  - rewrite E. cbn [bind]. subst ids m. rewrite map_app in G. cbn [map] in G.
    assert (Lm : length i1 = length (map Some m1)) by (rewrite map_length; exact E3).
    pose proof G as G'. apply seg_app in G'; [|exact Lm]. destruct G' as [_ Gc]. cbn [LListHeap.seg] in Gc.
    destruct Gc as [Nc _].
    rewrite (rd_ok pair _ _ _ Nc). cbn [bind ndata].
    destruct (set_data_ex pair s c _ (Some (k, v)) Nc) as (s1 & E1 & N1 & S1 & L1). rewrite E1. cbn [bind].
    rewrite (m_set_found m1 k v0 v m2 S). cbn [fst snd].
    eexists _, _. split; [reflexivity|]. exists (i1 ++ c :: i2). split.
    + rep_split; auto.
      * rewrite map_app. cbn [map]. eapply seg_replace_data; eauto.
      * rewrite L. rewrite !map_length, !app_length. reflexivity.
    + eapply closed_step; [exact C|exact S1| |].
      * intros j n [<-|[]] _. apply in_or_app. right. left. reflexivity.
      * intros j Hj _. exact Hj.
Qed.

Lemma ll_map_step_ok : forall s o m op, ReprM s o m -> msorted m ->
  exists s' o', ll_map_step (s, o) op = Ok ((s', o'), snd (map_step m op)) /\
    ReprM s' o' (fst (map_step m op)).
Proof.
  intros s o m op R S. pose proof R as (ids & R0 & C0). pose proof R0 as (Hh & G & N & L).
  assert (F : length ids <= fuel_of pair s).
  { unfold fuel_of. pose proof (ids_le_store pair _ _ _ _ G N). lia. }
  destruct op; cbn [ll_map_step map_step fst snd].
  - destruct (llm_set_ok s o m k v R S) as (s' & o' & E & R'). rewrite E. cbn [bind].
    destruct (m_set k v m) as [m' r]. cbn [fst snd] in *. eauto.
  - unfold llm_get. rewrite (ll_vector_find_ok pair fst _ _ _ _ k R0). cbn [bind].
    rewrite g_vfind_map by exact S. eauto.
  - destruct (ll_remove_gen_ok pair fst (comp_data_probe pair fst) s o _ (Some k) R) as (s' & o' & E & R').
    { intros pk x _ Hx. apply in_map_iff in Hx. destruct Hx as (y & <- & _). apply cmp_agrees_data. }
    unfold ll_map_remove. rewrite E. cbn [bind]. rewrite g_rem_map in *.
    destruct (m_remove k m) as [m' r]. cbn [fst snd] in *. eauto.
  - unfold llm_has_key, llm_get. rewrite (ll_vector_find_ok pair fst _ _ _ _ k R0). cbn [bind].
    rewrite <- g_vfind_map by exact S. destruct (g_vfind pair fst k m); cbn; eauto.
  - unfold llm_has_value. rewrite Hh. rewrite (has_value_loop_ok ids m s _ v G F). cbn [bind]. eauto.
  - unfold ll_count. rewrite L, map_length. eauto.
  - unfold llm_get_keys. rewrite Hh. rewrite (collect_loop_ok _ fst ids m s _ G F). cbn [bind]. eauto.
  - unfold llm_get_values. rewrite Hh. rewrite (collect_loop_ok _ snd ids m s _ G F). cbn [bind]. eauto.
  - unfold llm_get_pairs. rewrite Hh. rewrite (collect_loop_ok _ pdup ids m s _ G F). cbn [bind].
    unfold pdup. rewrite map_id. eauto.
  - rewrite (ll_iterate_ok pair _ _ _ _ R0). cbn [bind]. rewrite all_some_map. cbn [bind].
    rewrite it_sweep_exact by lia. eauto.
  - eauto.
  - eauto.
  - eauto.
  - eauto.
  - eauto.
Qed.

(* ---- histories ----------------------------------------------------------------------------- *)
Theorem linked_list_map_refines_from : forall ops s o m, ReprM s o m -> msorted m ->
  exists s' o', run_model ll_map_step (s, o) ops = Ok ((s', o'), outs map_step m ops) /\
    ReprM s' o' (final map_step m ops) /\ msorted (final map_step m ops).
Proof.
  induction ops as [|op t IH]; intros s o m R S.
  - exists s, o. split; [reflexivity|]. split; assumption.
  - destruct (ll_map_step_ok s o m op R S) as (s1 & o1 & E1 & R1).
    destruct (IH s1 o1 _ R1 (map_step_sorted m op S)) as (s2 & o2 & E2 & R2 & S2).
    exists s2, o2. cbn [run_model outs]. rewrite E1. cbn [bind]. rewrite E2. cbn [bind].
    rewrite final_cons. split; [reflexivity|]. split; assumption.
Qed.

Theorem linked_list_map_refines : forall ops,
  exists s' o', run_model ll_map_step mst0 ops = Ok ((s', o'), outs map_step [] ops) /\
    ReprM s' o' (final map_step [] ops) /\ msorted (final map_step [] ops).
Proof. intros ops. apply linked_list_map_refines_from; [apply Repr_nil|constructor]. Qed.

Corollary linked_list_map_safe : forall ops, is_ok (run_model ll_map_step mst0 ops) = true.
Proof. intros ops. destruct (linked_list_map_refines ops) as (s' & o' & E & _). rewrite E. reflexivity. Qed.

(* read-back of the harness (get_keys, get_values, get_pairs, fresh iterator, count) *)
Lemma ll_map_readback_ok : forall s o m, ReprM s o m ->
  ll_map_readback (s, o) = Ok (Z.of_nat (length m), map fst m, map snd m, m, m).
Proof.
  intros s o m (ids & R0 & C0). pose proof R0 as (Hh & G & N & L).
  assert (F : length ids <= fuel_of pair s).
  { unfold fuel_of. pose proof (ids_le_store pair _ _ _ _ G N). lia. }
  unfold ll_map_readback, llm_get_keys, llm_get_values, llm_get_pairs. rewrite Hh.
  rewrite (collect_loop_ok _ fst ids m s _ G F), (collect_loop_ok _ snd ids m s _ G F),
    (collect_loop_ok _ pdup ids m s _ G F). cbn [bind].
  rewrite (ll_iterate_ok pair _ _ _ _ R0). cbn [bind]. rewrite all_some_map. cbn [bind].
  unfold ll_count, pdup. rewrite L, map_length, map_id. reflexivity.
Qed.

(* tear-down frees every item *)
Theorem linked_list_map_no_leak : forall ops,
  exists s' o' s'', run_model ll_map_step mst0 ops = Ok ((s', o'), outs map_step [] ops) /\
    ll_del pair s' o' = Ok s'' /\ forall j n, nth_error s'' j <> Some (Some n).
Proof.
  intros ops. destruct (linked_list_map_refines ops) as (s' & o' & E & R & _).
  destruct (ll_del_no_leak pair s' o' _ R) as (s'' & E' & A). eauto 8.
Qed.

Lemma ReprM_dump : forall s o m, ReprM s o m ->
  ll_dump pair s o = Ok (map Some m) /\ ll_len o = Z.of_nat (length m).
Proof.
  intros s o m (ids & R & _). split; [eapply ll_dump_ok; eauto|].
  destruct R as (_ & _ & _ & L). rewrite L, map_length. reflexivity.
Qed.
