(* DListModel - pointer-level model of /repo/src/dlinked_list.c (the repaired tree), for the three
   interfaces the class implements (list_if.h, vector_if.h, map_if.h) and its iterator.
   Executable, no proofs in this file (Cont/DListProofs*.v hold them).

   STORE.  List items (spif_dlinked_list_item_t: data, prev, next) live in a store
   `list (option node)`: the address of an item is its index, allocation appends a cell, free
   sets the cell to None, and every access to a freed or unknown address is Fault
   Use_after_free, every access through NULL is Fault Null_deref.  Every `x->next = y`,
   `x->prev = y`, `x->data = d` of the C file is one store update (set_next / set_prev /
   set_data).  The container object itself (len, head, tail) is the record `dl`, passed by value.
   Traversals run on explicit fuel = S (store size); theorems exclude Out_of_fuel through the
   acyclicity that the representation invariant implies.

   DATA.  The model is polymorphic in the data type D of the items:
     list / vector interface : D = ContSpec.elem  (identity + key; SPIF_OBJ_COMP = key_cmp on keys)
     map interface           : D = key * key     (an objpair holding COPIES of key and value;
                                                  spif_objpair_comp compares the pair's key)
   `dcmp a b` is SPIF_OBJ_COMP(a, b) for two non-NULL objects.  Every comp method starts with
   SPIF_OBJ_COMP_CHECK_NULL, hence `ocmp` (non-NULL object against a possibly NULL one) and
   `item_comp` (spif_dlinked_list_item_comp on the data members of two items).
   Deleting / duplicating ELEMENT objects is outside the container's store and not represented
   (C05/C06); a duplicated datum is the same D value.

   INTEGERS.  spif_listidx_t is a 32-bit int: `len++` at INT_MAX and `idx + 1` at INT_MAX are
   Fault Int_overflow. *)
From LV Require Export Base.Res Cont.ContSpec.
Local Open Scope Z_scope.

Definition ptr := option nat.
Definition ptr_eqb (a b : ptr) : bool :=
  match a, b with
  | None, None => true
  | Some x, Some y => Nat.eqb x y
  | _, _ => false
  end.
Definition is_null (p : ptr) : bool := match p with None => true | Some _ => false end.
Definition INT_MAX : Z := 2147483647.

Fixpoint upd {A} (l : list A) (i : nat) (x : A) : list A :=
  match l, i with
  | [], _ => []
  | _ :: t, O => x :: t
  | h :: t, S j => h :: upd t j x
  end.

Section DL.
Variable D : Type.
Variable dcmp : D -> D -> comparison.

Record node : Type := mkNode { ndata : option D; nprev : ptr; nnext : ptr }.
Definition store := list (option node).
Record dl : Type := mkDl { dlen : Z; dhead : ptr; dtail : ptr }.

(* spif_dlinked_list_init / _vector_init / _map_init *)
Definition dl_init : dl := mkDl 0 None None.

(* ---------------------------------------------------------------------------------------- *)
(* checked memory access *)
Definition lookup (st : store) (i : nat) : option node :=
  match nth_error st i with Some (Some nd) => Some nd | _ => None end.

Definition rd (st : store) (p : ptr) : res node :=
  match p with
  | None => Fault Null_deref
  | Some i => match lookup st i with Some nd => Ok nd | None => Fault Use_after_free end
  end.

Definition modify (st : store) (p : ptr) (f : node -> node) : res store :=
  match p with
  | None => Fault Null_deref
  | Some i => match lookup st i with
              | Some nd => Ok (upd st i (Some (f nd)))
              | None => Fault Use_after_free
              end
  end.
Definition set_data (st : store) (p : ptr) (d : option D) : res store :=
  modify st p (fun nd => mkNode d (nprev nd) (nnext nd)).
Definition set_prev (st : store) (p q : ptr) : res store :=
  modify st p (fun nd => mkNode (ndata nd) q (nnext nd)).
Definition set_next (st : store) (p q : ptr) : res store :=
  modify st p (fun nd => mkNode (ndata nd) (nprev nd) q).

(* SPIF_ALLOC + spif_dlinked_list_item_init *)
Definition item_new (st : store) : store * ptr :=
  (st ++ [Some (mkNode None None None)], Some (length st)).

(* spif_dlinked_list_item_del: item_done (the data member is NULL or an element object whose
   deletion is outside this store) + SPIF_DEALLOC *)
Definition item_del (st : store) (p : ptr) : res store :=
  match p with
  | None => Fault Null_deref
  | Some i => match lookup st i with
              | Some _ => Ok (upd st i None)
              | None => Fault Bad_free
              end
  end.

Definition fuel_of (st : store) : nat := S (length st).

Definition inc_len (o : dl) : res dl :=
  if dlen o <? INT_MAX then Ok (mkDl (dlen o + 1) (dhead o) (dtail o)) else Fault Int_overflow.
Definition dec_len (o : dl) : dl := mkDl (dlen o - 1) (dhead o) (dtail o).

(* ---------------------------------------------------------------------------------------- *)
(* comparisons *)
Definition ocmp (a : D) (b : option D) : comparison :=
  match b with None => Gt | Some y => dcmp a y end.
Definition item_comp (a b : option D) : comparison :=
  match a, b with
  | None, None => Eq
  | None, Some _ => Lt
  | Some _, None => Gt
  | Some x, Some y => dcmp x y
  end.
(* spif_dlinked_list_item_comp(self, other) on item pointers *)
Definition item_comp_p (st : store) (a b : ptr) : res comparison :=
  match a, b with
  | None, None => Ok Eq
  | None, Some _ => Ok Lt
  | Some _, None => Ok Gt
  | Some _, Some _ => na <- rd st a;; nb <- rd st b;; Ok (item_comp (ndata na) (ndata nb))
  end.
Definition is_eq (c : comparison) : bool := match c with Eq => true | _ => false end.
Definition is_lt (c : comparison) : bool := match c with Lt => true | _ => false end.
Definition is_gt (c : comparison) : bool := match c with Gt => true | _ => false end.

(* ---------------------------------------------------------------------------------------- *)
(* append / prepend *)
Definition dl_append (st : store) (o : dl) (obj : option D) : res (store * dl * bool) :=
  let (st, item) := item_new st in
  st <- set_data st item obj;;
  '(st, o) <- match dtail o with
              | Some _ =>
                st <- set_prev st item (dtail o);;          (* item->prev = self->tail *)
                ni <- rd st item;;
                st <- set_next st (nprev ni) item;;          (* item->prev->next = item *)
                Ok (st, mkDl (dlen o) (dhead o) item)        (* self->tail = item *)
              | None =>
                st <- set_prev st item None;;
                Ok (st, mkDl (dlen o) item item)             (* self->tail = self->head = item *)
              end;;
  st <- set_next st item None;;
  o <- inc_len o;;
  Ok (st, o, true).

Definition dl_prepend (st : store) (o : dl) (obj : option D) : res (store * dl * bool) :=
  let (st, item) := item_new st in
  st <- set_data st item obj;;
  '(st, o) <- match dhead o with
              | Some _ =>
                let current := dhead o in
                st <- set_prev st current item;;             (* current->prev = item *)
                st <- set_next st item current;;             (* item->next = current *)
                Ok (st, mkDl (dlen o) item (dtail o))        (* self->head = item *)
              | None => Ok (st, mkDl (dlen o) item item)
              end;;
  o <- inc_len o;;
  Ok (st, o, true).

(* ---------------------------------------------------------------------------------------- *)
(* forward scans: for (current = head; current && !stop(current->data); current = current->next)
   with a counter; returns the item at which the scan stopped (NULL at the end) and the counter *)
Fixpoint scan (fuel : nat) (st : store) (cur : ptr) (stop : option D -> res bool) (i : Z)
  : res (ptr * Z) :=
  match fuel with
  | O => Fault Out_of_fuel
  | S f =>
    match cur with
    | None => Ok (None, i)
    | Some _ =>
      nd <- rd st cur;;
      b <- stop (ndata nd);;
      if b then Ok (cur, i) else scan f st (nnext nd) stop (i + 1)
    end
  end.

Definition eq_stop (obj : D) (d : option D) : res bool := Ok (is_eq (ocmp obj d)).

Definition data_of (st : store) (cur : ptr) : res (option D) :=
  match cur with None => Ok None | Some _ => nd <- rd st cur;; Ok (ndata nd) end.

(* spif_dlinked_list_find *)
Definition dl_find (st : store) (o : dl) (obj : option D) : res (option D) :=
  match obj with
  | None => Ok None                                           (* REQUIRE_RVAL(!SPIF_OBJ_ISNULL(obj)) *)
  | Some p => '(cur, _) <- scan (fuel_of st) st (dhead o) (eq_stop p) 0;; data_of st cur
  end.
Definition dl_contains (st : store) (o : dl) (obj : option D) : res bool :=
  r <- dl_find st o obj;; Ok (negb (match r with None => true | Some _ => false end)).

(* spif_dlinked_list_index (obj non-NULL) *)
Definition dl_index (st : store) (o : dl) (obj : D) : res Z :=
  '(cur, i) <- scan (fuel_of st) st (dhead o) (eq_stop obj) 0;;
  Ok (if is_null cur then -1 else i).

(* ordered scans with early exit: spif_dlinked_list_vector_find, spif_dlinked_list_map_get *)
Inductive act := Found | Stop | Next.
Fixpoint scan_ord (fuel : nat) (st : store) (cur : ptr) (f : option D -> act) : res (option D) :=
  match fuel with
  | O => Fault Out_of_fuel
  | S fu =>
    match cur with
    | None => Ok None
    | Some _ =>
      nd <- rd st cur;;
      match f (ndata nd) with
      | Found => Ok (ndata nd)
      | Stop => Ok None
      | Next => scan_ord fu st (nnext nd) f
      end
    end
  end.
Definition vfind_act (obj : D) (d : option D) : act :=
  match ocmp obj d with Eq => Found | Lt => Stop | Gt => Next end.
Definition dl_vector_find (st : store) (o : dl) (obj : option D) : res (option D) :=
  match obj with
  | None => Ok None
  | Some p => scan_ord (fuel_of st) st (dhead o) (vfind_act p)
  end.
Definition dl_vector_contains (st : store) (o : dl) (obj : option D) : res bool :=
  r <- dl_vector_find st o obj;; Ok (negb (match r with None => true | Some _ => false end)).

(* ---------------------------------------------------------------------------------------- *)
(* index walks *)
(* for (current = head, i = 0; current && i < idx; i++, current = current->next) *)
Fixpoint walk_fwd (fuel : nat) (st : store) (cur : ptr) (i idx : Z) : res ptr :=
  match fuel with
  | O => Fault Out_of_fuel
  | S f =>
    match cur with
    | None => Ok None
    | Some _ => if i <? idx then nd <- rd st cur;; walk_fwd f st (nnext nd) (i + 1) idx else Ok cur
    end
  end.
(* for (current = tail, i = len - 1; current && i > idx; i--, current = current->prev) *)
Fixpoint walk_back (fuel : nat) (st : store) (cur : ptr) (i idx : Z) : res ptr :=
  match fuel with
  | O => Fault Out_of_fuel
  | S f =>
    match cur with
    | None => Ok None
    | Some _ => if idx <? i then nd <- rd st cur;; walk_back f st (nprev nd) (i - 1) idx else Ok cur
    end
  end.

Definition norm (o : dl) (idx : Z) : Z := if idx <? 0 then idx + dlen o else idx.

(* the item at a position that passed the range checks: from the nearer end *)
Definition locate (st : store) (o : dl) (idx : Z) : res ptr :=
  if Z.quot (dlen o) 2 <? idx
  then walk_back (fuel_of st) st (dtail o) (dlen o - 1) idx
  else walk_fwd (fuel_of st) st (dhead o) 0 idx.

(* spif_dlinked_list_get *)
Definition dl_get (st : store) (o : dl) (idx : Z) : res (option D) :=
  let idx := norm o idx in
  if idx <? 0 then Ok None
  else if negb (idx <? dlen o) then Ok None
  else cur <- locate st o idx;; data_of st cur.

(* ---------------------------------------------------------------------------------------- *)
(* unlinking an item (shared text of remove and remove_at) *)
Definition unlink (st : store) (o : dl) (tmp : ptr) : res (store * dl * option D) :=
  nt <- rd st tmp;;
  st <- (if is_null (nprev nt) then Ok st else set_next st (nprev nt) (nnext nt));;
  nt <- rd st tmp;;
  st <- (if is_null (nnext nt) then Ok st else set_prev st (nnext nt) (nprev nt));;
  nt <- rd st tmp;;
  let o := if ptr_eqb tmp (dhead o) then mkDl (dlen o) (nnext nt) (dtail o) else o in
  let o := if ptr_eqb tmp (dtail o) then mkDl (dlen o) (dhead o) (nprev nt) else o in
  let item := ndata nt in
  st <- set_data st tmp None;;
  st <- item_del st tmp;;
  Ok (st, dec_len o, item).

(* spif_dlinked_list_remove (list and vector interface) *)
Definition dl_remove (st : store) (o : dl) (item : option D) : res (store * dl * option D) :=
  match item with
  | None => Ok (st, o, None)
  | Some p =>
    if is_null (dhead o) then Ok (st, o, None)
    else
      '(cur, _) <- scan (fuel_of st) st (dhead o) (eq_stop p) 0;;
      if is_null cur then Ok (st, o, None) else unlink st o cur
  end.

(* spif_dlinked_list_remove_at *)
Definition dl_remove_at (st : store) (o : dl) (idx : Z) : res (store * dl * option D) :=
  if is_null (dhead o) then Ok (st, o, None)
  else
    let idx := norm o idx in
    if idx <? 0 then Ok (st, o, None)
    else if negb (idx <? dlen o) then Ok (st, o, None)
    else
      cur <- locate st o idx;;
      if is_null cur then Ok (st, o, None) else unlink st o cur.

(* ---------------------------------------------------------------------------------------- *)
(* ordered insert (list, vector and - through set - map interface) *)
(* for (current = head; current->next && GREATER(item_comp(item, current->next)); current = current->next) *)
Fixpoint ins_scan (fuel : nat) (st : store) (item cur : ptr) : res ptr :=
  match fuel with
  | O => Fault Out_of_fuel
  | S f =>
    nc <- rd st cur;;
    match nnext nc with
    | None => Ok cur
    | Some _ =>
      c <- item_comp_p st item (nnext nc);;
      if is_gt c then ins_scan f st item (nnext nc) else Ok cur
    end
  end.

Definition dl_insert (st : store) (o : dl) (obj : option D) : res (store * dl * bool) :=
  let fuel := fuel_of st in
  let (st, item) := item_new st in
  st <- set_data st item obj;;
  '(st, o) <-
    (if is_null (dhead o) then Ok (st, mkDl (dlen o) item item)
     else
       c <- item_comp_p st item (dhead o);;
       if is_lt c then
         st <- set_next st item (dhead o);;                   (* item->next = self->head *)
         st <- set_prev st (dhead o) item;;                   (* self->head->prev = item *)
         Ok (st, mkDl (dlen o) item (dtail o))
       else
         c <- item_comp_p st item (dtail o);;
         if is_gt c then
           st <- set_prev st item (dtail o);;                 (* item->prev = self->tail *)
           st <- set_next st (dtail o) item;;                 (* self->tail->next = item *)
           Ok (st, mkDl (dlen o) (dhead o) item)
         else
           cur <- ins_scan fuel st item (dhead o);;
           nc <- rd st cur;;
           st <- set_next st item (nnext nc);;                (* item->next = current->next *)
           st <- set_prev st item cur;;                       (* item->prev = current *)
           nc <- rd st cur;;
           '(st, o) <- (if is_null (nnext nc) then Ok (st, mkDl (dlen o) (dhead o) item)
                        else st <- set_prev st (nnext nc) item;; Ok (st, o));;
           st <- set_next st cur item;;                       (* current->next = item *)
           Ok (st, o));;
  o <- inc_len o;;
  Ok (st, o, true).

(* ---------------------------------------------------------------------------------------- *)
(* insert_at *)
(* for (i = self->len; i < idx; i++) append(self, NULL) *)
Fixpoint pad_loop (n : nat) (st : store) (o : dl) : res (store * dl) :=
  match n with
  | O => Ok (st, o)
  | S n' => '(st, o, _) <- dl_append st o None;; pad_loop n' st o
  end.
(* for (current = tail, i = len; current->prev && i > idx; i--, current = current->prev) *)
Fixpoint back_to (fuel : nat) (st : store) (cur : ptr) (i idx : Z) : res (ptr * Z) :=
  match fuel with
  | O => Fault Out_of_fuel
  | S f =>
    nc <- rd st cur;;
    if negb (is_null (nprev nc)) && (idx <? i) then back_to f st (nprev nc) (i - 1) idx else Ok (cur, i)
  end.
(* for (current = head, i = 1; current->next && i < idx; i++, current = current->next) *)
Fixpoint fwd_to (fuel : nat) (st : store) (cur : ptr) (i idx : Z) : res (ptr * Z) :=
  match fuel with
  | O => Fault Out_of_fuel
  | S f =>
    nc <- rd st cur;;
    if negb (is_null (nnext nc)) && (i <? idx) then fwd_to f st (nnext nc) (i + 1) idx else Ok (cur, i)
  end.

Definition dl_insert_at (st : store) (o : dl) (obj : option D) (idx : Z) : res (store * dl * bool) :=
  let idx := norm o idx in
  if INT_MAX <=? idx then Fault Int_overflow                  (* idx + 1 *)
  else if negb (0 <? idx + 1) then Ok (st, o, false)          (* REQUIRE_RVAL((idx + 1) > 0, FALSE) *)
  else if idx =? 0 then dl_prepend st o obj
  else if idx =? dlen o then dl_append st o obj
  else if dlen o <? idx then
    '(st, o) <- pad_loop (Z.to_nat (idx - dlen o)) st o;;
    dl_append st o obj
  else
    let fuel := fuel_of st in
    '(cur, i) <- (if Z.quot (dlen o) 2 <? idx
                  then back_to fuel st (dtail o) (dlen o) idx
                  else fwd_to fuel st (dhead o) 1 idx);;
    if negb (i =? idx) then Ok (st, o, false)
    else
      let (st, item) := item_new st in
      st <- set_data st item obj;;
      nc <- rd st cur;;
      st <- set_next st item (nnext nc);;                     (* item->next = current->next *)
      st <- set_prev st item cur;;                            (* item->prev = current *)
      nc <- rd st cur;;
      st <- set_prev st (nnext nc) item;;                     (* current->next->prev = item *)
      st <- set_next st cur item;;                            (* current->next = item *)
      o <- inc_len o;;
      Ok (st, o, true).

(* ---------------------------------------------------------------------------------------- *)
(* reverse *)
Fixpoint rev_loop (fuel : nat) (st : store) (cur tmp : ptr) : res (store * ptr) :=
  match fuel with
  | O => Fault Out_of_fuel
  | S f =>
    match cur with
    | None => Ok (st, tmp)
    | Some _ =>
      nc <- rd st cur;;
      (* tmp = current; current = current->next; SWAP(tmp->prev, tmp->next) *)
      st <- modify st cur (fun nd => mkNode (ndata nd) (nnext nd) (nprev nd));;
      rev_loop f st (nnext nc) cur
    end
  end.
Definition dl_reverse (st : store) (o : dl) : res (store * dl * bool) :=
  '(st, tmp) <- rev_loop (fuel_of st) st (dhead o) None;;
  Ok (st, mkDl (dlen o) tmp (dhead o), true).

(* ---------------------------------------------------------------------------------------- *)
(* to_array: a block of exactly len slots, slot i written in iteration i *)
Fixpoint to_array_loop (n : nat) (st : store) (cur : ptr) : res (list (option D)) :=
  match n with
  | O => Ok []
  | S n' => nd <- rd st cur;; l <- to_array_loop n' st (nnext nd);; Ok (ndata nd :: l)
  end.
Definition dl_to_array (st : store) (o : dl) : res (list (option D)) :=
  to_array_loop (Z.to_nat (dlen o)) st (dhead o).

(* ---------------------------------------------------------------------------------------- *)
(* iterator (spif_dlinked_list_iterator_t): subject (non-NULL flag) and current item *)
Record diter : Type := mkIter { it_subject : bool; it_current : ptr }.
Definition dl_iterator (o : dl) : diter := mkIter true (dhead o).
Definition iter_has_next (it : diter) : bool := it_subject it && negb (is_null (it_current it)).
Definition iter_next (st : store) (it : diter) : res (option D * diter) :=
  if negb (it_subject it) then Ok (None, it)
  else if is_null (it_current it) then Ok (None, it)
  else nd <- rd st (it_current it);; Ok (ndata nd, mkIter (it_subject it) (nnext nd)).
(* the client loop `while (has_next) next`, at most fuel rounds; flag = has_next had become false *)
Fixpoint dl_sweep (fuel : nat) (st : store) (it : diter) : res (list (option D) * bool) :=
  match fuel with
  | O => Ok ([], negb (iter_has_next it))
  | S f =>
    if iter_has_next it then
      '(x, it') <- iter_next st it;;
      '(l, b) <- dl_sweep f st it';;
      Ok (x :: l, b)
    else Ok ([], true)
  end.
Definition sweep_fuel (o : dl) : nat := Nat.add (Z.to_nat (dlen o)) 3.
Definition dl_iterate (st : store) (o : dl) : res (list (option D)) :=
  '(l, _) <- dl_sweep (sweep_fuel o) st (dl_iterator o);; Ok l.

(* ---------------------------------------------------------------------------------------- *)
(* dup (list interface) and done *)
Definition item_dup (st : store) (p : ptr) : res (store * ptr) :=
  match p with
  | None => Ok (st, None)                                     (* ASSERT_RVAL(!ISNULL(self), NULL) *)
  | Some _ =>
    nd <- rd st p;;
    let (st, tmp) := item_new st in
    st <- (match ndata nd with
           | Some d => set_data st tmp (Some d)               (* tmp->data = SPIF_OBJ_DUP(self->data) *)
           | None => Ok st
           end);;
    Ok (st, tmp)
  end.
(* for (src = self->head, dest = tmp->head, prev = NULL; src->next; src = src->next, prev = dest, dest = dest->next) *)
Fixpoint dup_loop (fuel : nat) (st : store) (src dest prev : ptr) : res (store * ptr * ptr) :=
  match fuel with
  | O => Fault Out_of_fuel
  | S f =>
    ns <- rd st src;;
    match nnext ns with
    | None => Ok (st, dest, prev)
    | Some _ =>
      '(st, c) <- item_dup st (nnext ns);;
      st <- set_next st dest c;;                              (* dest->next = item_dup(src->next) *)
      st <- set_prev st dest prev;;                           (* dest->prev = prev *)
      ns <- rd st src;;
      ndst <- rd st dest;;
      dup_loop f st (nnext ns) (nnext ndst) dest
    end
  end.
Definition dl_dup (st : store) (o : dl) : res (store * dl) :=
  match dhead o with
  | None => Ok (st, o)                                        (* memcpy of the empty object *)
  | Some _ =>
    let fuel := fuel_of st in
    '(st, h) <- item_dup st (dhead o);;
    '(st, dest, prev) <- dup_loop fuel st (dhead o) h None;;
    st <- set_prev st dest prev;;
    st <- set_next st dest None;;
    Ok (st, mkDl (dlen o) h dest)
  end.

Fixpoint done_loop (fuel : nat) (st : store) (cur : ptr) : res store :=
  match fuel with
  | O => Fault Out_of_fuel
  | S f =>
    match cur with
    | None => Ok st
    | Some _ => nc <- rd st cur;; st <- item_del st cur;; done_loop f st (nnext nc)
    end
  end.
Definition dl_done (st : store) (o : dl) : res (store * dl) :=
  if dlen o =? 0 then Ok (st, o)
  else st <- done_loop (fuel_of st) st (dhead o);; Ok (st, mkDl 0 None None).

(* ---------------------------------------------------------------------------------------- *)
(* level-B dump as harness/cont.c walks it: at most lim + 3 items, flag = walk was cut *)
Fixpoint dump_walk (sel : node -> ptr) (fuel : nat) (st : store) (cur : ptr)
  : res (list (option D) * bool) :=
  match cur with
  | None => Ok ([], false)
  | Some _ =>
    match fuel with
    | O => Ok ([], true)
    | S f => nd <- rd st cur;; '(l, b) <- dump_walk sel f st (sel nd);; Ok (ndata nd :: l, b)
    end
  end.
Record bdump : Type := mkDump { b_len : Z; b_next : list (option D); b_next_cut : bool;
                                b_prev : list (option D); b_prev_cut : bool;
                                b_hp : option bool; b_tn : option bool }.
Definition dl_dump (st : store) (o : dl) : res bdump :=
  let lim := Nat.add (if (0 <=? dlen o) && (dlen o <=? 4000) then Z.to_nat (dlen o) else O) 3 in
  '(nx, nc) <- dump_walk nnext lim st (dhead o);;
  '(pv, pc) <- dump_walk nprev lim st (dtail o);;
  hp <- (match dhead o with None => Ok None | Some _ => nd <- rd st (dhead o);; Ok (Some (negb (is_null (nprev nd)))) end);;
  tn <- (match dtail o with None => Ok None | Some _ => nd <- rd st (dtail o);; Ok (Some (negb (is_null (nnext nd)))) end);;
  Ok (mkDump (dlen o) nx nc pv pc hp tn).

End DL.

Arguments mkNode {D}. Arguments ndata {D}. Arguments nprev {D}. Arguments nnext {D}.
Arguments lookup {D}. Arguments rd {D}. Arguments modify {D}. Arguments set_data {D}.
Arguments set_prev {D}. Arguments set_next {D}. Arguments item_new {D}. Arguments item_del {D}.
Arguments fuel_of {D}. Arguments ocmp {D}. Arguments item_comp {D}. Arguments item_comp_p {D}.
Arguments dl_append {D}. Arguments dl_prepend {D}. Arguments scan {D}. Arguments eq_stop {D}.
Arguments data_of {D}. Arguments dl_find {D}. Arguments dl_contains {D}. Arguments dl_index {D}.
Arguments scan_ord {D}. Arguments vfind_act {D}. Arguments dl_vector_find {D}.
Arguments dl_vector_contains {D}. Arguments walk_fwd {D}. Arguments walk_back {D}.
Arguments locate {D}. Arguments dl_get {D}. Arguments unlink {D}. Arguments dl_remove {D}.
Arguments dl_remove_at {D}. Arguments ins_scan {D}. Arguments dl_insert {D}.
Arguments pad_loop {D}. Arguments back_to {D}. Arguments fwd_to {D}. Arguments dl_insert_at {D}.
Arguments rev_loop {D}. Arguments dl_reverse {D}. Arguments to_array_loop {D}.
Arguments dl_to_array {D}.
Arguments iter_next {D}. Arguments dl_sweep {D}. Arguments dl_iterate {D}. Arguments item_dup {D}.
Arguments dup_loop {D}. Arguments dl_dup {D}. Arguments done_loop {D}. Arguments dl_done {D}.
Arguments dump_walk {D}. Arguments dl_dump {D}.

(* ======================================================================================== *)
(* LIST and VECTOR interface: D = elem, SPIF_OBJ_COMP = spif_str_cmp = key_cmp on the texts *)
Definition ecmp (a b : elem) : comparison := key_cmp (ekey a) (ekey b).
Definition estate : Type := (store elem * dl)%type.
Definition e_init : estate := ([], dl_init).

(* what the harness does with the copy made by `dup`: count, iterator sweep, get(0..n-1), delete *)
Fixpoint gets_loop (st : store elem) (o : dl) (i : Z) (n : nat) : res (list (option elem)) :=
  match n with
  | O => Ok []
  | S n' => x <- dl_get st o i;; l <- gets_loop st o (i + 1) n';; Ok (x :: l)
  end.

Definition dl_list_step (s : estate) (op : lop) : res (estate * out) :=
  let (st, o) := s in
  match op with
  | LAppend e => '(st, o, b) <- dl_append st o (Some e);; Ok ((st, o), OBool b)
  | LPrepend e => '(st, o, b) <- dl_prepend st o (Some e);; Ok ((st, o), OBool b)
  | LInsert e => '(st, o, b) <- dl_insert ecmp st o (Some e);; Ok ((st, o), OBool b)
  | LInsertAt idx e => '(st, o, b) <- dl_insert_at st o (Some e) idx;; Ok ((st, o), OBool b)
  | LRemove p => '(st, o, r) <- dl_remove ecmp st o p;; Ok ((st, o), OElem r)
  | LRemoveAt idx => '(st, o, r) <- dl_remove_at st o idx;; Ok ((st, o), OElem r)
  | LGet idx => r <- dl_get st o idx;; Ok (s, OElem r)
  | LIndex p => r <- dl_index ecmp st o p;; Ok (s, OInt r)
  | LFind p => r <- dl_find ecmp st o p;; Ok (s, OElem r)
  | LContains p => r <- dl_contains ecmp st o p;; Ok (s, OBool r)
  | LCount => Ok (s, OInt (dlen o))
  | LReverse => '(st, o, b) <- dl_reverse st o;; Ok ((st, o), OBool b)
  | LToArray => r <- dl_to_array st o;; Ok (s, OElems r)
  | LIterate => r <- dl_iterate st o;; Ok (s, OElems r)
  | LDup =>
    '(st2, c) <- dl_dup st o;;
    swept <- dl_iterate st2 c;;
    got <- gets_loop st2 c 0 (Z.to_nat (dlen c));;
    '(st3, _) <- dl_done st2 c;;
    Ok ((st3, o), ODup (dlen c) (map slot_key swept) (map slot_key got))
  end.

Definition dl_vec_step (s : estate) (op : vop) : res (estate * out) :=
  let (st, o) := s in
  match op with
  | VInsert e => '(st, o, b) <- dl_insert ecmp st o (Some e);; Ok ((st, o), OBool b)
  | VRemove p => '(st, o, r) <- dl_remove ecmp st o (Some p);; Ok ((st, o), OElem r)
  | VFind p => r <- dl_vector_find ecmp st o (Some p);; Ok (s, OElem r)
  | VContains p => r <- dl_vector_contains ecmp st o (Some p);; Ok (s, OBool r)
  | VCount => Ok (s, OInt (dlen o))
  | VIterate => r <- dl_iterate st o;; Ok (s, OElems r)
  | VToArray => r <- dl_to_array st o;; Ok (s, OElems r)
  end.

(* ======================================================================================== *)
(* MAP interface: D = key * key - the objpair made by spif_objpair_new_from_both, which holds
   COPIES (SPIF_OBJ_DUP) of the caller's key and value; spif_objpair_comp compares the key *)
Notation pair := (key * key)%type (only parsing).
Definition pcmp (a b : pair) : comparison := key_cmp (fst a) (fst b).
Definition mstate_m : Type := (store pair * dl)%type.
Definition m_init : mstate_m := ([], dl_init).

(* SPIF_OBJ_COMP(current->data, key): the comp method of current->data is called, NULL data faults *)
Definition pair_vs_key (d : option pair) (k : key) : res comparison :=
  match d with None => Fault Null_deref | Some p => Ok (key_cmp (fst p) k) end.
Definition key_stop (k : key) (d : option pair) : res bool :=
  c <- pair_vs_key d k;; Ok (is_eq c).

(* spif_dlinked_list_map_get: ASSERT_RVAL on NULL data, EQUAL returns the value, GREATER breaks *)
Definition mget_act (k : key) (d : option pair) : act :=
  match d with
  | None => Stop
  | Some p => match key_cmp (fst p) k with Eq => Found | Gt => Stop | Lt => Next end
  end.
Definition dl_map_get (st : store pair) (o : dl) (k : key) : res (option key) :=
  r <- scan_ord (fuel_of st) st (dhead o) (mget_act k);;
  Ok (match r with Some p => Some (snd p) | None => None end).
Definition dl_has_key (st : store pair) (o : dl) (k : key) : res bool :=
  r <- dl_map_get st o k;; Ok (is_some r).

(* spif_dlinked_list_has_value (value non-NULL): pair = current->data; COMP(pair->value, value) *)
Definition value_stop (v : key) (d : option pair) : res bool :=
  match d with None => Fault Null_deref | Some p => Ok (is_eq (key_cmp (snd p) v)) end.
Definition dl_has_value (st : store pair) (o : dl) (v : key) : res bool :=
  '(cur, _) <- scan (fuel_of st) st (dhead o) (value_stop v) 0;; Ok (negb (is_null cur)).

(* spif_dlinked_list_set (key, value non-NULL strings) *)
Definition dl_set (st : store pair) (o : dl) (k v : key) : res (store pair * dl * bool) :=
  '(cur, _) <- scan (fuel_of st) st (dhead o) (key_stop k) 0;;
  if is_null cur then
    '(st, o, _) <- dl_insert pcmp st o (Some (k, v));;          (* spif_objpair_new_from_both(key, value) *)
    Ok (st, o, false)
  else
    nc <- rd st cur;;
    match ndata nc with
    | None => Fault Null_deref
    | Some p => st <- set_data st cur (Some (fst p, v));;       (* spif_objpair_set_value(pair, DUP(value)) *)
                Ok (st, o, true)
    end.

(* spif_dlinked_list_map_remove *)
(* for (current = head; current->next && !EQUAL(COMP(current->next->data, item)); current = current->next) *)
Fixpoint mrem_scan (fuel : nat) (st : store pair) (cur : ptr) (k : key) : res ptr :=
  match fuel with
  | O => Fault Out_of_fuel
  | S f =>
    nc <- rd st cur;;
    match nnext nc with
    | None => Ok cur
    | Some _ =>
      nn <- rd st (nnext nc);;
      c <- pair_vs_key (ndata nn) k;;
      if is_eq c then Ok cur else mrem_scan f st (nnext nc) k
    end
  end.
Definition dl_map_remove (st : store pair) (o : dl) (k : key) : res (store pair * dl * option pair) :=
  match dhead o with
  | None => Ok (st, o, None)
  | Some _ =>
    nh <- rd st (dhead o);;
    c <- pair_vs_key (ndata nh) k;;
    r <- (if is_eq c then
            let tmp := dhead o in
            let o := mkDl (dlen o) (nnext nh) (dtail o) in       (* self->head = self->head->next *)
            if is_null (dhead o) then Ok (st, mkDl (dlen o) (dhead o) None, tmp)
            else st <- set_prev st (dhead o) None;; Ok (st, o, tmp)
          else
            cur <- mrem_scan (fuel_of st) st (dhead o) k;;
            nc <- rd st cur;;
            if is_null (nnext nc) then Ok (st, o, None)
            else
              let tmp := nnext nc in
              nt <- rd st tmp;;
              st <- set_next st cur (nnext nt);;                 (* current->next = current->next->next *)
              nc <- rd st cur;;
              if is_null (nnext nc) then Ok (st, mkDl (dlen o) (dhead o) cur, tmp)
              else st <- set_prev st (nnext nc) cur;; Ok (st, o, tmp));;
    let '(st, o, tmp) := r in
    if is_null tmp then Ok (st, o, None)
    else
      nt <- rd st tmp;;
      let item := ndata nt in
      st <- set_data st tmp None;;
      st <- item_del st tmp;;
      Ok (st, dec_len o, item)
  end.

(* get_keys / get_values / get_pairs append copies to a list of another class; the sequence of
   texts handed over is what is modelled *)
Fixpoint collect (fuel : nat) (st : store pair) (cur : ptr) : res (list pair) :=
  match fuel with
  | O => Fault Out_of_fuel
  | S f =>
    match cur with
    | None => Ok []
    | Some _ =>
      nc <- rd st cur;;
      match ndata nc with
      | None => Fault Null_deref
      | Some p => l <- collect f st (nnext nc);; Ok (p :: l)
      end
    end
  end.
Definition dl_get_pairs (st : store pair) (o : dl) : res (list pair) := collect (fuel_of st) st (dhead o).

Fixpoint all_some {A} (l : list (option A)) : option (list A) :=
  match l with
  | [] => Some []
  | None :: _ => None
  | Some x :: t => match all_some t with Some r => Some (x :: r) | None => None end
  end.

Definition dl_map_step (s : mstate_m) (op : mop) : res (mstate_m * out) :=
  let (st, o) := s in
  match op with
  | MSet k v => '(st, o, b) <- dl_set st o k v;; Ok ((st, o), OBool b)
  | MGet k => r <- dl_map_get st o k;; Ok (s, OText r)
  | MRemove k => '(st, o, r) <- dl_map_remove st o k;; Ok ((st, o), OPair r)
  | MHasKey k => r <- dl_has_key st o k;; Ok (s, OBool r)
  | MHasValue v => r <- dl_has_value st o v;; Ok (s, OBool r)
  | MCount => Ok (s, OInt (dlen o))
  | MGetKeys => r <- dl_get_pairs st o;; Ok (s, OTexts (map fst r))
  | MGetValues => r <- dl_get_pairs st o;; Ok (s, OTexts (map snd r))
  | MGetPairs => r <- dl_get_pairs st o;; Ok (s, OPairs r)
  | MIterate => r <- dl_iterate st o;;
                match all_some r with Some l => Ok (s, OPairs l) | None => Fault Null_deref end
  | MMutK _ | MMutV _ | MDelK | MDelV | MNewPair => Ok (s, OUnit)   (* the caller's own objects: the map holds copies *)
  end.

(* ======================================================================================== *)
(* histories *)
Fixpoint run_model {S O} (step : S -> O -> res (S * out)) (s : S) (ops : list O) : res (S * list out) :=
  match ops with
  | [] => Ok (s, [])
  | op :: t => '(s1, r) <- step s op;; '(s2, rs) <- run_model step s1 t;; Ok (s2, r :: rs)
  end.
